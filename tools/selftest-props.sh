#!/bin/bash
# tools/selftest-props.sh <jobs> Cxx [Cyy …] — like tools/selftest.sh, restricted to the kept seeds of
# the named properties (used after a property's model / harness changed).
J=${1:-4}; shift
cd /verif
for p in "$@"; do ls -d seeded/$p-*/ 2>/dev/null; done | while read d; do
  id=$(basename $d); prop=$(python3 -c "import json;m=json.load(open('$d/meta.json'));print(m['property'] if not m.get('superseded_by_fix') else 'SUPERSEDED')")
  if [ "$prop" = SUPERSEDED ]; then echo "RESULT $id superseded by a fix commit (kept for the record, not run)" >&2; continue; fi
  echo "$d/patch.diff $prop"
done | xargs -P $J -L 1 sh -c 'tools/seedtest.sh $0 $1 quick 2>&1 | grep "^RESULT"' | sort
