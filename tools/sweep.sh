#!/bin/bash
# tools/sweep.sh [tier] [seeds...] — runs every claimed check for several VERIF_SEED values on the
# current /repo and prints one line per (property, seed).  Exit 1 if any run was not OK.
TIER=${1:-quick}; shift
SEEDS=${@:-2 3 4 5}
export GOFLAGS=-mod=mod GOPROXY=off GOSUMDB=off GOTOOLCHAIN=local
cd /verif
rc=0
for s in $SEEDS; do
  for p in $(ls props | sed 's/.json//'); do
    out=$(VERIF_SEED=$s ./check $p --tier $TIER 2>&1 | grep -E '^(OK|VIOLATION)' | head -1 | cut -c1-150)
    echo "seed=$s $out"
    case "$out" in OK*) ;; *) rc=1;; esac
  done
done
exit $rc
