#!/bin/bash
# tools/seedtest.sh <patch.diff> <Cxx> [tier] [demo-file] [demo-pkg-dir]
# Applies a seeded change to a scratch worktree of /repo, confirms it compiles and passes the
# repo's own suite, optionally runs the demonstration (must fail with the patch), then runs the
# property's check from a private copy of /verif against that worktree.  Everything is removed
# afterwards.  Prints a one-line verdict: CAUGHT / MISSED.
set -u
PATCH=$(readlink -f "$1"); PID=$2; TIER=${3:-quick}; DEMO=${4:-}; DEMOPKG=${5:-.}
export GOFLAGS=-mod=mod GOPROXY=off GOSUMDB=off GOTOOLCHAIN=local
W=$(mktemp -d /tmp/mt-XXXXXX)
trap 'git -C /repo worktree remove --force $W/repo >/dev/null 2>&1; rm -rf $W' EXIT
git -C /repo worktree add --detach $W/repo HEAD -q || exit 2
if ! git -C $W/repo apply "$PATCH"; then echo "RESULT $PID $(basename $(dirname $PATCH)): patch does not apply"; exit 2; fi
(cd $W/repo && go build ./... ) || { echo "RESULT $PID: does not compile"; exit 2; }
if (cd $W/repo && go test -vet=off -count=1 ./... > $W/suite.log 2>&1); then SUITE=pass; else SUITE=FAIL; fi
DEMORES=n/a
if [ -n "$DEMO" ]; then
  cp "$DEMO" $W/repo/$DEMOPKG/zz_demo_test.go
  if (cd $W/repo/$DEMOPKG && go test -vet=off -count=1 -run . . > $W/demo.log 2>&1); then DEMORES="passes-with-patch(!)"; else DEMORES=fails-with-patch; fi
  rm -f $W/repo/$DEMOPKG/zz_demo_test.go
fi
rsync -a --exclude .git --exclude replays --exclude evidence /verif/ $W/verif/
(cd $W/verif && VERIF_REPO=$W/repo timeout 3600 ./check $PID --tier $TIER > $W/check.log 2>&1); RC=$?
V=$(grep -m1 '^VIOLATION' $W/check.log)
if [ $RC -eq 1 ] && [ -n "$V" ]; then VERDICT=CAUGHT; else VERDICT=MISSED; fi
echo "RESULT $PID $(basename $(dirname $PATCH)) suite=$SUITE demo=$DEMORES check_rc=$RC $VERDICT"
grep -E '^(FAILING-INPUT|DISAGREEMENT|BROKEN-OBLIGATION|OK|ERROR)' $W/check.log | cut -c1-400 | head -6
grep -E '^VIOLATION' $W/check.log | head -2
echo "counts: failing-input=$(grep -c '^FAILING-INPUT' $W/check.log) disagreement=$(grep -c '^DISAGREEMENT' $W/check.log) broken-obligation=$(grep -c '^BROKEN-OBLIGATION' $W/check.log) known=$(grep -c '^KNOWN-FINDING' $W/check.log)"
