#!/bin/bash
# tools/commit.sh "message" — commit /verif only if the shared parts are sane: the driver builds,
# every claimed property module builds, the manifest validates.  (Builders deliver into /verif while
# the lead commits; this keeps half-delivered files out of a broken commit.)
set -e
cd /verif
python3 tools/mkmanifest.py >/dev/null
MODS=$(python3 -c "
import json,os
m=[]
for f in sorted(os.listdir('props')):
    if f.endswith('.json'):
        for x in json.load(open('props/'+f))['lean_modules']:
            if x not in m: m.append(x)
print(' '.join(m))")
(cd lean && lake build driver $MODS 2>&1 | grep -E "^(error|✖)" | head -5; test ${PIPESTATUS[0]} -eq 0) || { echo "NOT COMMITTED: lake build failed"; exit 1; }
(cd harness && GOFLAGS=-mod=mod GOPROXY=off GOSUMDB=off GOTOOLCHAIN=local go vet -tags verif . >/dev/null 2>&1 || GOFLAGS=-mod=mod GOPROXY=off GOSUMDB=off GOTOOLCHAIN=local go build -tags verif -o /dev/null .) || { echo "NOT COMMITTED: harness does not build"; exit 1; }
python3 -c "import json;json.load(open('MANIFEST.json'));json.load(open('known_findings.json'));json.load(open('not_applicable.json'))"
git add -A && git commit -qm "$1" && echo "committed: $1"
