#!/bin/bash
# tools/selftest.sh [jobs]  — runs every kept seeded change against the check of its property
# (tools/seedtest.sh, private copy of /verif, scratch worktree of /repo) and prints one line each.
# A seed whose patch no longer applies on the current /repo HEAD is reported as such.
J=${1:-6}
cd /verif
ls -d seeded/*/ | while read d; do
  id=$(basename $d); prop=$(python3 -c "import json;m=json.load(open('$d/meta.json'));print(m['property'] if not m.get('superseded_by_fix') else 'SUPERSEDED')")
  if [ "$prop" = SUPERSEDED ]; then echo "RESULT $id superseded by a fix commit (kept for the record, not run)" >&2; continue; fi
  echo "$d/patch.diff $prop"
done | xargs -P $J -L 1 sh -c 'tools/seedtest.sh $0 $1 quick 2>&1 | grep "^RESULT"' | sort
