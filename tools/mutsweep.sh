#!/bin/bash
# tools/mutsweep.sh <worker-id> <listfile> <outfile>
# Mutation sweep worker.  Each line of <listfile> is "<file> <k> <P1,P2,…>": mutation point k of
# /repo/<file> (tools/mutate) is applied in a private worktree; when the mutant compiles and the
# repository's own suite still passes, the quick checks of the properties anchored in that file
# are run against it from a private copy of /verif.  One result line per mutant goes to <outfile>:
#   <file> <k> nobuild | suite-kills | CAUGHT:<P>(f=..,d=..,o=..) … | SURVIVES
# Diffs of survivors are kept under /tmp/mut-survivors/.  Everything else is removed at the end.
set -u
ID=$1; LIST=$2; OUT=$3
export GOFLAGS=-mod=mod GOPROXY=off GOSUMDB=off GOTOOLCHAIN=local
W=/tmp/ms-$ID
rm -rf $W; mkdir -p $W /tmp/mut-survivors
trap 'git -C /repo worktree remove --force $W/repo >/dev/null 2>&1; rm -rf $W' EXIT
git -C /repo worktree add --detach $W/repo HEAD -q || exit 2
rsync -a --exclude .git --exclude replays --exclude evidence --exclude seeded --exclude refactors /verif/ $W/verif/
while read -r file k props; do
  git -C $W/repo checkout -q -- . ; git -C $W/repo clean -fdq
  desc=$(/verif/.build/mutate apply /repo/$file $k $W/repo/$file 2>/dev/null) || { echo "$file $k bad-index" >> $OUT; continue; }
  if ! (cd $W/repo && go build ./... >/dev/null 2>&1); then echo "$file $k nobuild | $desc" >> $OUT; continue; fi
  if ! (cd $W/repo && timeout 600 go test -vet=off -count=1 ./... >/dev/null 2>&1); then echo "$file $k suite-kills | $desc" >> $OUT; continue; fi
  res=""; caught=0
  for p in ${props//,/ }; do
    (cd $W/verif && VERIF_REPO=$W/repo VERIF_NO_EXTENDED_SEARCH=1 timeout 1800 ./check $p --tier quick > $W/check.log 2>&1); rc=$?
    f=$(grep -c '^FAILING-INPUT' $W/check.log); d=$(grep -c '^DISAGREEMENT' $W/check.log); o=$(grep -c '^BROKEN-OBLIGATION' $W/check.log)
    if [ $rc -eq 1 ] && grep -q '^VIOLATION' $W/check.log; then res="$res CAUGHT:$p(f=$f,d=$d,o=$o)"; caught=1; [ $f -gt 0 ] && break; else res="$res missed:$p(rc=$rc)"; fi
  done
  if [ $caught -eq 0 ]; then
    res="SURVIVES$res"; git -C $W/repo diff > /tmp/mut-survivors/$(echo $file | tr '/' '_')-$k.diff
  fi
  echo "$file $k $res | $desc" >> $OUT
done < $LIST
