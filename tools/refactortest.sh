#!/bin/bash
# tools/refactortest.sh [jobs]  — runs every kept behaviour-preserving refactoring (refactors/*/)
# against the check of its property (tools/seedtest.sh: scratch worktree, private copy of /verif)
# and prints, per refactoring, whether the check stays OK or reports, and through what
# (failing input / correspondence / obligation).  A failing input or a disagreement here is a
# false alarm of the machinery; a broken obligation alone is the `no-failing-input-found` report.
J=${1:-4}
cd /verif
ls -d refactors/*/ | while read d; do
  prop=$(python3 -c "import json;print(json.load(open('$d/meta.json'))['property'])")
  echo "$d $prop"
done | xargs -P $J -L 1 sh -c 'o=$(tools/seedtest.sh $0/patch.diff $1 quick 2>&1); r=$(echo "$o" | grep "^RESULT" | sed "s/CAUGHT/REPORTS/; s/MISSED/OK/"); c=$(echo "$o" | grep "^counts"); b=$(echo "$o" | grep -m1 "^BROKEN-OBLIGATION" | cut -c1-160); echo "$(basename $0) $r | $c | $b"' | sort
