// mutate: a small source mutator for the mutation sweep (tools/mutsweep.sh).
//
//	mutate list  <file.go>            one line per mutation point: index, position, description
//	mutate apply <file.go> <k> <out>  writes the file with mutation point k applied
//
// Mutation points: comparison / logic / additive operators swapped with their neighbour, integer
// literals incremented, `if` conditions negated, expression statements (calls) deleted.
package main

import (
	"bytes"
	"fmt"
	"go/ast"
	"go/parser"
	"go/printer"
	"go/token"
	"os"
	"strconv"
)

var swap = map[token.Token]token.Token{
	token.LSS: token.LEQ, token.LEQ: token.LSS, token.GTR: token.GEQ, token.GEQ: token.GTR,
	token.EQL: token.NEQ, token.NEQ: token.EQL, token.LAND: token.LOR, token.LOR: token.LAND,
	token.ADD: token.SUB, token.SUB: token.ADD,
}

type point struct {
	pos   token.Pos
	desc  string
	apply func()
}

func points(fset *token.FileSet, file *ast.File) []point {
	var ps []point
	ast.Inspect(file, func(n ast.Node) bool {
		switch n := n.(type) {
		case *ast.GenDecl:
			if n.Tok == token.IMPORT {
				return false
			}
		case *ast.BinaryExpr:
			if to, ok := swap[n.Op]; ok {
				// string concatenation: `+` -> `-` does not compile; keep it, the build filters it
				from := n.Op
				nn := n
				ps = append(ps, point{n.OpPos, fmt.Sprintf("%s -> %s", from, to), func() { nn.Op = to }})
			}
		case *ast.BasicLit:
			if n.Kind == token.INT {
				if v, err := strconv.ParseInt(n.Value, 0, 64); err == nil {
					nn := n
					ps = append(ps, point{n.Pos(), fmt.Sprintf("%s -> %d", n.Value, v+1), func() { nn.Value = strconv.FormatInt(v+1, 10) }})
				}
			}
		case *ast.IfStmt:
			nn := n
			ps = append(ps, point{n.Cond.Pos(), "if condition negated", func() {
				nn.Cond = &ast.UnaryExpr{Op: token.NOT, X: &ast.ParenExpr{X: nn.Cond}}
			}})
		case *ast.BlockStmt:
			for i, st := range n.List {
				if es, ok := st.(*ast.ExprStmt); ok {
					if _, ok := es.X.(*ast.CallExpr); ok {
						blk, idx := n, i
						ps = append(ps, point{st.Pos(), "call statement deleted", func() { blk.List[idx] = &ast.EmptyStmt{Implicit: false, Semicolon: blk.List[idx].Pos()} }})
					}
				}
			}
		}
		return true
	})
	return ps
}

func main() {
	if len(os.Args) < 3 {
		os.Exit(2)
	}
	fset := token.NewFileSet()
	file, err := parser.ParseFile(fset, os.Args[2], nil, parser.ParseComments)
	if err != nil {
		fmt.Fprintln(os.Stderr, err)
		os.Exit(1)
	}
	ps := points(fset, file)
	switch os.Args[1] {
	case "list":
		for i, p := range ps {
			fmt.Printf("%d %s %s\n", i, fset.Position(p.pos), p.desc)
		}
	case "apply":
		k, _ := strconv.Atoi(os.Args[3])
		if k < 0 || k >= len(ps) {
			os.Exit(3)
		}
		ps[k].apply()
		var buf bytes.Buffer
		if err := printer.Fprint(&buf, fset, file); err != nil {
			fmt.Fprintln(os.Stderr, err)
			os.Exit(1)
		}
		if err := os.WriteFile(os.Args[4], buf.Bytes(), 0o644); err != nil {
			os.Exit(1)
		}
		fmt.Printf("%s %s\n", fset.Position(ps[k].pos), ps[k].desc)
	}
}
