module mutate

go 1.13
