#!/usr/bin/env python3
"""tools/keepseed.py <src dir> <seed id> <property> <verdict> "<what ran / notes>"
Archives a confirmed seeded change under /verif/seeded/<seed id>/ (patch.diff, demonstration, meta.json)."""
import sys, os, shutil, json, re
src, sid, prop, verdict, ran = sys.argv[1:6]
dst = os.path.join("/verif/seeded", sid)
os.makedirs(dst, exist_ok=True)
for f in os.listdir(src):
    if f.endswith((".diff", ".go", ".md")):
        shutil.copy(os.path.join(src, f), os.path.join(dst, f))
notes = open(os.path.join(src, "notes.md")).read() if os.path.exists(os.path.join(src, "notes.md")) else ""
needs = ""
m = re.search(r"(?is)(needs?[^\n]*manifest[^\n]*\n(?:.*?\n){0,6})", notes)
if m:
    needs = m.group(1).strip()[:800]
json.dump(dict(property=prop, seed=sid, source="fresh sub-agent given only the property text and a scratch worktree of /repo",
               needs_to_manifest=needs or "see notes.md", confirmed="applied to a scratch worktree of /repo HEAD: go build ok, unedited go test ./... passes, demonstration fails with the patch (and passes without, per the seeder's notes)",
               check_verdict=verdict, ran=ran), open(os.path.join(dst, "meta.json"), "w"), indent=1)
print("kept", dst)
