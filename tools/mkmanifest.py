#!/usr/bin/env python3
"""Regenerates /verif/MANIFEST.json from props.json (claimed checks) and not_applicable.json."""
import json, os
V = os.path.dirname(os.path.dirname(os.path.abspath(__file__)))
props = {f[:-5]: json.load(open(os.path.join(V, "props", f))) for f in sorted(os.listdir(os.path.join(V, "props"))) if f.endswith(".json")}
na = json.load(open(os.path.join(V, "not_applicable.json")))
allids = [json.loads(l)["id"] for l in open(os.path.join(V, "properties.jsonl"))]
checks = []
for pid in allids:
    if pid not in props:
        continue
    s = props[pid]
    checks.append(dict(
        property_id=pid,
        quick_cmd="./check %s --tier quick" % pid,
        thorough_cmd="./check %s --tier thorough" % pid,
        evidence_file="/verif/evidence/%s.json" % pid,
        replay_cmd_template="./check %s --replay {path}" % pid,
        engine="lean4+gvh",
        level_claimed=dict(category="proof", text=s["level_text"], design_ref=s.get("design_ref", "DESIGN.md section 8")),
        level_note=s["level_note"],
        technique=s["technique"]))
manifest = dict(
    version=1,
    setup_cmd="./setup.sh",
    hooks=dict(guard="verif", enable="go build -tags verif (the harness is built with -tags verif; no hook files exist in /repo at present)",
               baseline_off_cmd="cd /repo && go test -vet=off -count=1 ./...",
               source_commits=[], add_only=True),
    engines=[dict(name="lean4+gvh", path="/verif/check",
                  serves_properties=[c["property_id"] for c in checks],
                  kind_free_text="Lean 4 model + kernel-checked theorems (lean/), facts regenerated from /repo by gvh extract, differential correspondence and direct property oracle by the Go harness (harness/) through a line protocol with the compiled Lean driver")],
    checks=checks,
    notes="See DESIGN.md. known_findings.json lists genuine defects recorded rather than repaired and the fix: commits made.",
    not_applicable=[dict(property_id=p, reason=na[p]) for p in allids if p not in props])
json.dump(manifest, open(os.path.join(V, "MANIFEST.json"), "w"), indent=1)
print("MANIFEST.json:", len(checks), "checks,", len(manifest["not_applicable"]), "not applicable")
