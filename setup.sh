#!/bin/sh
# MANIFEST.setup_cmd: build everything from files on disk, offline.
set -e
cd "$(dirname "$0")"
export GOFLAGS=-mod=mod GOPROXY=off GOSUMDB=off GOTOOLCHAIN=local
mkdir -p .build evidence replays
REPO="${VERIF_REPO:-/repo}"
sed "s#=> /repo#=> $REPO#" harness/go.mod > .build/harness.mod
cp "$REPO/go.sum" .build/harness.sum
(cd harness && go build -modfile ../.build/harness.mod -tags verif -o ../.build/gvh .)
./.build/gvh extract lean/Gedcom/Generated
MODS=$(python3 - <<'PY'
import json, os
mods = []
for f in sorted(os.listdir("props")):
    if f.endswith(".json"):
        for m in json.load(open(os.path.join("props", f)))["lean_modules"]:
            if m not in mods:
                mods.append(m)
print(" ".join(mods))
PY
)
(cd lean && lake build driver $MODS)
echo setup done
