#!/bin/sh
# MANIFEST.setup_cmd: build everything from files on disk, offline.
set -e
cd "$(dirname "$0")"
export GOFLAGS=-mod=mod GOPROXY=off GOSUMDB=off GOTOOLCHAIN=local
mkdir -p .build evidence replays
REPO="${VERIF_REPO:-/repo}"
sed "s#=> /repo#=> $REPO#" harness/go.mod > .build/harness.mod
cp "$REPO/go.sum" .build/harness.sum
(cd harness && go build -modfile ../.build/harness.mod -tags verif -o ../.build/gvh .)
./.build/gvh extract lean/Gedcom/Generated
(cd lean && lake build)
echo setup done
