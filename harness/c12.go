package main

import (
	"fmt"
	"math"
	"math/big"
	"sort"
	"strconv"
	"strings"

	"github.com/elliotchance/gedcom/v39"
)

// ---------- rationals on the wire -------------------------------------------------------------

type c12rat struct{ n, d int64 }

func (r c12rat) f() float64 { return float64(r.n) / float64(r.d) }
func (r c12rat) String() string {
	if r.d == 1 {
		return strconv.FormatInt(r.n, 10)
	}
	return fmt.Sprintf("%d/%d", r.n, r.d)
}

func c12fl(x float64) string { return strconv.FormatFloat(x, 'g', 17, 64) }

func c12bit(b bool) string {
	if b {
		return "1"
	}
	return "0"
}

// c12close compares one float64 of the implementation with one exact fraction of the model.
func c12close(impl, model string) bool {
	x, err := strconv.ParseFloat(impl, 64)
	if err != nil || math.IsNaN(x) {
		return impl == "NaN" && model == "nan"
	}
	r, ok := new(big.Rat).SetString(model)
	if !ok {
		return false
	}
	e, _ := r.Float64()
	return math.Abs(e-x) < 1e-9
}

// ---------- options ------------------------------------------------------------------------------

type c12opts struct {
	def                                   bool
	maxYears, minSim, minWeighted         c12rat
	iw, pw, sw, cw, ratio, boost, prefPtr c12rat
	prefix                                int
}

func (o c12opts) wire() string {
	if o.def {
		return "default"
	}
	return fmt.Sprintf("%s,%s,%s,%s,%s,%s,%s,%s,%s,%d,%s", o.maxYears, o.minSim, o.minWeighted, o.iw, o.pw, o.sw, o.cw,
		o.ratio, o.boost, o.prefix, o.prefPtr)
}

func (o c12opts) Go() gedcom.SimilarityOptions {
	if o.def {
		return gedcom.NewSimilarityOptions()
	}
	return gedcom.SimilarityOptions{
		MaxYears: o.maxYears.f(), MinimumSimilarity: o.minSim.f(), MinimumWeightedSimilarity: o.minWeighted.f(),
		IndividualWeight: o.iw.f(), ParentsWeight: o.pw.f(), SpousesWeight: o.sw.f(), ChildrenWeight: o.cw.f(),
		NameToDateRatio: o.ratio.f(), JaroBoostThreshold: o.boost.f(), JaroPrefixSize: o.prefix,
		PreferPointerAbove: o.prefPtr.f(),
	}
}

var c12thresholds = []c12rat{{0, 1}, {1, 4}, {1, 2}, {733, 1000}, {9, 10}, {1, 1}}
var c12boosts = []c12rat{{0, 1}, {0, 1}, {1, 2}, {7, 10}, {9, 10}, {1, 1}}
var c12maxYears = []c12rat{{3, 1}, {1, 1}, {2, 1}, {5, 1}, {10, 1}, {1, 2}, {25, 1}, {7, 2}}
var c12ratios = []c12rat{{1, 2}, {0, 1}, {1, 4}, {3, 4}, {1, 1}, {1, 3}}

// c12randOpts: default options half of the time; otherwise random options inside the property's
// configurations: non-negative weights summing to 1, prefix size <= 10, MaxYears > 0, ratio in [0,1].
func c12randOpts(r *Rand) c12opts {
	if r.Chance(1, 2) {
		return c12opts{def: true}
	}
	// four non-negative integers summing to 20
	cut := []int{r.Intn(21), r.Intn(21), r.Intn(21)}
	for i := 0; i < 3; i++ {
		for j := i + 1; j < 3; j++ {
			if cut[j] < cut[i] {
				cut[i], cut[j] = cut[j], cut[i]
			}
		}
	}
	w := []int64{int64(cut[0]), int64(cut[1] - cut[0]), int64(cut[2] - cut[1]), int64(20 - cut[2])}
	if r.Chance(1, 2) { // realistic: most weight on the individual
		w = []int64{16, 0, 0, 0}
		for k := 0; k < 4; k++ {
			w[1+r.Intn(3)]++
		}
	}
	pick := func(xs []c12rat) c12rat { return xs[r.Intn(len(xs))] }
	o := c12opts{maxYears: pick(c12maxYears), minSim: pick(c12thresholds), minWeighted: pick(c12thresholds),
		iw: c12rat{w[0], 20}, pw: c12rat{w[1], 20}, sw: c12rat{w[2], 20}, cw: c12rat{w[3], 20},
		ratio: pick(c12ratios), boost: pick(c12boosts), prefPtr: pick(c12thresholds), prefix: r.Intn(11)}
	// "weights summing to 1" must hold for the float64 values the code is given, in the arithmetic
	// it uses (0.8+0.05+0.05+0.1 is 1.0000000000000002 in float64): such a vector is not inside the
	// property's configurations; twentieths are then replaced by the nearest sixteenths (exact).
	if g := o.Go(); g.IndividualWeight+g.ParentsWeight+g.SpousesWeight+g.ChildrenWeight != 1 {
		v := []int64{w[0] * 16 / 20, w[1] * 16 / 20, w[2] * 16 / 20, 0}
		v[3] = 16 - v[0] - v[1] - v[2]
		o.iw, o.pw, o.sw, o.cw = c12rat{v[0], 16}, c12rat{v[1], 16}, c12rat{v[2], 16}, c12rat{v[3], 16}
	}
	return o
}

// ---------- the oracle on float64 values ---------------------------------------------------------

func c12inUnit(x float64) bool { return x >= 0 && x <= 1 }

func (k *c12run) bounds(what string, in interface{}, xs ...float64) {
	for _, x := range xs {
		if !c12inUnit(x) {
			k.c.Oracle("", what+" lies outside [0,1]", in, c12fl(x), "0 <= score <= 1")
		}
	}
}

func (k *c12run) symm(what string, in interface{}, ab, ba float64) {
	if ab != ba {
		k.c.Oracle("", what+" depends on the operand order", in, c12fl(ab)+" vs swapped "+c12fl(ba), "equal")
	}
}

type c12run struct {
	c    *Ctx
	r    *Rand
	laws map[c12rat][]c12lawPt
}

// c12lawPt: one evaluated pair of dates on the implementation: distance in years on the Years() scale,
// the score, and the two DATE values.
type c12lawPt struct {
	d, sim float64
	a, b   string
}

// checkLaws: over everything evaluated under one MaxYears, the score must be a function of the distance
// in years only and must never increase with it (float64 values, tolerance 1e-12); distance 0 scores 1.
func (k *c12run) checkLaws() {
	c := k.c
	for my, pts := range k.laws {
		sort.SliceStable(pts, func(i, j int) bool { return pts[i].d < pts[j].d })
		lo := -1 // index of the lowest score among strictly or equally nearer pairs
		for i, p := range pts {
			if p.d == 0 && p.sim != 1 {
				c.Oracle("", "dates zero years apart do not score 1", map[string]interface{}{"a": p.a, "b": p.b, "maxYears": my.String()}, c12fl(p.sim), "1")
			}
			if lo >= 0 && p.sim > pts[lo].sim+1e-12 {
				q := pts[lo]
				what := "date similarity increases with the distance in years"
				if q.d == p.d {
					what = "date similarity differs at equal distance in years"
				}
				c.Oracle("", what, map[string]interface{}{"nearer": []string{q.a, q.b}, "nearer_years_apart": q.d,
					"farther": []string{p.a, p.b}, "farther_years_apart": p.d, "maxYears": my.String()},
					c12fl(q.sim)+" < "+c12fl(p.sim), "the nearer pair scores at least as high")
			}
			if lo < 0 || p.sim < pts[lo].sim {
				lo = i
			}
		}
		c.Count("date:distance-law-groups")
	}
}

// ---------- strings --------------------------------------------------------------------------------

// raw Jaro-Winkler layer on byte strings
func (k *c12run) jw(a, b string, boost c12rat, prefix int, tie bool) {
	c := k.c
	defer func() {
		if r := recover(); r != nil {
			c.Oracle("", "JaroWinkler panicked instead of returning a score", map[string]interface{}{"a": a, "b": b, "boost": boost.String(), "prefix": prefix}, fmt.Sprint(r), "a score in [0,1]")
		}
	}()
	if tie {
		gedcom.JaroWinkler(a, b, c12otherBoost(boost).f(), prefix) // history probe, one direction only
	}
	j := gedcom.JaroWinkler(a, b, 1, 0) // threshold 1: the plain Jaro value is returned
	jr := gedcom.JaroWinkler(b, a, 1, 0)
	w := gedcom.JaroWinkler(a, b, boost.f(), prefix)
	wr := gedcom.JaroWinkler(b, a, boost.f(), prefix)
	in := map[string]interface{}{"a": a, "b": b, "boost": boost.String(), "prefix": prefix}
	k.bounds("Jaro", in, j, jr)
	k.bounds("JaroWinkler", in, w, wr)
	k.symm("Jaro", in, j, jr)
	k.symm("JaroWinkler", in, w, wr)
	if a == b && a != "" && (j != 1 || w != 1) {
		c.Oracle("", "Jaro/JaroWinkler of a non-empty string with itself is not 1", in, c12fl(j)+" "+c12fl(w), "1")
	}
	c.Eval()
	if tie {
		c.Tie("jaro "+hexs(a)+" "+hexs(b), c12fl(j))
		c.Tie("jarof "+hexs(a)+" "+hexs(b), c05f64(j)) // the float64 value, bit for bit
		c.Count("jarof")
		c.Tie(fmt.Sprintf("jw %s %s %s %d", hexs(a), hexs(b), boost, prefix), c12fl(w))
		if boost.n >= 0 && boost.d > 0 {
			c.Tie(fmt.Sprintf("jwf %s %s %s %d", hexs(a), hexs(b), boost, prefix), c05f64(w)) // bit for bit
			c.Count("jwf")
		}
	}
}

// c12otherBoost picks a boost threshold different from t, on the other side of most Jaro values.
func c12otherBoost(t c12rat) c12rat {
	if t.n == 0 {
		return c12rat{1, 1}
	}
	return c12rat{0, 1}
}

func (k *c12run) strsim(a, b string, boost c12rat, prefix int) {
	c := k.c
	// a score is a number: a crash inside the library is a failure of the property on this input
	defer func() {
		if r := recover(); r != nil {
			c.Oracle("", "StringSimilarity panicked instead of returning a score", map[string]interface{}{"a": a, "b": b, "boost": boost.String(), "prefix": prefix}, fmt.Sprint(r), "a score in [0,1]")
		}
	}()
	// history probe: the pair is first scored in ONE direction under another boost threshold (same
	// prefix size); the scores under the requested options must not remember that call
	other := c12otherBoost(boost)
	h1 := gedcom.StringSimilarity(a, b, other.f(), prefix)
	s := gedcom.StringSimilarity(a, b, boost.f(), prefix)
	sr := gedcom.StringSimilarity(b, a, boost.f(), prefix)
	in := map[string]interface{}{"a": a, "b": b, "boost": boost.String(), "prefix": prefix,
		"history": fmt.Sprintf("StringSimilarity(a, b, %s, %d) was called first", other, prefix)}
	k.bounds("StringSimilarity", in, s, sr, h1)
	k.symm("StringSimilarity", in, s, sr)
	if h2 := gedcom.StringSimilarity(b, a, other.f(), prefix); h1 != h2 {
		in2 := map[string]interface{}{"a": a, "b": b, "boost": other.String(), "prefix": prefix,
			"history": fmt.Sprintf("StringSimilarity(a, b, %s, %d), then both directions under boost %s, were called first", other, prefix, boost)}
		c.Oracle("", "StringSimilarity depends on the operand order", in2, c12fl(h1)+" vs swapped "+c12fl(h2), "equal")
	}
	for _, x := range []string{a, b} {
		if gedcom.CleanSpace(x) == "" {
			continue // blank: not a name
		}
		if self := gedcom.StringSimilarity(x, x, boost.f(), prefix); self != 1 {
			c.Oracle("", "StringSimilarity of a non-blank name with itself is not 1",
				map[string]interface{}{"name": x, "boost": boost.String(), "prefix": prefix}, c12fl(self), "1")
		}
	}
	c.Eval()
	c.Tie(fmt.Sprintf("strsim %s %s %s %d", hexs(a), hexs(b), boost, prefix), c12fl(s))
	if boost.n >= 0 && boost.d > 0 {
		c.Tie(fmt.Sprintf("strsimf %s %s %s %d", hexs(a), hexs(b), boost, prefix), c05f64(s)) // bit for bit
		c.Count("strsimf")
	}
}

func c12words(alpha string, maxLen int) []string {
	out := []string{""}
	prev := []string{""}
	for l := 1; l <= maxLen; l++ {
		var next []string
		for _, p := range prev {
			for _, ch := range alpha {
				next = append(next, p+string(ch))
			}
		}
		out = append(out, next...)
		prev = next
	}
	return out
}

var c12given = []string{"John", "Jon", "Johnny", "Jane", "Mary", "Marie", "María", "Elliot", "Eliot", "Élodie", "Bob", "Robert",
	"Martha", "Marhta", "Dwayne", "Duane", "Sir Elliot Rupert", "Anne-Marie", "O", "Jo", "İsmail", "ismail", "Kelvin",
	"Kelvin", "王小明", "Дмитрий", "J. R. R.", "mary  ann", "MARY ANN", "X Æ A-12", "", "A", "abcdefghijklmnopqrstuvwxyz"}
var c12sur = []string{"Smith", "Smyth", "Smithe", "SMITH", "smith", "O'Neil", "ONeil", "Chance", "Chancé", "Dixon", "Dickson",
	"van der Berg", "Van Der Berg", "Müller", "Mueller", "李", "", "Jones", "Jonse", "St. John", "Stjohn", "N", "Taylor-Smith"}

func (k *c12run) randName() string {
	r := k.r
	g, s := r.Pick(c12given), r.Pick(c12sur)
	n := g + " /" + s + "/"
	switch r.Intn(10) {
	case 0:
		n = g
	case 1:
		n = "/" + s + "/"
	case 2:
		n = g + "   /" + s + "/  Jr."
	case 3:
		n = strings.ToUpper(n)
	case 4:
		n = " " + g + "     " + s + " "
	}
	return n
}

// c12mutate applies one typo-like edit on bytes.
func (k *c12run) mutate(s string) string {
	r := k.r
	b := []byte(s)
	if len(b) == 0 {
		return string(rune('a' + r.Intn(3)))
	}
	i := r.Intn(len(b))
	switch r.Intn(6) {
	case 0:
		b = append(b[:i], b[i+1:]...)
	case 1:
		b = append(b[:i], append([]byte{byte('a' + r.Intn(26))}, b[i:]...)...)
	case 2:
		if i+1 < len(b) {
			b[i], b[i+1] = b[i+1], b[i]
		}
	case 3:
		b[i] = byte(r.Intn(256))
	case 4:
		b = append(b[:i], append([]byte("  "), b[i:]...)...)
	default:
		const pool = " .,-'AZaz09_\x7f\x80\xc4\xb0\xe2\x84\xaa"
		b[i] = pool[r.Intn(len(pool))]
	}
	return string(b)
}

func (k *c12run) strings() {
	c := k.c
	// (1) exhaustive over {a,b}: every pair up to the tier's length, model and implementation
	ab := c12words("ab", c.N(6, 8))
	for _, a := range ab {
		for _, b := range ab {
			k.jw(a, b, c12boosts[(len(a)+len(b))%len(c12boosts)], (len(a)*3+len(b))%11, true)
			c.Count("string:exhaustive-ab")
		}
	}
	// (2) exhaustive over {a,b,c}, implementation only (bounds, symmetry, identity)
	abc := c12words("abc", c.N(5, 7))
	for _, a := range abc {
		for _, b := range abc {
			if a > b {
				continue
			}
			k.jw(a, b, c12rat{0, 1}, 10, false)
			c.Count("string:exhaustive-abc-oracle-only")
		}
	}
	// (3) longer random strings over small alphabets: windows > 0, many transpositions
	n := c.N(60000, 300000)
	for i := 0; i < n; i++ {
		alpha := []string{"ab", "abc", "abcd", "ab ", "abcdefgh"}[k.r.Intn(5)]
		mk := func() string {
			l := k.r.Intn(24)
			var sb strings.Builder
			for j := 0; j < l; j++ {
				sb.WriteByte(alpha[k.r.Intn(len(alpha))])
			}
			return sb.String()
		}
		a := mk()
		b := mk()
		if k.r.Chance(1, 2) {
			b = k.mutate(a)
			if k.r.Chance(1, 2) {
				b = k.mutate(b)
			}
		}
		k.jw(a, b, c12boosts[k.r.Intn(len(c12boosts))], k.r.Intn(11), true)
		c.Count("string:random-small-alphabet")
		c.Nontrivial("jw:" + a + "|" + b)
	}
	// (4) names with punctuation, case, white space, Unicode, invalid UTF-8
	n = c.N(60000, 300000)
	for i := 0; i < n; i++ {
		a := k.randName()
		b := k.randName()
		switch k.r.Intn(4) {
		case 0:
			b = k.mutate(a)
		case 1:
			b = a
		case 2:
			b = k.mutate(k.mutate(b))
		}
		k.strsim(a, b, c12boosts[k.r.Intn(len(c12boosts))], k.r.Intn(11))
		c.Count("string:names")
		c.Nontrivial("ss:" + a + "|" + b)
	}
	// (4b) short names without any ASCII letter or digit (they reach jaro / JaroWinkler as they are):
	// every pair of a pool in which one string is a prefix of another, under every prefix size, so
	// that rune counts and byte counts differ at every loop bound of the prefix scan
	c12raw := []string{"李", "李 伟", "李 伟明", "山田", "山田 太郎", "山田 太", "Ωμέγα", "Ωμέ", "Ωμέγας", "Ø", "ØÅ", "ØÅÆ",
		"王小", "王小明", "Дми", "Дмитрий", "é", "éé", "ééé", "…", "… —", "—"}
	for _, a := range c12raw {
		for _, b := range c12raw {
			for _, pf := range []int{0, 1, 2, 3, 4, 8, 10} {
				k.strsim(a, b, c12boosts[(len(a)+len(b)+pf)%len(c12boosts)], pf)
				c.Count("string:non-ascii-short")
			}
		}
	}
	// pinned: the witness of the known finding and the specials of the normalisation
	for _, p := range [][2]string{{"王小明", "王小明"}, {"İ", "i"}, {"K", "k"}, {"a     b", "a  b"}, {"a   b", "a b"},
		{"\xe2\xc4\xb0", "i"}, {"\xf0\x90\xe2\x84\xaa", "k"}, {"ſ", "s"}, {"Straße", "strasse"}, {"  ", "  "}, {"...", "..."}, {"王小明", "王小名"}, {"王小明", "Wang"}, {" 王小明  ", "王小明"}, {"Дмитрий", "дмитрий"}, {"\u00a0王\u3000", "王"}} {
		k.strsim(p[0], p[1], c12rat{0, 1}, 8)
	}
	c.Sample(map[string]string{"request": "jw " + hexs("abba") + " " + hexs("baab") + " 0 4", "meaning": "JaroWinkler(\"abba\",\"baab\",0,4)"})
	c.Sample(map[string]string{"request": "strsim <hex> <hex> 0 8", "meaning": "StringSimilarity(\"Sir Elliot  /CHANCE/\", \"elliot chancé\")"})
}

// ---------- dates ------------------------------------------------------------------------------------

var c12months = []string{"", "Jan", "Feb", "Mar", "Apr", "May", "Jun", "Jul", "Aug", "Sep", "Oct", "Nov", "Dec"}

func c12dateStr(d, m, y int) string {
	switch {
	case m == 0:
		return strconv.Itoa(y)
	case d == 0:
		return c12months[m] + " " + strconv.Itoa(y)
	}
	return fmt.Sprintf("%d %s %d", d, c12months[m], y)
}

func c12dim(m, y int) int {
	switch m {
	case 2:
		if y%4 == 0 && (y%100 != 0 || y%400 == 0) {
			return 29
		}
		return 28
	case 4, 6, 9, 11:
		return 30
	}
	return 31
}

// randSimple: a calendar-valid date of random granularity as text.
func (k *c12run) randSimple(lo, hi int) string {
	r := k.r
	y := r.Range(lo, hi)
	switch r.Intn(4) {
	case 0:
		return c12dateStr(0, 0, y)
	case 1:
		return c12dateStr(0, r.Range(1, 12), y)
	}
	m := r.Range(1, 12)
	return c12dateStr(r.Range(1, c12dim(m, y)), m, y)
}

// randDateValue: a DATE value: exact, approximate, open-ended, a range, a phrase or rubbish.
func (k *c12run) randDateValue(lo, hi int) string {
	r := k.r
	switch r.Intn(12) {
	case 0:
		return "Abt. " + k.randSimple(lo, hi)
	case 1:
		return "Bef. " + k.randSimple(lo, hi)
	case 2:
		return "Aft. " + k.randSimple(lo, hi)
	case 3:
		a, b := k.randSimple(lo, hi), k.randSimple(lo, hi)
		return "Bet. " + a + " and " + b
	case 4:
		return []string{"(unknown)", "", "foo", "about then"}[r.Intn(4)]
	case 5:
		switch r.Intn(5) {
		case 0:
			return "abt " + k.randSimple(lo, hi)
		case 1:
			return "From " + k.randSimple(lo, hi) + " to " + k.randSimple(lo, hi)
		case 2:
			return "AFT " + k.randSimple(lo, hi)
		case 3:
			return "  " + k.randSimple(lo, hi) + "   "
		default:
			return strings.ToUpper(k.randSimple(lo, hi))
		}
	}
	return k.randSimple(lo, hi)
}

func c12wireDate(d gedcom.Date) string { return fmt.Sprintf("%d.%d.%d", d.Day, int(d.Month), d.Year) }

// c12wireRange: the parsed range of a DATE node as the model reads it (nil node = "n"). ok=false when
// the parsed dates are outside the model's domain (not calendar-valid or year outside 1..9999).
func c12wireRange(n *gedcom.DateNode) (string, bool) {
	if n == nil {
		return "n", true
	}
	dr := n.DateRange()
	ok := true
	for _, d := range []gedcom.Date{dr.StartDate(), dr.EndDate()} {
		if d.Year == 0 && d.Month == 0 && d.Day == 0 {
			continue
		}
		if d.Year < 1 || d.Year > 9999 || d.Month < 0 || d.Month > 12 || (d.Month == 0 && d.Day != 0) ||
			(d.Month != 0 && (d.Day < 0 || d.Day > c12dim(int(d.Month), d.Year))) {
			ok = false
		}
	}
	return c12wireDate(dr.StartDate()) + "." + c12wireDate(dr.EndDate()), ok
}

func (k *c12run) datePair(a, b *gedcom.DateNode, my c12rat) (float64, bool) {
	c := k.c
	s := a.Similarity(b, my.f())
	sr := b.Similarity(a, my.f())
	in := map[string]interface{}{"a": c12nodeVal(a), "b": c12nodeVal(b), "maxYears": my.String()}
	k.bounds("date similarity", in, s, sr)
	k.symm("date similarity", in, s, sr)
	if a == nil || b == nil {
		if s != 0.5 {
			c.Oracle("", "a missing date does not score the neutral 0.5", in, c12fl(s), "0.5")
		}
	} else {
		d := math.Abs(a.Years() - b.Years())
		if len(k.laws[my]) < 400000 {
			k.laws[my] = append(k.laws[my], c12lawPt{d, s, a.Value(), b.Value()})
		}
		if d > my.f() && s != 0 {
			c.Oracle("", "dates further apart than MaxYears do not score 0", in, c12fl(s), "0")
		}
		if self := a.Similarity(a, my.f()); self != 1 {
			c.Oracle("", "a date compared with itself does not score 1", map[string]interface{}{"a": c12nodeVal(a), "maxYears": my.String()}, c12fl(self), "1")
		}
		// the same value in a different node
		if twin := a.Similarity(gedcom.NewDateNode(a.Value()), my.f()); twin != 1 {
			c.Oracle("", "identical dates do not score 1", map[string]interface{}{"a": c12nodeVal(a), "maxYears": my.String()}, c12fl(twin), "1")
		}
	}
	c.Eval()
	// the DATE values travel as strings: the model parses them itself (Gedcom.parseDateRange)
	ws := func(n *gedcom.DateNode) string {
		if n == nil {
			return "n"
		}
		return hexs(n.Value())
	}
	c.Tie(fmt.Sprintf("datesim-s %s %s %s", ws(a), ws(b), my), c12fl(s))
	// and, for calendar-valid dates, also as the parsed (day month year) triples
	wa, oka := c12wireRange(a)
	wb, okb := c12wireRange(b)
	if oka && okb && k.r.Chance(1, 4) {
		c.Tie(fmt.Sprintf("datesim %s %s %s", wa, wb, my), c12fl(s))
	}
	// the float64 result itself against the binary64 model (Model/Float64.lean), bit for bit
	if oka && okb && a != nil && b != nil && my.n > 0 && my.d > 0 {
		c.Tie(fmt.Sprintf("datesimf %s %s %s", wa, wb, my), c05f64(s))
		c.Count("datesimf")
	}
	return s, true
}

func c12nodeVal(n *gedcom.DateNode) string {
	if n == nil {
		return "<nil>"
	}
	return n.Value()
}

func (k *c12run) dates() {
	c := k.c
	var boundary []string
	for _, y := range []int{1, 4, 100, 400, 1899, 1900, 1901, 1903, 1904, 2000, 2001, 9999} {
		boundary = append(boundary, c12dateStr(0, 0, y), c12dateStr(0, 1, y), c12dateStr(0, 2, y), c12dateStr(0, 12, y),
			c12dateStr(1, 1, y), c12dateStr(28, 2, y), c12dateStr(1, 3, y), c12dateStr(31, 12, y))
		if c12dim(2, y) == 29 {
			boundary = append(boundary, c12dateStr(29, 2, y))
		}
	}
	boundary = append(boundary, "Abt. 1900", "Bef. 1900", "Aft. 1900", "Bet. 1900 and 1903", "Bet. 1 Jan 1900 and 31 Dec 1902", "Bet. 1890 and 1910",
		"From 1880 to 1920", "Bet. 1 Jan 1800 and 31 Dec 1999", "(phrase)", "")
	nodes := make([]*gedcom.DateNode, 0, len(boundary)+1)
	nodes = append(nodes, nil)
	for _, s := range boundary {
		nodes = append(nodes, gedcom.NewDateNode(s))
	}
	step := c.N(3, 1)
	q := 0
	for i, a := range nodes {
		for j, b := range nodes {
			q++
			if (i+j)%step != 0 && a != nil && b != nil {
				continue
			}
			k.datePair(a, b, c12maxYears[q%len(c12maxYears)])
			c.Count("date:boundary-pairs")
		}
	}
	n := c.N(60000, 300000)
	for i := 0; i < n; i++ {
		lo := 1 + k.r.Intn(9990)
		if k.r.Chance(3, 4) {
			lo = 1850 + k.r.Intn(100)
		}
		hi := lo + k.r.Intn(9)
		if hi > 9999 {
			hi = 9999
		}
		var a, b *gedcom.DateNode
		if !k.r.Chance(1, 40) {
			a = gedcom.NewDateNode(k.randDateValue(lo, hi))
		}
		if !k.r.Chance(1, 40) {
			b = gedcom.NewDateNode(k.randDateValue(lo, hi))
		}
		k.datePair(a, b, c12maxYears[k.r.Intn(len(c12maxYears))])
		c.Count("date:random-pairs")
		c.Nontrivial("date:" + c12nodeVal(a) + "|" + c12nodeVal(b))
	}
	// wide ranges (half-width beyond MaxYears + 1) against dates near their midpoint: the distance is
	// between the Years() midpoints, not between the start years
	n = c.N(6000, 60000)
	for i := 0; i < n; i++ {
		my := c12maxYears[k.r.Intn(len(c12maxYears))]
		m := int(math.Ceil(my.f()))
		y := 1200 + k.r.Intn(1500)
		w := m + 1 + k.r.Intn(16)
		var wide string
		switch k.r.Intn(4) {
		case 0:
			wide = fmt.Sprintf("From %d to %d", y-w, y+w)
		case 1:
			wide = fmt.Sprintf("Bet. %s and %s", k.randSimple(y-w, y-w), k.randSimple(y+w, y+w))
		default:
			wide = fmt.Sprintf("Bet. %d and %d", y-w, y+w)
		}
		near := y + k.r.Range(-m-1, m+1)
		var o string
		switch k.r.Intn(3) {
		case 0:
			o = strconv.Itoa(near)
		case 1:
			o = k.randSimple(near, near)
		default: // another wide range around a nearby midpoint
			w2 := m + 1 + k.r.Intn(16)
			o = fmt.Sprintf("Bet. %d and %d", near-w2, near+w2)
		}
		a, b := gedcom.NewDateNode(wide), gedcom.NewDateNode(o)
		if k.r.Bool() {
			a, b = b, a
		}
		k.datePair(a, b, my)
		c.Count("date:wide-range-vs-midpoint")
		c.Nontrivial("date:" + a.Value() + "|" + b.Value())
	}
	// distance chains: from one anchor, walk away day by day / month by month / year by year on both
	// sides; the score must never increase with the distance (measured on the same Years() scale), and
	// year-only pairs the same number of years apart must score the same anywhere on the time line.
	chains := c.N(300, 5000)
	for i := 0; i < chains; i++ {
		my := c12maxYears[k.r.Intn(len(c12maxYears))]
		y := 1000 + k.r.Intn(1500)
		m := k.r.Range(1, 12)
		anchor := gedcom.NewDateNode(c12dateStr(k.r.Range(1, c12dim(m, y)), m, y))
		type pt struct {
			dist, sim float64
			val       string
		}
		var pts []pt
		for s := 0; s < 40; s++ {
			yy := y + k.r.Range(-int(my.f())-2, int(my.f())+2)
			if yy < 1 {
				yy = 1
			}
			o := gedcom.NewDateNode(k.randSimple(yy, yy))
			pts = append(pts, pt{math.Abs(anchor.Years() - o.Years()), anchor.Similarity(o, my.f()), o.Value()})
			c.Eval()
		}
		for _, p := range pts {
			for _, q := range pts {
				if p.dist <= q.dist && p.sim < q.sim {
					c.Oracle("", "date similarity increases with the distance in years",
						map[string]interface{}{"anchor": anchor.Value(), "nearer": p.val, "farther": q.val, "maxYears": my.String()},
						c12fl(p.sim)+" < "+c12fl(q.sim), "nearer date scores at least as high")
				}
				if p.dist == q.dist && p.sim != q.sim {
					c.Oracle("", "date similarity differs at equal distance in years",
						map[string]interface{}{"anchor": anchor.Value(), "a": p.val, "b": q.val, "maxYears": my.String()},
						c12fl(p.sim)+" vs "+c12fl(q.sim), "equal")
				}
			}
		}
		gap := k.r.Intn(int(my.f()) + 3)
		y2 := 1 + k.r.Intn(9000)
		s1 := gedcom.NewDateNode(strconv.Itoa(y)).Similarity(gedcom.NewDateNode(strconv.Itoa(y+gap)), my.f())
		s2 := gedcom.NewDateNode(strconv.Itoa(y2+gap)).Similarity(gedcom.NewDateNode(strconv.Itoa(y2)), my.f())
		if s1 != s2 {
			c.Oracle("", "date similarity depends on the position on the time line, not only on the distance",
				map[string]interface{}{"years": []int{y, y + gap, y2 + gap, y2}, "maxYears": my.String()}, c12fl(s1)+" vs "+c12fl(s2), "equal")
		}
		c.Count("date:distance-chains")
	}
	k.checkLaws()
	c.Sample(map[string]string{"request": "datesim 3.9.1943.3.9.1943 0.0.1945.0.0.1945 3", "meaning": "3 Sep 1943 vs 1945, MaxYears 3"})
}

// ---------- individuals, lists, families, surrounding -------------------------------------------------

type c12doc struct {
	doc   *gedcom.Document
	indis gedcom.IndividualNodes
	ids   map[*gedcom.IndividualNode]int
	text  string
}

// c12genDoc: a small family graph as GEDCOM text. Names from a small pool (collisions, twins), missing
// names and dates, several names, births/baptisms/deaths/burials; families with 0-2 spouses, 0-4
// children; people in several families. No dangling references (outside the model's domain).
func (k *c12run) genDoc(base int, prefix string) *c12doc {
	r := k.r
	n := 1 + r.Intn(9)
	if r.Chance(1, 8) {
		n = 10 + r.Intn(8)
	}
	var sb strings.Builder
	era := 1700 + r.Intn(250)
	for i := 0; i < n; i++ {
		fmt.Fprintf(&sb, "0 @%s%d@ INDI\n", prefix, i)
		nn := []int{1, 1, 1, 1, 0, 2, 3}[r.Intn(7)]
		for j := 0; j < nn; j++ {
			fmt.Fprintf(&sb, "1 NAME %s\n", strings.TrimSpace(k.randName()))
		}
		ev := func(tag string, p int) {
			if !r.Chance(p, 10) {
				return
			}
			fmt.Fprintf(&sb, "1 %s\n", tag)
			if r.Chance(9, 10) {
				fmt.Fprintf(&sb, "2 DATE %s\n", k.randDateValue(era, era+8))
			}
			if r.Chance(1, 10) {
				fmt.Fprintf(&sb, "2 DATE %s\n", k.randDateValue(era, era+8))
			}
		}
		ev("BIRT", 7)
		ev("BAPM", 2)
		ev("DEAT", 5)
		ev("BURI", 2)
	}
	nf := r.Intn(n/2 + 2)
	for f := 0; f < nf; f++ {
		fmt.Fprintf(&sb, "0 @%sF%d@ FAM\n", prefix, f)
		if r.Chance(8, 10) {
			fmt.Fprintf(&sb, "1 HUSB @%s%d@\n", prefix, r.Intn(n))
		}
		if r.Chance(8, 10) {
			fmt.Fprintf(&sb, "1 WIFE @%s%d@\n", prefix, r.Intn(n))
		}
		nc := r.Intn(5)
		for c := 0; c < nc; c++ {
			fmt.Fprintf(&sb, "1 CHIL @%s%d@\n", prefix, r.Intn(n))
		}
	}
	text := sb.String()
	doc, err := gedcom.NewDocumentFromString(text)
	if err != nil {
		panic("c12: generated document does not decode: " + err.Error() + "\n" + text)
	}
	d := &c12doc{doc: doc, indis: doc.Individuals(), ids: map[*gedcom.IndividualNode]int{}, text: text}
	for i, x := range d.indis {
		d.ids[x] = base + i
	}
	return d
}

// c12mutateDoc: an independently edited copy (renumbered pointers, typos in names, shifted dates,
// dropped lines), as a second document.
func (k *c12run) editedCopy(src *c12doc, base int, prefix string) *c12doc {
	r := k.r
	lines := strings.Split(strings.TrimRight(src.text, "\n"), "\n")
	var out []string
	for _, l := range lines {
		l = strings.ReplaceAll(l, "@L", "@"+prefix)
		switch {
		case strings.HasPrefix(l, "1 NAME ") && r.Chance(1, 4):
			l = "1 NAME " + strings.TrimSpace(strings.NewReplacer("\n", "", "\r", "").Replace(k.mutateASCII(l[7:])))
		case strings.HasPrefix(l, "2 DATE ") && r.Chance(1, 4):
			l = "2 DATE " + k.randDateValue(1700, 1960)
		case strings.HasPrefix(l, "2 DATE ") && r.Chance(1, 8):
			continue
		}
		out = append(out, l)
	}
	text := strings.Join(out, "\n") + "\n"
	doc, err := gedcom.NewDocumentFromString(text)
	if err != nil {
		panic("c12: edited document does not decode: " + err.Error() + "\n" + text)
	}
	d := &c12doc{doc: doc, indis: doc.Individuals(), ids: map[*gedcom.IndividualNode]int{}, text: text}
	for i, x := range d.indis {
		d.ids[x] = base + i
	}
	return d
}

func (k *c12run) mutateASCII(s string) string {
	b := []byte(s)
	if len(b) == 0 {
		return "x"
	}
	i := k.r.Intn(len(b))
	switch k.r.Intn(4) {
	case 0:
		b = append(b[:i], b[i+1:]...)
	case 1:
		b[i] = byte('a' + k.r.Intn(26))
	case 2:
		if i+1 < len(b) {
			b[i], b[i+1] = b[i+1], b[i]
		}
	default:
		b = append(b[:i], append([]byte{byte('a' + k.r.Intn(26))}, b[i:]...)...)
	}
	return string(b)
}

type c12env struct {
	ids map[*gedcom.IndividualNode]int
	bad bool // something outside the model's domain was met (nil list entry, non-calendar date)
}

func (e *c12env) indi(x *gedcom.IndividualNode) string {
	if x == nil {
		return "n"
	}
	id, ok := e.ids[x]
	if !ok {
		e.bad = true
	}
	var names []string
	for _, nm := range x.Names() {
		names = append(names, hexs(nm.String()))
	}
	ns := "_"
	if len(names) > 0 {
		ns = strings.Join(names, ",")
	}
	// the raw record: the DATE values below the events, as strings; parsing, Minimum and the
	// birth/baptism and death/burial fall-backs are the model's business
	vals := func(ds gedcom.DateNodes) string {
		if len(ds) == 0 {
			return "_"
		}
		var out []string
		for _, d := range ds {
			out = append(out, hexs(d.Value()))
		}
		return strings.Join(out, ",")
	}
	return fmt.Sprintf("%d:%s:%s:%s:%s:%s", id, ns,
		vals(gedcom.Dates(gedcom.NewNodes(x.Births())...)),
		vals(gedcom.Dates(gedcom.NewNodes(gedcom.Compound(x.Baptisms(), x.LDSBaptisms()))...)),
		vals(gedcom.Dates(gedcom.NewNodes(x.Deaths())...)),
		vals(gedcom.Dates(gedcom.NewNodes(x.Burials())...)))
}

func (e *c12env) list(xs gedcom.IndividualNodes) string {
	if len(xs) == 0 {
		return "_"
	}
	var parts []string
	for _, x := range xs {
		if x == nil {
			e.bad = true
		}
		parts = append(parts, e.indi(x))
	}
	return strings.Join(parts, ";")
}

func c12husb(f *gedcom.FamilyNode) *gedcom.IndividualNode {
	if h := f.Husband(); h != nil {
		return h.Individual()
	}
	return nil
}

func c12wife(f *gedcom.FamilyNode) *gedcom.IndividualNode {
	if w := f.Wife(); w != nil {
		return w.Individual()
	}
	return nil
}

func (e *c12env) fam(f *gedcom.FamilyNode) string {
	return e.indi(c12husb(f)) + "&" + e.indi(c12wife(f))
}

func (e *c12env) surround(x *gedcom.IndividualNode) string {
	var fams []string
	for _, f := range x.Parents() {
		fams = append(fams, e.fam(f))
	}
	fs := "_"
	if len(fams) > 0 {
		fs = strings.Join(fams, ";")
	}
	return e.indi(x) + "|" + e.list(x.Spouses()) + "|" + e.list(x.Children().Individuals()) + "|" + fs
}

func c12ptr(x *gedcom.IndividualNode) string {
	if x == nil {
		return "<nil>"
	}
	return x.Pointer()
}

func c12ptrs(xs gedcom.IndividualNodes) []string {
	var out []string
	for _, x := range xs {
		out = append(out, c12ptr(x))
	}
	return out
}

func (k *c12run) indiPair(e *c12env, docs string, x, y *gedcom.IndividualNode, o c12opts) {
	c := k.c
	g := o.Go()
	// history probe: one direction first under options that differ in the boost threshold only
	g1 := g
	g1.JaroBoostThreshold = 1
	if g.JaroBoostThreshold != 0 {
		g1.JaroBoostThreshold = 0
	}
	h1 := x.Similarity(y, g1)
	s := x.Similarity(y, g)
	sr := y.Similarity(x, g)
	in := map[string]interface{}{"documents": docs, "left": c12ptr(x), "right": c12ptr(y), "options": o.wire(),
		"history": fmt.Sprintf("left.Similarity(right) with JaroBoostThreshold %v was called first", g1.JaroBoostThreshold)}
	k.bounds("individual similarity", in, s, sr, h1)
	k.symm("individual similarity", in, s, sr)
	if h2 := y.Similarity(x, g1); h1 != h2 {
		in2 := map[string]interface{}{"documents": docs, "left": c12ptr(x), "right": c12ptr(y), "options": o.wire(),
			"history": fmt.Sprintf("scored with JaroBoostThreshold %v after both directions under the listed options", g1.JaroBoostThreshold)}
		c.Oracle("", "individual similarity depends on the operand order", in2, c12fl(h1)+" vs swapped "+c12fl(h2), "equal")
	}
	if (x == nil || y == nil) && s != 0.5 {
		c.Oracle("", "a missing individual does not score the neutral 0.5", in, c12fl(s), "0.5")
	}
	c.Eval()
	e.bad = false
	req := fmt.Sprintf("sim-indi %s %s %s", e.indi(x), e.indi(y), o.wire())
	if !e.bad {
		c.Tie(req, c12fl(s))
		// the float64 result itself against the binary64 model (the model answers `skip` for dates
		// outside the domain of Years())
		c.Tie("sim-indif"+req[len("sim-indi"):], c05f64(s))
		c.Count("sim-indif")
	} else {
		c.Count("individual:outside-model-domain")
	}
}

func (k *c12run) listPair(e *c12env, docs string, xs, ys gedcom.IndividualNodes, o c12opts) {
	c := k.c
	g := o.Go()
	s := xs.Similarity(ys, g)
	sr := ys.Similarity(xs, g)
	in := map[string]interface{}{"documents": docs, "left": c12ptrs(xs), "right": c12ptrs(ys), "options": o.wire()}
	k.bounds("list similarity", in, s, sr)
	if math.Abs(s-sr) > 1e-12 { // the winners may be summed in a different order
		c.Oracle("", "list similarity depends on the operand order", in, c12fl(s)+" vs swapped "+c12fl(sr), "equal")
	}
	if len(xs) == 0 && len(ys) == 0 && s != 1 {
		c.Oracle("", "two empty lists do not score 1", in, c12fl(s), "1")
	}
	if (len(xs) == 0) != (len(ys) == 0) && s != 0.5 {
		c.Oracle("", "an empty list against a non-empty one does not score the neutral 0.5", in, c12fl(s), "0.5")
	}
	c.Eval()
	e.bad = false
	req := fmt.Sprintf("sim-list %s %s %s", e.list(xs), e.list(ys), o.wire())
	if !e.bad {
		c.Tie(req, c12fl(s))
	} else {
		c.Count("list:outside-model-domain")
	}
}

func (k *c12run) famPair(e *c12env, docs string, f, g *gedcom.FamilyNode, o c12opts) {
	c := k.c
	s := f.Similarity(g, 0, o.Go())
	sr := g.Similarity(f, 0, o.Go())
	in := map[string]interface{}{"documents": docs, "left": f.Pointer(), "right": g.Pointer(), "options": o.wire()}
	k.bounds("family similarity", in, s, sr)
	k.symm("family similarity", in, s, sr)
	if c12husb(f) == nil && c12wife(f) == nil && s != 0.5 {
		c.Oracle("", "a family without partners does not score the neutral 0.5", in, c12fl(s), "0.5")
	}
	c.Eval()
	e.bad = false
	req := fmt.Sprintf("sim-fam %s %s %s", e.fam(f), e.fam(g), o.wire())
	if !e.bad {
		c.Tie(req, c12fl(s))
	}
}

func (k *c12run) surrPair(e *c12env, docs string, x, y *gedcom.IndividualNode, o c12opts, force bool) {
	c := k.c
	g := o.Go()
	s := x.SurroundingSimilarity(y, g, force)
	sr := y.SurroundingSimilarity(x, g, force)
	in := map[string]interface{}{"documents": docs, "left": c12ptr(x), "right": c12ptr(y), "options": o.wire(), "force": force}
	w, wr := s.WeightedSimilarity(), sr.WeightedSimilarity()
	k.bounds("surrounding similarity component", in, s.ParentsSimilarity, s.IndividualSimilarity, s.SpousesSimilarity, s.ChildrenSimilarity)
	k.bounds("weighted similarity", in, w, wr)
	if c12inUnit(s.IndividualSimilarity) && c12inUnit(s.ParentsSimilarity) && c12inUnit(s.SpousesSimilarity) && c12inUnit(s.ChildrenSimilarity) &&
		g.IndividualWeight >= 0 && g.ParentsWeight >= 0 && g.SpousesWeight >= 0 && g.ChildrenWeight >= 0 {
		c.Tie(fmt.Sprintf("weightedf %s %s %s %s %s %s %s %s", c05f64(s.IndividualSimilarity), c05f64(s.ParentsSimilarity),
			c05f64(s.SpousesSimilarity), c05f64(s.ChildrenSimilarity), c05f64(g.IndividualWeight), c05f64(g.ParentsWeight),
			c05f64(g.SpousesWeight), c05f64(g.ChildrenWeight)), c05f64(w))
		c.Count("weightedf")
	}
	k.symm("parents similarity", in, s.ParentsSimilarity, sr.ParentsSimilarity)
	k.symm("individual similarity", in, s.IndividualSimilarity, sr.IndividualSimilarity)
	for _, p := range [][2]float64{{s.SpousesSimilarity, sr.SpousesSimilarity}, {s.ChildrenSimilarity, sr.ChildrenSimilarity}, {w, wr}} {
		if math.Abs(p[0]-p[1]) > 1e-12 {
			c.Oracle("", "surrounding similarity depends on the operand order", in, c12fl(p[0])+" vs swapped "+c12fl(p[1]), "equal")
		}
	}
	skipped := *s == *gedcom.NewSurroundingSimilarity(0, 0, 0, 0)
	if !skipped && len(x.Parents()) == 0 && s.ParentsSimilarity != 0.5 {
		c.Oracle("", "missing parents do not score the neutral 0.5", in, c12fl(s.ParentsSimilarity), "0.5")
	}
	c.Eval()
	e.bad = false
	req := fmt.Sprintf("sim-surr %s %s %s %s", e.surround(x), e.surround(y), o.wire(), c12bit(force))
	if !e.bad {
		c.Tie(req, strings.Join([]string{c12fl(s.ParentsSimilarity), c12fl(s.IndividualSimilarity), c12fl(s.SpousesSimilarity),
			c12fl(s.ChildrenSimilarity), c12fl(w)}, " "))
		if skipped {
			c.Count("surround:skipped-by-threshold")
		} else {
			c.Count("surround:full")
		}
	} else {
		c.Count("surround:outside-model-domain")
	}
}

func (k *c12run) subset(d *c12doc) gedcom.IndividualNodes {
	r := k.r
	var xs gedcom.IndividualNodes
	if r.Chance(1, 12) {
		return xs
	}
	n := 1 + r.Intn(5)
	for i := 0; i < n; i++ {
		xs = append(xs, d.indis[r.Intn(len(d.indis))]) // duplicates on purpose: the winner loop keys on the pointer
	}
	return xs
}

// c12identicalGed: a person with parents, a spouse and a child; compared with a second decode of the
// same text every component of the surrounding similarity is exactly 1, so the weighted similarity
// is the float64 sum of the four weights themselves.
const c12identicalGed = "0 @I1@ INDI\n1 NAME John /Smith/\n1 BIRT\n2 DATE 4 Mar 1900\n1 DEAT\n2 DATE 5 Jun 1970\n1 FAMC @F0@\n1 FAMS @F1@\n" +
	"0 @I2@ INDI\n1 NAME Jane /Doe/\n1 BIRT\n2 DATE 1 Apr 1902\n1 DEAT\n2 DATE 7 Jul 1980\n1 FAMS @F1@\n" +
	"0 @I3@ INDI\n1 NAME Bob /Smith/\n1 BIRT\n2 DATE 9 Sep 1925\n1 DEAT\n2 DATE 1 Jan 1999\n1 FAMC @F1@\n" +
	"0 @I4@ INDI\n1 NAME Pa /Smith/\n1 BIRT\n2 DATE 1 Jan 1870\n1 DEAT\n2 DATE 1 Jan 1940\n1 FAMS @F0@\n" +
	"0 @I5@ INDI\n1 NAME Ma /Jones/\n1 BIRT\n2 DATE 1 Jan 1872\n1 DEAT\n2 DATE 1 Jan 1950\n1 FAMS @F0@\n" +
	"0 @F0@ FAM\n1 HUSB @I4@\n1 WIFE @I5@\n1 CHIL @I1@\n0 @F1@ FAM\n1 HUSB @I1@\n1 WIFE @I2@\n1 CHIL @I3@\n"

// weightSweep: every weight vector (a,b,c,d)/20 with a+b+c+d = 20 (and /10, /8 for other binary
// expansions) on a pair whose four components are all exactly 1, and on pairs with some components
// at the neutral 0.5: the weighted similarity is then a pure float64 sum of products of the weights,
// which must stay inside [0,1] (a score, not "about one").
func (k *c12run) weightSweep() {
	c := k.c
	d1, err1 := gedcom.NewDecoder(strings.NewReader(c12identicalGed)).Decode()
	d2, err2 := gedcom.NewDecoder(strings.NewReader(c12identicalGed)).Decode()
	if err1 != nil || err2 != nil {
		return
	}
	for _, den := range []int{20, 10, 8} {
		for a := 0; a <= den; a++ {
			for b := 0; a+b <= den; b++ {
				for cc := 0; a+b+cc <= den; cc++ {
					dd := den - a - b - cc
					for _, ptr := range []string{"I1", "I3", "I4"} { // full surroundings / no children, no spouse / no parents
						x, y := d1.Individuals().ByPointer(ptr), d2.Individuals().ByPointer(ptr)
						o := gedcom.NewSimilarityOptions()
						o.IndividualWeight, o.ParentsWeight = float64(a)/float64(den), float64(b)/float64(den)
						o.SpousesWeight, o.ChildrenWeight = float64(cc)/float64(den), float64(dd)/float64(den)
						s := x.SurroundingSimilarity(y, o, true)
						w := s.WeightedSimilarity()
						in := map[string]interface{}{"document": "a person with parents, spouse and child, against a second decode of the same text",
							"individual": ptr, "weights (individual, parents, spouses, children)": fmt.Sprintf("%d/%d %d/%d %d/%d %d/%d", a, den, b, den, cc, den, dd, den),
							"components": fmt.Sprintf("%v %v %v %v", s.IndividualSimilarity, s.ParentsSimilarity, s.SpousesSimilarity, s.ChildrenSimilarity)}
						k.bounds("weighted similarity", in, w)
						// the float64 formula itself against the binary64 model, bit for bit
						c.Tie(fmt.Sprintf("weightedf %s %s %s %s %s %s %s %s", c05f64(s.IndividualSimilarity), c05f64(s.ParentsSimilarity),
							c05f64(s.SpousesSimilarity), c05f64(s.ChildrenSimilarity), c05f64(o.IndividualWeight), c05f64(o.ParentsWeight),
							c05f64(o.SpousesWeight), c05f64(o.ChildrenWeight)), c05f64(w))
						c.Eval()
						c.Count("weighted:weight-sweep")
					}
				}
			}
		}
	}
}

func (k *c12run) graphs() {
	c := k.c
	nd := c.N(1500, 8000)
	for i := 0; i < nd; i++ {
		left := k.genDoc(0, "L")
		var right *c12doc
		kind := "independent"
		if k.r.Chance(2, 3) {
			right = k.editedCopy(left, 1000, "R")
			kind = "edited-copy"
		} else {
			right = k.genDoc(1000, "R")
		}
		c.Count("graph:" + kind)
		c.Count(fmt.Sprintf("graph:individuals=%d", (len(left.indis)+4)/5*5))
		e := &c12env{ids: map[*gedcom.IndividualNode]int{}}
		for p, id := range left.ids {
			e.ids[p] = id
		}
		for p, id := range right.ids {
			e.ids[p] = id
		}
		docs := left.text + "----\n" + right.text
		if i == 0 {
			c.Sample(map[string]string{"documents": docs})
		}
		for q := 0; q < 6; q++ {
			o := c12randOpts(k.r)
			x := left.indis[k.r.Intn(len(left.indis))]
			y := right.indis[k.r.Intn(len(right.indis))]
			if k.r.Chance(1, 6) {
				y = left.indis[k.r.Intn(len(left.indis))] // same document: shared relatives
			}
			if k.r.Chance(1, 30) {
				y = nil
			}
			k.indiPair(e, docs, x, y, o)
			if y != nil {
				k.surrPair(e, docs, x, y, o, k.r.Chance(1, 2))
			}
			xs, ys := k.subset(left), k.subset(right)
			if k.r.Chance(1, 6) {
				ys = k.subset(left)
			}
			k.listPair(e, docs, xs, ys, o)
			c.Nontrivial(fmt.Sprintf("graph:%d:%d", i, q))
		}
		lf, rf := left.doc.Families(), right.doc.Families()
		if len(lf) > 0 && len(rf) > 0 {
			k.famPair(e, docs, lf[k.r.Intn(len(lf))], rf[k.r.Intn(len(rf))], c12randOpts(k.r))
		}
		// an individual against itself: identical names and identical dates
		x := left.indis[k.r.Intn(len(left.indis))]
		o := c12randOpts(k.r)
		b, _ := x.EstimatedBirthDate()
		d, _ := x.EstimatedDeathDate()
		named := false
		for _, nm := range x.Names() {
			if gedcom.CleanSpace(nm.String()) != "" {
				named = true
			}
		}
		if named && b != nil && d != nil {
			if s := x.Similarity(x, o.Go()); s != 1 {
				c.Oracle("", "an individual with a name and both dates does not score 1 against itself",
					map[string]interface{}{"documents": docs, "individual": x.Pointer(), "options": o.wire()}, c12fl(s), "1")
			}
		}
	}
}

var c12inconclusive func()

// sharedLists: lists drawn from ONE document, so that the same individual can stand on both sides,
// over people with overlapping sets of names and equal dates (score ties, chains P0~P1~P3 with
// P0 !~ P3). The first case is the witness of the fix "list similarity tracks matched individuals
// per side" ({P0,P1} vs {P3,P1,P0}: 2/3 one way, 5/6 the other before the fix).
func (k *c12run) sharedLists() {
	c := k.c
	names := []string{"John /Smith/", "Jane /Doe/", "Mary /Jones/", "Jon /Smith/"}
	n := c.N(400, 6000)
	for i := 0; i < n; i++ {
		var sb strings.Builder
		np := 3 + k.r.Intn(3)
		if i == 0 {
			np = 3
		}
		for p := 0; p < np; p++ {
			fmt.Fprintf(&sb, "0 @S%d@ INDI\n", p)
			var ns []string
			switch {
			case i == 0:
				ns = [][]string{{names[0]}, {names[0], names[1]}, {names[1]}}[p]
			default:
				ns = append(ns, names[k.r.Intn(len(names))])
				if k.r.Chance(1, 2) {
					ns = append(ns, names[k.r.Intn(len(names))])
				}
				if k.r.Chance(1, 8) {
					ns = nil
				}
			}
			for _, nm := range ns {
				fmt.Fprintf(&sb, "1 NAME %s\n", nm)
			}
			if i == 0 || k.r.Chance(3, 4) {
				fmt.Fprintf(&sb, "1 BIRT\n2 DATE %d\n", 1900+k.r.Intn(2)*k.r.Intn(2))
			}
			if i == 0 || k.r.Chance(1, 2) {
				sb.WriteString("1 DEAT\n2 DATE 1950\n")
			}
		}
		text := sb.String()
		if i == 0 {
			text = strings.ReplaceAll(strings.ReplaceAll(text, "DATE 1901", "DATE 1900"), "DATE 1900", "DATE 1900")
		}
		doc, err := gedcom.NewDocumentFromString(text)
		if err != nil {
			panic("c12: generated document does not decode: " + err.Error())
		}
		indis := doc.Individuals()
		e := &c12env{ids: map[*gedcom.IndividualNode]int{}}
		for j, x := range indis {
			e.ids[x] = j
		}
		pick := func(repeats bool) gedcom.IndividualNodes {
			var xs gedcom.IndividualNodes
			perm := k.r.Perm(len(indis))
			m := 1 + k.r.Intn(len(indis))
			for _, j := range perm[:m] {
				xs = append(xs, indis[j])
			}
			if repeats {
				xs = append(xs, xs[k.r.Intn(len(xs))])
			}
			return xs
		}
		rep := k.r.Chance(1, 6)
		xs, ys := pick(rep), pick(rep && k.r.Bool())
		o := c12randOpts(k.r)
		if i == 0 {
			xs = gedcom.IndividualNodes{indis[0], indis[1]}
			ys = gedcom.IndividualNodes{indis[2], indis[1], indis[0]}
			o = c12opts{def: true}
		} else if k.r.Chance(1, 2) {
			o.minSim = c12rat{0, 1}
		}
		k.listPair(e, text, xs, ys, o)
		if rep {
			c.Count("list:one-document, shared people, with repeats")
		} else {
			c.Count("list:one-document, shared people, no repeats")
		}
		c.Nontrivial(fmt.Sprintf("shared:%d", i))
	}
}

// boundary: the fixed boundary corpus, run first.
//   - string lengths 8/16/32/64/65/128/129/255/256 in BYTES (ASCII) and in RUNES (2- and 3-byte runes,
//     mixed with ASCII) for Jaro-Winkler on the raw bytes and for StringSimilarity (normalisation and
//     CleanSpace; all-non-ASCII names take the as-written fallback); identical, one typo, shifted copy;
//   - bytes: invalid UTF-8 lead bytes in front of the runes the normalisation knows (U+0130, U+212A),
//     all-non-ASCII strings, names that are a single delimiter (`@`, `/`, `,`, ` `);
//   - 0/1/2/8/9/64/65 NAME records per individual; 0/1/2/8/9/64/65 spouses, children and parent
//     families per individual; lists that contain the same individual twice and on both sides.
func (k *c12run) boundary() {
	c := k.c
	sizes := []int{8, 16, 32, 64, 65, 128, 129, 255, 256}
	rep := func(unit string, n int) string { // n runes
		var sb strings.Builder
		rs := []rune(unit)
		for i := 0; i < n; i++ {
			sb.WriteRune(rs[(i*7+i/5)%len(rs)])
		}
		return sb.String()
	}
	for _, n := range sizes {
		for ui, unit := range []string{"ab c", "éaüb", "王小明李", "aé王b ", "ÀÉÎ"} {
			a := rep(unit, n)
			shifted := string([]rune(a)[3:]) + string([]rune(a)[:3])
			typo := k.mutate(a)
			heavy := len(a) > 300 // the model's list-based Jaro is quadratic: the longest go through the oracle only
			for _, b := range []string{a, typo, shifted} {
				k.jw(a, b, c12boosts[(n+ui)%len(c12boosts)], (n+ui)%11, !heavy)
				if !heavy {
					k.strsim(a, b, c12boosts[(n+ui+1)%len(c12boosts)], 8)
				} else {
					s1 := gedcom.StringSimilarity(a, b, 0, 8)
					s2 := gedcom.StringSimilarity(b, a, 0, 8)
					in := map[string]interface{}{"a": a, "b": b, "boost": "0", "prefix": 8}
					k.bounds("StringSimilarity", in, s1, s2)
					k.symm("StringSimilarity", in, s1, s2)
					if a == b && s1 != 1 {
						c.Oracle("", "StringSimilarity of a non-blank name with itself is not 1", in, c12fl(s1), "1")
					}
					c.Eval()
				}
				c.Count(fmt.Sprintf("boundary:string length %d runes", n))
			}
		}
	}
	for _, p := range [][2]string{{"\xc4\xc4\xb0smail", "ismail"}, {"\xe2\xe2\x84\xaaelvin", "kelvin"}, {"\xf0\x90\xc4\xb0", "i"}, {"\xc3\xe2\x84\xaa", "k"},
		{"@", "@"}, {"/", "/"}, {",", ","}, {"@", "/"}, {" ", " "}, {"//", "/"}, {"@I1@", "@I1@"}, {"0", "0"}, {"000", "0"}, {"\x00", "\x00"},
		{"日本語のなまえ", "日本語のなまえ"}, {"日本語のなまえ", "日本語の名前"}, {"\xff\xfe", "\xff\xfe"}} {
		k.strsim(p[0], p[1], c12rat{0, 1}, 8)
		k.jw(p[0], p[1], c12rat{7, 10}, 4, true)
		c.Count("boundary:bytes (invalid UTF-8 before special runes, all non-ASCII, single delimiters)")
	}
	// counts of NAME records and of relatives
	counts := []int{0, 1, 2, 8, 9, 64, 65}
	var sb strings.Builder
	person := func(ptr string, names int, seed int) {
		fmt.Fprintf(&sb, "0 @%s@ INDI\n", ptr)
		for j := 0; j < names; j++ {
			fmt.Fprintf(&sb, "1 NAME %s%c /%s/\n", c12given[(seed+j*3)%12], 'a'+rune(j%26), c12sur[(seed+j)%8])
		}
		fmt.Fprintf(&sb, "1 BIRT\n2 DATE %d\n", 1850+seed%7)
	}
	for qi, n := range counts { // N<n>: n NAME records; X<n>: n spouses, n children, n parent families
		person(fmt.Sprintf("N%d", n), n, qi)
		person(fmt.Sprintf("X%d", n), 1, qi+3)
		for j := 0; j < n; j++ {
			person(fmt.Sprintf("S%dx%d", n, j), 1, qi*5+j)
			person(fmt.Sprintf("C%dx%d", n, j), 1, qi*7+j+1)
			if j < 9 {
				person(fmt.Sprintf("F%dx%d", n, j), 1, qi+j+2)
			}
		}
	}
	for _, n := range counts {
		for j := 0; j < n; j++ {
			fmt.Fprintf(&sb, "0 @FS%dx%d@ FAM\n1 HUSB @X%d@\n1 WIFE @S%dx%d@\n", n, j, n, n, j)
			if j == 0 {
				for q := 0; q < n; q++ {
					fmt.Fprintf(&sb, "1 CHIL @C%dx%d@\n", n, q)
				}
			}
			fmt.Fprintf(&sb, "0 @FP%dx%d@ FAM\n1 HUSB @F%dx%d@\n1 CHIL @X%d@\n", n, j, n, j%9, n)
		}
	}
	text := sb.String()
	doc, err := gedcom.NewDocumentFromString(text)
	if err != nil {
		panic("c12: boundary document does not decode: " + err.Error())
	}
	e := &c12env{ids: map[*gedcom.IndividualNode]int{}}
	byPtr := map[string]*gedcom.IndividualNode{}
	for j, x := range doc.Individuals() {
		e.ids[x] = j
		byPtr[x.Pointer()] = x
	}
	short := "the boundary document: N<n> has n NAME records; X<n> has n spouses (families FS<n>x*), n children (in FS<n>x0) and n parent families FP<n>x*, n in 0/1/2/8/9/64/65"
	o := c12opts{def: true}
	lenient := c12opts{maxYears: c12rat{10, 1}, minSim: c12rat{0, 1}, minWeighted: c12rat{0, 1}, iw: c12rat{4, 16}, pw: c12rat{4, 16}, sw: c12rat{4, 16}, cw: c12rat{4, 16},
		ratio: c12rat{1, 2}, boost: c12rat{0, 1}, prefix: 8, prefPtr: c12rat{0, 1}}
	for _, p := range [][2]int{{0, 0}, {0, 1}, {1, 1}, {2, 8}, {9, 9}, {8, 64}, {64, 65}, {65, 65}, {65, 0}, {1, 65}} {
		k.indiPair(e, short, byPtr[fmt.Sprintf("N%d", p[0])], byPtr[fmt.Sprintf("N%d", p[1])], o)
		c.Count("boundary:NAME records per individual 0/1/2/8/9/64/65")
	}
	for qi, p := range [][2]int{{0, 0}, {0, 1}, {1, 2}, {2, 2}, {8, 9}, {9, 9}, {2, 64}, {64, 65}, {65, 65}, {65, 0}} {
		oo := []c12opts{o, lenient}[qi%2]
		k.surrPair(e, short, byPtr[fmt.Sprintf("X%d", p[0])], byPtr[fmt.Sprintf("X%d", p[1])], oo, true)
		c.Count("boundary:spouses/children/parent families per individual 0/1/2/8/9/64/65")
	}
	// the same individual twice in a list, and on both sides
	a, b, d := byPtr["N1"], byPtr["N2"], byPtr["N8"]
	for _, p := range [][2]gedcom.IndividualNodes{{{a, a}, {a}}, {{a, a, b}, {a, b, b}}, {{a, b}, {b, a}}, {{a, b, a, d}, {d, d}}, {{a}, {a}}, {{a, a, a}, {a, a, a}},
		{{b, a, b}, {a, d, a, d, a}}} {
		for _, oo := range []c12opts{o, lenient} {
			k.listPair(e, short, p[0], p[1], oo)
			c.Count("boundary:lists with the same individual twice / on both sides")
		}
	}
}

// histories: what an earlier call leaves behind. Nothing in jaro.go / the similarity files memoises, but
// the scores read through memos: the package-level children-by-tag cache (NodesWithTag), the parse-once
// DATE nodes, the remembered spouses / families of an individual and husband / wife of a family. Each
// history observes, edits IN PLACE at depth 2 below the individual (a DATE below BIRT, a GIVN below NAME,
// a CHIL / WIFE below a family of the individual), and observes again in the same process; the second
// observation must equal the same observation on a freshly decoded copy of the current text (and goes
// to the model as usual).
func (k *c12run) histories() {
	c := k.c
	n := c.N(40, 600)
	for q := 0; q < n; q++ {
		d := k.genDoc(0, "L")
		if len(d.indis) < 2 {
			continue
		}
		x, y := d.indis[k.r.Intn(len(d.indis))], d.indis[k.r.Intn(len(d.indis))]
		o := c12randOpts(k.r)
		g := o.Go()
		observe := func(doc *gedcom.Document, px, py string) [6]float64 {
			var xx, yy *gedcom.IndividualNode
			for _, i := range doc.Individuals() {
				if i.Pointer() == px && xx == nil {
					xx = i
				}
				if i.Pointer() == py && yy == nil {
					yy = i
				}
			}
			s := xx.SurroundingSimilarity(yy, g, true)
			return [6]float64{xx.Similarity(yy, g), s.ParentsSimilarity, s.IndividualSimilarity, s.SpousesSimilarity, s.ChildrenSimilarity, s.WeightedSimilarity()}
		}
		before := observe(d.doc, x.Pointer(), y.Pointer())
		// the edit
		what := ""
		switch q % 5 {
		case 0: // a DATE below BIRT (depth 2)
			if bs := x.Births(); len(bs) > 0 {
				bs[0].AddNode(gedcom.NewDateNode(fmt.Sprintf("%d", 1600+k.r.Intn(50))))
				what = "AddNode(DATE) below the first BIRT of " + x.Pointer()
			} else {
				x.AddBirthDate("1 Jan 1666")
				what = "AddBirthDate on " + x.Pointer()
			}
		case 1: // delete the DATE nodes below DEAT / BIRT
			for _, ev := range x.Nodes() {
				if ev.Tag().String() == "BIRT" || ev.Tag().String() == "DEAT" {
					for _, dn := range gedcom.NodesWithTag(ev, gedcom.TagDate) {
						ev.DeleteNode(dn)
						what = "DeleteNode(DATE) below " + ev.Tag().String() + " of " + x.Pointer()
					}
				}
			}
		case 2: // a GIVN below NAME changes NameNode.String()
			if ns := x.Names(); len(ns) > 0 {
				ns[0].AddNode(gedcom.NewNode(gedcom.TagGivenName, "Zebedee", ""))
				what = "AddNode(GIVN Zebedee) below the first NAME of " + x.Pointer()
			} else {
				x.AddName("Zebedee /Young/")
				what = "AddName on " + x.Pointer()
			}
		case 3: // the family of x gets another child / loses its children (depth 2 below the document's FAM)
			if fs := x.Families(); len(fs) > 0 {
				other := d.indis[k.r.Intn(len(d.indis))]
				fs[0].AddChild(other)
				what = "AddChild(" + other.Pointer() + ") on family " + fs[0].Pointer() + " of " + x.Pointer()
			}
		case 4:
			if fs := x.Families(); len(fs) > 0 {
				fs[0].SetNodes(nil)
				what = "SetNodes(nil) on family " + fs[0].Pointer() + " of " + x.Pointer()
			}
		}
		if what == "" {
			continue
		}
		after := observe(d.doc, x.Pointer(), y.Pointer())
		fresh, err := gedcom.NewDocumentFromString(d.doc.String())
		c.Eval()
		c.Count("history:observe / edit in place at depth 2 / observe again")
		if err != nil {
			continue
		}
		want := observe(fresh, x.Pointer(), y.Pointer())
		if after != want {
			c.Oracle("", "after an in-place edit the scores are not those of the current document (something remembered is stale)",
				map[string]interface{}{"document_before": d.text, "edit": what, "left": x.Pointer(), "right": y.Pointer(), "options": o.wire(),
					"observed": "Similarity, then parents / individual / spouses / children / weighted of SurroundingSimilarity(force)"},
				fmt.Sprint(after), fmt.Sprint(want)+"  (same calls on a freshly decoded copy of the current text); before the edit: "+fmt.Sprint(before))
		}
		// and the model on the current state
		e := &c12env{ids: map[*gedcom.IndividualNode]int{}}
		for j, i := range d.indis {
			e.ids[i] = j
		}
		k.indiPair(e, d.doc.String(), x, y, o)
		k.surrPair(e, d.doc.String(), x, y, o, true)
	}
}

// longNames: strings and names of 65..130 bytes (a GEDCOM NAME may have 120 characters), with repeated
// characters, through Jaro-Winkler (model and implementation), StringSimilarity and the individuals' name
// similarity: identical -> 1, symmetric, inside [0,1], equal to the model.
func (k *c12run) longNames() {
	c := k.c
	r := k.r
	mk := func(alpha string, n int) string {
		var sb strings.Builder
		for sb.Len() < n {
			sb.WriteByte(alpha[r.Intn(len(alpha))])
		}
		return sb.String()
	}
	n := c.N(120, 3000)
	for i := 0; i < n; i++ {
		alpha := []string{"ab", "abc", "abcdefgh", "aab ", "abcdefghijklmnopqrstuvwxyz"}[r.Intn(5)]
		a := mk(alpha, 65+r.Intn(66))
		var b string
		switch r.Intn(5) {
		case 0:
			b = a
		case 1:
			b = k.mutate(a)
		case 2:
			b = k.mutate(k.mutate(k.mutate(a)))
		case 3:
			b = mk(alpha, 65+r.Intn(66))
		default: // the same text shifted: matches far from the diagonal, beyond position 64
			cut := 1 + r.Intn(20)
			b = a[cut:] + a[:cut]
		}
		boost, prefix := c12boosts[r.Intn(len(c12boosts))], r.Intn(11)
		k.jw(a, b, boost, prefix, true)
		k.jw(a, a, boost, prefix, i%4 == 0)
		c.Count("string:long (65..130 bytes)")
		c.Nontrivial("long:" + a + "|" + b)
	}
	// long names: words of letters, as NAME values and through the individuals
	words := []string{"Maximilian", "Alexander", "Bartholomew", "Wolfeschlegelstein", "Hausenberger", "Dorffvoralternwaren", "Gewissenhaftschafer",
		"von", "und", "zu", "de", "la", "Anna", "Maria", "Magdalena", "Elisabeth", "Aaaaaaaaaa", "Bababababa"}
	name := func() string {
		var parts []string
		l := 0
		target := 66 + r.Intn(50)
		for l < target {
			w := words[r.Intn(len(words))]
			parts = append(parts, w)
			l += len(w) + 1
		}
		cut := len(parts) - 1 - r.Intn(2)
		return strings.Join(parts[:cut], " ") + " /" + strings.Join(parts[cut:], " ") + "/"
	}
	m := c.N(60, 1500)
	for i := 0; i < m; i++ {
		a := name()
		b := a
		switch r.Intn(4) {
		case 0:
			b = name()
		case 1:
			b = k.mutateASCII(a)
		case 2:
			b = strings.ToUpper(a)
		}
		k.strsim(a, b, c12boosts[r.Intn(len(c12boosts))], r.Intn(11))
		c.Count("string:long names (NAME values of 66..120 bytes)")
		if i%3 == 0 {
			text := "0 @N0@ INDI\n1 NAME " + a + "\n1 BIRT\n2 DATE 1900\n1 DEAT\n2 DATE 1950\n0 @N1@ INDI\n1 NAME " + strings.TrimSpace(strings.ReplaceAll(b, "\n", "")) +
				"\n1 BIRT\n2 DATE 1900\n1 DEAT\n2 DATE 1950\n"
			doc, err := gedcom.NewDocumentFromString(text)
			if err != nil || len(doc.Individuals()) != 2 {
				continue
			}
			ind := doc.Individuals()
			e := &c12env{ids: map[*gedcom.IndividualNode]int{ind[0]: 0, ind[1]: 1}}
			o := c12randOpts(r)
			k.indiPair(e, text, ind[0], ind[1], o)
			k.indiPair(e, text, ind[0], ind[0], o)
			if s := ind[0].Similarity(ind[0], o.Go()); s != 1 {
				c.Oracle("", "an individual with a (long) name and both dates does not score 1 against itself",
					map[string]interface{}{"documents": text, "individual": "N0", "options": o.wire()}, c12fl(s), "1")
			}
			c.Count("individual:long names")
		}
	}
}

// tieShapes: decisions that sit EXACTLY on a tie in the exact model, where the float64 implementation
// may go either way by the last bit. They run on every check so that the handling is exercised:
//   - dates exactly MaxYears apart (cut-off `> 1 -> 0`): both sides give 0 within 1e-9 (the parabola is
//     continuous there) — compared normally;
//   - Jaro exactly equal to the boost threshold as a fraction (7/10 is not a float64; the code's j is
//     0.70000000000000007 and takes the boost, the exact model does not): flagged `tight` by the driver,
//     compared as inconclusive;
//   - DATE lists whose Minimum rests on an exact tie of Years() (`Dec 1880` = midpoint of 1 and 31 Dec =
//     `16 Dec 1880`; float64 says 1880.9564032697549 > 1880.9564032697547): flagged, inconclusive;
//   - list cells exactly at MinimumSimilarity, equal cells from different data: flagged, inconclusive.
func (k *c12run) tieShapes() {
	c := k.c
	for _, p := range []struct {
		a, b string
		my   c12rat
	}{{"2 Jul 1881", "2 Jul 1884", c12rat{3, 1}}, {"Dec 1880", "Dec 1883", c12rat{3, 1}}, {"1881", "1884", c12rat{3, 1}},
		{"Jun 1881", "Jun 1884", c12rat{3, 1}}, {"1 Jan 1900", "1 Jan 1905", c12rat{5, 1}}, {"Feb 1900", "Feb 1910", c12rat{10, 1}},
		{"1900", "2 Jul 1900", c12rat{1, 2}}, {"Dec 1880", "16 Dec 1880", c12rat{3, 1}}, {"1900", "1901", c12rat{1, 1}},
		{"Bet. 1900 and 1902", "1904", c12rat{3, 1}}, {"2 Jul 1901", "1901", c12rat{1, 1}}, {"15 Jan 1900", "15 Jan 1902", c12rat{2, 1}}} {
		a, b := gedcom.NewDateNode(p.a), gedcom.NewDateNode(p.b)
		k.datePair(a, b, p.my)
		k.datePair(b, a, p.my)
		c.Count("tie-shape:dates exactly MaxYears apart / equal Years()")
	}
	long := "ab" + strings.Repeat("c", 18) // jaro(long, "ab") = 7/10
	seventeen := strings.Repeat("a", 17)   // jaro(a^17 xxx, a^17 yyy) = 9/10
	for _, p := range [][2]string{{long, "ab"}, {"abbb", "accc"}, {seventeen + "xxx", seventeen + "yyy"}, {"ab", long}} {
		for _, t := range []c12rat{{7, 10}, {1, 2}, {9, 10}} {
			k.jw(p[0], p[1], t, 4, true)
			k.strsim(p[0], p[1], t, 4)
			c.Count("tie-shape:Jaro exactly at the boost threshold")
		}
	}
	// individuals whose estimated dates are selected on a tie, nameless / dateless people (score exactly
	// 1/2 with ratio 0), only-birth vs only-death twins (equal cells from different data)
	text := "0 @T0@ INDI\n1 NAME Ann /Tie/\n1 BIRT\n2 DATE Bet. Dec 1880 and 1890\n2 DATE 16 Dec 1880\n" +
		"0 @T1@ INDI\n1 NAME Ann /Tie/\n1 BIRT\n2 DATE 16 Dec 1880\n2 DATE Bet. Dec 1880 and 1890\n" +
		"0 @T2@ INDI\n1 NAME Ann /Tie/\n1 BIRT\n2 DATE Dec 1880\n1 BIRT\n2 DATE 16 Dec 1880\n1 DEAT\n2 DATE 1900\n2 DATE 2 Jul 1900\n" +
		"0 @T3@ INDI\n1 NAME Ann /Tie/\n1 BIRT\n2 DATE 1881\n" +
		"0 @T4@ INDI\n1 NAME Ann /Tie/\n1 DEAT\n2 DATE 1881\n" +
		"0 @T5@ INDI\n" +
		"0 @T6@ INDI\n1 BIRT\n2 DATE 1884\n" +
		"0 @T7@ INDI\n1 NAME Ann /Tie/\n1 BAPM\n2 DATE Dec 1883\n2 DATE 16 Dec 1883\n1 BURI\n2 DATE 2 Jul 1903\n2 DATE 1903\n"
	doc, err := gedcom.NewDocumentFromString(text)
	if err != nil {
		panic("c12: tie-shape document does not decode")
	}
	indis := doc.Individuals()
	e := &c12env{ids: map[*gedcom.IndividualNode]int{}}
	for j, x := range indis {
		e.ids[x] = j
	}
	opts := []c12opts{{def: true},
		{maxYears: c12rat{3, 1}, minSim: c12rat{1, 2}, minWeighted: c12rat{1, 2}, iw: c12rat{12, 16}, pw: c12rat{1, 16}, sw: c12rat{1, 16}, cw: c12rat{2, 16},
			ratio: c12rat{0, 1}, boost: c12rat{7, 10}, prefix: 4, prefPtr: c12rat{1, 2}},
		{maxYears: c12rat{3, 1}, minSim: c12rat{3, 4}, minWeighted: c12rat{3, 4}, iw: c12rat{16, 16}, pw: c12rat{0, 16}, sw: c12rat{0, 16}, cw: c12rat{0, 16},
			ratio: c12rat{1, 2}, boost: c12rat{0, 1}, prefix: 8, prefPtr: c12rat{3, 4}}}
	for _, o := range opts {
		for _, x := range indis {
			for _, y := range indis {
				k.indiPair(e, text, x, y, o)
				c.Count("tie-shape:individuals (estimated date chosen on a tie, exact 1/2 scores)")
			}
		}
		for q := 0; q < 12; q++ {
			pm1, pm2 := k.r.Perm(len(indis)), k.r.Perm(len(indis))
			var xs, ys gedcom.IndividualNodes
			for _, j := range pm1[:2+k.r.Intn(4)] {
				xs = append(xs, indis[j])
			}
			for _, j := range pm2[:2+k.r.Intn(4)] {
				ys = append(ys, indis[j])
			}
			k.listPair(e, text, xs, ys, o)
			c.Count("tie-shape:lists (cells at the minimum, equal cells from different data)")
		}
	}
}

var c12skipped func()

func c12compare(req, impl, model string) bool {
	ok, tight := c12compare1(req, impl, model)
	if !ok && tight {
		if c12inconclusive != nil {
			c12inconclusive()
		}
		return true
	}
	return ok
}

func c12compare1(req, impl, model string) (bool, bool) {
	cmd := req[:strings.IndexByte(req, ' ')]
	mf := strings.Fields(model)
	xf := strings.Fields(impl)
	switch cmd {
	case "jaro", "datesim", "datesim-s":
		return len(mf) == 1 && len(xf) == 1 && c12close(xf[0], mf[0]), false
	case "sim-indif":
		if model == "skip" && c12skipped != nil {
			c12skipped()
		}
		return model == "skip" || impl == model, false
	case "jw", "strsim", "sim-indi", "sim-list", "sim-fam":
		if len(mf) < 2 || len(xf) != 1 {
			return false, false
		}
		// tight: a float64 comparison closer than 1e-9 to its threshold: inconclusive
		return c12close(xf[0], mf[0]), mf[1] == "1"
	case "sim-surr":
		if len(mf) != 6 || len(xf) != 5 {
			return false, false
		}
		ok := true
		for i := 0; i < 5; i++ {
			ok = ok && c12close(xf[i], mf[i])
		}
		return ok, mf[5] == "1"
	}
	return impl == model, false
}

func init() {
	runners["C12"] = func(c *Ctx) {
		c.Compare = c12compare
		c12skipped = func() {
			c.Dist["sim-indif: outside the domain of the binary64 model (dates outside years 1..9999 or not calendar-valid): not compared"]++
		}
		c12inconclusive = func() {
			c.Dist["inconclusive (float64 comparison within 1e-9 of its threshold, or a decision on an exact tie of the model)"]++
		}
		c.Rule = "strings: every pair over {a,b} up to length 6 (thorough 8) through model and implementation, every pair over {a,b,c} up to length 5 (thorough 7) through the oracle, random strings (length < 24) over small alphabets and their typo-mutations, names with case/punctuation/space runs/Unicode/invalid UTF-8, long strings and NAME values (65..130 bytes, repeated characters, shifted copies); dates: all pairs of a boundary set, random pairs of every DATE form, distance chains; individuals, lists (with duplicates and shared people), families and surrounding similarity on random family graphs vs an edited copy or an independent graph, default and random options (weights k/20 summing to 1, prefix <= 10, MaxYears > 0); distinct = distinct string pairs / date pairs / (graph, query)"
		k := &c12run{c: c, r: c.R, laws: map[c12rat][]c12lawPt{}}
		k.boundary()
		k.histories()
		k.strings()
		k.dates()
		k.graphs()
		k.weightSweep()
		k.sharedLists()
		k.tieShapes()
		k.longNames()
		c.Notes = append(c.Notes, "scores compared within 1e-9 of the model's exact fraction; bounds, symmetry, identity, neutral 0.5, cut-off and monotonicity are checked exactly on the float64 values (list/weighted symmetry within 1e-12: summation order)")
	}
}
