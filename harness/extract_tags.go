package main

import (
	"fmt"
	"sort"
	"strings"

	"github.com/elliotchance/gedcom/v39"
)

// probeKind decodes a two-line document and reports the Go dynamic type the decoder gives a node
// with this tag (the type is decided from the tag alone in newNodeWithChildren).
func probeKind(tag string) (kind string) {
	defer func() {
		if r := recover(); r != nil {
			kind = "panic"
		}
	}()
	src := "0 @F@ FAM\n1 " + tag + " v\n"
	idx := 1
	if tag == "INDI" || tag == "FAM" {
		src = "0 @X@ " + tag + "\n"
		idx = 0
	}
	doc, err := gedcom.NewDocumentFromString(src)
	if err != nil {
		return "error"
	}
	if idx == 0 {
		return kindOf(doc.Nodes()[0])
	}
	return kindOf(doc.Nodes()[0].Nodes()[0])
}

// probeDropsValue: does a decoded `… TAG probe-value` line come back without its value?  Probed in
// the positions a tag can take: root line with pointer, root line without, child of a family.
func probeDropsValue(tag string) (dropped bool) {
	defer func() {
		if r := recover(); r != nil {
			dropped = true
		}
	}()
	for _, src := range []string{
		"0 @F@ FAM\n0 @X@ " + tag + " probe-value\n",
		"0 @F@ FAM\n0 " + tag + " probe-value\n",
		"0 @F@ FAM\n1 " + tag + " probe-value\n",
	} {
		doc, err := gedcom.NewDocumentFromString(src)
		if err != nil {
			return true
		}
		var n gedcom.Node
		if strings.Contains(src, "\n1 ") {
			n = doc.Nodes()[0].Nodes()[0]
		} else {
			n = doc.Nodes()[1]
		}
		if n.Value() != "probe-value" {
			return true
		}
	}
	return false
}

func init() {
	extractors["Tags"] = func() string {
		var b strings.Builder
		b.WriteString("-- Source: gedcom.Tags() and a decode probe per tag (dynamic Go type of the decoded node);\n")
		b.WriteString("-- tag metadata from Tag.IsEvent / IsOfficial / SortValue.\n")
		b.WriteString("namespace Gedcom.Generated\n\n")
		tags := gedcom.Tags()
		names := []string{}
		seen := map[string]bool{}
		for _, t := range tags {
			if !seen[t.Tag()] {
				seen[t.Tag()] = true
				names = append(names, t.Tag())
			}
		}
		sort.Strings(names)
		b.WriteString("/-- tag ↦ Go node type, for every registered tag whose type is not SimpleNode -/\n")
		b.WriteString("def kindTable : List (String × String) := [\n")
		first := true
		for _, n := range names {
			k := probeKind(n)
			if k == "SimpleNode" {
				continue
			}
			if !first {
				b.WriteString(",\n")
			}
			first = false
			fmt.Fprintf(&b, "  (%q, %q)", n, k)
		}
		b.WriteString("]\n\n")
		fmt.Fprintf(&b, "/-- the type given to an unregistered tag (probe: %q) -/\n", "ZZUNKNOWN")
		fmt.Fprintf(&b, "def unknownKind : String := %q\n\n", probeKind("ZZUNKNOWN"))
		b.WriteString("/-- (tag, isEvent, isOfficial, sortValue) for every registered tag -/\n")
		b.WriteString("def tagInfo : List (String × Bool × Bool × Nat) := [\n")
		for i, n := range names {
			t := gedcom.TagFromString(n)
			sep := ","
			if i == len(names)-1 {
				sep = ""
			}
			fmt.Fprintf(&b, "  (%q, %v, %v, %d)%s\n", n, t.IsEvent(), t.IsOfficial(), t.SortValue(), sep)
		}
		b.WriteString("]\n\n")
		// which tags lose the value written on their line when decoded (probe per registered tag and
		// an unregistered one, as a root line and as a child of a family, with and without a pointer)
		dropped := []string{}
		for _, n := range append(append([]string{}, names...), "ZZUNKNOWN") {
			if probeDropsValue(n) {
				dropped = append(dropped, fmt.Sprintf("%q", n))
			}
		}
		fmt.Fprintf(&b, "/-- tags whose node does not keep the value of its line (decode probe) -/\ndef valueDroppedTags : List String := [%s]\n\n", strings.Join(dropped, ", "))
		b.WriteString("def kindOfTag (tag : String) : String :=\n  match kindTable.find? (·.1 == tag) with\n  | some e => e.2\n  | none => unknownKind\n\n")
		b.WriteString("end Gedcom.Generated\n")
		return b.String()
	}
}
