package main

// Facts for C18 (Gedcom/Generated/Sinks.lean): which sink every page component feeds.
//   * coreStringParams: every string parameter of the html/core constructors, probed through the
//     public API with `<"`: raw (written as given) or encoded;
//   * sinkCalls: every call of a core constructor (and of the raw write helpers of package html)
//     in html/*.go and q/html_formatter.go (go/ast): the sink it feeds and whether the argument is
//     a literal (constants, literal-only locals and helper functions, concatenations, Sprintf of
//     those), a Component, or an expression that can carry file data.
// The Lean side demands that a raw sink is only ever fed by literals, or by an expression on an
// explicit allow-list with a reason.

import (
	"bytes"
	"fmt"
	"go/ast"
	"go/parser"
	"go/printer"
	"go/token"
	"hash/fnv"
	"os"
	"path/filepath"
	"reflect"
	"sort"
	"strings"

	"github.com/elliotchance/gedcom/v39/html/core"
)

func c18Hash(s string) uint64 {
	h := fnv.New64a()
	h.Write([]byte(s))
	return h.Sum64() >> 11 // 53 bits
}

type c18CoreParam struct {
	Name string // Ctor.param
	Raw  bool
	OK   bool // probe conclusive
}

// c18CoreParams probes every string parameter of html/core.
func c18CoreParams() []c18CoreParam {
	e := func() core.Component { return core.NewComponents() }
	probes := []struct {
		name string
		f    func(v string) core.Component
	}{
		{"NewAnchor.0", func(v string) core.Component { return core.NewAnchor(v) }},
		{"NewBadgePill.0", func(v string) core.Component { return core.NewBadgePill(v, "", e()) }},
		{"NewBadgePill.1", func(v string) core.Component { return core.NewBadgePill("", v, e()) }},
		{"NewDiv.0", func(v string) core.Component { return core.NewDiv(v, e()) }},
		{"NewGoogleAnalytics.0", func(v string) core.Component { return core.NewGoogleAnalytics(v) }},
		{"NewHeading.1", func(v string) core.Component { return core.NewHeading(1, v, e()) }},
		{"NewHTML.0", func(v string) core.Component { return core.NewHTML(v) }},
		{"NewKeyedTableRow.0", func(v string) core.Component { return core.NewKeyedTableRow(v, e(), true) }},
		{"NewLink.1", func(v string) core.Component { return core.NewLink(e(), v) }},
		{"Link.Style.0", func(v string) core.Component { return core.NewLink(e(), "").Style(v) }},
		{"NewNavItem.2", func(v string) core.Component { return core.NewNavItem(e(), false, v) }},
		{"NewNavLink.0", func(v string) core.Component { return core.NewNavLink(v, "", false) }},
		{"NewNavLink.1", func(v string) core.Component { return core.NewNavLink("", v, false) }},
		{"NewOcticon.0", func(v string) core.Component { return core.NewOcticon(v, "") }},
		{"NewOcticon.1", func(v string) core.Component { return core.NewOcticon("", v) }},
		{"NewPage.0", func(v string) core.Component { return core.NewPage(v, e(), "") }},
		{"NewPage.2", func(v string) core.Component { return core.NewPage("", e(), v) }},
		{"NewSpan.0", func(v string) core.Component { return core.NewSpan(v, e()) }},
		{"NewTable.0", func(v string) core.Component { return core.NewTable(v) }},
		{"TableCell.Class.0", func(v string) core.Component { return core.NewTableCell(e()).Class(v) }},
		{"TableCell.Style.0", func(v string) core.Component { return core.NewTableCell(e()).Style(v) }},
		{"NewTableHead.*", func(v string) core.Component { return core.NewTableHead(v) }},
		{"NewTag.0", func(v string) core.Component { return core.NewTag(v, nil, e()) }},
		{"NewTag.key", func(v string) core.Component { return core.NewTag("x", map[string]string{v: "v"}, e()) }},
		{"NewTag.value", func(v string) core.Component { return core.NewTag("x", map[string]string{"k": v}, e()) }},
		{"NewText.0", func(v string) core.Component { return core.NewText(v) }},
	}
	var out []c18CoreParam
	have := map[string]bool{"NewFile.0": true, "NewDirectoryFileWriter.0": true} // file and directory names are not page content (C19)
	const probe = "\x01<\"\x02"
	judge := func(name, r string) {
		i, j := strings.Index(r, "\x01"), strings.Index(r, "\x02")
		out = append(out, c18CoreParam{Name: name, Raw: strings.Contains(r, probe), OK: i >= 0 && j > i})
		have[name] = true
	}
	for _, p := range probes {
		judge(p.name, c18Render(p.f(probe)))
	}
	// every other exported constructor / method of html/core with a string parameter (go/ast):
	// methods of the builder types are probed by reflection, anything that cannot be probed is
	// reported as raw ("UNPROBED") so that it cannot appear unnoticed
	instances := map[string]func() core.Component{
		"TableCell": func() core.Component { return core.NewTableCell(e()) },
		"Link":      func() core.Component { return core.NewLink(e(), "") },
	}
	sigs := c18CoreSigs()
	var names []string
	for n := range sigs {
		names = append(names, n)
	}
	sort.Strings(names)
	for _, n := range names {
		sig := sigs[n]
		for i, k := range sig.params {
			pname := fmt.Sprintf("%s.%d", n, i)
			if sig.variadic && i == len(sig.params)-1 {
				pname = n + ".*"
			}
			switch k {
			case "attrs":
				if !have[n+".key"] || !have[n+".value"] {
					out = append(out, c18CoreParam{Name: n + ".key", Raw: true}, c18CoreParam{Name: n + ".value", Raw: true})
				}
				continue
			case "string":
			default:
				continue
			}
			if have[pname] {
				continue
			}
			if dot := strings.IndexByte(n, '.'); dot > 0 {
				if mk, ok := instances[n[:dot]]; ok {
					if r, ok := c18ReflectProbe(mk(), n[dot+1:], i, probe); ok {
						judge(pname, r)
						continue
					}
				}
			}
			out = append(out, c18CoreParam{Name: pname, Raw: true})
			have[pname] = true
		}
	}
	return out
}

// c18ReflectProbe calls method `name` of the component with `probe` as its idx-th argument (zero
// values elsewhere) and renders the result.
func c18ReflectProbe(inst core.Component, name string, idx int, probe string) (out string, ok bool) {
	defer func() {
		if recover() != nil {
			ok = false
		}
	}()
	m := reflect.ValueOf(inst).MethodByName(name)
	if !m.IsValid() {
		return "", false
	}
	t := m.Type()
	args := make([]reflect.Value, t.NumIn())
	for i := range args {
		args[i] = reflect.Zero(t.In(i))
		if i == idx && t.In(i).Kind() == reflect.String {
			args[i] = reflect.ValueOf(probe)
		}
	}
	res := m.Call(args)
	if len(res) > 0 {
		if c, isC := res[0].Interface().(core.Component); isC && !res[0].IsNil() {
			return c18Render(c), true
		}
	}
	return c18Render(inst), true
}

// parameter kinds of the core constructors as far as the call-site analysis needs them
type c18Sig struct {
	params   []string // "string" | "component" | "other" | "attrs" | "strings..." | "components..."
	variadic bool
}

func c18TypeKind(e ast.Expr) string {
	var b bytes.Buffer
	printer.Fprint(&b, token.NewFileSet(), e)
	t := b.String()
	switch {
	case t == "string":
		return "string"
	case t == "map[string]string":
		return "attrs"
	case strings.Contains(t, "Component") || strings.HasPrefix(t, "*") || strings.HasPrefix(t, "[]*"):
		return "component"
	}
	return "other"
}

func c18CoreSigs() map[string]c18Sig {
	sigs := map[string]c18Sig{}
	fset := token.NewFileSet()
	pkgs, err := parser.ParseDir(fset, filepath.Join(c18RepoDir(), "html", "core"), func(fi os.FileInfo) bool {
		return !strings.HasSuffix(fi.Name(), "_test.go")
	}, 0)
	if err != nil {
		return sigs
	}
	for _, pkg := range pkgs {
		for _, f := range pkg.Files {
			for _, d := range f.Decls {
				fd, ok := d.(*ast.FuncDecl)
				if !ok || !ast.IsExported(fd.Name.Name) {
					continue
				}
				name := fd.Name.Name
				if fd.Recv != nil {
					if name == "WriteHTMLTo" || len(fd.Recv.List) == 0 {
						continue
					}
					var b bytes.Buffer
					printer.Fprint(&b, fset, fd.Recv.List[0].Type)
					name = strings.TrimPrefix(b.String(), "*") + "." + name
				} else if !strings.HasPrefix(name, "New") {
					continue
				}
				var sig c18Sig
				for _, p := range fd.Type.Params.List {
					k := ""
					if el, ok := p.Type.(*ast.Ellipsis); ok {
						k = c18TypeKind(el.Elt)
						sig.variadic = true
					} else {
						k = c18TypeKind(p.Type)
					}
					n := len(p.Names)
					if n == 0 {
						n = 1
					}
					for i := 0; i < n; i++ {
						sig.params = append(sig.params, k)
					}
				}
				sigs[name] = sig
			}
		}
	}
	return sigs
}

type c18SinkCall struct {
	File, Func, Sink, Expr string
	Class                  string // literal | expr | component | other
}

func (c c18SinkCall) ID() uint64 { return c18Hash(c.File + "|" + c.Func + "|" + c.Sink + "|" + c.Expr) }

type c18LitCtx struct {
	consts map[string]bool          // package-level string/int constants
	funcs  map[string]*ast.FuncDecl // package-level functions
	busy   map[string]bool
}

func c18ExprText(e ast.Expr) string {
	var b bytes.Buffer
	printer.Fprint(&b, token.NewFileSet(), e)
	s := strings.Join(strings.Fields(b.String()), " ")
	if len(s) > 90 {
		s = s[:90] + "…"
	}
	return s
}

// isLit: can the expression only ever be text written in the source?
func (lc *c18LitCtx) isLit(e ast.Expr, fn *ast.FuncDecl) bool {
	switch x := e.(type) {
	case *ast.BasicLit:
		return true
	case *ast.ParenExpr:
		return lc.isLit(x.X, fn)
	case *ast.BinaryExpr:
		return x.Op == token.ADD && lc.isLit(x.X, fn) && lc.isLit(x.Y, fn)
	case *ast.SelectorExpr:
		if id, ok := x.X.(*ast.Ident); ok && id.Name == "core" {
			return ast.IsExported(x.Sel.Name) && !strings.HasPrefix(x.Sel.Name, "New") // core constants (EntireRow …)
		}
		return false
	case *ast.Ident:
		if x.Name == "true" || x.Name == "false" || x.Name == "nil" || lc.consts[x.Name] {
			return true
		}
		return fn != nil && lc.localLit(x.Name, fn)
	case *ast.CallExpr:
		if se, ok := x.Fun.(*ast.SelectorExpr); ok {
			if id, ok := se.X.(*ast.Ident); ok && id.Name == "fmt" && se.Sel.Name == "Sprintf" {
				for _, a := range x.Args {
					if !lc.isLit(a, fn) {
						return false
					}
				}
				return true
			}
			return false
		}
		if _, ok := x.Fun.(*ast.ArrayType); ok { // []byte("literal")
			return len(x.Args) == 1 && lc.isLit(x.Args[0], fn)
		}
		if id, ok := x.Fun.(*ast.Ident); ok {
			if id.Name == "string" || id.Name == "rune" {
				return len(x.Args) == 1 && lc.isLit(x.Args[0], fn)
			}
			return lc.funcLit(id.Name)
		}
	}
	return false
}

// localLit: every definition/assignment of the local variable in fn has a literal right-hand side.
func (lc *c18LitCtx) localLit(name string, fn *ast.FuncDecl) bool {
	key := fn.Name.Name + "/" + name
	if lc.busy[key] {
		return true // recursion through itself adds nothing new
	}
	lc.busy[key] = true
	defer delete(lc.busy, key)
	// parameters and receivers are not literals
	isParam := false
	for _, fl := range []*ast.FieldList{fn.Type.Params, fn.Recv} {
		if fl == nil {
			continue
		}
		for _, p := range fl.List {
			for _, n := range p.Names {
				if n.Name == name {
					isParam = true
				}
			}
		}
	}
	if isParam {
		return false
	}
	found, ok := false, true
	ast.Inspect(fn.Body, func(n ast.Node) bool {
		switch s := n.(type) {
		case *ast.AssignStmt:
			for i, l := range s.Lhs {
				if id, isID := l.(*ast.Ident); isID && id.Name == name {
					found = true
					if len(s.Rhs) == len(s.Lhs) {
						if !lc.isLit(s.Rhs[i], fn) {
							ok = false
						}
					} else {
						ok = false
					}
				}
			}
		case *ast.ValueSpec:
			for i, id := range s.Names {
				if id.Name == name {
					found = true
					if i < len(s.Values) && !lc.isLit(s.Values[i], fn) {
						ok = false
					}
				}
			}
		case *ast.RangeStmt:
			for _, kv := range []ast.Expr{s.Key, s.Value} {
				if id, isID := kv.(*ast.Ident); isID && id.Name == name {
					found, ok = true, false
				}
			}
		case *ast.UnaryExpr:
			if id, isID := s.X.(*ast.Ident); isID && s.Op == token.AND && id.Name == name {
				ok = false
			}
		}
		return true
	})
	return found && ok
}

// funcLit: every return statement of the package-level function returns literals.
func (lc *c18LitCtx) funcLit(name string) bool {
	fd := lc.funcs[name]
	if fd == nil || fd.Body == nil {
		return false
	}
	key := "func/" + name
	if lc.busy[key] {
		return true
	}
	lc.busy[key] = true
	defer delete(lc.busy, key)
	found, ok := false, true
	ast.Inspect(fd.Body, func(n ast.Node) bool {
		if _, isLit := n.(*ast.FuncLit); isLit {
			return false
		}
		if r, isRet := n.(*ast.ReturnStmt); isRet {
			found = true
			for _, e := range r.Results {
				if !lc.isLit(e, fd) {
					ok = false
				}
			}
		}
		return true
	})
	return found && ok
}

// raw write helpers of package html (not core): everything after the writer goes to the page as is;
// and the constructors that forward a string to such a helper (struct field unknownHTML/unknownText)
var c18HtmlRawHelpers = map[string]int{"writeString": 1, "appendString": 1, "writeSprintf": 1, "appendSprintf": 1}
var c18HtmlForwarders = map[string]int{"NewIndividualName": 2, "NewIndividualNameAndDates": 2, "NewIndividualNameAndDatesLink": 2}

// c18SinkCalls lists the calls.
func c18SinkCalls() []c18SinkCall {
	sigs := c18CoreSigs()
	methodTypes := map[string][]string{} // method name -> core types that have it with a string parameter
	for n, sig := range sigs {
		if dot := strings.IndexByte(n, '.'); dot > 0 {
			for _, k := range sig.params {
				if k == "string" {
					methodTypes[n[dot+1:]] = append(methodTypes[n[dot+1:]], n[:dot])
					break
				}
			}
		}
	}
	for _, ts := range methodTypes {
		sort.Strings(ts)
	}
	var calls []c18SinkCall
	scan := func(dir string, only string) {
		fset := token.NewFileSet()
		pkgs, err := parser.ParseDir(fset, dir, func(fi os.FileInfo) bool {
			return !strings.HasSuffix(fi.Name(), "_test.go") && (only == "" || fi.Name() == only)
		}, 0)
		if err != nil {
			return
		}
		for _, pkg := range pkgs {
			lc := &c18LitCtx{consts: map[string]bool{}, funcs: map[string]*ast.FuncDecl{}, busy: map[string]bool{}}
			var names []string
			for n := range pkg.Files {
				names = append(names, n)
			}
			sort.Strings(names)
			for _, n := range names {
				for _, d := range pkg.Files[n].Decls {
					switch x := d.(type) {
					case *ast.GenDecl:
						if x.Tok == token.CONST {
							for _, sp := range x.Specs {
								for _, id := range sp.(*ast.ValueSpec).Names {
									lc.consts[id.Name] = true
								}
							}
						}
					case *ast.FuncDecl:
						if x.Recv == nil {
							lc.funcs[x.Name.Name] = x
						}
					}
				}
			}
			for _, n := range names {
				file := filepath.Base(n)
				for _, d := range pkg.Files[n].Decls {
					fd, ok := d.(*ast.FuncDecl)
					if !ok || fd.Body == nil {
						continue
					}
					fname := fd.Name.Name
					if _, helper := c18HtmlRawHelpers[fname]; helper && fd.Recv == nil {
						continue // the helpers themselves: their callers are what is listed
					}
					if fd.Recv != nil && len(fd.Recv.List) > 0 {
						fname = strings.TrimPrefix(c18ExprText(fd.Recv.List[0].Type), "*") + "." + fname
					}
					add := func(sink string, e ast.Expr, kind string) {
						c := c18SinkCall{File: file, Func: fname, Sink: sink, Expr: c18ExprText(e)}
						switch {
						case kind == "component":
							c.Class = "component"
						case kind == "other":
							c.Class = "other"
						case lc.isLit(e, fd):
							c.Class = "literal"
						default:
							c.Class = "expr"
						}
						calls = append(calls, c)
					}
					ast.Inspect(fd.Body, func(nd ast.Node) bool {
						call, ok := nd.(*ast.CallExpr)
						if !ok {
							return true
						}
						switch fun := call.Fun.(type) {
						case *ast.Ident:
							if from, ok := c18HtmlRawHelpers[fun.Name]; ok && filepath.Base(dir) == "html" {
								for i := from; i < len(call.Args); i++ {
									add("html."+fun.Name, call.Args[i], "string")
								}
							}
							if idx, ok := c18HtmlForwarders[fun.Name]; ok && idx < len(call.Args) {
								add("html."+fun.Name+".unknown", call.Args[idx], "string")
							}
						case *ast.SelectorExpr:
							if id, ok := fun.X.(*ast.Ident); ok && id.Name == "core" && strings.HasPrefix(fun.Sel.Name, "New") {
								ctor := fun.Sel.Name
								sig, known := sigs[ctor]
								for i, a := range call.Args {
									kind := "string"
									if known {
										j := i
										if j >= len(sig.params) {
											j = len(sig.params) - 1
										}
										if j >= 0 {
											kind = sig.params[j]
										}
									}
									sink := fmt.Sprintf("%s.%d", ctor, i)
									if known && sig.variadic && i >= len(sig.params)-1 {
										sink = ctor + ".*"
									}
									if kind == "attrs" {
										if cl, ok := a.(*ast.CompositeLit); ok {
											for _, el := range cl.Elts {
												if kv, ok := el.(*ast.KeyValueExpr); ok {
													add(ctor+".key", kv.Key, "string")
													add(ctor+".value", kv.Value, "string")
												}
											}
										} else if id, ok := a.(*ast.Ident); !ok || id.Name != "nil" {
											add(ctor+".key", a, "string")
										}
										continue
									}
									add(sink, a, kind)
								}
								return true
							}
							// q/html_formatter.go writes to the page itself: f.Writer.Write(…) and the JSON fallback
							if file == "html_formatter.go" && fun.Sel.Name == "Write" && c18ExprText(fun.X) != "f" {
								for _, a := range call.Args {
									add("q.Write", a, "string")
								}
							}
							// methods of core components that take a string (TableCell.Class/Style/…,
							// Link.Style; whatever html/core declares): the receiver type is read from the
							// constructor at the root of the call chain, else every type with that method counts
							if types := methodTypes[fun.Sel.Name]; len(types) > 0 {
								recv := ""
								ast.Inspect(fun.X, func(m ast.Node) bool {
									if c2, ok := m.(*ast.CallExpr); ok {
										if se, ok := c2.Fun.(*ast.SelectorExpr); ok && strings.HasPrefix(se.Sel.Name, "New") {
											for _, t := range types {
												if se.Sel.Name == "New"+t {
													recv = t
												}
											}
										}
									}
									return true
								})
								cands := types
								if recv != "" {
									cands = []string{recv}
								}
								for _, t := range cands {
									sig := sigs[t+"."+fun.Sel.Name]
									for i, a := range call.Args {
										if i < len(sig.params) && sig.params[i] == "string" {
											add(fmt.Sprintf("%s.%s.%d", t, fun.Sel.Name, i), a, "string")
										}
									}
								}
							}
						}
						return true
					})
				}
			}
		}
	}
	scan(filepath.Join(c18RepoDir(), "html"), "")
	scan(filepath.Join(c18RepoDir(), "q"), "html_formatter.go")
	sort.SliceStable(calls, func(i, j int) bool {
		if calls[i].File != calls[j].File {
			return calls[i].File < calls[j].File
		}
		return false
	})
	return calls
}

var c18ClassCode = map[string]int{"literal": 0, "expr": 1, "component": 2, "other": 3}

func init() {
	extractors["Sinks"] = func() string {
		var b strings.Builder
		b.WriteString("-- Source: html/core string parameters probed with `<\"` through the public constructors;\n")
		b.WriteString("-- go/ast of html/*.go and q/html_formatter.go: every call of a core constructor, of the raw write\n")
		b.WriteString("-- helpers of package html and of the constructors that forward raw HTML.\n")
		b.WriteString("-- Names are given as 53-bit FNV-1a hashes (the text is in the comment of each line).\n")
		b.WriteString("namespace Gedcom.Generated\n\n")
		b.WriteString("/-- (hash of \"Constructor.parameter\", written raw?) for every string parameter of html/core -/\n")
		b.WriteString("def coreStringParams : List (Nat × Bool) := [\n")
		ps := c18CoreParams()
		for i, p := range ps {
			sep := ","
			if i == len(ps)-1 {
				sep = ""
			}
			note := ""
			if !p.OK {
				note = " (UNPROBED or probe inconclusive: counted as raw)"
			}
			fmt.Fprintf(&b, "  (%d, %s)%s -- %s%s\n", c18Hash(p.Name), c18LeanBool(p.Raw), sep, p.Name, note)
		}
		b.WriteString("]\n\n")
		b.WriteString("/-- (call id, sink, class) — class 0: literal, 1: expression that can carry file data,\n    2: Component, 3: int/bool; call id = hash of \"file|function|sink|expression\" -/\n")
		b.WriteString("def sinkCalls : List (Nat × Nat × Nat) := [\n")
		calls := c18SinkCalls()
		for i, c := range calls {
			sep := ","
			if i == len(calls)-1 {
				sep = ""
			}
			fmt.Fprintf(&b, "  (%d, %d, %d)%s -- %s %s: %s(%s) [%s]\n", c.ID(), c18Hash(c.Sink), c18ClassCode[c.Class], sep,
				c.File, c.Func, c.Sink, c18LeanComment(c.Expr), c.Class)
		}
		b.WriteString("]\n\n")
		fmt.Fprintf(&b, "/-- hashes of the sinks of package html that write raw bytes themselves -/\ndef htmlRawHelperSinks : List Nat := [%d, %d, %d, %d, %d, %d, %d, %d]\n\n",
			c18Hash("html.writeString"), c18Hash("html.appendString"), c18Hash("html.writeSprintf"), c18Hash("html.appendSprintf"),
			c18Hash("html.NewIndividualName.unknown"), c18Hash("html.NewIndividualNameAndDates.unknown"), c18Hash("html.NewIndividualNameAndDatesLink.unknown"), c18Hash("q.Write"))
		fmt.Fprintf(&b, "/-- string parameters of core constructors that do not reach a page: NewFile.0, NewDirectoryFileWriter.0 (file and directory names, C19) -/\ndef nonPageStringSinks : List Nat := [%d, %d]\n\n", c18Hash("NewFile.0"), c18Hash("NewDirectoryFileWriter.0"))
		b.WriteString("end Gedcom.Generated\n")
		return b.String()
	}
}

func c18LeanBool(b bool) string {
	if b {
		return "true"
	}
	return "false"
}
