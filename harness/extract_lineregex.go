package main

import (
	"fmt"
	"go/ast"
	"go/parser"
	"go/token"
	"os"
	"path/filepath"
	"regexp/syntax"
	"strconv"
	"strings"
)

// The line grammar of the decoder is a regular expression literal in decoder.go.  This extractor
// translates that literal (regexp/syntax, Perl flags — what regexp.MustCompile uses) into a term of
// the Lean type Gedcom.Regex.Re, and records how parseLine uses the submatches (go/ast).  The Lean
// side proves that the model's deterministic `parseLine` equals the backtracking semantics of the
// translated expression on every line (Props/C02: `parseLine_is_the_source_regexp`).

type lineRegexFacts struct {
	Literal   string // the pattern text ("" when not found)
	UsesFind  bool   // parseLine starts from lineRegexp.FindStringSubmatch(line)
	NoMatch   bool   // `len(parts) == 0` is answered with an error
	IndentGrp int    // strconv.Atoi(parts[i])
	PtrGrp    int    // parts[i][lo : len(parts[i])-hi]
	PtrLo     int
	PtrHi     int
	PtrGuard  bool // the slice is taken only when parts[i] != ""
	TagGrp    int  // TagFromString(parts[i])
	ValueGrp  int  // value := parts[i]
}

func repoRoot() string {
	if r := os.Getenv("VERIF_REPO"); r != "" {
		return r
	}
	return "/repo"
}

// partsIndex recognises `parts[k]` and returns k.
func partsIndex(e ast.Expr) (int, bool) {
	ix, ok := e.(*ast.IndexExpr)
	if !ok {
		return 0, false
	}
	id, ok := ix.X.(*ast.Ident)
	if !ok || id.Name != "parts" {
		return 0, false
	}
	lit, ok := ix.Index.(*ast.BasicLit)
	if !ok || lit.Kind != token.INT {
		return 0, false
	}
	k, err := strconv.Atoi(lit.Value)
	return k, err == nil
}

func intLit(e ast.Expr) (int, bool) {
	lit, ok := e.(*ast.BasicLit)
	if !ok || lit.Kind != token.INT {
		return 0, false
	}
	k, err := strconv.Atoi(lit.Value)
	return k, err == nil
}

func extractLineRegexFacts() lineRegexFacts {
	f := lineRegexFacts{IndentGrp: -1, PtrGrp: -1, PtrLo: -1, PtrHi: -1, TagGrp: -1, ValueGrp: -1}
	fset := token.NewFileSet()
	file, err := parser.ParseFile(fset, filepath.Join(repoRoot(), "decoder.go"), nil, 0)
	if err != nil {
		return f
	}
	for _, d := range file.Decls {
		switch d := d.(type) {
		case *ast.GenDecl:
			for _, s := range d.Specs {
				vs, ok := s.(*ast.ValueSpec)
				if !ok || len(vs.Names) != 1 || vs.Names[0].Name != "lineRegexp" || len(vs.Values) != 1 {
					continue
				}
				call, ok := vs.Values[0].(*ast.CallExpr)
				if !ok || len(call.Args) != 1 {
					continue
				}
				sel, ok := call.Fun.(*ast.SelectorExpr)
				if !ok || sel.Sel.Name != "MustCompile" {
					continue
				}
				if lit, ok := call.Args[0].(*ast.BasicLit); ok && lit.Kind == token.STRING {
					if s, err := strconv.Unquote(lit.Value); err == nil {
						f.Literal = s
					}
				}
			}
		case *ast.FuncDecl:
			if d.Name.Name != "parseLine" || d.Recv != nil || d.Body == nil {
				continue
			}
			ast.Inspect(d.Body, func(n ast.Node) bool {
				switch n := n.(type) {
				case *ast.AssignStmt:
					if len(n.Lhs) >= 1 && len(n.Rhs) == 1 {
						lhs, _ := n.Lhs[0].(*ast.Ident)
						if call, ok := n.Rhs[0].(*ast.CallExpr); ok {
							if sel, ok := call.Fun.(*ast.SelectorExpr); ok {
								x, _ := sel.X.(*ast.Ident)
								if lhs != nil && lhs.Name == "parts" && x != nil && x.Name == "lineRegexp" &&
									sel.Sel.Name == "FindStringSubmatch" && len(call.Args) == 1 {
									if a, ok := call.Args[0].(*ast.Ident); ok && a.Name == "line" {
										f.UsesFind = true
									}
								}
								if x != nil && x.Name == "strconv" && sel.Sel.Name == "Atoi" && len(call.Args) == 1 {
									if k, ok := partsIndex(call.Args[0]); ok && lhs != nil && lhs.Name == "indent" {
										f.IndentGrp = k
									}
								}
							}
							if fn, ok := call.Fun.(*ast.Ident); ok && fn.Name == "TagFromString" && len(call.Args) == 1 {
								if k, ok := partsIndex(call.Args[0]); ok && lhs != nil && lhs.Name == "tag" {
									f.TagGrp = k
								}
							}
						}
						if lhs != nil && lhs.Name == "value" {
							if k, ok := partsIndex(n.Rhs[0]); ok {
								f.ValueGrp = k
							}
						}
					}
				case *ast.IfStmt:
					// if len(parts) == 0 { return nil, 0, fmt.Errorf(...) }
					if be, ok := n.Cond.(*ast.BinaryExpr); ok {
						if be.Op == token.EQL {
							if call, ok := be.X.(*ast.CallExpr); ok {
								if fn, ok := call.Fun.(*ast.Ident); ok && fn.Name == "len" && len(call.Args) == 1 {
									if a, ok := call.Args[0].(*ast.Ident); ok && a.Name == "parts" {
										if z, ok := intLit(be.Y); ok && z == 0 && len(n.Body.List) == 1 {
											if ret, ok := n.Body.List[0].(*ast.ReturnStmt); ok && len(ret.Results) == 3 {
												if id, ok := ret.Results[0].(*ast.Ident); ok && id.Name == "nil" {
													if _, ok := ret.Results[2].(*ast.CallExpr); ok {
														f.NoMatch = true
													}
												}
											}
										}
									}
								}
							}
						}
						// if parts[k] != "" { pointer = parts[k][lo : len(parts[k])-hi] }
						if be.Op == token.NEQ {
							if k, ok := partsIndex(be.X); ok {
								if lit, ok := be.Y.(*ast.BasicLit); ok && lit.Value == `""` && len(n.Body.List) == 1 && n.Else == nil {
									if as, ok := n.Body.List[0].(*ast.AssignStmt); ok && len(as.Lhs) == 1 && len(as.Rhs) == 1 {
										lhs, _ := as.Lhs[0].(*ast.Ident)
										if se, ok := as.Rhs[0].(*ast.SliceExpr); ok && lhs != nil && lhs.Name == "pointer" && !se.Slice3 {
											k2, ok2 := partsIndex(se.X)
											lo, okLo := intLit(se.Low)
											hi := -1
											if hb, ok := se.High.(*ast.BinaryExpr); ok && hb.Op == token.SUB {
												if call, ok := hb.X.(*ast.CallExpr); ok && len(call.Args) == 1 {
													if fn, ok := call.Fun.(*ast.Ident); ok && fn.Name == "len" {
														if k3, ok := partsIndex(call.Args[0]); ok && k3 == k {
															if h, ok := intLit(hb.Y); ok {
																hi = h
															}
														}
													}
												}
											}
											if ok2 && k2 == k && okLo && hi >= 0 {
												f.PtrGrp, f.PtrLo, f.PtrHi, f.PtrGuard = k, lo, hi, true
											}
										}
									}
								}
							}
						}
					}
				}
				return true
			})
		}
	}
	return f
}

// leanRanges renders the rune ranges of a character class.
func leanRanges(rs []rune) string {
	parts := []string{}
	for i := 0; i+1 < len(rs); i += 2 {
		parts = append(parts, fmt.Sprintf("(%d, %d)", rs[i], rs[i+1]))
	}
	return "[" + strings.Join(parts, ", ") + "]"
}

// leanCls renders a one-character sub-expression as a Cls, or "" when it is not one.
func leanCls(re *syntax.Regexp) string {
	switch re.Op {
	case syntax.OpCharClass:
		return ".ranges " + leanRanges(re.Rune)
	case syntax.OpAnyCharNotNL:
		return ".anyNotNL"
	case syntax.OpAnyChar:
		return ".any"
	case syntax.OpLiteral:
		if len(re.Rune) == 1 && re.Flags&syntax.FoldCase == 0 {
			return fmt.Sprintf(".ranges [(%d, %d)]", re.Rune[0], re.Rune[0])
		}
	}
	return ""
}

// leanRe renders the supported fragment (greedy star/plus over one-character classes, greedy
// optional parts, concatenation, captures, literals, end of text); anything else is `.unsupported`,
// which no obligation accepts.
func leanRe(re *syntax.Regexp) string {
	nongreedy := re.Flags&syntax.NonGreedy != 0
	switch re.Op {
	case syntax.OpEmptyMatch:
		return "(.lit [])"
	case syntax.OpLiteral:
		if re.Flags&syntax.FoldCase != 0 {
			return ".unsupported"
		}
		parts := []string{}
		for _, r := range re.Rune {
			parts = append(parts, strconv.Itoa(int(r)))
		}
		return "(.lit [" + strings.Join(parts, ", ") + "])"
	case syntax.OpCharClass, syntax.OpAnyCharNotNL, syntax.OpAnyChar:
		return "(.one (" + leanCls(re) + "))"
	case syntax.OpStar, syntax.OpPlus:
		c := leanCls(re.Sub[0])
		if c == "" || nongreedy {
			return ".unsupported"
		}
		if re.Op == syntax.OpStar {
			return "(.star (" + c + "))"
		}
		return "(.plus (" + c + "))"
	case syntax.OpQuest:
		if nongreedy {
			return ".unsupported"
		}
		return "(.quest " + leanRe(re.Sub[0]) + ")"
	case syntax.OpCapture:
		return fmt.Sprintf("(.cap %d %s)", re.Cap, leanRe(re.Sub[0]))
	case syntax.OpConcat:
		if len(re.Sub) == 0 {
			return "(.lit [])"
		}
		out := leanRe(re.Sub[len(re.Sub)-1])
		for i := len(re.Sub) - 2; i >= 0; i-- {
			out = "(.seq " + leanRe(re.Sub[i]) + " " + out + ")"
		}
		return out
	case syntax.OpEndText:
		return ".eol"
	}
	return ".unsupported"
}

func init() {
	extractors["LineRegex"] = func() string {
		f := extractLineRegexFacts()
		var b strings.Builder
		b.WriteString("-- Source: decoder.go — the literal handed to regexp.MustCompile for `lineRegexp`, parsed with\n")
		b.WriteString("-- regexp/syntax (Perl flags, as MustCompile does) and translated term by term; go/ast facts\n")
		b.WriteString("-- about how parseLine uses the submatches.\n")
		b.WriteString("import Gedcom.Model.Regex\nnamespace Gedcom.Generated\nopen Gedcom.Regex\n\n")
		fmt.Fprintf(&b, "/-- the pattern text -/\ndef lineRegexSource : String := %s\n\n", strconv.Quote(f.Literal))
		anchored := false
		body := ".unsupported"
		if f.Literal != "" {
			if re, err := syntax.Parse(f.Literal, syntax.Perl); err == nil {
				if re.Op == syntax.OpConcat && len(re.Sub) > 0 && re.Sub[0].Op == syntax.OpBeginText {
					anchored = true
					rest := *re
					rest.Sub = re.Sub[1:]
					body = leanRe(&rest)
				} else {
					body = leanRe(re)
				}
			}
		}
		fmt.Fprintf(&b, "/-- the pattern starts with `^` (begin of text): a match can only start at offset 0 -/\ndef lineRegexAnchored : Bool := %v\n\n", anchored)
		fmt.Fprintf(&b, "/-- the pattern after the leading `^` -/\ndef lineRegex : Re :=\n  %s\n\n", body)
		b.WriteString("/-- how `parseLine` uses the result of `lineRegexp.FindStringSubmatch(line)` -/\n")
		fmt.Fprintf(&b, "def parseLineUsesFind : Bool := %v\n", f.UsesFind)
		fmt.Fprintf(&b, "def parseLineErrorOnNoMatch : Bool := %v\n", f.NoMatch)
		fmt.Fprintf(&b, "def indentGroup : Int := %d\n", f.IndentGrp)
		fmt.Fprintf(&b, "def pointerGroup : Int := %d\ndef pointerLo : Int := %d\ndef pointerHi : Int := %d\ndef pointerGuarded : Bool := %v\n", f.PtrGrp, f.PtrLo, f.PtrHi, f.PtrGuard)
		fmt.Fprintf(&b, "def tagGroup : Int := %d\ndef valueGroup : Int := %d\n", f.TagGrp, f.ValueGrp)
		b.WriteString("\nend Gedcom.Generated\n")
		return b.String()
	}
}
