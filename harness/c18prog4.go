package main

// C18 program tie, fourth table: the components whose loops are programs per iteration.

import (
	"fmt"
	"reflect"
	"sort"

	"github.com/elliotchance/gedcom/v39"
	ghtml "github.com/elliotchance/gedcom/v39/html"
	"github.com/elliotchance/gedcom/v39/html/core"
)

func (g *c18ProgGen) envAllParentButtons(doc *gedcom.Document, ind *gedcom.IndividualNode, vis ghtml.LivingVisibility) *c18Env {
	e := c18NewEnv()
	l := []string{}
	appended := 0
	for _, fam := range ind.Families() {
		ie := c18NewEnv()
		skip := fam.Husband().IsIndividual(ind) || fam.Wife().IsIndividual(ind)
		ie.B["husbandMatches || wifeMatches"] = skip
		ie.K["NewParentButtons(c.document, family, c.visibility, c.placesMap)"] = "comps 0"
		if !skip {
			appended++
			ie.K["NewParentButtons(c.document, family, c.visibility, c.placesMap)"] = g.nest("ParentButtons", g.envParentButtons(doc, fam, vis))
		}
		l = append(l, g.nest("AllParentButtons_item0", ie))
	}
	e.L["range families: "] = l
	e.B["len(components) == 0"] = appended == 0
	e.K["NewParentButtons(c.document, familyNode, c.visibility, c.placesMap)"] =
		g.nest("ParentButtons", g.envParentButtons(doc, gedcom.NewDocument().AddFamily(""), vis))
	return e
}

func (g *c18ProgGen) envIndividualListPage(doc *gedcom.Document, letter rune, o *ghtml.PublishShowOptions, ls []rune) *c18Env {
	e := c18NewEnv()
	vis := o.LivingVisibility
	individuals := gedcom.IndividualNodes{}
	for _, ind := range doc.Individuals() {
		if c18SurnameStartsWith(ind, letter) {
			individuals = append(individuals, ind)
		}
	}
	// the same call as in the component, on the same input order
	sort.Slice(individuals, func(i, j int) bool {
		return individuals[i].Name().Format(gedcom.NameFormatIndex) < individuals[j].Name().Format(gedcom.NameFormatIndex)
	})
	living, last := 0, ""
	l := []string{}
	for _, i := range individuals {
		ie := c18NewEnv()
		ie.B["i.IsLiving()"] = i.IsLiving()
		ie.B["c.options.LivingVisibility == LivingVisibilityShow"] = vis == ghtml.LivingVisibilityShow
		ie.B["c.options.LivingVisibility == LivingVisibilityHide || c.options.LivingVisibility == LivingVisibilityPlaceholder"] =
			vis == ghtml.LivingVisibilityHide || vis == ghtml.LivingVisibilityPlaceholder
		sur := i.Name().Surname()
		ie.S["newSurname := i.Name().Surname()"] = sur
		ie.B["newSurname != lastSurname"] = sur != last
		ie.K["NewIndividualInList(c.document, i, c.options.LivingVisibility, c.placesMap)"] = "comps 0"
		if i.IsLiving() && vis != ghtml.LivingVisibilityShow {
			living++
		} else {
			last = sur
			ie.K["NewIndividualInList(c.document, i, c.options.LivingVisibility, c.placesMap)"] =
				g.nest("IndividualInList", g.envIndividualInList(doc, i, vis))
		}
		l = append(l, g.nest("IndividualListPage_item0", ie))
	}
	e.L["range individuals: "] = l
	e.S[`fmt.Sprintf("%d individuals are hidden because they are living.", livingCount)`] =
		fmt.Sprintf("%d individuals are hidden because they are living.", living)
	e.B["livingCount == 0 || c.options.LivingVisibility == LivingVisibilityHide || c.options.LivingVisibility == LivingVisibilityShow"] =
		living == 0 || vis == ghtml.LivingVisibilityHide || vis == ghtml.LivingVisibilityShow
	e.K[`NewPublishHeader(c.document, "", selectedIndividualsTab, c.options, c.indexLetters, c.placesMap)`] =
		g.nest("PublishHeader", g.envPublishHeader(doc, "", "individuals", o, ls))
	e.K["NewIndividualIndexHeader(c.document, c.selectedLetter, c.options.LivingVisibility, c.indexLetters)"] =
		g.nest("IndividualIndexHeader", g.envIndexHeader(ls, letter))
	e.K["NewSurnameIndex(c.document, c.selectedLetter, c.options.LivingVisibility)"] =
		g.nest("SurnameIndex", g.envSurnameIndex(doc, letter, vis))
	return e
}

func c18ProgDrivers5() []c18ProgDriver {
	return []c18ProgDriver{
		{"AllParentButtons", func(g *c18ProgGen) (core.Component, *c18Env, string) {
			var doc *gedcom.Document
			var ind *gedcom.IndividualNode
			for k := 0; k < 30 && ind == nil; k++ {
				doc = g.doc()
				if is := doc.Individuals(); len(is) > 0 {
					ind = is[g.r.Intn(len(is))]
				}
			}
			if ind == nil {
				panic("no individual")
			}
			vis := g.vis()
			e := g.envAllParentButtons(doc, ind, vis)
			return ghtml.NewAllParentButtons(doc, ind, vis, nil), e, fmt.Sprint(c18Bucket(len(e.L["range families: "])), e.B["len(components) == 0"], vis)
		}},
		{"IndividualListPage", func(g *c18ProgGen) (core.Component, *c18Env, string) {
			doc := g.doc()
			o := g.options()
			ls := g.letters(doc, o.LivingVisibility)
			letter := []rune("#abosz")[g.r.Intn(6)]
			if is := doc.Individuals(); len(is) > 0 && g.r.Chance(2, 3) {
				n := []byte(is[g.r.Intn(len(is))].Name().Format(gedcom.NameFormatIndex))
				if len(n) > 0 {
					c := n[0]
					if c >= 'A' && c <= 'Z' {
						c += 'a' - 'A'
					}
					letter = rune(c)
				}
			}
			ga := g.ga()
			e := g.envIndividualListPage(doc, letter, o, ls)
			e.GA = ga
			return ghtml.NewIndividualListPage(doc, letter, ga, o, ls, nil), e,
				fmt.Sprint(c18Bucket(len(e.L["range individuals: "])), o.LivingVisibility, ga == "")
		}},
		{"PlaceListPage", func(g *c18ProgGen) (core.Component, *c18Env, string) {
			pc := c18PlaceSetup(g)
			defer pc.done()
			ls := g.letters(pc.doc, pc.o.LivingVisibility)
			ga := g.ga()
			e := c18NewEnv()
			e.GA = ga
			e.K[`NewPublishHeader(c.document, "", selectedPlacesTab, c.options, c.indexLetters, c.placesMap)`] =
				g.nest("PublishHeader", g.envPublishHeader(pc.doc, "", "places", pc.o, ls))
			// the places in the order of the component: by country, then by name (both fields of the entry)
			type ent struct {
				key, pretty, country string
				n                    int
			}
			var ents []ent
			for _, key := range pc.keys {
				pretty, nodes, ok := pc.entry(key)
				if !ok {
					panic("place nodes not identified")
				}
				ents = append(ents, ent{key, pretty, pc.country(key), len(nodes)})
			}
			for _, a := range ents {
				for _, b := range ents {
					if a.key != b.key && a.country == b.country && a.pretty == b.pretty {
						panic("two places with the same name: the order of the component is that of a map")
					}
				}
			}
			sort.SliceStable(ents, func(i, j int) bool {
				if ents[i].country != ents[j].country {
					return ents[i].country < ents[j].country
				}
				return ents[i].pretty < ents[j].pretty
			})
			countries := gedcom.NewStringSet()
			last := ""
			l := []string{}
			for _, en := range ents {
				countries.Add(en.country)
				ie := c18NewEnv()
				ie.S["place.country"] = en.country
				ie.B["lastCountry != place.country"] = last != en.country
				pe := c18NewEnv()
				pe.I["len(c.place.nodes)"] = en.n
				pe.K["placeLink := NewPlaceLink(c.document, c.place.PrettyName, c.placesMap)"] = g.nest("PlaceLink", g.envPlaceLink(en.pretty))
				ie.K["placeEntry := NewPlaceInList(c.document, place, c.placesMap)"] = g.nest("PlaceInList", pe)
				l = append(l, g.nest("PlaceListPage_item0", ie))
				last = en.country
			}
			e.L["range sortedPlaces: "] = l
			pills := []string{}
			for _, c := range countries.Strings() {
				ie := c18NewEnv()
				ie.S["country := element of countries.Strings()"] = c
				pills = append(pills, g.nest("PlaceListPage_item1", ie))
			}
			e.L["range countries.Strings(): "] = pills
			return pc.listPage(ga, ls), e, fmt.Sprint(c18Bucket(len(l)), c18Bucket(len(pills)), ga == "")
		}},
	}
}

// c18PlaceCountry: the unexported field country of an entry of the places map
func c18PlaceCountry(p interface{}) string {
	v := reflect.ValueOf(p)
	if v.Kind() != reflect.Ptr || v.IsNil() {
		return ""
	}
	f := v.Elem().FieldByName("country")
	if !f.IsValid() || f.Kind() != reflect.String {
		panic("places map entry has no country")
	}
	return f.String()
}

func c18ValueAndPointer(node gedcom.Node) string {
	// the unexported method DiffRow.valueAndPointer
	v := node.Value()
	if i, ok := node.(*gedcom.IndividualNode); ok {
		v = i.Name().String()
	}
	if node.Pointer() != "" {
		v += fmt.Sprintf(" <%s>", node.Pointer())
	}
	return v
}

func (g *c18ProgGen) envDiffRow(name string, nd *gedcom.NodeDiff, hideSame bool) *c18Env {
	e := c18NewEnv()
	empty := false
	if hideSame {
		empty = nd.IsDeepEqual() || (nd.Tag().IsEvent() && len(nd.Children) == 0)
	}
	e.B["c.isEmpty()"] = empty
	e.S["c.name"] = name
	ln, rn := gedcom.IsNil(nd.Left), gedcom.IsNil(nd.Right)
	e.B["gedcom.IsNil(c.nd.Left) && gedcom.IsNil(c.nd.Right)"] = ln && rn
	e.B["gedcom.IsNil(c.nd.Left)"] = ln
	e.B["gedcom.IsNil(c.nd.Right)"] = rn
	e.B["!c.nd.IsDeepEqual()"] = !ln && !rn && !nd.IsDeepEqual()
	e.S["left := c.valueAndPointer(c.nd.Left)"], e.S["right := c.valueAndPointer(c.nd.Right)"] = "", ""
	if !ln {
		e.S["left := c.valueAndPointer(c.nd.Left)"] = c18ValueAndPointer(nd.Left)
	}
	if !rn {
		e.S["right := c.valueAndPointer(c.nd.Right)"] = c18ValueAndPointer(nd.Right)
	}
	return e
}

func c18ProgDrivers6() []c18ProgDriver {
	return []c18ProgDriver{
		{"DiffRow", func(g *c18ProgGen) (core.Component, *c18Env, string) {
			var nodes []gedcom.Node
			for k := 0; k < 30 && len(nodes) < 2; k++ {
				nodes = nil
				for _, d := range []*gedcom.Document{g.doc(), g.doc()} {
					for _, i := range d.Individuals() {
						nodes = append(nodes, i)
					}
					for _, s := range d.Sources() {
						nodes = append(nodes, s)
					}
				}
			}
			if len(nodes) < 2 {
				panic("no nodes")
			}
			l, r := nodes[g.r.Intn(len(nodes))], nodes[g.r.Intn(len(nodes))]
			if g.r.Chance(1, 4) {
				r = l
			}
			nd := gedcom.CompareNodes(l, r)
			// one of the compared children: they are the one-sided and the equal rows
			for depth := 0; depth < 3 && len(nd.Children) > 0 && g.r.Chance(3, 4); depth++ {
				nd = nd.Children[g.r.Intn(len(nd.Children))]
			}
			hide := g.r.Bool()
			name := g.r.Pick([]string{"Name", "Birth", g.data()})
			e := g.envDiffRow(name, nd, hide)
			return ghtml.NewDiffRow(name, nd, hide), e, fmt.Sprint(e.B["c.isEmpty()"], gedcom.IsNil(nd.Left), gedcom.IsNil(nd.Right), e.B["!c.nd.IsDeepEqual()"])
		}},
	}
}

type c18EventDatePart struct {
	event string
	dates []*gedcom.DateNode
}

func (g *c18ProgGen) envEventDates(parts []c18EventDatePart) *c18Env {
	e := c18NewEnv()
	n := 0
	l := []string{}
	for _, p := range parts {
		comp := ghtml.NewEventDate(p.event, p.dates)
		ie := c18NewEnv()
		sep := n > 0 && !comp.IsBlank()
		ie.B["n > 0 && !date.IsBlank()"] = sep
		ie.K["date := element of c.items"] = g.nest("EventDate", g.envEventDate(p.event, p.dates))
		if sep {
			n += len("&nbsp;&nbsp;&nbsp;")
		}
		n += len(c18Render(comp))
		l = append(l, g.nest("EventDates_item0", ie))
	}
	e.L["range c.items: "] = l
	return e
}

func c18ProgDrivers7() []c18ProgDriver {
	return []c18ProgDriver{
		{"EventDates", func(g *c18ProgGen) (core.Component, *c18Env, string) {
			var parts []c18EventDatePart
			var items []*ghtml.EventDate
			blanks := 0
			for k := g.r.Intn(4); k > 0; k-- {
				var ds []*gedcom.DateNode
				for i := g.r.Intn(3); i > 0; i-- {
					ds = append(ds, gedcom.NewDateNode(g.r.Pick([]string{"1 JAN 1900", "ABT 1850", g.data()})))
				}
				if len(ds) == 0 {
					blanks++
				}
				ev := g.r.Pick([]string{"b.", "d.", "", g.data()})
				parts = append(parts, c18EventDatePart{ev, ds})
				items = append(items, ghtml.NewEventDate(ev, ds))
			}
			return ghtml.NewEventDates(items), g.envEventDates(parts), fmt.Sprint(c18Bucket(len(items)), c18Bucket(blanks))
		}},
	}
}

func c18ProgDrivers8() []c18ProgDriver {
	return []c18ProgDriver{
		{"DiffPage", func(g *c18ProgGen) (core.Component, *c18Env, string) {
			l, r := g.doc(), g.doc()
			if g.r.Chance(1, 3) {
				r = l
			}
			co := gedcom.NewIndividualNodesCompareOptions()
			co.Jobs = 1 // one worker: the comparisons arrive in their order, ties keep it
			cmp := l.Individuals().Compare(r.Individuals(), co)
			ff := &gedcom.FilterFlags{HideEqual: g.r.Bool()}
			show := g.r.Pick([]string{ghtml.DiffPageShowAll, ghtml.DiffPageShowSubset, ghtml.DiffPageShowOnlyMatches})
			sortBy := g.r.Pick([]string{ghtml.DiffPageSortWrittenName, ghtml.DiffPageSortHighestSimilarity})
			vis := g.vis()
			ga := g.ga()
			ws := func(c *gedcom.IndividualComparison) float64 {
				if c.Similarity != nil {
					return c.Similarity.WeightedSimilarity()
				}
				return 0
			}
			type ent struct {
				c    *gedcom.IndividualComparison
				html string
			}
			var ents []ent
			for _, c := range cmp {
				switch show {
				case ghtml.DiffPageShowSubset:
					if gedcom.IsNil(c.Right) {
						continue
					}
				case ghtml.DiffPageShowOnlyMatches:
					if gedcom.IsNil(c.Left) || gedcom.IsNil(c.Right) {
						continue
					}
				}
				out := c18Render(ghtml.NewIndividualCompare(c, ff, nil, co, vis))
				if out == "" {
					continue
				}
				ents = append(ents, ent{c, out})
			}
			name := func(c *gedcom.IndividualComparison) string {
				a := c.Left
				if a == nil {
					a = c.Right
				}
				return a.Name().String()
			}
			sort.SliceStable(ents, func(i, j int) bool {
				if sortBy == ghtml.DiffPageSortHighestSimilarity {
					if a, b := ws(ents[i].c), ws(ents[j].c); a != b {
						return a > b
					}
				}
				return name(ents[i].c) < name(ents[j].c)
			})
			e := c18NewEnv()
			e.GA = ga
			rows, pages := []string{}, []string{}
			for _, en := range ents {
				c := en.c
				w := ws(c)
				ie := c18NewEnv()
				ie.B["comparison.comparison.Left != nil && comparison.comparison.Right == nil"] = c.Left != nil && c.Right == nil
				ie.B["comparison.comparison.Left == nil && comparison.comparison.Right != nil"] = c.Left == nil && c.Right != nil
				ie.B["weightedSimilarity < 1"] = w < 1
				ie.B["weightedSimilarity != 0"] = w != 0
				ie.B["c.filterFlags.HideEqual"] = ff.HideEqual
				ie.S[`similarityString := fmt.Sprintf("%.2f%%", weightedSimilarity*100)`] = ""
				if w != 0 {
					ie.S[`similarityString := fmt.Sprintf("%.2f%%", weightedSimilarity*100)`] = fmt.Sprintf("%.2f%%", w*100)
				}
				ie.K[`leftNameAndDates := NewIndividualNameAndDatesLink(comparison.comparison.Left, c.visibility, "")`] =
					g.nest("IndividualNameAndDatesLink", g.envNameAndDatesLink(c.Left, vis, ""))
				ie.K[`rightNameAndDates := NewIndividualNameAndDatesLink(comparison.comparison.Right, c.visibility, "")`] =
					g.nest("IndividualNameAndDatesLink", g.envNameAndDatesLink(c.Right, vis, ""))
				rows = append(rows, g.nest("DiffPage_item0", ie))
				pe := c18NewEnv()
				pe.K["comparison := element of precalculatedComparisons"] = "html " + hexs(en.html)
				pages = append(pages, g.nest("DiffPage_item1", pe))
			}
			e.L["range precalculatedComparisons: every iteration is the program DiffPage_item0"] = rows
			e.L["range precalculatedComparisons: every element is the program DiffPage_item1"] = pages
			return ghtml.NewDiffPage(cmp, ff, ga, show, sortBy, nil, co, vis), e, fmt.Sprint(c18Bucket(len(ents)), show, sortBy, ff.HideEqual)
		}},
	}
}
