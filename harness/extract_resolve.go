package main

import (
	"bytes"
	"fmt"
	"runtime/debug"
	"strings"

	"github.com/elliotchance/gedcom/v39"
	"github.com/elliotchance/gedcom/v39/html"
)

// C14: guard facts of the reference-resolution / page-assembly layer, by behavioural probes of the
// public API (robust against refactoring): each probe feeds the smallest decodable file that
// reaches one partial operation and records whether the call returns.

// c14probe runs f and reports whether it returned without a panic.
func c14probe(f func()) (ok bool) {
	defer func() {
		if r := recover(); r != nil {
			ok = false
		}
	}()
	f()
	return true
}

// c14indexPanic reports whether f panics with an index / slice bounds runtime error.
func c14indexPanic(f func()) (yes bool) {
	defer func() {
		if r := recover(); r != nil {
			msg := fmt.Sprint(r)
			yes = strings.Contains(msg, "index out of range") || strings.Contains(msg, "slice bounds out of range")
		}
	}()
	f()
	return false
}

func c14doc(src string) *gedcom.Document {
	doc, err := gedcom.NewDocumentFromString(src)
	if err != nil {
		panic(err)
	}
	return doc
}

func c14firstFamily(src string) *gedcom.FamilyNode { return c14doc(src).Families()[0] }

// c14flags returns the flag names in a fixed order with their probed values.
func c14flags() (names []string, vals map[string]bool) {
	vals = map[string]bool{}
	add := func(name string, f func()) {
		names = append(names, name)
		vals[name] = c14probe(f)
	}
	const wrongKind = "0 @S1@ SOUR\n0 @F1@ FAM\n"
	// valueToPointer is not exported: reach it through the three role accessors with an empty value
	// and look at *what* panicked — an index error is valueToPointer's, an interface conversion is the
	// accessor's own assertion (probed separately below).
	names = append(names, "vtpEmptyGuard")
	vals["vtpEmptyGuard"] = !c14indexPanic(func() { c14firstFamily("0 @F1@ FAM\n1 HUSB\n").Husband().Individual() }) &&
		!c14indexPanic(func() { c14firstFamily("0 @F1@ FAM\n1 WIFE\n").Wife().Individual() }) &&
		!c14indexPanic(func() { c14firstFamily("0 @F1@ FAM\n1 CHIL\n").Children()[0].Individual() })
	add("husbandNilSafe", func() { c14firstFamily("0 @F1@ FAM\n1 HUSB @I9@\n").Husband().Individual() })
	add("husbandKindSafe", func() { c14firstFamily(wrongKind + "1 HUSB @S1@\n").Husband().Individual() })
	add("wifeNilSafe", func() { c14firstFamily("0 @F1@ FAM\n1 WIFE @I9@\n").Wife().Individual() })
	add("wifeKindSafe", func() { c14firstFamily(wrongKind + "1 WIFE @S1@\n").Wife().Individual() })
	add("childNilSafe", func() { c14firstFamily("0 @F1@ FAM\n1 CHIL @I9@\n").Children()[0].Individual() })
	add("childKindSafe", func() { c14firstFamily(wrongKind + "1 CHIL @S1@\n").Children()[0].Individual() })
	add("childNodesNilSafe", func() { c14firstFamily("0 @F1@ FAM\n1 CHIL @I9@\n").Children().Individuals() })
	add("childNodesKindSafe", func() { c14firstFamily(wrongKind + "1 CHIL @S1@\n").Children().Individuals() })
	opts := &html.PublishShowOptions{ShowIndividuals: true, LivingVisibility: html.LivingVisibilityShow}
	add("headerGuard", func() {
		doc := c14doc("0 HEAD\n")
		html.NewPublishHeader(doc, "", "individuals", opts, nil, nil).WriteHTMLTo(&bytes.Buffer{})
	})
	noName := "0 @I1@ INDI\n1 SEX M\n"
	add("nameAndSexGuard", func() {
		html.NewIndividualNameAndSex(c14doc(noName).Individuals()[0]).WriteHTMLTo(&bytes.Buffer{})
	})
	add("additionalNamesGuard", func() {
		html.NewIndividualAdditionalNames(c14doc(noName).Individuals()[0]).WriteHTMLTo(&bytes.Buffer{})
	})
	// the page itself: probed with a person whose sub-components cannot fail for lack of a NAME only
	// when they are guarded, so attribute a failure to the page only if both components are fine.
	pageOK := c14probe(func() {
		doc := c14doc(noName)
		html.NewIndividualPage(doc, doc.Individuals()[0], "", opts, []rune{'#'}, nil).WriteHTMLTo(&bytes.Buffer{})
	})
	names = append(names, "pageGuard")
	vals["pageGuard"] = pageOK || !(vals["nameAndSexGuard"] && vals["additionalNamesGuard"]) && c14pageTopFrameOK(noName, opts)
	return
}

// c14pageTopFrameOK: when a component below the page panics as well, decide from the panic's stack
// whether IndividualPage.WriteHTMLTo itself indexed the empty name list.
func c14pageTopFrameOK(src string, opts *html.PublishShowOptions) (ok bool) {
	ok = true
	defer func() {
		if r := recover(); r != nil {
			st := c14stack()
			// the innermost gedcom frame of the panic
			for _, line := range strings.Split(st, "\n") {
				if strings.Contains(line, "elliotchance/gedcom") && strings.Contains(line, "html.(*") {
					ok = !strings.Contains(line, "html.(*IndividualPage).WriteHTMLTo")
					return
				}
			}
		}
	}()
	doc := c14doc(src)
	html.NewIndividualPage(doc, doc.Individuals()[0], "", opts, []rune{'#'}, nil).WriteHTMLTo(&bytes.Buffer{})
	return
}

func c14stack() string { return string(debug.Stack()) }

func init() {
	extractors["Resolve"] = func() string {
		var b strings.Builder
		b.WriteString("-- Source: behavioural probes of the public API on the smallest decodable files that reach each\n")
		b.WriteString("-- partial operation (harness/extract_resolve.go): `true` = the call returns, `false` = it panics.\n")
		b.WriteString("namespace Gedcom.Generated.Resolve\n")
		names, vals := c14flags()
		for _, n := range names {
			fmt.Fprintf(&b, "def %s : Bool := %v\n", n, vals[n])
		}
		b.WriteString("end Gedcom.Generated.Resolve\n")
		return b.String()
	}
}
