package main

import (
	"fmt"
	"go/ast"
	"go/parser"
	"go/token"
	"path/filepath"
	"strconv"
	"strings"
)

// Source shape of the date arithmetic (date.go): statements of Date.IsBefore / IsAfter and the
// control skeletons of Date.Years and Date.Time.  Pinned by the obligation C05.date_source_shape.

func recvName(fn *ast.FuncDecl) string {
	if fn.Recv == nil || len(fn.Recv.List) == 0 {
		return ""
	}
	t := fn.Recv.List[0].Type
	if st, ok := t.(*ast.StarExpr); ok {
		t = st.X
	}
	if id, ok := t.(*ast.Ident); ok {
		return id.Name
	}
	return ""
}

func leanStringList(xs []string) string {
	q := []string{}
	for _, s := range xs {
		q = append(q, strconv.Quote(s))
	}
	return "[\n  " + strings.Join(q, ",\n  ") + "]"
}

func init() {
	extractors["DateSrc"] = func() string {
		var b strings.Builder
		b.WriteString("-- Source: date.go — statements of Date.IsBefore / IsAfter, control skeletons of Date.Years and\n")
		b.WriteString("-- Date.Time (go/ast, go/printer, white space normalised).\n")
		b.WriteString("namespace Gedcom.Generated\n\n")
		fset := token.NewFileSet()
		file, err := parser.ParseFile(fset, filepath.Join(repoRoot(), "date.go"), nil, 0)
		stm := map[string][]string{}
		cond := map[string][]string{}
		if err == nil {
			for _, d := range file.Decls {
				fn, ok := d.(*ast.FuncDecl)
				if !ok || fn.Body == nil || recvName(fn) != "Date" {
					continue
				}
				switch fn.Name.Name {
				case "IsBefore", "IsAfter":
					for _, st := range fn.Body.List {
						stm[fn.Name.Name] = append(stm[fn.Name.Name], printNode(fset, st))
					}
				case "Years", "Time":
					cond[fn.Name.Name] = decodeConditions(fset, fn)
				}
			}
		}
		fmt.Fprintf(&b, "def statementsOfIsBefore : List String := %s\n\n", leanStringList(stm["IsBefore"]))
		fmt.Fprintf(&b, "def statementsOfIsAfter : List String := %s\n\n", leanStringList(stm["IsAfter"]))
		fmt.Fprintf(&b, "def conditionsOfYears : List String := %s\n\n", leanStringList(cond["Years"]))
		fmt.Fprintf(&b, "def conditionsOfTime : List String := %s\n\n", leanStringList(cond["Time"]))
		b.WriteString("end Gedcom.Generated\n")
		return b.String()
	}
}
