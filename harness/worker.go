package main

// workerMain runs operations that can kill the process (goroutine panics, stack overflow, hangs)
// in a child process. Filled in by the properties that need it.
var workers = map[string]func(args []string) int{}

func workerMain(args []string) int {
	if len(args) == 0 {
		return 2
	}
	if w, ok := workers[args[0]]; ok {
		return w(args[1:])
	}
	return 2
}
