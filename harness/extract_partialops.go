package main

import (
	"fmt"
	"os"
	"sort"
	"strings"
)

// C14: Generated/PartialOps.lean — the table of partial operations reachable from cmd/gedcom
// (harness/c14ops.go), with the class and the evidence of every site.

func c14leanStr(s string) string {
	return `"` + strings.NewReplacer(`\`, `\\`, `"`, `\"`, "\n", `\n`, "\t", `\t`).Replace(s) + `"`
}

var c14ClsLean = map[string]string{"local": ".localGuard", "invariant": ".invariant", "exec": ".execOnly", "unclassified": ".unclassified"}

func init() {
	extractors["PartialOps"] = func() string {
		s, err := c14SweepOps(c14OpsRepo())
		if err != nil {
			panic(err)
		}
		if p := os.Getenv("C14_OPS_DUMP"); p != "" {
			var d strings.Builder
			for _, o := range s.Ops {
				fmt.Fprintf(&d, "%s\t%d\t%s\t%s\n", o.Key(), o.Line, o.Class, o.Evidence)
			}
			fmt.Fprintf(&d, "# funcs=%d reached=%d tolerant=%d errors=%v\n", s.Funcs, s.Reached, s.Tolerant, s.Errors)
			os.WriteFile(p, []byte(d.String()), 0o644)
		}
		var b strings.Builder
		b.WriteString("-- Source: go/parser + go/types sweep of the non-test code reachable from cmd/gedcom\n")
		b.WriteString("-- (harness/c14ops.go): every partial operation with its class and evidence. Line numbers are\n")
		b.WriteString("-- left out on purpose (the evidence JSON has them) so that unrelated edits do not change this file.\n")
		b.WriteString("namespace Gedcom.Generated.PartialOps\n")
		b.WriteString("inductive Cls | localGuard | invariant | execOnly | unclassified\n  deriving DecidableEq, Repr\n")
		b.WriteString("structure Site where\n  file : String\n  func : String\n  kind : String\n  expr : String\n  cls : Cls\n  evidence : String\n\n")
		// chunks per package/file keep the list literals small
		byFile := map[string][]*c14Op{}
		var files []string
		for _, o := range s.Ops {
			k := o.Pkg + "/" + o.File
			if _, ok := byFile[k]; !ok {
				files = append(files, k)
			}
			byFile[k] = append(byFile[k], o)
		}
		sort.Strings(files)
		var chunkNames []string
		for i, f := range files {
			name := fmt.Sprintf("chunk%d", i)
			chunkNames = append(chunkNames, name)
			fmt.Fprintf(&b, "/-- %s -/\ndef %s : List Site := [\n", f, name)
			for j, o := range byFile[f] {
				sep := ","
				if j == len(byFile[f])-1 {
					sep = ""
				}
				expr := o.Expr
				if o.Ord > 0 {
					expr += fmt.Sprintf("#%d", o.Ord)
				}
				fmt.Fprintf(&b, "  ⟨%s, %s, %s, %s, %s, %s⟩%s\n", c14leanStr(f), c14leanStr(o.Func), c14leanStr(o.Kind), c14leanStr(expr),
					c14ClsLean[o.Class], c14leanStr(o.Evidence), sep)
			}
			b.WriteString("]\n")
		}
		fmt.Fprintf(&b, "\ndef chunks : List (List Site) := [%s]\n", strings.Join(chunkNames, ", "))
		var tas []string
		for k := range s.TagAsserts {
			tas = append(tas, k)
		}
		sort.Strings(tas)
		b.WriteString("/-- (tag, Go type): type assertions on nodes that were found by their tag -/\ndef tagAsserts : List (String × String) := [")
		for i, k := range tas {
			parts := strings.SplitN(k, "|", 2)
			if i > 0 {
				b.WriteString(", ")
			}
			fmt.Fprintf(&b, "(%s, %s)", c14leanStr(parts[0]), c14leanStr(parts[1]))
		}
		b.WriteString("]\n")
		fmt.Fprintf(&b, "def moduleFuncs : Nat := %d\ndef reachedFuncs : Nat := %d\ndef nilTolerantChains : Nat := %d\n", s.Funcs, s.Reached, s.Tolerant)
		b.WriteString("end Gedcom.Generated.PartialOps\n")
		return b.String()
	}
}
