package main

import (
	"bufio"
	"bytes"
	"encoding/json"
	"fmt"
	"os"
	"os/exec"
	"runtime"
	"sort"
	"strings"
	"sync"
	"sync/atomic"
)

// Case is one request of the correspondence check: the line sent to the Lean driver and the
// canonical observation of the real implementation on the same input.
type Case struct {
	Req  string
	Impl string
}

// Failure is a case on which the property itself fails on the implementation (oracle S), with the
// key of the known-finding matcher it satisfies ("" = none).
type Failure struct {
	Kind     string      `json:"kind"` // "oracle" | "correspondence"
	Key      string      `json:"key"`  // matcher name from known_findings.json or ""
	What     string      `json:"what"`
	Input    interface{} `json:"input"`
	Observed string      `json:"observed"`
	Expected string      `json:"expected,omitempty"`
}

type Ctx struct {
	Prop   string
	Tier   string
	Seed   int64
	R      *Rand
	Driver string

	mu       sync.Mutex
	cases    []Case
	Compare  func(req, impl, model string) bool // nil = string equality
	Failures []Failure
	nFail    map[string]int
	Evals    int
	distinct map[string]struct{}
	Samples  []interface{}
	Dist     map[string]int
	Rule     string
	Untied   []string
	Notes    []string
	Exhaustive bool

	activity int64 // bumped by every Tie / Eval / Count / Nontrivial / Fail: the stall watchdog reads it
}

// Activity is a counter that moves whenever the runner registers anything.
func (c *Ctx) Activity() int64 { return atomic.LoadInt64(&c.activity) }

func NewCtx(prop, tier string, seed int64, driver string) *Ctx {
	h := uint64(seed)
	for _, c := range []byte(prop) {
		h = h*1315423911 + uint64(c)
	}
	return &Ctx{Prop: prop, Tier: tier, Seed: seed, R: NewRand(h), Driver: driver,
		distinct: map[string]struct{}{}, Dist: map[string]int{}, nFail: map[string]int{}}
}

func (c *Ctx) Quick() bool { return c.Tier != "thorough" }

// N picks the case count for the tier.
func (c *Ctx) N(quick, thorough int) int {
	if c.Quick() {
		return quick
	}
	return thorough
}

// Tie registers one correspondence case.
func (c *Ctx) Tie(req, impl string) {
	atomic.AddInt64(&c.activity, 1)
	c.mu.Lock()
	c.cases = append(c.cases, Case{req, impl})
	c.mu.Unlock()
}

func (c *Ctx) Eval() { atomic.AddInt64(&c.activity, 1); c.mu.Lock(); c.Evals++; c.mu.Unlock() }

// Nontrivial counts a distinct non-trivial case by its signature.
func (c *Ctx) Nontrivial(sig string) {
	atomic.AddInt64(&c.activity, 1)
	c.mu.Lock()
	c.distinct[sig] = struct{}{}
	c.mu.Unlock()
}

func (c *Ctx) Count(bucket string) {
	atomic.AddInt64(&c.activity, 1)
	c.mu.Lock()
	c.Dist[bucket]++
	c.mu.Unlock()
}

func (c *Ctx) Sample(s interface{}) {
	c.mu.Lock()
	if len(c.Samples) < 6 {
		c.Samples = append(c.Samples, s)
	}
	c.mu.Unlock()
}

// Fail records a property failure on the implementation. At most 5 are kept per (kind,key,what)
// class; all are counted.
func (c *Ctx) Fail(kind, key, what string, input interface{}, observed, expected string) {
	atomic.AddInt64(&c.activity, 1)
	c.mu.Lock()
	defer c.mu.Unlock()
	cls := kind + "|" + key + "|" + what
	c.nFail[cls]++
	if c.nFail[cls] <= 3 {
		c.Failures = append(c.Failures, Failure{kind, key, what, input, observed, expected})
	}
}

func (c *Ctx) Oracle(key, what string, input interface{}, observed, expected string) {
	c.Fail("oracle", key, what, input, observed, expected)
}

// runDriver pipes the requests through the Lean driver, in parallel chunks.
func runDriver(driver string, reqs []string) ([]string, error) {
	if len(reqs) == 0 {
		return nil, nil
	}
	nw := runtime.NumCPU()
	if nw > 16 {
		nw = 16
	}
	chunk := (len(reqs) + nw - 1) / nw
	if chunk < 2000 {
		chunk = 2000
	}
	type part struct {
		lo, hi int
		out    []string
		err    error
	}
	var parts []*part
	for lo := 0; lo < len(reqs); lo += chunk {
		hi := lo + chunk
		if hi > len(reqs) {
			hi = len(reqs)
		}
		parts = append(parts, &part{lo: lo, hi: hi})
	}
	var wg sync.WaitGroup
	sem := make(chan struct{}, nw)
	for _, p := range parts {
		wg.Add(1)
		go func(p *part) {
			defer wg.Done()
			sem <- struct{}{}
			defer func() { <-sem }()
			var in bytes.Buffer
			for _, r := range reqs[p.lo:p.hi] {
				in.WriteString(r)
				in.WriteByte('\n')
			}
			cmd := exec.Command(driver)
			cmd.Stdin = &in
			var out, errb bytes.Buffer
			cmd.Stdout = &out
			cmd.Stderr = &errb
			if err := cmd.Run(); err != nil {
				p.err = fmt.Errorf("driver: %v: %s", err, errb.String())
				return
			}
			sc := bufio.NewScanner(&out)
			sc.Buffer(make([]byte, 1<<20), 1<<28)
			for sc.Scan() {
				p.out = append(p.out, sc.Text())
			}
			if len(p.out) != p.hi-p.lo {
				p.err = fmt.Errorf("driver returned %d lines for %d requests (stderr: %s)", len(p.out), p.hi-p.lo, errb.String())
			}
		}(p)
	}
	wg.Wait()
	res := make([]string, 0, len(reqs))
	for _, p := range parts {
		if p.err != nil {
			return nil, p.err
		}
		res = append(res, p.out...)
	}
	return res, nil
}

// Result is what the harness hands to ./check.
type Result struct {
	Property          string         `json:"property"`
	Tier              string         `json:"tier"`
	Seed              int64          `json:"seed"`
	Evaluations       int            `json:"evaluations"`
	DistinctNontriv   int            `json:"distinct_nontrivial"`
	Rule              string         `json:"rule"`
	Samples           []interface{}  `json:"samples"`
	Distribution      map[string]int `json:"distribution"`
	ModelRequests     int            `json:"model_requests"`
	NDisagreements    int            `json:"n_disagreements"`
	NOracleFailures   int            `json:"n_oracle_failures"`
	Failures          []Failure      `json:"failures"`
	FailureClasses    map[string]int `json:"failure_classes"`
	Untied            []string       `json:"untied,omitempty"`
	Notes             []string       `json:"notes,omitempty"`
	Exhaustive        bool           `json:"exhaustive"`
	DriverError       string         `json:"driver_error,omitempty"`
}

// Finish runs the correspondence and assembles the result.
func (c *Ctx) Finish() *Result {
	res := &Result{Property: c.Prop, Tier: c.Tier, Seed: c.Seed, Rule: c.Rule,
		Distribution: c.Dist, Untied: c.Untied, Notes: c.Notes, Exhaustive: c.Exhaustive}
	reqs := make([]string, len(c.cases))
	for i, cs := range c.cases {
		reqs[i] = cs.Req
	}
	outs, err := runDriver(c.Driver, reqs)
	if err != nil {
		res.DriverError = err.Error()
	} else {
		for i, cs := range c.cases {
			ok := false
			if c.Compare != nil {
				ok = c.Compare(cs.Req, cs.Impl, outs[i])
			} else {
				ok = cs.Impl == outs[i]
			}
			if !ok {
				res.NDisagreements++
				c.Fail("correspondence", classifyDisagreement(c.Prop, cs.Req, cs.Impl, outs[i]),
					"model and implementation differ", cs.Req, cs.Impl, outs[i])
			}
		}
	}
	res.ModelRequests = len(reqs)
	res.Evaluations = c.Evals
	res.DistinctNontriv = len(c.distinct)
	res.Samples = c.Samples
	res.Failures = c.Failures
	res.FailureClasses = c.nFail
	for k, n := range c.nFail {
		if strings.HasPrefix(k, "oracle|") {
			res.NOracleFailures += n
		}
	}
	sort.Slice(res.Failures, func(i, j int) bool { return res.Failures[i].Kind > res.Failures[j].Kind })
	return res
}

func writeJSON(path string, v interface{}) {
	b, err := json.MarshalIndent(v, "", " ")
	if err != nil {
		panic(err)
	}
	if path == "" || path == "-" {
		os.Stdout.Write(b)
		os.Stdout.WriteString("\n")
		return
	}
	if err := os.WriteFile(path, b, 0o644); err != nil {
		panic(err)
	}
}
