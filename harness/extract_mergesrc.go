package main

import (
	"fmt"
	"go/ast"
	"go/parser"
	"go/token"
	"path/filepath"
	"strings"
)

// Translator for the decisions of the document merge (C10):
//   individual_nodes.go  IndividualNodes.Merge           the ordered cases of its `switch`
//   merge.go             MergeDocumentsAndIndividuals    which part of which document feeds which
//                                                        call, and the order of the output
// printed as terms of Gedcom.MergeSrc (lean/Gedcom/Model/MergeSrc.lean).  Nothing is guessed: a
// shape outside the fragment becomes `.bad` / `false`, which Props/C10Src.lean rejects.

func msrcIdent(e ast.Expr, name string) bool {
	id, ok := e.(*ast.Ident)
	return ok && id.Name == name
}

func msrcBExp(e ast.Expr) string {
	switch e := e.(type) {
	case *ast.ParenExpr:
		return msrcBExp(e.X)
	case *ast.UnaryExpr:
		if e.Op == token.NOT {
			return "(.not " + msrcBExp(e.X) + ")"
		}
	case *ast.BinaryExpr:
		switch e.Op {
		case token.LAND:
			return "(.and " + msrcBExp(e.X) + " " + msrcBExp(e.Y) + ")"
		case token.LOR:
			return "(.or " + msrcBExp(e.X) + " " + msrcBExp(e.Y) + ")"
		case token.NEQ:
			if msrcIdent(e.Y, "nil") {
				if msrcIdent(e.X, "left") {
					return ".leftPresent"
				}
				if msrcIdent(e.X, "right") {
					return ".rightPresent"
				}
			}
		case token.EQL:
			if msrcIdent(e.Y, "nil") {
				if msrcIdent(e.X, "left") {
					return "(.not .leftPresent)"
				}
				if msrcIdent(e.X, "right") {
					return "(.not .rightPresent)"
				}
			}
		}
	}
	return ".bad"
}

// `merged = append(merged, <x>)`
func msrcAppendsMerged(st ast.Stmt) (ast.Expr, bool) {
	as, ok := st.(*ast.AssignStmt)
	if !ok || as.Tok != token.ASSIGN || len(as.Lhs) != 1 || len(as.Rhs) != 1 || !msrcIdent(as.Lhs[0], "merged") {
		return nil, false
	}
	call, ok := as.Rhs[0].(*ast.CallExpr)
	if !ok || !msrcIdent(call.Fun, "append") || len(call.Args) != 2 || !msrcIdent(call.Args[0], "merged") || call.Ellipsis != token.NoPos {
		return nil, false
	}
	return call.Args[1], true
}

// `if err != nil { return nil, err }`
func msrcErrReturn(st ast.Stmt) bool {
	s, ok := st.(*ast.IfStmt)
	if !ok || s.Init != nil || s.Else != nil || len(s.Body.List) != 1 {
		return false
	}
	c, ok := s.Cond.(*ast.BinaryExpr)
	if !ok || c.Op != token.NEQ || !msrcIdent(c.X, "err") || !msrcIdent(c.Y, "nil") {
		return false
	}
	ret, ok := s.Body.List[0].(*ast.ReturnStmt)
	return ok && len(ret.Results) == 2 && msrcIdent(ret.Results[0], "nil") && msrcIdent(ret.Results[1], "err")
}

func msrcAction(body []ast.Stmt) string {
	switch len(body) {
	case 1:
		if x, ok := msrcAppendsMerged(body[0]); ok {
			if msrcIdent(x, "left") {
				return ".keepLeft"
			}
			if msrcIdent(x, "right") {
				return ".keepRight"
			}
		}
	case 3:
		// node, err := MergeNodes(left, right, document)
		as, ok := body[0].(*ast.AssignStmt)
		if !ok || as.Tok != token.DEFINE || len(as.Lhs) != 2 || len(as.Rhs) != 1 || !msrcIdent(as.Lhs[0], "node") || !msrcIdent(as.Lhs[1], "err") {
			return ".bad"
		}
		call, ok := as.Rhs[0].(*ast.CallExpr)
		if !ok || !msrcIdent(call.Fun, "MergeNodes") || len(call.Args) != 3 || !msrcIdent(call.Args[0], "left") ||
			!msrcIdent(call.Args[1], "right") || !msrcIdent(call.Args[2], "document") {
			return ".bad"
		}
		if !msrcErrReturn(body[1]) {
			return ".bad"
		}
		// merged = append(merged, node.(*IndividualNode))
		if x, ok := msrcAppendsMerged(body[2]); ok {
			if ta, ok := x.(*ast.TypeAssertExpr); ok && msrcIdent(ta.X, "node") {
				if st, ok := ta.Type.(*ast.StarExpr); ok && msrcIdent(st.X, "IndividualNode") {
					return ".mergeNodes"
				}
			}
		}
	}
	return ".bad"
}

func msrcFunc(file *ast.File, recv, name string) *ast.FuncDecl {
	if file == nil {
		return nil
	}
	for _, d := range file.Decls {
		fn, ok := d.(*ast.FuncDecl)
		if !ok || fn.Name.Name != name || fn.Body == nil {
			continue
		}
		if recv == "" && fn.Recv == nil {
			return fn
		}
		if recv != "" && fn.Recv != nil && len(fn.Recv.List) == 1 && msrcIdent(fn.Recv.List[0].Type, recv) {
			return fn
		}
	}
	return nil
}

func init() {
	extractors["MergeSrc"] = func() string {
		fset := token.NewFileSet()
		inodes, _ := parser.ParseFile(fset, filepath.Join(repoRoot(), "individual_nodes.go"), nil, 0)
		merge, _ := parser.ParseFile(fset, filepath.Join(repoRoot(), "merge.go"), nil, 0)

		// ---- IndividualNodes.Merge: comparisons := nodes.Compare(other, options); merged := IndividualNodes{};
		//      for _, comparison := range comparisons { left := comparison.Left; right := comparison.Right; switch {…} }; return merged, nil
		cases := []string{}
		mergeShape := false
		if fn := msrcFunc(inodes, "IndividualNodes", "Merge"); fn != nil && len(fn.Body.List) == 4 {
			ok := true
			as0, isAs := fn.Body.List[0].(*ast.AssignStmt)
			if !isAs || as0.Tok != token.DEFINE || len(as0.Lhs) != 1 || !msrcIdent(as0.Lhs[0], "comparisons") {
				ok = false
			} else if call, isCall := as0.Rhs[0].(*ast.CallExpr); !isCall {
				ok = false
			} else if sel, isSel := call.Fun.(*ast.SelectorExpr); !isSel || !msrcIdent(sel.X, "nodes") || sel.Sel.Name != "Compare" ||
				len(call.Args) != 2 || !msrcIdent(call.Args[0], "other") {
				ok = false
			}
			loop, isLoop := fn.Body.List[2].(*ast.RangeStmt)
			if !isLoop || !msrcIdent(loop.X, "comparisons") || !msrcIdent(loop.Value, "comparison") || len(loop.Body.List) != 3 {
				ok = false
			} else {
				field := func(st ast.Stmt, v, f string) bool {
					as, isAs := st.(*ast.AssignStmt)
					if !isAs || as.Tok != token.DEFINE || len(as.Lhs) != 1 || len(as.Rhs) != 1 || !msrcIdent(as.Lhs[0], v) {
						return false
					}
					sel, isSel := as.Rhs[0].(*ast.SelectorExpr)
					return isSel && msrcIdent(sel.X, "comparison") && sel.Sel.Name == f
				}
				if !field(loop.Body.List[0], "left", "Left") || !field(loop.Body.List[1], "right", "Right") {
					ok = false
				}
				sw, isSw := loop.Body.List[2].(*ast.SwitchStmt)
				if !isSw || sw.Init != nil || sw.Tag != nil {
					ok = false
				} else {
					for _, c := range sw.Body.List {
						cc, isCC := c.(*ast.CaseClause)
						if !isCC || len(cc.List) != 1 { // a default clause or a case with several expressions
							cases = append(cases, "⟨.bad, .bad⟩")
							continue
						}
						cases = append(cases, "⟨"+msrcBExp(cc.List[0])+", "+msrcAction(cc.Body)+"⟩")
					}
				}
			}
			ret, isRet := fn.Body.List[3].(*ast.ReturnStmt)
			if !isRet || len(ret.Results) != 2 || !msrcIdent(ret.Results[0], "merged") || !msrcIdent(ret.Results[1], "nil") {
				ok = false
			}
			mergeShape = ok
		}

		// ---- MergeDocumentsAndIndividuals
		parts := map[string]string{} // variable -> Part
		part := func(name string) string {
			if p, ok := parts[name]; ok {
				return p
			}
			return "⟨.bad, .bad⟩"
		}
		recv, arg, sl, sr := "⟨.bad, .bad⟩", "⟨.bad, .bad⟩", "⟨.bad, .bad⟩", "⟨.bad, .bad⟩"
		output := []string{}
		progShape := false
		if fn := msrcFunc(merge, "", "MergeDocumentsAndIndividuals"); fn != nil {
			ok := true
			sawDoc, sawMerge, sawErr, sawSlices, sawAll, sawRet := false, false, false, false, false, false
			for i, st := range fn.Body.List {
				switch s := st.(type) {
				case *ast.AssignStmt:
					if s.Tok != token.DEFINE || len(s.Rhs) != 1 {
						ok = false
						continue
					}
					call, isCall := s.Rhs[0].(*ast.CallExpr)
					if !isCall {
						ok = false
						continue
					}
					switch {
					// X := individuals(left) / nonIndividuals(right)
					case len(s.Lhs) == 1 && len(call.Args) == 1 && (msrcIdent(call.Fun, "individuals") || msrcIdent(call.Fun, "nonIndividuals")) &&
						(msrcIdent(call.Args[0], "left") || msrcIdent(call.Args[0], "right")):
						v, isID := s.Lhs[0].(*ast.Ident)
						if !isID {
							ok = false
							continue
						}
						parts[v.Name] = fmt.Sprintf("⟨.%s, .%s⟩", call.Fun.(*ast.Ident).Name, call.Args[0].(*ast.Ident).Name)
					case len(s.Lhs) == 1 && msrcIdent(s.Lhs[0], "document") && msrcIdent(call.Fun, "NewDocument") && len(call.Args) == 0:
						sawDoc = true
					// mergedIndividuals, err := A.Merge(B, document, options)
					case len(s.Lhs) == 2 && msrcIdent(s.Lhs[0], "mergedIndividuals") && msrcIdent(s.Lhs[1], "err"):
						sel, isSel := call.Fun.(*ast.SelectorExpr)
						if !isSel || sel.Sel.Name != "Merge" || len(call.Args) != 3 || !msrcIdent(call.Args[1], "document") || !msrcIdent(call.Args[2], "options") {
							ok = false
							continue
						}
						a, isA := sel.X.(*ast.Ident)
						b, isB := call.Args[0].(*ast.Ident)
						if !isA || !isB {
							ok = false
							continue
						}
						recv, arg = part(a.Name), part(b.Name)
						sawMerge = true
						if i+1 < len(fn.Body.List) && msrcErrReturn(fn.Body.List[i+1]) {
							sawErr = true
						}
					// mergedOther := MergeNodeSlices(C, D, document, mergeFn)
					case len(s.Lhs) == 1 && msrcIdent(s.Lhs[0], "mergedOther") && msrcIdent(call.Fun, "MergeNodeSlices") && len(call.Args) == 4 &&
						msrcIdent(call.Args[2], "document") && msrcIdent(call.Args[3], "mergeFn"):
						a, isA := call.Args[0].(*ast.Ident)
						b, isB := call.Args[1].(*ast.Ident)
						if !isA || !isB {
							ok = false
							continue
						}
						sl, sr = part(a.Name), part(b.Name)
						sawSlices = true
					// allNodes := append(mergedIndividuals.Nodes(), mergedOther...)
					case len(s.Lhs) == 1 && msrcIdent(s.Lhs[0], "allNodes") && msrcIdent(call.Fun, "append") && len(call.Args) == 2 && call.Ellipsis != token.NoPos:
						out := func(e ast.Expr) string {
							if msrcIdent(e, "mergedOther") {
								return ".mergedOther"
							}
							if c, isC := e.(*ast.CallExpr); isC && len(c.Args) == 0 {
								if sel, isSel := c.Fun.(*ast.SelectorExpr); isSel && sel.Sel.Name == "Nodes" && msrcIdent(sel.X, "mergedIndividuals") {
									return ".mergedIndividuals"
								}
							}
							return ".bad"
						}
						output = []string{out(call.Args[0]), out(call.Args[1])}
						sawAll = true
					default:
						ok = false
					}
				case *ast.IfStmt:
					if !(msrcErrReturn(s) && i > 0 && sawMerge) {
						ok = false
					}
				case *ast.ReturnStmt:
					// return NewDocumentWithNodes(allNodes), nil
					if i == len(fn.Body.List)-1 && len(s.Results) == 2 && msrcIdent(s.Results[1], "nil") {
						if c, isC := s.Results[0].(*ast.CallExpr); isC && msrcIdent(c.Fun, "NewDocumentWithNodes") && len(c.Args) == 1 && msrcIdent(c.Args[0], "allNodes") {
							sawRet = true
							continue
						}
					}
					ok = false
				default:
					ok = false
				}
			}
			progShape = ok && sawDoc && sawMerge && sawErr && sawSlices && sawAll && sawRet
		}

		var b strings.Builder
		b.WriteString("-- Source: individual_nodes.go (IndividualNodes.Merge: the cases of its switch) and merge.go\n")
		b.WriteString("-- (MergeDocumentsAndIndividuals: what feeds which call, order of the output), translated from go/ast\n")
		b.WriteString("-- (see harness/extract_mergesrc.go).\n")
		b.WriteString("import Gedcom.Model.MergeSrc\nnamespace Gedcom.Generated\nopen Gedcom.MergeSrc\n\n")
		fmt.Fprintf(&b, "/-- Merge is `comparisons := nodes.Compare(other, options)`, a loop over them that binds `left`, `right`\n    and switches, and `return merged, nil` -/\ndef srcMergeShape : Bool := %v\n", mergeShape)
		fmt.Fprintf(&b, "/-- the cases of the switch, in source order -/\ndef srcMergeCases : List Case := [%s]\n\n", strings.Join(cases, ", "))
		fmt.Fprintf(&b, "def srcMergeDocsProg : Prog :=\n  { mergeRecv := %s, mergeArg := %s, sliceLeft := %s, sliceRight := %s,\n    output := [%s], shape := %v }\n", recv, arg, sl, sr, strings.Join(output, ", "), progShape)
		b.WriteString("\nend Gedcom.Generated\n")
		return b.String()
	}
}
