package main

import (
	"fmt"
	"math/big"
	"runtime"
	"sort"
	"strings"
	"sync"
	"sync/atomic"
	"time"

	"github.com/elliotchance/gedcom/v39"
)

// ---------- generator: pairs of family-graph documents ------------------------------------------------

type c11side struct {
	doc   *gedcom.Document
	indis gedcom.IndividualNodes
	ids   map[*gedcom.IndividualNode]int
	text  string
}

var c11given = []string{"John", "Jon", "Jane", "Mary", "Marie", "Elliot", "Eliot", "Bob", "Robert", "Martha", "Anne", "Ann"}
var c11sur = []string{"Smith", "Smyth", "Chance", "Dixon", "Dickson", "Jones", "Taylor", "Berg"}

func c11uid(n int) string { return fmt.Sprintf("%032X", uint64(n)*0x9E3779B97F4A7C15+0x1234) }

type c11person struct {
	ptr, name, birth, death string
	uids                    []string
	fsid                    string
}

func (p c11person) text() string {
	var sb strings.Builder
	fmt.Fprintf(&sb, "0 @%s@ INDI\n", p.ptr)
	if p.name != "" {
		fmt.Fprintf(&sb, "1 NAME %s\n", p.name)
	}
	if p.birth != "" {
		fmt.Fprintf(&sb, "1 BIRT\n2 DATE %s\n", p.birth)
	}
	if p.death != "" {
		fmt.Fprintf(&sb, "1 DEAT\n2 DATE %s\n", p.death)
	}
	for _, u := range p.uids {
		fmt.Fprintf(&sb, "1 _UID %s\n", u)
	}
	if p.fsid != "" {
		fmt.Fprintf(&sb, "1 _FID %s\n", p.fsid)
	}
	return sb.String()
}

type c11case struct {
	left, right []c11person
	lfam, rfam  string
	kind        []string
	// subL, subR: when not nil, only these positions of the documents' individuals are handed to Compare
	// (the lists are proper sub-lists of their documents, as Spouses(), Children() or a slice of
	// Individuals() are); the documents still hold the others
	subL, subR []int
}

// c11gen: a base population and an independently edited copy (renumbered or shared pointers, dropped and
// added people, typos, shifted dates, shuffled records), identical twins, shared / duplicated unique
// ids, empty sides. Pointers are unique per side.
func c11gen(r *Rand) *c11case {
	cs := &c11case{}
	n := r.Intn(9)
	if r.Chance(1, 10) {
		n = 9 + r.Intn(8)
	}
	era := 1750 + r.Intn(200)
	var base []c11person
	for i := 0; i < n; i++ {
		p := c11person{ptr: fmt.Sprintf("I%d", i+1)}
		if !r.Chance(1, 12) {
			p.name = r.Pick(c11given) + " /" + r.Pick(c11sur) + "/"
		}
		if r.Chance(7, 10) {
			p.birth = fmt.Sprintf("%d %s %d", 1+r.Intn(28), c12months[1+r.Intn(12)], era+r.Intn(6))
		}
		if r.Chance(5, 10) {
			p.death = fmt.Sprintf("%d", era+50+r.Intn(6))
		}
		if r.Chance(1, 5) {
			p.uids = []string{c11uid(r.Intn(1 << 30))}
		}
		if r.Chance(1, 12) {
			p.fsid = fmt.Sprintf("FS%d", r.Intn(1000))
		}
		if i > 0 && r.Chance(1, 8) { // identical twin of an earlier person
			q := base[r.Intn(i)]
			p.name, p.birth, p.death = q.name, q.birth, q.death
			cs.kind = append(cs.kind, "twins")
		}
		base = append(base, p)
	}
	cs.left = append(cs.left, base...)
	sharePtr := r.Intn(3) // 0 = disjoint pointers, 1 = shared, 2 = shared but shifted (same pointer, other person)
	cs.kind = append(cs.kind, []string{"disjoint-pointers", "shared-pointers", "shifted-pointers"}[sharePtr])
	for i, p := range base {
		if r.Chance(1, 8) {
			continue // dropped on the right
		}
		q := p
		switch sharePtr {
		case 0:
			q.ptr = fmt.Sprintf("P%d", i+1)
		case 2:
			q.ptr = fmt.Sprintf("I%d", (i+1)%len(base)+1)
		}
		if r.Chance(1, 4) && q.name != "" {
			b := []byte(q.name)
			b[r.Intn(len(b))] = byte('a' + r.Intn(26))
			q.name = strings.TrimSpace(string(b))
		}
		if r.Chance(1, 5) {
			q.birth = fmt.Sprintf("%d", era+r.Intn(12))
		}
		if r.Chance(1, 6) {
			q.death = ""
		}
		if r.Chance(1, 3) {
			q.uids = nil // the id is not carried over
		}
		cs.right = append(cs.right, q)
	}
	extra := r.Intn(3)
	for i := 0; i < extra; i++ {
		cs.right = append(cs.right, c11person{ptr: fmt.Sprintf("X%d", i+1), name: r.Pick(c11given) + " /" + r.Pick(c11sur) + "/",
			birth: fmt.Sprintf("%d", era+r.Intn(6))})
	}
	// shuffle the right records
	perm := r.Perm(len(cs.right))
	sh := make([]c11person, len(cs.right))
	for i, j := range perm {
		sh[i] = cs.right[j]
	}
	cs.right = sh
	// renumbered copy: every person carries a _UID that survives the copy, the pointers of the copy are
	// a permutation of the original ones (so the pointer of a left individual names ANOTHER person on
	// the right, whom the unique-id pass has usually claimed already), and there are namesakes (equal
	// names and dates: score ties in the similarity pass)
	if r.Chance(1, 6) && len(base) >= 2 {
		cs.kind = append(cs.kind, "renumbered-copy:shared-uids,clashing-pointers,namesakes")
		for i := range cs.left {
			if len(cs.left[i].uids) == 0 {
				cs.left[i].uids = []string{c11uid(555000 + i + 1000*r.Intn(1000))}
			}
			if i > 0 && r.Chance(1, 3) {
				q := cs.left[r.Intn(i)]
				cs.left[i].name, cs.left[i].birth, cs.left[i].death = q.name, q.birth, q.death
			}
		}
		pp := r.Perm(len(cs.left))
		cs.right = nil
		for i, p := range cs.left {
			q := p
			q.ptr = cs.left[pp[i]].ptr
			if r.Chance(1, 5) {
				q.uids = nil
			}
			if r.Chance(1, 8) {
				q.death = ""
			}
			cs.right = append(cs.right, q)
		}
		for i := r.Intn(2); i > 0; i-- {
			q := cs.left[r.Intn(len(cs.left))]
			q.ptr, q.uids, q.fsid = fmt.Sprintf("N%d", i), nil, ""
			cs.right = append(cs.right, q) // a namesake without identifier
		}
		pm := r.Perm(len(cs.right))
		sh2 := make([]c11person, len(cs.right))
		for i, j := range pm {
			sh2[i] = cs.right[j]
		}
		cs.right = sh2
	}
	// fault layer
	switch {
	case r.Chance(1, 5) && len(cs.left) >= 2 && len(cs.right) >= 3:
		// one left individual with several unique ids that select DIFFERENT right individuals (which of
		// them is claimed depends on sync.Map order), a same-pointer decoy on the right that carries no
		// id, and a namesake: after the id pass the pointer pass and a tie-prone similarity pass follow
		i := r.Intn(len(cs.left))
		nu := 2 + r.Intn(2)
		if nu > len(cs.right)-1 {
			nu = len(cs.right) - 1
		}
		rp := r.Perm(len(cs.right))
		cs.left[i].uids = nil
		for q := 0; q < nu; q++ {
			u := c11uid(888000 + 10*r.Intn(1000) + q)
			cs.left[i].uids = append(cs.left[i].uids, u)
			cs.right[rp[q]].uids = []string{u}
		}
		// the decoy: some other right individual gets the left individual's pointer (swapping pointers
		// with whoever had it, so that pointers stay unique per side)
		d := rp[nu]
		for q := range cs.right {
			if cs.right[q].ptr == cs.left[i].ptr {
				cs.right[q].ptr = cs.right[d].ptr
			}
		}
		cs.right[d].ptr = cs.left[i].ptr
		cs.right[d].uids, cs.right[d].fsid = nil, ""
		if r.Chance(1, 2) { // and a namesake of the decoy on the left
			j := r.Intn(len(cs.left))
			if j != i {
				cs.left[j].name, cs.left[j].birth, cs.left[j].death = cs.right[d].name, cs.right[d].birth, cs.right[d].death
			}
		}
		if r.Chance(2, 3) {
			// the resolutions differ in more than the claimed pair: another left individual j has the
			// pointer of the target of the SECOND identifier (in sorted order — the first one is what the
			// model's document-order resolution takes). If that target is claimed, j's pointer job is
			// blocked and j goes to the similarity pass, where the decoy and the unclaimed target are
			// namesakes (equal scores); if it is not claimed, j is paired with it by pointer.
			us := append([]string{}, cs.left[i].uids...)
			sort.Strings(us)
			t0, t1 := -1, -1
			for q := range cs.right {
				if len(cs.right[q].uids) == 1 && cs.right[q].uids[0] == us[0] {
					t0 = q
				}
				if len(cs.right[q].uids) == 1 && cs.right[q].uids[0] == us[1] {
					t1 = q
				}
			}
			j := r.Intn(len(cs.left))
			if j != i && t0 >= 0 && t1 >= 0 {
				for q := range cs.right {
					if cs.right[q].ptr == cs.left[j].ptr {
						cs.right[q].ptr = cs.right[t1].ptr
					}
				}
				cs.right[t1].ptr = cs.left[j].ptr
				cs.right[t0].name, cs.right[t0].birth, cs.right[t0].death = cs.right[d].name, cs.right[d].birth, cs.right[d].death
				cs.kind = append(cs.kind, "multi-uid-left:resolution decides a pointer job and a tie")
			}
		}
		cs.kind = append(cs.kind, "multi-uid-left:several-targets,same-pointer-decoy")
	case r.Chance(1, 14) && len(cs.left) >= 2 && len(cs.right) >= 1:
		// two left individuals carry the unique id of one right individual
		u := c11uid(777000 + r.Intn(1000))
		i, j := r.Intn(len(cs.left)), r.Intn(len(cs.left))
		if i != j {
			cs.left[i].uids = append(cs.left[i].uids, u)
			cs.left[j].uids = append(cs.left[j].uids, u)
			k := r.Intn(len(cs.right))
			cs.right[k].uids = append(cs.right[k].uids, u)
			cs.kind = append(cs.kind, "duplicated-unique-id")
		}
	case r.Chance(1, 14) && len(cs.left) >= 1 && len(cs.right) >= 2:
		// one left individual whose two ids select two different right individuals (outside the model)
		u1, u2 := c11uid(888000+r.Intn(1000)), c11uid(999000+r.Intn(1000))
		i := r.Intn(len(cs.left))
		cs.left[i].uids = []string{u1, u2}
		a, b := r.Intn(len(cs.right)), r.Intn(len(cs.right))
		if a != b {
			cs.right[a].uids = []string{u1}
			cs.right[b].uids = []string{u2}
			cs.kind = append(cs.kind, "ambiguous-unique-ids")
		}
	case r.Chance(1, 25):
		cs.left, cs.right = nil, nil
		cs.kind = append(cs.kind, "both-empty")
	case r.Chance(1, 25) && len(cs.left) >= 1 && len(cs.right) >= 1:
		cs.left, cs.right = cs.left[:1], cs.right[:1]
		cs.kind = append(cs.kind, "single-individuals")
	case r.Chance(1, 12):
		cs.right = nil
		cs.kind = append(cs.kind, "empty-right")
	case r.Chance(1, 12):
		cs.left = nil
		cs.kind = append(cs.kind, "empty-left")
	}
	fam := func(ps []c11person, pre string) string {
		var sb strings.Builder
		if len(ps) == 0 {
			return ""
		}
		nf := r.Intn(len(ps)/2 + 2)
		for f := 0; f < nf; f++ {
			fmt.Fprintf(&sb, "0 @%sF%d@ FAM\n", pre, f+1)
			if r.Chance(8, 10) {
				fmt.Fprintf(&sb, "1 HUSB @%s@\n", ps[r.Intn(len(ps))].ptr)
			}
			if r.Chance(8, 10) {
				fmt.Fprintf(&sb, "1 WIFE @%s@\n", ps[r.Intn(len(ps))].ptr)
			}
			for c := r.Intn(4); c > 0; c-- {
				fmt.Fprintf(&sb, "1 CHIL @%s@\n", ps[r.Intn(len(ps))].ptr)
			}
		}
		return sb.String()
	}
	cs.lfam, cs.rfam = fam(cs.left, "L"), fam(cs.right, "R")
	if r.Chance(1, 5) && len(cs.left) >= 2 && len(cs.right) >= 2 {
		// proper sub-lists of the documents' individuals (order kept): the documents hold people — often
		// under the other side's pointers — that are not given to Compare
		pick := func(n int) []int {
			var keep []int
			for i := 0; i < n; i++ {
				if r.Chance(2, 3) {
					keep = append(keep, i)
				}
			}
			if len(keep) == n {
				keep = keep[1:]
			}
			return keep
		}
		cs.subR = pick(len(cs.right))
		if r.Bool() {
			cs.subL = pick(len(cs.left))
		}
		cs.kind = append(cs.kind, "sub-lists of the documents' individuals")
	}
	return cs
}

func c11build(ps []c11person, fams string, base int) *c11side {
	var sb strings.Builder
	for _, p := range ps {
		sb.WriteString(p.text())
	}
	sb.WriteString(fams)
	text := sb.String()
	doc, err := gedcom.NewDocumentFromString(text)
	if err != nil {
		panic("c11: generated document does not decode: " + err.Error() + "\n" + text)
	}
	s := &c11side{doc: doc, indis: doc.Individuals(), ids: map[*gedcom.IndividualNode]int{}, text: text}
	for i, x := range s.indis {
		s.ids[x] = base + i
	}
	return s
}

// ---------- canonical observation ------------------------------------------------------------------------

func c11side2(ids map[*gedcom.IndividualNode]int, x *gedcom.IndividualNode) string {
	if x == nil {
		return "_"
	}
	if id, ok := ids[x]; ok {
		return fmt.Sprint(id)
	}
	return "?"
}

func c11canon(ids map[*gedcom.IndividualNode]int, res gedcom.IndividualComparisons) string {
	var parts []string
	for _, c := range res {
		parts = append(parts, c11side2(ids, c.Left)+"-"+c11side2(ids, c.Right))
	}
	sort.Strings(parts)
	return strings.Join(parts, " ")
}

func c11exact(x float64) string {
	r := new(big.Rat)
	if r.SetFloat64(x) == nil {
		return "0"
	}
	if r.IsInt() {
		return r.Num().String()
	}
	return r.Num().String() + "/" + r.Denom().String()
}

func c11uids(x *gedcom.IndividualNode) []string {
	var out []string
	x.UniqueIdentifiers().Iterate(func(s string) bool { out = append(out, s); return true })
	sort.Strings(out)
	return out
}

func c11persons(s *c11side) string {
	if len(s.indis) == 0 {
		return "_"
	}
	var parts []string
	for _, x := range s.indis {
		var us []string
		for _, u := range c11uids(x) {
			us = append(us, hexs(u))
		}
		u := "_"
		if len(us) > 0 {
			u = strings.Join(us, ",")
		}
		parts = append(parts, fmt.Sprintf("%d:%s:%s", s.ids[x], hexs(x.Pointer()), u))
	}
	return strings.Join(parts, ";")
}

type c11opt struct {
	o    c12opts
	jobs int
	gmp  int
}

var c11jobs = []int{0, 1, 2, 3, 8, 16}
var c11gmps = []int{1, 2, 16}

func c11compare(l, r *c11side, so gedcom.SimilarityOptions, jobs, gmp int) gedcom.IndividualComparisons {
	opts := gedcom.NewIndividualNodesCompareOptions()
	opts.SimilarityOptions = so
	return c11compareWith(l, r, opts, jobs, gmp)
}

// c11compareWith runs Compare with a given options value (fresh, or one that already ran a comparison:
// its sentA/sentB are never reset). A run that does not deliver is reported through c11problem.
func c11compareWith(l, r *c11side, opts *gedcom.IndividualNodesCompareOptions, jobs, gmp int) gedcom.IndividualComparisons {
	c11notifyTurn++ // in turn: no Notifier, an unbuffered one, a buffered one, an unbuffered one with a slow receiver (as cmd/gedcom/diff.go: drained by the caller)
	notify := c11notifyTurn % 4
	out := c11run(l.indis, r.indis, opts, jobs, gmp, notify)
	if out.problem != "" && c11problem != nil {
		c11problem(out, jobs, gmp)
	}
	return out.res
}

var c11notifyTurn int

// c11problem receives the runs in which Compare did not deliver (set by the runner).
var c11problem func(out c11outcome, jobs, gmp int)

type c11outcome struct {
	res      gedcom.IndividualComparisons
	problem  string // "" | what went wrong with the delivery
	observed string
	notify   string
	progress []gedcom.Progress
}

const c11defaultLimit = 20 * time.Second

var c11limit = c11defaultLimit // per-call time limit of c11run

// Hang budget. Under a defect that makes (nearly) every call block, 20 s per call adds up to hours and
// the check prints no verdict. Every call that did not return is counted; after 2 of them the limit of
// the ordinary calls (a few milliseconds each on a healthy tree) drops to 3 s, after 8 to 500 ms, and
// the streams stop generating further cases (c11stop): the hangs seen so far are failing inputs already.
// The large-comparison stream sets its own limit and is not shortened.
var c11hangs int32

const c11hangBudget = 8

func c11callLimit() time.Duration {
	if c11limit != c11defaultLimit {
		return c11limit
	}
	switch h := atomic.LoadInt32(&c11hangs); {
	case h >= c11hangBudget:
		return 500 * time.Millisecond
	case h >= 2:
		return 3 * time.Second
	}
	return c11limit
}

// c11stop: true once the hang budget is spent; the stream named is not continued (counted once).
func c11stop(c *Ctx, stream string) bool {
	if atomic.LoadInt32(&c11hangs) < c11hangBudget {
		return false
	}
	k := fmt.Sprintf("stopped:%s not continued after %d calls into Compare that never returned", stream, c11hangBudget)
	if c.Dist[k] == 0 {
		c.Count(k)
	}
	return true
}

var c11slowWaits int32 // after a few "never closed" outcomes the wait is shortened (run time under a defect)

// c11run calls Compare in its own goroutine with a time limit; notify: 0 = no Notifier, 1 = an
// unbuffered one, 2 = a buffered one, drained by a goroutine as `for range options.Notifier` in
// cmd/gedcom/diff.go does. The matching must be delivered: Compare returns, the Notifier is closed by
// then (a caller ranging over it would otherwise wait forever) and the progress values make sense.
// A hang is an outcome, not a crash of the harness (the stuck goroutines are abandoned).
func c11run(left, right gedcom.IndividualNodes, opts *gedcom.IndividualNodesCompareOptions, jobs, gmp, notify int) c11outcome {
	old := runtime.GOMAXPROCS(gmp)
	defer runtime.GOMAXPROCS(old)
	opts.Jobs = jobs
	out := c11outcome{notify: []string{"no Notifier", "unbuffered Notifier drained by a goroutine", "buffered Notifier (4) drained by a goroutine",
		"unbuffered Notifier drained by a SLOW goroutine (200 µs per value)"}[notify]}
	var mu sync.Mutex
	var prog []gedcom.Progress
	closed := make(chan struct{})
	if notify > 0 {
		var ch chan gedcom.Progress
		if notify == 2 {
			ch = make(chan gedcom.Progress, 4)
		} else {
			ch = make(chan gedcom.Progress)
		}
		opts.Notifier = ch
		opts.NotifierStep = 1
		if nm := int64(len(left)) * int64(len(right)); nm > 2000 {
			opts.NotifierStep = nm / 500 // large comparisons: a few hundred notifications are enough
		}
		slow := notify == 3
		go func() {
			for p := range ch {
				if slow {
					time.Sleep(200 * time.Microsecond)
				}
				mu.Lock()
				prog = append(prog, p)
				mu.Unlock()
			}
			close(closed)
		}()
	}
	done := make(chan gedcom.IndividualComparisons, 1)
	go func() { done <- left.Compare(right, opts) }()
	limit := c11callLimit()
	select {
	case out.res = <-done:
	case <-time.After(limit):
		atomic.AddInt32(&c11hangs, 1)
		out.problem = fmt.Sprintf("Compare did not return within %v", limit)
		out.observed = "hang"
		return out
	}
	if notify > 0 {
		wait := 3 * time.Second
		if atomic.LoadInt32(&c11slowWaits) >= 3 {
			wait = 100 * time.Millisecond
		}
		select {
		case <-closed:
		case <-time.After(wait):
			atomic.AddInt32(&c11slowWaits, 1)
			out.problem = "the Notifier is not closed after Compare returned: a caller that ranges over it (gedcom diff does) waits forever"
			out.observed = fmt.Sprintf("Compare returned %d results; Notifier still open after %v", len(out.res), wait)
			return out
		}
		mu.Lock()
		out.progress = append([]gedcom.Progress{}, prog...)
		mu.Unlock()
		// progress: at least the final notification, nothing negative, the last one complete
		n := len(out.progress)
		switch {
		case n == 0:
			out.problem, out.observed = "no progress was ever notified (not even the final one)", "0 notifications"
		case out.progress[n-1].Done != out.progress[n-1].Total:
			out.problem = "the final progress notification is not complete"
			out.observed = fmt.Sprintf("last of %d: done %d of %d", n, out.progress[n-1].Done, out.progress[n-1].Total)
		default:
			for _, p := range out.progress {
				if p.Done < 0 || p.Total < 0 || p.Total > int64(len(left))*int64(len(right)) {
					out.problem = "a progress notification is out of range"
					out.observed = fmt.Sprintf("done %d of %d with %d x %d individuals", p.Done, p.Total, len(left), len(right))
					break
				}
			}
		}
	}
	return out
}

// c11valid is the property on one result: every left and every right individual exactly once, no
// result empty on both sides, paired individuals justified. Returns the first violation.
func c11valid(l, r *c11side, so gedcom.SimilarityOptions, res gedcom.IndividualComparisons) string {
	nl := map[*gedcom.IndividualNode]int{}
	nr := map[*gedcom.IndividualNode]int{}
	for _, c := range res {
		if c.Left == nil && c.Right == nil {
			return "a result is empty on both sides"
		}
		if c.Left != nil {
			nl[c.Left]++
		}
		if c.Right != nil {
			nr[c.Right]++
		}
		if c.Left != nil && c.Right != nil {
			shared := c.Left.UniqueIdentifiers().Intersects(c.Right.UniqueIdentifiers())
			ptr := c.Left.Pointer() == c.Right.Pointer() &&
				c.Left.SurroundingSimilarity(c.Right, so, true).WeightedSimilarity() >= so.PreferPointerAbove
			thr := c.Left.SurroundingSimilarity(c.Right, so, false).WeightedSimilarity() >= so.MinimumWeightedSimilarity
			if !shared && !ptr && !thr {
				return fmt.Sprintf("pair %s-%s is below the threshold and shares neither a unique identifier nor a trusted pointer",
					c.Left.Pointer(), c.Right.Pointer())
			}
		}
	}
	for _, x := range l.indis {
		if nl[x] != 1 {
			return fmt.Sprintf("left individual %s appears in %d results", x.Pointer(), nl[x])
		}
	}
	for _, x := range r.indis {
		if nr[x] != 1 {
			return fmt.Sprintf("right individual %s appears in %d results", x.Pointer(), nr[x])
		}
	}
	if len(nl) != len(l.indis) || len(nr) != len(r.indis) {
		return "a result refers to an individual of neither list"
	}
	return ""
}

// c11ambiguous: some left individual shares unique identifiers with two different right individuals;
// which of them ByUniqueIdentifiers(...)[0] is depends on sync.Map iteration order, not on the
// schedule, so runs of such a case are not compared with each other (each is checked for validity
// and against the model's set of resolutions).
func c11ambiguous(l, r *c11side) bool {
	for _, a := range l.indis {
		n := 0
		for _, b := range r.indis {
			if a.UniqueIdentifiers().Intersects(b.UniqueIdentifiers()) {
				n++
			}
		}
		if n > 1 {
			return true
		}
	}
	return false
}

// c11forced: a hand-built case (and the Jobs values it must be run with) for the next c11one.
var c11forced *c11case
var c11forcedJobs []int
var c11forcedOpts *c12opts

func c11one(c *Ctx, idx int) {
	r := c.R
	cs := c11gen(r)
	forcedJobs, forcedOpts := c11forcedJobs, c11forcedOpts
	if c11forced != nil {
		cs, c11forced, c11forcedJobs, c11forcedOpts = c11forced, nil, nil, nil
	}
	l, rt := c11build(cs.left, cs.lfam, 0), c11build(cs.right, cs.rfam, 1000)
	sub := func(sd *c11side, keep []int) {
		if keep == nil {
			return
		}
		var xs gedcom.IndividualNodes
		for _, i := range keep {
			if i < len(sd.indis) {
				xs = append(xs, sd.indis[i])
			}
		}
		sd.indis = xs
	}
	sub(l, cs.subL)
	sub(rt, cs.subR)
	ids := map[*gedcom.IndividualNode]int{}
	for p, id := range l.ids {
		ids[p] = id
	}
	for p, id := range rt.ids {
		ids[p] = id
	}
	for _, k := range cs.kind {
		c.Count("case:" + k)
	}
	c.Count(fmt.Sprintf("size:left=%d", (len(l.indis)+3)/4*4))
	o := c12randOpts(r)
	if forcedOpts != nil {
		o = *forcedOpts
	} else if forcedJobs != nil {
		o = c12opts{def: true}
	} else if r.Chance(1, 3) { // thresholds at the extremes
		if o.def {
			o = c12opts{maxYears: c12rat{3, 1}, minSim: c12rat{733, 1000}, minWeighted: c12rat{733, 1000}, iw: c12rat{12, 16}, pw: c12rat{1, 16},
				sw: c12rat{1, 16}, cw: c12rat{2, 16}, ratio: c12rat{1, 2}, boost: c12rat{0, 1}, prefix: 8, prefPtr: c12rat{733, 1000}}
		}
		o.minWeighted = []c12rat{{0, 1}, {1, 1}, {1, 2}}[r.Intn(3)]
		o.prefPtr = []c12rat{{0, 1}, {1, 1}, {1, 2}}[r.Intn(3)]
	}
	so := o.Go()
	docs := l.text + "----\n" + rt.text
	if cs.subL != nil || cs.subR != nil {
		docs += fmt.Sprintf("---- given to Compare: left %v, right %v (the other records stay in their documents)\n", c11ptrs(l.indis), c11ptrs(rt.indis))
	}
	in := func(jobs, gmp int) map[string]interface{} {
		return map[string]interface{}{"documents": docs, "options": o.wire(), "jobs": jobs, "gomaxprocs": gmp}
	}
	// score tables (sequential, before any Compare): exact values of the float64 scores
	var tT, tF []string
	scores := map[float64]int{}
	atThreshold := false // the model takes the float64 scores and thresholds as exact values: equality is decided alike on both sides
	for _, a := range l.indis {
		for _, b := range rt.indis {
			f := a.SurroundingSimilarity(b, so, false).WeightedSimilarity()
			if f != 0 {
				tF = append(tF, fmt.Sprintf("%d,%d,%s", ids[a], ids[b], c11exact(f)))
			}
			if f >= so.MinimumWeightedSimilarity {
				scores[f]++
			}
			if f == so.MinimumWeightedSimilarity {
				atThreshold = true
			}
			if a.Pointer() == b.Pointer() {
				if t := a.SurroundingSimilarity(b, so, true).WeightedSimilarity(); t == so.PreferPointerAbove {
					atThreshold = true
				}
				if t := a.SurroundingSimilarity(b, so, true).WeightedSimilarity(); t != 0 {
					tT = append(tT, fmt.Sprintf("%d,%d,%s", ids[a], ids[b], c11exact(t)))
				}
			}
		}
	}
	if atThreshold {
		c.Count("case:a score exactly equal to MinimumWeightedSimilarity or PreferPointerAbove")
	}
	ties := false
	for _, n := range scores {
		if n > 1 {
			ties = true
		}
	}
	if ties {
		c.Count("case:score-ties-at-or-above-threshold")
	} else {
		c.Count("case:no-score-ties")
	}
	tab := func(xs []string) string {
		if len(xs) == 0 {
			return "_"
		}
		return strings.Join(xs, ";")
	}
	amb := c11ambiguous(l, rt)
	undelivered := false
	c11problem = func(out c11outcome, jobs, gmp int) {
		undelivered = out.res == nil
		inp := in(jobs, gmp)
		inp["notifier"] = out.notify
		c.Oracle("", "the matching is not delivered: "+out.problem, inp, out.observed, "Compare returns, closes the Notifier and reports complete progress")
	}
	defer func() { c11problem = nil }()
	ref := c11compare(l, rt, so, 1, 1)
	refMissing := undelivered // the sequential run did not return: reported above, nothing to compare with the model
	refS := c11canon(ids, ref)
	key := ""
	check := func(res gedcom.IndividualComparisons, jobs, gmp int) {
		c.Eval()
		c.Count(fmt.Sprintf("run:jobs=%d", jobs))
		c.Count(fmt.Sprintf("run:gomaxprocs=%d", gmp))
		if undelivered {
			undelivered = false
			return // reported as not delivered
		}
		if v := c11valid(l, rt, so, res); v != "" {
			c.Oracle(key, "the result is not a valid one-to-one matching: "+c11class(v), in(jobs, gmp), v+" | result: "+c11canon(ids, res), "every individual in exactly one result")
		}
		if s := c11canon(ids, res); s != refS && !ties && !amb && !refMissing {
			c.Oracle("", "without score ties the result differs from the sequential one", in(jobs, gmp), s, refS)
		}
	}
	check(ref, 1, 1)
	for _, j := range forcedJobs {
		for _, g := range []int{2, 16} {
			check(c11compare(l, rt, so, j, g), j, g)
		}
	}
	combos := c.N(5, 17)
	for q := 0; q < combos; q++ {
		j, g := c11jobs[r.Intn(len(c11jobs))], c11gmps[r.Intn(len(c11gmps))]
		if !c.Quick() {
			j, g = c11jobs[(q+1)%6], c11gmps[((q+1)/6)%3]
		}
		check(c11compare(l, rt, so, j, g), j, g)
	}
	// history: the same options value is used for a second Compare (as a caller comparing several
	// pairs of documents with one configuration would)
	reused := gedcom.NewIndividualNodesCompareOptions()
	reused.SimilarityOptions = so
	c11compareWith(l, rt, reused, 1, 1)
	undelivered = false
	j2 := c11jobs[r.Intn(len(c11jobs))]
	second := c11compareWith(l, rt, reused, j2, c11gmps[r.Intn(len(c11gmps))])
	secondMissing := undelivered
	undelivered = false
	c.Eval()
	c.Count("run:second Compare with the same options value")
	if v := c11valid(l, rt, so, second); v != "" && !secondMissing {
		inp := in(j2, 0)
		inp["history"] = "second Compare of one IndividualNodesCompareOptions value (first: Jobs=1)"
		c.Oracle(key, "the result is not a valid one-to-one matching: "+c11class(v), inp, v+" | result: "+c11canon(ids, second), "every individual in exactly one result")
	}
	// correspondence: the sequential order, and permuted arrival orders
	reqBase := fmt.Sprintf("match %s %s %s %s %s %s", c11persons(l), c11persons(rt), c11exact(so.PreferPointerAbove),
		c11exact(so.MinimumWeightedSimilarity), tab(tT), tab(tF))
	if refMissing {
		c.Count("case:sequential run not delivered (no model comparison)")
		return
	}
	for _, k := range []int{0, 1, 2 + r.Intn(40)} {
		c.Tie(fmt.Sprintf("%s %d", reqBase, k), refS)
	}
	if (j2 <= 1 || !ties) && !secondMissing {
		c.Tie(fmt.Sprintf("match2%s 0", strings.TrimPrefix(reqBase, "match")), c11canon(ids, second))
	}
	c.Nontrivial(refS + "|" + o.wire())
	if idx < 2 {
		c.Sample(map[string]interface{}{"documents": docs, "options": o.wire(), "sequential_result": refS})
	}
}

// c11mixed builds a pair of documents with nl left and nr right individuals whose matches are of all
// three kinds: every third left individual has a partner by _UID only (other pointer, nothing else in
// common), every third a partner by pointer (same pointer, same name and dates), the others none; the
// right side is cut or padded with strangers to nr. No two pairs score alike.
func c11mixed(nl, nr, salt int) *c11case {
	cs := &c11case{}
	for x := 0; x < nl; x++ {
		p := c11person{ptr: fmt.Sprintf("L%d", x), name: fmt.Sprintf("Abel%c%c /Lefthand%d/", 'a'+rune(x%26), 'a'+rune((x/26)%26), x),
			birth: fmt.Sprintf("%d", 1300+x), death: fmt.Sprintf("%d", 1350+x)}
		switch x % 3 {
		case 0:
			p.uids = []string{c11uid(0xF000000 + salt*1000003 + x)}
			cs.right = append(cs.right, c11person{ptr: fmt.Sprintf("R%d", x), name: fmt.Sprintf("Zygmunt%c /Quixote%d/", 'z'-rune(x%26), x),
				birth: fmt.Sprintf("%d", 1800+x%190), uids: p.uids})
		case 1:
			cs.right = append(cs.right, c11person{ptr: p.ptr, name: p.name, birth: p.birth, death: p.death})
		}
		cs.left = append(cs.left, p)
	}
	for len(cs.right) < nr {
		x := len(cs.right)
		cs.right = append(cs.right, c11person{ptr: fmt.Sprintf("S%d", x), name: fmt.Sprintf("Stranger%c /Unrelated%d/", 'a'+rune(x%26), x), birth: fmt.Sprintf("%d", 1000+x)})
	}
	if len(cs.right) > nr {
		cs.right = cs.right[:nr]
	}
	return cs
}

// c11boundary: the fixed boundary corpus, run first.
//   - numbers of individuals at Jobs-1, Jobs, Jobs+1, 2*Jobs-1, 2*Jobs+1 for Jobs in
//     {0,1,2,3,4,5,7,8,16,17,64} (remainders of the strided division of the work), right side of the same
//     size, one larger, empty or a single individual — through the model where the case is small (<= 35),
//     against the sequential run and the validity oracle otherwise; 64/65/128/129/257 individuals;
//   - Notifier nil / unbuffered / buffered / unbuffered with a slow receiver, in turn;
//   - PreferPointerAbove and MinimumWeightedSimilarity exactly 0 and exactly 1;
//   - the remembered unique identifiers: compare, edit a _UID in place (delete the node, add another
//     one), compare again — against the matching of freshly decoded copies of the current documents.
func c11boundary(c *Ctx) {
	salt := 0
	small := func(nl, nr int, jobs []int, o *c12opts) {
		if c11stop(c, "boundary corpus") {
			return
		}
		salt++
		cs := c11mixed(nl, nr, salt)
		cs.kind = []string{"boundary:sizes around Jobs (model-tied)"}
		c11forced, c11forcedJobs, c11forcedOpts = cs, jobs, o
		c11one(c, 2000+salt)
	}
	bigCanon := func(res gedcom.IndividualComparisons) string {
		var got []string
		for _, x := range res {
			a, b := "_", "_"
			if x.Left != nil {
				a = x.Left.Pointer()
			}
			if x.Right != nil {
				b = x.Right.Pointer()
			}
			got = append(got, a+"-"+b)
		}
		sort.Strings(got)
		return strings.Join(got, " ")
	}
	big := func(nl, nr int, jobs []int) {
		if c11stop(c, "boundary corpus") {
			return
		}
		salt++
		cs := c11mixed(nl, nr, salt)
		l, rt := c11build(cs.left, "", 0), c11build(cs.right, "", 100000)
		so := gedcom.NewSimilarityOptions()
		ref := c11run(l.indis, rt.indis, gedcom.NewIndividualNodesCompareOptions(), 1, 1, 0)
		want := bigCanon(ref.res)
		in := func(j int, out c11outcome) map[string]interface{} {
			return map[string]interface{}{"left": fmt.Sprintf("%d individuals L0..: x%%3==0 has a _UID partner R<x>, x%%3==1 a same-pointer twin, else none (c11mixed)", nl),
				"right": fmt.Sprintf("%d individuals", nr), "jobs": j, "gomaxprocs": 4, "notifier": out.notify, "options": "default"}
		}
		if v := c11valid(l, rt, so, ref.res); v != "" || ref.problem != "" {
			c.Oracle("", "boundary sizes: the sequential result is not a valid matching or is not delivered: "+c11class(v)+ref.problem, in(1, ref), v+ref.observed, "a valid one-to-one matching")
		}
		for q, j := range jobs {
			c11notifyTurn++
			out := c11run(l.indis, rt.indis, gedcom.NewIndividualNodesCompareOptions(), j, 4, (c11notifyTurn+q)%4)
			c.Eval()
			c.Count("boundary:sizes 64..257 x Jobs (against the sequential run)")
			if out.problem != "" {
				c.Oracle("", "the matching is not delivered: "+out.problem, in(j, out), out.observed, "Compare returns, closes the Notifier and reports complete progress")
				if out.res == nil {
					continue
				}
			}
			if g := bigCanon(out.res); g != want {
				c.Oracle("", "boundary sizes: the result differs from the sequential one (no score ties)", in(j, out), c11tail(g, 400), c11tail(want, 400))
			}
		}
	}
	for _, J := range []int{0, 1, 2, 3, 4, 5, 7, 8, 16, 17, 64} {
		sizes := map[int]bool{}
		for _, n := range []int{J - 1, J, J + 1, 2*J - 1, 2*J + 1} {
			if n >= 0 {
				sizes[n] = true
			}
		}
		var ns []int
		for n := range sizes {
			ns = append(ns, n)
		}
		sort.Ints(ns)
		for q, n := range ns {
			nr := []int{n, n + 1, 1, 0, n}[q%5]
			if n <= 35 {
				small(n, nr, []int{J}, nil)
			} else {
				big(n, nr, []int{J, 3})
			}
		}
	}
	for _, n := range []int{64, 65, 128, 129, 257} {
		jl := []int{2, 5, 7, 8, 16, 17, 64}
		if n > 65 {
			jl = map[int][]int{128: {7, 17, 64}, 129: {8, 16, 64}, 257: {16, 64}}[n]
		}
		big(n, n, jl)
		big(n, 1, []int{4, 64})
	}
	big(1, 129, []int{2, 17})
	// duplicate pointers: two (or three) LEFT records with the same pointer — merge outputs have them —
	// and one right record with it, PreferPointerAbove reached (0: every pointer pair is trusted); also
	// two right records with one pointer. The duplicates sit at varied positions, are otherwise unlike
	// each other (no score ties), and each case is run repeatedly with several Jobs and GOMAXPROCS values:
	// the right individual must be in exactly one result and the result must be the sequential one.
	for q := 0; q < 10 && !c11stop(c, "boundary corpus"); q++ {
		salt++
		size := 6 + q
		cs := c11mixed(size, size, salt)
		i := []int{0, 1, 1, 2, 3, 0, 4, 2, 5, 1}[q]
		j := i + 1 + q%3
		if j >= size {
			j = size - 1
		}
		// left j takes the pointer of left i; the right side has one record with that pointer
		cs.left[j].ptr = cs.left[i].ptr
		if q%4 == 3 && j+1 < size {
			cs.left[j+1].ptr = cs.left[i].ptr
		}
		has := false
		for x := range cs.right {
			if cs.right[x].ptr == cs.left[i].ptr {
				has = true
			}
		}
		if !has {
			cs.right[0].ptr, cs.right[0].uids = cs.left[i].ptr, nil
		}
		if q%5 == 4 { // and a duplicate pointer on the right as well
			cs.right[len(cs.right)-1].ptr, cs.right[len(cs.right)-1].uids = cs.left[i].ptr, nil
		}
		cs.kind = []string{"boundary:duplicate pointers on the left (and right), PreferPointerAbove reached"}
		o := c12opts{maxYears: c12rat{3, 1}, minSim: c12rat{733, 1000}, minWeighted: c12rat{733, 1000}, iw: c12rat{12, 16}, pw: c12rat{1, 16}, sw: c12rat{1, 16},
			cw: c12rat{2, 16}, ratio: c12rat{1, 2}, boost: c12rat{0, 1}, prefix: 8, prefPtr: c12rat{0, 1}}
		c11forced, c11forcedJobs, c11forcedOpts = cs, []int{2, 2, 3, 2, 8, 2, 3}, &o
		c11one(c, 3000+q)
	}
	// sub-lists: the right (and left) list is a proper sub-list of its document, and the document holds,
	// OUTSIDE the list, an individual under a pointer of the other side (x%3==1 of c11mixed: same pointer,
	// same name and dates). Every Left/Right of the result must be an element of the given slices.
	for q := 0; q < 8 && !c11stop(c, "boundary corpus"); q++ {
		salt++
		size := 7 + q
		cs := c11mixed(size, size, salt)
		var keepR, keepL []int
		for x := 0; x < size; x++ {
			// drop some right individuals that share the pointer of a left individual; keep the rest
			if cs.right[x%len(cs.right)].ptr == cs.left[(x*2+1)%size].ptr && x%2 == q%2 {
				continue
			}
			keepR = append(keepR, x)
		}
		for x := range cs.right {
			if strings.HasPrefix(cs.right[x].ptr, "L") && (x+q)%2 == 0 {
				// a same-pointer twin stays in the document but is not given to Compare
				for y := range keepR {
					if keepR[y] == x {
						keepR = append(keepR[:y], keepR[y+1:]...)
						break
					}
				}
			}
		}
		if q%2 == 1 {
			for x := 0; x < size; x++ {
				if x%4 != 2 {
					keepL = append(keepL, x)
				}
			}
			cs.subL = keepL
		}
		cs.subR = keepR
		cs.kind = []string{"boundary:sub-lists of the documents (same-pointer people outside the given list)"}
		o := c12opts{maxYears: c12rat{3, 1}, minSim: c12rat{733, 1000}, minWeighted: c12rat{733, 1000}, iw: c12rat{12, 16}, pw: c12rat{1, 16}, sw: c12rat{1, 16},
			cw: c12rat{2, 16}, ratio: c12rat{1, 2}, boost: c12rat{0, 1}, prefix: 8, prefPtr: []c12rat{{0, 1}, {733, 1000}}[q%2]}
		c11forced, c11forcedJobs, c11forcedOpts = cs, []int{1, 2, 8}, &o
		c11one(c, 4000+q)
	}
	// thresholds exactly 0 and exactly 1
	for _, pp := range []c12rat{{0, 1}, {1, 1}} {
		for _, mw := range []c12rat{{0, 1}, {1, 1}} {
			o := c12opts{maxYears: c12rat{3, 1}, minSim: c12rat{733, 1000}, minWeighted: mw, iw: c12rat{12, 16}, pw: c12rat{1, 16}, sw: c12rat{1, 16},
				cw: c12rat{2, 16}, ratio: c12rat{1, 2}, boost: c12rat{0, 1}, prefix: 8, prefPtr: pp}
			small(9, 10, []int{1, 3, 8}, &o)
			small(7, 0, []int{2}, &o)
			small(1, 1, []int{0, 64}, &o)
		}
	}
	// history: the unique identifiers an individual remembers
	for q := 0; q < 6 && !c11stop(c, "boundary corpus"); q++ {
		salt++
		cs := c11mixed(12, 12, salt)
		l, rt := c11build(cs.left, "", 0), c11build(cs.right, "", 100000)
		first := c11run(l.indis, rt.indis, gedcom.NewIndividualNodesCompareOptions(), []int{1, 8}[q%2], 4, 0)
		// edit in place: left x loses its _UID, left y (no identifier so far) takes it over
		x, y := l.indis[[]int{0, 3, 6}[q%3]], l.indis[[]int{2, 5, 8}[q%3]]
		var moved string
		for _, n := range x.Nodes() {
			if u, ok := n.(*gedcom.UniqueIDNode); ok {
				moved = u.Value()
				x.DeleteNode(n)
			}
		}
		if q%2 == 0 {
			y.AddNode(gedcom.NewNode(gedcom.UnofficialTagUniqueID, moved, ""))
		} else { // the right partner gets a new identifier as well, and y that one
			for _, b := range rt.indis {
				for _, n := range b.Nodes() {
					if u, ok := n.(*gedcom.UniqueIDNode); ok && u.Value() == moved {
						b.DeleteNode(n)
						b.AddNode(gedcom.NewNode(gedcom.UnofficialTagUniqueID, c11uid(0xABC000+q), ""))
					}
				}
			}
			y.AddNode(gedcom.NewNode(gedcom.UnofficialTagUniqueID, c11uid(0xABC000+q), ""))
		}
		second := c11run(l.indis, rt.indis, gedcom.NewIndividualNodesCompareOptions(), []int{8, 1}[q%2], 4, 0)
		fl, err1 := gedcom.NewDocumentFromString(l.doc.String())
		fr, err2 := gedcom.NewDocumentFromString(rt.doc.String())
		c.Eval()
		c.Count("boundary:history compare / edit a _UID in place / compare again")
		if err1 != nil || err2 != nil || first.res == nil || second.res == nil {
			c.Oracle("", "unique-identifier history: a step failed", map[string]interface{}{"left": l.text}, fmt.Sprint(err1, err2, first.problem, second.problem), "all steps succeed")
			continue
		}
		fresh := c11run(fl.Individuals(), fr.Individuals(), gedcom.NewIndividualNodesCompareOptions(), 1, 1, 0)
		if g, w := bigCanon(second.res), bigCanon(fresh.res); g != w {
			c.Oracle("", "after a _UID was edited in place the matching is not the matching of the current documents (a remembered identifier set is stale)",
				map[string]interface{}{"left_before": l.text, "right_before": rt.text, "edit": fmt.Sprintf("%s loses its _UID %s; %s gets it (variant %d)", x.Pointer(), moved, y.Pointer(), q%2),
					"history": "Compare, edit, Compare with fresh options"}, g, w+"  (freshly decoded copies of the current documents, sequential)")
		}
		if bigCanon(first.res) == bigCanon(second.res) {
			c.Oracle("", "unique-identifier history: the edit did not change the matching (the corpus case is vacuous)", map[string]interface{}{"left": l.text}, bigCanon(second.res), "a different matching")
		}
	}
}

// c11dupPositions: a unique identifier duplicated among the LEFT individuals at varied positions. The
// people have nothing else in common with anybody (names, dates, pointers), every other left individual
// has its own partner by _UID, so the only question is which of the claimants of the shared right
// individual wins — the first in the order of the left slice, whatever the number of jobs and however the
// left slice is divided among the workers (strided: positions i < j with j % Jobs < i % Jobs are visited
// by a LOWER-numbered worker for j). Each case is run with Jobs = 1 and with the Jobs values for which
// its positions are of that kind, compared with the sequential result and with the model.
func c11dupPositions(c *Ctx) {
	r := c.R.Fork("dup-positions")
	n := c.N(24, 400)
	for q := 0; q < n && !c11stop(c, "duplicated unique id positions"); q++ {
		J := []int{2, 3, 8, 16, 2, 3}[q%6]
		i := J - 1 + J*r.Intn(2)
		if J >= 8 {
			i = J - 1
		}
		j := i + 1 + r.Intn(J-1)
		claim := []int{i, j}
		size := j + 1 + r.Intn(4)
		if r.Chance(1, 3) && size > j+1 { // a third claimant further down
			claim = append(claim, j+1+r.Intn(size-j-1))
		}
		cs := &c11case{kind: []string{"duplicated-unique-id:varied left positions (j % Jobs < i % Jobs)"}}
		shared := c11uid(0xD000000 + q*7919)
		isClaim := map[int]bool{}
		for _, x := range claim {
			isClaim[x] = true
		}
		for x := 0; x < size; x++ {
			p := c11person{ptr: fmt.Sprintf("L%d", x), name: fmt.Sprintf("Abel%c /Lefthand%d/", 'a'+rune(x%26), x),
				birth: fmt.Sprintf("%d", 1650+x), death: fmt.Sprintf("%d", 1700+x)}
			if isClaim[x] {
				p.uids = []string{shared}
			} else {
				p.uids = []string{c11uid(0xE000000 + q*104729 + x)}
				cs.right = append(cs.right, c11person{ptr: fmt.Sprintf("R%d", x), name: fmt.Sprintf("Zygmunt%c /Quixote%d/", 'z'-rune(x%26), x),
					birth: fmt.Sprintf("%d", 1900+x), death: fmt.Sprintf("%d", 1960+x), uids: p.uids})
			}
			cs.left = append(cs.left, p)
		}
		cs.right = append(cs.right, c11person{ptr: "RS", name: "Shared /Target/", birth: "1999", uids: []string{shared}})
		pm := r.Perm(len(cs.right))
		sh := make([]c11person, len(cs.right))
		for a, b := range pm {
			sh[a] = cs.right[b]
		}
		cs.right = sh
		c11forced = cs
		c11forcedJobs = []int{J, 2, 3}
		c11one(c, 1000+q)
	}
}

// c11cold: the cold-cache parallel stress. Two documents whose ONLY matches are _UID matches (10-40
// pairs; names, dates and pointers have nothing in common, so no pair comes near the threshold and no
// two candidate pairs can tie). They are decoded afresh for EVERY run — nothing is remembered by any
// node when the workers start — and matched with Jobs in {2,3,8,16} x GOMAXPROCS in {2,16}; every
// result must be the sequential matching (each left individual with the right one carrying its _UID).
func c11cold(c *Ctx) {
	r := c.R.Fork("cold")
	reps := c.N(120, 3000)
	var lt, rtx string
	var want string
	n := 0
	for rep := 0; rep < reps && !c11stop(c, "cold-cache stress"); rep++ {
		if rep%20 == 0 { // a new pair of documents every 20 runs
			n = 10 + r.Intn(31)
			var lb, rb strings.Builder
			lb.WriteString("0 HEAD\n")
			rb.WriteString("0 HEAD\n")
			order := r.Perm(n)
			for i := 0; i < n; i++ {
				fmt.Fprintf(&lb, "0 @L%d@ INDI\n1 NAME Abel%c /Lefthand%d/\n1 BIRT\n2 DATE %d\n1 DEAT\n2 DATE %d\n1 _UID %s\n",
					i, 'a'+rune(i%26), i, 1650+i, 1700+i, c11uid(0xA000000+i*7919+rep))
			}
			for _, i := range order {
				fmt.Fprintf(&rb, "0 @R%d@ INDI\n1 NAME Zygmunt%c /Quixote%d/\n1 BIRT\n2 DATE %d\n1 DEAT\n2 DATE %d\n1 _UID %s\n",
					i, 'z'-rune(i%26), i, 1900+i, 1960+i, c11uid(0xA000000+i*7919+rep))
			}
			lb.WriteString("0 TRLR\n")
			rb.WriteString("0 TRLR\n")
			lt, rtx = lb.String(), rb.String()
			var w []string
			for i := 0; i < n; i++ {
				w = append(w, fmt.Sprintf("L%d-R%d", i, i))
			}
			sort.Strings(w)
			want = strings.Join(w, " ")
		}
		ld, err1 := gedcom.NewDocumentFromString(lt)
		rd, err2 := gedcom.NewDocumentFromString(rtx)
		if err1 != nil || err2 != nil {
			panic("c11: cold-cache documents do not decode")
		}
		jobs, gmp := []int{2, 3, 8, 16}[rep%4], []int{2, 16}[(rep/4)%2]
		if rep%20 == 0 {
			jobs, gmp = 1, 1 // the sequential run itself, on fresh documents too
		}
		opts := gedcom.NewIndividualNodesCompareOptions()
		out := c11run(ld.Individuals(), rd.Individuals(), opts, jobs, gmp, rep%3)
		c.Eval()
		c.Count("cold-cache stress:runs (fresh documents, _UID-only matches)")
		in := map[string]interface{}{"left_document": lt, "right_document": rtx, "jobs": jobs, "gomaxprocs": gmp,
			"note": "both documents decoded afresh for this run (cold caches); options: NewIndividualNodesCompareOptions()", "notifier": out.notify}
		if out.problem != "" {
			c.Oracle("", "the matching is not delivered: "+out.problem, in, out.observed, "Compare returns, closes the Notifier and reports complete progress")
			if out.res == nil {
				continue
			}
		}
		var got []string
		for _, x := range out.res {
			a, b := "_", "_"
			if x.Left != nil {
				a = x.Left.Pointer()
			}
			if x.Right != nil {
				b = x.Right.Pointer()
			}
			got = append(got, a+"-"+b)
		}
		sort.Strings(got)
		if g := strings.Join(got, " "); g != want {
			miss := 0
			for _, p := range got {
				if strings.HasSuffix(p, "-_") {
					miss++
				}
			}
			c.Oracle("", "cold caches, several jobs: the result differs from the sequential one (no score ties: the only matches are shared unique identifiers)",
				in, fmt.Sprintf("%d of %d left individuals unmatched: %s", miss, n, g), want)
		}
	}
}

// c11large: a few large comparisons, result sizes around the capacities of the pipeline's channels
// (1000): n individuals against an empty side (n rows, no comparison at all) and n against n matched by
// _UID alone (n rows, no similarity matrix left), each under the per-call time limit — a Compare that
// never returns is an outcome.
func c11large(c *Ctx) {
	mk := func(prefix string, n int) *gedcom.Document {
		var sb strings.Builder
		for i := 0; i < n; i++ {
			fmt.Fprintf(&sb, "0 @%s%d@ INDI\n1 NAME P%d /Q%s/\n1 _UID %s\n", prefix, i, i, prefix, c11uid(0xB000000+i*104729))
		}
		d, err := gedcom.NewDocumentFromString(sb.String())
		if err != nil {
			panic("c11: large document does not decode")
		}
		return d
	}
	// mkp: the same people without identifiers, to be matched by pointer (both sides use the prefix P)
	mkp := func(n int) *gedcom.Document {
		var sb strings.Builder
		for i := 0; i < n; i++ {
			fmt.Fprintf(&sb, "0 @P%d@ INDI\n1 NAME P%d /Q/\n", i, i)
		}
		d, err := gedcom.NewDocumentFromString(sb.String())
		if err != nil {
			panic("c11: large document does not decode")
		}
		return d
	}
	// byPtr: both sides n individuals with the same pointers and PreferPointerAbove = 0: every pair is a
	// certain match of the pointer pass and there is no similarity matrix left — n certain matches go
	// through the jobs and results channels (capacity 1000 each) before `totals` is closed
	type lc struct {
		nl, nr, jobs, notify int
		byPtr                bool
	}
	cases := []lc{{999, 0, 1, 1, false}, {1000, 0, 8, 0, false}, {1001, 0, 1, 0, false}, {0, 1001, 2, 1, false}, {1025, 0, 16, 2, false}, {2050, 0, 1, 0, false},
		{1000, 1000, 8, 0, false}, {1001, 1001, 8, 1, false},
		{999, 999, 1, 0, true}, {1000, 1000, 2, 1, true}, {1001, 1001, 1, 0, true}, {1999, 1999, 3, 0, true}, {2000, 2000, 1, 2, true}, {2001, 2001, 1, 0, true},
		{2002, 2002, 1, 0, true}, {2018, 2018, 16, 1, true}, {2100, 2100, 8, 0, true}, {2002, 2002, 2, 0, false}}
	if !c.Quick() {
		cases = append(cases, lc{0, 2050, 8, 2, false}, lc{2050, 2050, 16, 0, false}, lc{1001, 1001, 1, 2, false}, lc{1000, 1001, 2, 0, false},
			lc{4100, 4100, 8, 0, true}, lc{4100, 4100, 1, 1, true}, lc{2100, 2100, 16, 3, false})
	}
	old := c11limit
	c11limit = 60 * time.Second
	defer func() { c11limit = old }()
	hangs := 0
	for _, k := range cases {
		if c11stop(c, "large comparisons") {
			break
		}
		if hangs >= 2 {
			c.Count("large:skipped after two hangs")
			continue
		}
		ld, rd := mk("L", k.nl), mk("R", k.nr)
		opts := gedcom.NewIndividualNodesCompareOptions()
		if k.byPtr {
			ld, rd = mkp(k.nl), mkp(k.nr)
			opts.SimilarityOptions.PreferPointerAbove = 0
		}
		out := c11run(ld.Individuals(), rd.Individuals(), opts, k.jobs, 4, k.notify)
		c.Eval()
		c.Count("large:comparisons (999..2100 result rows; one side empty, matched by _UID, matched by pointer)")
		in := map[string]interface{}{"left": fmt.Sprintf("%d individuals @L0@..: 0 @Li@ INDI / 1 NAME Pi /QL/ / 1 _UID <uid i>", k.nl),
			"right": fmt.Sprintf("%d individuals @R0@..: 0 @Ri@ INDI / 1 NAME Pi /QR/ / 1 _UID <uid i>", k.nr), "jobs": k.jobs, "gomaxprocs": 4,
			"notifier": out.notify, "options": "NewIndividualNodesCompareOptions()"}
		if k.byPtr {
			in["left"] = fmt.Sprintf("%d individuals: 0 @Pi@ INDI / 1 NAME Pi /Q/ (i = 0..)", k.nl)
			in["right"] = fmt.Sprintf("%d individuals with the same pointers and names", k.nr)
			in["options"] = "NewIndividualNodesCompareOptions() with SimilarityOptions.PreferPointerAbove = 0"
		}
		if out.problem != "" {
			if out.res == nil {
				hangs++
				c11limit = 15 * time.Second
			}
			c.Oracle("", "the matching is not delivered: "+out.problem, in, out.observed, "Compare returns, closes the Notifier and reports complete progress")
			if out.res == nil {
				continue
			}
		}
		want := k.nl
		if k.nr > want {
			want = k.nr
		}
		bad := ""
		seenL, seenR := map[string]int{}, map[string]int{}
		for _, x := range out.res {
			if x.Left != nil {
				seenL[x.Left.Pointer()]++
			}
			if x.Right != nil {
				seenR[x.Right.Pointer()]++
			}
			if x.Left != nil && x.Right != nil && x.Left.Pointer()[1:] != x.Right.Pointer()[1:] {
				bad = "pair " + x.Left.Pointer() + "-" + x.Right.Pointer() + " does not share a unique identifier"
			}
			if k.nl > 0 && k.nr > 0 && k.nl == k.nr && (x.Left == nil || x.Right == nil) {
				bad = "an individual is left unmatched although its unique identifier is on the other side"
			}
		}
		if len(out.res) != want || len(seenL) != k.nl || len(seenR) != k.nr {
			bad = fmt.Sprintf("%d results with %d distinct left and %d distinct right individuals", len(out.res), len(seenL), len(seenR))
		}
		if bad != "" && !(k.nl != k.nr && k.nl > 0 && k.nr > 0) {
			c.Oracle("", "large comparison: the result is not the one-to-one matching by unique identifier", in, bad, fmt.Sprintf("%d results, every individual once", want))
		}
	}
}

func c11ptrs(xs gedcom.IndividualNodes) []string {
	var out []string
	for _, x := range xs {
		out = append(out, x.Pointer())
	}
	return out
}

func c11has(xs []string, s string) bool {
	for _, x := range xs {
		if x == s {
			return true
		}
	}
	return false
}

func c11class(v string) string {
	switch {
	case strings.HasPrefix(v, "left individual"):
		return "a left individual is not in exactly one result"
	case strings.HasPrefix(v, "right individual"):
		return "a right individual is not in exactly one result"
	case strings.HasPrefix(v, "pair"):
		return "an unjustified pair"
	}
	return v
}

// c11cmp: the model's answer carries its guards. Permuted arrival orders (k > 0) are compared only
// inside the theorem's domain (guards hold, no ties); an ambiguous unique-id choice is outside the model.
func c11cmp(req, impl, model string) bool {
	i := strings.Index(model, "ties=")
	if i < 0 {
		return false
	}
	pairs := strings.TrimSpace(model[:i])
	flags := model[i:]
	if c11skipped != nil && strings.HasSuffix(req, " 0") {
		c11skipped("model-guards:" + flags)
	}
	amb := strings.Contains(flags, "amb=1")
	if amb && strings.HasPrefix(req, "match2 ") {
		// the two calls may resolve an ambiguous unique-identifier choice differently (map order)
		if c11skipped != nil {
			c11skipped("reused-options-not-compared:ambiguous-unique-ids")
		}
		return true
	}
	k := req[strings.LastIndexByte(req, ' ')+1:]
	if k != "0" && (strings.Contains(flags, "ties=1") || strings.Contains(flags, "ok=0")) && c11skipped != nil {
		// the driver answers with the sequential result for every resolution whose job list has
		// score ties at or above the threshold or fails JobsOK: a permuted arrival is not
		// required to reproduce the sequential run there
		c11skipped("permuted-arrival:sequential answer used where ties or guard fail")
	}
	// one model answer per resolution of the ambiguous choices: the implementation made one of them
	for _, ans := range strings.Split(pairs, " | ") {
		if strings.TrimSpace(ans) == impl {
			if amb && c11skipped != nil {
				c11skipped("ambiguous-unique-ids:implementation matches one resolution")
			}
			return true
		}
	}
	return false
}

var c11skipped func(string)

func init() {
	runners["C11"] = func(c *Ctx) {
		c.Compare = c11cmp
		c11skipped = func(s string) { c.Dist[s]++ }
		c.Rule = "pairs of family-graph documents (edited copy: shared / disjoint / shifted pointers, dropped and added people, typos, identical twins, shared unique ids, a duplicated unique id, empty sides; a _UID duplicated among left individuals at varied positions i < j with j % Jobs < i % Jobs, run with those Jobs values) x options (default and random, thresholds incl. 0 and 1) x Jobs in {0,1,2,3,8,16} x GOMAXPROCS in {1,2,16}; every run goes through a delivery check (Compare in its own goroutine with a time limit; in turn no / unbuffered / buffered Notifier drained as gedcom diff does: it must be closed when Compare returns and the progress complete; empty left, empty right, both empty and single individuals included), is checked for validity, and all runs of a case are compared with the sequential one when no scores tie; cold-cache stress: documents whose only matches are _UID matches, decoded afresh for every run, Jobs {2,3,8,16} x GOMAXPROCS {2,16}, each compared with the sequential matching; large comparisons with 999..2100 result rows (one side empty; equal sides matched by _UID or by pointer: 999/1000/1001/1999/2000/2001/2002/2018/2100 certain matches around the channel capacities) under a time limit; lists that are proper sub-lists of their documents; the model is run on the sequential and on permuted arrival orders; distinct = distinct (sequential result, options)"
		c11boundary(c)
		n := c.N(300, 6000)
		for i := 0; i < n && !c11stop(c, "random cases"); i++ {
			c11one(c, i)
		}
		c11dupPositions(c)
		c11cold(c)
		c11large(c)
		if !c11stop(c, "race batch") {
			c11race(c)
		}
	}
}
