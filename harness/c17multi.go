package main

// C17, several publishers of ONE document object in one process.  A program may construct all its
// publishers up front (a private site that shows everybody, a public one without the living) and
// publish them afterwards, in any order; state that an earlier publish leaves behind — the
// package-level surname set of html/publish_header.go, memoised answers on the nodes — must not
// reach the later site.  Every site of a history is compared byte for byte with the site a fresh
// process publishes from the same text (same edits, same visibility, same page groups), and the
// hide / placeholder sites are searched for the living people's markers.
//
// Steps of a history:
//   new=<slot>=<vis>=<6 group bits>   html.NewPublisher(doc, options) kept in a slot
//   pub=<slot>                        slot.Publish(writer, jobs)  -> one site
//   maxage=<n> | die=<ptr> | delete=<ptr>   in-place edits of the document (as in c17hist)
//
// The surname sets of the histories without edits also go to the Lean history model
// (Gedcom/Model/PublishHistory.lean, request `c17history`): the cache machine of getSurnames /
// forgetSurnames with the regenerated facts about its key.

import (
	"encoding/json"
	"fmt"
	"os"
	"regexp"
	"sort"
	"strconv"
	"strings"
	"sync"

	"github.com/elliotchance/gedcom/v39"
	"github.com/elliotchance/gedcom/v39/html"
)

type c17MultiJob struct {
	Gedcom string   `json:"gedcom"`
	Steps  []string `json:"steps"`
	Jobs   int      `json:"jobs"`
}

func c17GroupBits(g [6]bool) string {
	s := ""
	for _, b := range g {
		s += bit(b)
	}
	return s
}

func c17ParseGroups(s string) (g [6]bool) {
	for i := 0; i < 6 && i < len(s); i++ {
		g[i] = s[i] == '1'
	}
	return
}

// c17ApplyEdit: the in-place edits of c17hist that do not need a second pointer.
func c17ApplyEdit(doc *gedcom.Document, step string) bool {
	kv := strings.SplitN(step, "=", 2)
	if len(kv) != 2 {
		return false
	}
	switch kv[0] {
	case "maxage":
		age, _ := strconv.ParseFloat(kv[1], 64)
		doc.MaxLivingAge = age
		return true
	case "die", "delete":
		for _, p := range doc.Individuals() {
			if p.Pointer() != kv[1] {
				continue
			}
			if kv[0] == "die" {
				p.AddNode(gedcom.NewDeathNode("Y"))
			} else {
				doc.DeleteNode(p)
			}
			break
		}
		return true
	}
	return false
}

func init() {
	workers["c17multi"] = func(args []string) int {
		var job c17MultiJob
		if err := json.NewDecoder(os.Stdin).Decode(&job); err != nil {
			fmt.Fprintln(os.Stderr, err)
			return 2
		}
		var sites []*c17Site
		doc, err := gedcom.NewDocumentFromString(job.Gedcom)
		slots := map[string]*html.Publisher{}
		for _, step := range job.Steps {
			switch {
			case err != nil:
				if strings.HasPrefix(step, "pub=") {
					sites = append(sites, &c17Site{Files: map[string]string{}, Err: "decode: " + err.Error()})
				}
			case strings.HasPrefix(step, "new="):
				f := strings.Split(step, "=")
				if len(f) != 4 {
					continue
				}
				g := c17ParseGroups(f[3])
				slots[f[1]] = html.NewPublisher(doc, &html.PublishShowOptions{
					ShowIndividuals: g[0], ShowPlaces: g[1], ShowFamilies: g[2],
					ShowSurnames: g[3], ShowSources: g[4], ShowStatistics: g[5],
					LivingVisibility: html.NewLivingVisibility(f[2]),
				})
			case strings.HasPrefix(step, "pub="):
				site := &c17Site{Files: map[string]string{}}
				if p := slots[strings.TrimPrefix(step, "pub=")]; p == nil {
					site.Err = "no such publisher"
				} else if e := p.Publish(&c17Writer{site: site}, job.Jobs); e != nil {
					site.Err = "publish: " + e.Error()
				}
				sites = append(sites, site)
			default:
				c17ApplyEdit(doc, step)
			}
		}
		json.NewEncoder(os.Stdout).Encode(sites)
		return 0
	}
}

var c17SurnameRowRe = regexp.MustCompile(`(?s)<tr[^>]*>\s*<td[^>]*>\s*<a href="[^"]*#([^"]*)"`)

// c17SurnamesOf: the surnames listed on surnames.html, sorted.
func c17SurnamesOf(site *c17Site) []string {
	var out []string
	for _, cells := range c17Rows(site.Files["surnames.html"]) {
		if len(cells) != 2 {
			continue
		}
		if a := c17Atoms(cells[0]); len(a) == 2 && a[0][0] == 'H' && a[1][0] == 'T' {
			out = append(out, a[1][1:])
		}
	}
	sort.Strings(out)
	return out
}

type c17MultiHistory struct {
	name  string
	steps func(bits string, firstLiving string) []string
}

func c17MultiHistories() []c17MultiHistory {
	n := func(slot, vis, bits string) string { return "new=" + slot + "=" + vis + "=" + bits }
	const all = "111111"
	return []c17MultiHistory{
		{"show+hide constructed, show published first", func(b, _ string) []string { return []string{n("a", "show", b), n("b", "hide", b), "pub=a", "pub=b"} }},
		{"show+placeholder constructed, show published first", func(b, _ string) []string {
			return []string{n("a", "show", b), n("b", "placeholder", b), "pub=a", "pub=b"}
		}},
		{"hide+show constructed, show published first", func(b, _ string) []string { return []string{n("a", "hide", b), n("b", "show", b), "pub=b", "pub=a"} }},
		{"three publishers, every one published, the first again", func(b, _ string) []string {
			return []string{n("a", "show", b), n("b", "hide", b), n("c", "placeholder", b), "pub=c", "pub=a", "pub=b", "pub=c", "pub=a"}
		}},
		{"placeholder+hide constructed, placeholder first, then hide, then placeholder", func(b, _ string) []string {
			return []string{n("a", "placeholder", b), n("b", "hide", b), "pub=a", "pub=b", "pub=a"}
		}},
		{"different page groups per publisher", func(b, _ string) []string {
			return []string{n("a", "show", all), n("b", "hide", "100100"), n("c", "placeholder", "010111"), "pub=a", "pub=b", "pub=c", "pub=b"}
		}},
		{"MaxLivingAge = 0 before the publishers are constructed", func(b, _ string) []string {
			return []string{"maxage=0", n("a", "show", b), n("b", "hide", b), n("c", "placeholder", b), "pub=a", "pub=b", "pub=c"}
		}},
		{"published, then a death recorded, then new publishers", func(b, liv string) []string {
			return []string{n("a", "show", b), n("b", "hide", b), "pub=a", "pub=b", "die=" + liv, n("c", "show", b), n("d", "placeholder", b), n("e", "hide", b), "pub=c", "pub=d", "pub=e"}
		}},
		{"published, then MaxLivingAge = 1, then new publishers, hide first", func(b, _ string) []string {
			return []string{n("a", "show", b), "pub=a", "maxage=1", n("b", "hide", b), n("c", "show", b), "pub=c", "pub=b"}
		}},
	}
}

// c17MultiPublishers is the stream; it runs last, so that the draws of the other streams are what
// they were before it was added.
func c17MultiPublishers(c *Ctx, now int) {
	r := c.R.Fork("multi-publishers")
	hists := c17MultiHistories()
	type run struct {
		d       *c17Doc
		text    string
		h       c17MultiHistory
		steps   []string
		jobs    int
		sites   []*c17Site
		err     string
		refs    []*c17Site // one fresh publish per pub step
		refErr  []string
		pubs    []int // index of the step of every pub
		noEdits bool
	}
	demo := &c17Doc{people: []*c17Person{
		{id: 0, kind: "dead-deat", given: "Deadgivenq", surname: "Deadsurnameq", birth: "4 Jan 1843", death: "17 Mar 1907", role: map[string]bool{}, asso: -1},
		{id: 1, kind: "living-young", living: true, given: "Livinggivenq", surname: "Livingsurnameq", birth: fmt.Sprintf("2 Feb %d", now-30), role: map[string]bool{}, asso: -1},
	}, fams: []*c17Family{{husb: 0, wife: -1, chil: []int{1}}}}
	ndocs := c.N(18, 120)
	var runs []*run
	for i := 0; i < ndocs; i++ {
		var d *c17Doc
		if i == 0 {
			d = demo
		} else {
			d = c17Gen(r, now)
		}
		bits := "111111"
		if i%4 == 3 {
			bits = ""
			gm := r.Intn(64) | 8 // the surname list is always there
			for k := 0; k < 6; k++ {
				bits += bit(gm&(1<<k) != 0)
			}
		}
		firstLiving := ""
		for _, p := range d.people {
			if p.living {
				firstLiving = p.ptr()
				break
			}
		}
		// every history on the first documents, two in rotation afterwards
		var hs []c17MultiHistory
		if i < 2 {
			hs = hists
		} else {
			hs = []c17MultiHistory{hists[i%len(hists)], hists[(i+4)%len(hists)]}
		}
		for _, h := range hs {
			ru := &run{d: d, text: d.Text(), h: h, steps: h.steps(bits, firstLiving), jobs: 1 + r.Intn(3), noEdits: true}
			for si, s := range ru.steps {
				if strings.HasPrefix(s, "pub=") {
					ru.pubs = append(ru.pubs, si)
				} else if !strings.HasPrefix(s, "new=") {
					ru.noEdits = false
				}
			}
			ru.refs = make([]*c17Site, len(ru.pubs))
			ru.refErr = make([]string, len(ru.pubs))
			runs = append(runs, ru)
		}
	}
	// the fresh publish a pub step is compared with: the edits so far, then the one publisher
	refSteps := func(ru *run, pubIdx int) []string {
		slot := strings.TrimPrefix(ru.steps[pubIdx], "pub=")
		var out []string
		newStep := ""
		for _, s := range ru.steps[:pubIdx] {
			if strings.HasPrefix(s, "new=") {
				if strings.HasPrefix(s, "new="+slot+"=") {
					newStep = s
				}
			} else if !strings.HasPrefix(s, "pub=") {
				out = append(out, s)
			}
		}
		return append(out, newStep, "pub="+slot)
	}
	sem := make(chan struct{}, 8)
	var wg sync.WaitGroup
	cache := map[string]*c17Site{} // fresh publishes are shared between histories of one document
	cacheErr := map[string]string{}
	var mu sync.Mutex
	for _, ru := range runs {
		ru := ru
		wg.Add(1)
		go func() {
			defer wg.Done()
			sem <- struct{}{}
			defer func() { <-sem }()
			ru.err = c17RunWorker("c17multi", c17MultiJob{Gedcom: ru.text, Steps: ru.steps, Jobs: ru.jobs}, &ru.sites)
		}()
		for k, pi := range ru.pubs {
			k, steps := k, refSteps(ru, pi)
			key := ru.text + "\x00" + strings.Join(steps, " ")
			mu.Lock()
			_, have := cache[key]
			if !have {
				cache[key] = nil
			}
			mu.Unlock()
			if have {
				continue
			}
			wg.Add(1)
			go func() {
				defer wg.Done()
				sem <- struct{}{}
				defer func() { <-sem }()
				var sites []*c17Site
				e := c17RunWorker("c17multi", c17MultiJob{Gedcom: ru.text, Steps: steps, Jobs: 1}, &sites)
				mu.Lock()
				if len(sites) == 1 {
					cache[key] = sites[0]
				}
				cacheErr[key] = e
				mu.Unlock()
				_ = k
			}()
		}
	}
	wg.Wait()
	for _, ru := range runs {
		in := func(extra map[string]interface{}) map[string]interface{} {
			m := map[string]interface{}{"gedcom": ru.text, "history": ru.steps, "jobs": ru.jobs, "what": ru.h.name}
			for k, v := range extra {
				m[k] = v
			}
			return m
		}
		c.Eval()
		if ru.err != "" || len(ru.sites) != len(ru.pubs) {
			c.Oracle("", "several publishers of one document: the history could not be run", in(nil), ru.err, fmt.Sprintf("%d sites", len(ru.pubs)))
			continue
		}
		c.Count("multi-publisher history/" + ru.h.name)
		markers := c17Markers(ru.d)
		var modelOps []string
		var observed []string
		pubNo := 0
		for si, s := range ru.steps {
			if strings.HasPrefix(s, "new=") {
				modelOps = append(modelOps, "new")
				continue
			}
			if !strings.HasPrefix(s, "pub=") {
				continue
			}
			site := ru.sites[pubNo]
			k := pubNo
			pubNo++
			steps := refSteps(ru, si)
			vis := strings.Split(steps[len(steps)-2], "=")[2]
			bits := strings.Split(steps[len(steps)-2], "=")[3]
			key := ru.text + "\x00" + strings.Join(steps, " ")
			fresh, fe := cache[key], cacheErr[key]
			pin := func(extra map[string]interface{}) map[string]interface{} {
				m := in(map[string]interface{}{"step": fmt.Sprintf("#%d %s (%s, groups %s)", si, s, vis, bits), "fresh_history": steps})
				for k, v := range extra {
					m[k] = v
				}
				return m
			}
			c.Eval()
			if site.Err != "" || fresh == nil || fe != "" || fresh.Err != "" {
				c.Oracle("", "several publishers of one document: a publish fails", pin(nil), site.Err+" / fresh: "+fe, "a site")
				continue
			}
			c.Count("multi-publisher site/" + vis)
			c.Nontrivial("multi/" + ru.h.name + "/" + vis + "/" + strconv.Itoa(k))
			// (S) byte for byte what a fresh process publishes
			names := make([]string, 0, len(fresh.Files))
			for name := range fresh.Files {
				names = append(names, name)
			}
			sort.Strings(names)
			for _, name := range names {
				got, ok := site.Files[name]
				kind := c17PageKind(strings.ToLower(name))
				if !ok {
					c.Oracle("C17-multi-"+vis+"-missing-"+kind, "several publishers of one document: a file of the fresh publish is missing ("+vis+")", pin(map[string]interface{}{"file": name}), "missing", "same files as a fresh publish")
				} else if got != fresh.Files[name] {
					c.Oracle("C17-multi-"+vis+"-differs-"+kind, "several publishers of one document: a "+kind+" of the "+vis+" site differs from the fresh publish",
						pin(map[string]interface{}{"file": name}), c17FirstDiff(got, fresh.Files[name]), "byte for byte equal")
				}
			}
			for name := range site.Files {
				if _, ok := fresh.Files[name]; !ok {
					c.Oracle("C17-multi-"+vis+"-extra-file", "several publishers of one document: a file that a fresh publish does not write ("+vis+")", pin(map[string]interface{}{"file": name}), "extra file", "same files as a fresh publish")
				}
			}
			// (S) marker search (histories without edits: who is living is what the generator says)
			if ru.noEdits && vis != "show" {
				for name, content := range site.Files {
					lc := strings.ToLower(content)
					for _, m := range markers {
						if strings.Contains(lc, m.token) || strings.Contains(strings.ToLower(name), m.token) {
							c.Oracle("C17-multi-"+vis+"-"+m.kind, "several publishers of one document: "+m.kind+" of a living person is written to the "+vis+" site",
								pin(map[string]interface{}{"file": name, "marker": m.token, "person": ru.d.people[m.person].ptr()}), c17Snippet(lc, m.token), "the marker occurs nowhere")
						}
					}
				}
			}
			if ru.noEdits && bits[3] == '1' {
				modelOps = append(modelOps, "pub:"+vis)
				observed = append(observed, c17HexList(c17SurnamesOf(site)))
			}
		}
		// (T) the surname sets of the history against the cache machine of the model
		if ru.noEdits && len(observed) > 0 {
			if gdoc, err := gedcom.NewDocumentFromString(ru.text); err == nil {
				var ps []string
				for _, p := range gdoc.Individuals() {
					ps = append(ps, bit(p.IsLiving())+" "+hexs(p.Name().Surname()))
				}
				c.Tie(fmt.Sprintf("c17history %d %s %d %s", len(ps), strings.Join(ps, " "), len(modelOps), strings.Join(modelOps, " ")),
					strings.Join(observed, " | "))
				c.Count("multi-publisher history/model")
			}
		}
	}
}
