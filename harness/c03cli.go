package main

import (
	"bytes"
	"context"
	"fmt"
	"io/ioutil"
	"os"
	"os/exec"
	"path/filepath"
	"strings"
	"time"
)

// c03CLI ties the decoder options of the command line to the decoder: `gedcom diff` reads both
// files with -allow-multi-line / -allow-invalid-indents (cmd/gedcom/diff.go), so for a file whose
// outcome depends on exactly one of the two options the command's outcome class must be the
// class the library gives for the same option pair (and hence the model's, which the decode
// correspondence ties). Each run is a child process of the real binary built from the tree.
func c03CLI(c *Ctx) {
	dir, err := ioutil.TempDir("", "c03cli-")
	if err != nil {
		c.Notes = append(c.Notes, "c03cli: no temp dir: "+err.Error())
		return
	}
	defer os.RemoveAll(dir)
	bin, err := c14BuildBinary(dir)
	if err != nil {
		c.Oracle("", "cmd/gedcom does not build", map[string]string{"error": err.Error()}, "build error", "a binary")
		return
	}
	ok := "0 HEAD\n0 @I1@ INDI\n1 NAME A /B/\n0 TRLR\n"
	files := []struct{ name, text string }{
		{"plain", ok},
		{"over-indented", "0 HEAD\n0 @I1@ INDI\n2 NAME A /B/\n0 TRLR\n"},
		{"continuation", "0 HEAD\n0 @I1@ INDI\n1 NOTE first\nsecond line of the note\n0 TRLR\n"},
		{"both", "0 HEAD\n0 @I1@ INDI\n1 NOTE first\nsecond line\n3 CONT deep\n0 TRLR\n"},
		{"first-line-indented", "1 NAME x\n0 TRLR\n"},
		{"role-before-family", "0 HEAD\n0 HUSB @I1@\n0 TRLR\n"},
		{"garbage-first", "garbage\n0 HEAD\n"},
	}
	okPath := filepath.Join(dir, "ok.ged")
	ioutil.WriteFile(okPath, []byte(ok), 0o644)
	hangs := 0 // a run that does not end costs a minute: three are enough to report
	for i, f := range files {
		path := filepath.Join(dir, fmt.Sprintf("f%d.ged", i))
		ioutil.WriteFile(path, []byte(f.text), 0o644)
		for _, o := range [][2]bool{{false, false}, {true, false}, {false, true}, {true, true}} {
			want, _ := decObserve(f.text, o[0], o[1])
			wantClass := strings.Fields(want)[0]
			if wantClass == "panic" {
				wantClass = want // "panic indentTooLarge"
			}
			for side := 0; side < 3 && hangs < 3; side++ {
				args := []string{"diff", "-left-gedcom", path, "-right-gedcom", okPath}
				if side == 1 {
					args = []string{"diff", "-left-gedcom", okPath, "-right-gedcom", path}
				}
				if side == 2 {
					// the same file on both sides: both loads fail (or both succeed)
					args = []string{"diff", "-left-gedcom", path, "-right-gedcom", path}
				}
				args = append(args, "-output", filepath.Join(dir, "out.html"))
				if o[0] {
					args = append(args, "-allow-multi-line")
				}
				if o[1] {
					args = append(args, "-allow-invalid-indents")
				}
				ctx, cancel := context.WithTimeout(context.Background(), 60*time.Second)
				cmd := exec.CommandContext(ctx, bin, args...)
				var out bytes.Buffer
				cmd.Stdout, cmd.Stderr = &out, &out
				runErr := cmd.Run()
				timedOut := ctx.Err() == context.DeadlineExceeded
				cancel()
				got := "ok"
				text := out.String()
				switch {
				case timedOut:
					got = "hang"
					hangs++
				case strings.Contains(text, "indent is too large"):
					got = "panic indentTooLarge"
				case strings.Contains(text, "panic:") || strings.Contains(text, "fatal error:"):
					got = "panic other"
				case runErr != nil:
					got = "err"
				}
				c.Eval()
				c.Count("cli:" + got)
				c.Nontrivial(fmt.Sprintf("cli/%s/%v/%d/%s", f.name, o, side, got))
				if got != wantClass {
					last := text
					if len(last) > 300 {
						last = last[len(last)-300:]
					}
					c.Oracle("", "gedcom diff does not treat the file as the decoder does under the same -allow-multi-line / -allow-invalid-indents",
						map[string]interface{}{"file": f.text, "argv": strings.Join(args[1:], " ")},
						got+" ("+strings.TrimSpace(last)+")", wantClass)
				}
			}
		}
	}
}
