package main

// C18 program tie, second table: the components whose children are core-built rows, whole pages,
// and the components that need a places map (obtained through Publisher.Places()).

import (
	"fmt"
	"sort"
	"strings"
	"time"

	"github.com/elliotchance/gedcom/v39"
	ghtml "github.com/elliotchance/gedcom/v39/html"
	"github.com/elliotchance/gedcom/v39/html/core"
)

// html.prettyPlaceName is not exported
func c18PrettyPlaceName(s string) string {
	s = strings.Replace(s, ",,", ",", -1)
	s = strings.Replace(s, ",,", ",", -1)
	s = strings.Replace(s, ",", ", ", -1)
	s = strings.Trim(s, ", ")
	return strings.TrimSpace(s)
}

func c18Keyed(title string, visible bool, value string) string {
	v := "0"
	if visible {
		v = "1"
	}
	return "keyed " + hexs(title) + " " + v + " " + value
}

func (g *c18ProgGen) envEventStatistics(doc *gedcom.Document) *c18Env {
	e := c18NewEnv()
	counts := map[string]int{}
	total := 0
	for _, ind := range doc.Individuals() {
		for _, ev := range ind.AllEvents() {
			counts[ev.Tag().String()]++
			total++
		}
	}
	var keys []string
	for k := range counts {
		keys = append(keys, k)
	}
	sort.Strings(keys)
	e.I["total := 0"] = total
	l := []string{}
	for _, k := range keys {
		ie := c18NewEnv()
		ie.S["name := element of keys"] = k
		ie.I["counts[name]"] = counts[k]
		l = append(l, g.item("EventStatistics_item0", ie, c18Keyed(k, true, fmt.Sprintf("number %d", counts[k]))))
	}
	e.L["range keys: "] = l
	return e
}

// item: an element of a list hole — the nested item program when the translator made one, else the
// element in the wire format of the core components
func (g *c18ProgGen) item(name string, env *c18Env, coreWire string) string {
	if c18ProgByName(name) != nil {
		return g.nest(name, env)
	}
	return coreWire
}

func (g *c18ProgGen) envAdditionalNames(ind *gedcom.IndividualNode) *c18Env {
	e := c18NewEnv()
	names := ind.Names()
	if len(names) > 0 {
		names = names[1:]
	}
	e.I["len(names)"] = len(names)
	l := []string{}
	for _, n := range names {
		ie := c18NewEnv()
		ie.S["name.Type().String()"] = n.Type().String()
		ie.S["name.String()"] = n.String()
		l = append(l, g.item("IndividualAdditionalNames_item0", ie, c18Keyed(n.Type().String(), true, "text "+hexs(n.String()))))
	}
	e.L["range names: "] = l
	return e
}

func (g *c18ProgGen) envIndividualEvent(date, place string, descWire string, ind *gedcom.IndividualNode, ev gedcom.Node) *c18Env {
	e := c18NewEnv()
	e.S["kind := c.event.Tag().String()"] = ev.Tag().String()
	e.S["c.date"] = date
	e.K["age := NewAge(c.individual.AgeAt(c.event))"] = g.nest("Age", g.envAge(ind.AgeAt(ev)))
	e.K["placeLink := NewPlaceLink(c.individual.Document(), placeName, c.placesMap)"] =
		g.nest("PlaceLink", g.envPlaceLink(c18PrettyPlaceName(place)))
	e.K["c.description"] = descWire
	return e
}

func (g *c18ProgGen) envIndividualInList(doc *gedcom.Document, ind *gedcom.IndividualNode, vis ghtml.LivingVisibility) *c18Env {
	e := c18NewEnv()
	bd, bp := ind.Birth()
	dd, dp := ind.Death()
	e.S["gedcom.String(birthDate)"] = gedcom.String(bd)
	e.S["gedcom.String(deathDate)"] = gedcom.String(dd)
	e.K["birthPlaceLink := NewPlaceLink(c.document, birthPlaceName, c.placesMap)"] =
		g.nest("PlaceLink", g.envPlaceLink(c18PrettyPlaceName(gedcom.String(bp))))
	e.K["deathPlaceLink := NewPlaceLink(c.document, deathPlaceName, c.placesMap)"] =
		g.nest("PlaceLink", g.envPlaceLink(c18PrettyPlaceName(gedcom.String(dp))))
	e.K["link := NewIndividualLink(c.document, c.individual, c.visibility, c.placesMap)"] =
		g.kidOr("IndividualLink", func() *c18Env { return g.envIndividualLink(doc, ind, vis) }, ghtml.NewIndividualLink(doc, ind, vis, nil))
	return e
}

// kidOr: the nested program of a child when it is translated and its assignment is known, else the
// bytes of the real child
func (g *c18ProgGen) kidOr(name string, env func() *c18Env, real core.Component) string {
	if c18ProgByName(name) != nil && c18ProgEnvKnown[name] {
		if e := env(); e != nil {
			return g.nest(name, e)
		}
	}
	return c18Real(real)
}

// the untranslated-at-first components that later steps give an assignment
var c18ProgEnvKnown = map[string]bool{}

// rawID: the call id of the raw hole of a program whose description starts with prefix
func c18RawID(prog, prefix string) (uint64, bool) {
	if p := c18ProgByName(prog); p != nil {
		for _, r := range p.Raws {
			if strings.HasPrefix(r.Desc, prefix) {
				return r.ID, true
			}
		}
	}
	return 0, false
}

func (g *c18ProgGen) setRaw(e *c18Env, prog, prefix, v string) {
	if id, ok := c18RawID(prog, prefix); ok {
		e.R[id] = v
	}
}

func (g *c18ProgGen) visBools(e *c18Env, vis ghtml.LivingVisibility) {
	e.B["c.visibility == LivingVisibilityShow"] = vis == ghtml.LivingVisibilityShow
	e.B["c.visibility == LivingVisibilityHide"] = vis == ghtml.LivingVisibilityHide
	e.B["c.visibility == LivingVisibilityPlaceholder"] = vis == ghtml.LivingVisibilityPlaceholder
}

func (g *c18ProgGen) envIndividualLink(doc *gedcom.Document, ind *gedcom.IndividualNode, vis ghtml.LivingVisibility) *c18Env {
	e := c18NewEnv()
	e.B["c.individual.IsLiving()"] = ind.IsLiving()
	g.visBools(e, vis)
	color := "black"
	if ind != nil {
		switch sex := ind.Sex(); {
		case sex.IsMale():
			color = ghtml.IndividualMaleColor
		case sex.IsFemale():
			color = ghtml.IndividualFemaleColor
		}
	}
	e.S[`dotStyle := fmt.Sprintf("color: %s; font-size: 18px", dotColor)`] = "color: " + color + "; font-size: 18px"
	e.S["link := PageIndividual(c.document, c.individual, c.visibility, c.placesMap)"] = g.pIndividual(doc, ind, vis)
	e.K["individualName := NewIndividualName(c.individual, c.visibility, UnknownEmphasis)"] =
		g.nest("IndividualName", g.envIndividualName(ind, vis, ghtml.UnknownEmphasis))
	return e
}

func (g *c18ProgGen) envNameAndSex(ind *gedcom.IndividualNode) *c18Env {
	e := c18NewEnv()
	n := ind.Name()
	row := func(key, title, value string) {
		e.K[key] = c18Keyed(title, value != "", "text "+hexs(value))
	}
	row(`titleRow := keyedRow("Title", title)`, "Title", n.Title())
	row(`prefixRow := keyedRow("Prefix", prefix)`, "Prefix", n.Prefix())
	row(`givenNameRow := keyedRow("Given Name", name)`, "Given Name", n.GivenName())
	row(`surnamePrefixRow := keyedRow("Surname Prefix", surnamePrefix)`, "Surname Prefix", n.SurnamePrefix())
	row(`surnameRow := keyedRow("Surname", surname)`, "Surname", n.Surname())
	row(`suffixRow := keyedRow("Suffix", suffix)`, "Suffix", n.Suffix())
	e.K["sexBadge := NewSexBadge(c.individual.Sex())"] = g.nest("SexBadge", g.envSexBadge(ind.Sex()))
	return e
}

func (g *c18ProgGen) envIndividualStatistics(doc *gedcom.Document, vis ghtml.LivingVisibility) *c18Env {
	e := c18NewEnv()
	total, living := 0, 0
	for _, ind := range doc.Individuals() {
		total++
		if ind.IsLiving() {
			living++
		}
	}
	t, l, d := total, living, total-living
	if vis == ghtml.LivingVisibilityHide {
		t, l = total-living, 0
	}
	e.K[`totalRow := keyedNumberRow("Total", total)`] = c18Keyed("Total", true, fmt.Sprintf("number %d", t))
	e.K[`livingRow := keyedNumberRow("Living", living)`] = c18Keyed("Living", true, fmt.Sprintf("number %d", l))
	e.K[`deadRow := keyedNumberRow("Dead", total-living)`] = c18Keyed("Dead", true, fmt.Sprintf("number %d", d))
	return e
}

func (g *c18ProgGen) envPlaceStatistics(nPlaces int) *c18Env {
	e := c18NewEnv()
	e.I["len(c.placesMap)"] = nPlaces
	return e
}

func c18SurnameStartsWith(ind *gedcom.IndividualNode, letter rune) bool {
	// html.surnameStartsWith is not exported
	name := ind.Name().Format(gedcom.NameFormatIndex)
	if name == "" {
		name = "#"
	}
	return rune(strings.ToLower(name)[0]) == letter
}

func (g *c18ProgGen) envSurnameIndex(doc *gedcom.Document, letter rune, vis ghtml.LivingVisibility) *c18Env {
	e := c18NewEnv()
	set := gedcom.NewStringSet()
	for _, ind := range doc.Individuals() {
		if ind.IsLiving() && vis != ghtml.LivingVisibilityShow {
			continue
		}
		if c18SurnameStartsWith(ind, letter) {
			set.Add(ind.Name().Surname())
		}
	}
	l := []string{}
	for _, s := range set.Strings() {
		ie := c18NewEnv()
		ie.S["surname := element of surnames.Strings()"] = s
		l = append(l, g.item("SurnameIndex_item0", ie, "navlink "+hexs(s)+" "+hexs("#"+s)+" 0"))
	}
	e.L["range surnames.Strings(): "] = l
	return e
}

func c18ProgDrivers2() []c18ProgDriver {
	pickInd := func(g *c18ProgGen) (*gedcom.Document, *gedcom.IndividualNode) {
		for k := 0; k < 20; k++ {
			doc := g.doc()
			if is := doc.Individuals(); len(is) > 0 {
				return doc, is[g.r.Intn(len(is))]
			}
		}
		doc, _ := gedcom.NewDocumentFromString("0 @I1@ INDI\n1 NAME A /B/\n1 BIRT\n2 DATE 1 JAN 1800\n")
		return doc, doc.Individuals()[0]
	}
	return []c18ProgDriver{
		{"EventStatistics", func(g *c18ProgGen) (core.Component, *c18Env, string) {
			doc := g.doc()
			e := g.envEventStatistics(doc)
			return ghtml.NewEventStatistics(doc), e, c18Bucket(len(e.L["range keys: "]))
		}},
		{"IndividualAdditionalNames", func(g *c18ProgGen) (core.Component, *c18Env, string) {
			_, ind := pickInd(g)
			e := g.envAdditionalNames(ind)
			return ghtml.NewIndividualAdditionalNames(ind), e, c18Bucket(e.I["len(names)"])
		}},
		{"IndividualEvent", func(g *c18ProgGen) (core.Component, *c18Env, string) {
			doc, ind := pickInd(g)
			evs := ind.AllEvents()
			var ev gedcom.Node = gedcom.NewNode(gedcom.TagBirth, "", "")
			if len(evs) > 0 {
				ev = evs[g.r.Intn(len(evs))]
			}
			date, place := g.data(), g.r.Pick([]string{"", "Town,,Shire, Land", g.data()})
			var desc core.Component = core.NewEmpty()
			descWire := "empty"
			if g.r.Bool() {
				desc = ghtml.NewIndividualLink(doc, ind, ghtml.LivingVisibilityShow, nil)
				descWire = c18Real(desc)
			}
			return ghtml.NewIndividualEvent(date, place, desc, ind, ev, nil), g.envIndividualEvent(date, place, descWire, ind, ev),
				fmt.Sprint(len(evs) > 0, place == "", descWire == "empty")
		}},
		{"IndividualInList", func(g *c18ProgGen) (core.Component, *c18Env, string) {
			doc, ind := pickInd(g)
			vis := g.vis()
			e := g.envIndividualInList(doc, ind, vis)
			return ghtml.NewIndividualInList(doc, ind, vis, nil), e, fmt.Sprint(e.S["gedcom.String(birthDate)"] == "", e.S["gedcom.String(deathDate)"] == "", vis)
		}},
		{"IndividualNameAndSex", func(g *c18ProgGen) (core.Component, *c18Env, string) {
			_, ind := pickInd(g)
			return ghtml.NewIndividualNameAndSex(ind), g.envNameAndSex(ind), fmt.Sprint(ind.Name() == nil, ind.Sex().String())
		}},
		{"IndividualStatistics", func(g *c18ProgGen) (core.Component, *c18Env, string) {
			doc := g.doc()
			vis := g.vis()
			return ghtml.NewIndividualStatistics(doc, vis), g.envIndividualStatistics(doc, vis), fmt.Sprint(vis, c18Bucket(len(doc.Individuals())))
		}},
		{"SurnameIndex", func(g *c18ProgGen) (core.Component, *c18Env, string) {
			doc := g.doc()
			vis := g.vis()
			letter := []rune("#abosz")[g.r.Intn(6)]
			if is := doc.Individuals(); len(is) > 0 && g.r.Bool() {
				n := strings.ToLower(is[0].Name().Format(gedcom.NameFormatIndex))
				if n != "" {
					letter = rune(n[0])
				}
			}
			e := g.envSurnameIndex(doc, letter, vis)
			return ghtml.NewSurnameIndex(doc, letter, vis), e, fmt.Sprint(vis, c18Bucket(len(e.L["range surnames.Strings(): "])))
		}},
		{"StatisticsPage", func(g *c18ProgGen) (core.Component, *c18Env, string) {
			doc := g.doc()
			o := g.options()
			ls := g.letters(doc, o.LivingVisibility)
			ga := g.ga()
			places := ghtml.NewPublisher(doc, o).Places()
			if g.r.Chance(1, 3) {
				places = nil
			}
			g.nPlaces = len(places)
			defer func() { g.nPlaces = 0 }()
			e := c18NewEnv()
			e.GA = ga
			e.K[`NewPublishHeader(c.document, "", selectedStatisticsTab, c.options, c.indexLetters, c.placesMap)`] =
				g.nest("PublishHeader", g.envPublishHeader(doc, "", "statistics", o, ls))
			e.K["NewIndividualStatistics(c.document, c.options.LivingVisibility)"] =
				g.nest("IndividualStatistics", g.envIndividualStatistics(doc, o.LivingVisibility))
			e.K["NewFamilyStatistics(c.document)"] = g.nest("FamilyStatistics", g.envFamilyStatistics(doc))
			e.K["NewSourceStatistics(c.document)"] = g.nest("SourceStatistics", g.envSourceStatistics(doc))
			e.K["newPlaceStatistics(c.document, c.placesMap)"] = g.nest("PlaceStatistics", g.envPlaceStatistics(len(places)))
			e.K["NewEventStatistics(c.document)"] = g.nest("EventStatistics", g.envEventStatistics(doc))
			return ghtml.NewStatisticsPage(doc, ga, o, ls, places), e, fmt.Sprint(c18Bucket(len(places)), ga == "", c18Bucket(len(doc.Individuals())))
		}},
		{"IndividualPage", func(g *c18ProgGen) (core.Component, *c18Env, string) {
			doc, ind := pickInd(g)
			o := g.options()
			vis := o.LivingVisibility
			ls := g.letters(doc, vis)
			ga := g.ga()
			e := c18NewEnv()
			e.GA = ga
			title := ind.Name().String()
			e.S["name.String()"] = title
			e.K["NewPublishHeader(c.document, name.String(), selectedExtraTab, c.options, c.indexLetters, c.placesMap)"] =
				g.nest("PublishHeader", g.envPublishHeader(doc, title, "extra", o, ls))
			e.K["NewAllParentButtons(c.document, c.individual, c.options.LivingVisibility, c.placesMap)"] =
				g.nest("AllParentButtons", g.envAllParentButtons(doc, ind, vis))
			e.K["individualName := NewIndividualName(c.individual, c.options.LivingVisibility, UnknownEmphasis)"] =
				g.kidOr("IndividualName", func() *c18Env { return g.envIndividualName(ind, vis, ghtml.UnknownEmphasis) }, ghtml.NewIndividualName(ind, vis, ghtml.UnknownEmphasis))
			e.K["individualDates := NewIndividualDates(c.individual, c.options.LivingVisibility)"] =
				g.nest("IndividualDates", g.envIndividualDates(ind, vis))
			e.K["NewIndividualNameAndSex(c.individual)"] = g.nest("IndividualNameAndSex", g.envNameAndSex(ind))
			e.K["NewIndividualAdditionalNames(c.individual)"] = g.nest("IndividualAdditionalNames", g.envAdditionalNames(ind))
			e.K["NewIndividualEvents(c.document, c.individual, c.options.LivingVisibility, c.placesMap)"] =
				c18Real(ghtml.NewIndividualEvents(doc, ind, vis, nil))
			e.K["NewPartnersAndChildren(c.document, c.individual, c.options.LivingVisibility, c.placesMap)"] =
				c18Real(ghtml.NewPartnersAndChildren(doc, ind, vis, nil))
			return ghtml.NewIndividualPage(doc, ind, ga, o, ls, nil), e, fmt.Sprint(vis, ga == "", title == "", ind.IsLiving())
		}},
	}
}

func (g *c18ProgGen) envIndividualName(ind *gedcom.IndividualNode, vis ghtml.LivingVisibility, unknown string) *c18Env {
	e := c18NewEnv()
	e.B["c.individual == nil"] = ind == nil
	e.B["isLiving := c.individual.IsLiving()"] = ind != nil && ind.IsLiving()
	g.visBools(e, vis)
	e.B["len(names) == 0"] = ind != nil && len(ind.Names()) == 0
	e.S["names[0].String()"] = ""
	if ind != nil && len(ind.Names()) > 0 {
		e.S["names[0].String()"] = ind.Names()[0].String()
	}
	g.setRaw(e, "IndividualName", "html.writeString(c.unknownHTML)", unknown)
	return e
}

func c18AgeString(a gedcom.Age) string {
	// the unexported method Age.string of package html
	if !a.IsKnown || a.Constraint == gedcom.AgeConstraintAfterDeath {
		return ""
	}
	return a.String()
}

func (g *c18ProgGen) envAge(start, end gedcom.Age) *c18Env {
	e := c18NewEnv()
	s, n := c18AgeString(start), c18AgeString(end)
	e.B[`start == "" && end == ""`] = s == "" && n == ""
	e.B[`end == ""`] = n == ""
	e.B["start == end"] = s == n
	e.B[`start == ""`] = s == ""
	e.B["start != end"] = s != n
	e.B["c.end.Age-c.start.Age < time.Duration(yearAndABit)"] = end.Age-start.Age < time.Duration(float64(gedcom.Year)*1.05)
	g.setRaw(e, "Age", "html.writeSprintf(start", s)
	g.setRaw(e, "Age", "html.writeString(start", s)
	g.setRaw(e, "Age", "html.writeSprintf(end", n)
	return e
}

func (g *c18ProgGen) envIndividualButton(doc *gedcom.Document, ind *gedcom.IndividualNode, vis ghtml.LivingVisibility) *c18Env {
	e := c18NewEnv()
	cls := "info"
	if ind != nil {
		switch sex := ind.Sex(); {
		case sex.IsMale():
			cls = "primary"
		case sex.IsFemale():
			cls = "danger"
		}
	}
	e.S[`fmt.Sprintf("btn btn-outline-%s btn-block", colorClassForIndividual(c.individual))`] = "btn btn-outline-" + cls + " btn-block"
	onclick := ""
	if ind != nil {
		onclick = "location.href='" + g.pIndividual(doc, ind, vis) + "'"
	}
	e.S[`onclick := "" [reassigned before this use: 1]`] = onclick
	e.S[`onclick := ""`] = ""
	e.B["c.individual.IsLiving()"] = ind.IsLiving()
	e.B["isLiving := c.individual != nil && c.individual.IsLiving()"] = ind != nil && ind.IsLiving()
	g.visBools(e, vis)
	e.K["name := NewIndividualName(c.individual, c.visibility, UnknownEmphasis)"] =
		g.nest("IndividualName", g.envIndividualName(ind, vis, ghtml.UnknownEmphasis))
	e.K["eventDates := NewIndividualDates(c.individual, c.visibility)"] = g.nest("IndividualDates", g.envIndividualDates(ind, vis))
	return e
}

func c18IndividualForNode(doc *gedcom.Document, node gedcom.Node) *gedcom.IndividualNode {
	// html.individualForNode is not exported
	for _, ind := range doc.Individuals() {
		if gedcom.Node(ind) == node || gedcom.HasNestedNode(ind, node) {
			return ind
		}
	}
	return nil
}

func (g *c18ProgGen) envPlaceEvent(doc *gedcom.Document, node gedcom.Node, vis ghtml.LivingVisibility) *c18Env {
	e := c18NewEnv()
	date := ""
	if d := gedcom.Dates(node).Minimum(); d != nil {
		date = d.Value()
	}
	e.S[`date := ""`] = date
	e.S["description := c.node.Tag().String()"] = node.Tag().String()
	ind := c18IndividualForNode(doc, node)
	e.B["isLiving := individual != nil && individual.IsLiving()"] = ind != nil && ind.IsLiving()
	g.visBools(e, vis)
	e.K["person := NewIndividualLink(c.document, individual, c.visibility, c.placesMap)"] =
		g.nest("IndividualLink", g.envIndividualLink(doc, ind, vis))
	return e
}

func c18ProgDrivers3() []c18ProgDriver {
	pickInd := func(g *c18ProgGen) (*gedcom.Document, *gedcom.IndividualNode) {
		doc := g.doc()
		is := doc.Individuals()
		if len(is) == 0 || g.r.Chance(1, 8) {
			return doc, nil
		}
		return doc, is[g.r.Intn(len(is))]
	}
	return []c18ProgDriver{
		{"IndividualName", func(g *c18ProgGen) (core.Component, *c18Env, string) {
			_, ind := pickInd(g)
			vis := g.vis()
			unk := g.r.Pick([]string{"", ghtml.UnknownEmphasis, "<i>?</i>"})
			return ghtml.NewIndividualName(ind, vis, unk), g.envIndividualName(ind, vis, unk),
				fmt.Sprint(ind == nil, ind != nil && ind.IsLiving(), vis, ind != nil && len(ind.Names()) == 0)
		}},
		{"IndividualLink", func(g *c18ProgGen) (core.Component, *c18Env, string) {
			doc, ind := pickInd(g)
			vis := g.vis()
			return ghtml.NewIndividualLink(doc, ind, vis, nil), g.envIndividualLink(doc, ind, vis), fmt.Sprint(ind == nil, ind.IsLiving(), vis)
		}},
		{"IndividualButton", func(g *c18ProgGen) (core.Component, *c18Env, string) {
			doc, ind := pickInd(g)
			vis := g.vis()
			return ghtml.NewIndividualButton(doc, ind, vis, nil), g.envIndividualButton(doc, ind, vis), fmt.Sprint(ind == nil, ind.IsLiving(), vis)
		}},
		{"Age", func(g *c18ProgGen) (core.Component, *c18Env, string) {
			mk := func() gedcom.Age {
				a := gedcom.Age{Age: time.Duration(g.r.Intn(90*365*24)) * time.Hour, IsKnown: g.r.Chance(4, 5), IsEstimate: g.r.Bool(),
					Constraint: gedcom.AgeConstraint(g.r.Intn(4))}
				return a
			}
			start := mk()
			end := start
			switch g.r.Intn(4) {
			case 0:
				end = mk()
			case 1:
				end.Age += time.Duration(g.r.Intn(500*24)) * time.Hour
			case 2:
				end.Age += time.Duration(g.r.Intn(5000*24)) * time.Hour
			}
			e := g.envAge(start, end)
			return ghtml.NewAge(start, end), e, fmt.Sprint(c18AgeString(start) == "", c18AgeString(end) == "", c18AgeString(start) == c18AgeString(end),
				e.B["c.end.Age-c.start.Age < time.Duration(yearAndABit)"])
		}},
		{"PlaceEvent", func(g *c18ProgGen) (core.Component, *c18Env, string) {
			doc, ind := pickInd(g)
			vis := g.vis()
			var node gedcom.Node = gedcom.NewNode(gedcom.TagBirth, "", "")
			if ind != nil {
				if evs := ind.AllEvents(); len(evs) > 0 {
					node = evs[g.r.Intn(len(evs))]
				}
			}
			e := g.envPlaceEvent(doc, node, vis)
			return ghtml.NewPlaceEvent(doc, node, vis, nil), e, fmt.Sprint(ind == nil, e.B["isLiving := individual != nil && individual.IsLiving()"], vis, e.S[`date := ""`] == "")
		}},
	}
}
