package main

import (
	"encoding/hex"
	"fmt"
	"strconv"
	"strings"
	"time"

	"github.com/elliotchance/gedcom/v39"
)

// C04 — every documented date form parses to its documented meaning.
//
// Oracle (S): sentences are generated from the grammar documented on gedcom.Date together with the
// meaning they are documented to have; the implementation must return exactly that meaning for
// both ends, must report near misses as invalid, must print the canonical spelling and must parse
// that spelling back to the same two dates.  Nothing in the oracle goes through the Lean model.
//
// Correspondence (T): every generated string (grammar sentences, near misses, byte mutations,
// adversarial shapes) is sent to the Lean driver as `date-parse <hex>`; pairs as `date-equals`.

// ---- the documented grammar (independent of the implementation's tables) ----

type c04Keyword struct {
	word string
	c    gedcom.DateConstraint
}

// documented on gedcom.Date ("prefix") plus the spellings of the exported DateWords* constants
var c04DocKeywords = []c04Keyword{
	{"", gedcom.DateConstraintExact},
	{"abt", gedcom.DateConstraintAbout}, {"abt.", gedcom.DateConstraintAbout}, {"about", gedcom.DateConstraintAbout},
	{"c.", gedcom.DateConstraintAbout}, {"ca", gedcom.DateConstraintAbout}, {"ca.", gedcom.DateConstraintAbout},
	{"cca", gedcom.DateConstraintAbout}, {"cca.", gedcom.DateConstraintAbout}, {"circa", gedcom.DateConstraintAbout},
	{"aft", gedcom.DateConstraintAfter}, {"aft.", gedcom.DateConstraintAfter}, {"after", gedcom.DateConstraintAfter},
	{"bef", gedcom.DateConstraintBefore}, {"bef.", gedcom.DateConstraintBefore}, {"before", gedcom.DateConstraintBefore},
}

var c04DocMonths = []struct {
	word string
	m    int
}{
	{"apr", 4}, {"april", 4}, {"aug", 8}, {"august", 8}, {"dec", 12}, {"december", 12}, {"feb", 2}, {"february", 2},
	{"jan", 1}, {"january", 1}, {"jul", 7}, {"july", 7}, {"jun", 6}, {"june", 6}, {"mar", 3}, {"march", 3}, {"may", 5},
	{"nov", 11}, {"november", 11}, {"oct", 10}, {"october", 10}, {"sep", 9}, {"september", 9},
}

var c04DocBetween = []string{"between", "bet", "bet.", "from"}
var c04DocAnd = []string{"and", "to", "-"}
var c04CanonMonth = []string{"", "Jan", "Feb", "Mar", "Apr", "May", "Jun", "Jul", "Aug", "Sep", "Oct", "Nov", "Dec"}
var c04CanonKeyword = map[gedcom.DateConstraint]string{
	gedcom.DateConstraintExact: "", gedcom.DateConstraintAbout: "Abt.",
	gedcom.DateConstraintAfter: "Aft.", gedcom.DateConstraintBefore: "Bef.",
}

// c04Meaning is what a sentence is documented to mean (one end).
type c04Meaning struct {
	d, m, y int
	c       gedcom.DateConstraint
}

func (x c04Meaning) String() string { return fmt.Sprintf("%d/%d/%d/%d", x.d, x.m, x.y, int(x.c)) }
func (x c04Meaning) date() gedcom.Date {
	return gedcom.Date{Day: x.d, Month: time.Month(x.m), Year: x.y, Constraint: x.c}
}
func (x c04Meaning) canon() string {
	var parts []string
	if k := c04CanonKeyword[x.c]; k != "" {
		parts = append(parts, k)
	}
	if x.d != 0 {
		parts = append(parts, strconv.Itoa(x.d))
	}
	if x.m != 0 {
		parts = append(parts, c04CanonMonth[x.m])
	}
	parts = append(parts, strconv.Itoa(x.y))
	return strings.Join(parts, " ")
}

func c04MeaningOf(d gedcom.Date) c04Meaning {
	return c04Meaning{d.Day, int(d.Month), d.Year, d.Constraint}
}

// ---- spelling ----

const (
	c04Lower = iota
	c04Upper
	c04Title
	c04Random
)

func c04Case(r *Rand, mode int, w string) string {
	switch mode {
	case c04Lower:
		return strings.ToLower(w)
	case c04Upper:
		return strings.ToUpper(w)
	case c04Title:
		if w == "" {
			return w
		}
		return strings.ToUpper(w[:1]) + strings.ToLower(w[1:])
	}
	b := []byte(strings.ToLower(w))
	for i := range b {
		if r.Bool() && b[i] >= 'a' && b[i] <= 'z' {
			b[i] -= 32
		}
	}
	return string(b)
}

var c04BoundaryYears = []int{1, 4, 9, 10, 99, 100, 400, 999, 1000, 1582, 1899, 1900, 1904, 1999, 2000, 2001, 2100, 9999}

func c04Year(r *Rand) int {
	if r.Chance(1, 2) {
		return c04BoundaryYears[r.Intn(len(c04BoundaryYears))]
	}
	return 1 + r.Intn(9999)
}

func c04Day(r *Rand, m, y int) int {
	n := daysIn(m, y)
	if r.Chance(1, 2) {
		return []int{1, 9, 10, n - 1, n}[r.Intn(5)]
	}
	return 1 + r.Intn(n)
}

// c04Single is one "date" of the grammar: tokens as written plus the documented meaning.
type c04Single struct {
	tokens  []string
	meaning c04Meaning
	shape   string
}

// shape: 0 = year, 1 = month year, 2 = day month year, 3 = 0day month year (one leading zero),
// 4..6 = the same as 0..2 with the year zero-padded to four digits
const c04Shapes = 7

func c04MakeSingle(r *Rand, kw c04Keyword, kwCase, shape, monthIdx, monthCase int) c04Single {
	y := c04Year(r)
	var toks []string
	mean := c04Meaning{y: y, c: kw.c}
	if kw.word != "" {
		toks = append(toks, c04Case(r, kwCase, kw.word))
	}
	base := shape
	pad := false
	if shape >= 4 {
		base = shape - 4
		pad = true
	}
	name := []string{"y", "my", "dmy", "0dmy"}[base]
	if pad {
		name += "+0000"
	}
	if base >= 1 {
		mw := c04DocMonths[monthIdx]
		mean.m = mw.m
		if base >= 2 {
			d := c04Day(r, mw.m, y)
			if base == 3 && d >= 10 {
				d = 1 + r.Intn(9)
			}
			mean.d = d
			ds := strconv.Itoa(d)
			if base == 3 {
				ds = "0" + ds
			}
			toks = append(toks, ds)
		}
		toks = append(toks, c04Case(r, monthCase, mw.word))
	}
	ys := strconv.Itoa(y)
	if pad {
		ys = fmt.Sprintf("%04d", y)
	}
	toks = append(toks, ys)
	return c04Single{toks, mean, name}
}

// c04Join writes tokens with 1..4 spaces between them and 0..4 around; wide = also runs of 5..40
// (before the CleanSpace repair a run of five or more was left at two or three and the sentence
// became invalid).
func c04Join(r *Rand, toks []string, extra, wide bool) string {
	var b strings.Builder
	gap := func(min int) {
		n := min
		if extra && r.Chance(1, 3) {
			n = min + r.Intn(4-min+1)
		}
		if wide && r.Chance(1, 4) {
			n = 5 + r.Intn(36)
		}
		b.WriteString(strings.Repeat(" ", n))
	}
	if extra {
		gap(0)
	}
	for i, t := range toks {
		if i > 0 {
			gap(1)
		}
		b.WriteString(t)
	}
	if extra {
		gap(0)
	}
	return b.String()
}

// ---- observation ----

func c04Hex(s string) string {
	if s == "" {
		return "-"
	}
	return hex.EncodeToString([]byte(s))
}

func c04ShowDate(d gedcom.Date) string {
	return fmt.Sprintf("%d %d %d %d %s", d.Day, int(d.Month), d.Year, int(d.Constraint), bit(d.ParseError != nil))
}

type c04Obs struct {
	start, end gedcom.Date
	valid      bool
	str, node  string
	line       string
}

func c04Observe(s string) c04Obs {
	dr := gedcom.NewDateRangeWithString(s)
	o := c04Obs{start: dr.StartDate(), end: dr.EndDate(), valid: dr.IsValid(), str: dr.String(),
		node: gedcom.NewDateNode(s).String()}
	o.line = fmt.Sprintf("%s | %s | %s%s | %s | %s", c04ShowDate(o.start), c04ShowDate(o.end),
		bit(o.valid), bit(dr.IsPhrase()), c04Hex(o.str), c04Hex(o.node))
	return o
}

// c04Tie registers the correspondence case for one string and returns the observation.
func c04Tie(c *Ctx, s string) c04Obs {
	o := c04Observe(s)
	c.Tie("date-parse "+c04Hex(s), o.line)
	c.Eval()
	return o
}

func c04HasSpaceRun(s string) bool {
	return strings.Contains(strings.TrimSpace(s), "     ")
}

// c04CheckMeaning is the direct oracle for one grammar sentence.
func c04CheckMeaning(c *Ctx, s string, start, end c04Meaning, isRange bool, sig string) {
	o := c04Tie(c, s)
	c.Nontrivial(sig)
	c.Sample(map[string]string{"sentence": s, "start": start.String(), "end": end.String(), "observed": o.line})
	in := map[string]string{"sentence": s}
	key := ""
	if c04HasSpaceRun(s) {
		c.Count("space-run>=5")
	}
	want := fmt.Sprintf("start %s end %s valid", start, end)
	got := fmt.Sprintf("start %s end %s valid=%v", c04MeaningOf(o.start), c04MeaningOf(o.end), o.valid)
	if !o.valid || c04MeaningOf(o.start) != start || c04MeaningOf(o.end) != end ||
		o.start.ParseError != nil || o.end.ParseError != nil {
		c.Oracle(key, "a sentence of the documented grammar does not parse to the day, month, year and constraint that were written",
			in, got, want)
		return
	}
	// canonical spelling and print/parse round trip
	canon := start.canon()
	if start != end {
		canon = "Bet. " + start.canon() + " and " + end.canon()
	}
	sd, ed := start.date(), end.date()
	if isRange && !sd.Is(ed) && sd.Equals(ed) {
		// ends that are constraint-Equal but not the same date: the case DateRange.String got wrong
		// before 8fec828 (it printed the start only); counted so the evidence shows it is exercised
		c.Count("range-ends-constraint-equal")
	}
	if o.str != canon {
		c.Oracle("", "DateRange.String of a valid date is not the canonical spelling", in, o.str, canon)
	}
	if o.node != canon {
		c.Oracle("", "DateNode.String of a valid date is not the canonical spelling", in, o.node, canon)
	}
	for _, printed := range []string{o.str, o.node} {
		back := gedcom.NewDateRangeWithString(printed)
		bs, be := c04MeaningOf(back.StartDate()), c04MeaningOf(back.EndDate())
		if bs != start || be != end || !back.IsValid() {
			c.Oracle("", "parsing the printed spelling does not give back the same start and end dates",
				map[string]string{"sentence": s, "printed": printed},
				fmt.Sprintf("start %s end %s", bs, be), fmt.Sprintf("start %s end %s", start, end))
		}
	}
	c.Tie("date-parse "+c04Hex(o.str), c04Observe(o.str).line)
}

// c04CheckInvalid is the direct oracle for a near miss.
func c04CheckInvalid(c *Ctx, s, kind string) {
	o := c04Tie(c, s)
	c.Nontrivial("reject/" + kind)
	c.Count("near-miss=" + kind)
	if o.valid {
		c.Oracle("", "an undocumented or calendar-impossible form ("+kind+") is accepted as a date",
			map[string]string{"sentence": s},
			fmt.Sprintf("valid: start %s end %s", c04MeaningOf(o.start), c04MeaningOf(o.end)), "IsValid() = false")
	}
}

// ---- near misses ----

var c04UnknownMonthWords = []string{"foo", "decmbr", "janu", "sept", "febr", "ma", "juni", "mai", "x", "month",
	"abt", "after", "and", "to", "1", "13", "q1", "_", "marchh", "augus", "y2k"}

func c04NearMiss(r *Rand, kw c04Keyword, kwCase int) (string, string) {
	y := c04Year(r)
	mw := c04DocMonths[r.Intn(len(c04DocMonths))]
	pre := ""
	if kw.word != "" {
		pre = c04Case(r, kwCase, kw.word) + " "
	}
	mon := c04Case(r, r.Intn(4), mw.word)
	switch r.Intn(9) {
	case 0:
		w := c04UnknownMonthWords[r.Intn(len(c04UnknownMonthWords))]
		if pre == "" && (w == "abt" || w == "after") {
			w = "foo" // without a keyword in front these *are* the keyword
		}
		w = c04Case(r, r.Intn(4), w)
		if r.Bool() {
			return fmt.Sprintf("%s%s %d", pre, w, y), "unknown-month"
		}
		return fmt.Sprintf("%s%d %s %d", pre, 1+r.Intn(28), w, y), "unknown-month-with-day"
	case 1:
		return fmt.Sprintf("%s%s %s %d", pre, []string{"0", "00"}[r.Intn(2)], mon, y), "day-0"
	case 2:
		return fmt.Sprintf("%s%d %s %d", pre, []int{32, 33, 40, 99, 100, 310}[r.Intn(6)], mon, y), "day>31"
	case 3:
		m := []int{2, 4, 6, 9, 11}[r.Intn(5)]
		return fmt.Sprintf("%s%d %s %d", pre, daysIn(m, y)+1+r.Intn(31-daysIn(m, y)), c04CanonMonth[m], y), "day-after-end-of-short-month"
	case 4:
		yy := []int{1, 1899, 1900, 1901, 2001, 2100, 2200, 1000, 999, 9999, 1582, 100}[r.Intn(12)]
		return fmt.Sprintf("%s29 %s %d", pre, c04Case(r, r.Intn(4), []string{"feb", "february"}[r.Intn(2)]), yy), "29-feb-non-leap"
	case 5:
		switch r.Intn(3) {
		case 0:
			return strings.TrimSpace(fmt.Sprintf("%s%s", pre, mon)), "missing-year"
		case 1:
			return strings.TrimSpace(fmt.Sprintf("%s%d %s", pre, 1+r.Intn(28), mon)), "missing-year"
		}
		return strings.TrimSpace(pre), "missing-year"
	case 6:
		tail := []string{"x", "AD", "BC", "or so", "?", "(approx)", "1", ".", ",", "and"}[r.Intn(10)]
		return fmt.Sprintf("%s%d %s %d %s", pre, 1+r.Intn(28), mon, y, tail), "trailing-text"
	case 7:
		return fmt.Sprintf("%s%d %d", pre, 1+r.Intn(28), y), "day-without-month"
	}
	return fmt.Sprintf("%s%s %d %d", pre, mon, 1+r.Intn(28), y), "month-before-day"
}

// ---- malformed stream ----

var c04Adversarial = []string{
	"", " ", "0", "00", "0000", "Mar 0", "29 Feb 0", "1 Jan 0", "00 Mar 1900", "001 Mar 1900", "0001 Mar 01900",
	"99999999999999999999", "9223372036854775807", "9223372036854775808", "5 Mar 99999", "Mar 99999", "Mar 10000",
	"5 Mar 10000", "99999999999999999999 Mar 1900", "1 MarK 2000", "Auguſt 1900", "1 ſ 2000", "K 1900",
	" 1900 ", "1900 ", "\u0085 5 May 1900", " 1900", "1900　", "  1900", " 1900 ",
	"\t1900\n", "1900\r\n", "\v\f1900", "19\n00", "bet 1900 and\n1901", "bet\n1900 and 1901", "bet 1900\tand 1901",
	"\xc2 1900", "1900 \xe2\x80", "\xa01900", "\xe2\x80\x80\x80 1900", "\xff", "abt\xff 1900",
	"ca.1900", "abt1900", "abt.1900", "c.1900", "c 1900", "c. 1900", "cc 1900", "ccc. 1900", "circa. 1900",
	"abt     1900", "abt      1900", "abt    1900", "1     2", "5     Mar 1900", "     1900     ",
	"bet 1851 and Aft. 1850", "Betx 1900 and 1901", "Bet, 1900 and 1901", "between 1 and 2 and 3", "bet 1 to 2 - 3",
	"bet 1 - 2 to 3", "bet  and ", "bet and 1900", "bet 1900 and", "bet 1900 and ", "bet   and   ", "bet x and y",
	"from to to to to", "from - - - -", "bet and and and and", "bet and and and", "bet 1900 AND 1901", "BET. 1900 - 1901",
	"bet.1900 and 1901", "between1900 and 1901", "bet 1900 and1901", "bet 1900and 1901", "bet 1900 -1901",
	"1900 and 1901", "1900 - 1901", "1900-1901", "to 1900", "from 1900", "and 1900", "- 1900", "bet 1900",
	"(foo)", "(", ")", "()", "(1900)", "(bet 1900 and 1901)", "( 1900", "1900 )", " (foo)", "(foo) ",
	"bet Bef. 1900 and Bef. 1950", "bet Aft. 1850 and 1900", "bet 1850 and Bef. 1900", "bet abt 1900 and 1900",
	"bet Aft. 1950 and Aft. 1900", "bet Bef. 1900 and 1850", "bet 1900 and Aft. 1850", "bet Mar 0 and Bef. 1900",
	"bet Bef. Mar 10000 and Bef. 10001", "bet Bef. 10000 and Bef. Mar 10001", "bet Bef. 0 and Bef. 1",
	"from 5 Mar 1900 to 7 Mar 1900", "from 31 Apr 1900 to 1901", "from 1900 to 31 Apr 1901",
	"Abt. Abt. 1900", "abt bef 1900", "bef abt 1900", "abt. abt 1900", "abt 5 5 1900", "5 5 5", "5 5", "Mar Mar 1900",
	"1_2 1900", "_ 1900", "5 _ 1900", "Mar_ 1900", "3 Sep 1943", "Bef. Oct 1943", "5 Sep 1943",
}

func c04Mutate(r *Rand, s string) string {
	b := []byte(s)
	pool := []byte(" .-()\n\t0159abtcfromndTOMAR\x00\xc2\xa0\xe2\x80\x84\xaa\xc5\xbf_")
	runes := []string{"\xc2\xa0", "\xc2\x85", "\xe2\x80\x83", "\xe2\x80\x8a", "\xe3\x80\x80", "\xe1\x9a\x80", "\xe2\x81\x9f",
		"\xe2\x80\xa8", "\xe2\x80\xaf", "\xe2\x84\xaa", "\xc5\xbf", "\xe2\x80\x8b", "\xef\xbf\xbd", "\xc3\xa9", "  ", "     "}
	n := 1 + r.Intn(2)
	for i := 0; i < n; i++ {
		switch r.Intn(6) {
		case 5: // insert a multi-byte rune (Unicode spaces, the two runes \w matches under (?i), others)
			p := r.Intn(len(b) + 1)
			if r.Chance(1, 2) {
				p = []int{0, len(b)}[r.Intn(2)]
			}
			b = append(b[:p], append([]byte(runes[r.Intn(len(runes))]), b[p:]...)...)
		case 0: // replace
			if len(b) > 0 {
				b[r.Intn(len(b))] = pool[r.Intn(len(pool))]
			}
		case 1: // insert
			p := r.Intn(len(b) + 1)
			b = append(b[:p], append([]byte{pool[r.Intn(len(pool))]}, b[p:]...)...)
		case 2: // delete
			if len(b) > 0 {
				p := r.Intn(len(b))
				b = append(b[:p], b[p+1:]...)
			}
		case 3: // duplicate a slice
			if len(b) > 1 {
				p := r.Intn(len(b))
				q := p + 1 + r.Intn(len(b)-p)
				b = append(b[:q], append(append([]byte{}, b[p:q]...), b[q:]...)...)
			}
		case 4: // flip case / random byte
			if len(b) > 0 {
				p := r.Intn(len(b))
				if r.Bool() {
					b[p] ^= 0x20
				} else {
					b[p] = byte(r.Intn(256))
				}
			}
		}
	}
	return string(b)
}

func c04Unhex(h string) (string, bool) {
	if h == "-" {
		return "", true
	}
	b, err := hex.DecodeString(h)
	return string(b), err == nil
}

func init() {
	// implementation-side answers for `./check C04 --replay`
	evaluators["date-parse"] = func(a []string) string {
		if len(a) != 1 {
			return "bad-op"
		}
		s, ok := c04Unhex(a[0])
		if !ok {
			return "bad-op"
		}
		return c04Observe(s).line
	}
	evaluators["date-equals"] = func(a []string) string {
		if len(a) != 2 {
			return "bad-op"
		}
		x, ok1 := c04Unhex(a[0])
		y, ok2 := c04Unhex(a[1])
		if !ok1 || !ok2 {
			return "bad-op"
		}
		dx, dy := gedcom.NewDateRangeWithString(x), gedcom.NewDateRangeWithString(y)
		return bit(dx.Equals(dy)) + bit(dy.Equals(dx))
	}
	runners["C04"] = func(c *Ctx) {
		c.Rule = "sentences of the grammar documented on gedcom.Date with their documented meaning: every keyword spelling (15 + none) x case pattern (lower/UPPER/Title/random) x shape (year, month year, day month year, 0day month year, each also with a zero-padded year) x month spelling (23) exhaustively, numeric fields sampled with all boundaries; ranges over 4 between-words x 3 and-words x case; near misses; byte mutations and adversarial strings (correspondence only); distinct = (keyword, case, shape[, between, and]) or near-miss kind"
		r := c.R
		rounds := c.N(8, 80)

		// 00. boundary and history audit: a fixed corpus that runs first (c04_audit.go)
		c04Audit(c)

		// 0. the witnesses pinned by the Lean counterexample theorems, replayed on the implementation
		c04CheckMeaning(c, "bet Aft. 1850 and 1900", c04Meaning{0, 0, 1850, gedcom.DateConstraintAfter},
			c04Meaning{0, 0, 1900, gedcom.DateConstraintExact}, true, "witness/canonical_old_rule_witness")
		c04CheckMeaning(c, "abt     1900", c04Meaning{0, 0, 1900, gedcom.DateConstraintAbout},
			c04Meaning{0, 0, 1900, gedcom.DateConstraintAbout}, false, "witness/space-run-5")
		c04CheckMeaning(c, "abt    1900", c04Meaning{0, 0, 1900, gedcom.DateConstraintAbout},
			c04Meaning{0, 0, 1900, gedcom.DateConstraintAbout}, false, "witness/spacing_ok")
		// every run length 1..40, at every gap of a single date and of a range
		for n := 1; n <= 40; n++ {
			sp := strings.Repeat(" ", n)
			c04CheckMeaning(c, "Bef."+sp+"3"+sp+"Sep"+sp+"1850", c04Meaning{3, 9, 1850, gedcom.DateConstraintBefore},
				c04Meaning{3, 9, 1850, gedcom.DateConstraintBefore}, false, fmt.Sprintf("space-run/single/%d", n))
			c04CheckMeaning(c, sp+"from"+sp+"Mar"+sp+"1850"+sp+"to"+sp+"abt"+sp+"1900"+sp,
				c04Meaning{0, 3, 1850, gedcom.DateConstraintExact}, c04Meaning{0, 0, 1900, gedcom.DateConstraintAbout},
				true, fmt.Sprintf("space-run/range/%d", n))
		}

		// 1. single dates: keyword x case x shape x month spelling (exhaustive), numerics sampled
		for round := 0; round < rounds; round++ {
			for _, kw := range c04DocKeywords {
				for kc := 0; kc < 4; kc++ {
					for shape := 0; shape < c04Shapes; shape++ {
						months := []int{0}
						if shape != 0 && shape != 4 {
							months = months[:0]
							for i := range c04DocMonths {
								months = append(months, i)
							}
						}
						for _, mi := range months {
							sg := c04MakeSingle(r, kw, kc, shape, mi, (kc+mi+round)%4)
							extra := round%3 == 1
							wide := round%3 == 2 && r.Chance(1, 4)
							s := c04Join(r, sg.tokens, extra || wide, wide)
							c.Count("single/" + sg.shape)
							c04CheckMeaning(c, s, sg.meaning, sg.meaning, false,
								fmt.Sprintf("single/%s/%d/%s", kw.word, kc, sg.shape))
						}
					}
				}
			}
		}

		// 2. ranges: between word x and word x case (exhaustive) x keyword of either end, shapes sampled
		for round := 0; round < rounds*4; round++ {
			for _, bw := range c04DocBetween {
				for _, aw := range c04DocAnd {
					for wc := 0; wc < 4; wc++ {
						for _, kw1 := range c04DocKeywords {
							kw2 := c04DocKeywords[0]
							if r.Chance(1, 3) {
								kw2 = c04DocKeywords[r.Intn(len(c04DocKeywords))]
							}
							k1 := kw1
							if r.Chance(1, 2) {
								k1, kw2 = kw2, kw1
							}
							a := c04MakeSingle(r, k1, r.Intn(4), r.Intn(c04Shapes), r.Intn(len(c04DocMonths)), r.Intn(4))
							b := c04MakeSingle(r, kw2, r.Intn(4), r.Intn(c04Shapes), r.Intn(len(c04DocMonths)), r.Intn(4))
							if r.Chance(1, 6) {
								// neighbouring or identical dates: the interesting cases for printing
								b = a
								if r.Bool() {
									b = c04MakeSingle(r, kw2, r.Intn(4), 0, 0, 0)
									b.meaning.y = a.meaning.y
									b.tokens[len(b.tokens)-1] = strconv.Itoa(a.meaning.y)
								}
							}
							toks := append([]string{c04Case(r, wc, bw)}, a.tokens...)
							toks = append(toks, c04Case(r, (wc+round)%4, aw))
							toks = append(toks, b.tokens...)
							s := c04Join(r, toks, round%3 == 1 || round%3 == 2, round%3 == 2 && r.Chance(1, 4))
							c.Count("range")
							c04CheckMeaning(c, s, a.meaning, b.meaning, true,
								fmt.Sprintf("range/%s/%s/%d/%s/%s", bw, aw, wc, k1.word, kw2.word))
						}
					}
				}
			}
		}

		// 3. near misses: must be invalid
		for round := 0; round < rounds*6; round++ {
			for _, kw := range c04DocKeywords {
				for kc := 0; kc < 4; kc++ {
					s, kind := c04NearMiss(r, kw, kc)
					c04CheckInvalid(c, s, kind)
					if r.Chance(1, 4) {
						// a near miss at one end of a range invalidates the range
						ok := c04MakeSingle(r, c04DocKeywords[0], 0, r.Intn(4), r.Intn(len(c04DocMonths)), r.Intn(4))
						good := strings.Join(ok.tokens, " ")
						bw, aw := c04DocBetween[r.Intn(4)], c04DocAnd[r.Intn(3)]
						if r.Bool() {
							c04CheckInvalid(c, bw+" "+s+" "+aw+" "+good, "range-start-"+kind)
						} else {
							c04CheckInvalid(c, bw+" "+good+" "+aw+" "+s, "range-end-"+kind)
						}
					}
				}
			}
		}

		// 4. adversarial strings and byte mutations: correspondence only
		var seeds []string
		for _, s := range c04Adversarial {
			c04Tie(c, s)
			c.Count("adversarial")
			seeds = append(seeds, s)
		}
		nmut := c.N(150000, 1500000)
		for i := 0; i < nmut; i++ {
			var base string
			switch r.Intn(4) {
			case 0:
				base = seeds[r.Intn(len(seeds))]
			case 1:
				sg := c04MakeSingle(r, c04DocKeywords[r.Intn(len(c04DocKeywords))], r.Intn(4), r.Intn(c04Shapes),
					r.Intn(len(c04DocMonths)), r.Intn(4))
				base = c04Join(r, sg.tokens, r.Bool(), r.Chance(1, 10))
			default:
				a := c04MakeSingle(r, c04DocKeywords[r.Intn(len(c04DocKeywords))], r.Intn(4), r.Intn(c04Shapes),
					r.Intn(len(c04DocMonths)), r.Intn(4))
				b := c04MakeSingle(r, c04DocKeywords[r.Intn(len(c04DocKeywords))], r.Intn(4), r.Intn(c04Shapes),
					r.Intn(len(c04DocMonths)), r.Intn(4))
				toks := append([]string{c04Case(r, r.Intn(4), c04DocBetween[r.Intn(4)])}, a.tokens...)
				toks = append(toks, c04Case(r, r.Intn(4), c04DocAnd[r.Intn(3)]))
				toks = append(toks, b.tokens...)
				base = c04Join(r, toks, r.Bool(), r.Chance(1, 10))
			}
			s := c04Mutate(r, base)
			o := c04Tie(c, s)
			if o.valid {
				c.Count("mutated/valid")
			} else {
				c.Count("mutated/invalid")
			}
		}

		// 4b. the two non-ASCII runes that (?i) and \w can match (U+017F long s, U+212A Kelvin sign):
		// inside and around every keyword, between-word, and-word and month word, in sentences whose
		// keyword makes the captured groups visible (a failed date keeps its constraint).
		// Correspondence only.
		foldRunes := []string{"\u017f", "\u212a"}
		var foldWords []string
		for _, kw := range c04DocKeywords[1:] {
			foldWords = append(foldWords, kw.word)
		}
		foldWords = append(foldWords, c04DocBetween...)
		foldWords = append(foldWords, c04DocAnd...)
		for _, m := range c04DocMonths {
			foldWords = append(foldWords, m.word)
		}
		foldWords = append(foldWords, "k", "s", "ks", "mark", "sk")
		foldFrames := []func(w string) string{
			func(w string) string { return w + " 1900" },
			func(w string) string { return w + " 5 Mar 1900" },
			func(w string) string { return "abt " + w + " 1900" },
			func(w string) string { return "Bef. 5 " + w + " 1900" },
			func(w string) string { return w + " 1850 and 1900" },
			func(w string) string { return "bet 1850 " + w + " 1900" },
			func(w string) string { return "bet " + w + " 1850 and aft " + w + " 1900" },
			func(w string) string { return w + "1900" },
		}
		for _, w := range foldWords {
			var variants []string
			for _, fr := range foldRunes {
				for p := 0; p <= len(w); p++ {
					variants = append(variants, w[:p]+fr+w[p:]) // inserted
					if p < len(w) {
						variants = append(variants, w[:p]+fr+w[p+1:]) // replacing one letter
					}
				}
			}
			// the letters that fold onto these runes, replaced by them
			variants = append(variants,
				strings.NewReplacer("s", "\u017f", "S", "\u017f", "k", "\u212a", "K", "\u212a").Replace(w),
				strings.NewReplacer("s", "\u017f").Replace(strings.ToUpper(w)))
			for _, v := range variants {
				for _, f := range foldFrames {
					for _, cs := range []int{c04Lower, c04Upper} {
						vv := v
						if cs == c04Upper {
							vv = strings.ToUpper(v) // ToUpper(long s) = S: also exercises plain case variants
						}
						c04Tie(c, f(vv))
						c.Count("fold-rune")
					}
				}
			}
		}

		// 4c. years outside 1..9999 (outside the property's quantifier; theorems any_numbers_as_coded,
		// year_zero_as_coded, year_above_9999_as_coded describe the model): correspondence only.
		oddYears := []string{"0", "00", "0000", "00000", "10000", "010000", "99999", "123456789", "9223372036854775806",
			"9223372036854775807", "9223372036854775808", "18446744073709551616", "99999999999999999999",
			"000000000000000000000000000001", "100000000000000000000000000000"}
		oddDays := []string{"", "1 ", "29 ", "31 ", "0 ", "99999999999999999999 ", "032 "}
		for _, kw := range c04DocKeywords {
			for _, y := range oddYears {
				for _, d := range oddDays {
					for _, m := range []string{"", "Feb ", "mar ", "DECEMBER "} {
						if d != "" && m == "" && r.Chance(2, 3) {
							continue
						}
						pre := ""
						if kw.word != "" {
							pre = c04Case(r, r.Intn(4), kw.word) + " "
						}
						s := pre + d + m + y
						c04Tie(c, s)
						c04Tie(c, "from "+s+" to "+y)
						c.Count("year-outside-domain")
					}
				}
			}
		}

		// 5. Equals on pairs (DateRange.Equals with its constraint matrix): correspondence only
		var pool []string
		for i := 0; i < 60; i++ {
			sg := c04MakeSingle(r, c04DocKeywords[r.Intn(len(c04DocKeywords))], 0, r.Intn(3), r.Intn(len(c04DocMonths)), 0)
			sg.meaning.y = 1899 + r.Intn(3)
			sg.tokens[len(sg.tokens)-1] = strconv.Itoa(sg.meaning.y)
			pool = append(pool, strings.Join(sg.tokens, " "))
		}
		pool = append(pool, "(foo)", "(bar)", "foo", "bar", "", "Mar 0", "Bef. Mar 0", "Bef. 10000", "Bef. Mar 10000",
			"Aft. 10001", "bet 1899 and 1901", "bet Bef. 1899 and Aft. 1901", "0", "Bef. 0")
		npairs := c.N(60000, 400000)
		for i := 0; i < npairs; i++ {
			a, b := pool[r.Intn(len(pool))], pool[r.Intn(len(pool))]
			x, y := gedcom.NewDateRangeWithString(a), gedcom.NewDateRangeWithString(b)
			c.Tie("date-equals "+c04Hex(a)+" "+c04Hex(b), bit(x.Equals(y))+bit(y.Equals(x)))
			c.Eval()
			c.Count("equals-pair")
		}
	}
}
