package main

import (
	"fmt"
	"go/ast"
	"go/parser"
	"go/token"
	"os"
	"path/filepath"
	"sort"
	"strings"
	"time"

	"github.com/elliotchance/gedcom/v39"
)

// Facts about the date grammar, regenerated from the code on every run (C04):
// the five exported DateWords* constants, keyword -> constraint (DateConstraintFromString),
// constraint -> spelling (DateConstraint.String), month word -> month (by parsing "1 <word> 2000"),
// month -> printed abbreviation (Date.String), the fixed words of DateRange.String, and whether
// the source of date.go / date_range.go quotes and length-sorts the keyword alternation.

func c04LeanBytes(s string) string {
	var parts []string
	for i := 0; i < len(s); i++ {
		parts = append(parts, fmt.Sprintf("%d", s[i]))
	}
	return "[" + strings.Join(parts, ", ") + "]"
}

func c04LeanWordList(name, doc, words string) string {
	var b strings.Builder
	fmt.Fprintf(&b, "/-- %s = %q -/\ndef %s : List Str :=\n  [", doc, words, name)
	for i, w := range strings.Split(words, "|") {
		if i > 0 {
			b.WriteString(",\n   ")
		}
		fmt.Fprintf(&b, "%s /- %s -/", c04LeanBytes(w), c04Comment(w))
	}
	b.WriteString("]\n\n")
	return b.String()
}

func c04Comment(s string) string {
	return strings.NewReplacer("-/", "- /", "/-", "/ -", "\n", " ").Replace(s)
}

var c04ConstraintLean = map[gedcom.DateConstraint]string{
	gedcom.DateConstraintExact:  ".exact",
	gedcom.DateConstraintAbout:  ".about",
	gedcom.DateConstraintBefore: ".before",
	gedcom.DateConstraintAfter:  ".after",
}

// c04MonthCandidates: every prefix (>= 3 letters) of every English month name, plus a few
// spellings seen in the wild, so that an added spelling is noticed.
func c04MonthCandidates() []string {
	seen := map[string]bool{}
	var out []string
	add := func(w string) {
		if !seen[w] {
			seen[w] = true
			out = append(out, w)
		}
	}
	for m := time.January; m <= time.December; m++ {
		name := strings.ToLower(m.String())
		for n := 3; n <= len(name); n++ {
			add(name[:n])
		}
	}
	for _, w := range []string{"sept", "febr", "ja", "ma", "j", "m", "1", "01", "12", "i", "xii"} {
		add(w)
	}
	sort.Strings(out)
	return out
}

// c04SourceFacts inspects the text of the two regular expressions (go/ast): does the date
// pattern / the range pattern go through a function that quotes its words?
func c04SourceFacts() (dateQuoted, rangeQuoted string) {
	dateQuoted, rangeQuoted = "none", "none"
	repo := os.Getenv("VERIF_REPO")
	if repo == "" {
		repo = "/repo"
	}
	check := func(file, varName string) string {
		fset := token.NewFileSet()
		f, err := parser.ParseFile(fset, filepath.Join(repo, file), nil, 0)
		if err != nil {
			return "none"
		}
		res := "none"
		ast.Inspect(f, func(n ast.Node) bool {
			vs, ok := n.(*ast.ValueSpec)
			if !ok || len(vs.Names) != 1 || vs.Names[0].Name != varName || len(vs.Values) != 1 {
				return true
			}
			// raw paste = a DateWords* constant handed directly to fmt.Sprintf (the '.' of "Abt." is
			// then a wildcard and the alternation first-match); anything else that builds the pattern
			// (a quoting helper of whatever name) counts as quoted
			res = "none"
			ast.Inspect(vs.Values[0], func(m ast.Node) bool {
				call, ok := m.(*ast.CallExpr)
				if !ok {
					return true
				}
				sel, ok := call.Fun.(*ast.SelectorExpr)
				if !ok || sel.Sel.Name != "Sprintf" {
					return true
				}
				if res == "none" {
					res = "some true"
				}
				for _, a := range call.Args {
					if id, ok := a.(*ast.Ident); ok && strings.HasPrefix(id.Name, "DateWords") {
						res = "some false"
					}
				}
				return true
			})
			return false
		})
		return res
	}
	return check("date.go", "dateRegexp"), check("date_range.go", "dateRangeRegexp")
}

func init() {
	extractors["Dates"] = func() string {
		var b strings.Builder
		b.WriteString("-- Source: the exported DateWords* constants; behavioural probes of DateConstraintFromString,\n")
		b.WriteString("-- DateConstraint.String, NewDateRangeWithString(\"1 <word> 2000\"), Date.String and\n")
		b.WriteString("-- DateRange.String; go/ast facts about dateRegexp and dateRangeRegexp.\n")
		b.WriteString("import Gedcom.Model.Types\nnamespace Gedcom.Generated\nopen Gedcom\n\n")
		b.WriteString(c04LeanWordList("wordsBetween", "DateWordsBetween", gedcom.DateWordsBetween))
		b.WriteString(c04LeanWordList("wordsAnd", "DateWordsAnd", gedcom.DateWordsAnd))
		b.WriteString(c04LeanWordList("wordsAbout", "DateWordsAbout", gedcom.DateWordsAbout))
		b.WriteString(c04LeanWordList("wordsAfter", "DateWordsAfter", gedcom.DateWordsAfter))
		b.WriteString(c04LeanWordList("wordsBefore", "DateWordsBefore", gedcom.DateWordsBefore))

		// keyword -> constraint, keyed by the lower-case word; consistent = the answer does not
		// depend on letter case
		consistent := true
		b.WriteString("/-- `DateConstraintFromString` on every word of the five lists (lower-cased key) -/\n")
		b.WriteString("def constraintOfWord : List (Str × Constraint) :=\n  [")
		first := true
		for _, list := range []string{gedcom.DateWordsAbout, gedcom.DateWordsAfter, gedcom.DateWordsBefore,
			gedcom.DateWordsBetween, gedcom.DateWordsAnd} {
			for _, w := range strings.Split(list, "|") {
				c := gedcom.DateConstraintFromString(w)
				lw, uw := strings.ToLower(w), strings.ToUpper(w)
				if gedcom.DateConstraintFromString(lw) != c || gedcom.DateConstraintFromString(uw) != c {
					consistent = false
				}
				if !first {
					b.WriteString(",\n   ")
				}
				first = false
				fmt.Fprintf(&b, "(%s, %s) /- %s -/", c04LeanBytes(lw), c04ConstraintLean[c], c04Comment(lw))
			}
		}
		b.WriteString("]\n\n")
		for _, w := range []string{"", "x", "abtx", "exact", "between 1900"} {
			if gedcom.DateConstraintFromString(w) != gedcom.DateConstraintExact {
				consistent = false
			}
		}
		fmt.Fprintf(&b, "/-- the probe gave the same answer for lower, UPPER and as-written case, and Exact for words outside the lists -/\n")
		fmt.Fprintf(&b, "def constraintProbeConsistent : Bool := %v\n\n", consistent)

		b.WriteString("/-- `DateConstraint.String` -/\ndef constraintSpelling : Constraint → Str\n")
		for _, c := range []gedcom.DateConstraint{gedcom.DateConstraintExact, gedcom.DateConstraintAbout,
			gedcom.DateConstraintBefore, gedcom.DateConstraintAfter} {
			fmt.Fprintf(&b, "  | %s => %s /- %s -/\n", c04ConstraintLean[c], c04LeanBytes(c.String()), c04Comment(c.String()))
		}
		b.WriteString("\n")

		b.WriteString("/-- month words: candidates (every prefix of length >= 3 of the English month names and a few\n")
		b.WriteString("    others) for which \"1 <word> 2000\" parses to a valid date, with the month found -/\n")
		b.WriteString("def monthWords : List (Str × Nat) :=\n  [")
		first = true
		for _, w := range c04MonthCandidates() {
			dr := gedcom.NewDateRangeWithString("1 " + w + " 2000")
			if !dr.IsValid() {
				continue
			}
			d := dr.StartDate()
			if d.Month == 0 || d.Day != 1 || d.Year != 2000 {
				continue
			}
			if !first {
				b.WriteString(",\n   ")
			}
			first = false
			fmt.Fprintf(&b, "(%s, %d) /- %s -/", c04LeanBytes(w), int(d.Month), c04Comment(w))
		}
		b.WriteString("]\n\n")

		b.WriteString("/-- `Date.String` of a month-year date: the printed month word, months 1..12 -/\n")
		b.WriteString("def monthAbbrev : List Str :=\n  [")
		for m := 1; m <= 12; m++ {
			s := gedcom.Date{Month: time.Month(m), Year: 7}.String()
			w := strings.TrimSuffix(s, " 7")
			if m > 1 {
				b.WriteString(",\n   ")
			}
			fmt.Fprintf(&b, "%s /- %s -/", c04LeanBytes(w), c04Comment(w))
		}
		b.WriteString("]\n\n")

		// "Bet. 7 and 8"
		rs := gedcom.NewDateRange(gedcom.Date{Year: 7}, gedcom.Date{Year: 8}).String()
		pre, inf := "", ""
		if i := strings.Index(rs, "7"); i >= 0 {
			if j := strings.LastIndex(rs, "8"); j > i {
				pre, inf = rs[:i], rs[i+1:j]
			}
		}
		fmt.Fprintf(&b, "/-- `DateRange.String` of the range 7..8 is %q: text before the start date -/\n", rs)
		fmt.Fprintf(&b, "def rangePrefix : Str := %s /- %s -/\n", c04LeanBytes(pre), c04Comment(pre))
		fmt.Fprintf(&b, "/-- … and between the two dates -/\ndef rangeInfix : Str := %s /- %s -/\n\n", c04LeanBytes(inf), c04Comment(inf))

		dq, rq := c04SourceFacts()
		b.WriteString("/-- go/ast: `some false` = a DateWords* constant is pasted directly into the pattern of\n")
		b.WriteString("    `dateRegexp` (unquoted, first-match); `some true` = the pattern is built some other way;\n")
		b.WriteString("    `none` = declaration not found -/\n")
		fmt.Fprintf(&b, "def dateRegexpQuoted : Option Bool := %s\n", dq)
		fmt.Fprintf(&b, "def dateRangeRegexpQuoted : Option Bool := %s\n", rq)
		b.WriteString("\nend Gedcom.Generated\n")
		return b.String()
	}
}
