package main

import (
	"bytes"
	"fmt"
	"go/ast"
	"go/parser"
	"go/printer"
	"go/token"
	"path/filepath"
	"strings"
)

// Translator for the decisions of the matching passes (C11), individual_nodes.go:
//   calculateWinners   the comparator of sort.SliceStable, and the statements of the winner loop in order
//                      (threshold test with `break`, the `found` test with `continue`, send, the two marks)
//   createPointerJobs  the statements of the pool's loop body in order (sentA guard, ByPointer look-up, nil
//                      guard, sentB guard, forced score, the `>= PreferPointerAbove` test, which stores the
//                      match at its left index) and of the sequential loop that emits the matches in left-slice
//                      order (nil / sentA / sentB guards, adjust, send, the two stores)
// printed as terms of Gedcom.MatchSrc (lean/Gedcom/Model/MatchSrc.lean). Statements and operands are
// recognised by their exact printed text; anything else becomes "bad" / `.bad` and is rejected by the
// obligation in Props/C11Src.lean.

func msrcText(fset *token.FileSet, n ast.Node) string {
	var b bytes.Buffer
	printer.Fprint(&b, fset, n)
	return strings.Join(strings.Fields(b.String()), " ")
}

var msrcOperands = map[string]string{
	"similarities[i].Similarity.WeightedSimilarity()":     "scoreI",
	"similarities[j].Similarity.WeightedSimilarity()":     "scoreJ",
	"s.Similarity.WeightedSimilarity()":                   "score",
	"ss.WeightedSimilarity()":                             "score",
	"o.SimilarityOptions.MinimumWeightedSimilarity":       "minW",
	"options.SimilarityOptions.PreferPointerAbove":        "prefer",
	"options.SimilarityOptions.MinimumWeightedSimilarity": "minW",
}

func msrcFact(fset *token.FileSet, e ast.Expr, bound map[string]string) string {
	b, ok := e.(*ast.BinaryExpr)
	if !ok {
		return "⟨.bad, .bad, .bad⟩"
	}
	op := map[token.Token]string{token.LSS: ".lt", token.LEQ: ".le", token.GTR: ".gt", token.GEQ: ".ge"}[b.Op]
	if op == "" {
		op = ".bad"
	}
	opnd := func(x ast.Expr) string {
		t := msrcText(fset, x)
		if v, ok := bound[t]; ok {
			return "." + v
		}
		if v, ok := msrcOperands[t]; ok {
			return "." + v
		}
		return ".bad"
	}
	return fmt.Sprintf("⟨%s, %s, %s⟩", op, opnd(b.X), opnd(b.Y))
}

func msrcOnly(b *ast.BlockStmt, tok token.Token) bool {
	if b == nil || len(b.List) != 1 {
		return false
	}
	br, ok := b.List[0].(*ast.BranchStmt)
	return ok && br.Tok == tok && br.Label == nil
}

func msrcStrs(xs []string) string {
	var q []string
	for _, x := range xs {
		q = append(q, fmt.Sprintf("%q", x))
	}
	return "[" + strings.Join(q, ", ") + "]"
}

func init() {
	extractors["MatchSrc"] = func() string {
		fset := token.NewFileSet()
		af, err := parser.ParseFile(fset, filepath.Join(repoRoot(), "individual_nodes.go"), nil, 0)
		less, brk, accept := "⟨.bad, .bad, .bad⟩", "⟨.bad, .bad, .bad⟩", "⟨.bad, .bad, .bad⟩"
		winnerLoop, pointerLoop, acceptBody, pointerEmit := []string{"not-found"}, []string{"not-found"}, []string{"not-found"}, []string{"not-found"}
		stable := false
		if err == nil {
			for _, d := range af.Decls {
				fd, ok := d.(*ast.FuncDecl)
				if !ok || fd.Body == nil {
					continue
				}
				switch fd.Name.Name {
				case "calculateWinners":
					ast.Inspect(fd.Body, func(n ast.Node) bool {
						switch n := n.(type) {
						case *ast.CallExpr:
							if msrcText(fset, n.Fun) == "sort.SliceStable" && len(n.Args) == 2 && msrcText(fset, n.Args[0]) == "similarities" {
								if fl, ok := n.Args[1].(*ast.FuncLit); ok && len(fl.Body.List) == 1 &&
									msrcText(fset, fl.Type) == "func(i, j int) bool" {
									if ret, ok := fl.Body.List[0].(*ast.ReturnStmt); ok && len(ret.Results) == 1 {
										less = msrcFact(fset, ret.Results[0], nil)
										stable = true
									}
								}
							}
						case *ast.RangeStmt:
							if msrcText(fset, n.X) != "similarities" || msrcText(fset, n.Value) != "s" {
								return true
							}
							winnerLoop = nil
							bound := map[string]string{}
							for _, st := range n.Body.List {
								txt := msrcText(fset, st)
								switch st := st.(type) {
								case *ast.AssignStmt:
									switch {
									case st.Tok == token.DEFINE && len(st.Lhs) == 1 && len(st.Rhs) == 1 && msrcOperands[msrcText(fset, st.Rhs[0])] != "":
										bound[msrcText(fset, st.Lhs[0])] = msrcOperands[msrcText(fset, st.Rhs[0])]
										winnerLoop = append(winnerLoop, "let:"+msrcOperands[msrcText(fset, st.Rhs[0])])
									case txt == "found[s.Left] = true":
										winnerLoop = append(winnerLoop, "mark:Left")
									case txt == "found[s.Right] = true":
										winnerLoop = append(winnerLoop, "mark:Right")
									default:
										winnerLoop = append(winnerLoop, "bad")
									}
								case *ast.IfStmt:
									switch {
									case st.Init == nil && st.Else == nil && msrcOnly(st.Body, token.BREAK):
										brk = msrcFact(fset, st.Cond, bound)
										winnerLoop = append(winnerLoop, "break-if")
									case st.Init == nil && st.Else == nil && msrcOnly(st.Body, token.CONTINUE) &&
										msrcText(fset, st.Cond) == "found[s.Left] == true || found[s.Right] == true":
										winnerLoop = append(winnerLoop, "skip-if-found:Left|Right")
									default:
										winnerLoop = append(winnerLoop, "bad")
									}
								case *ast.SendStmt:
									if txt == "winners <- s" {
										winnerLoop = append(winnerLoop, "send")
									} else {
										winnerLoop = append(winnerLoop, "bad")
									}
								default:
									winnerLoop = append(winnerLoop, "bad")
								}
							}
							return false
						}
						return true
					})
				case "createPointerJobs":
					// the sequential loop `for _, match := range matches` after the pool
					for _, top := range fd.Body.List {
						rs, ok := top.(*ast.RangeStmt)
						if !ok || msrcText(fset, rs.X) != "matches" || rs.Value == nil || msrcText(fset, rs.Value) != "match" {
							continue
						}
						pointerEmit = nil
						for _, st := range rs.Body.List {
							t := msrcText(fset, st)
							switch st := st.(type) {
							case *ast.IfStmt:
								init := ""
								if st.Init != nil {
									init = msrcText(fset, st.Init)
								}
								cond := msrcText(fset, st.Cond)
								switch {
								case st.Else == nil && msrcOnly(st.Body, token.CONTINUE) && init == "" && cond == "match == nil":
									pointerEmit = append(pointerEmit, "skip-if-nil(match)")
								case st.Else == nil && msrcOnly(st.Body, token.CONTINUE) && init == "_, ok := options.sentA.Load(match.Left.Pointer())" && cond == "ok":
									pointerEmit = append(pointerEmit, "skip-if-sentA(match.Left)")
								case st.Else == nil && msrcOnly(st.Body, token.CONTINUE) && init == "_, ok := options.sentB.Load(match.Right.Pointer())" && cond == "ok":
									pointerEmit = append(pointerEmit, "skip-if-sentB(match.Right)")
								default:
									pointerEmit = append(pointerEmit, "bad")
								}
							default:
								switch t {
								case "options.adjustTotal(totals)":
									pointerEmit = append(pointerEmit, "adjust")
								case "jobs <- match":
									pointerEmit = append(pointerEmit, "send:match")
								case "options.sentA.Store(match.Left.Pointer(), nil)":
									pointerEmit = append(pointerEmit, "storeA(match.Left)")
								case "options.sentB.Store(match.Right.Pointer(), nil)":
									pointerEmit = append(pointerEmit, "storeB(match.Right)")
								default:
									pointerEmit = append(pointerEmit, "bad")
								}
							}
						}
					}
					ast.Inspect(fd.Body, func(n ast.Node) bool {
						fs, ok := n.(*ast.ForStmt)
						if !ok {
							return true
						}
						pointerLoop = nil
						for _, st := range fs.Body.List {
							txt := msrcText(fset, st)
							switch st := st.(type) {
							case *ast.AssignStmt:
								switch txt {
								case "a := left[leftI]":
									pointerLoop = append(pointerLoop, "bind:a")
								case "b := right.ByPointer(a.Pointer())":
									pointerLoop = append(pointerLoop, "lookup:b=ByPointer(a)")
								case "ss := a.SurroundingSimilarity(b, options.SimilarityOptions, true)":
									pointerLoop = append(pointerLoop, "score:forced")
								default:
									pointerLoop = append(pointerLoop, "bad")
								}
							case *ast.IfStmt:
								init := ""
								if st.Init != nil {
									init = msrcText(fset, st.Init)
								}
								cond := msrcText(fset, st.Cond)
								switch {
								case st.Else == nil && msrcOnly(st.Body, token.CONTINUE) && init == "_, ok := options.sentA.Load(a.Pointer())" && cond == "ok":
									pointerLoop = append(pointerLoop, "skip-if-sentA(a)")
								case st.Else == nil && msrcOnly(st.Body, token.CONTINUE) && init == "_, ok := options.sentB.Load(b.Pointer())" && cond == "ok":
									pointerLoop = append(pointerLoop, "skip-if-sentB(b)")
								case st.Else == nil && msrcOnly(st.Body, token.CONTINUE) && init == "" && cond == "IsNil(b)":
									pointerLoop = append(pointerLoop, "skip-if-nil(b)")
								case st.Else == nil && init == "":
									if _, ok := st.Cond.(*ast.BinaryExpr); ok {
										accept = msrcFact(fset, st.Cond, nil)
										pointerLoop = append(pointerLoop, "accept-if")
										acceptBody = nil
										for _, bs := range st.Body.List {
											t := msrcText(fset, bs)
											switch {
											case strings.HasPrefix(t, "matches[leftI] = &IndividualComparison{") && strings.Contains(t, "Left: a,") &&
												strings.Contains(t, "Right: b,") && strings.Contains(t, "Similarity: ss,") && strings.Contains(t, "certainMatch: true,"):
												acceptBody = append(acceptBody, "store-match:certain(a,b)@leftI")
											case t == "options.adjustTotal(totals)":
												acceptBody = append(acceptBody, "adjust")
											case strings.HasPrefix(t, "jobs <- &IndividualComparison{") && strings.Contains(t, "Left: a,") &&
												strings.Contains(t, "Right: b,") && strings.Contains(t, "certainMatch: true,"):
												acceptBody = append(acceptBody, "send:certain(a,b)")
											case t == "options.sentA.Store(a.Pointer(), nil)":
												acceptBody = append(acceptBody, "storeA(a)")
											case t == "options.sentB.Store(b.Pointer(), nil)":
												acceptBody = append(acceptBody, "storeB(b)")
											default:
												acceptBody = append(acceptBody, "bad")
											}
										}
									} else {
										pointerLoop = append(pointerLoop, "bad")
									}
								default:
									pointerLoop = append(pointerLoop, "bad")
								}
							default:
								pointerLoop = append(pointerLoop, "bad")
							}
						}
						return false
					})
				}
			}
		}
		var b strings.Builder
		b.WriteString("-- Source: individual_nodes.go (calculateWinners, createPointerJobs): the comparator, the threshold tests and\n")
		b.WriteString("-- the order of the guards, translated from go/ast (see harness/extract_matchsrc.go).\n")
		b.WriteString("import Gedcom.Model.MatchSrc\nnamespace Gedcom.Generated\nopen Gedcom.MatchSrc\n\n")
		fmt.Fprintf(&b, "/-- the results are sorted with `sort.SliceStable(similarities, func(i, j int) bool { return … })` -/\ndef srcSortIsStable : Bool := %v\n", stable)
		fmt.Fprintf(&b, "/-- the comparator: element i sorts before element j when … -/\ndef srcLess : Fact := %s\n", less)
		fmt.Fprintf(&b, "/-- the statements of `for _, s := range similarities`, in order -/\ndef srcWinnerLoop : List String := %s\n", msrcStrs(winnerLoop))
		fmt.Fprintf(&b, "/-- the winner loop stops (`break`) when … -/\ndef srcBreak : Fact := %s\n", brk)
		fmt.Fprintf(&b, "/-- the statements of the loop of createPointerJobs, in order -/\ndef srcPointerLoop : List String := %s\n", msrcStrs(pointerLoop))
		fmt.Fprintf(&b, "/-- a pointer pair is a certain match when … -/\ndef srcAccept : Fact := %s\n", accept)
		fmt.Fprintf(&b, "/-- what is done with an accepted pointer pair, in order -/\ndef srcAcceptBody : List String := %s\n", msrcStrs(acceptBody))
		fmt.Fprintf(&b, "/-- the statements of `for _, match := range matches` after the pool (left-slice order), in order -/\ndef srcPointerEmit : List String := %s\n", msrcStrs(pointerEmit))
		b.WriteString("\nend Gedcom.Generated\n")
		return b.String()
	}
}
