package main

// C14 — No command crashes on a file the decoder accepts.
//
// Fault matrix: random family graphs × combinations of structural faults → GEDCOM text.
//   (T1) library layer, in-process: every reference accessor on every record of the decoded file,
//        under recover, against the Lean model (`c14res`).
//   (S)  the real `cmd/gedcom` binary built from the working tree, in child processes:
//        warnings, publish × 3 visibilities × page-group subsets, diff × -show × -sort, query ×
//        documented example queries; observation class {output, error, panic, fatal, timeout}.
//        A panic / fatal / timeout anywhere is an oracle failure with the file as replay.
//   (T2) the model's prediction of the class from the modelled layer (`c14cmd`).

import (
	"bytes"
	"context"
	"fmt"
	"os"
	"os/exec"
	"path/filepath"
	"regexp"
	"runtime"
	"sort"
	"strconv"
	"strings"
	"sync"
	"time"

	"github.com/elliotchance/gedcom/v39"
	"github.com/elliotchance/gedcom/v39/html"
)

var c14FaultNames = []string{
	"dangling-ref", "wrong-kind-ref", "empty-role-value", "no-name", "name-without-surname",
	"own-parent", "own-spouse", "duplicate-pointer", "memberless-family", "source-without-title",
	"odd-dates", "odd-surname",
}

const (
	c14Dangling = iota
	c14WrongKind
	c14EmptyRole
	c14NoName
	c14NoSurname
	c14OwnParent
	c14OwnSpouse
	c14DupPointer
	c14Memberless
	c14SourNoTitle
	c14OddDates
	c14OddSurname
	c14NFaults
)

type c14Ev struct {
	tag, value, date, place, sour string
	hasDate, hasPlace            bool
}

type c14Indi struct {
	ptr     string
	names   []string // NAME values
	surn    string   // optional SURN child of the first NAME ("\x00" = none)
	noValue bool     // "1 NAME" without value
	sex     []string
	evs     []c14Ev
	links   []string // FAMC/FAMS lines
}

type c14Fam struct {
	ptr              string
	husb, wife, chil []string // role values; "" renders a line without value
	evs              []c14Ev
}

type c14Graph struct {
	head  bool
	indis []*c14Indi
	sours []string // "ptr\x00title" ; title "\x00" = none
	fams  []*c14Fam
	trlr  bool
}

var (
	c14Given   = []string{"John", "Mary", "Kid", "Ann", "Zoë", "Li"}
	c14Surname = []string{"Smith", "Jones", "Smith", "Brown", "Adams"}
	// names without a single a-z / 0-9 (other scripts, accented letters only), short and of varied
	// length, sharing letters with each other: name comparison sees them as they are written
	c14NonLatin = []string{"雷 /李/", "李 /雷/", "雷雷 /李/", "王 /小明/", "小明 /王/", "Иван /Петров/", "Ива /Петр/", "Ян /Ли/", "Ли /Ян/", "Пётр /Иванов/",
		"Ωμέγα /Αλφα/", "Αλ /Ωμ/", "ÉÈ /ÜÖ/", "Ü /É/", "É /Ü/", "ÉÜ", "/李/", "雷", "محمد /علي/", "علي /محمد/", "ÑÉ /ÖÜÄ/",
		// name shapes: 1-3 characters, one non-ASCII letter as the whole surname, punctuation only, combining
		// marks only, and long ones — none has an ASCII letter or digit
		"李 伟", "山田 太郎", "Ωμέγα", "/Ø/", "Ø", "Ж", "/Ж/", "-", "?", "--- /.../", "' /'/", "\u0301", "\u0301\u0308 /\u0301/", "々", "한 /김/", "김", "ŁÓ /ŚĆ/",
		"Александр Сергеевич /Пушкин-Мусин/", "Παπαδόπουλος /Κωνσταντίνος/", "山田山田山田山田山田 /太郎太郎太郎太郎太郎/", "Ñ", "ß /ß/"}
	c14OddSurn = []string{"1Smith", "#hash", "Éclair", "Ünal", "Kelvin", "İzmir", "王", " lead", "-dash", "'t Hooft", "Ж", " nbsp", "z"}
	c14GoodDates = []string{"1 Jan 1850", "1850", "Abt. 1900", "Bet. 1850 and 1860", "12 Dec 1910", "Bef. 1700", "3 Sep 1943", "Mar 1880"}
	c14BadDates  = []string{"garbage", "31 Feb 1850", "Bet. 1900 and 1800", "", "(phrase)", "@#DJULIAN@ 1 JAN 1700", "0",
		"99999999999999999999", "5 Decmbr 1901", "Aft. 3 Sep 2001", "1 Jan", "32 Jan 1900", "Jan 1 1900", "1850/51", "-5", "9999"}
	c14Places = []string{"Oldtown", "Newtown, State, Australia", "", ",,", "Éire", "Smith"}
)

// c14Base draws a consistent family graph.
func c14Base(r *Rand, now int) *c14Graph {
	g := &c14Graph{head: r.Chance(4, 5), trlr: r.Chance(1, 3)}
	n := []int{1, 2, 3, 3, 4, 5, 6, 8}[r.Intn(8)]
	for i := 0; i < n; i++ {
		p := &c14Indi{ptr: fmt.Sprintf("I%d", i+1), surn: "\x00"}
		p.names = []string{r.Pick(c14Given) + " /" + r.Pick(c14Surname) + "/"}
		if r.Chance(1, 5) {
			p.names[0] = r.Pick(c14NonLatin)
		}
		if r.Chance(1, 5) {
			p.names = append(p.names, r.Pick(c14Given)+" /"+r.Pick(c14Surname)+"/ Jr")
		}
		if r.Chance(1, 6) {
			p.surn = r.Pick(c14Surname)
		}
		if r.Chance(3, 4) {
			p.sex = []string{r.Pick([]string{"M", "F", "U"})}
		}
		// living status: dead by DEAT, dead by age, living (recent birth), living (no dates), burial only
		switch r.Intn(5) {
		case 0:
			p.evs = append(p.evs, c14Ev{tag: "BIRT", date: r.Pick(c14GoodDates), hasDate: true, place: r.Pick(c14Places), hasPlace: r.Bool()})
			p.evs = append(p.evs, c14Ev{tag: "DEAT", date: "1 Jan 1950", hasDate: true, place: r.Pick(c14Places), hasPlace: r.Bool()})
		case 1:
			p.evs = append(p.evs, c14Ev{tag: "BIRT", date: "1 Jan 1850", hasDate: true})
		case 2:
			p.evs = append(p.evs, c14Ev{tag: "BIRT", date: fmt.Sprintf("5 May %d", now-30), hasDate: true, place: r.Pick(c14Places), hasPlace: true})
		case 3:
		case 4:
			p.evs = append(p.evs, c14Ev{tag: "BURI", date: "1 Jan 1990", hasDate: true})
		}
		if r.Chance(1, 4) {
			p.evs = append(p.evs, c14Ev{tag: r.Pick([]string{"BAPM", "RESI", "CHR", "EVEN", "OCCU", "BAPL"}), value: r.Pick([]string{"", "Y", "note"}),
				date: r.Pick(c14GoodDates), hasDate: r.Bool(), place: r.Pick(c14Places), hasPlace: r.Bool()})
		}
		g.indis = append(g.indis, p)
	}
	ns := r.Intn(3)
	for i := 0; i < ns; i++ {
		g.sours = append(g.sours, fmt.Sprintf("S%d\x00%s", i+1, r.Pick([]string{"A source", "Parish <b>register</b>", "Zeta"})))
	}
	nf := []int{0, 1, 1, 2, 2, 3}[r.Intn(6)]
	for i := 0; i < nf; i++ {
		f := &c14Fam{ptr: fmt.Sprintf("F%d", i+1)}
		ref := func() string { return "@" + g.indis[r.Intn(len(g.indis))].ptr + "@" }
		if r.Chance(5, 6) {
			f.husb = []string{ref()}
		}
		if r.Chance(5, 6) {
			f.wife = []string{ref()}
		}
		for k := r.Intn(4); k > 0; k-- {
			f.chil = append(f.chil, ref())
		}
		if r.Chance(1, 2) {
			f.evs = append(f.evs, c14Ev{tag: "MARR", date: r.Pick(c14GoodDates), hasDate: true, place: r.Pick(c14Places), hasPlace: r.Bool()})
		}
		if r.Chance(1, 6) {
			f.evs = append(f.evs, c14Ev{tag: "DIV", value: "Y"})
		}
		g.fams = append(g.fams, f)
		for _, v := range f.chil {
			for _, p := range g.indis {
				if "@"+p.ptr+"@" == v && r.Chance(2, 3) {
					p.links = append(p.links, "FAMC @"+f.ptr+"@")
				}
			}
		}
	}
	if len(g.sours) > 0 && r.Chance(1, 2) {
		p := g.indis[r.Intn(len(g.indis))]
		if len(p.evs) > 0 {
			p.evs[0].sour = "@S1@"
		}
	}
	return g
}

func (g *c14Graph) anyFam(r *Rand) *c14Fam {
	if len(g.fams) == 0 {
		g.fams = append(g.fams, &c14Fam{ptr: "F1", husb: []string{"@" + g.indis[0].ptr + "@"}})
	}
	return g.fams[r.Intn(len(g.fams))]
}

// setRole puts value v into a random role slot of f (replacing or adding).
func c14SetRole(r *Rand, f *c14Fam, v string) {
	switch r.Intn(3) {
	case 0:
		f.husb = append([]string{v}, f.husb...)
		if r.Bool() {
			f.husb = f.husb[:1]
		}
	case 1:
		f.wife = append([]string{v}, f.wife...)
		if r.Bool() {
			f.wife = f.wife[:1]
		}
	default:
		f.chil = append(f.chil, v)
		if r.Bool() {
			k := r.Intn(len(f.chil))
			f.chil[k], f.chil[len(f.chil)-1] = f.chil[len(f.chil)-1], f.chil[k]
		}
	}
}

// c14Apply applies the fault layer; mask bit i = fault i.
func c14Apply(r *Rand, g *c14Graph, mask int) {
	has := func(i int) bool { return mask&(1<<i) != 0 }
	times := func() int { return 1 + r.Intn(2) }
	if has(c14Dangling) {
		for k := times(); k > 0; k-- {
			c14SetRole(r, g.anyFam(r), r.Pick([]string{"@I99@", "@X@", "@I99@", "@i1@"}))
		}
		if r.Bool() {
			g.indis[r.Intn(len(g.indis))].links = append(g.indis[0].links, "FAMC @F99@", "FAMS @F98@")
		}
	}
	if has(c14WrongKind) {
		if len(g.sours) == 0 {
			g.sours = append(g.sours, "S1\x00A source")
		}
		for k := times(); k > 0; k-- {
			f := g.anyFam(r)
			c14SetRole(r, f, r.Pick([]string{"@S1@", "@" + f.ptr + "@", "@S1@"}))
		}
		if r.Bool() {
			p := g.indis[r.Intn(len(g.indis))]
			p.links = append(p.links, "FAMS @S1@", "FAMC @"+p.ptr+"@")
		}
	}
	if has(c14EmptyRole) {
		for k := times(); k > 0; k-- {
			c14SetRole(r, g.anyFam(r), r.Pick([]string{"", "", "@", "@@", "@@@", "I1", "@I1", "I1@"}))
		}
	}
	if has(c14NoName) {
		for k := times(); k > 0; k-- {
			g.indis[r.Intn(len(g.indis))].names = nil
		}
	}
	if has(c14NoSurname) {
		for k := times(); k > 0; k-- {
			p := g.indis[r.Intn(len(g.indis))]
			v := r.Pick([]string{"Kid", "", "  ", "/", "//", "/ /", "a/b", "a/b/c/d", "Bob //", "Mononym  Two", "Five     Spaces /Sur      name/"})
			if len(p.names) == 0 {
				p.names = []string{v}
			} else {
				p.names[0] = v
			}
			if v == "" && r.Bool() {
				p.noValue = true
			}
			if r.Chance(1, 4) {
				p.surn = r.Pick([]string{"", " ", "\x00"})
			}
		}
	}
	if has(c14OwnParent) {
		f := g.anyFam(r)
		me := "@" + g.indis[r.Intn(len(g.indis))].ptr + "@"
		if r.Bool() {
			f.husb = []string{me}
		} else {
			f.wife = []string{me}
		}
		f.chil = append(f.chil, me)
	}
	if has(c14OwnSpouse) {
		f := g.anyFam(r)
		me := "@" + g.indis[r.Intn(len(g.indis))].ptr + "@"
		f.husb = []string{me}
		f.wife = []string{me}
	}
	if has(c14DupPointer) {
		switch r.Intn(3) {
		case 0: // two individuals, one pointer
			src := g.indis[r.Intn(len(g.indis))]
			g.indis = append(g.indis, &c14Indi{ptr: src.ptr, names: []string{"Twin /" + r.Pick(c14Surname) + "/"}, surn: "\x00",
				evs: []c14Ev{{tag: "DEAT", value: "Y"}}})
		case 1: // a family with the pointer of an individual (declared later: it wins the cache)
			f := g.anyFam(r)
			f.ptr = g.indis[r.Intn(len(g.indis))].ptr
		default: // two families, one pointer; an individual without pointer
			f := g.anyFam(r)
			g.fams = append(g.fams, &c14Fam{ptr: f.ptr, husb: f.wife, wife: f.husb, chil: f.chil})
			if r.Bool() {
				g.indis = append(g.indis, &c14Indi{ptr: "", names: []string{"Nameless /Pointerless/"}, surn: "\x00"})
			}
		}
	}
	if has(c14Memberless) {
		g.fams = append(g.fams, &c14Fam{ptr: fmt.Sprintf("F%d", len(g.fams)+7)})
		if r.Bool() {
			g.fams = append(g.fams, &c14Fam{ptr: ""})
		}
	}
	if has(c14SourNoTitle) {
		g.sours = append(g.sours, fmt.Sprintf("S%d\x00\x00", len(g.sours)+1))
		p := g.indis[r.Intn(len(g.indis))]
		p.evs = append(p.evs, c14Ev{tag: "RESI", sour: fmt.Sprintf("@S%d@", len(g.sours)), hasPlace: true, place: "Oldtown"})
		if r.Bool() {
			p.evs[len(p.evs)-1].sour = r.Pick([]string{"@S99@", "", "@" + p.ptr + "@"})
		}
	}
	if has(c14OddDates) {
		for _, p := range g.indis {
			for i := range p.evs {
				if r.Chance(2, 3) {
					p.evs[i].date, p.evs[i].hasDate = r.Pick(c14BadDates), true
				}
			}
			if r.Chance(1, 3) {
				p.evs = append(p.evs, c14Ev{tag: r.Pick([]string{"BIRT", "DEAT", "BIRT", "BAPM"}), date: r.Pick(c14BadDates), hasDate: r.Chance(4, 5)})
			}
		}
		for _, f := range g.fams {
			f.evs = append(f.evs, c14Ev{tag: "MARR", date: r.Pick(c14BadDates), hasDate: true})
		}
	}
	if has(c14OddSurname) {
		for k := 1 + r.Intn(3); k > 0; k-- {
			p := g.indis[r.Intn(len(g.indis))]
			v := r.Pick(c14Given) + " /" + r.Pick(c14OddSurn) + "/"
			if len(p.names) == 0 {
				p.names = []string{v}
			} else {
				p.names[0] = v
			}
			if r.Chance(1, 4) {
				p.surn = r.Pick(c14OddSurn)
			}
		}
	}
}

func (g *c14Graph) Text() string {
	var b strings.Builder
	line := func(level int, ptr, tag, value string) {
		b.WriteString(strconv.Itoa(level))
		if ptr != "" {
			b.WriteString(" @" + ptr + "@")
		}
		b.WriteString(" " + tag)
		if value != "" {
			b.WriteString(" " + value)
		}
		b.WriteByte('\n')
	}
	evs := func(es []c14Ev) {
		for _, e := range es {
			line(1, "", e.tag, e.value)
			if e.hasDate {
				line(2, "", "DATE", e.date)
			}
			if e.hasPlace {
				line(2, "", "PLAC", e.place)
			}
			if e.sour != "" {
				line(2, "", "SOUR", e.sour)
			}
		}
	}
	if g.head {
		line(0, "", "HEAD", "")
		line(1, "", "CHAR", "UTF-8")
	}
	for _, p := range g.indis {
		line(0, p.ptr, "INDI", "")
		for i, nm := range p.names {
			if i == 0 && p.noValue {
				nm = ""
			}
			line(1, "", "NAME", nm)
			if i == 0 && p.surn != "\x00" {
				line(2, "", "SURN", p.surn)
			}
		}
		for _, s := range p.sex {
			line(1, "", "SEX", s)
		}
		evs(p.evs)
		for _, l := range p.links {
			parts := strings.SplitN(l, " ", 2)
			line(1, "", parts[0], parts[1])
		}
	}
	for _, s := range g.sours {
		parts := strings.SplitN(s, "\x00", 2)
		line(0, parts[0], "SOUR", "")
		if parts[1] != "\x00" {
			line(1, "", "TITL", parts[1])
		}
	}
	for _, f := range g.fams {
		line(0, f.ptr, "FAM", "")
		for _, v := range f.husb {
			line(1, "", "HUSB", v)
		}
		for _, v := range f.wife {
			line(1, "", "WIFE", v)
		}
		for _, v := range f.chil {
			line(1, "", "CHIL", v)
		}
		evs(f.evs)
	}
	if g.trlr {
		line(0, "", "TRLR", "")
	}
	return b.String()
}

func c14MaskNames(mask int) string {
	var ns []string
	for i := 0; i < c14NFaults; i++ {
		if mask&(1<<i) != 0 {
			ns = append(ns, c14FaultNames[i])
		}
	}
	if len(ns) == 0 {
		return "none"
	}
	return strings.Join(ns, "+")
}

// ---------------------------------------------------------------------------------------------
// (T1) library layer in-process

func c14Rec(f func() string) (s string) {
	defer func() {
		if r := recover(); r != nil {
			s = "panic"
		}
	}()
	return f()
}

// c14WithTimeout runs f (under recover) in a goroutine and gives up after limit: "timeout".
func c14WithTimeout(limit time.Duration, f func() string) string {
	done := make(chan string, 1)
	go func() { done <- c14Rec(f) }()
	select {
	case s := <-done:
		return s
	case <-time.After(limit):
		return "timeout"
	}
}

func c14Comma(xs []string) string {
	if len(xs) == 0 {
		return "-"
	}
	return strings.Join(xs, ",")
}

// c14Observe renders the same line as Driver.resolveAll from the real accessors; panicked lists the
// library calls that panicked. The library caches partial results while a panic unwinds (deferred
// cache writes in Spouses/Families/Husband/Wife), so after a panic the document is decoded afresh
// before the next call: every observation is that of a call on a freshly decoded file or on one
// whose earlier calls all returned.
func c14Observe(text string) (obs string, panicked []string) {
	var doc *gedcom.Document
	var idx map[gedcom.Node]int
	load := func() {
		doc, _ = gedcom.NewDocumentFromString(text)
		idx = map[gedcom.Node]int{}
		for i, n := range doc.Nodes() {
			idx[n] = i
		}
	}
	load()
	ent := func(p *gedcom.IndividualNode) string {
		if p == nil {
			return "nil"
		}
		if i, ok := idx[p]; ok {
			return strconv.Itoa(i)
		}
		return "foreign"
	}
	famIdx := func(fs gedcom.FamilyNodes) string {
		var xs []string
		for _, f := range fs {
			if i, ok := idx[f]; ok {
				xs = append(xs, strconv.Itoa(i))
			} else {
				xs = append(xs, "foreign")
			}
		}
		return c14Comma(xs)
	}
	call := func(what string, f func() string) string {
		s := c14Rec(f)
		if s == "panic" {
			panicked = append(panicked, what)
			load()
		}
		return s
	}
	fam := func(i int) *gedcom.FamilyNode { return doc.Nodes()[i].(*gedcom.FamilyNode) }
	ind := func(i int) *gedcom.IndividualNode { return doc.Nodes()[i].(*gedcom.IndividualNode) }
	var parts []string
	total := 0
	var count func(n gedcom.Node)
	count = func(n gedcom.Node) {
		total++
		for _, k := range n.Nodes() {
			count(k)
		}
	}
	surnames := map[string]bool{}
	nroots := len(doc.Nodes())
	for i := 0; i < nroots; i++ {
		count(doc.Nodes()[i])
		switch doc.Nodes()[i].(type) {
		case *gedcom.FamilyNode:
			h := call("Husband().Individual()", func() string { return ent(fam(i).Husband().Individual()) })
			w := call("Wife().Individual()", func() string { return ent(fam(i).Wife().Individual()) })
			var cs []string
			for k := range fam(i).Children() {
				k := k
				cs = append(cs, call("ChildNode.Individual()", func() string { return ent(fam(i).Children()[k].Individual()) }))
			}
			ci := call("ChildNodes.Individuals()", func() string {
				var xs []string
				for _, p := range fam(i).Children().Individuals() {
					xs = append(xs, ent(p))
				}
				return c14Comma(xs)
			})
			// accessors that the model does not print but every command reaches
			call("FamilyNode.String()", func() string { return fam(i).String() })
			call("FamilyNode.Warnings()", func() string {
				for _, w := range fam(i).Warnings() {
					_ = w.String()
				}
				return ""
			})
			parts = append(parts, fmt.Sprintf("F%d h=%s w=%s c=%s ci=%s", i, h, w, c14Comma(cs), ci))
		case *gedcom.IndividualNode:
			sp := call("Spouses()", func() string {
				var xs []string
				for _, p := range ind(i).Spouses() {
					xs = append(xs, ent(p))
				}
				return c14Comma(xs)
			})
			fm := call("Families()", func() string { return famIdx(ind(i).Families()) })
			par := call("Parents()", func() string { return famIdx(ind(i).Parents()) })
			ch := call("Children()", func() string { return strconv.Itoa(len(ind(i).Children())) })
			sck := call("SpouseChildren()", func() string {
				var keys []int
				for k := range ind(i).SpouseChildren() {
					if k == nil {
						keys = append(keys, -1)
					} else if j, ok := idx[k]; ok {
						keys = append(keys, j)
					} else {
						keys = append(keys, 1<<30)
					}
				}
				sort.Ints(keys)
				var xs []string
				for _, k := range keys {
					if k < 0 {
						xs = append(xs, "nil")
					} else {
						xs = append(xs, strconv.Itoa(k))
					}
				}
				return c14Comma(xs)
			})
			sn := call("Name().Surname()", func() string { return ind(i).Name().Surname() })
			if sn != "" && sn != "panic" {
				surnames[sn] = true
			}
			call("IndividualNode.String()", func() string { return ind(i).String() })
			call("IsLiving()", func() string { return fmt.Sprint(ind(i).IsLiving()) })
			call("Children().Individuals()", func() string { return fmt.Sprint(len(ind(i).Children().Individuals())) })
			call("IndividualNode.Warnings()", func() string {
				for _, w := range ind(i).Warnings() {
					_ = w.String()
				}
				return ""
			})
			parts = append(parts, fmt.Sprintf("I%d sp=%s fam=%s par=%s ch=%s sck=%s sn=%s n=%d", i, sp, fm, par, ch, sck, hexs(sn), len(ind(i).Names())))
		default:
			parts = append(parts, fmt.Sprintf("O%d", i))
		}
	}
	walk := call("Document.Warnings()", func() string {
		for _, w := range doc.Warnings() {
			_ = w.String()
		}
		return strconv.Itoa(total)
	})
	letters := call("GetIndexLetters(show)", func() string {
		ls := html.GetIndexLetters(doc, html.LivingVisibilityShow)
		if len(ls) == 0 {
			return "-"
		}
		return string(ls)
	})
	for _, vis := range []html.LivingVisibility{html.LivingVisibilityHide, html.LivingVisibilityPlaceholder} {
		vis := vis
		call("GetIndexLetters("+string(vis)+")", func() string { return string(html.GetIndexLetters(doc, vis)) })
	}
	sl := call("SurnameLink", func() string {
		for s := range surnames {
			html.NewSurnameLink(s).WriteHTMLTo(&bytes.Buffer{})
		}
		return strconv.Itoa(len(surnames))
	})
	return strings.Join(parts, " ") + fmt.Sprintf(" | walk=%s letters=%s surnames=%s", walk, letters, sl), panicked
}

var c14PanicSite = regexp.MustCompile(`panic:[A-Za-z]+`)

// ---------------------------------------------------------------------------------------------
// (S) the real binary in child processes

type c14Run struct {
	file    string // path
	text    string
	mask    int
	kind    string   // warnings | publish | diff | query
	args    []string // argv after the binary
	model   string   // c14cmd request ("" = none)
	outDir  string
	class   string
	detail  string
	elapsed time.Duration
	limit   time.Duration // 0 = the default limit per command
	label   string        // what kind of file ("" = fault matrix)
}

var c14GoPanic = regexp.MustCompile(`(?m)^(panic:|fatal error:|goroutine \d+ \[|\[signal SIG)`)
var c14Frame = regexp.MustCompile(`(?m)^\s+\S*/((?:cmd/gedcom/|html/|html/core/|q/|util/)?[a-z_0-9]+\.go):(\d+)`)

// c14Classify maps exit status + stderr to {output, error, panic, fatal, timeout}.
func c14Classify(err error, timedOut bool, stderr string) (class, detail string) {
	if timedOut {
		return "timeout", "no exit within the time limit"
	}
	if loc := c14GoPanic.FindStringIndex(stderr); loc != nil {
		class = "panic"
		if strings.Contains(stderr, "fatal error:") {
			class = "fatal"
		}
		first := ""
		for _, l := range strings.Split(stderr, "\n") {
			if strings.HasPrefix(l, "panic:") || strings.HasPrefix(l, "fatal error:") {
				first = l
				break
			}
		}
		site := ""
		// first frame inside the repository
		for _, m := range c14Frame.FindAllStringSubmatch(stderr, -1) {
			if !strings.Contains(m[0], "/usr/") && !strings.Contains(m[0], "/go/pkg/") && !strings.Contains(m[0], "runtime/") {
				site = m[1] + ":" + m[2]
				break
			}
		}
		return class, strings.TrimSpace(first) + " @ " + site
	}
	if err != nil {
		if ee, ok := err.(*exec.ExitError); ok && ee.ExitCode() > 0 {
			msg := strings.TrimSpace(stderr)
			if i := strings.IndexByte(msg, '\n'); i > 0 {
				msg = msg[:i]
			}
			return "error", msg
		}
		return "fatal", "killed: " + err.Error()
	}
	return "output", ""
}

func c14Exec(bin string, run *c14Run, limit time.Duration) {
	if run.kind == "publish" {
		os.MkdirAll(run.outDir, 0o755) // publish only adds files to an existing directory
	}
	ctx, cancel := context.WithTimeout(context.Background(), limit)
	defer cancel()
	cmd := exec.CommandContext(ctx, bin, run.args...)
	var stderr bytes.Buffer
	cmd.Stderr = &stderr
	cmd.Stdout = nil
	cmd.Env = append(os.Environ(), "GOTRACEBACK=all", "GOMEMLIMIT=2GiB")
	cmd.Env = append(cmd.Env, c14ExtraEnv...)
	t0 := time.Now()
	err := cmd.Run()
	run.elapsed = time.Since(t0)
	run.class, run.detail = c14Classify(err, ctx.Err() == context.DeadlineExceeded, stderr.String())
	if run.outDir != "" {
		os.RemoveAll(run.outDir)
	}
}

// c14BuildBinary builds cmd/gedcom from the tree under test.
func c14BuildBinary(dir string) (string, error) {
	repo := os.Getenv("VERIF_REPO")
	if repo == "" {
		repo = "/repo"
	}
	out := filepath.Join(dir, "gedcom")
	cmd := exec.Command("go", "build", "-o", out, "./cmd/gedcom")
	cmd.Dir = repo
	cmd.Env = append(os.Environ(), "GOFLAGS=-mod=mod", "GOPROXY=off", "GOSUMDB=off", "GOTOOLCHAIN=local")
	if b, err := cmd.CombinedOutput(); err != nil {
		return "", fmt.Errorf("go build ./cmd/gedcom in %s: %v\n%s", repo, err, b)
	}
	return out, nil
}

// the example queries of the q package documentation (q/doc.go)
var c14Queries = []string{
	`.Individuals | .Name`,
	`.Individuals | .Name | .String`,
	`.Individuals | NodesWithTagPath("DEAT")`,
	`.Individuals | NodesWithTagPath("BIRT", "DATE")`,
	`Births are .Individuals | NodesWithTagPath("BIRT", "DATE") | {type: "birth", date: .String}; Deaths are .Individuals | NodesWithTagPath("DEAT", "DATE") | {type: "death", date: .String}; Combine(Births, Deaths)`,
	`.Individuals | Only(.Age > 100)`,
	`.Individuals | ?`,
	`Names are .Individuals | .Name; Names | .String`,
	`Indi is .Individuals; Names are Indi | .Name; Names | .String`,
	`.Individuals | { name: .Name | .String, born: .Birth | .String }`,
	`.Individuals | {}`,
	`.Individuals | Length`,
	`.Individuals | First(3) | { name: .Name | .String, born: .Birth | .String, died: .Death | .String}`,
	`.Individuals | Last(2)`,
	`.Individuals | .Name | Only(.GivenName = "John") | .String`,
	`.Individuals | Only(.IsLiving) | { name: .Name | .String, age: .Age | .String}`,
	`MergeDocumentsAndIndividuals(Document1, Document2)`,
	`.Families | { husband: .Husband | .String, wife: .Wife | .String, children: .Children }`,
	`.Individuals | { spouses: .Spouses, parents: .Parents, families: .Families }`,
}

// filter flags of diff (they decide what FilterFlags.Filter keeps before the page asserts the kind)
var c14FilterFlags = [][]string{nil, {"-only-vitals"}, {"-only-official", "-hide-equal"}, {"-no-events", "-no-places", "-no-sources"},
	{"-name-format", "unmodified"}, {"-no-duplicate-names", "-no-empty-deaths"}, {"-name-format", "index", "-no-residences", "-no-censuses"}}

var c14Groups = []string{"-no-individuals", "-no-places", "-no-families", "-no-surnames", "-no-sources", "-no-statistics"}

func init() {
	runners["C14"] = func(c *Ctx) {
		c.Rule = "fault matrix: random family graphs (1-8 people, 0-3 families, sources, living/dead by every rule) x subsets of 12 structural faults (quick: none, every single, every pair, all, random; thorough: all 4096 subsets) x commands {warnings, publish -living show|hide|placeholder x page-group subsets x jobs, diff x -show x -sort, query x documented examples}; distinct = (fault subset, command variant, outcome class)"
		c.Compare = func(req, impl, model string) bool {
			model = c14PanicSite.ReplaceAllString(model, "panic")
			if strings.HasPrefix(req, "c14cmd ") {
				// The command-level model lists the modelled calls a command *may* reach (diff skips
				// relatives of dissimilar people, pages are skipped per option), so it is compared in
				// the sound direction: where the model says "ok" the command must not crash. With the
				// repaired guards the model says "ok" for every file, i.e. this is exact.
				return !(model == "ok" && impl != "ok")
			}
			return impl == model
		}
		now := time.Now().Year()
		tmp, err := os.MkdirTemp("", "c14-")
		if err != nil {
			panic(err)
		}
		defer os.RemoveAll(tmp)
		bin, err := c14BuildBinary(tmp)
		if err != nil {
			panic(err)
		}

		// ---- the fault subsets of the tier
		var masks []int
		if c.Quick() {
			masks = append(masks, 0)
			for i := 0; i < c14NFaults; i++ {
				masks = append(masks, 1<<i)
			}
			for i := 0; i < c14NFaults; i++ {
				for j := i + 1; j < c14NFaults; j++ {
					masks = append(masks, 1<<i|1<<j)
				}
			}
			masks = append(masks, 1<<c14NFaults-1)
			for k := 0; k < 40; k++ {
				masks = append(masks, c.R.Intn(1<<c14NFaults))
			}
		} else {
			for m := 0; m < 1<<c14NFaults; m++ {
				masks = append(masks, m)
			}
		}

		// a well-formed file as the other side of diff / second document of the merge query
		okFile := filepath.Join(tmp, "ok.ged")
		okGraph := c14Base(c.R.Fork("ok"), now)
		for k, nm := range []string{"雷 /李/", "Иван /Петров/", "É /Ü/", "李 伟", "山田 太郎", "Ωμέγα", "/Ø/", "-", "\u0301", "Ж", "Παπαδόπουλος /Κωνσταντίνος/"} {
			okGraph.indis = append(okGraph.indis, &c14Indi{ptr: fmt.Sprintf("N%d", k+1), names: []string{nm}, surn: "\x00",
				evs: []c14Ev{{tag: "BIRT", date: "1 Jan 1850", hasDate: true}, {tag: "DEAT", value: "Y"}}})
		}
		okText := okGraph.Text()
		os.WriteFile(okFile, []byte(okText), 0o644)

		var runs []*c14Run
		mergeHung := false
		showVals := []string{"all", "subset", "only-matches"}
		sortVals := []string{"written-name", "highest-similarity"}
		// degenerate files every tier runs: empty, blank lines, HEAD only, one living person, one
		// nameless person, a family only
		specials := []string{"", "\n\n", "0 HEAD\n", "0 @I1@ INDI\n1 NAME Liv /Ing/\n", "0 @I1@ INDI\n", "0 @F1@ FAM\n1 HUSB @F1@\n1 CHIL\n",
			"0 HEAD\n0 @I1@ INDI\n1 NAME /Ünal/\n1 DEAT Y\n", "0 INDI\n0 FAM\n0 SOUR\n"}
		for range specials {
			masks = append(masks, -1)
		}
		nspecial := 0
		for fi, mask := range masks {
			r := c.R.Fork(fmt.Sprintf("file%d", fi))
			var text string
			if mask < 0 {
				text = specials[nspecial]
				nspecial++
				mask = 0
				c.Count("special-file")
			} else {
				g := c14Base(r, now)
				c14Apply(r, g, mask)
				text = g.Text()
				// the records around the people: a header variant in rotation, other records at random
				hv := fi % len(c14HeaderNames)
				text = c14WithRecords(text, c14Header(r, hv), c14OtherRecords(r))
				c.Count("header=" + c14HeaderNames[hv])
			}
			c.Count("faults=" + strconv.Itoa(c14popcount(mask)))
			for i := 0; i < c14NFaults; i++ {
				if mask&(1<<i) != 0 {
					c.Count("fault:" + c14FaultNames[i])
				}
			}
			doc, err := gedcom.NewDocumentFromString(text)
			if err != nil {
				// outside the quantifier (the decoder rejects it): the generator is wrong
				c.Oracle("", "generator produced a file the decoder rejects", map[string]string{"file": text}, err.Error(), "decodable")
				continue
			}
			c.Count(fmt.Sprintf("people=%d", len(doc.Individuals())))
			c.Count(fmt.Sprintf("families=%d", len(doc.Families())))
			if fi < 3 {
				c.Sample(map[string]string{"faults": c14MaskNames(mask), "file": text})
			}

			// (T1) library layer
			forest := abstractNodes(doc.Nodes())
			obs, panicked := c14Observe(text)
			c.Tie("c14res "+encForest(forest), obs)
			c.Eval()
			c.Nontrivial("lib/" + c14MaskNames(mask))
			for _, what := range panicked {
				c.Oracle("", "library traversal panics on a decodable file: "+what,
					map[string]string{"faults": c14MaskNames(mask), "file": text, "call": what}, "panic", "a value")
			}

			// (T1d) one place page per key of the place map, each rendered (placesMap[key] is dereferenced)
			{
				obs := c14Rec(func() string {
					d2, _ := gedcom.NewDocumentFromString(text)
					opts := &html.PublishShowOptions{ShowPlaces: true, LivingVisibility: html.LivingVisibilityShow}
					pub := html.NewPublisher(d2, opts)
					places := pub.Places()
					var keys []string
					for k := range places {
						keys = append(keys, k)
					}
					sort.Strings(keys)
					var hx []string
					for _, k := range keys {
						if out := c17render(html.NewPlacePage(d2, k, "", opts, nil, places)); strings.HasPrefix(out, "panic") {
							return "panic"
						}
						hx = append(hx, hexs(k))
					}
					return c14Comma(hx)
				})
				req := "c14places"
				if obs != "-" && obs != "panic" {
					req += " " + strings.ReplaceAll(obs, ",", " ")
				}
				if obs != "panic" {
					c.Tie(req, obs)
				} else {
					c.Oracle("", "a place page panics on a decodable file", map[string]string{"file": text}, "panic", "a page")
				}
				c.Eval()
			}

			// (history) q's MergeDocumentsAndIndividuals in ONE engine: evaluated twice on the same two
			// documents, then with the same document on both sides, then on a third document
			if fi%4 == 0 && !mergeHung {
				// in a child process: the comparison runs in goroutines of the library, where a panic
				// cannot be recovered and would end the harness instead of being reported
				obs, mergeDetail := c14MergeHistoryChild(tmp, text, okText)
				c.Eval()
				c.Count("merge history in one engine: " + obs)
				if obs == "timeout" {
					// the goroutine stays blocked; no further in-process merges (fail fast)
					mergeHung = true
					c.Notes = append(c.Notes, "fail fast: the in-process merge histories were skipped after one did not return within 20 s")
					c.Oracle("", "MergeDocumentsAndIndividuals in one engine does not return (hang)", map[string]string{"faults": c14MaskNames(mask), "file": text, "other_file": okText}, "no result within 20 s", "a result or an error")
				}
				if obs == "panic" {
					c.Oracle("", "MergeDocumentsAndIndividuals evaluated repeatedly in one engine panics", map[string]string{"faults": c14MaskNames(mask), "file": text, "other_file": okText}, "panic: "+mergeDetail, "a result or an error")
				}
			}

			// living bits for the publish prediction (real IsLiving, fresh document: Observe warmed caches)
			living := make([]byte, len(doc.Nodes()))
			for i, n := range doc.Nodes() {
				living[i] = '0'
				if p, ok := n.(*gedcom.IndividualNode); ok && c14Rec(func() string { return fmt.Sprint(p.IsLiving()) }) == "true" {
					living[i] = '1'
				}
			}
			bits := func(f func(l byte) bool) string {
				if len(living) == 0 {
					return "-"
				}
				out := make([]byte, len(living))
				for i, l := range living {
					out[i] = '0'
					if f(l) {
						out[i] = '1'
					}
				}
				return string(out)
			}

			file := filepath.Join(tmp, fmt.Sprintf("f%05d.ged", fi))
			os.WriteFile(file, []byte(text), 0o644)
			enc := encForest(forest)
			add := func(kind string, model string, outDir string, args ...string) {
				runs = append(runs, &c14Run{file: file, text: text, mask: mask, kind: kind, args: args, model: model, outDir: outDir})
			}
			// warnings
			add("warnings", "c14cmd warnings 0 0 0 - - "+enc, "", "warnings", file)
			// publish × 3 visibilities × page-group subsets
			for vi, vis := range []string{"show", "hide", "placeholder"} {
				variants := 1
				if !c.Quick() {
					variants = 2
				}
				for v := 0; v < variants; v++ {
					gm := 0 // groups switched off
					if !(vis == "show" && v == 0) {
						gm = r.Intn(1 << len(c14Groups))
					}
					if c.Quick() && vi == 1+fi%2 {
						gm = 1 << uint((fi/2)%len(c14Groups)) // every single group off, in turn
					}
					out := filepath.Join(tmp, fmt.Sprintf("out-%d-%s-%d", fi, vis, v))
					args := []string{"publish", "-gedcom", file, "-output-dir", out, "-living", vis, "-jobs", strconv.Itoa(1 + r.Intn(4))}
					si, sf, ss := "1", "1", "1"
					for gi, gname := range c14Groups {
						if gm&(1<<gi) != 0 {
							args = append(args, gname)
							if gi == 0 {
								si = "0"
							}
							if gi == 2 {
								sf = "0"
							}
							if gi == 3 {
								ss = "0"
							}
						}
					}
					listed := bits(func(l byte) bool { return vis != "hide" || l == '0' })
					paged := bits(func(l byte) bool { return vis == "show" || l == '0' })
					add("publish", fmt.Sprintf("c14cmd publish %s %s %s %s %s %s", si, sf, ss, listed, paged, enc), out, args...)
				}
			}
			// diff × -show × -sort
			nd := 1
			if !c.Quick() {
				nd = 2
			}
			for v := 0; v < nd; v++ {
				k := fi*nd + v
				right := okFile
				if k%3 == 1 {
					right = file
				}
				left := file
				if k%5 == 4 {
					left, right = right, left
				}
				out := filepath.Join(tmp, fmt.Sprintf("diff-%d-%d.html", fi, v))
				add("diff", "c14cmd diff 0 0 0 - - "+enc, out, append([]string{"diff", "-left-gedcom", left, "-right-gedcom", right, "-output", out},
					append([]string{"-show", showVals[k%3], "-sort", sortVals[(k/3)%2], "-jobs", strconv.Itoa(1 + k%2)}, c14FilterFlags[k%len(c14FilterFlags)]...)...)...)
			}
			// query × documented examples
			nq := 1
			if !c.Quick() {
				nq = 2
			}
			for v := 0; v < nq; v++ {
				q := c14Queries[(fi*nq+v)%len(c14Queries)]
				args := []string{"query", "-gedcom", file}
				if strings.HasPrefix(q, "MergeDocuments") {
					args = append(args, "-gedcom", okFile, "-format", "gedcom")
				} else {
					args = append(args, "-format", []string{"json", "pretty-json", "csv", "gedcom", "html"}[(fi+v)%5])
				}
				add("query", "", "", append(args, q)...)
			}
		}

		// ---- (T1b) NAME value -> surname -> index letter, on the awkward spellings
		var nameVals []string
		for _, sn := range append(append([]string{}, c14OddSurn...), c14Surname...) {
			nameVals = append(nameVals, "Ann /"+sn+"/", "/"+sn+"/", sn, "Ann  /"+sn+"  x/ Jr", "/"+sn)
		}
		nameVals = append(nameVals, "Ann /Sm     ith/", "Ann      /Smith/", "/     Smith/", "/Smith     /", "      ", "a       /b        c/      d",
			"Ann /Sm      i       th/", "/  \u00a0     x/")
		nameVals = append(nameVals, "", " ", "/", "//", "/ /", "a/b/c/d", "  /  Two  Spaces  /", "x /\u00a0nbsp/", "\xff/\xfe/", "/\xc3/", "Kid", "A /b/ /c/")
		for k := c.N(200, 5000); k > 0; k-- {
			alphabet := []string{"/", " ", "  ", "     ", "        ", "a", "Z", "é", "K", "İ", "1", "#", "\u00a0", "\xff", "-"}
			var b strings.Builder
			for j := c.R.Intn(7); j > 0; j-- {
				b.WriteString(c.R.Pick(alphabet))
			}
			nameVals = append(nameVals, b.String())
		}
		for _, v := range nameVals {
			v := v
			obs := c14Rec(func() string {
				sn := gedcom.NewNameNode(v).Surname()
				doc := gedcom.NewDocument()
				doc.AddIndividual("I1", gedcom.NewNameNode(v))
				ls := html.GetIndexLetters(doc, html.LivingVisibilityShow)
				return hexs(sn) + " " + string(ls)
			})
			c.Tie("c14name "+hexs(v), obs)
			c.Eval()
			c.Count("name-case")
			if obs == "panic" {
				c.Oracle("", "Surname / GetIndexLetters panics on a NAME value", map[string]string{"name": v}, "panic", "a letter")
			}
		}

		// ---- (T1c) which events IndividualDates shows, which date EventDate writes
		evLabel := regexp.MustCompile(`<em>([a-z]+)\.</em> (\d+)`)
		for nb := 0; nb < 3; nb++ {
			for nbap := 0; nbap < 3; nbap++ {
				for nd := 0; nd < 3; nd++ {
					for nbu := 0; nbu < 3; nbu++ {
						var b strings.Builder
						b.WriteString("0 @I1@ INDI\n")
						for _, e := range []struct {
							tag string
							n   int
						}{{"BIRT", nb}, {"BAPM", nbap}, {"DEAT", nd}, {"BURI", nbu}} {
							for i := 0; i < e.n; i++ {
								fmt.Fprintf(&b, "1 %s\n2 DATE %d\n", e.tag, 1000+i) // year 1000+i marks the i-th event
							}
						}
						text := b.String()
						obs := c14Rec(func() string {
							doc, _ := gedcom.NewDocumentFromString(text)
							out := c17render(html.NewIndividualDates(doc.Individuals()[0], html.LivingVisibilityShow))
							var ls []string
							for _, m := range evLabel.FindAllStringSubmatch(out, -1) {
								y, _ := strconv.Atoi(m[2])
								ls = append(ls, fmt.Sprintf("%s%d", m[1], y-1000))
							}
							return c14Comma(ls)
						})
						c.Tie(fmt.Sprintf("c14evd %d %d %d %d", nb, nbap, nd, nbu), obs)
						c.Eval()
						if obs == "panic" {
							c.Oracle("", "IndividualDates panics", map[string]string{"file": text}, "panic", "dates")
						}
					}
				}
			}
		}
		for n := 0; n < 4; n++ {
			n := n
			obs := c14Rec(func() string {
				var ds gedcom.DateNodes
				for i := 0; i < n; i++ {
					ds = append(ds, gedcom.NewDateNode(strconv.Itoa(1000+i)))
				}
				out := c17render(html.NewEventDate("x.", ds))
				if m := regexp.MustCompile(`</em> (\d+)`).FindStringSubmatch(out); m != nil {
					y, _ := strconv.Atoi(m[1])
					return strconv.Itoa(y - 1000)
				}
				if out == "" {
					return "-"
				}
				return out
			})
			c.Tie(fmt.Sprintf("c14evdate %d", n), obs)
			c.Eval()
		}

		// ---- a few LARGE files: more than 1000 individuals / families / places / sources
		{
			type big struct{ n, fam, places, sour int }
			sizes := []big{{1001, 500, 300, 10}}
			wide := []big{{200, 1001, 1001, 1001}}
			if !c.Quick() {
				sizes = append(sizes, big{1025, 1100, 1030, 1001}, big{2050, 1030, 2050, 30})
			}
			emptyFile := filepath.Join(tmp, "empty-tree.ged")
			os.WriteFile(emptyFile, []byte("0 HEAD\n1 CHAR UTF-8\n0 TRLR\n"), 0o644)
			addBig := func(label, kind, text, outDir string, args ...string) {
				runs = append(runs, &c14Run{file: args[0], text: text, kind: kind, args: args[1:], outDir: outDir,
					limit: 300 * time.Second, label: label})
			}
			for _, sz := range append(sizes, wide...) {
				label := fmt.Sprintf("large file: %d individuals, %d families, %d places, %d sources", sz.n, sz.fam, sz.places, sz.sour)
				file := filepath.Join(tmp, fmt.Sprintf("big-%d-%d.ged", sz.n, sz.fam))
				renum := filepath.Join(tmp, fmt.Sprintf("big-%d-%d-renumbered.ged", sz.n, sz.fam))
				os.WriteFile(file, []byte(c14Large(sz.n, sz.fam, sz.places, sz.sour, "I")), 0o644)
				os.WriteFile(renum, []byte(c14Large(sz.n, sz.fam, sz.places, sz.sour, "P")), 0o644)
				c.Count(label)
				regen := fmt.Sprintf("(generated; print it with: /verif/.build/gvh worker c14large %d %d %d %d I   — the renumbered copy with prefix P, the empty tree is 0 HEAD / 1 CHAR UTF-8 / 0 TRLR)", sz.n, sz.fam, sz.places, sz.sour)
				out := func(s string) string { return filepath.Join(tmp, fmt.Sprintf("big-%d-%d-%s", sz.n, sz.fam, s)) }
				addBig(label, "warnings", regen, "", file, "warnings", file)
				addBig(label, "query", regen, "", file, "query", "-gedcom", file, "-format", "json", ".Individuals | Length")
				addBig(label+" merged with an empty tree", "query", regen, "", file, "query", "-gedcom", file, "-gedcom", emptyFile, "-format", "gedcom",
					"MergeDocumentsAndIndividuals(Document1, Document2)")
				if sz.n > 1000 {
					addBig(label+" vs an empty tree", "diff", regen, out("d1.html"), file, "diff", "-left-gedcom", file, "-right-gedcom", emptyFile, "-output", out("d1.html"))
					addBig(label+" vs itself", "diff", regen, out("d2.html"), file, "diff", "-left-gedcom", file, "-right-gedcom", file, "-output", out("d2.html"), "-jobs", "8")
					addBig(label+" vs a renumbered copy", "diff", regen, out("d3.html"), file, "diff", "-left-gedcom", emptyFile, "-right-gedcom", renum, "-output", out("d3.html"), "-show", "only-matches")
					if !c.Quick() {
						addBig(label+" vs a renumbered copy", "diff", regen, out("d4.html"), file, "diff", "-left-gedcom", file, "-right-gedcom", renum, "-output", out("d4.html"), "-jobs", "8",
							"-sort", "highest-similarity")
						addBig(label, "publish", regen, out("pub"), file, "publish", "-gedcom", file, "-output-dir", out("pub"), "-living", "placeholder", "-jobs", "8")
					}
				} else {
					addBig(label, "publish", regen, out("pub"), file, "publish", "-gedcom", file, "-output-dir", out("pub"), "-living", "hide", "-jobs", "8")
					addBig(label+" vs itself", "diff", regen, out("d2.html"), file, "diff", "-left-gedcom", file, "-right-gedcom", file, "-output", out("d2.html"), "-jobs", "8")
				}
			}
		}

		// ---- tiny individuals, more than 2 x 1000 of them matched by pointer: the same tree on both
		// sides fills both 1000-slot buffers of the comparison pipeline and its workers (threshold 2001 +
		// jobs). A hang ends in the large-run time limit: "ends in a timeout".
		{
			sizes := []int{2100}
			if !c.Quick() {
				sizes = append(sizes, 2002, 2001, 3000)
			}
			for _, n := range sizes {
				file := filepath.Join(tmp, fmt.Sprintf("tiny-%d.ged", n))
				os.WriteFile(file, []byte(c14Sized(n)), 0o644)
				label := fmt.Sprintf("large file of tiny individuals: %d individuals, %d families, the same tree on both sides", n, n/2)
				regen := fmt.Sprintf("(generated: %d individuals `0 @I<i>@ INDI / 1 NAME G<i> /S<i%%7>/ / 1 BIRT / 2 DATE 1800+i%%150`, %d families HUSB 2f-1, WIFE 2f, CHIL 2f%%n+1)", n, n/2)
				c.Count(label)
				o := filepath.Join(tmp, fmt.Sprintf("tiny-%d.html", n))
				runs = append(runs,
					&c14Run{text: regen, kind: "diff", outDir: o, limit: 300 * time.Second, label: label,
						args: []string{"diff", "-left-gedcom", file, "-right-gedcom", file, "-output", o, "-show", "only-matches", "-jobs", "2"}},
					&c14Run{text: regen, kind: "query", limit: 300 * time.Second, label: label + ", merged",
						args: []string{"query", "-gedcom", file, "-gedcom", file, "-format", "gedcom", "MergeDocumentsAndIndividuals(Document1, Document2)"}})
			}
		}

		// ---- the boundary corpus: byte boundaries of references, counts, sizes x jobs, flags, sinks
		c14BoundaryRuns(c, tmp, &runs)
		c14OpsReachRuns(c, tmp, &runs)

		// ---- run the commands in parallel child processes
		nw := runtime.NumCPU()
		if nw > 16 {
			nw = 16
		}
		jobs := make(chan *c14Run)
		var wg sync.WaitGroup
		var hangMu sync.Mutex
		hangs := map[string]int{}
		for w := 0; w < nw; w++ {
			wg.Add(1)
			go func() {
				defer wg.Done()
				for run := range jobs {
					limit := run.limit
					if limit == 0 {
						limit = 30 * time.Second
					}
					// fail fast: after three runs of a command have hung, the remaining runs of that command
					// are skipped (each would wait for its time limit; the hang is already a failing input)
					stream := run.kind
					if len(run.args) > 0 {
						stream = run.args[0]
					}
					hangMu.Lock()
					skip := hangs[stream] >= 3
					hangMu.Unlock()
					if skip {
						run.class, run.detail = "skipped", "three earlier runs of gedcom "+stream+" timed out"
						continue
					}
					c14Exec(bin, run, limit)
					if run.class == "timeout" {
						hangMu.Lock()
						hangs[stream]++
						hangMu.Unlock()
					}
				}
			}()
		}
		for _, run := range runs {
			jobs <- run
		}
		close(jobs)
		wg.Wait()

		var slowest time.Duration
		skipped := map[string]int{}
		for _, run := range runs {
			c.Eval()
			if run.elapsed > slowest {
				slowest = run.elapsed
			}
			variant := run.kind
			if run.kind == "publish" && len(run.args) > 6 {
				variant += "/" + run.args[6]
			}
			c.Count("cmd=" + variant)
			c.Count("class=" + run.class)
			if run.class == "error" {
				c.Count("error:" + run.kind + ": " + c14ErrClass(run.detail))
			}
			faults := c14MaskNames(run.mask)
			if run.label != "" {
				faults = run.label
				c.Count("special run (large / boundary): " + run.kind + " -> " + run.class)
			}
			c.Nontrivial(faults + "/" + variant + "/" + run.class)
			if run.class == "skipped" {
				if len(run.args) > 0 {
					skipped[run.args[0]]++
				}
				continue
			}
			cls := "ok"
			switch run.class {
			case "panic", "fatal", "timeout":
				cls = "panic"
				argv := append([]string{"gedcom"}, run.args...)
				site := run.detail
				if i := strings.LastIndex(site, " @ "); i >= 0 {
					site = site[i+3:]
				}
				c.Oracle("", fmt.Sprintf("gedcom %s ends in a %s on a decodable file (at %s)", variant, run.class, site),
					map[string]interface{}{"faults": faults, "argv": strings.Join(argv, " "), "file": run.text,
						"other_file_of_diff_or_merge": okText},
					run.class+": "+run.detail, "output or an error message")
			}
			if run.model != "" {
				c.Tie(run.model, cls)
			}
		}
		for stream, n := range skipped {
			c.Notes = append(c.Notes, fmt.Sprintf("fail fast: %d further runs of gedcom %s were skipped after three runs of it ended in a timeout (see the failing inputs)", n, stream))
		}
		c14ReportSites(c)
		c14TotalityRuns(c)
		c14ReportOps(c, c14CoverageRuns(c, tmp, runs))
		c.Notes = append(c.Notes, fmt.Sprintf("%d files, %d command runs of the real cmd/gedcom binary (built from the tree under test), slowest %.2fs", len(masks), len(runs), slowest.Seconds()))
		c.Untied = append(c.Untied, "page components of html/ that do not index file-derived lists, the q evaluator (C15) and the similarity arithmetic behind diff are covered by execution (oracle S) only, not by the model")
	}
}

// c14ErrClass reduces an error message to its stable part (no paths, no timestamps).
func c14ErrClass(msg string) string {
	if i := strings.Index(msg, "ERROR:"); i >= 0 {
		msg = msg[i:]
	}
	msg = regexp.MustCompile(`/\S+`).ReplaceAllString(msg, "<path>")
	if len(msg) > 80 {
		msg = msg[:80]
	}
	return msg
}

func c14popcount(m int) int {
	n := 0
	for ; m != 0; m &= m - 1 {
		n++
	}
	return n
}
