package main

// C07, round 2: DeepCopy and the documents involved (families added to the destination, copying
// into the source's own document, role nodes as the root of a copy), nil nodes, nil document.

import (
	"fmt"
	"strings"

	"github.com/elliotchance/gedcom/v39"
)

// c07document2: documents with role nodes in every position the decoder accepts — directly below
// their FAM, nested below another node of the FAM record, several families, a family without a
// pointer, the same individual in several roles.
func c07document2(r *Rand) string {
	var sb strings.Builder
	ni := 1 + r.Intn(3)
	for i := 1; i <= ni; i++ {
		fmt.Fprintf(&sb, "0 @I%d@ INDI\n1 NAME %s /%s/\n", i, r.Pick([]string{"Ann", "Bob"}), r.Pick([]string{"Smith", "Jones"}))
		if r.Chance(1, 3) {
			fmt.Fprintf(&sb, "1 FAMS @F1@\n")
		}
		if r.Chance(1, 2) {
			fmt.Fprintf(&sb, "1 %s\n2 DATE %s\n", r.Pick([]string{"BIRT", "RESI", "EVEN"}), c07docDate(r))
		}
	}
	nf := 1 + r.Intn(3)
	for f := 1; f <= nf; f++ {
		if r.Chance(1, 8) {
			fmt.Fprintf(&sb, "0 FAM\n")
		} else {
			fmt.Fprintf(&sb, "0 @F%d@ FAM\n", f)
		}
		for k := r.Intn(4); k > 0; k-- {
			role := r.Pick([]string{"HUSB", "WIFE", "CHIL", "CHIL"})
			switch r.Intn(4) {
			case 0:
				fmt.Fprintf(&sb, "1 NOTE about\n2 %s @I%d@\n", role, 1+r.Intn(ni))
			case 1:
				fmt.Fprintf(&sb, "1 %s @I%d@\n2 NOTE adopted\n3 %s @I%d@\n", role, 1+r.Intn(ni), r.Pick([]string{"CHIL", "WIFE"}), 1+r.Intn(ni))
			default:
				fmt.Fprintf(&sb, "1 %s @I%d@\n", role, 1+r.Intn(ni))
			}
		}
		if r.Chance(1, 3) {
			fmt.Fprintf(&sb, "1 MARR\n2 DATE %s\n", c07docDate(r))
		}
	}
	if r.Chance(1, 3) {
		fmt.Fprintf(&sb, "0 @S1@ SOUR\n1 TITL t\n")
	}
	return sb.String()
}

func c07preorderNodes(roots gedcom.Nodes) []gedcom.Node {
	var all []gedcom.Node
	var walk func(n gedcom.Node)
	walk = func(n gedcom.Node) {
		all = append(all, n)
		for _, k := range n.Nodes() {
			walk(k)
		}
	}
	for _, n := range roots {
		walk(n)
	}
	return all
}

// c07ctx: the family the walk of DeepCopy falls back on — the family of the first role node that
// is met before any FAM node — as an object index of the document ("-" = none needed).
func c07ctx(node gedcom.Node, index map[gedcom.Node]int) (string, bool) {
	res, ok := "-", true
	done := false
	var walk func(n gedcom.Node)
	walk = func(n gedcom.Node) {
		if done {
			return
		}
		if _, isFam := n.(*gedcom.FamilyNode); isFam {
			done = true
			return
		}
		if fn, isRole := n.(gedcom.FamilyNoder); isRole {
			done = true
			if k, found := index[gedcom.Node(fn.Family())]; found {
				res = fmt.Sprint(k)
			} else {
				ok = false
			}
			return
		}
		for _, k := range n.Nodes() {
			walk(k)
		}
	}
	walk(node)
	return res, ok
}

// c07docCopy: copy object k of a freshly decoded document into an empty document or into the
// document itself; correspondence (`copyd`) and oracle.
func c07docCopy(c *Ctx, text string, k int, same bool) {
	doc, err := gedcom.NewDocumentFromString(text)
	if err != nil {
		return
	}
	all := c07preorderNodes(doc.Nodes())
	if k >= len(all) {
		return
	}
	index := map[gedcom.Node]int{}
	for i, n := range all {
		index[n] = i
	}
	src := all[k]
	ctx, ok := c07ctx(src, index)
	if !ok {
		c.Count("copyd:family-outside-document")
		return
	}
	forest := abstractNodes(doc.Nodes())
	req := fmt.Sprintf("copyd %s %s %d %s", bit(same), ctx, k, encForest(forest))
	dst := gedcom.NewDocument()
	if same {
		dst = doc
	}
	recsBefore := append(gedcom.Nodes{}, doc.Nodes()...)
	var recText []string
	for _, rec := range recsBefore {
		recText = append(recText, rec.GEDCOMString(0))
	}
	dstBefore := append(gedcom.Nodes{}, dst.Nodes()...)
	srcText := src.GEDCOMString(0)
	in := map[string]string{"case": fmt.Sprintf("DeepCopy(object %d of the document, %s)", k, map[bool]string{true: "the same document", false: "an empty document"}[same]),
		"document": text, "node": srcText, "request": req}
	cp, panicked := c07copy(src, dst)
	c.Eval()
	label := "other"
	if same {
		label = "same"
	}
	if panicked {
		c.Tie(req, "panic")
		c.Count("copyd:" + label + ":" + src.Tag().Tag() + "=panic")
		c.Oracle("", "DeepCopy panics for a node of a decoded document", in, "panic", "a copy that is deep-equal to the node")
		return
	}
	// observation
	cpIDs := map[gedcom.Node]bool{}
	c07identity(cp, cpIDs)
	fresh := true
	for n := range cpIDs {
		if _, isOld := index[n]; isOld {
			fresh = false
		}
	}
	after := dst.Nodes()
	prefix := len(after) >= len(dstBefore)
	for i := range dstBefore {
		if prefix && after[i] != dstBefore[i] {
			prefix = false
		}
	}
	var added gedcom.Nodes
	if prefix {
		added = after[len(dstBefore):]
	}
	redirected := ""
	for _, a := range added {
		if a.Pointer() == "" {
			continue
		}
		got := dst.NodeByPointer(a.Pointer())
		isNew := false
		for _, b := range added {
			if got == b {
				isNew = true
			}
		}
		redirected += bit(isNew)
	}
	c.Tie(req, fmt.Sprintf("ok fresh=%s prefix=%s added=%s redirected=%s copy=%s", bit(fresh), bit(prefix),
		encForest(abstractNodes(added)), redirected, encTree(abstractNode(cp))))
	c.Count(fmt.Sprintf("copyd:%s:%s=ok added=%d", label, src.Tag().Tag(), len(added)))
	c.Nontrivial(fmt.Sprintf("copyd/%s/%s/ctx=%v/added=%d", label, src.Tag().Tag(), ctx != "-", len(added)))
	// (S) the clauses of the property
	if !fresh {
		c.Oracle("", "a deep copy shares a node with the source document", in, "shared node", "only new nodes")
	}
	if cp.GEDCOMString(0) != srcText {
		c.Oracle("", "a deep copy serialises differently from its source", in, cp.GEDCOMString(0), srcText)
	}
	if !gedcom.DeepEqual(src, cp) || !gedcom.DeepEqual(cp, src) {
		c.Oracle("", "a node is not deep-equal to a deep copy of itself", in, "DeepEqual=false", "true")
	}
	// copying leaves the source untouched: every record of the source document is the same object
	// with the same content (when the destination is the same document it may only have grown)
	now := doc.Nodes()
	if len(now) < len(recsBefore) || (!same && len(now) != len(recsBefore)) {
		c.Oracle("", "copying changed the record list of the source document", in, fmt.Sprint(len(now)), fmt.Sprint(len(recsBefore)))
	} else {
		for i, rec := range recsBefore {
			if now[i] != rec || rec.GEDCOMString(0) != recText[i] {
				c.Oracle("", "copying modified a record of the source document", in, now[i].GEDCOMString(0), recText[i])
				break
			}
		}
	}
	// changing the copy never changes the source
	c09style := c.R.Intn(3)
	func() {
		defer func() { recover() }()
		t := c07nth(cp, c.R.Intn(len(cpIDs)))
		switch c09style {
		case 0:
			t.AddNode(gedcom.NewNode(gedcom.TagFromString("NOTE"), "mutation", ""))
		case 1:
			t.SetNodes(nil)
		default:
			if ks := t.Nodes(); len(ks) > 0 {
				t.DeleteNode(ks[0])
			}
		}
	}()
	for i, rec := range recsBefore {
		if rec.GEDCOMString(0) != recText[i] {
			c.Oracle("", "changing the copy changed the source", in, rec.GEDCOMString(0), recText[i])
			break
		}
	}
}

func c07optForest(t *TNode) string {
	if t == nil {
		return "0"
	}
	return encForest([]*TNode{t})
}

func c07optNode(t *TNode, typed int) gedcom.Node {
	if t != nil {
		n, err := newPlain(t)
		if err != nil {
			return nil
		}
		return n
	}
	switch typed % 5 {
	case 1:
		return (*gedcom.SimpleNode)(nil)
	case 2:
		return (*gedcom.BirthNode)(nil)
	case 3:
		return (*gedcom.DateNode)(nil)
	case 4:
		return (*gedcom.ResidenceNode)(nil)
	}
	return nil
}

// c07nilCases: nil (untyped and typed) nodes in DeepEqual / Equals / DeepEqualNodes / DeepCopy, and
// DeepCopy with a nil document.
func c07nilCases(c *Ctx) {
	r := c.R
	g := &c07gen{r: r, small: true}
	safe := func(f func() string) (s string) {
		defer func() {
			if x := recover(); x != nil {
				s = "panic"
			}
		}()
		return f()
	}
	n := c.N(300, 5000)
	for i := 0; i < n; i++ {
		var ta, tb *TNode
		if r.Chance(2, 3) {
			ta = g.tree()
		}
		if r.Chance(1, 2) {
			tb = g.tree()
			if ta != nil && r.Bool() {
				tb = ta.Clone()
			}
		}
		a, b := c07optNode(ta, i), c07optNode(tb, i/5)
		obs := safe(func() string { return bit(gedcom.DeepEqual(a, b)) })
		c.Tie("deqo "+c07optForest(ta)+" "+c07optForest(tb), obs)
		c.Eval()
		c.Count(fmt.Sprintf("nil:deqo:%v,%v=%s", ta == nil, tb == nil, obs))
		c.Nontrivial(fmt.Sprintf("deqo/%v/%v/%s", ta == nil, tb == nil, obs))
		in := map[string]string{"case": "DeepEqual with nil", "left": c07optForest(ta), "right": c07optForest(tb)}
		if (ta == nil || tb == nil) && obs != "0" {
			c.Oracle("", "DeepEqual with a nil node is not false", in, obs, "0")
		}
		// Equals with nil on either side is false and does not panic
		if ta != nil && tb == nil {
			e := safe(func() string { return bit(a.Equals(b)) })
			if e != "0" {
				c.Oracle("", "Equals(nil) is not false", in, e, "0")
			}
		}
		if ta == nil && tb != nil && a != nil {
			e := safe(func() string { return bit(a.Equals(b)) })
			if e != "0" {
				c.Oracle("", "Equals on a nil receiver is not false", in, e, "0")
			}
		}
		// DeepEqualNodes with nil elements
		var l, rr []*TNode
		for k := r.Intn(4); k > 0; k-- {
			if r.Chance(1, 3) {
				l = append(l, nil)
			} else {
				l = append(l, g.node(0))
			}
		}
		perm := r.Perm(len(l))
		for _, j := range perm {
			if l[j] == nil {
				rr = append(rr, nil)
			} else {
				rr = append(rr, l[j].Clone())
			}
		}
		if r.Chance(1, 4) {
			rr = append(rr, nil)
		}
		var ln, rn gedcom.Nodes
		req := fmt.Sprintf("deqno %d", len(l))
		for j, t := range l {
			ln = append(ln, c07optNode(t, i+j))
			req += " " + c07optForest(t)
		}
		req += fmt.Sprintf(" %d", len(rr))
		for j, t := range rr {
			rn = append(rn, c07optNode(t, i+j+1))
			req += " " + c07optForest(t)
		}
		if len(ln) == 0 && r.Bool() {
			ln = nil
		}
		o2 := safe(func() string { return bit(gedcom.DeepEqualNodes(ln, rn)) })
		c.Tie(req, o2)
		c.Eval()
		c.Count("nil:deqno=" + o2)
		// DeepCopy(nil, doc) is nil; DeepCopy(node, nil) works unless the tree needs the document
		if ta == nil {
			o3 := safe(func() string { return bit(gedcom.IsNil(gedcom.DeepCopy(a, gedcom.NewDocument()))) })
			if o3 != "1" {
				c.Oracle("", "DeepCopy(nil) is not nil", in, o3, "nil")
			}
		} else {
			o3 := safe(func() string { return "ok " + hexs(gedcom.DeepCopy(a, nil).GEDCOMString(0)) })
			c.Tie("copynil "+encForest([]*TNode{ta}), o3)
			c.Eval()
			c.Count("nil:copynil:plain=" + o3[:2])
		}
	}
}

// c07round2 is called per generated document of the document stage.
func c07round2(c *Ctx, i int) {
	r := c.R
	text := c07document2(r)
	doc, err := gedcom.NewDocumentFromString(text)
	if err != nil {
		c.Count("doc2:decode-error")
		return
	}
	all := c07preorderNodes(doc.Nodes())
	if i < 2 {
		c.Sample(map[string]string{"document": text})
	}
	c07sameDocEdits(c, text, i)
	for k, n := range all {
		_, isRole := n.(gedcom.FamilyNoder)
		_, isFam := n.(*gedcom.FamilyNode)
		if isRole || isFam || r.Chance(1, 3) {
			c07docCopy(c, text, k, false)
			c07docCopy(c, text, k, true)
		}
		// nil document: INDI, FAM and role nodes need it
		if isRole || isFam || r.Chance(1, 4) {
			node := n
			obs := func() (s string) {
				defer func() {
					if x := recover(); x != nil {
						s = "panic"
					}
				}()
				return "ok " + hexs(gedcom.DeepCopy(node, nil).GEDCOMString(0))
			}()
			c.Tie("copynil "+encForest([]*TNode{abstractNode(n)}), obs)
			c.Eval()
			c.Count("nil:copynil:" + n.Tag().Tag() + "=" + obs[:2])
		}
	}
}

// c07sameDocEdits: two distinct record objects with the same pointer in the same document — a
// record deep-copied into its OWN document and then edited, and decoded documents in which two
// records share a pointer but differ in a child.  A tree that differs from another by an added,
// removed or changed plain node is never deep-equal to it, whichever document the nodes belong to.
func c07sameDocEdits(c *Ctx, text string, i int) {
	r := c.R
	doc, err := gedcom.NewDocumentFromString(text)
	if err != nil {
		return
	}
	recs := append(gedcom.Nodes{}, doc.Nodes()...)
	for _, rec := range recs {
		tag := rec.Tag().Tag()
		if tag != "INDI" && tag != "FAM" && !r.Chance(1, 3) {
			continue
		}
		dst := doc // the record's own document
		if d, ok := rec.(interface{ Document() *gedcom.Document }); ok && d.Document() != nil {
			dst = d.Document()
		}
		cp, panicked := c07copy(rec, dst)
		if panicked || gedcom.IsNil(cp) {
			continue
		}
		in := map[string]string{"document": text, "record": rec.GEDCOMString(0)}
		c.Eval()
		// unedited: deep-equal, both orders
		if !gedcom.DeepEqual(rec, cp) || !gedcom.DeepEqual(cp, rec) {
			in["case"] = "DeepCopy(record, its own document)"
			c.Oracle("", "a record is not deep-equal to a deep copy of itself in its own document", in, "DeepEqual=false", "true")
		}
		// one edit of a plain node on the copy
		what := ""
		all := c07preorderNodes(gedcom.Nodes{cp})
		target := all[r.Intn(len(all))]
		switch op := r.Intn(3); {
		case op == 0 || len(cp.Nodes()) == 0:
			target.AddNode(gedcom.NewNode(gedcom.TagFromString("NOTE"), "added to the copy", ""))
			what = "AddNode(NOTE) on the copy"
		case op == 1:
			ks := cp.Nodes()
			cp.DeleteNode(ks[r.Intn(len(ks))])
			what = "DeleteNode(child) on the copy"
		default: // a child replaced by a plain node with another value
			ks := cp.Nodes()
			cp.DeleteNode(ks[r.Intn(len(ks))])
			cp.AddNode(gedcom.NewNode(gedcom.TagFromString("NOTE"), "replacement", ""))
			what = "child of the copy replaced by a NOTE"
		}
		in["case"] = "DeepCopy(record, its own document), then " + what
		in["copy_after"] = cp.GEDCOMString(0)
		c.Count("same-doc-edit:" + tag)
		c.Nontrivial("same-doc-edit/" + tag + "/" + what)
		ab, ba := gedcom.DeepEqual(rec, cp), gedcom.DeepEqual(cp, rec)
		c.Tie("deq "+encForest([]*TNode{abstractNode(rec), abstractNode(cp)}), c07deq(rec, cp))
		if ab || ba {
			c.Oracle("", "a record and an edited copy of it in the same document are deep-equal", in,
				fmt.Sprintf("DeepEqual(source,copy)=%v DeepEqual(copy,source)=%v", ab, ba), "false both ways")
		}
	}
	// two records with the same pointer that differ in a child
	if i%2 == 0 {
		for _, tag := range []string{"INDI", "FAM", "SOUR"} {
			base := fmt.Sprintf("0 @P1@ %s\n1 NOTE common\n", tag)
			extra := r.Pick([]string{"1 NOTE only here\n", "1 OCCU x\n2 NOTE deep\n", "1 NOTE common\n"})
			txt := "0 @I9@ INDI\n1 NAME A /B/\n" + base + base + extra
			d2, err := gedcom.NewDocumentFromString(txt)
			if err != nil || len(d2.Nodes()) != 3 {
				continue
			}
			a, b := d2.Nodes()[1], d2.Nodes()[2]
			c.Eval()
			c.Count("same-pointer-records:" + tag)
			ab, ba := gedcom.DeepEqual(a, b), gedcom.DeepEqual(b, a)
			c.Tie("deq "+encForest([]*TNode{abstractNode(a), abstractNode(b)}), c07deq(a, b))
			if ab || ba {
				c.Oracle("", "two records with the same pointer that differ by an added node are deep-equal",
					map[string]string{"case": "decoded document with two records sharing a pointer", "document": txt},
					fmt.Sprintf("DeepEqual=%v/%v", ab, ba), "false both ways")
			}
		}
	}
}
