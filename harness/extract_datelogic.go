package main

import (
	"fmt"
	"go/ast"
	"go/parser"
	"go/token"
	"path/filepath"
	"strconv"
	"strings"
)

// Source translation of the decision logic of parseDateParts (date.go) for C04: the `months` map
// literal, the statements of parseDateParts in source order (which group feeds which number, the
// calendar check, the order and conditions of the two rejections, the fields of the returned
// Date) and the 4x4 matrix of Date.Equals with its index order.  Read with go/ast; a shape outside
// the fragment becomes `.bad` (or `none`) and is rejected by an obligation in Props/C04Source.lean,
// which also proves that interpreting these pieces is the hand-written model for all inputs.

var c04MonthNumber = map[string]int{"January": 1, "February": 2, "March": 3, "April": 4, "May": 5, "June": 6,
	"July": 7, "August": 8, "September": 9, "October": 10, "November": 11, "December": 12}

func c04LeanStr(s string) string { return strconv.Quote(s) }

// c04Grp: parts[xPos] -> the Lean group name
func c04Grp(e ast.Expr) string {
	ix, ok := e.(*ast.IndexExpr)
	if !ok {
		return ".bad"
	}
	if x, ok := ix.X.(*ast.Ident); !ok || x.Name != "parts" {
		return ".bad"
	}
	id, ok := ix.Index.(*ast.Ident)
	if !ok {
		return ".bad"
	}
	switch id.Name {
	case "constraintPos":
		return ".constraint"
	case "dayPos":
		return ".day"
	case "monthPos":
		return ".month"
	case "yearPos":
		return ".year"
	}
	return ".bad"
}

func c04IsIdent(e ast.Expr, name string) bool {
	id, ok := e.(*ast.Ident)
	return ok && id.Name == name
}

func c04IsEmptyString(e ast.Expr) bool {
	bl, ok := e.(*ast.BasicLit)
	return ok && bl.Kind == token.STRING && bl.Value == `""`
}

// conditions: parts[g] != "" | err != nil | monthIsKnown | len(parts) == 0 | ! && || ( )
func c04Cond(e ast.Expr) string {
	switch e := e.(type) {
	case *ast.ParenExpr:
		return c04Cond(e.X)
	case *ast.Ident:
		if e.Name == "monthIsKnown" {
			return ".monthKnown"
		}
	case *ast.UnaryExpr:
		if e.Op == token.NOT {
			return "(.not " + c04Cond(e.X) + ")"
		}
	case *ast.BinaryExpr:
		switch e.Op {
		case token.LAND:
			return "(.and " + c04Cond(e.X) + " " + c04Cond(e.Y) + ")"
		case token.LOR:
			return "(.or " + c04Cond(e.X) + " " + c04Cond(e.Y) + ")"
		case token.NEQ:
			if c04IsEmptyString(e.Y) {
				if g := c04Grp(e.X); g != ".bad" {
					return "(.grpNonEmpty " + g + ")"
				}
			}
			if c04IsIdent(e.X, "err") && c04IsIdent(e.Y, "nil") {
				return ".errSet"
			}
		case token.EQL:
			// len(parts) == 0
			if call, ok := e.X.(*ast.CallExpr); ok && c04IsIdent(call.Fun, "len") && len(call.Args) == 1 &&
				c04IsIdent(call.Args[0], "parts") {
				if bl, ok := e.Y.(*ast.BasicLit); ok && bl.Value == "0" {
					return ".noMatch"
				}
			}
		}
	}
	return ".bad"
}

// value sources of the fields of a returned Date
func c04Src(e ast.Expr) string {
	switch e := e.(type) {
	case *ast.Ident:
		switch e.Name {
		case "day":
			return ".day"
		case "month":
			return ".month"
		case "year":
			return ".year"
		case "isEndOfRange":
			return ".isEndOfRange"
		case "err":
			return ".err"
		}
	case *ast.CallExpr:
		if c04IsIdent(e.Fun, "DateConstraintFromString") && len(e.Args) == 1 {
			if g := c04Grp(e.Args[0]); g != ".bad" {
				return "(.constraintOf " + g + ")"
			}
		}
		if sel, ok := e.Fun.(*ast.SelectorExpr); ok {
			if x, ok := sel.X.(*ast.Ident); ok {
				if (x.Name == "errors" && sel.Sel.Name == "New") || (x.Name == "fmt" && sel.Sel.Name == "Errorf") {
					return ".newError"
				}
			}
		}
	}
	return ".bad"
}

var c04FieldName = map[string]string{"Day": ".day", "Month": ".month", "Year": ".year", "IsEndOfRange": ".isEndOfRange",
	"Constraint": ".constraint", "ParseError": ".parseError"}

func c04Fields(e ast.Expr) string {
	cl, ok := e.(*ast.CompositeLit)
	if !ok || !c04IsIdent(cl.Type, "Date") {
		return "[(.bad, .bad)]"
	}
	var out []string
	for _, el := range cl.Elts {
		kv, ok := el.(*ast.KeyValueExpr)
		if !ok {
			out = append(out, "(.bad, .bad)")
			continue
		}
		k, ok := kv.Key.(*ast.Ident)
		if !ok || c04FieldName[k.Name] == "" {
			out = append(out, "(.bad, .bad)")
			continue
		}
		out = append(out, fmt.Sprintf("(%s, %s)", c04FieldName[k.Name], c04Src(kv.Value)))
	}
	return "[" + strings.Join(out, ", ") + "]"
}

// c04ReturnOnly recognises a block that is exactly `return Date{...}`.
func c04ReturnOnly(b *ast.BlockStmt) (string, bool) {
	if b == nil || len(b.List) != 1 {
		return "", false
	}
	rs, ok := b.List[0].(*ast.ReturnStmt)
	if !ok || len(rs.Results) != 1 {
		return "", false
	}
	return c04Fields(rs.Results[0]), true
}

func c04StringLit(e ast.Expr) (string, bool) {
	bl, ok := e.(*ast.BasicLit)
	if !ok || bl.Kind != token.STRING {
		return "", false
	}
	s, err := strconv.Unquote(bl.Value)
	return s, err == nil
}

func c04IsSel(e ast.Expr, pkg, name string) bool {
	sel, ok := e.(*ast.SelectorExpr)
	if !ok {
		return false
	}
	x, ok := sel.X.(*ast.Ident)
	return ok && x.Name == pkg && sel.Sel.Name == name
}

func c04Stmt(fset *token.FileSet, st ast.Stmt) string {
	txt := printNode(fset, st)
	switch st := st.(type) {
	case *ast.AssignStmt:
		switch {
		case txt == "parts := dateRegexp.FindStringSubmatch(dateString)":
			return ".findSubmatch"
		case txt == "monthName, err := parseMonthName(parts, monthPos)":
			return ".monthName"
		case txt == "month, monthIsKnown := months[monthName]":
			return ".monthLookup"
		}
		// constraintPos, dayPos, monthPos, yearPos := 1, 2, 3, 4
		if st.Tok == token.DEFINE && len(st.Lhs) == len(st.Rhs) && len(st.Lhs) > 1 {
			var ps []string
			ok := true
			for i := range st.Lhs {
				id, ok1 := st.Lhs[i].(*ast.Ident)
				bl, ok2 := st.Rhs[i].(*ast.BasicLit)
				if !ok1 || !ok2 || bl.Kind != token.INT || !strings.HasSuffix(id.Name, "Pos") {
					ok = false
					break
				}
				ps = append(ps, fmt.Sprintf("(%s, %s)", c04LeanStr(id.Name), bl.Value))
			}
			if ok {
				return ".positions [" + strings.Join(ps, ", ") + "]"
			}
		}
		// v := Atoi(parts[gPos])
		if st.Tok == token.DEFINE && len(st.Lhs) == 1 && len(st.Rhs) == 1 {
			if id, ok := st.Lhs[0].(*ast.Ident); ok && (id.Name == "day" || id.Name == "year") {
				if call, ok := st.Rhs[0].(*ast.CallExpr); ok && c04IsIdent(call.Fun, "Atoi") && len(call.Args) == 1 {
					if g := c04Grp(call.Args[0]); g != ".bad" {
						return fmt.Sprintf(".atoi .%s %s", id.Name, g)
					}
				}
			}
		}
		// _, err = time.Parse(layout, fmt.Sprintf(format, args...))
		if st.Tok == token.ASSIGN && len(st.Lhs) == 2 && len(st.Rhs) == 1 && c04IsIdent(st.Lhs[0], "_") && c04IsIdent(st.Lhs[1], "err") {
			if call, ok := st.Rhs[0].(*ast.CallExpr); ok && c04IsSel(call.Fun, "time", "Parse") && len(call.Args) == 2 {
				layout, ok1 := c04StringLit(call.Args[0])
				if sp, ok := call.Args[1].(*ast.CallExpr); ok && ok1 && c04IsSel(sp.Fun, "fmt", "Sprintf") && len(sp.Args) >= 1 {
					if format, ok := c04StringLit(sp.Args[0]); ok {
						var args []string
						for _, a := range sp.Args[1:] {
							args = append(args, c04Src(a))
						}
						return fmt.Sprintf(".calendarCheck %s %s [%s]", c04LeanStr(layout), c04LeanStr(format), strings.Join(args, ", "))
					}
				}
			}
		}
	case *ast.IfStmt:
		if st.Init == nil && st.Else == nil {
			if fields, ok := c04ReturnOnly(st.Body); ok {
				return fmt.Sprintf(".ifReturn %s %s", c04Cond(st.Cond), fields)
			}
		}
	case *ast.ReturnStmt:
		if len(st.Results) == 1 {
			return ".ret " + c04Fields(st.Results[0])
		}
	}
	return ".bad"
}

func init() {
	extractors["DateLogic"] = func() string {
		var b strings.Builder
		b.WriteString("-- Source: date.go — the `months` map literal, the statements of parseDateParts and of\n")
		b.WriteString("-- parseMonthName in source order, the matrix of Date.Equals with its index expression and the\n")
		b.WriteString("-- comparisons of equalsB / equalsC, read with go/ast.\n")
		b.WriteString("import Gedcom.Model.DateLogic\nnamespace Gedcom.Generated\nopen Gedcom Gedcom.DateLogic\n\n")
		fset := token.NewFileSet()
		file, err := parser.ParseFile(fset, filepath.Join(repoRoot(), "date.go"), nil, 0)
		months := "none"
		var steps []string
		stepsFound := false
		var monthNameSteps []string
		matrix := "none"
		index := "none"
		cmpB, cmpC := "none", "none"
		var equalsSteps []string
		if err == nil {
			for _, d := range file.Decls {
				switch d := d.(type) {
				case *ast.GenDecl:
					for _, s := range d.Specs {
						vs, ok := s.(*ast.ValueSpec)
						if !ok || len(vs.Names) != 1 || vs.Names[0].Name != "months" || len(vs.Values) != 1 {
							continue
						}
						cl, ok := vs.Values[0].(*ast.CompositeLit)
						if !ok {
							continue
						}
						mt, ok := cl.Type.(*ast.MapType)
						if !ok || !c04IsIdent(mt.Key, "string") || !c04IsSel(mt.Value, "time", "Month") {
							continue
						}
						var entries []string
						good := true
						for _, e := range cl.Elts {
							kv, ok := e.(*ast.KeyValueExpr)
							if !ok {
								good = false
								break
							}
							k, ok1 := c04StringLit(kv.Key)
							sel, ok2 := kv.Value.(*ast.SelectorExpr)
							if !ok1 || !ok2 || !c04IsIdent(sel.X, "time") || c04MonthNumber[sel.Sel.Name] == 0 {
								good = false
								break
							}
							entries = append(entries, fmt.Sprintf("(%s, %d) /- %s -/", c04LeanBytes(k), c04MonthNumber[sel.Sel.Name], c04Comment(k)))
						}
						if good {
							months = "some\n  [" + strings.Join(entries, ",\n   ") + "]"
						}
					}
				case *ast.FuncDecl:
					if d.Body == nil {
						continue
					}
					switch {
					case d.Name.Name == "parseDateParts" && d.Recv == nil:
						stepsFound = true
						for _, st := range d.Body.List {
							steps = append(steps, c04Stmt(fset, st))
						}
					case d.Name.Name == "parseMonthName" && d.Recv == nil:
						for _, st := range d.Body.List {
							txt := printNode(fset, st)
							switch txt {
							case `if len(parts) == 0 { return "", errors.New("cannot parse month") }`:
								monthNameSteps = append(monthNameSteps, ".failIfNoMatch")
							case "monthName := strings.ToLower(parts[monthPos])":
								monthNameSteps = append(monthNameSteps, ".lowerGroup")
							case "return CleanSpace(monthName), nil":
								monthNameSteps = append(monthNameSteps, ".returnCleanSpace")
							default:
								monthNameSteps = append(monthNameSteps, ".bad")
							}
						}
					case d.Name.Name == "Equals" && d.Recv != nil && len(d.Recv.List) == 1 && c04IsIdent(d.Recv.List[0].Type, "Date"):
						for _, st := range d.Body.List {
							txt := printNode(fset, st)
							switch {
							case txt == "if date.IsZero() { return false }":
								equalsSteps = append(equalsSteps, ".falseIfZero .receiver")
							case txt == "if date2.IsZero() { return false }":
								equalsSteps = append(equalsSteps, ".falseIfZero .argument")
							case txt == "if date.Is(date2) { return true }":
								equalsSteps = append(equalsSteps, ".trueIfIs")
							case strings.HasPrefix(txt, "matchers := [][]func(d1, d2 Date) bool{"):
								equalsSteps = append(equalsSteps, ".matrixDecl")
								as := st.(*ast.AssignStmt)
								if cl, ok := as.Rhs[0].(*ast.CompositeLit); ok {
									var rows []string
									good := true
									for _, r := range cl.Elts {
										rc, ok := r.(*ast.CompositeLit)
										if !ok {
											good = false
											break
										}
										var cells []string
										for _, c := range rc.Elts {
											if sel, ok := c.(*ast.SelectorExpr); ok && c04IsIdent(sel.X, "Date") && strings.HasPrefix(sel.Sel.Name, "equals") && len(sel.Sel.Name) == 7 {
												cells = append(cells, "."+strings.ToLower(sel.Sel.Name[6:]))
											} else {
												cells = append(cells, ".bad")
											}
										}
										rows = append(rows, "["+strings.Join(cells, ", ")+"]")
									}
									if good {
										matrix = "some\n  [" + strings.Join(rows, ",\n   ") + "]"
									}
								}
							case txt == "return matchers[date2.Constraint][date.Constraint](date, date2)":
								equalsSteps = append(equalsSteps, ".returnCell")
								index = "some (.argument, .receiver, .receiver, .argument)"
							default:
								equalsSteps = append(equalsSteps, ".bad")
							}
						}
					case (d.Name.Name == "equalsB" || d.Name.Name == "equalsC") && d.Recv != nil:
						var txts []string
						for _, st := range d.Body.List {
							txts = append(txts, printNode(fset, st))
						}
						if len(txts) == 3 && txts[0] == "leftYears := date.Years()" && txts[1] == "rightYears := date2.Years()" {
							v := "none"
							switch txts[2] {
							case "return leftYears > rightYears":
								v = "some .receiverGreater"
							case "return leftYears < rightYears":
								v = "some .receiverLess"
							}
							if d.Name.Name == "equalsB" {
								cmpB = v
							} else {
								cmpC = v
							}
						}
					}
				}
			}
		}
		b.WriteString("/-- the `months` map literal of date.go: every key with the number of its `time.<Month>` value -/\n")
		fmt.Fprintf(&b, "def monthsSrc : Option (List (Str × Nat)) := %s\n\n", months)
		b.WriteString("/-- the statements of `parseDateParts`, in source order -/\n")
		if !stepsFound {
			steps = []string{".bad"}
		}
		fmt.Fprintf(&b, "def parseSteps : List Stmt :=\n  [%s]\n\n", strings.Join(steps, ",\n   "))
		b.WriteString("/-- the statements of `parseMonthName`, in source order -/\n")
		if len(monthNameSteps) == 0 {
			monthNameSteps = []string{".bad"}
		}
		fmt.Fprintf(&b, "def monthNameSteps : List MonthNameStmt := [%s]\n\n", strings.Join(monthNameSteps, ", "))
		b.WriteString("/-- the statements of `Date.Equals`, in source order -/\n")
		if len(equalsSteps) == 0 {
			equalsSteps = []string{".bad"}
		}
		fmt.Fprintf(&b, "def equalsSteps : List EqualsStmt := [%s]\n\n", strings.Join(equalsSteps, ", "))
		b.WriteString("/-- the `matchers` literal of `Date.Equals`, row by row -/\n")
		fmt.Fprintf(&b, "def equalsMatrix : Option (List (List Cell)) := %s\n\n", matrix)
		b.WriteString("/-- `matchers[i][j](x, y)`: whose constraint is `i`, whose is `j`, who is `x`, who is `y` -/\n")
		fmt.Fprintf(&b, "def equalsIndex : Option (Who × Who × Who × Who) := %s\n\n", index)
		b.WriteString("/-- the comparison returned by `equalsB` / `equalsC` (receiver's Years against the argument's) -/\n")
		fmt.Fprintf(&b, "def equalsBCmp : Option YearsCmp := %s\ndef equalsCCmp : Option YearsCmp := %s\n", cmpB, cmpC)
		b.WriteString("\nend Gedcom.Generated\n")
		return b.String()
	}
}
