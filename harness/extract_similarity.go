package main

import (
	"fmt"
	"math"
	"strings"
	"unicode/utf8"

	"github.com/elliotchance/gedcom/v39"
)

// c12Frac finds the fraction with the smallest denominator within 1e-12 of x (continued fractions).
func c12Frac(x float64) (int64, int64) {
	if math.IsNaN(x) || math.IsInf(x, 0) {
		return 0, 0
	}
	sign := int64(1)
	if x < 0 {
		sign, x = -1, -x
	}
	var h0, h1, k0, k1 int64 = 0, 1, 1, 0
	y := x
	for i := 0; i < 40; i++ {
		a := int64(math.Floor(y))
		h0, h1 = h1, a*h1+h0
		k0, k1 = k1, a*k1+k0
		if math.Abs(float64(h1)/float64(k1)-x) < 1e-12 || k1 > 1000000 {
			break
		}
		f := y - float64(a)
		if f < 1e-15 {
			break
		}
		y = 1 / f
	}
	return sign * h1, k1
}

// c12Keep is the alphabet that can survive StringSimilarity's normalisation ([a-z0-9 ] by the
// source text of alnumRegexp; probed, not assumed: a survivor outside this set makes the probe fail).
const c12Keep = "abcdefghijklmnopqrstuvwxyz0123456789 "

// c12NormOf probes what the string s (one ASCII byte or one rune) becomes: "" = removed.
func c12NormOf(s string) (string, bool) {
	ss := func(a, b string) float64 { return gedcom.StringSimilarity(a, b, 0, 0) }
	if ss("a"+s+"a", "aa") == 1 {
		return "", true
	}
	for _, x := range c12Keep {
		if ss("a"+s+"a", "a"+string(x)+"a") == 1 {
			return string(x), true
		}
	}
	return "", false
}

func init() {
	extractors["Similarity"] = func() string {
		var b strings.Builder
		b.WriteString("-- Source: behavioural probes of gedcom.StringSimilarity (what each ASCII byte and each non-ASCII\n")
		b.WriteString("-- rune becomes under its normalisation) and of gedcom.NewSimilarityOptions() (defaults as the\n")
		b.WriteString("-- nearest small fractions, |error| < 1e-12).\n")
		b.WriteString("namespace Gedcom.Generated\n\n")
		b.WriteString("/-- ASCII byte ↦ the byte StringSimilarity's normalisation turns it into (`none` = removed) -/\n")
		b.WriteString("def asciiNorm : Nat → Option Nat\n")
		for c := 0; c < 128; c++ {
			out, ok := c12NormOf(string(rune(c)))
			if !ok {
				panic(fmt.Sprintf("byte %d normalises to something outside the probe alphabet", c))
			}
			if out != "" {
				fmt.Fprintf(&b, "  | %d => some %d\n", c, out[0])
			}
		}
		b.WriteString("  | _ => none\n\n")
		// non-ASCII runes: batches first (a batch with no survivor is identical to the empty string)
		var survivors []rune
		var probe func(rs []rune)
		probe = func(rs []rune) {
			if len(rs) == 0 {
				return
			}
			s := "a" + string(rs) + "a"
			if gedcom.StringSimilarity(s, "aa", 0, 0) == 1 {
				return
			}
			if len(rs) == 1 {
				survivors = append(survivors, rs[0])
				return
			}
			probe(rs[:len(rs)/2])
			probe(rs[len(rs)/2:])
		}
		var batch []rune
		for r := rune(0x80); r <= utf8.MaxRune; r++ {
			if r >= 0xD800 && r <= 0xDFFF {
				continue
			}
			batch = append(batch, r)
			if len(batch) == 2048 {
				probe(batch)
				batch = batch[:0]
			}
		}
		probe(batch)
		b.WriteString("/-- non-ASCII UTF-8 sequences that survive the normalisation, with the byte they become -/\n")
		b.WriteString("def unicodeNorm : List (List Nat × Nat) := [")
		for i, r := range survivors {
			out, ok := c12NormOf(string(r))
			if !ok || len(out) != 1 {
				panic(fmt.Sprintf("rune U+%04X normalises to something outside the probe alphabet", r))
			}
			if i > 0 {
				b.WriteString(", ")
			}
			var bs []string
			for _, x := range []byte(string(r)) {
				bs = append(bs, fmt.Sprint(x))
			}
			fmt.Fprintf(&b, "([%s], %d)", strings.Join(bs, ", "), out[0])
		}
		b.WriteString("]\n\n")
		o := gedcom.NewSimilarityOptions()
		fr := func(name string, x float64) {
			n, d := c12Frac(x)
			fmt.Fprintf(&b, "def %s : Int × Nat := (%d, %d)\n", name, n, d)
		}
		fr("defaultMaxYears", o.MaxYears)
		fr("defaultMinimumSimilarity", o.MinimumSimilarity)
		fr("defaultMinimumWeightedSimilarity", o.MinimumWeightedSimilarity)
		fr("defaultIndividualWeight", o.IndividualWeight)
		fr("defaultParentsWeight", o.ParentsWeight)
		fr("defaultSpousesWeight", o.SpousesWeight)
		fr("defaultChildrenWeight", o.ChildrenWeight)
		fr("defaultNameToDateRatio", o.NameToDateRatio)
		fr("defaultJaroBoostThreshold", o.JaroBoostThreshold)
		fmt.Fprintf(&b, "def defaultJaroPrefixSize : Nat := %d\n", o.JaroPrefixSize)
		fr("defaultPreferPointerAbove", o.PreferPointerAbove)
		b.WriteString("\nend Gedcom.Generated\n")
		return b.String()
	}
}
