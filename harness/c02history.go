package main

import (
	"errors"
	"fmt"
	"strings"

	"github.com/elliotchance/gedcom/v39"
)

// State left by an earlier decode: a decode whose reader fails in the middle of a line (an I/O
// error, not the end of the input), a decode that returns a syntax error, and a decode that
// panics and is recovered, each followed in the same process by ordinary decodes whose result
// must be the tree the line grammar dictates for *their* bytes (the usual C02 oracles and the
// correspondence with the model).

var errReaderBroke = errors.New("verif: the reader broke")

// brokenReader delivers the first n bytes of data in small pieces and then fails.
type brokenReader struct {
	data []byte
	pos  int
	step int
}

func (r *brokenReader) Read(p []byte) (int, error) {
	if r.pos >= len(r.data) {
		return 0, errReaderBroke
	}
	n := r.step
	if n > len(p) {
		n = len(p)
	}
	if n > len(r.data)-r.pos {
		n = len(r.data) - r.pos
	}
	copy(p, r.data[r.pos:r.pos+n])
	r.pos += n
	return n, nil
}

func c02brokenDecode(text string, cut int, multi, inv bool) (outcome string) {
	defer func() {
		if r := recover(); r != nil {
			msg := fmt.Sprint(r)
			if strings.HasPrefix(msg, "indent is too large") {
				outcome = "panic indentTooLarge"
			} else {
				outcome = "panic other: " + msg
			}
		}
	}()
	if cut > len(text) {
		cut = len(text)
	}
	dec := gedcom.NewDecoder(&brokenReader{data: []byte(text[:cut]), step: 1 + cut%7})
	dec.AllowMultiLine = multi
	dec.AllowInvalidIndents = inv
	d, err := dec.Decode()
	switch {
	case err == nil && d != nil:
		return "ok"
	case err != nil:
		return "err"
	}
	return "nothing"
}

func c02history(c *Ctx) {
	n := c.N(150, 3000)
	for i := 0; i < n; i++ {
		first := decGenText(c.R, 12, false)
		if i%3 == 0 {
			first = decRealistic
		}
		second := decGenText(c.R, 10, false)
		if i%5 == 0 {
			second = "0 HEAD\n1 CHAR UTF-8\n0 @I1@ INDI\n1 NAME A /B/\n0 TRLR\n"
		}
		multi, inv := c.R.Bool(), c.R.Bool()
		switch i % 3 {
		case 0, 1:
			// the reader fails in the middle of a line
			cut := 1
			if len(first) > 2 {
				cut = 1 + c.R.Intn(len(first)-1)
			}
			for cut < len(first) && cut > 0 && (first[cut-1] == '\n' || first[cut-1] == '\r') {
				cut++
			}
			got := c02brokenDecode(first, cut, multi, inv)
			c.Count("history:broken-reader:" + strings.Fields(got)[0])
			// a reader error must come back as an error (or the documented panic may come first)
			if got == "ok" || got == "nothing" || strings.HasPrefix(got, "panic other") {
				c.Oracle("", "a decode whose reader fails with an I/O error does not return that error",
					map[string]interface{}{"text": first[:min(cut, len(first))], "multi": multi, "inv": inv}, got, "err")
			}
		default:
			// a syntax error or a panic half way
			bad := first + "this is not a line\n5 TOO deep\n"
			got, _ := decObserve(bad, false, false)
			c.Count("history:failed-decode:" + strings.Fields(got)[0])
		}
		// sync.Pool and the like may hand the dirty object to any of the next few calls
		for k := 0; k < 3; k++ {
			c02all(c, second)
		}
	}
}
