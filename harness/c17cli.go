package main

// C17 — the instruction itself: `gedcom publish -living <spelling>` (the real binary built from the
// tree under test) and html.NewLivingVisibility(<spelling>) in a child process, for spellings of the
// three visibilities that differ in case or surrounding spaces, and for junk. Each must either be
// refused (non-zero exit / panic, nothing about living people written) or publish byte for byte
// what the canonical lower-case spelling publishes: an accepted instruction has to be followed.

import (
	"context"
	"fmt"
	"os"
	"os/exec"
	"path/filepath"
	"sort"
	"strings"
	"time"
)

var c17Spellings = []string{"hide", "Hide", "HIDE", "hide ", " hide", "placeholder", "Placeholder", "PLACEHOLDER", "placeholder ",
	"show", "Show", "SHOW", "junk", "", "hidden", "hide,show"}

func c17Canonical(s string) string {
	switch c := strings.ToLower(strings.TrimSpace(s)); c {
	case "show", "hide", "placeholder":
		return c
	}
	return ""
}

// c17RunCLI publishes with the real binary; files = every file of the output directory.
func c17RunCLI(bin, file, outDir, living string) (files map[string]string, refused bool, detail string) {
	os.RemoveAll(outDir)
	os.MkdirAll(outDir, 0o755)
	ctx, cancel := context.WithTimeout(context.Background(), 60*time.Second)
	defer cancel()
	cmd := exec.CommandContext(ctx, bin, "publish", "-gedcom", file, "-output-dir", outDir, "-living", living)
	out, err := cmd.CombinedOutput()
	files = map[string]string{}
	entries, _ := os.ReadDir(outDir)
	for _, e := range entries {
		b, _ := os.ReadFile(filepath.Join(outDir, e.Name()))
		files[e.Name()] = string(b)
	}
	os.RemoveAll(outDir)
	if err != nil {
		msg := string(out)
		for _, l := range strings.Split(msg, "\n") {
			if strings.HasPrefix(l, "panic:") || strings.Contains(l, "ERROR") || strings.Contains(l, "invalid") {
				msg = l
				break
			}
		}
		if len(msg) > 200 {
			msg = msg[:200]
		}
		return files, true, "refused: " + strings.TrimSpace(msg)
	}
	return files, false, "accepted"
}

func c17DiffSites(got, want map[string]string) string {
	var names []string
	for n := range want {
		names = append(names, n)
	}
	sort.Strings(names)
	for _, n := range names {
		g, ok := got[n]
		if !ok {
			return "file " + n + " is missing"
		}
		if g != want[n] {
			i := 0
			for i < len(g) && i < len(want[n]) && g[i] == want[n][i] {
				i++
			}
			lo := i - 60
			if lo < 0 {
				lo = 0
			}
			cut := func(s string) string {
				hi := i + 60
				if hi > len(s) {
					hi = len(s)
				}
				return s[lo:hi]
			}
			return n + ": …" + cut(g) + "… vs canonical …" + cut(want[n]) + "…"
		}
	}
	for n := range got {
		if _, ok := want[n]; !ok {
			return "extra file " + n
		}
	}
	return ""
}

func c17LivingHit(files map[string]string, markers []c17Marker) string {
	for _, m := range markers {
		for name, content := range files {
			if strings.Contains(strings.ToLower(name), m.token) {
				return "file " + name + " is named after a living person"
			}
			if strings.Contains(strings.ToLower(content), m.token) {
				return name + ": " + c17Snippet(strings.ToLower(content), m.token)
			}
		}
	}
	return ""
}

func c17Spellingsstream(c *Ctx, now int) {
	tmp, err := os.MkdirTemp("", "c17cli-")
	if err != nil {
		panic(err)
	}
	defer os.RemoveAll(tmp)
	bin, err := c14BuildBinary(tmp)
	if err != nil {
		panic(err)
	}
	all := [6]bool{true, true, true, true, true, true}
	for di := 0; di < c.N(3, 12); di++ {
		r := c.R.Fork(fmt.Sprintf("cli%d", di))
		d := c17Gen(r, now)
		text := d.Text()
		markers := c17Markers(d)
		file := filepath.Join(tmp, fmt.Sprintf("d%d.ged", di))
		os.WriteFile(file, []byte(text), 0o644)
		canonCLI := map[string]map[string]string{}
		canonLib := map[string]*c17Site{}
		ok := true
		for _, vis := range []string{"show", "hide", "placeholder"} {
			files, refused, detail := c17RunCLI(bin, file, filepath.Join(tmp, "out"), vis)
			c.Eval()
			if refused {
				c.Oracle("", "gedcom publish -living "+vis+" is refused", map[string]interface{}{"gedcom": text, "living": vis}, detail, "a site")
				ok = false
			}
			canonCLI[vis] = files
			site, e := c17Publish(c17Job{Gedcom: text, Vis: vis, Groups: all, Jobs: 1})
			if e != "" {
				c.Oracle("", "publish fails: "+vis, map[string]interface{}{"gedcom": text, "living": vis}, e, "a site")
				ok = false
			}
			canonLib[vis] = site
		}
		if !ok {
			continue
		}
		for _, sp := range c17Spellings {
			canon := c17Canonical(sp)
			in := func(via string) map[string]interface{} {
				return map[string]interface{}{"gedcom": text, "living_as_typed": sp, "canonical": canon, "via": via}
			}
			// ---- the command line
			files, refused, detail := c17RunCLI(bin, file, filepath.Join(tmp, "out"), sp)
			c.Eval()
			outcome := "refused"
			if !refused {
				outcome = "accepted"
			}
			c.Count(fmt.Sprintf("cli -living %q: %s", sp, outcome))
			c.Nontrivial(fmt.Sprintf("cli/%q/%s", sp, outcome))
			check := func(via string, refused bool, files map[string]string, want map[string]string, detail string) {
				switch {
				case refused:
					if hit := c17LivingHit(files, markers); hit != "" && canon != "show" {
						c.Oracle("", via+": a refused -living value still writes living people's data", in(via), hit, "nothing written")
					}
				case canon == "":
					// not a visibility at all: accepting it means publishing with an instruction nobody gave
					if hit := c17LivingHit(files, markers); hit != "" {
						c.Oracle("", via+": a -living value that is no visibility is accepted and living people's data is published", in(via), hit, "refused")
					}
				default:
					if diff := c17DiffSites(files, want); diff != "" {
						what := via + ": an accepted spelling of -living " + canon + " does not publish what -living " + canon + " publishes"
						if hit := c17LivingHit(files, markers); hit != "" && canon != "show" {
							what = via + ": an accepted spelling of -living " + canon + " publishes living people's data"
							diff = hit
						}
						c.Oracle("", what, in(via), diff, "byte for byte the site of the canonical spelling, or a refusal")
					}
				}
				_ = detail
			}
			check("gedcom publish", refused, files, canonCLI[canon], detail)
			// ---- html.NewLivingVisibility in a child process (a panic = refusal)
			site, e := c17Publish(c17Job{Gedcom: text, Vis: sp, Groups: all, Jobs: 1})
			c.Eval()
			libRefused := e != ""
			var libFiles, want map[string]string
			if site != nil {
				libFiles = site.Files
			}
			if canonLib[canon] != nil {
				want = canonLib[canon].Files
			}
			c.Count(fmt.Sprintf("NewLivingVisibility(%q): %s", sp, map[bool]string{true: "refused", false: "accepted"}[libRefused]))
			check("html.NewLivingVisibility + Publish", libRefused, libFiles, want, e)
		}
	}
}

// c17SharedPointerSites: records that share a pointer (or have none), one of a living and one of a
// dead person, in either order — decoded files whose xrefs collide. Whatever page name the dead
// person gets, nothing of the living one may be published in hide / placeholder mode, and exactly
// the people who are not living get a page.
func c17SharedPointerSites(c *Ctx, now int) {
	young := fmt.Sprintf("1 BIRT\n2 DATE 1 Jan %d\n2 PLAC Livplaceq, Oz\n", now-20)
	liv := func(ptr, k string) string {
		return "0 " + ptr + "INDI\n1 NAME Livgivenq" + k + " /Livsurq" + k + "/\n2 NICK Livnickq" + k + "\n1 NAME Livaltq" + k + " /Livaltsurq" + k + "/\n1 SEX F\n" + young
	}
	dead := func(ptr, k string) string {
		return "0 " + ptr + "INDI\n1 NAME Deadgivenq" + k + " /Deadsurq" + k + "/\n1 SEX M\n1 BIRT\n2 DATE 1 Jan 1800\n2 PLAC Deadplaceq, Oz\n1 DEAT Y\n"
	}
	type doc struct {
		name, text string
		nDead      int
	}
	docs := []doc{
		{"living then dead, one xref", "0 HEAD\n" + liv("@I1@ ", "a") + dead("@I1@ ", "a") + dead("@I2@ ", "b") + "0 TRLR\n", 2},
		{"dead then living, one xref", "0 HEAD\n" + dead("@I1@ ", "a") + liv("@I1@ ", "a") + "0 @F1@ FAM\n1 HUSB @I1@\n1 CHIL @I1@\n0 TRLR\n", 1},
		{"living, dead, living: one xref", "0 HEAD\n" + liv("@I1@ ", "a") + dead("@I1@ ", "a") + liv("@I1@ ", "b") + "0 TRLR\n", 1},
		{"no xref at all", "0 HEAD\n" + liv("", "a") + dead("", "a") + dead("", "b") + liv("", "b") + "0 TRLR\n", 2},
		{"two pairs", "0 HEAD\n" + liv("@I1@ ", "a") + dead("@I1@ ", "a") + dead("@I2@ ", "b") + liv("@I2@ ", "b") + "0 @F1@ FAM\n1 HUSB @I1@\n1 WIFE @I2@\n0 TRLR\n", 2},
	}
	all := [6]bool{true, true, true, true, true, true}
	for _, d := range docs {
		for _, vis := range []string{"hide", "placeholder"} {
			for _, jobs := range []int{1, 3} {
				site, e := c17Publish(c17Job{Gedcom: d.text, Vis: vis, Groups: all, Jobs: jobs})
				c.Eval()
				in := map[string]interface{}{"gedcom": d.text, "living": vis, "jobs": jobs, "records": d.name}
				if e != "" {
					c.Oracle("", "publish fails: "+vis, in, e, "a site")
					continue
				}
				c.Count("shared-pointer site/" + vis)
				c.Nontrivial("shared-pointer/" + d.name + "/" + vis)
				pages := 0
				for name, content := range site.Files {
					lc := strings.ToLower(content)
					for _, tok := range []string{"livgivenq", "livsurq", "livnickq", "livaltq", "livaltsurq"} {
						if strings.Contains(lc, tok) || strings.Contains(strings.ToLower(name), tok) {
							c.Oracle("", vis+" mode: records that share a pointer: data of the living one is published", in, name+": "+c17Snippet(lc, tok), "nothing of a living person")
							break
						}
					}
					if strings.Contains(content, "Name &amp; Sex") {
						pages++
					}
				}
				if pages != d.nDead {
					c.Oracle("", vis+" mode: records that share a pointer: not exactly the people who are not living get a page", in,
						fmt.Sprintf("%d individual pages", pages), fmt.Sprintf("%d", d.nDead))
				}
			}
		}
	}
}

// c17BoundaryDocs: fixed shapes at the size boundaries the random documents rarely hit — 0 / 1 / 64 /
// 65 living or dead people under one index letter, a living person being the first / the last / the
// only entry of a letter page, of a place and of a family.
func c17BoundaryDocs(r *Rand, now int) []*c17Doc {
	mk := func(d *c17Doc, kind string, letter byte, rank string) *c17Person {
		p := &c17Person{id: len(d.people), kind: kind, sex: "MF"[len(d.people)%2 : len(d.people)%2+1], role: map[string]bool{"boundary": true}, asso: -1}
		p.living = strings.HasPrefix(kind, "living")
		c17private(r, p, now, 0)
		// all under one index letter; rank orders the people of the letter ("a…" first, "z…" last)
		p.surname = string(letter) + strings.ToLower(p.surname[1:])
		p.given = strings.ToUpper(rank[:1]) + rank[1:] + strings.ToLower(p.given)
		p.altG, p.altS, p.nick = "", "", ""
		d.people = append(d.people, p)
		return p
	}
	var docs []*c17Doc
	for variant := 0; variant < 2; variant++ {
		d := &c17Doc{source: true}
		nl, nd := 65, 64
		if variant == 1 {
			nl, nd = 64, 65
		}
		for i := 0; i < nl; i++ { // letter L: living people only
			mk(d, "living-young", 'L', "m")
		}
		first := mk(d, "living-young", 'M', "a") // letter M: a living person first, dead people, a living person last
		for i := 0; i < nd; i++ {
			mk(d, "dead-deat", 'M', "m")
		}
		last := mk(d, "living-nodates", 'M', "z")
		mk(d, "dead-deat", 'N', "m")                   // letter N: exactly one dead person
		only := mk(d, "living-age-rule", 'P', "m")     // letter P: exactly one living person
		deadR := mk(d, "dead-deat", 'R', "m")          // letter R: one dead and one living person
		livR := mk(d, "living-exact-threshold", 'R', "n")
		// a place shared by a living person (earliest), a dead one and a living one (latest)
		shared := "Sharedplq" + fmt.Sprint(variant) + ", Oz"
		first.birth, first.birthPl = fmt.Sprintf("1 Jan %d", now-90), shared
		deadR.birth, deadR.birthPl = fmt.Sprintf("1 Jan %d", now-60), shared
		livR.birthPl = shared
		only.birthPl = "Onlyplq" + fmt.Sprint(variant) + ", Oz" // a place that only a living person has
		// families: all members living; living first and last child around a dead one; a dead couple
		// with a single living child
		d.fams = append(d.fams,
			&c17Family{husb: first.id, wife: last.id, chil: []int{only.id}, marr: "1 Jan 2000", marrPl: "Marrtown, Oz"},
			&c17Family{husb: deadR.id, wife: -1, chil: []int{first.id, deadR.id + 0, last.id}},
			&c17Family{husb: nl + 1, wife: nl + 2, chil: []int{livR.id}},
			&c17Family{husb: -1, wife: -1})
		docs = append(docs, d)
	}
	return docs
}
