package main

// C07, round 4: wide sibling lists.  DeepEqualNodes keeps a "used" mark per right node; any
// representation of those marks that is bounded (a machine word, a fixed array) breaks the multiset
// matching only for lists longer than the bound, so sibling counts straddle 64 and 128 here, with
// the equal siblings — and the one that is edited — near the end of the list.

import "fmt"

// c07wideKids: n children: distinct leaves, with a pair of equal leaves at positions dupAt and
// dupAt+gap (both < n).
func c07wideKids(r *Rand, n int, tag string, dupAt, gap int) []*TNode {
	ks := make([]*TNode, n)
	for i := range ks {
		ks[i] = T(tag, fmt.Sprintf("v%d", i), "")
	}
	dupTag := tag
	if tag == "NOTE" {
		dupTag = "OCCU"
	}
	ks[dupAt] = T(dupTag, "farmer", "")
	ks[dupAt+gap] = T(dupTag, "farmer", "")
	return ks
}

func c07wide(c *Ctx) {
	r := c.R
	sizes := []int{60, 63, 64, 65, 66, 67, 70, 96, 126, 127, 128, 129, 130, 131, 140}
	n := c.N(40, 600)
	for i := 0; i < n; i++ {
		size := sizes[i%len(sizes)]
		if r.Chance(1, 4) {
			size = r.Range(60, 140)
		}
		// the equal pair: mostly the last two nodes, sometimes straddling position 64 / 128 or anywhere
		dupAt, gap := size-2, 1
		switch r.Intn(4) {
		case 0:
			if size > 66 {
				dupAt, gap = 63, 1+r.Intn(size-64-1)
			}
		case 1:
			dupAt = r.Intn(size - 1)
			gap = 1 + r.Intn(size-1-dupAt)
		}
		kind := []string{"root", "EVEN", "RESI", "nested-EVEN", "nested-RESI"}[i%5]
		tag := "NOTE"
		if kind == "RESI" || kind == "nested-RESI" {
			tag = "PLAC" // RESI.Equals compares the PLAC children with DeepEqualNodes
		}
		mk := func(kids []*TNode) *TNode {
			switch kind {
			case "EVEN":
				return &TNode{"EVEN", "a", "", kids}
			case "RESI":
				return &TNode{"RESI", "", "", kids}
			case "nested-EVEN":
				return T("INDI0", "", "P1", T("NAME", "A /B/", ""), &TNode{"EVEN", "a", "", kids})
			case "nested-RESI":
				return T("INDI0", "", "P1", &TNode{"RESI", "", "", kids}, T("NAME", "A /B/", ""))
			}
			return &TNode{"INDI0", "", "P1", kids}
		}
		kids := c07wideKids(r, size, tag, dupAt, gap)
		a := mk(kids)
		c.Count(fmt.Sprintf("wide:%s:size<=%d", kind, (size+31)/32*32))
		c.Nontrivial(fmt.Sprintf("wide/%s/%d/dup@%d+%d", kind, (size+31)/32*32, dupAt/32*32, gap))
		// one of the two equal siblings replaced: never deep-equal, either way round
		edited := make([]*TNode, len(kids))
		for j, k := range kids {
			edited[j] = k.Clone()
		}
		which := dupAt + gap
		if r.Chance(1, 3) {
			which = dupAt
		}
		edited[which].Value = "miller"
		b := mk(edited)
		c07laws(c, a, b, "edit", "ne")
		c07laws(c, b, a, "edit", "ne")
		c07laws(c, c07shuffle(r, a, 4), b, "edit+permutation", "ne")
		// copies and permuted copies are deep-equal
		c07laws(c, a, a.Clone(), "copy", "eq")
		c07laws(c, a, c07shuffle(r, a, 4), "permutation", "eq")
		c07laws(c, c07shuffle(r, b, 4), b, "permutation", "eq")
		// a node deleted / inserted near the end
		del := make([]*TNode, 0, len(kids))
		for j, k := range kids {
			if j != which {
				del = append(del, k.Clone())
			}
		}
		c07laws(c, a, mk(del), "edit", "ne")
		// three equal siblings against two: one extra farmer replaces a distinct leaf
		three := make([]*TNode, len(kids))
		for j, k := range kids {
			three[j] = k.Clone()
		}
		other := (which + 1 + r.Intn(size-1)) % size
		if other != dupAt && other != dupAt+gap {
			three[other] = kids[dupAt].Clone()
			c07laws(c, a, mk(three), "edit", "ne")
			c07laws(c, mk(three), a, "edit", "ne")
		}
	}
}
