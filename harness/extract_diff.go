package main

import (
	"fmt"
	"go/ast"
	"go/parser"
	"go/token"
	"os"
	"path/filepath"
	"sort"
	"strings"

	"github.com/elliotchance/gedcom/v39"
)

// Facts about node_diff.go that the C08 model takes as definitions (Generated/Diff.lean):
//
//   - flattenMutates     behavioural: NodeDiff.LeftNode()/RightNode() on the result of CompareNodes
//                        changes the number of children of a compared node;
//   - lessThanFlattens   go/ast: the body of (*NodeDiff).isLessThan calls LeftNode or RightNode
//                        (none when the function cannot be located: tie by correspondence only);
//   - sortKey2 / unknownSortKey2   behavioural: the first ordering level of NodeDiff.Sort
//                        (isLessThan reads the unexported field Tag.sortValue, which is not
//                        Tag.SortValue() for an unregistered tag), recovered by sorting hand-built
//                        two-entry diffs against one pivot tag per SortValue() group; scale 2*v, an
//                        odd number lies strictly between two groups;
//   - yearerTags         tags whose node type implements gedcom.Yearer (second ordering level).

func c08safeNode(tag string) (n gedcom.Node) {
	defer func() {
		if recover() != nil {
			n = nil
		}
	}()
	return gedcom.NewNode(gedcom.TagFromString(tag), "", "")
}

// c08probeLess reports whether a hand-built entry with tag a sorts strictly before one with tag b:
// Sort is stable, so [b, a] is reordered iff isLessThan(a, b).
func c08probeLess(a, b string) (less bool, ok bool) {
	defer func() {
		if recover() != nil {
			ok = false
		}
	}()
	na, nb := c08safeNode(a), c08safeNode(b)
	if na == nil || nb == nil {
		return false, false
	}
	d := &gedcom.NodeDiff{
		Left: gedcom.NewNode(gedcom.TagFromString("ZZROOT"), "", ""),
		Children: []*gedcom.NodeDiff{{Left: nb}, {Left: na}},
	}
	d.Sort()
	return d.Children[0].Left == na, true
}

func c08astLessThanFlattens() string {
	repo := os.Getenv("VERIF_REPO")
	if repo == "" {
		repo = "/repo"
	}
	// the harness is built with a replace directive; the source that was compiled is the tree it names
	if b, err := os.ReadFile(filepath.Join(repo, "node_diff.go")); err == nil {
		fset := token.NewFileSet()
		f, err := parser.ParseFile(fset, "node_diff.go", b, 0)
		if err != nil {
			return "none"
		}
		for _, d := range f.Decls {
			fd, ok := d.(*ast.FuncDecl)
			if !ok || fd.Name.Name != "isLessThan" || fd.Recv == nil || fd.Body == nil {
				continue
			}
			calls := false
			ast.Inspect(fd.Body, func(n ast.Node) bool {
				if ce, ok := n.(*ast.CallExpr); ok {
					if se, ok := ce.Fun.(*ast.SelectorExpr); ok {
						if se.Sel.Name == "LeftNode" || se.Sel.Name == "RightNode" {
							calls = true
						}
					}
				}
				return true
			})
			return fmt.Sprintf("some %v", calls)
		}
	}
	return "none"
}

func init() {
	extractors["Diff"] = func() string {
		var b strings.Builder
		b.WriteString("-- Source: behavioural probes of NodeDiff.LeftNode/RightNode/Sort and one go/ast fact about\n")
		b.WriteString("-- (*NodeDiff).isLessThan in node_diff.go; see harness/extract_diff.go.\n")
		b.WriteString("namespace Gedcom.Generated.Diff\n\n")

		// 1. does flattening write to the compared nodes?
		mut := func(right bool) bool {
			l := gedcom.NewNode(gedcom.TagFromString("ZZROOT"), "", "",
				gedcom.NewNode(gedcom.TagFromString("ZZA"), "1", ""))
			r := gedcom.NewNode(gedcom.TagFromString("ZZROOT"), "", "",
				gedcom.NewNode(gedcom.TagFromString("ZZA"), "2", ""))
			before := gedcom.GEDCOMString(l, 0) + "|" + gedcom.GEDCOMString(r, 0)
			d := gedcom.CompareNodes(l, r)
			if right {
				d.RightNode()
			} else {
				d.LeftNode()
			}
			return before != gedcom.GEDCOMString(l, 0)+"|"+gedcom.GEDCOMString(r, 0)
		}
		b.WriteString("/-- `LeftNode()` / `RightNode()` add children to the nodes that were compared -/\n")
		fmt.Fprintf(&b, "def flattenMutates : Bool := %v\n\n", mut(false) || mut(true))
		b.WriteString("/-- the body of `isLessThan` calls `LeftNode`/`RightNode` (go/ast; `none` = not located) -/\n")
		fmt.Fprintf(&b, "def lessThanFlattens : Option Bool := %s\n\n", c08astLessThanFlattens())

		// 2. first ordering level
		names := []string{}
		seen := map[string]bool{}
		for _, t := range gedcom.Tags() {
			if !seen[t.Tag()] {
				seen[t.Tag()] = true
				names = append(names, t.Tag())
			}
		}
		sort.Strings(names)
		pivot := map[int]string{} // SortValue() -> representative tag that can be built without a document
		for _, n := range names {
			v := gedcom.TagFromString(n).SortValue()
			if _, ok := pivot[v]; !ok && c08safeNode(n) != nil {
				pivot[v] = n
			}
		}
		var vals []int
		for v := range pivot {
			vals = append(vals, v)
		}
		sort.Ints(vals)
		key2 := func(tag string) int {
			if c08safeNode(tag) == nil {
				// INDI, FAM, HUSB, WIFE, CHIL cannot be built standalone; their flattened header is a
				// plain node with the registered tag, so the registered value applies
				return 2 * gedcom.TagFromString(tag).SortValue()
			}
			below := 0
			for _, v := range vals {
				lt, ok1 := c08probeLess(tag, pivot[v])
				gt, ok2 := c08probeLess(pivot[v], tag)
				if !ok1 || !ok2 {
					return 2 * gedcom.TagFromString(tag).SortValue()
				}
				if !lt && !gt {
					return 2 * v
				}
				if gt {
					below = v
				}
			}
			return 2*below + 1
		}
		b.WriteString("/-- tag ↦ first sort level of `NodeDiff.Sort` (2 × the `sortValue` field; odd = between groups) -/\n")
		b.WriteString("def sortKey2 : List (String × Nat) := [\n")
		for i, n := range names {
			sep := ","
			if i == len(names)-1 {
				sep = ""
			}
			fmt.Fprintf(&b, "  (%q, %d)%s\n", n, key2(n), sep)
		}
		b.WriteString("]\n\n")
		b.WriteString("/-- the same for an unregistered tag (probe: \"ZZUNKNOWN\") -/\n")
		fmt.Fprintf(&b, "def unknownSortKey2 : Nat := %d\n\n", key2("ZZUNKNOWN"))

		// 3. Yearer
		var yearers []string
		for _, n := range append(append([]string{}, names...), "ZZUNKNOWN") {
			if nd := c08safeNode(n); nd != nil {
				if _, ok := nd.(gedcom.Yearer); ok {
					yearers = append(yearers, fmt.Sprintf("%q", n))
				}
			}
		}
		b.WriteString("/-- tags whose node type has a `Years()` method (second sort level) -/\n")
		fmt.Fprintf(&b, "def yearerTags : List String := [%s]\n\n", strings.Join(yearers, ", "))
		b.WriteString("end Gedcom.Generated.Diff\n")
		return b.String()
	}
}
