package main

// Translator for the escaping code of html/core (Gedcom/Generated/Escapers.lean): the statements of
// (*Text).WriteHTMLTo and the expressions that stand between a value and the page in
// (*Tag).WriteHTMLTo, (*Anchor).WriteHTMLTo and (*TableHead).WriteHTMLTo are read with go/ast and
// printed as programs of a small rewrite language (Gedcom/Model/Rewrite.lean):
//     strings.Replace(x, "a", "b", -1) / strings.ReplaceAll   -> .replaceAll a b
//     html.EscapeString(x)                                     -> .escapeString
//     <package-level strings.NewReplacer(lits…)>.Replace(x)    -> .replacer [(old, new), …]
// applied, in source order, to the value (c.s, the attribute value, c.name, the column).
// Nothing is guessed: any other statement or expression shape, a second assignment to the value
// variable, a conditional around a step … becomes `.bad "<source text>"`, which the obligation
// `escapers_translated` rejects.

import (
	"fmt"
	"go/ast"
	"go/parser"
	"go/token"
	"html"
	"path/filepath"
	"strconv"
	"strings"
)

type c18RwOp struct {
	kind  string // replaceAll | escapeString | replacer | bad
	a, b  string
	pairs [][2]string
}

func c18Bad(what string) []c18RwOp { return []c18RwOp{{kind: "bad", a: what}} }

type c18EscFile struct {
	file      *ast.File
	replacers map[string][][2]string // package-level strings.NewReplacer variables (whole package)
	stdHTML   bool                   // the file imports the standard "html" package under that name
}

func c18ParseCore(name string, replacers map[string][][2]string) *c18EscFile {
	fset := token.NewFileSet()
	f, err := parser.ParseFile(fset, filepath.Join(c18RepoDir(), "html", "core", name), nil, 0)
	if err != nil {
		return nil
	}
	ef := &c18EscFile{file: f, replacers: replacers}
	for _, im := range f.Imports {
		if im.Path.Value == `"html"` && (im.Name == nil || im.Name.Name == "html") {
			ef.stdHTML = true
		}
	}
	return ef
}

// c18CoreReplacers: package-level `var x = strings.NewReplacer("a", "b", …)` with literal arguments.
func c18CoreReplacers() map[string][][2]string {
	out := map[string][][2]string{}
	fset := token.NewFileSet()
	pkgs, err := parser.ParseDir(fset, filepath.Join(c18RepoDir(), "html", "core"), nil, 0)
	if err != nil {
		return out
	}
	for _, pkg := range pkgs {
		for fname, f := range pkg.Files {
			if strings.HasSuffix(fname, "_test.go") {
				continue
			}
			for _, d := range f.Decls {
				gd, ok := d.(*ast.GenDecl)
				if !ok || gd.Tok != token.VAR {
					continue
				}
				for _, sp := range gd.Specs {
					vs := sp.(*ast.ValueSpec)
					if len(vs.Names) != 1 || len(vs.Values) != 1 {
						continue
					}
					call, ok := vs.Values[0].(*ast.CallExpr)
					if !ok || c18ExprText(call.Fun) != "strings.NewReplacer" || len(call.Args)%2 != 0 {
						continue
					}
					var pairs [][2]string
					good := true
					for i := 0; i+1 < len(call.Args); i += 2 {
						a, okA := c18StrLit(call.Args[i])
						b, okB := c18StrLit(call.Args[i+1])
						if !okA || !okB {
							good = false
						}
						pairs = append(pairs, [2]string{a, b})
					}
					if good {
						out[vs.Names[0].Name] = pairs
					}
				}
			}
		}
	}
	return out
}

func c18StrLit(e ast.Expr) (string, bool) {
	bl, ok := e.(*ast.BasicLit)
	if !ok || bl.Kind != token.STRING {
		return "", false
	}
	v, err := strconv.Unquote(bl.Value)
	return v, err == nil
}

// chain translates an expression into the operations applied to `input` (the source text of the
// value expression), innermost first.
func (ef *c18EscFile) chain(e ast.Expr, input string) []c18RwOp {
	if c18ExprText(e) == input {
		return nil
	}
	call, ok := e.(*ast.CallExpr)
	if !ok {
		return c18Bad(c18ExprText(e))
	}
	fun := c18ExprText(call.Fun)
	switch {
	case fun == "html.EscapeString" && ef.stdHTML && len(call.Args) == 1:
		return append(ef.chain(call.Args[0], input), c18RwOp{kind: "escapeString"})
	case fun == "strings.Replace" && len(call.Args) == 4 && c18ExprText(call.Args[3]) == "-1",
		fun == "strings.ReplaceAll" && len(call.Args) == 3:
		a, okA := c18StrLit(call.Args[1])
		b, okB := c18StrLit(call.Args[2])
		if !okA || !okB {
			return c18Bad(c18ExprText(e))
		}
		return append(ef.chain(call.Args[0], input), c18RwOp{kind: "replaceAll", a: a, b: b})
	}
	if se, ok := call.Fun.(*ast.SelectorExpr); ok && se.Sel.Name == "Replace" && len(call.Args) == 1 {
		if id, ok := se.X.(*ast.Ident); ok {
			if pairs, ok := ef.replacers[id.Name]; ok {
				return append(ef.chain(call.Args[0], input), c18RwOp{kind: "replacer", pairs: pairs})
			}
		}
	}
	return c18Bad(c18ExprText(e))
}

func c18Method(f *ast.File, recvType, name string) *ast.FuncDecl {
	for _, d := range f.Decls {
		fd, ok := d.(*ast.FuncDecl)
		if !ok || fd.Name.Name != name || fd.Recv == nil || len(fd.Recv.List) != 1 || fd.Body == nil {
			continue
		}
		if strings.TrimPrefix(c18ExprText(fd.Recv.List[0].Type), "*") == recvType {
			return fd
		}
	}
	return nil
}

func c18RecvName(fd *ast.FuncDecl) string {
	if len(fd.Recv.List[0].Names) == 1 {
		return fd.Recv.List[0].Names[0].Name
	}
	return "_"
}

// assignmentsTo counts the statements that define or assign the identifier in the function.
func c18AssignmentsTo(fd *ast.FuncDecl, name string) int {
	n := 0
	ast.Inspect(fd.Body, func(nd ast.Node) bool {
		switch s := nd.(type) {
		case *ast.AssignStmt:
			for _, l := range s.Lhs {
				if id, ok := l.(*ast.Ident); ok && id.Name == name {
					n++
				}
			}
		case *ast.IncDecStmt:
			if id, ok := s.X.(*ast.Ident); ok && id.Name == name {
				n++
			}
		case *ast.UnaryExpr:
			if id, ok := s.X.(*ast.Ident); ok && s.Op == token.AND && id.Name == name {
				n++
			}
		}
		return true
	})
	return n
}

// text.go: the whole body must be  v := f(c.s); v = g(v); …; return writeString(w, v)
func c18TextProgram(reps map[string][][2]string) []c18RwOp {
	ef := c18ParseCore("text.go", reps)
	if ef == nil {
		return c18Bad("text.go not found")
	}
	fd := c18Method(ef.file, "Text", "WriteHTMLTo")
	if fd == nil {
		return c18Bad("(*Text).WriteHTMLTo not found")
	}
	recv := c18RecvName(fd)
	var prog []c18RwOp
	cur := "" // the variable that holds the text so far
	stmts := fd.Body.List
	for i, st := range stmts {
		switch s := st.(type) {
		case *ast.AssignStmt:
			if len(s.Lhs) != 1 || len(s.Rhs) != 1 {
				return append(prog, c18Bad(c18StmtText(st))...)
			}
			id, ok := s.Lhs[0].(*ast.Ident)
			if !ok {
				return append(prog, c18Bad(c18StmtText(st))...)
			}
			switch {
			case cur == "" && s.Tok == token.DEFINE:
				// first step: from a field of the receiver
				in := ""
				ast.Inspect(s.Rhs[0], func(nd ast.Node) bool {
					if se, ok := nd.(*ast.SelectorExpr); ok {
						if x, ok := se.X.(*ast.Ident); ok && x.Name == recv {
							in = c18ExprText(se)
						}
					}
					return true
				})
				if in == "" {
					return append(prog, c18Bad(c18StmtText(st))...)
				}
				prog = append(prog, ef.chain(s.Rhs[0], in)...)
				cur = id.Name
			case cur != "" && s.Tok == token.ASSIGN && id.Name == cur:
				prog = append(prog, ef.chain(s.Rhs[0], cur)...)
			default:
				return append(prog, c18Bad(c18StmtText(st))...)
			}
		case *ast.ReturnStmt:
			if i != len(stmts)-1 || len(s.Results) != 1 || cur == "" ||
				c18ExprText(s.Results[0]) != "writeString(w, "+cur+")" {
				return append(prog, c18Bad(c18StmtText(st))...)
			}
			return prog
		default:
			return append(prog, c18Bad(c18StmtText(st))...)
		}
	}
	return append(prog, c18Bad("no return writeString(w, …)")...)
}

func c18StmtText(s ast.Stmt) string {
	switch x := s.(type) {
	case *ast.AssignStmt:
		l, r := []string{}, []string{}
		for _, e := range x.Lhs {
			l = append(l, c18ExprText(e))
		}
		for _, e := range x.Rhs {
			r = append(r, c18ExprText(e))
		}
		return strings.Join(l, ", ") + " " + x.Tok.String() + " " + strings.Join(r, ", ")
	case *ast.ReturnStmt:
		r := []string{}
		for _, e := range x.Results {
			r = append(r, c18ExprText(e))
		}
		return "return " + strings.Join(r, ", ")
	case *ast.ExprStmt:
		return c18ExprText(x.X)
	}
	return fmt.Sprintf("%T", s)
}

// sprintfArg finds the single call of one of `funcs` in the method whose format literal contains
// `marker`, and returns its last argument.
func c18SprintfArg(fd *ast.FuncDecl, funcs []string, marker string) (ast.Expr, string) {
	var found []ast.Expr
	ast.Inspect(fd.Body, func(nd ast.Node) bool {
		call, ok := nd.(*ast.CallExpr)
		if !ok {
			return true
		}
		fun := c18ExprText(call.Fun)
		for _, f := range funcs {
			if fun != f {
				continue
			}
			for i, a := range call.Args {
				if lit, ok := c18StrLit(a); ok && strings.Contains(lit, marker) && i < len(call.Args)-1 {
					found = append(found, call.Args[len(call.Args)-1])
				}
			}
		}
		return true
	})
	if len(found) != 1 {
		return nil, fmt.Sprintf("%d calls of %s with a format containing %s", len(found), strings.Join(funcs, "/"), marker)
	}
	return found[0], ""
}

// innermost identifier / selector the chain starts from
func c18ChainInput(e ast.Expr) string {
	for {
		call, ok := e.(*ast.CallExpr)
		if !ok || len(call.Args) == 0 {
			return c18ExprText(e)
		}
		e = call.Args[0]
	}
}

// tag.go: the value argument of the `name="value"` Sprintf; the value variable must be defined once,
// from the attribute map, and never touched again.
func c18AttrProgram(reps map[string][][2]string) []c18RwOp {
	ef := c18ParseCore("tag.go", reps)
	if ef == nil {
		return c18Bad("tag.go not found")
	}
	fd := c18Method(ef.file, "Tag", "WriteHTMLTo")
	if fd == nil {
		return c18Bad("(*Tag).WriteHTMLTo not found")
	}
	arg, why := c18SprintfArg(fd, []string{"fmt.Sprintf"}, `="%s"`)
	if arg == nil {
		return c18Bad(why)
	}
	in := c18ChainInput(arg)
	recv := c18RecvName(fd)
	// `in` must be a local defined exactly once as  in := recv.attributes[…]
	defs := 0
	ast.Inspect(fd.Body, func(nd ast.Node) bool {
		if s, ok := nd.(*ast.AssignStmt); ok && s.Tok == token.DEFINE && len(s.Lhs) == 1 && len(s.Rhs) == 1 {
			if id, ok := s.Lhs[0].(*ast.Ident); ok && id.Name == in {
				if ix, ok := s.Rhs[0].(*ast.IndexExpr); ok && c18ExprText(ix.X) == recv+".attributes" {
					defs++
				}
			}
		}
		return true
	})
	if defs != 1 || c18AssignmentsTo(fd, in) != 1 {
		return c18Bad("the attribute value `" + in + "` is not defined exactly once from " + recv + ".attributes[…] (assignments: " + strconv.Itoa(c18AssignmentsTo(fd, in)) + ")")
	}
	return ef.chain(arg, in)
}

// anchor.go: return writeSprintf(w, `…%s…`, E(c.name))
func c18AnchorProgram(reps map[string][][2]string) []c18RwOp {
	ef := c18ParseCore("anchor.go", reps)
	if ef == nil {
		return c18Bad("anchor.go not found")
	}
	fd := c18Method(ef.file, "Anchor", "WriteHTMLTo")
	if fd == nil || len(fd.Body.List) != 1 {
		return c18Bad("(*Anchor).WriteHTMLTo is not a single statement")
	}
	arg, why := c18SprintfArg(fd, []string{"writeSprintf", "appendSprintf", "fmt.Sprintf"}, "%s")
	if arg == nil {
		return c18Bad(why)
	}
	in := c18ChainInput(arg)
	if !strings.HasPrefix(in, c18RecvName(fd)+".") {
		return c18Bad("the anchor name is " + in)
	}
	return ef.chain(arg, in)
}

// table_head.go: for _, X := range c.columns { … appendSprintf(w, `…%s…`, E(X)) }
func c18HeadProgram(reps map[string][][2]string) []c18RwOp {
	ef := c18ParseCore("table_head.go", reps)
	if ef == nil {
		return c18Bad("table_head.go not found")
	}
	fd := c18Method(ef.file, "TableHead", "WriteHTMLTo")
	if fd == nil {
		return c18Bad("(*TableHead).WriteHTMLTo not found")
	}
	arg, why := c18SprintfArg(fd, []string{"writeSprintf", "appendSprintf", "fmt.Sprintf"}, "%s")
	if arg == nil {
		return c18Bad(why)
	}
	in := c18ChainInput(arg)
	ranges := 0
	ast.Inspect(fd.Body, func(nd ast.Node) bool {
		if rs, ok := nd.(*ast.RangeStmt); ok && rs.Value != nil && c18ExprText(rs.Value) == in &&
			c18ExprText(rs.X) == c18RecvName(fd)+".columns" {
			ranges++
		}
		return true
	})
	if ranges != 1 || c18AssignmentsTo(fd, in) != 0 {
		return c18Bad("the column `" + in + "` is not the untouched loop variable over the columns")
	}
	return ef.chain(arg, in)
}

func c18LeanOps(ops []c18RwOp) string {
	var parts []string
	for _, o := range ops {
		switch o.kind {
		case "escapeString":
			parts = append(parts, ".escapeString")
		case "replaceAll":
			parts = append(parts, fmt.Sprintf(".replaceAll %s %s /- %s -> %s -/", c18LeanBytes(o.a), c18LeanBytes(o.b), c18LeanComment(o.a), c18LeanComment(o.b)))
		case "replacer":
			var ps []string
			for _, p := range o.pairs {
				ps = append(ps, fmt.Sprintf("(%s, %s)", c18LeanBytes(p[0]), c18LeanBytes(p[1])))
			}
			parts = append(parts, ".replacer ["+strings.Join(ps, ", ")+"]")
		default:
			parts = append(parts, ".bad "+strconv.Quote(c18LeanComment(o.a)))
		}
	}
	return "[" + strings.Join(parts, ",\n   ") + "]"
}

func init() {
	extractors["Escapers"] = func() string {
		var b strings.Builder
		b.WriteString("-- Source: go/ast of html/core/text.go, tag.go, anchor.go, table_head.go — the escaping steps between a\n")
		b.WriteString("-- value and the page, in source order, as programs of Gedcom.Rewrite; html.EscapeString of the Go\n")
		b.WriteString("-- standard library probed on all 256 bytes.\n")
		b.WriteString("import Gedcom.Model.Rewrite\nnamespace Gedcom.Generated\nopen Gedcom Gedcom.Rewrite\n\n")
		tbl, _ := c18EncTable(func(v string) string { return html.EscapeString(v) })
		fmt.Fprintf(&b, "/-- bytes that html.EscapeString (standard library) does not copy, with what it writes instead -/\ndef stdEscapeTable : List (UInt8 × Str) := %s\n\n", tbl)
		reps := c18CoreReplacers()
		fmt.Fprintf(&b, "/-- (*Text).WriteHTMLTo: the statements from `c.s` to `return writeString(w, …)` -/\ndef textProgram : List Op :=\n  %s\n\n", c18LeanOps(c18TextProgram(reps)))
		fmt.Fprintf(&b, "/-- (*Tag).WriteHTMLTo: what is applied to an attribute value before it is written into name=\"…\" -/\ndef attrProgram : List Op :=\n  %s\n\n", c18LeanOps(c18AttrProgram(reps)))
		fmt.Fprintf(&b, "/-- (*Anchor).WriteHTMLTo: what is applied to the name -/\ndef anchorProgram : List Op :=\n  %s\n\n", c18LeanOps(c18AnchorProgram(reps)))
		fmt.Fprintf(&b, "/-- (*TableHead).WriteHTMLTo: what is applied to every column -/\ndef headProgram : List Op :=\n  %s\n\n", c18LeanOps(c18HeadProgram(reps)))
		b.WriteString("end Gedcom.Generated\n")
		return b.String()
	}
}
