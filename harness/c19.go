package main

// C19 — Publishing yields a closed, confined, deterministic set of files.
//
//  (T) naming correspondence against the Lean model: sanitize (through GetIndividuals and through
//      Publisher.Places), GetIndividuals with a nil and with the populated places map,
//      PageIndividual, PageIndividuals, PageSource, PagePlace, the place map, GetIndexLetters, the
//      surname link and the file list of Publisher.Files — on hostile pointers ('../x', 'a/b',
//      'places'), colliding person/place names, surnames starting with digits, symbols and
//      multi-byte letters; protocol outcome of a failing writer against the model run under a
//      pseudo-random schedule.
//  (S) site level, in-memory FileWriter, every publish in a child process (`gvh worker c19pub`):
//      plain names, no duplicates, every href / location.href resolves or is '#', identical output
//      across fresh processes with jobs in {1,2,8,16}, across repetitions in one process, after
//      publishing another document first, and a writer failing at the k-th file (terminates within
//      a timeout with a non-nil error; a writer that keeps failing stops every worker).
//      Thorough tier: the same publishes under the race detector (child binary built on demand).

import (
	"bytes"
	"crypto/sha1"
	"encoding/hex"
	"encoding/json"
	"errors"
	"fmt"
	stdhtml "html"
	"os"
	"os/exec"
	"path/filepath"
	"regexp"
	"sort"
	"strconv"
	"strings"
	"sync"
	"sync/atomic"
	"time"

	"github.com/elliotchance/gedcom/v39"
	"github.com/elliotchance/gedcom/v39/html"
	"github.com/elliotchance/gedcom/v39/html/core"
)

// ---------------------------------------------------------------- jobs for the child process

type c19Opts struct {
	Individuals, Places, Families, Surnames, Sources, Statistics bool
	Living                                                       string // show|hide|placeholder
}

func (o c19Opts) String() string {
	b := func(x bool, s string) string {
		if x {
			return s
		}
		return "-"
	}
	return b(o.Individuals, "I") + b(o.Places, "P") + b(o.Families, "F") + b(o.Surnames, "N") +
		b(o.Sources, "S") + b(o.Statistics, "T") + "/" + o.Living
}

func (o c19Opts) bits() string {
	return bit(o.Individuals) + bit(o.Places) + bit(o.Families) + bit(o.Surnames) + bit(o.Sources) + bit(o.Statistics)
}

func (o c19Opts) real() *html.PublishShowOptions {
	return &html.PublishShowOptions{ShowIndividuals: o.Individuals, ShowPlaces: o.Places,
		ShowFamilies: o.Families, ShowSurnames: o.Surnames, ShowSources: o.Sources,
		ShowStatistics: o.Statistics, LivingVisibility: html.NewLivingVisibility(o.Living)}
}

func (o c19Opts) allGroups() c19Opts {
	return c19Opts{true, true, true, true, true, true, o.Living}
}

type c19Job struct {
	Gedcom  []byte  // the document
	Gedcom2 []byte  // a document published first in the same process (history)
	Opts    c19Opts //
	Jobs    int     // parallel
	FailAt  int     // the writer fails at the FailAt-th WriteFile call (1-based); 0 = never
	FailAll bool    // … and at every later call
	Repeat  int     // number of publishes of Gedcom in the same process (each compared by the parent)
	Data    bool    // return the bytes of every file (baseline); otherwise only of files whose hash is not in Expect
	Names   bool    // also return the file names of Publisher.Files for these options and for all page groups
	Expect  map[string]string
	// DirHistory: publish Gedcom with the real DirectoryFileWriter into a fresh directory, then
	// Gedcom2 into a directory in which some pages cannot be created (the operating system refuses),
	// then Gedcom again into a third directory; the two directories of Gedcom are returned as two runs.
	DirHistory bool
	// History: the document object is decoded once and published twice in this process:
	//   "other-options"  first with other options (visibility, page groups) and Jobs2 jobs
	//   "failed-first"   first with a writer that fails at the second file
	//   "edit"           published, edited in place below an individual (History2 = which edit), published again
	// Runs[0] = the second publish; Runs[1] = a publish of a freshly decoded copy of the current text.
	History  string
	History2 int
	Jobs2    int
}

type c19File struct {
	Name  string
	Sha   string
	Data  []byte   `json:",omitempty"`
	Links []string `json:",omitempty"` // distinct href / location.href targets, as written
}

type c19Run struct {
	Files []c19File
	Err   string // error returned by Publish ("" = nil)
	Calls int    // WriteFile calls made
}

type c19Result struct {
	Runs       []c19Run
	Names      []string // Publisher.Files names for the options of the job (nothing rendered)
	NamesAll   []string // … with every page group enabled
	HistoryErr string   // DirHistory: what Publish of the failing document returned ("" = nil)
	Panic      string
	Crashed    bool   // child died (goroutine panic, fatal error)
	TimedOut   bool   // child did not finish within the timeout
	Stderr     string // tail
	RaceCount  int    // race reports in the child's log (race build only)
	Races      []string
}

// c19MemWriter renders every file into memory, in the calling worker goroutine exactly like
// DirectoryFileWriter does, and can be told to fail.
type c19MemWriter struct {
	mu      sync.Mutex
	files   []c19File
	calls   int
	failAt  int
	failAll bool
}

var c19HrefRe = regexp.MustCompile(`(?:href="([^"]*)"|location\.href='([^']*)')`)

func (w *c19MemWriter) WriteFile(file *core.File) error {
	w.mu.Lock()
	w.calls++
	n := w.calls
	w.mu.Unlock()
	if w.failAt > 0 && (n == w.failAt || (w.failAll && n > w.failAt)) {
		return errors.New("c19: injected writer failure")
	}
	var buf bytes.Buffer
	file.Component.WriteHTMLTo(&buf)
	sum := sha1.Sum(buf.Bytes())
	w.mu.Lock()
	w.files = append(w.files, c19File{Name: file.Name, Sha: hex.EncodeToString(sum[:]), Data: buf.Bytes()})
	w.mu.Unlock()
	return nil
}

func c19Links(data []byte) []string {
	seen := map[string]bool{}
	var out []string
	for _, m := range c19HrefRe.FindAllSubmatch(data, -1) {
		raw := string(m[1])
		if m[2] != nil && len(m[1]) == 0 {
			raw = string(m[2])
		}
		if !seen[raw] {
			seen[raw] = true
			out = append(out, raw)
		}
	}
	return out
}

func c19PublishOnce(job *c19Job, src []byte, failAt int, failAll bool) (run c19Run, err error) {
	doc, derr := gedcom.NewDocumentFromString(string(src))
	if derr != nil {
		return run, derr
	}
	return c19PublishDoc(job, doc, job.Opts, job.Jobs, failAt, failAll), nil
}

// c19PublishDoc publishes a decoded document into memory.
func c19PublishDoc(job *c19Job, doc *gedcom.Document, o c19Opts, jobs, failAt int, failAll bool) (run c19Run) {
	w := &c19MemWriter{failAt: failAt, failAll: failAll}
	p := html.NewPublisher(doc, o.real())
	perr := p.Publish(w, jobs)
	if perr != nil {
		run.Err = perr.Error()
	}
	run.Calls = w.calls
	run.Files = w.files
	sort.SliceStable(run.Files, func(i, j int) bool {
		if run.Files[i].Name != run.Files[j].Name {
			return run.Files[i].Name < run.Files[j].Name
		}
		return run.Files[i].Sha < run.Files[j].Sha
	})
	for i := range run.Files {
		f := &run.Files[i]
		f.Links = c19Links(f.Data)
		if !job.Data {
			if want, ok := job.Expect[f.Name]; ok && want == f.Sha {
				f.Data = nil
			}
		}
	}
	return run
}

// c19EditInPlace changes the document through the API at depth >= 2 below the document (children
// and grandchildren of an individual); which = the edit.  Returns a description ("" = nothing to edit).
func c19EditInPlace(doc *gedcom.Document, which int) string {
	inds := doc.Individuals()
	if len(inds) == 0 {
		return ""
	}
	switch which % 5 {
	case 0: // somebody dies: a child of an individual is added
		for _, ind := range inds {
			if ind.IsLiving() {
				ind.AddNode(gedcom.NewNode(gedcom.TagDeath, "Y", ""))
				return "AddNode(DEAT Y) on the first living individual"
			}
		}
		inds[0].AddNode(gedcom.NewNode(gedcom.TagDeath, "Y", ""))
		return "AddNode(DEAT Y) on the first individual"
	case 1: // a place disappears: a grandchild of an individual is deleted
		for _, ind := range inds {
			for _, ev := range ind.Nodes() {
				for _, k := range ev.Nodes() {
					if _, ok := k.(*gedcom.PlaceNode); ok {
						ev.DeleteNode(k)
						return "DeleteNode(PLAC) below an event of an individual"
					}
				}
			}
		}
		return ""
	case 2: // a new place appears: a grandchild is added
		for _, ind := range inds {
			for _, ev := range ind.Nodes() {
				if ev.Tag().Is(gedcom.TagBirth) || ev.Tag().Is(gedcom.TagDeath) {
					ev.AddNode(gedcom.NewNode(gedcom.TagPlace, "Zedtown, Quuxland", ""))
					return "AddNode(PLAC Zedtown, Quuxland) below an event of an individual"
				}
			}
		}
		return ""
	case 3: // somebody is renamed: the NAME child is replaced
		ind := inds[len(inds)/2]
		for _, k := range ind.Nodes() {
			if k.Tag().Is(gedcom.TagName) {
				ind.DeleteNode(k)
				break
			}
		}
		ind.AddNode(gedcom.NewNode(gedcom.TagName, "Zed /Quux/", ""))
		return "NAME of an individual replaced by Zed /Quux/ (DeleteNode + AddNode)"
	default: // a field of the document: who is living
		doc.MaxLivingAge = 5
		return "Document.MaxLivingAge = 5"
	}
}

// c19PublishDir publishes into dir with the real core.DirectoryFileWriter and reads the files back.
func c19PublishDir(job *c19Job, src []byte, dir string) (run c19Run, err error) {
	doc, derr := gedcom.NewDocumentFromString(string(src))
	if derr != nil {
		return run, derr
	}
	p := html.NewPublisher(doc, job.Opts.real())
	if perr := p.Publish(core.NewDirectoryFileWriter(dir), job.Jobs); perr != nil {
		run.Err = perr.Error()
	}
	entries, _ := os.ReadDir(dir)
	for _, e := range entries {
		data, rerr := os.ReadFile(filepath.Join(dir, e.Name()))
		if rerr != nil {
			continue
		}
		sum := sha1.Sum(data)
		f := c19File{Name: e.Name(), Sha: hex.EncodeToString(sum[:]), Data: data}
		if want, ok := job.Expect[f.Name]; ok && want == f.Sha {
			f.Data = nil
		}
		run.Files = append(run.Files, f)
	}
	run.Calls = len(run.Files)
	return run, nil
}

func c19FileNames(src []byte, o c19Opts) ([]string, error) {
	doc, err := gedcom.NewDocumentFromString(string(src))
	if err != nil {
		return nil, err
	}
	names := []string{}
	for f := range html.NewPublisher(doc, o.real()).Files(64) {
		names = append(names, f.Name)
	}
	sort.Strings(names)
	return names, nil
}

func init() {
	workers["c19pub"] = func(args []string) int {
		var job c19Job
		if err := json.NewDecoder(os.Stdin).Decode(&job); err != nil {
			fmt.Fprintln(os.Stderr, "c19pub: bad job:", err)
			return 2
		}
		var res c19Result
		func() {
			defer func() {
				if r := recover(); r != nil {
					res.Panic = fmt.Sprint(r)
				}
			}()
			if job.DirHistory {
				tmp, err := os.MkdirTemp("", "c19dir-")
				if err != nil {
					res.Panic = "mkdir: " + err.Error()
					return
				}
				defer os.RemoveAll(tmp)
				for _, d := range []string{"before", "failing", "after"} {
					os.Mkdir(filepath.Join(tmp, d), 0o755)
				}
				before, err := c19PublishDir(&job, job.Gedcom, filepath.Join(tmp, "before"))
				if err != nil {
					res.Panic = "decode: " + err.Error()
					return
				}
				// the failing publishes: a page whose name the file system refuses (too long), and an
				// output directory below a regular file
				os.WriteFile(filepath.Join(tmp, "plainfile"), []byte("x"), 0o644)
				failJob := job // every page group, so that the pages that cannot be created are published
				failJob.Opts = job.Opts.allGroups()
				failing, err := c19PublishDir(&failJob, job.Gedcom2, filepath.Join(tmp, "failing"))
				if err != nil {
					res.Panic = "decode: " + err.Error()
					return
				}
				res.HistoryErr = failing.Err
				if second, err := c19PublishDir(&failJob, job.Gedcom2, filepath.Join(tmp, "plainfile", "out")); err == nil && second.Err == "" {
					res.HistoryErr = ""
				}
				after, err := c19PublishDir(&job, job.Gedcom, filepath.Join(tmp, "after"))
				if err != nil {
					res.Panic = "decode: " + err.Error()
					return
				}
				res.Runs = []c19Run{before, after}
				return
			}
			if job.History != "" {
				doc, err := gedcom.NewDocumentFromString(string(job.Gedcom))
				if err != nil {
					res.Panic = "decode: " + err.Error()
					return
				}
				jobs2 := job.Jobs2
				if jobs2 < 1 {
					jobs2 = 1
				}
				switch job.History {
				case "other-options":
					o := job.Opts
					o.Living = map[string]string{"show": "hide", "hide": "placeholder", "placeholder": "show"}[o.Living]
					o.Places, o.Surnames, o.Sources = !o.Places, !o.Surnames, !o.Sources
					c19PublishDoc(&job, doc, o, jobs2, 0, false)
				case "failed-first":
					c19PublishDoc(&job, doc, job.Opts, jobs2, 2, true)
				case "edit":
					c19PublishDoc(&job, doc, job.Opts, jobs2, 0, false)
					res.Stderr = c19EditInPlace(doc, job.History2)
				}
				second := c19PublishDoc(&job, doc, job.Opts, job.Jobs, 0, false)
				fresh, err := gedcom.NewDocumentFromString(doc.String())
				if err != nil {
					res.Panic = "decode of the current text: " + err.Error()
					return
				}
				fresh.MaxLivingAge = doc.MaxLivingAge
				reference := c19PublishDoc(&job, fresh, job.Opts, 1, 0, false)
				res.HistoryErr = res.Stderr
				res.Runs = []c19Run{second, reference}
				return
			}
			if len(job.Gedcom2) > 0 { // history: another document is published first
				if _, err := c19PublishOnce(&job, job.Gedcom2, 0, false); err != nil {
					res.Panic = "decode: " + err.Error()
					return
				}
			}
			n := job.Repeat
			if n < 1 {
				n = 1
			}
			for i := 0; i < n; i++ {
				run, err := c19PublishOnce(&job, job.Gedcom, job.FailAt, job.FailAll)
				if err != nil {
					res.Panic = "decode: " + err.Error()
					return
				}
				res.Runs = append(res.Runs, run)
			}
			if job.Names {
				var err error
				if res.Names, err = c19FileNames(job.Gedcom, job.Opts); err != nil {
					res.Panic = "decode: " + err.Error()
					return
				}
				// every page group enabled; and the same with places as in the job (the places map
				// takes part in the individual keys)
				if res.NamesAll, err = c19FileNames(job.Gedcom, job.Opts.allGroups()); err != nil {
					res.Panic = "decode: " + err.Error()
					return
				}
				o := job.Opts.allGroups()
				o.Places = job.Opts.Places
				more, err := c19FileNames(job.Gedcom, o)
				if err != nil {
					res.Panic = "decode: " + err.Error()
					return
				}
				res.NamesAll = append(res.NamesAll, more...)
			}
		}()
		json.NewEncoder(os.Stdout).Encode(&res)
		return 0
	}
}

var c19ClosureSuffix = regexp.MustCompile(`(\.(func|deferwrap|gowrap)\d+)+$`)
var c19RaceSite = regexp.MustCompile(`(?m)^\s+(\S+)\(\)\n\s+(\S+):(\d+)`)

// c19Timeouts counts the children that did not finish.  Once a few have hung, the limit of the
// remaining ones is cut to 10 s: a tree on which publishing hangs is reported within minutes.
var c19Timeouts atomic.Int64

func c19Timeout(d time.Duration) time.Duration {
	if c19Timeouts.Load() >= 3 && d > 10*time.Second {
		return 10 * time.Second
	}
	return d
}

// c19Child runs one job in a child process (bin = "" : this binary).
func c19Child(bin string, job *c19Job, timeout time.Duration, env ...string) *c19Result {
	if bin == "" {
		bin = os.Getenv("GVH_BIN")
		if bin == "" {
			bin, _ = os.Executable()
		}
	}
	in, _ := json.Marshal(job)
	cmd := exec.Command(bin, "worker", "c19pub")
	cmd.Stdin = bytes.NewReader(in)
	var out, errb bytes.Buffer
	cmd.Stdout = &out
	cmd.Stderr = &errb
	cmd.Env = append(append(os.Environ(), "GOMEMLIMIT=2GiB", "GOTRACEBACK=single"), env...)
	if err := cmd.Start(); err != nil {
		return &c19Result{Crashed: true, Stderr: err.Error()}
	}
	done := make(chan error, 1)
	go func() { done <- cmd.Wait() }()
	res := &c19Result{}
	select {
	case err := <-done:
		if jerr := json.Unmarshal(out.Bytes(), res); jerr != nil || err != nil {
			res.Crashed = true
		}
	case <-time.After(c19Timeout(timeout)):
		cmd.Process.Kill()
		<-done
		res.TimedOut = true
		c19Timeouts.Add(1)
	}
	s := errb.String()
	if strings.Contains(s, "WARNING: DATA RACE") {
		res.RaceCount = strings.Count(s, "WARNING: DATA RACE")
		res.Races = c19RacePairs(s)
	}
	if len(s) > 1500 {
		s = s[:1500]
	}
	res.Stderr = s
	return res
}

// c19Parallel runs f(i) for i in [0,n) on up to `par` goroutines (child processes do the work).
func c19Parallel(n, par int, f func(i int)) {
	var wg sync.WaitGroup
	sem := make(chan struct{}, par)
	for i := 0; i < n; i++ {
		wg.Add(1)
		sem <- struct{}{}
		go func(i int) {
			defer wg.Done()
			defer func() { <-sem }()
			f(i)
		}(i)
	}
	wg.Wait()
}

func c19FirstLine(s string) string {
	s = strings.TrimSpace(s)
	if i := strings.IndexByte(s, '\n'); i >= 0 {
		s = s[:i]
	}
	if len(s) > 200 {
		s = s[:200]
	}
	return s
}

// ---------------------------------------------------------------- document generator

type c19Doc struct {
	Text string
	Mode string
}

var c19Given = []string{"Ann", "Bob", "Cy", "Dee", "Eve", "Flo", "Gus", "Old", "Élan", "王", "O'Neil", "a&b", "Jo-Ann", "X Æ", "..", "a.b", "New York"}
var c19Surn = []string{"Smith", "Jones", "Town", "town", "1st", "#hash", "Éclair", "王", "O'Brien", "de la Cruz", "Smith-Jones", "", "K", "İz", "zz top", "&co",
	"surnames", "9lives", "-dash", "_under", "Ünal", "ß", "Ж", "é", "Zola", "zola", "ǅ"}
var c19PlaceNames = []string{"Old Town", "old-town", "Oldtown", "Old,Town", "Ann Smith", "Bob Jones", "Paris, France", "Paris,,France", "Sydney, NSW, Australia", ",", "Paris,,,,France", ", ,Leeds,",
	"Ünter, Öst", "New York, USA", "A & B, C", "İstanbul", "K", "St. John's", "ann-smith", "Bob  Jones", "a/b", "../x", "OLD TOWN"}
var c19ReservedPlaces = []string{"places", "statistics", "families", "individuals-a", "Sources"}

// hostile pointers named by the property
var c19HostilePtr = []string{"../x", "a/b", "places", "S/../x", "..", "/etc/passwd", "a b", "S1?x=1", "S#1", "x.html", "CON", "sources", "é", "a\\b", "S'1", "S\"1", "<S>", "S&1",
	"individuals-a", "ann-smith", "S_1", "s1", "S.1", "%2e%2e", "S%2F1", "-", "_", "S\x011", "Sé", "Sè", "д", "ж", "S_c3", "_70laces"}

// c19Generate builds a family graph.  mode: "hostile" (hostile pointers, colliding names, odd
// surnames), "collide" (few names and places that collapse to the same keys), "plain", "big".
func c19Generate(r *Rand, mode string, nowYear int) *c19Doc {
	var sb strings.Builder
	line := func(level int, rest string) { fmt.Fprintf(&sb, "%d %s\n", level, rest) }
	hostile := mode == "hostile"
	collide := mode == "collide"
	// "numbered": namesakes, places and people called like fixed pages, and sources whose pointer
	// is one of the document's own keys followed by "-<n>": the numbered keys getUniqueKey hands
	// out have to keep off the source pages too
	numbered := mode == "numbered"
	nI := 1 + r.Intn(7)
	if r.Chance(1, 8) {
		nI = 8 + r.Intn(10)
	}
	if mode == "big" {
		nI = 20 + r.Intn(25)
	}
	if r.Chance(1, 40) {
		nI = 0
	}
	nS := r.Intn(4)
	if numbered {
		nI, nS = 3+r.Intn(4), 2+r.Intn(4)
	}
	nF := 0
	if nI > 1 {
		nF = r.Intn(nI/2 + 2)
	}
	usedPtr := map[string]bool{}
	ptr := func(prefix string, i int, pool bool) string {
		p := fmt.Sprintf("%s%d", prefix, i+1)
		if pool && hostile && r.Chance(1, 2) {
			p = r.Pick(c19HostilePtr)
		}
		for usedPtr[p] {
			p += "x"
		}
		usedPtr[p] = true
		return p
	}
	iptr := make([]string, nI)
	for i := range iptr {
		iptr[i] = ptr("I", i, r.Chance(1, 3))
	}
	sptr := make([]string, nS)
	for i := range sptr {
		sptr[i] = ptr("S", i, true)
	}
	numGiven, numSurn := []string{"John", "Ann", "Old", "Sources"}, []string{"Smith", "Town", ""}
	numPlaces := []string{"Old Town", "Places", "Sydney", "Ann Smith", "Statistics", "John Smith"}
	if numbered {
		var bases []string // keys the people and places of this document will ask for
		for _, g := range numGiven {
			for _, sn := range numSurn {
				bases = append(bases, strings.Trim(strings.ToLower(g)+"-"+strings.ToLower(sn), "-"))
			}
		}
		for _, pl := range numPlaces {
			bases = append(bases, strings.ReplaceAll(strings.ToLower(pl), " ", "-"))
		}
		bases = append(bases, "places", "families", "surnames", "sources", "statistics", "individuals-a", "individuals-symbol")
		for i := range sptr {
			delete(usedPtr, sptr[i])
			p := r.Pick(bases)
			switch r.Intn(5) {
			case 0: // the plain key
			case 1: // the numbered key of an earlier source of this document
				if i > 0 {
					p = sptr[r.Intn(i)]
				}
				p += "-" + strconv.Itoa(1+r.Intn(2))
			default:
				p += "-" + strconv.Itoa(1+r.Intn(3))
			}
			for usedPtr[p] {
				p += "-1"
			}
			usedPtr[p] = true
			sptr[i] = p
		}
	}
	fptr := make([]string, nF)
	for i := range fptr {
		fptr[i] = ptr("F", i, r.Chance(1, 3))
	}
	place := func() string {
		switch {
		case numbered:
			return r.Pick(numPlaces)
		case collide:
			return r.Pick([]string{"Old Town", "old-town", "Old,Town", "OLD TOWN", "Oldtown", "Ann Smith", "ann-smith", "Bob Jones"})
		case hostile && r.Chance(1, 30):
			return r.Pick(c19ReservedPlaces)
		case hostile || r.Chance(1, 4):
			return r.Pick(c19PlaceNames)
		}
		return []string{"Paris, France", "Sydney, NSW, Australia", "New York, USA", "Old Town", "Leeds"}[r.Intn(5)]
	}
	date := func(alive bool) string {
		y := 1700 + r.Intn(200)
		if alive {
			y = nowYear - 1 - r.Intn(60)
		}
		d := fmt.Sprintf("%d %s %d", 1+r.Intn(28), []string{"Jan", "Feb", "Mar", "Sep", "Dec"}[r.Intn(5)], y)
		switch r.Intn(6) {
		case 0:
			d = fmt.Sprintf("%d", y)
		case 1:
			d = fmt.Sprintf("Abt. %d", y)
		case 2:
			d = fmt.Sprintf("Bet. %d and %d", y, y+2)
		}
		return d
	}
	event := func(tag string, alive bool) {
		line(1, tag)
		if r.Chance(4, 5) {
			line(2, "DATE "+date(alive))
		}
		if r.Chance(2, 3) {
			line(2, "PLAC "+place())
		}
		if r.Chance(1, 4) {
			line(2, "NOTE a note")
		}
		if nS > 0 && r.Chance(1, 3) {
			line(2, "SOUR @"+sptr[r.Intn(nS)]+"@")
		}
	}
	line(0, "HEAD")
	line(1, "CHAR UTF-8")
	for i := 0; i < nI; i++ {
		line(0, "@"+iptr[i]+"@ INDI")
		alive := r.Chance(1, 3)
		nNames := 1
		if r.Chance(1, 5) {
			nNames = 2
		}
		if r.Chance(1, 14) {
			nNames = 0
		}
		for k := 0; k < nNames; k++ {
			gv, sn := c19Given[r.Intn(8)], c19Surn[r.Intn(4)]
			switch {
			case numbered:
				gv, sn = r.Pick(numGiven), r.Pick(numSurn)
			case collide:
				gv, sn = r.Pick([]string{"Old", "old", "OLD", "Ann", "Bob", "ann"}), r.Pick([]string{"Town", "town", "Smith", "Jones", "smith"})
			case hostile && r.Chance(1, 4): // a person called like a place
				gv, sn = r.Pick([]string{"Old", "old", "Ann", "Bob", "Paris", "New"}), r.Pick([]string{"Town", "town", "Smith", "Jones", "France", "York USA"})
			case hostile && r.Chance(1, 12): // … or like a fixed page
				gv, sn = r.Pick([]string{"places", "statistics", "individuals", "families", "sources", "surnames"}), r.Pick([]string{"", "", "a", "symbol"})
			case hostile || r.Chance(1, 3):
				gv, sn = r.Pick(c19Given), r.Pick(c19Surn)
			}
			name := gv
			if sn != "" {
				name += " /" + sn + "/"
			}
			if !numbered && r.Chance(1, 6) {
				name += " Jr"
			}
			line(1, "NAME "+name)
			if !numbered && r.Chance(1, 6) {
				line(2, "NPFX Dr")
			}
			if !numbered && r.Chance(1, 8) {
				line(2, "SPFX van")
			}
		}
		switch r.Intn(4) {
		case 0:
			line(1, "SEX M")
		case 1:
			line(1, "SEX F")
		}
		if r.Chance(5, 6) {
			event("BIRT", alive)
		}
		if r.Chance(1, 4) {
			event("BAPM", alive)
		}
		if !alive {
			if r.Chance(3, 4) {
				event("DEAT", false)
			}
			if r.Chance(1, 4) {
				event("BURI", false)
			}
		}
		if r.Chance(1, 3) {
			event("RESI", alive)
		}
		if r.Chance(1, 4) {
			line(1, "OCCU smith")
		}
	}
	for f := 0; f < nF; f++ {
		line(0, "@"+fptr[f]+"@ FAM")
		perm := r.Perm(nI)
		k := 0
		if r.Chance(4, 5) && k < len(perm) {
			line(1, "HUSB @"+iptr[perm[k]]+"@")
			k++
		}
		if r.Chance(4, 5) && k < len(perm) {
			line(1, "WIFE @"+iptr[perm[k]]+"@")
			k++
		}
		for nc := r.Intn(5); nc > 0 && k < len(perm); nc-- {
			line(1, "CHIL @"+iptr[perm[k]]+"@")
			k++
		}
		if r.Chance(2, 3) {
			line(1, "MARR")
			if r.Chance(4, 5) {
				line(2, "DATE "+date(false))
			}
			if r.Chance(2, 3) {
				line(2, "PLAC "+place())
			}
		}
	}
	for s := 0; s < nS; s++ {
		line(0, "@"+sptr[s]+"@ SOUR")
		if r.Chance(5, 6) {
			line(1, "TITL Parish register "+strconv.Itoa(s))
		}
		if r.Chance(1, 2) {
			line(1, "AUTH A. Clerk")
		}
	}
	line(0, "TRLR")
	return &c19Doc{Text: sb.String(), Mode: mode}
}

// c19GenerateTies builds a document with many rows that tie on one place page: 4-8 namesakes born
// (and some died) at the same place, undated or in the same year, plus a second group at another
// place.  The tied rows differ only in the page they link to, so their order shows every
// dependence on map iteration order when two publishes are compared byte for byte.
func c19GenerateTies(r *Rand) *c19Doc {
	var sb strings.Builder
	line := func(level int, rest string) { fmt.Fprintf(&sb, "%d %s\n", level, rest) }
	line(0, "HEAD")
	n := 0
	group := func(name, place string, k int) {
		date := ""
		switch r.Intn(3) {
		case 0:
			date = strconv.Itoa(1700 + r.Intn(150))
		case 1:
			date = fmt.Sprintf("%d Mar %d", 1+r.Intn(28), 1700+r.Intn(150))
		}
		died := r.Bool()
		for i := 0; i < k; i++ {
			n++
			line(0, fmt.Sprintf("@I%d@ INDI", n))
			line(1, "NAME "+name)
			line(1, "BIRT")
			if date != "" {
				line(2, "DATE "+date)
			}
			line(2, "PLAC "+place)
			line(1, "DEAT")
			if died {
				line(2, "PLAC "+place)
			} else {
				line(2, "DATE 1900")
			}
		}
	}
	group(r.Pick([]string{"John /Smith/", "Ann /Town/", "Old /Town/"}), r.Pick([]string{"London, England", "Old Town", "Sydney"}), 4+r.Intn(5))
	if r.Bool() {
		group(r.Pick([]string{"Bob /Jones/", "John /Smith/"}), r.Pick([]string{"Leeds", "London, England", "old-town"}), 2+r.Intn(4))
	}
	line(0, "@S1@ SOUR")
	line(0, "TRLR")
	return &c19Doc{Text: sb.String(), Mode: "ties"}
}

// c19GenerateDupPointers builds a document in which two or three INDI records share a pointer
// (same and different names, living and dead, also records without pointer), referenced from a
// family, sometimes with duplicate FAM pointers too.  Decodable input: the pages and links must not
// depend on which of the records a map hands out first.
func c19GenerateDupPointers(r *Rand, nowYear int) *c19Doc {
	var sb strings.Builder
	line := func(level int, rest string) { fmt.Fprintf(&sb, "%d %s\n", level, rest) }
	line(0, "HEAD")
	names := []string{"John /Smith/", "Ann /Town/", "John /Smith/", "Old /Town/", "Bob /Jones/"}
	indi := func(ptr, name string, alive bool) {
		if ptr == "" {
			line(0, "INDI")
		} else {
			line(0, "@"+ptr+"@ INDI")
		}
		line(1, "NAME "+name)
		line(1, "BIRT")
		if alive {
			line(2, fmt.Sprintf("DATE 3 Mar %d", nowYear-20))
		} else {
			line(2, "DATE 3 Mar 1850")
		}
		line(2, "PLAC "+r.Pick([]string{"Leeds", "Old Town"}))
		if !alive {
			line(1, "DEAT Y")
		}
	}
	dupPtr := r.Pick([]string{"I1", "I1", "X", ""})
	k := 2 + r.Intn(2)
	for i := 0; i < k; i++ {
		name := names[0]
		if r.Bool() {
			name = r.Pick(names)
		}
		indi(dupPtr, name, r.Chance(1, 3))
	}
	indi("I7", r.Pick(names), false)
	indi("I8", r.Pick(names), r.Chance(1, 3))
	if r.Bool() { // a second group
		indi("I9", "Ann /Town/", false)
		indi("I9", "Ann /Town/", r.Bool())
	}
	fam := func(ptr string) {
		line(0, "@"+ptr+"@ FAM")
		if dupPtr != "" {
			line(1, "HUSB @"+dupPtr+"@")
		}
		line(1, "WIFE @I7@")
		line(1, "CHIL @I8@")
		if r.Bool() {
			line(1, "CHIL @I9@")
		}
	}
	fam("F1")
	if r.Bool() {
		fam(r.Pick([]string{"F1", "F2"}))
	}
	line(0, "@S1@ SOUR")
	line(1, "TITL First")
	if r.Chance(1, 3) { // two source records with one pointer
		line(0, "@S1@ SOUR")
		line(1, "TITL Second")
	}
	line(0, "TRLR")
	return &c19Doc{Text: sb.String(), Mode: "duplicate-pointers"}
}

// c19UncreatableDoc has pages the operating system refuses to create: source pointers of 300 bytes
// (file name too long).  The individual and list pages before them are written normally.
var c19UncreatableDoc = "0 HEAD\n0 @I1@ INDI\n1 NAME Zed /Quux/\n1 BIRT\n2 PLAC Nowhere\n2 SOUR @" + strings.Repeat("S", 300) + "@\n1 DEAT Y\n" +
	"0 @" + strings.Repeat("S", 300) + "@ SOUR\n1 TITL Long one\n0 @" + strings.Repeat("T", 300) + "@ SOUR\n1 TITL Long two\n0 @" + strings.Repeat("U", 260) + "@ SOUR\n1 TITL Long three\n0 TRLR\n"

// surnames of the size corpus: every ASCII letter in both cases, digits, symbols, non-ASCII first
// letters, the Kelvin sign and dotted I (which lower-case onto ASCII), and no surname at all
var c19BoundarySurnames = func() []string {
	var out []string
	for ch := 'a'; ch <= 'z'; ch++ {
		out = append(out, string(ch)+"son", strings.ToUpper(string(ch))+"SON")
	}
	return append(out, "0zero", "9nine", "#hash", "&co", "'t Hooft", "-dash", "_under", "Éclair", "王", "Ж", "ß", "\u212aelvin", "İz", "", "z", "Z", "{brace", "`tick", "@")
}()

// c19GenerateSized builds a document with exactly nI individuals, nF families, nS sources and nP
// distinct places; `namesakes` of the individuals are called "Same /Name/" (numbered keys up to
// that number), the others get the boundary surnames in turn.
func c19GenerateSized(nI, nF, nS, nP, namesakes, nowYear int) *c19Doc {
	var sb strings.Builder
	line := func(level int, rest string) { fmt.Fprintf(&sb, "%d %s\n", level, rest) }
	line(0, "HEAD")
	place := 0
	nextPlace := func() string {
		if nP == 0 {
			return ""
		}
		place++
		return fmt.Sprintf("Place %d, Shire %d", place%nP, (place%nP)%7)
	}
	for i := 0; i < nI; i++ {
		line(0, fmt.Sprintf("@I%d@ INDI", i+1))
		switch {
		case i < namesakes:
			line(1, "NAME Same /Name/")
		default:
			sn := c19BoundarySurnames[i%len(c19BoundarySurnames)]
			if sn == "" {
				line(1, fmt.Sprintf("NAME Given%d", i))
			} else {
				line(1, fmt.Sprintf("NAME Given%d /%s/", i, sn))
			}
		}
		line(1, "BIRT")
		if i%7 == 3 {
			line(2, fmt.Sprintf("DATE 3 Mar %d", nowYear-25))
		} else {
			line(2, fmt.Sprintf("DATE 3 Mar %d", 1700+i%200))
		}
		if pl := nextPlace(); pl != "" {
			line(2, "PLAC "+pl)
		}
		if nS > 0 {
			line(2, fmt.Sprintf("SOUR @S%d@", 1+i%nS))
		}
		if i%7 != 3 {
			line(1, "DEAT")
			line(2, fmt.Sprintf("DATE 5 May %d", 1760+i%200))
			if pl := nextPlace(); pl != "" && i%3 == 0 {
				line(2, "PLAC "+pl)
			}
		}
	}
	for f := 0; f < nF && nI > 0; f++ {
		line(0, fmt.Sprintf("@F%d@ FAM", f+1))
		line(1, fmt.Sprintf("HUSB @I%d@", 1+(2*f)%nI))
		line(1, fmt.Sprintf("WIFE @I%d@", 1+(2*f+1)%nI))
		line(1, fmt.Sprintf("CHIL @I%d@", 1+(2*f+2)%nI))
	}
	for k := 0; k < nS; k++ {
		line(0, fmt.Sprintf("@S%d@ SOUR", k+1))
		line(1, fmt.Sprintf("TITL Register %d", k+1))
	}
	line(0, "TRLR")
	return &c19Doc{Text: sb.String(), Mode: fmt.Sprintf("size:%d/%d/%d/%d", nI, nF, nS, nP)}
}

// the fixed page keys and their near misses: with and without the suffix, other case, one
// character more or less, and endings a cut-set trim of ".html" would eat (h, t, m, l, .)
var c19FixedNearMisses = func() []string {
	stems := []string{"places", "sources", "statistics", "families", "surnames", "index", "individuals", "individuals-symbol", "individuals-", "individuals-aa", "individuals-1", "individuals-#"}
	for ch := 'a'; ch <= 'z'; ch++ {
		stems = append(stems, "individuals-"+string(ch))
	}
	var out []string
	for i, st := range stems {
		out = append(out, st)
		switch i % 6 { // every variation over the list, a few per stem
		case 0:
			out = append(out, st+".html", strings.ToUpper(st), st+"h", st[:len(st)-1])
		case 1:
			out = append(out, strings.ToUpper(st[:1])+st[1:], st+".htm", st+"t", st+"-1")
		case 2:
			out = append(out, st+".", st+"m", st+".HTML", st+"s")
		case 3:
			out = append(out, st+"l", st+".html.html", st+"_", "."+st)
		case 4:
			out = append(out, st+"html", st+" html", st+"-", st+".h")
		default:
			out = append(out, st+".ht", st+"lmth", st+"..", st+"-0")
		}
	}
	return out
}()

// c19GenerateNearMisses builds a document whose people, places and sources are called like the
// k-th slice of the near-miss list.
func c19GenerateNearMisses(k, per int) *c19Doc {
	var sb strings.Builder
	line := func(level int, rest string) { fmt.Fprintf(&sb, "%d %s\n", level, rest) }
	line(0, "HEAD")
	lo := (k * per) % len(c19FixedNearMisses)
	used := map[string]bool{}
	for j := 0; j < per; j++ {
		w := c19FixedNearMisses[(lo+j)%len(c19FixedNearMisses)]
		line(0, fmt.Sprintf("@I%d@ INDI", j+1))
		if j%2 == 0 {
			line(1, "NAME "+w)
		} else {
			line(1, "NAME "+strings.Replace(w, "-", " /", 1)+"/")
		}
		line(1, "BIRT")
		line(2, "PLAC "+c19FixedNearMisses[(lo+j+1)%len(c19FixedNearMisses)])
		line(1, "DEAT Y")
		ptr := strings.NewReplacer("@", "", " ", "_").Replace(c19FixedNearMisses[(lo+j+2)%len(c19FixedNearMisses)])
		if ptr != "" && !used[ptr] {
			used[ptr] = true
			line(2, "SOUR @"+ptr+"@")
		}
	}
	var ptrs []string
	for p := range used {
		ptrs = append(ptrs, p)
	}
	sort.Strings(ptrs)
	for _, p := range ptrs {
		line(0, "@"+p+"@ SOUR")
		line(1, "TITL "+p)
	}
	line(0, "TRLR")
	return &c19Doc{Text: sb.String(), Mode: "near-miss"}
}

// c19GeneratePointerLengths: record pointers of 1, 64, 200 and 250 bytes (with ".html" the longest
// source page name is exactly 255 bytes: the longest name a file system creates).
func c19GeneratePointerLengths() *c19Doc {
	var sb strings.Builder
	line := func(level int, rest string) { fmt.Fprintf(&sb, "%d %s\n", level, rest) }
	line(0, "HEAD")
	for i, n := range []int{1, 64, 200, 250} {
		ip := strings.Repeat(string(rune('a'+i)), n)
		sp := strings.Repeat(string(rune('S'+i)), n)
		line(0, "@"+ip+"@ INDI")
		line(1, fmt.Sprintf("NAME Len%d /Ptr/", n))
		line(1, "BIRT")
		line(2, "PLAC Leeds")
		line(2, "SOUR @"+sp+"@")
		line(1, "DEAT Y")
		line(0, "@"+sp+"@ SOUR")
		line(1, fmt.Sprintf("TITL Source with a pointer of %d bytes", n))
	}
	line(0, "@"+strings.Repeat("F", 200)+"@ FAM")
	line(1, "HUSB @a@")
	line(1, "WIFE @"+strings.Repeat("b", 64)+"@")
	line(0, "TRLR")
	return &c19Doc{Text: sb.String(), Mode: "pointer-lengths"}
}

// c19GenerateSameLetter: m dead people with one surname letter; published with the individual pages
// only this gives exactly m+1 files (page counts below, at and above the job counts).
func c19GenerateSameLetter(m int) *c19Doc {
	var sb strings.Builder
	line := func(level int, rest string) { fmt.Fprintf(&sb, "%d %s\n", level, rest) }
	line(0, "HEAD")
	for i := 0; i < m; i++ {
		line(0, fmt.Sprintf("@I%d@ INDI", i+1))
		line(1, fmt.Sprintf("NAME P%d /Quill/", i))
		line(1, "DEAT Y")
	}
	line(0, "TRLR")
	return &c19Doc{Text: sb.String(), Mode: fmt.Sprintf("pages=%d", m+1)}
}

func c19RandOpts(r *Rand) c19Opts {
	o := c19Opts{true, true, true, true, true, true, "show"}
	if r.Chance(1, 3) { // a random subset of page groups
		o.Individuals, o.Places, o.Families = r.Bool(), r.Bool(), r.Bool()
		o.Surnames, o.Sources, o.Statistics = r.Bool(), r.Bool(), r.Bool()
	}
	return o
}

// ---------------------------------------------------------------- naming correspondence

var c19NamePool = []string{"Old Town", "old town", "Old-Town", "OLD,TOWN", "Old  Town", "Oldtown", "Élan Vital", "王小明", "K elvin", "İz mir",
	"O'Brien", "a/b", "../x", "places", "statistics", "individuals-a", "1st Earl", "#hash", "", "-", "--", "_", "a_b-c", "x\xffy", "\xe2\x84", "Ann Smith",
	"ann-smith", "ann-smith-1", "Ann Smith-1", "ÀÉÎ", "ß", "ǅ", "ſ", "Å", "a.b", "a&b", "q", "Q", "..", "/", "//", "a\x00b", "S/../x",
	" ,Paris,,,France, ", "a,,,,,b", ",,,,", ", ,", "\u00a0x\u00a0", "\u3000a\u2003", "\ta\v", "Leeds,", ",Leeds", "sources", "families", "surnames", "individuals-symbol", "individuals-z", "s1",
	"\xc3/", "\xe2,", "\xf0 ", "\xc3<", "/", ",", "@", "@@", "ÉÈÊË", "王小明王", "ЖЖЖ", "0", "000", "index", "index.html", "places.html", "PLACES", "placesh", "places.", "statisticsm", "familiesl", "surnamest"}

func c19Name(r *Rand) string {
	switch r.Intn(8) {
	case 0:
		n := 1 + r.Intn(6)
		b := make([]byte, n)
		for i := range b {
			b[i] = byte(r.Intn(256))
			if b[i] == '\n' || b[i] == '\r' {
				b[i] = 'x'
			}
		}
		return string(b)
	case 1:
		return r.Pick(c19NamePool) + " " + r.Pick(c19NamePool)
	case 2:
		rs := []rune{'K', 'İ', 'Å', 'é', 'É', 'ß', '王', 'ǅ', 'A', 'z', '0', '-', '_', ' ', ',', ',', ' ', '.', '/', 0x2028, 0xFFFD, 0x10FFFF, 0xA0, 0x3000, 0x85, '\t'}
		n := 1 + r.Intn(5)
		s := ""
		for i := 0; i < n; i++ {
			s += string(rs[r.Intn(len(rs))])
		}
		return s
	}
	return r.Pick(c19NamePool)
}

func c19JoinHexs(l []string) string {
	parts := []string{strconv.Itoa(len(l))}
	for _, s := range l {
		parts = append(parts, hexs(s))
	}
	return strings.Join(parts, " ")
}

// c19PlaceEntry is the (key, pretty name) Publisher.Places() makes of one PLAC value, through a
// one-place document (cached).
var c19PlaceEntryCache sync.Map

func c19PlaceEntry(value string) (key, pretty string, ok bool) {
	if v, hit := c19PlaceEntryCache.Load(value); hit {
		e := v.([3]string)
		return e[0], e[1], e[2] == "1"
	}
	func() {
		defer func() {
			if recover() != nil {
				ok = false
			}
		}()
		doc := gedcom.NewDocument()
		i := doc.AddIndividual("P1")
		b := gedcom.NewNode(gedcom.TagBirth, "", "")
		b.AddNode(gedcom.NewNode(gedcom.TagPlace, value, ""))
		i.AddNode(b)
		i.AddNode(gedcom.NewNode(gedcom.TagDeath, "Y", ""))
		places := html.NewPublisher(doc, c19AllOpts).Places()
		if len(places) != 1 {
			return
		}
		for k, v := range places {
			key, pretty, ok = k, v.PrettyName, true
		}
	}()
	c19PlaceEntryCache.Store(value, [3]string{key, pretty, bit(ok)})
	return
}

// c19PlacesInOrder lists the PLAC values Publisher.Places() publishes, in document order: every
// place below a record (not inside another place); in hide mode not those of living individuals.
func c19PlacesInOrder(doc *gedcom.Document, living string) []string {
	var out []string
	for _, root := range doc.Nodes() {
		ind, _ := root.(*gedcom.IndividualNode)
		var walk func(n gedcom.Node)
		walk = func(n gedcom.Node) {
			for _, k := range n.Nodes() {
				if p, ok := k.(*gedcom.PlaceNode); ok {
					owner := ind
					if n == root {
						owner = nil // a place directly below the record has no owning event
					}
					if living == "hide" && owner != nil && owner.IsLiving() {
						continue
					}
					out = append(out, p.Value())
				} else {
					walk(k)
				}
			}
		}
		walk(root)
	}
	return out
}

func c19Hidden(living []bool, vis string) string {
	if len(living) == 0 {
		return "-"
	}
	var sb strings.Builder
	for _, l := range living {
		sb.WriteString(bit(l && vis != "show"))
	}
	return sb.String()
}

type c19Facts struct {
	names, surnames []string
	living          []bool
	sources         []string
	values          []string // PLAC values of the published places, document order
	req             string   // the c19files request
}

// c19NamingTies registers the naming correspondence for one document (in-process: nothing is
// rendered and no goroutine is started).
func c19NamingTies(c *Ctx, text string, o c19Opts) (f *c19Facts) {
	defer func() {
		if r := recover(); r != nil {
			c.Count("naming:panic")
			c.Notes = append(c.Notes, fmt.Sprintf("naming probe panicked: %v", r))
			f = nil
		}
	}()
	doc, err := gedcom.NewDocumentFromString(text)
	if err != nil {
		return nil
	}
	f = &c19Facts{}
	for _, ind := range doc.Individuals() {
		f.names = append(f.names, ind.Name().String())
		f.surnames = append(f.surnames, ind.Name().Surname())
		f.living = append(f.living, ind.IsLiving())
	}
	for _, s := range doc.Sources() {
		f.sources = append(f.sources, s.Pointer())
	}
	vis := html.NewLivingVisibility(o.Living)
	f.values = c19PlacesInOrder(doc, o.Living)
	pub := html.NewPublisher(doc, o.real())
	places := pub.Places()
	var pkeys, pents []string
	for k := range places {
		pkeys = append(pkeys, k)
	}
	sort.Strings(pkeys)
	for _, k := range pkeys {
		pents = append(pents, k, places[k].PrettyName)
	}
	if len(pkeys) < len(f.values) {
		distinct := map[string]bool{}
		for _, v := range f.values {
			distinct[v] = true
		}
		if len(pkeys) < len(distinct) {
			c.Count("naming:places-sharing-a-key")
		}
	}
	c.Tie("c19pents "+c19JoinHexs(f.sources)+" "+c19JoinHexs(f.values), c19JoinHexs(pents))
	for i, v := range f.values {
		if i >= 4 {
			break
		}
		// the pretty name of the value through the real code (one-place document), then the link
		if _, p, ok := c19PlaceEntry(v); ok {
			c.Tie("c19pretty "+hexs(v), hexs(p))
			c.Tie("c19pplace "+hexs(p)+" "+c19JoinHexs(f.sources)+" "+c19JoinHexs(f.values), hexs(html.PagePlace(p, places)))
		}
	}
	// GetIndividuals with the nil map and with the populated one
	for pass := 0; pass < 2; pass++ {
		var keys map[string]*gedcom.IndividualNode
		pk := []string{}
		if pass == 0 {
			keys = html.GetIndividuals(doc, nil)
		} else {
			keys = html.GetIndividuals(doc, places)
			pk = pkeys
		}
		byInd := map[*gedcom.IndividualNode]string{}
		for k, ind := range keys {
			byInd[ind] = k
		}
		var obs []string
		for _, ind := range doc.Individuals() {
			obs = append(obs, byInd[ind])
		}
		c.Tie("c19keys "+c19JoinHexs(pk)+" "+c19JoinHexs(f.sources)+" "+c19JoinHexs(f.names), c19JoinHexs(obs))
		c.Eval()
		for i, ind := range doc.Individuals() {
			if i >= 6 {
				break
			}
			var got string
			if pass == 0 {
				got = html.PageIndividual(doc, ind, vis, nil)
			} else {
				got = html.PageIndividual(doc, ind, vis, places)
			}
			c.Tie(fmt.Sprintf("c19pind %d %s %s %s %s", i, c19Hidden(f.living, o.Living), c19JoinHexs(pk), c19JoinHexs(f.sources), c19JoinHexs(f.names)), hexs(got))
		}
	}
	for _, sn := range doc.Sources() {
		c.Tie("c19psrc "+hexs(sn.Pointer()), hexs(html.PageSource(sn)))
	}
	// index letters and surname links
	var listed []string
	for i, sn := range f.surnames {
		if o.Living == "hide" && f.living[i] {
			continue
		}
		listed = append(listed, sn)
	}
	letters := string(html.GetIndexLetters(doc, vis))
	c.Tie("c19letters "+c19JoinHexs(listed), hexs(letters))
	seenSn := map[string]bool{}
	for _, sn := range f.surnames {
		if sn == "" || seenSn[sn] {
			continue
		}
		seenSn[sn] = true
		var buf bytes.Buffer
		html.NewSurnameLink(sn).WriteHTMLTo(&buf)
		if m := c19HrefRe.FindSubmatch(buf.Bytes()); m != nil {
			target := stdhtml.UnescapeString(string(m[1]))
			if i := strings.IndexByte(target, '#'); i >= 0 {
				target = target[:i]
			}
			c.Tie("c19slink "+hexs(sn), hexs(target))
		}
	}
	f.req = fmt.Sprintf("c19files %s %s %s %s %s %s", o.bits(), hexs(letters), c19Hidden(f.living, o.Living),
		c19JoinHexs(f.names), c19JoinHexs(f.values), c19JoinHexs(f.sources))
	return f
}

// ---------------------------------------------------------------- the site oracle

type c19Site struct {
	doc   *c19Doc
	opts  c19Opts
	facts *c19Facts
	base  *c19Result
	light bool // a big document: baseline, one rerun and one history only
	jobs  bool // every job count 1,2,3,4,8,16,17 (and 0 as an observation), faults at the job count
}

func c19Plain(name string) bool {
	return name != "" && name != "." && name != ".." && !strings.ContainsAny(name, "/\x00")
}

var c19FixedStems = map[string]bool{"places": true, "families": true, "surnames": true, "sources": true, "statistics": true, "individuals-symbol": true}

func c19IsFixedStem(stem string) bool {
	if c19FixedStems[stem] {
		return true
	}
	return len(stem) == len("individuals-a") && strings.HasPrefix(stem, "individuals-") && stem[12] >= 'a' && stem[12] <= 'z'
}

// c19Kinds says, through the public naming API, which kinds of page claim a file name.
type c19Kinds struct {
	source, place, individual, dupSource map[string]bool
	sourcePtr                            map[string]string
}

func c19KindsOf(s *c19Site) (k c19Kinds) {
	k = c19Kinds{map[string]bool{}, map[string]bool{}, map[string]bool{}, map[string]bool{}, map[string]string{}}
	defer func() { recover() }()
	doc, err := gedcom.NewDocumentFromString(s.doc.Text)
	if err != nil {
		return
	}
	for _, sn := range doc.Sources() {
		page := html.PageSource(sn)
		if k.source[page] && k.sourcePtr[page] == sn.Pointer() {
			k.dupSource[page] = true // two SOUR records with the same pointer
		}
		k.source[page] = true
		k.sourcePtr[page] = sn.Pointer()
	}
	pub := html.NewPublisher(doc, s.opts.real())
	places := pub.Places()
	for key := range places {
		k.place[key+".html"] = true
	}
	for key := range html.GetIndividuals(doc, nil) {
		k.individual[key+".html"] = true
	}
	for key := range html.GetIndividuals(doc, places) {
		k.individual[key+".html"] = true
	}
	return
}

func c19JudgeNames(c *Ctx, s *c19Site, run c19Run, in map[string]interface{}) {
	kinds := c19KindsOf(s)
	count := map[string]int{}
	for _, f := range run.Files {
		count[f.Name]++
		if !c19Plain(f.Name) {
			key := ""
			if kinds.source[f.Name] {
				key = "name:source-pointer-raw"
			}
			c.Oracle(key, "a file name is not a plain name inside the output directory", in, f.Name, "a name without path separator, not '.' or '..'")
		}
	}
	var names []string
	for n := range count {
		names = append(names, n)
	}
	sort.Strings(names)
	for _, n := range names {
		if count[n] < 2 {
			continue
		}
		stem := strings.TrimSuffix(n, ".html")
		key := ""
		switch {
		case kinds.dupSource[n] && count[n] == 2 && !kinds.individual[n] && !kinds.place[n] && !c19IsFixedStem(stem):
			key = "dup:duplicate-source-pointer"
		case c19IsFixedStem(stem):
			key = "dup:key-equals-fixed-page"
		case kinds.source[n]:
			key = "dup:source-key-equals-other-key"
		case kinds.individual[n] && kinds.place[n]:
			key = "dup:individual-vs-place"
		}
		c.Oracle(key, "two pages are written to the same file name", in, fmt.Sprintf("%s x%d", n, count[n]), "one page per name")
	}
}

var c19SafeName = regexp.MustCompile(`^[A-Za-z0-9_-]*\.html$`)
var c19SuffixedKey = regexp.MustCompile(`-\d+\.html$`)

func c19JudgeLinks(c *Ctx, s *c19Site, run c19Run, in map[string]interface{}) {
	exists := map[string]bool{}
	for _, f := range run.Files {
		exists[f.Name] = true
	}
	wouldExist := map[string]bool{}
	for _, n := range s.base.NamesAll {
		wouldExist[n] = true
	}
	kinds := c19KindsOf(s)
	reported := map[string]bool{}
	for _, f := range run.Files {
		for _, raw := range f.Links {
			target := stdhtml.UnescapeString(raw)
			if strings.Contains(target, "://") {
				continue // external (style sheets, footer)
			}
			full := target
			if i := strings.IndexByte(target, '#'); i >= 0 {
				target = target[:i]
			}
			if target == "" || exists[target] {
				continue
			}
			stem := strings.TrimSuffix(target, ".html")
			key := ""
			switch {
			case wouldExist[target] && s.opts != s.opts.allGroups():
				key = "link:page-group-disabled"
			case strings.HasPrefix(target, "individuals-") && (len(stem) != 13 || stem[12] < 'a' || stem[12] > 'z'):
				key = "link:surname-letter-not-a-z"
			case func() bool { // a source page whose raw pointer does not survive in a URL
				for n := range kinds.source {
					if strings.HasPrefix(n, target) || strings.HasPrefix(n, full) {
						return true
					}
				}
				return false
			}():
				key = "link:source-pointer-raw"
			case c19SuffixedKey.MatchString(target) || kinds.individual[target]:
				key = "link:individual-keyed-with-other-places-map"
			}
			sig := key + "|" + target
			if reported[sig] {
				continue
			}
			reported[sig] = true
			c.Oracle(key, "a page links to a file that is not generated", in,
				fmt.Sprintf("%s links to %q", f.Name, full), "a generated file or '#'")
		}
	}
}

func c19FileMap(run c19Run) map[string][]string {
	m := map[string][]string{}
	for _, f := range run.Files {
		m[f.Name] = append(m[f.Name], f.Sha)
	}
	for _, v := range m {
		sort.Strings(v)
	}
	return m
}

func c19DataOf(run c19Run, name, sha string) []byte {
	for _, f := range run.Files {
		if f.Name == name && (sha == "" || f.Sha == sha) && f.Data != nil {
			return f.Data
		}
	}
	return nil
}

// c19SameFiles compares a run with the baseline: same names, same number of writes per name, same
// bytes.
func c19SameFiles(base, other c19Run) (bool, string) {
	ma, mb := c19FileMap(base), c19FileMap(other)
	var names []string
	for n := range ma {
		names = append(names, n)
	}
	for n := range mb {
		if _, ok := ma[n]; !ok {
			names = append(names, n)
		}
	}
	sort.Strings(names)
	for _, n := range names {
		x, y := ma[n], mb[n]
		if len(x) != len(y) {
			return false, fmt.Sprintf("file %q written %d time(s) vs %d time(s)", n, len(x), len(y))
		}
		for i := range x {
			if x[i] != y[i] {
				a, b := c19DataOf(base, n, x[i]), c19DataOf(other, n, y[i])
				if a == nil || b == nil {
					return false, fmt.Sprintf("file %q differs", n)
				}
				j := 0
				for j < len(a) && j < len(b) && a[j] == b[j] {
					j++
				}
				lo := j - 60
				if lo < 0 {
					lo = 0
				}
				hi := func(s []byte) int {
					if j+60 < len(s) {
						return j + 60
					}
					return len(s)
				}
				return false, fmt.Sprintf("file %q differs at byte %d: …%s… vs …%s…", n, j, a[lo:hi(a)], b[lo:hi(b)])
			}
		}
	}
	return true, ""
}

// ---------------------------------------------------------------- race detector (thorough tier)

// c19RacePairs reduces the race reports of a child to access-site pairs (function names inside the
// repository, sorted), e.g. "(*DateNode).DateRange~(*DateNode).DateRange".
func c19RacePairs(stderr string) []string {
	seen := map[string]bool{}
	var out []string
	for _, rep := range strings.Split(stderr, "WARNING: DATA RACE")[1:] {
		if i := strings.Index(rep, "=================="); i >= 0 {
			rep = rep[:i]
		}
		var sites []string
		for _, blk := range strings.Split(rep, "\n\n") {
			head := strings.TrimSpace(blk)
			if !(strings.HasPrefix(head, "Read at") || strings.HasPrefix(head, "Write at") ||
				strings.HasPrefix(head, "Previous read at") || strings.HasPrefix(head, "Previous write at")) {
				continue
			}
			site := "?"
			for _, m := range c19RaceSite.FindAllStringSubmatch(blk, -1) {
				if strings.Contains(m[1], "elliotchance/gedcom") {
					fn := m[1]
					if i := strings.Index(fn, "gedcom/v39"); i >= 0 {
						fn = fn[i+len("gedcom/v39"):]
					}
					fn = strings.TrimPrefix(fn, "/")
					fn = strings.TrimPrefix(fn, ".")
					site = c19ClosureSuffix.ReplaceAllString(fn, "")
					break
				}
			}
			sites = append(sites, site)
		}
		if len(sites) >= 2 {
			pair := sites[:2]
			// a page of the html package reading a lazily filled cache of the library: the page does
			// not matter, the cache does
			isPage := func(s string) bool { return strings.HasPrefix(s, "html.") }
			if isPage(pair[0]) != isPage(pair[1]) {
				for i := range pair {
					if isPage(pair[i]) {
						pair[i] = "html.*"
					}
				}
			}
			sort.Strings(pair)
			k := pair[0] + "~" + pair[1] // no '|': the failure classes are split at it
			if !seen[k] {
				seen[k] = true
				out = append(out, k)
			}
		}
	}
	sort.Strings(out)
	return out
}

// c19BuildRaceBinary builds this harness with the race detector against the tree under test.
func c19BuildRaceBinary(dir string) (string, error) {
	repo := c19RepoDir()
	src := os.Getenv("GVH_SRC")
	if src == "" {
		if bin := os.Getenv("GVH_BIN"); bin != "" {
			src = filepath.Join(filepath.Dir(filepath.Dir(bin)), "harness")
		} else {
			src = "/verif/harness"
		}
	}
	mod, err := os.ReadFile(filepath.Join(src, "go.mod"))
	if err != nil {
		return "", err
	}
	modfile := filepath.Join(dir, "race.mod")
	os.WriteFile(modfile, []byte(strings.Replace(string(mod), "=> /repo", "=> "+repo, 1)), 0o644)
	sum, _ := os.ReadFile(filepath.Join(repo, "go.sum"))
	os.WriteFile(filepath.Join(dir, "race.sum"), sum, 0o644)
	out := filepath.Join(dir, "gvh-race")
	cmd := exec.Command("go", "build", "-race", "-modfile", modfile, "-tags", "verif", "-o", out, ".")
	cmd.Dir = src
	cmd.Env = append(os.Environ(), "GOFLAGS=-mod=mod", "GOPROXY=off", "GOSUMDB=off", "GOTOOLCHAIN=local", "CGO_ENABLED=1")
	if b, err := cmd.CombinedOutput(); err != nil {
		return "", fmt.Errorf("go build -race: %v\n%s", err, b)
	}
	return out, nil
}

// ---------------------------------------------------------------- the runner

func init() {
	runners["C19"] = func(c *Ctx) {
		c.Rule = "distinct = (check, outcome class, page groups, visibility, jobs, size bucket); naming: request kind x collision shape"
		year := time.Now().Year()

		// ---- (T) sanitize on hostile strings: through GetIndividuals of a one-person document and
		// through Publisher.Places() of a one-place document (the two call sites of the regexp)
		nSan := c.N(3000, 150000)
		sanFixed := append(append([]string{}, c19FixedNearMisses...), c19BoundarySurnames...)
		for i := 0; i < nSan+len(sanFixed); i++ {
			s := ""
			if i < len(sanFixed) {
				s = sanFixed[i] // the fixed page keys, their near misses and the boundary surnames first
			} else {
				s = c19Name(c.R)
			}
			func() {
				defer func() {
					if r := recover(); r != nil {
						c.Count("san:panic")
					}
				}()
				doc := gedcom.NewDocument()
				ind := doc.AddIndividual("P1")
				ind.AddName(s)
				ns := ind.Name().String()
				for k := range html.GetIndividuals(doc, nil) {
					c.Tie("c19keys 0 0 1 "+hexs(ns), "1 "+hexs(k))
				}
				c.Eval()
				c.Count("san:individual")
				if i%4 == 0 && !strings.ContainsAny(s, "\n\r") {
					if k, p, ok := c19PlaceEntry(s); ok {
						c.Tie("c19pents 0 1 "+hexs(s), c19JoinHexs([]string{k, p}))
						c.Tie("c19pretty "+hexs(s), hexs(p))
						c.Count("san:place")
					}
				}
				if ns != "" && (ns[0] < 'A' || ns[0] > 'z') {
					c.Nontrivial("san/first-byte-class/" + strconv.Itoa(int(ns[0])/32))
				}
			}()
		}
		for ch := 33; ch < 127; ch++ {
			c.Tie("c19pinds "+strconv.Itoa(ch), hexs(html.PageIndividuals(rune(ch))))
		}
		srcPtrs := append(append([]string{}, c19HostilePtr...), c19FixedNearMisses...)
		for _, n := range []int{1, 64, 200, 250, 255, 256} {
			srcPtrs = append(srcPtrs, strings.Repeat("p", n))
		}
		for i := 0; i < c.N(300, 20000); i++ {
			srcPtrs = append(srcPtrs, c19Name(c.R))
		}
		pageOf := map[string]string{}
		for _, p := range srcPtrs {
			if page, ok := c19SourcePage(p); ok {
				c.Tie("c19psrc "+hexs(p), hexs(page))
				c.Eval()
				if q, seen := pageOf[page]; seen && q != p {
					c.Oracle("", "two sources with different pointers are written to the same file name",
						map[string]string{"pointer": p, "other pointer": q, "gedcom": "0 @" + p + "@ SOUR\n0 @" + q + "@ SOUR\n"}, page, "one page per source")
				}
				pageOf[page] = p
				if !c19Plain(page) {
					c.Oracle("name:source-pointer-raw", "a source page name is not a plain name inside the output directory",
						map[string]string{"pointer": p}, page, "a name without path separator")
				}
			}
		}

		// ---- documents
		nSites := c.N(160, 5000)
		if v, err := strconv.Atoi(os.Getenv("C19_SITES")); err == nil && v > 0 {
			nSites = v // development knob
		}
		// sites are generated, published and judged in batches (the pages of a batch are kept in memory)
		var raceSites []*c19Site
		totalVariants := 0
		otherDoc := c19Generate(c.R.Fork("other"), "plain", year)
		allJobs := []int{1, 2, 8, 16}
		const batch = 250
		for b0 := 0; b0 < nSites; b0 += batch {
			b1 := b0 + batch
			if b1 > nSites {
				b1 = nSites
			}
			sites := make([]*c19Site, 0, b1-b0)
			// the witnesses of DESIGN.md section 6, defect 20, first
			fixedDocs := []string{
				"0 HEAD\n0 @I1@ INDI\n1 NAME Oldtown\n1 BIRT\n2 PLAC Oldtown\n1 DEAT Y\n0 @S/../x@ SOUR\n1 TITL T\n0 TRLR\n",
				"0 HEAD\n0 @I1@ INDI\n1 NAME Ann /1st/\n1 DEAT Y\n0 @I2@ INDI\n1 NAME Bob /Éclair/\n1 DEAT Y\n0 @I3@ INDI\n1 NAME Cy /Smith/\n1 DEAT Y\n0 TRLR\n",
				"0 HEAD\n0 @I1@ INDI\n1 NAME Places\n1 BIRT\n2 PLAC Old Town\n1 DEAT Y\n2 PLAC old-town\n0 @places@ SOUR\n0 @a/b@ SOUR\n0 @../x@ SOUR\n0 TRLR\n",
				// numbered keys against source pages (wave-2 seed): namesakes + a source called like the second one; a place called like a fixed page + a source called like its numbered key
				"0 HEAD\n0 @I1@ INDI\n1 NAME John /Smith/\n1 DEAT Y\n0 @I2@ INDI\n1 NAME John /Smith/\n1 DEAT Y\n0 @I3@ INDI\n1 NAME John /Smith/\n1 DEAT Y\n0 @john-smith-1@ SOUR\n1 TITL T\n0 TRLR\n",
				"0 HEAD\n0 @I1@ INDI\n1 NAME Sources\n1 BIRT\n2 PLAC Places\n1 DEAT Y\n2 PLAC Sydney\n0 @places-1@ SOUR\n0 @sources-1@ SOUR\n0 @sydney@ SOUR\n0 @sydney-1@ SOUR\n0 TRLR\n",
			}
			for i := b0; i < b1; i++ {
				var d *c19Doc
				o := c19RandOpts(c.R)
				o.Living = []string{"show", "hide", "placeholder"}[i%3]
				switch {
				case i < len(fixedDocs):
					d = &c19Doc{Text: fixedDocs[i], Mode: "witness"}
					o = c19Opts{true, true, true, true, true, true, "show"}
				case i%5 == 4:
					d = c19Generate(c.R, "plain", year)
				case i%10 == 2:
					d = c19GenerateDupPointers(c.R, year)
					o = c19Opts{true, true, true, true, true, true, o.Living}
				case i%10 == 8:
					d = c19GenerateTies(c.R)
					o = c19Opts{true, true, true, true, true, true, o.Living}
				case i%10 == 6:
					d = c19Generate(c.R, "numbered", year)
				case i%5 == 3:
					d = c19Generate(c.R, "collide", year)
				case i%25 == 7:
					d = c19Generate(c.R, "big", year)
				default:
					d = c19Generate(c.R, "hostile", year)
				}
				s := &c19Site{doc: d, opts: o}
				s.facts = c19NamingTies(c, d.Text, o)
				c.Count("doc:" + d.Mode)
				c.Count("visibility:" + o.Living)
				if o == o.allGroups() {
					c.Count("groups:all")
				} else {
					c.Count("groups:subset")
				}
				sites = append(sites, s)
				if i < 2 {
					c.Sample(map[string]string{"options": o.String(), "gedcom": d.Text})
				}
			}

			if b0 == 0 {
				// the boundary corpus runs first (notes/boundary-audit.md): record counts at and past
				// 8/64/65/129/257 (1025 in the thorough tier), page counts around every job count,
				// pointer lengths up to the longest creatable file name, every fixed page key and its
				// near misses as person, place and source
				var corpus []*c19Site
				add := func(d *c19Doc, o c19Opts, light, jobs bool) {
					st := &c19Site{doc: d, opts: o, light: light, jobs: jobs}
					st.facts = c19NamingTies(c, d.Text, o)
					c.Count("doc:" + strings.SplitN(d.Mode, ":", 2)[0])
					c.Count("boundary:" + d.Mode)
					corpus = append(corpus, st)
				}
				all := func(living string) c19Opts { return c19Opts{true, true, true, true, true, true, living} }
				sizes := [][5]int{{0, 0, 0, 0, 0}, {1, 0, 1, 1, 0}, {8, 8, 8, 8, 3}, {64, 64, 64, 64, 64}, {65, 65, 65, 65, 65}, {129, 64, 129, 129, 66}, {257, 129, 257, 257, 9}}
				if !c.Quick() {
					sizes = append(sizes, [5]int{1025, 257, 1025, 1025, 9})
				}
				for k, z := range sizes {
					add(c19GenerateSized(z[0], z[1], z[2], z[3], z[4], year), all([]string{"show", "hide", "placeholder"}[k%3]), z[0] >= 64, false)
				}
				const per = 12
				for k := 0; k*per < len(c19FixedNearMisses); k++ {
					add(c19GenerateNearMisses(k, per), all([]string{"show", "placeholder"}[k%2]), false, false)
				}
				add(c19GeneratePointerLengths(), all("show"), false, false)
				for _, m := range []int{1, 2, 3, 7, 15, 16, 17} {
					add(c19GenerateSameLetter(m), c19Opts{true, false, false, false, false, false, "show"}, false, true)
				}
				sites = append(corpus, sites...)
			}

			// ---- (S) baseline publish of every site: fresh process, one job
			c19Parallel(len(sites), 12, func(i int) {
				s := sites[i]
				s.base = c19Child("", &c19Job{Gedcom: []byte(s.doc.Text), Opts: s.opts, Jobs: 1, Data: true, Names: true}, 240*time.Second)
			})
			type variant struct {
				site *c19Site
				what string
				job  *c19Job
				res  *c19Result
				env  []string
			}
			var variants []*variant
			for i, s := range sites {
				if s.base.Crashed || s.base.TimedOut || s.base.Panic != "" || len(s.base.Runs) == 0 {
					continue
				}
				base := s.base.Runs[0]
				nFiles := len(base.Files)
				g := []byte(s.doc.Text)
				expect := map[string]string{}
				for _, f := range base.Files {
					expect[f.Name] = f.Sha
				}
				boundary := strings.HasPrefix(s.doc.Mode, "size:") || s.doc.Mode == "near-miss" || s.doc.Mode == "pointer-lengths" || s.jobs
				if boundary || i%6 == 0 {
					// one decoded document published twice in this process (package-level and
					// per-document state: html.surnames, the children-by-tag cache, the document's
					// and the individuals' caches), compared with a freshly decoded copy of the current text
					hs := []string{"other-options", "failed-first", "edit"}
					if s.light {
						hs = hs[i%3 : i%3+1]
					}
					for hi, h := range hs {
						variants = append(variants, &variant{site: s, what: "history " + h,
							job: &c19Job{Gedcom: g, Opts: s.opts, Jobs: []int{1, 8, 3}[(i+hi)%3], Jobs2: []int{8, 1, 17}[(i+hi)%3], History: h, History2: i + hi, Expect: expect}})
					}
				}
				if s.jobs {
					for _, jobs := range []int{1, 2, 3, 4, 8, 16, 17} {
						variants = append(variants, &variant{site: s, what: fmt.Sprintf("rerun jobs=%d", jobs),
							job: &c19Job{Gedcom: g, Opts: s.opts, Jobs: jobs, Repeat: 1, Expect: expect}})
						k := jobs
						if k > nFiles {
							k = nFiles
						}
						for _, all := range []bool{false, true} {
							variants = append(variants, &variant{site: s, what: fmt.Sprintf("writer-fails k=%d all=%v jobs=%d files=%d", k, all, jobs, nFiles),
								job: &c19Job{Gedcom: g, Opts: s.opts, Jobs: jobs, FailAt: k, FailAll: all, Expect: expect}})
						}
					}
					variants = append(variants, &variant{site: s, what: "jobs-zero",
						job: &c19Job{Gedcom: g, Opts: s.opts, Jobs: 0, Repeat: 1, Expect: expect}})
					continue
				}
				if s.light {
					variants = append(variants, &variant{site: s, what: "rerun jobs=17",
						job: &c19Job{Gedcom: g, Opts: s.opts, Jobs: 17, Repeat: 1, Expect: expect}})
					for n, k := range []int{1, nFiles} {
						variants = append(variants, &variant{site: s, what: fmt.Sprintf("writer-fails k=%d all=%v jobs=%d files=%d", k, n == 1, []int{3, 17}[n], nFiles),
							job: &c19Job{Gedcom: g, Opts: s.opts, Jobs: []int{3, 17}[n], FailAt: k, FailAll: n == 1, Expect: expect}})
					}
					continue
				}
				for ji, jobs := range allJobs {
					if c.Quick() && ji != i%4 && ji != (i+2)%4 {
						continue // quick tier: two of the four job counts per site, all four over any two sites in a row
					}
					variants = append(variants, &variant{site: s, what: fmt.Sprintf("rerun jobs=%d", jobs),
						job: &c19Job{Gedcom: g, Opts: s.opts, Jobs: jobs, Repeat: 2, Expect: expect},
						env: []string{"GOMAXPROCS=" + strconv.Itoa([]int{1, 2, 4, 8}[(i+ji)%4])}})
				}
				if s.doc.Mode == "ties" || s.doc.Mode == "duplicate-pointers" {
					// order inside a page that depends on map iteration shows only when runs are compared:
					// five more processes, five publishes of the freshly decoded document in each
					for k := 0; k < 5; k++ {
						variants = append(variants, &variant{site: s, what: fmt.Sprintf("rerun jobs=%d (x5 in one process, process %d)", allJobs[k%4], k+1),
							job: &c19Job{Gedcom: g, Opts: s.opts, Jobs: allJobs[k%4], Repeat: 5, Expect: expect}})
					}
				}
				if i%8 == 1 || s.doc.Mode == "witness" || s.doc.Mode == "near-miss" || s.doc.Mode == "pointer-lengths" {
					// the real DirectoryFileWriter: publish, then a publish whose pages cannot all be
					// created, then publish again — one process, one job, one P (a pooled or cached
					// buffer dirtied by the failure would show in the second copy)
					variants = append(variants, &variant{site: s, what: "dir-history after-failed-create",
						job: &c19Job{Gedcom: g, Gedcom2: []byte(c19UncreatableDoc), Opts: s.opts, Jobs: 1, Expect: expect, DirHistory: true},
						env: []string{"GOMAXPROCS=1", "GOGC=off"}})
				}
				variants = append(variants, &variant{site: s, what: "after-other-document",
					job: &c19Job{Gedcom: g, Gedcom2: []byte(otherDoc.Text), Opts: s.opts, Jobs: 1 + i%3, Expect: expect}})
				// writer failing at the k-th file
				ks := []int{}
				if nFiles > 0 {
					if c.Quick() && nFiles > 6 {
						ks = []int{1, 2, nFiles, 1 + c.R.Intn(nFiles), 1 + c.R.Intn(nFiles), 1 + c.R.Intn(nFiles)}
					} else {
						for k := 1; k <= nFiles; k++ {
							ks = append(ks, k)
						}
					}
				}
				for n, k := range ks {
					jobs := allJobs[(i+n)%4]
					all := n%2 == 1
					variants = append(variants, &variant{site: s, what: fmt.Sprintf("writer-fails k=%d all=%v jobs=%d files=%d", k, all, jobs, nFiles),
						job: &c19Job{Gedcom: g, Opts: s.opts, Jobs: jobs, FailAt: k, FailAll: all, Expect: expect}})
				}
			}
			c19Parallel(len(variants), 12, func(i int) {
				limit := 30 * time.Second
				if variants[i].site.light {
					limit = 240 * time.Second // hundreds of pages, up to three publishes in the child
				}
				variants[i].res = c19Child("", variants[i].job, limit, variants[i].env...)
			})

			// ---- judge
			for _, s := range sites {
				in := map[string]interface{}{"options": s.opts.String(), "gedcom": s.doc.Text}
				c.Eval()
				if s.base.Crashed || s.base.TimedOut || s.base.Panic != "" || len(s.base.Runs) == 0 {
					c.Count("site:crashed")
					c.Oracle("", "publishing crashes or hangs (one job, writer never fails)", in,
						fmt.Sprintf("timeout=%v %s %s", s.base.TimedOut, s.base.Panic, c19FirstLine(s.base.Stderr)), "a set of files")
					continue
				}
				run := s.base.Runs[0]
				c.Count(fmt.Sprintf("site:files<=%d", []int{5, 10, 20, 40, 1000}[func() int {
					for i, b := range []int{5, 10, 20, 40} {
						if len(run.Files) <= b {
							return i
						}
					}
					return 4
				}()]))
				if run.Err != "" {
					c.Oracle("", "Publish reports an error although the writer never failed", in, run.Err, "nil")
				}
				if s.facts != nil {
					var names []string
					notPlain := 0
					for _, n := range s.base.Names {
						names = append(names, n)
						if !c19SafeName.MatchString(n) {
							notPlain++
						}
					}
					c.Tie(s.facts.req, c19JoinHexs(names)+" notplain="+strconv.Itoa(notPlain))
					// the files handed to the writer are the files of Publisher.Files
					var written []string
					for _, f := range run.Files {
						written = append(written, f.Name)
					}
					if strings.Join(written, "\x00") != strings.Join(s.base.Names, "\x00") {
						c.Oracle("", "the files written differ from the files Publisher.Files produces", in,
							strings.Join(written, " "), strings.Join(s.base.Names, " "))
					}
				}
				c19JudgeNames(c, s, run, in)
				c19JudgeLinks(c, s, run, in)
				c.Nontrivial(fmt.Sprintf("site/%s/%s/files=%d", s.doc.Mode, s.opts.String(), len(run.Files)/5))
			}
			for _, v := range variants {
				s := v.site
				in := map[string]interface{}{"options": s.opts.String(), "gedcom": s.doc.Text, "variant": v.what}
				c.Eval()
				base := s.base.Runs[0]
				switch {
				case v.what == "jobs-zero":
					// outside the quantifier (jobs >= 1): observed and tied to the model (jobs_zero_silent)
					c.Count("jobs=0")
					if v.res.TimedOut || v.res.Crashed || v.res.Panic != "" || len(v.res.Runs) == 0 {
						c.Oracle("", "Publish with no worker crashes or hangs", in, fmt.Sprintf("timeout=%v %s%s", v.res.TimedOut, v.res.Panic, c19FirstLine(v.res.Stderr)), "returns")
						continue
					}
					r := v.res.Runs[0]
					c.Tie(fmt.Sprintf("c19proto 0 %d 0 0 1", len(base.Files)),
						fmt.Sprintf("returned=1 err=%s failed>0=0 all-written=%s", bit(r.Err != ""), bit(len(r.Files) == len(base.Files))))
				case strings.HasPrefix(v.what, "history "):
					c.Count("determinism:" + v.what)
					if v.res.TimedOut || v.res.Crashed || v.res.Panic != "" || len(v.res.Runs) != 2 {
						c.Oracle("", "publishing one decoded document twice ("+v.what+") crashes or hangs", in,
							fmt.Sprintf("timeout=%v %s%s", v.res.TimedOut, v.res.Panic, c19FirstLine(v.res.Stderr)), "the same files")
						continue
					}
					second, reference := v.res.Runs[0], v.res.Runs[1]
					if v.what == "history edit" {
						if v.res.HistoryErr == "" {
							c.Count("history:nothing-to-edit")
						}
						in["edit in place after the first publish"] = v.res.HistoryErr
					}
					if second.Err != "" {
						c.Oracle("", "Publish reports an error although the writer never failed ("+v.what+")", in, second.Err, "nil")
					}
					if ok, diff := c19SameFiles(reference, second); !ok {
						c.Oracle("", "the second publish of a document object differs from publishing a freshly decoded copy of its current text ("+v.what+")", in, diff, "identical names and bytes")
					} else if v.what != "history edit" {
						if ok, diff := c19SameFiles(base, second); !ok {
							c.Oracle("", "the second publish of a document object differs from a fresh single-job run ("+v.what+")", in, diff, "identical names and bytes")
						}
					}
					c.Nontrivial(v.what + "/" + s.opts.Living + "/" + strings.SplitN(s.doc.Mode, ":", 2)[0])
				case strings.HasPrefix(v.what, "dir-history"):
					c.Count("determinism:dir-history")
					if v.res.TimedOut || v.res.Crashed || v.res.Panic != "" || len(v.res.Runs) != 2 {
						c.Oracle("", "publishing with the DirectoryFileWriter crashes or hangs", in,
							fmt.Sprintf("timeout=%v %s%s", v.res.TimedOut, v.res.Panic, c19FirstLine(v.res.Stderr)), "files in the directory")
						continue
					}
					in["document published in between (pages cannot be created)"] = c19UncreatableDoc
					if v.res.HistoryErr == "" {
						c.Oracle("", "a page could not be created but Publish returned nil", in, "nil", "a non-nil error")
					}
					before, after := v.res.Runs[0], v.res.Runs[1]
					if before.Err != "" || after.Err != "" {
						c.Count("dir-history:own-publish-failed") // e.g. an over-long name of the site itself
						continue
					}
					dupNames := false // a name written twice (known findings) is one file in a directory
					for _, shas := range c19FileMap(base) {
						if len(shas) > 1 {
							dupNames = true
						}
					}
					if dupNames {
						c.Count("dir-history:site-with-duplicate-names")
					} else if ok, diff := c19SameFiles(base, before); !ok {
						c.Oracle("", "the files the DirectoryFileWriter writes differ from the rendered pages", in, diff, "identical names and bytes")
					}
					if ok, diff := c19SameFiles(before, after); !ok {
						c.Oracle("", "the published files differ after an earlier publish in the same process failed to create a page", in, diff, "identical names and bytes")
					}
					c.Nontrivial("dir-history/" + s.opts.Living)
				case strings.HasPrefix(v.what, "writer-fails"):
					c.Count("fault:jobs=" + strconv.Itoa(v.job.Jobs))
					if v.res.TimedOut {
						c.Oracle("", "Publish hangs when the writer fails", in, "no return within 30 s", "returns a non-nil error")
						continue
					}
					if v.res.Crashed || v.res.Panic != "" || len(v.res.Runs) == 0 {
						c.Oracle("", "Publish crashes when the writer fails", in, v.res.Panic+c19FirstLine(v.res.Stderr), "returns a non-nil error")
						continue
					}
					r := v.res.Runs[0]
					failed := r.Calls - len(r.Files)
					if failed > 0 && r.Err == "" {
						c.Oracle("", "the writer failed but Publish returned nil", in,
							fmt.Sprintf("calls=%d written=%d err=nil", r.Calls, len(r.Files)), "a non-nil error")
					}
					if failed == 0 && r.Err != "" {
						c.Oracle("", "Publish returned an error although no WriteFile call failed", in, r.Err, "nil")
					}
					if failed == 0 {
						c.Oracle("", "the fault was not injected (fewer WriteFile calls than in the baseline)", in,
							fmt.Sprintf("calls=%d k=%d", r.Calls, v.job.FailAt), "a failing call")
					}
					if v.job.FailAll && failed > v.job.Jobs {
						c.Oracle("", "publishing does not stop: a worker whose WriteFile failed keeps taking files", in,
							fmt.Sprintf("failed calls=%d jobs=%d", failed, v.job.Jobs), "at most one failed call per worker")
					}
					if v.job.Jobs == 1 && r.Calls != v.job.FailAt {
						c.Oracle("", "publishing does not stop at the failure (one job)", in,
							fmt.Sprintf("calls=%d k=%d", r.Calls, v.job.FailAt), "no WriteFile call after the failed one")
					}
					c.Tie(fmt.Sprintf("c19proto %d %d %d %s %d", v.job.Jobs, len(base.Files), v.job.FailAt, bit(v.job.FailAll), c.R.Intn(1000)),
						fmt.Sprintf("returned=1 err=%s failed>0=%s all-written=%s", bit(r.Err != ""), bit(failed > 0), bit(len(r.Files) == len(base.Files))))
					c.Nontrivial(fmt.Sprintf("fault/jobs=%d/all=%v/err=%v/pos=%d", v.job.Jobs, v.job.FailAll, r.Err != "", 3*v.job.FailAt/(len(base.Files)+1)))
				default:
					kind := strings.Fields(v.what)[0]
					c.Count("determinism:" + strings.Join(strings.Fields(v.what)[:min(2, len(strings.Fields(v.what)))], " "))
					if v.res.TimedOut || v.res.Crashed || v.res.Panic != "" || len(v.res.Runs) == 0 {
						c.Oracle("", "publishing the same document again ("+v.what+") crashes or hangs", in,
							fmt.Sprintf("timeout=%v %s%s", v.res.TimedOut, v.res.Panic, c19FirstLine(v.res.Stderr)), "the same files")
						continue
					}
					for ri, r := range v.res.Runs {
						if r.Err != "" {
							c.Oracle("", "Publish reports an error although the writer never failed ("+v.what+")", in, r.Err, "nil")
						}
						if ok, diff := c19SameFiles(base, r); !ok {
							what := "the published files differ from a fresh single-job run"
							switch {
							case kind == "after-other-document":
								what += " after another document was published in the same process"
							case ri > 0:
								what += " when the document is published a second time in the same process"
							default:
								what += " (fresh process, " + strings.Fields(v.what)[1] + ")"
							}
							c.Oracle("", what, in, diff, "identical names and bytes")
							break
						}
					}
					if len(v.res.Runs) > 0 {
						c.Tie(fmt.Sprintf("c19proto %d %d 0 0 %d", v.job.Jobs, len(base.Files), c.R.Intn(1000)),
							fmt.Sprintf("returned=1 err=%s failed>0=0 all-written=%s", bit(v.res.Runs[0].Err != ""), bit(len(v.res.Runs[0].Files) == len(base.Files))))
					}
					c.Nontrivial("det/" + v.what + "/" + s.opts.Living)
				}
			}
			for _, s := range sites {
				if len(raceSites) < 300 {
					raceSites = append(raceSites, &c19Site{doc: s.doc, opts: s.opts})
				}
			}
			totalVariants += len(variants)
		}
		c.Notes = append(c.Notes, fmt.Sprintf("%d sites, %d further publish runs (each in its own process)", nSites, totalVariants))

		// ---- data races (thorough tier only): the same publishes under the race detector
		if !c.Quick() {
			tmp, err := os.MkdirTemp("", "c19race-")
			if err == nil {
				defer os.RemoveAll(tmp)
				bin, berr := c19BuildRaceBinary(tmp)
				if berr != nil {
					c.Notes = append(c.Notes, "race build unavailable: "+c19FirstLine(berr.Error()))
					c.Untied = append(c.Untied, "data races: the -race child binary could not be built in this environment")
				} else {
					sites := raceSites
					n := len(sites)
					results := make([]*c19Result, n)
					c19Parallel(n, 8, func(i int) {
						s := sites[i]
						fail := 0
						if i%4 == 3 {
							fail = 2
						}
						results[i] = c19Child(bin, &c19Job{Gedcom: []byte(s.doc.Text), Opts: s.opts, Jobs: []int{2, 8, 16}[i%3], Repeat: 2,
							FailAt: fail, FailAll: fail > 0}, 120*time.Second, "GORACE=halt_on_error=0 history_size=3")
					})
					for i, res := range results {
						c.Eval()
						c.Count("race-run")
						for _, pair := range res.Races {
							c.Oracle("race:"+pair, "data race between two access sites while publishing",
								map[string]interface{}{"options": sites[i].opts.String(), "gedcom": sites[i].doc.Text, "jobs": []int{2, 8, 16}[i%3]},
								pair, "no data race")
						}
					}
				}
			}
		} else {
			c.Untied = append(c.Untied, "data races are looked for in the thorough tier only (race-detector build of the child)")
		}
		c.Untied = append(c.Untied, "goroutine schedules of the Go runtime: covered by the protocol theorems for the model and by repetition (jobs 1/2/8/16, GOMAXPROCS 1/2/4/8, fresh and reused processes) for the code")
	}

	evaluators["c19san"] = func(a []string) string {
		if len(a) != 1 {
			return "bad-op"
		}
		doc := gedcom.NewDocument()
		ind := doc.AddIndividual("P1")
		ind.AddName(unhex(a[0]))
		for k := range html.GetIndividuals(doc, nil) {
			return hexs(k) + "   (key of a one-person document whose Name().String() is " + hexs(ind.Name().String()) + ")"
		}
		return "?"
	}
	evaluators["c19psrc"] = func(a []string) string {
		if len(a) != 1 {
			return "bad-op"
		}
		p, _ := c19SourcePage(unhex(a[0]))
		return hexs(p)
	}
	evaluators["c19pinds"] = func(a []string) string {
		n, err := strconv.Atoi(strings.Join(a, ""))
		if err != nil {
			return "bad-op"
		}
		return hexs(html.PageIndividuals(rune(n)))
	}
	evaluators["c19slink"] = func(a []string) string {
		if len(a) != 1 || a[0] == "-" {
			return "bad-op"
		}
		var buf bytes.Buffer
		html.NewSurnameLink(unhex(a[0])).WriteHTMLTo(&buf)
		return buf.String()
	}
}
