package main

// C20 — Warnings are reported exactly when the recorded facts warrant them.
//
// Generator: family-graph documents (INDI / FAM records) whose dates are exact days, all in the
// past, or unparsable values; relationships are drawn from pools that sit a few days on either side
// of every threshold (plus the exact thresholds where the arithmetic is exact). Each document is
// rendered twice from the same abstract description: as GEDCOM text for the implementation and as
// a token line for the Lean driver, so neither side parses the other's output.
//
// (T) correspondence: Document.Warnings() in order  ==  Gedcom.Warn.warnings (Lean) in order.
// (S) oracle: the documented conditions re-implemented here over civil day numbers
//     (c20Expected), compared as multisets; each (parent, child) and sibling pair at most once;
//     the report is the same after shuffling records and CHIL lines; asking for the report does
//     not change the recorded facts (the model is a function of the document).

import (
	"fmt"
	"math/big"
	"sort"
	"strconv"
	"strings"
	"time"

	"github.com/elliotchance/gedcom/v39"
)

type c20Date struct {
	OK      bool
	D, M, Y int
	Label   int    // identifies an unparsable value within the document
	General bool   // not an exact day and not plainly unparsable: decided by the model's parser only
	Text    string // the GEDCOM value
	Gen     *c20Range // what a General value means (start and end part), as the generator intends it; nil = not judged by the oracle
}

type c20Ev struct {
	Kind  string // BIRT BAPM BAPL DEAT BURI MARR OTHER
	Tag   string // the GEDCOM tag written
	Dates []c20Date
}

type c20Indi struct {
	Ptr    int
	Sexes  []string
	Events []c20Ev
	merge  []bool // interleaving of SEX lines (false) and events (true) in the file
}

type c20Fam struct {
	Ptr        int
	Husb, Wife int // 0 = no such line
	Chil       []int
	Events     []c20Ev
	merge      []bool // interleaving of CHIL lines (false) and events (true)
}

type c20Rec struct {
	I *c20Indi
	F *c20Fam
}

type c20Doc struct{ Recs []c20Rec }

func c20DayOf(y, m, d int) int64 {
	return time.Date(y, time.Month(m), d, 0, 0, 0, 0, time.UTC).Unix() / 86400
}

func c20Civil(day int64) (y, m, d int) {
	t := time.Unix(day*86400, 0).UTC()
	return t.Year(), int(t.Month()), t.Day()
}

func (x c20Date) day() int64 { return c20DayOf(x.Y, x.M, x.D) }

var c20MonthForms = [][]string{
	{"Jan", "JAN", "January", "jan"}, {"Feb", "FEB", "February", "feb"}, {"Mar", "MAR", "March", "mar"},
	{"Apr", "APR", "April", "apr"}, {"May", "MAY", "May", "may"}, {"Jun", "JUN", "June", "jun"},
	{"Jul", "JUL", "July", "jul"}, {"Aug", "AUG", "August", "aug"}, {"Sep", "SEP", "September", "sep"},
	{"Oct", "OCT", "October", "oct"}, {"Nov", "NOV", "November", "nov"}, {"Dec", "DEC", "December", "dec"},
}

func c20OK(r *Rand, day int64) c20Date {
	y, m, d := c20Civil(day)
	mon := c20MonthForms[m-1][0]
	if r.Chance(1, 4) {
		mon = c20MonthForms[m-1][r.Intn(4)]
	}
	ds := strconv.Itoa(d)
	if d < 10 && r.Chance(1, 5) {
		ds = "0" + ds
	}
	return c20Date{OK: true, D: d, M: m, Y: y, Text: fmt.Sprintf("%s %s %d", ds, mon, y)}
}

// c20Bad is a value that clearly does not parse: a date phrase, free text, an impossible day, empty.
func c20Pick3(r *Rand, a, b, c string) string { return []string{a, b, c}[r.Intn(3)] }

func c20Bad(r *Rand, label int) c20Date {
	var s string
	switch r.Intn(9) {
	case 6, 7, 8:
		// a day field that is all zeros before a known month and a year: the documented grammar
		// has days 1..31, there is no day 0 in any month
		s = fmt.Sprintf("%s %s %d", c20Pick3(r, "0", "00", "000"), c20MonthForms[label%12][r.Intn(4)], 1000+label)
	case 0:
		s = fmt.Sprintf("(about harvest time %d)", label)
	case 1:
		s = fmt.Sprintf("%d unknown", label)
	case 2:
		s = fmt.Sprintf("32 Jan %d", 1000+label)
	case 3:
		s = fmt.Sprintf("30 Feb %d", 1000+label)
	case 4:
		s = fmt.Sprintf("date%d?", label)
	default:
		s = fmt.Sprintf("31 Apr %d", 1000+label)
	}
	return c20Date{Label: label, Text: s}
}

// c20General is a DATE value around the given day that is neither an exact day nor plain garbage:
// approximate / before / after, month or year precision, ranges of every width, half-parsed ranges,
// odd spacing and case, years outside 1..9999. What it means is decided by the parser (C04's model
// on the Lean side); the Go oracle does not judge documents that contain one.
func c20General(r *Rand, day int64, oddYears bool) c20Date {
	y, m, d := c20Civil(day)
	mon := c20MonthForms[m-1][r.Intn(4)]
	full := fmt.Sprintf("%d %s %d", d, mon, y)
	y2, m2, d2 := c20Civil(day + int64(c20Pick(r, []int{1, 2, 30, 200, 273, 274, 400, 5000, -3, -400})))
	full2 := fmt.Sprintf("%d %s %d", d2, c20MonthForms[m2-1][0], y2)
	var s string
	k10 := 0
	shape := r.Intn(28)
	if !oddYears && (shape == 16 || shape == 17) {
		// a year 0 or above 9999 in a birth or death makes the lifespan exceed 292 years, where the
		// float64 -> int64 conversion in NewAgeWithYears is platform-defined (see props/C20.json)
		shape = 4
	}
	switch shape {
	case 0:
		s = "Abt. " + full
	case 1:
		s = "ABT " + full
	case 2:
		s = "Bef. " + full
	case 3:
		s = "aft " + full
	case 4:
		s = fmt.Sprintf("%s %d", mon, y)
	case 5:
		s = strconv.Itoa(y)
	case 6:
		s = fmt.Sprintf("Abt. %d", y)
	case 7:
		s = fmt.Sprintf("Bef. %s %d", mon, y)
	case 8:
		s = "Bet. " + full + " and " + full2
	case 9:
		s = "Between " + full2 + " and " + full
	case 10:
		k10 = r.Intn(3)
		s = fmt.Sprintf("From %d to %d", y, y+k10)
	case 11:
		s = fmt.Sprintf("%d - %d", y, y+1)
	case 12:
		s = "Bet. " + full + " and " + full // a single day written as a range
	case 13:
		s = "Bet. garbage and " + full
	case 14:
		s = "Bet. " + full + " and nonsense"
	case 15:
		s = "  " + strings.Replace(full, " ", "   ", -1) + " "
	case 16:
		s = fmt.Sprintf("%d %s 0", d, mon)
	case 17:
		s = fmt.Sprintf("%d %s %d", d, mon, 10000+y)
	case 18:
		s = fmt.Sprintf("circa %d", y)
	case 19:
		s = fmt.Sprintf("After %s %d", mon, y)
	case 20:
		s = fmt.Sprintf("Bet. %s %d and %s %d", mon, y, c20MonthForms[m2-1][0], y2)
	case 21:
		s = fmt.Sprintf("Abt. %d and more", y)
	case 22:
		s = fmt.Sprintf("%d %d", d, y) // a day without a month
	case 24: // day zero at the start of a range
		s = fmt.Sprintf("Bet. %s %s %d and %s", c20Pick3(r, "0", "00", "000"), mon, y, full2)
	case 25: // day zero at the end of a range
		s = fmt.Sprintf("Bet. %s and %s %s %d", full, c20Pick3(r, "0", "00", "000"), c20MonthForms[m2-1][0], y2)
	case 26: // day zero behind a constraint word
		s = fmt.Sprintf("%s %s %s %d", c20Pick3(r, "Abt.", "Bef.", "aft"), c20Pick3(r, "0", "00", "000"), mon, y)
	case 27: // day zero on both ends
		s = fmt.Sprintf("From 0 %s %d to 00 %s %d", mon, y, mon, y+1)
	default:
		s = fmt.Sprintf("Bet. Abt. %d and Bef. %d", y, y+2)
	}
	// the meaning of the value by the documented grammar (constraint words do not move a date; a range
	// has a start and an end; a part that is not a date fails on its own); nil where the grammar is
	// silent (years 0 / above 9999, trailing words, a day without a month)
	full1, fullB := c20Part{D: d, M: m, Y: y}, c20Part{D: d2, M: m2, Y: y2}
	mon1, monB := c20Part{M: m, Y: y}, c20Part{M: m2, Y: y2}
	yr := func(v int) c20Part { return c20Part{Y: v} }
	failed := c20Part{Failed: true}
	var g *c20Range
	switch shape {
	case 0, 1, 2, 3, 12, 15:
		g = &c20Range{full1, full1}
	case 4, 7, 19:
		g = &c20Range{mon1, mon1}
	case 5, 6:
		g = &c20Range{yr(y), yr(y)}
	case 8:
		g = &c20Range{full1, fullB}
	case 9:
		g = &c20Range{fullB, full1}
	case 13:
		g = &c20Range{failed, full1}
	case 14:
		g = &c20Range{full1, failed}
	case 20:
		g = &c20Range{mon1, monB}
	case 24:
		g = &c20Range{failed, fullB}
	case 25:
		g = &c20Range{full1, failed}
	case 26, 27:
		g = &c20Range{failed, failed}
	case 23:
		g = &c20Range{yr(y), yr(y + 2)}
	case 10:
		g = &c20Range{yr(y), yr(y + k10)}
	}
	return c20Date{General: true, Text: s, Gen: g}
}

// ---------------------------------------------------------------- rendering

func (d *c20Doc) text() string {
	var sb strings.Builder
	sb.WriteString("0 HEAD\n1 CHAR UTF-8\n")
	evs := func(e c20Ev) {
		fmt.Fprintf(&sb, "1 %s\n", e.Tag)
		for _, dt := range e.Dates {
			if dt.Text == "" {
				sb.WriteString("2 DATE\n")
			} else {
				fmt.Fprintf(&sb, "2 DATE %s\n", dt.Text)
			}
		}
	}
	for _, r := range d.Recs {
		if r.I != nil {
			i := r.I
			fmt.Fprintf(&sb, "0 @I%d@ INDI\n1 NAME P%d /X/\n", i.Ptr, i.Ptr)
			si, ei := 0, 0
			for _, isEv := range i.merge {
				if isEv {
					evs(i.Events[ei])
					ei++
				} else {
					fmt.Fprintf(&sb, "1 SEX %s\n", i.Sexes[si])
					si++
				}
			}
		} else {
			f := r.F
			fmt.Fprintf(&sb, "0 @F%d@ FAM\n", f.Ptr)
			if f.Husb != 0 {
				fmt.Fprintf(&sb, "1 HUSB @I%d@\n", f.Husb)
			}
			if f.Wife != 0 {
				fmt.Fprintf(&sb, "1 WIFE @I%d@\n", f.Wife)
			}
			ci, ei := 0, 0
			for _, isEv := range f.merge {
				if isEv {
					evs(f.Events[ei])
					ei++
				} else {
					fmt.Fprintf(&sb, "1 CHIL @I%d@\n", f.Chil[ci])
					ci++
				}
			}
		}
	}
	sb.WriteString("0 TRLR\n")
	return sb.String()
}

func (d *c20Doc) request(now time.Time) string {
	var sb strings.Builder
	fmt.Fprintf(&sb, "warn %d %d %d %d", now.Day(), int(now.Month()), now.Year(), len(d.Recs))
	evs := func(es []c20Ev) {
		fmt.Fprintf(&sb, " %d", len(es))
		for _, e := range es {
			fmt.Fprintf(&sb, " %s %d", e.Kind, len(e.Dates))
			for _, dt := range e.Dates {
				sb.WriteString(" h" + hexs(dt.Text)) // the model parses the value itself
			}
		}
	}
	opt := func(p int) string {
		if p == 0 {
			return "-"
		}
		return strconv.Itoa(p)
	}
	for _, r := range d.Recs {
		if r.I != nil {
			fmt.Fprintf(&sb, " I %d %d", r.I.Ptr, len(r.I.Sexes))
			for _, s := range r.I.Sexes {
				switch s {
				case "M", "F":
					sb.WriteString(" " + s)
				default:
					sb.WriteString(" X")
				}
			}
			evs(r.I.Events)
		} else {
			f := r.F
			fmt.Fprintf(&sb, " F %d %s %s %d", f.Ptr, opt(f.Husb), opt(f.Wife), len(f.Chil))
			for _, c := range f.Chil {
				fmt.Fprintf(&sb, " %d", c)
			}
			evs(f.Events)
		}
	}
	return sb.String()
}

// ---------------------------------------------------------------- observation of the implementation

func c20Ptr(s string) string { // "@I12@" / "I12" -> "12"
	s = strings.Trim(s, "@")
	if len(s) > 1 {
		return s[1:]
	}
	return "?" + s
}

var c20KindOfTag = map[string]string{"BIRT": "BIRT", "BAPM": "BAPM", "BAPL": "BAPL", "DEAT": "DEAT", "BURI": "BURI", "MARR": "MARR"}

type c20Obs struct {
	Line string   // protocol form, in the implementation's order
	Keys []string // (Name, people) keys for the multiset oracle
	Errs []string // naming problems: context or text does not mention the right people
}

func c20Observe(doc *gedcom.Document, labels map[string]int) (o c20Obs, panicked string) {
	defer func() {
		if r := recover(); r != nil {
			panicked = fmt.Sprint(r)
		}
	}()
	var parts []string
	famOf := func(w gedcom.Warning) string {
		if f := w.Context().Family; f != nil {
			return c20Ptr(f.Pointer())
		}
		return "?"
	}
	indOf := func(w gedcom.Warning) string {
		if i := w.Context().Individual; i != nil {
			return c20Ptr(i.Pointer())
		}
		return "?"
	}
	mention := func(w gedcom.Warning, people ...string) {
		s := w.String()
		for _, p := range people {
			if !strings.Contains(s, "P"+p+" X") {
				o.Errs = append(o.Errs, fmt.Sprintf("%s: text %q does not name I%s", w.Name(), s, p))
			}
		}
	}
	dstr := func(dr gedcom.DateRange) string {
		s, e := dr.StartDate(), dr.EndDate()
		return fmt.Sprintf("%d.%d.%d-%d.%d.%d", s.Day, int(s.Month), s.Year, e.Day, int(e.Month), e.Year)
	}
	// position of every DATE node in the document (records, events, dates in file order)
	pos := map[*gedcom.DateNode]int{}
	for _, rec := range doc.Nodes() {
		for _, ev := range rec.Nodes() {
			for _, g := range ev.Nodes() {
				if dn, ok := g.(*gedcom.DateNode); ok {
					pos[dn] = len(pos)
				}
			}
		}
	}
	for _, w := range doc.Warnings() {
		switch x := w.(type) {
		case *gedcom.ChildBornBeforeParentWarning:
			p, c := c20Ptr(x.Parent.Pointer()), c20Ptr(x.Child.Value())
			parts = append(parts, fmt.Sprintf("CBBP %s %s %s", famOf(w), p, c))
			o.Keys = append(o.Keys, fmt.Sprintf("ChildBornBeforeParent I%s I%s", p, c))
			mention(w, p, c)
		case *gedcom.SiblingsBornTooCloseWarning:
			a, b := c20Ptr(x.Sibling1.Value()), c20Ptr(x.Sibling2.Value())
			parts = append(parts, fmt.Sprintf("SIB %s %s %s", famOf(w), a, b))
			lo, hi := a, b
			ai, _ := strconv.Atoi(a)
			bi, _ := strconv.Atoi(b)
			if bi < ai {
				lo, hi = b, a
			}
			o.Keys = append(o.Keys, fmt.Sprintf("SiblingsBornTooClose I%s I%s", lo, hi))
			mention(w, a, b)
		case *gedcom.MarriedOutOfRangeWarning:
			f, s := c20Ptr(x.Family.Pointer()), c20Ptr(x.Spouse.Pointer())
			if famOf(w) != f {
				o.Errs = append(o.Errs, "MarriedOutOfRange: context family differs from the warning's family")
			}
			parts = append(parts, fmt.Sprintf("MOOR %s %s %s", f, s, x.Boundary))
			o.Keys = append(o.Keys, fmt.Sprintf("MarriedOutOfRange F%s I%s %s", f, s, x.Boundary))
			mention(w, s)
		case *gedcom.IndividualTooOldWarning:
			i := c20Ptr(x.Individual.Pointer())
			if indOf(w) != i {
				o.Errs = append(o.Errs, "IndividualTooOld: context individual differs")
			}
			parts = append(parts, "OLD "+i)
			o.Keys = append(o.Keys, "IndividualTooOld I"+i)
			mention(w, i)
		case *gedcom.IncorrectEventOrderWarning:
			i := indOf(w)
			k2, k1 := c20KindOfTag[x.FirstEvent.Tag().Tag()], c20KindOfTag[x.SecondEvent.Tag().Tag()]
			s := fmt.Sprintf("%s %s %s %s %s", i, k2, dstr(x.FirstDateRange), k1, dstr(x.SecondDateRange))
			parts = append(parts, "ORD "+s)
			f1, f2 := x.FirstDateRange.StartDate(), x.SecondDateRange.StartDate()
			o.Keys = append(o.Keys, fmt.Sprintf("IncorrectEventOrder I%s %s %d.%d.%d %s %d.%d.%d", i, k2, f1.Day, int(f1.Month), f1.Year, k1, f2.Day, int(f2.Month), f2.Year))
			mention(w, i)
		case *gedcom.UnparsableDateWarning:
			ctx := ""
			switch {
			case w.Context().Individual != nil:
				ctx = "I " + indOf(w)
			case w.Context().Family != nil:
				ctx = "F " + famOf(w)
			default:
				ctx = "? ?"
			}
			l, ok := labels[x.Date.Value()]
			ls := strconv.Itoa(l)
			if !ok {
				ls = "value:" + hexs(x.Date.Value())
			}
			pl := "?"
			if n, ok := pos[x.Date]; ok {
				pl = strconv.Itoa(n)
			}
			parts = append(parts, fmt.Sprintf("BAD %s %s", ctx, pl))
			o.Keys = append(o.Keys, fmt.Sprintf("UnparsableDate %s %s", ctx, ls))
			if !strings.Contains(w.String(), x.Date.Value()) {
				o.Errs = append(o.Errs, "UnparsableDate: text does not quote the value")
			}
		case *gedcom.MultipleSexesWarning:
			i := c20Ptr(x.Individual.Pointer())
			if indOf(w) != i {
				o.Errs = append(o.Errs, "MultipleSexes: context individual differs")
			}
			parts = append(parts, fmt.Sprintf("SEX %s %d", i, len(x.Sexes)))
			o.Keys = append(o.Keys, fmt.Sprintf("MultipleSexes I%s %d", i, len(x.Sexes)))
			mention(w, i)
		case *gedcom.InverseSpousesWarning:
			f, h, wf := c20Ptr(x.Family.Pointer()), c20Ptr(x.Husband.Pointer()), c20Ptr(x.Wife.Pointer())
			if famOf(w) != f {
				o.Errs = append(o.Errs, "InverseSpouses: context family differs")
			}
			parts = append(parts, fmt.Sprintf("INV %s %s %s", f, h, wf))
			o.Keys = append(o.Keys, fmt.Sprintf("InverseSpouses F%s I%s I%s", f, h, wf))
			mention(w, h, wf)
		default:
			parts = append(parts, "UNKNOWN "+w.Name())
			o.Keys = append(o.Keys, "UNKNOWN "+w.Name())
		}
	}
	o.Line = "-"
	if len(parts) > 0 {
		o.Line = strings.Join(parts, ";")
	}
	return
}

// ---------------------------------------------------------------- the specification, over civil days

type c20Spec struct {
	Want    map[string]int  // key -> multiplicity
	Unclear map[string]bool // keys whose condition is within the year-approximation margin
	Multi   map[string]bool // pair keys that are reachable through more than one CHIL line / family
}

func c20Group(kind string) int {
	switch kind {
	case "BIRT":
		return 0
	case "BAPM", "BAPL":
		return 1
	case "DEAT":
		return 2
	case "BURI":
		return 3
	}
	return -1
}

// c20First: day of the first date of the first dated node of the given kind (valid or not).
func c20First(i *c20Indi, kind string) (day int64, valid, exists bool) {
	for _, e := range i.Events {
		if e.Kind == kind && len(e.Dates) > 0 {
			if e.Dates[0].OK {
				return e.Dates[0].day(), true, true
			}
			return 0, false, true
		}
	}
	return 0, false, false
}

// c20Est: earliest of all dates of the first kind set that has any; an unparsable date among them
// makes the estimate unusable.
func c20Est(i *c20Indi, kindSets ...[]string) (x c20Date, valid, exists bool) {
	for _, ks := range kindSets {
		var ds []c20Date
		for _, k := range ks { // tag by tag, as the accessors list them
			for _, e := range i.Events {
				if e.Kind == k {
					ds = append(ds, e.Dates...)
				}
			}
		}
		if len(ds) == 0 {
			continue
		}
		best := ds[0]
		for _, d := range ds {
			if !d.OK {
				return c20Date{}, false, true
			}
			if d.day() < best.day() {
				best = d
			}
		}
		return best, true, true
	}
	return c20Date{}, false, false
}

func c20YearsFrac(x c20Date) *big.Rat {
	t := time.Date(x.Y, time.Month(x.M), x.D, 0, 0, 0, 0, time.UTC)
	diy := 365
	if time.Date(x.Y, 12, 31, 0, 0, 0, 0, time.UTC).YearDay() == 366 {
		diy = 366
	}
	r := big.NewRat(int64(t.YearDay()), int64(diy+1))
	return r.Add(r, big.NewRat(int64(x.Y), 1))
}

func c20AddYears(x c20Date, n int) int64 {
	return time.Date(x.Y, time.Month(x.M), x.D, 0, 0, 0, 0, time.UTC).AddDate(n, 0, 0).Unix() / 86400
}

func c20Expected(d *c20Doc) c20Spec {
	s := c20Spec{Want: map[string]int{}, Unclear: map[string]bool{}, Multi: map[string]bool{}}
	ind := map[int]*c20Indi{}
	for _, r := range d.Recs {
		if r.I != nil {
			ind[r.I.Ptr] = r.I
		}
	}
	paths := map[string]int{}
	for _, r := range d.Recs {
		if r.I != nil {
			i := r.I
			// wrong event order: a later-group event dated before an earlier-group event
			for _, e := range i.Events {
				for _, f := range i.Events {
					ge, gf := c20Group(e.Kind), c20Group(f.Kind)
					if ge < 0 || gf <= ge {
						continue
					}
					for _, x := range e.Dates {
						for _, y := range f.Dates {
							if x.OK && y.OK && y.day() < x.day() {
								s.Want[fmt.Sprintf("IncorrectEventOrder I%d %s %d.%d.%d %s %d.%d.%d", i.Ptr,
									f.Kind, y.D, y.M, y.Y, e.Kind, x.D, x.M, x.Y)]++
							}
						}
					}
				}
			}
			// too old: died more than 100 years after the (estimated) birth
			eb, ebOK, _ := c20Est(i, []string{"BIRT"}, []string{"BAPM", "BAPL"})
			ed, edOK, edExists := c20Est(i, []string{"DEAT"}, []string{"BURI"})
			if edExists && edOK && ebOK {
				key := fmt.Sprintf("IndividualTooOld I%d", i.Ptr)
				civil := ed.day() > c20AddYears(eb, 100)
				diff := new(big.Rat).Sub(c20YearsFrac(ed), c20YearsFrac(eb))
				scale := diff.Cmp(big.NewRat(100, 1)) > 0
				// exactly 100 on the Years scale: float64 decides it by its last bit unless both values are
				// computed exactly (2 Jul of a non-leap year = year + 0.5)
				half := func(x c20Date) bool { return c20YearsFrac(x).Cmp(big.NewRat(int64(2*x.Y+1), 2)) == 0 }
				if diff.Cmp(big.NewRat(100, 1)) == 0 && !(half(ed) && half(eb)) {
					s.Unclear[key] = true
				} else if civil != scale {
					s.Unclear[key] = true
				} else if civil {
					s.Want[key]++
				}
			}
			if len(i.Sexes) > 1 {
				s.Want[fmt.Sprintf("MultipleSexes I%d %d", i.Ptr, len(i.Sexes))]++
			}
			for _, e := range i.Events {
				for _, x := range e.Dates {
					if !x.OK {
						s.Want[fmt.Sprintf("UnparsableDate I %d %d", i.Ptr, x.Label)]++
					}
				}
			}
			continue
		}
		f := r.F
		for _, e := range f.Events {
			for _, x := range e.Dates {
				if !x.OK {
					s.Want[fmt.Sprintf("UnparsableDate F %d %d", f.Ptr, x.Label)]++
				}
			}
		}
		parents := []int{f.Husb, f.Wife}
		// child born before parent
		for _, c := range f.Chil {
			cb, cOK, _ := c20First(ind[c], "BIRT")
			for _, p := range parents {
				if p == 0 {
					continue
				}
				key := fmt.Sprintf("ChildBornBeforeParent I%d I%d", p, c)
				paths[key]++
				pb, pOK, _ := c20First(ind[p], "BIRT")
				if cOK && pOK && cb < pb {
					s.Want[key] = 1
				}
			}
		}
		// siblings 2 days to 9 months apart, once per unordered pair
		seen := map[[2]int]bool{}
		for _, a := range f.Chil {
			for _, b := range f.Chil {
				if a >= b || seen[[2]int{a, b}] {
					continue
				}
				seen[[2]int{a, b}] = true
				key := fmt.Sprintf("SiblingsBornTooClose I%d I%d", a, b)
				paths[key]++
				x, xOK, _ := c20First(ind[a], "BIRT")
				y, yOK, _ := c20First(ind[b], "BIRT")
				gap := x - y
				if gap < 0 {
					gap = -gap
				}
				if xOK && yOK && gap >= 2 && gap < 274 {
					s.Want[key] = 1
				}
			}
		}
		// married too young / too old, per MARR node and spouse
		for _, e := range f.Events {
			if e.Kind != "MARR" {
				continue
			}
			var ms []c20Date
			for _, x := range e.Dates {
				if x.OK {
					ms = append(ms, x)
				}
			}
			if len(ms) == 0 {
				continue
			}
			for _, p := range parents {
				if p == 0 {
					continue
				}
				eb, ebOK, _ := c20Est(ind[p], []string{"BIRT"}, []string{"BAPM", "BAPL"})
				if !ebOK {
					continue
				}
				// the marriage date furthest from the birth decides
				far, gap := ms[0], int64(-1)
				for _, m := range ms {
					g := m.day() - eb.day()
					if g < 0 {
						g = -g
					}
					if g > gap {
						far, gap = m, g
					}
				}
				var civilYoung, civilOld bool
				if far.day() >= eb.day() {
					civilYoung = far.day() < c20AddYears(eb, 16)
					civilOld = far.day() > c20AddYears(eb, 100)
				} else { // recorded before the birth: the code takes the absolute difference
					civilYoung = far.day() > c20AddYears(eb, -16)
					civilOld = far.day() < c20AddYears(eb, -100)
				}
				codeYoung := gap*4 < 16*1461
				codeOld := gap*4 > 100*1461
				if gap > 105000 { // beyond ~287 years time.Duration saturates: outside the stated domain, decided by the correspondence only
					s.Unclear[fmt.Sprintf("MarriedOutOfRange F%d I%d young", f.Ptr, p)] = true
					s.Unclear[fmt.Sprintf("MarriedOutOfRange F%d I%d old", f.Ptr, p)] = true
					continue
				}
				ky := fmt.Sprintf("MarriedOutOfRange F%d I%d young", f.Ptr, p)
				ko := fmt.Sprintf("MarriedOutOfRange F%d I%d old", f.Ptr, p)
				if civilYoung != codeYoung {
					s.Unclear[ky] = true
				} else if civilYoung {
					s.Want[ky]++
				}
				if civilOld != codeOld {
					s.Unclear[ko] = true
				} else if civilOld {
					s.Want[ko]++
				}
			}
		}
		// inverted spouses
		if f.Husb != 0 && f.Wife != 0 {
			h, w := ind[f.Husb], ind[f.Wife]
			if len(h.Sexes) > 0 && h.Sexes[0] == "F" && len(w.Sexes) > 0 && w.Sexes[0] == "M" {
				s.Want[fmt.Sprintf("InverseSpouses F%d I%d I%d", f.Ptr, f.Husb, f.Wife)]++
			}
		}
	}
	for k, n := range paths {
		if n > 1 {
			s.Multi[k] = true
		}
	}
	return s
}

// ---------------------------------------------------------------- generator

var (
	c20ChildOffsets   = []int{-9000, -2000, -30, -3, -1, 0, 1, 3, 5000, 6500, 7300, 9000, 10950, 14000, 16000}
	c20SiblingGaps    = []int{0, 0, 1, 1, 2, 2, 3, 30, 150, 272, 273, 273, 274, 274, 275, 400, 800, 2000, -1, -2, -3, -100, -273, -274}
	c20LifeYears      = []int{0, 1, 30, 60, 85, 99, 100, 100, 101, 110, -100, -101, -130, -200, -290}
	c20LifeDayOffsets = []int{-200, -30, -3, 3, 30, 200}
	c20MarrYears      = []int{-250, -150, -101, -100, -17, -16, -15, -5, 10, 15, 16, 16, 17, 25, 40, 60, 99, 100, 100, 101, 110}
	c20MarrDayOffsets = []int{-200, -30, -3, 3, 30, 200}
	c20MarrExactDays  = []int{5843, 5844, 5845, 36524, 36525, 36526, -5843, -5844, -5845, -36525, -36526}
	c20OtherIndiTags  = []string{"RESI", "OCCU", "EVEN", "CHR", "CENS", "GRAD"}
	c20OtherFamTags   = []string{"DIV", "ENGA", "EVEN", "CENS", "MARB"}
)

func c20Merge(r *Rand, nFalse, nTrue int) []bool {
	out := make([]bool, 0, nFalse+nTrue)
	for nFalse > 0 || nTrue > 0 {
		if nTrue == 0 || (nFalse > 0 && r.Intn(nFalse+nTrue) < nFalse) {
			out = append(out, false)
			nFalse--
		} else {
			out = append(out, true)
			nTrue--
		}
	}
	return out
}

type c20Gen struct {
	r       *Rand
	label   int
	labels  map[string]int
	badRate int // one in badRate dates is unparsable (0 = never)
	genRate int // one in genRate dates is a non-exact value (0 = never)
	oddYears bool // years 0 / above 9999 allowed (not in births, baptisms, deaths, burials)
}

func (g *c20Gen) date(day int64) c20Date {
	if g.genRate > 0 && g.r.Chance(1, g.genRate) {
		return c20General(g.r, day, g.oddYears)
	}
	if g.badRate > 0 && g.r.Chance(1, g.badRate) {
		g.label++
		b := c20Bad(g.r, g.label)
		g.labels[b.Text] = b.Label
		return b
	}
	return c20OK(g.r, day)
}

func c20Pick(r *Rand, xs []int) int { return xs[r.Intn(len(xs))] }

// c20Generate draws one document. clean = no deliberate faults (births long after the parents',
// siblings years apart, ordinary marriages and lifespans).
func c20Generate(r *Rand, maxPeople int, style string) (*c20Doc, map[string]int) {
	g := &c20Gen{r: r, labels: map[string]int{}}
	switch style {
	case "clean":
		g.badRate = 0
	case "faulty":
		g.badRate = 12
	case "general":
		g.badRate = 25
		g.genRate = 3
	default:
		g.badRate = 40
	}
	n := r.Intn(maxPeople + 1)
	if r.Chance(1, 3) {
		n = r.Intn(6)
	}
	lo, hi := c20DayOf(1750, 1, 1), c20DayOf(1880, 12, 31)
	birth := make([]int64, n+1)
	for i := 1; i <= n; i++ {
		birth[i] = lo + int64(r.Intn(int(hi-lo)))
	}
	// families
	nf := 0
	if n > 0 {
		nf = r.Intn(n/2 + 2)
	}
	var fams []*c20Fam
	isChild := map[int]bool{}
	for k := 1; k <= nf; k++ {
		f := &c20Fam{Ptr: k}
		if r.Chance(4, 5) {
			f.Husb = 1 + r.Intn(n)
		}
		if r.Chance(4, 5) {
			f.Wife = 1 + r.Intn(n)
			if f.Wife == f.Husb {
				f.Wife = 0
			}
		}
		nc := r.Intn(7)
		if nc > n {
			nc = n
		}
		// a person is a child in one family, rarely in a second one (adoption, duplicate records)
		seen := map[int]bool{f.Husb: true, f.Wife: true}
		for try := 0; len(f.Chil) < nc && try < 4*n; try++ {
			c := 1 + r.Intn(n)
			if seen[c] || (isChild[c] && !(style != "clean" && r.Chance(1, 12))) {
				continue
			}
			seen[c] = true
			isChild[c] = true
			f.Chil = append(f.Chil, c)
		}
		// the same CHIL line twice (defect 24 trigger), rarely
		if len(f.Chil) > 0 && style != "clean" && r.Chance(1, 25) {
			f.Chil = append(f.Chil, f.Chil[r.Intn(len(f.Chil))])
		}
		// a copy of the whole family under another pointer (duplicate family records), rarely
		fams = append(fams, f)
		if style != "clean" && r.Chance(1, 30) && len(f.Chil) > 0 {
			nf++
			k++
			cp := &c20Fam{Ptr: k, Husb: f.Husb, Wife: f.Wife, Chil: append([]int(nil), f.Chil...)}
			if r.Bool() {
				cp.Wife = 0
			}
			fams = append(fams, cp)
		}
	}
	// births relative to parents and siblings
	for _, f := range fams {
		prev := 0
		for _, c := range f.Chil {
			var ps []int
			for _, p := range []int{f.Husb, f.Wife} {
				if p != 0 {
					ps = append(ps, p)
				}
			}
			switch style {
			case "clean":
				if len(ps) > 0 {
					b := birth[ps[0]]
					for _, p := range ps {
						if birth[p] > b {
							b = birth[p]
						}
					}
					birth[c] = b + int64(7300+r.Intn(3000))
				}
				if prev != 0 {
					birth[c] = birth[prev] + int64(400+r.Intn(800))
				}
			default:
				if len(ps) > 0 && r.Chance(3, 4) {
					birth[c] = birth[ps[r.Intn(len(ps))]] + int64(c20Pick(r, c20ChildOffsets))
				}
				if prev != 0 && r.Chance(2, 3) {
					birth[c] = birth[prev] + int64(c20Pick(r, c20SiblingGaps))
				}
			}
			prev = c
		}
	}
	for i := 1; i <= n; i++ { // keep everything comfortably in the past and within 290 years
		if birth[i] < c20DayOf(1745, 1, 1) || birth[i] > c20DayOf(1895, 1, 1) {
			birth[i] = lo + int64(r.Intn(int(hi-lo)))
		}
	}
	// individuals
	indis := make([]*c20Indi, n+1)
	for i := 1; i <= n; i++ {
		p := &c20Indi{Ptr: i}
		switch x := r.Intn(20); {
		case x < 8:
			p.Sexes = []string{"M"}
		case x < 16:
			p.Sexes = []string{"F"}
		case x == 16:
			p.Sexes = []string{"U"}
		case x == 17 && style != "clean":
			p.Sexes = []string{r.Pick([]string{"M", "F"}), r.Pick([]string{"M", "F", "U"})}
		case x == 18 && style != "clean":
			p.Sexes = []string{"F", "M", "F"}
		}
		b := birth[i]
		add := func(kind, tag string, days ...int64) {
			g.oddYears = kind == "OTHER"
			e := c20Ev{Kind: kind, Tag: tag}
			for _, d := range days {
				e.Dates = append(e.Dates, g.date(d))
			}
			p.Events = append(p.Events, e)
		}
		// birth: usually one dated BIRT; sometimes none, undated, several dates or several nodes
		switch x := r.Intn(12); {
		case x == 0:
		case x == 1:
			add("BIRT", "BIRT")
			if r.Bool() {
				add("BIRT", "BIRT", b)
			}
		case x == 2 && style != "clean":
			add("BIRT", "BIRT", b, b+int64(c20Pick(r, []int{-400, -3, 3, 400})))
		case x == 3 && style != "clean":
			add("BIRT", "BIRT", b)
			add("BIRT", "BIRT", b+int64(c20Pick(r, []int{-400, -3, 3, 400})))
		default:
			add("BIRT", "BIRT", b)
		}
		if r.Chance(2, 5) {
			off := int64(30 + r.Intn(300))
			if style != "clean" && r.Chance(1, 4) {
				off = int64(c20Pick(r, []int{-400, -10, -1, 0, 1}))
				// a baptism long before the birth, only when a dated BIRT keeps it out of the
				// estimated birth (otherwise the lifespan would pass 292 years: platform-defined)
				if _, _, dated := c20First(p, "BIRT"); dated && r.Chance(1, 3) {
					off = int64(c20Pick(r, []int{-36600, -47000, -90000}))
				}
			}
			tag := "BAPM"
			if r.Chance(1, 4) {
				tag = "BAPL"
			}
			add(tag, tag, b+off)
		}
		died := int64(0)
		if r.Chance(3, 5) {
			var life int64
			if style == "clean" {
				life = int64(365*(1+r.Intn(90)) + r.Intn(300))
				died = b + life
			} else {
				y := c20Pick(r, c20LifeYears)
				by, bm, bd := c20Civil(b)
				died = c20AddYears(c20Date{Y: by, M: bm, D: bd}, y) + int64(c20Pick(r, c20LifeDayOffsets))
				if r.Chance(1, 10) {
					died = b - int64(1+r.Intn(500)) // died before being born
				}
			}
			if r.Chance(1, 8) {
				add("DEAT", "DEAT") // a death without a date
			} else if style != "clean" && r.Chance(1, 10) {
				add("DEAT", "DEAT", died, died+int64(c20Pick(r, []int{-40, 5, 300})))
			} else {
				add("DEAT", "DEAT", died)
			}
		}
		if r.Chance(2, 5) {
			base := died
			if base == 0 {
				y := c20Pick(r, c20LifeYears)
				by, bm, bd := c20Civil(b)
				base = c20AddYears(c20Date{Y: by, M: bm, D: bd}, y) + int64(c20Pick(r, c20LifeDayOffsets))
			}
			off := int64(r.Intn(10))
			if style != "clean" && r.Chance(1, 4) {
				off = int64(c20Pick(r, []int{-300, -5, -1, 0}))
			}
			add("BURI", "BURI", base+off)
		}
		if r.Chance(1, 4) {
			add("OTHER", r.Pick(c20OtherIndiTags), b+int64(r.Intn(20000)))
		}
		if r.Chance(1, 12) { // events out of file order (the file order is not the group order)
			for a := len(p.Events) - 1; a > 0; a-- {
				c := r.Intn(a + 1)
				p.Events[a], p.Events[c] = p.Events[c], p.Events[a]
			}
		}
		p.merge = c20Merge(r, len(p.Sexes), len(p.Events))
		indis[i] = p
	}
	// the exact-boundary people: born and died on 2 Jul of two non-leap years 100 years apart
	// (Years() = year + 183/366 = year + 0.5 exactly, also in float64)
	// are produced by c20Boundary, not here.

	// marriages
	g.oddYears = true
	for _, f := range fams {
		nm := 0
		switch x := r.Intn(10); {
		case x < 6:
			nm = 1
		case x == 6 && style != "clean":
			nm = 2
		}
		for k := 0; k < nm; k++ {
			var sp []int
			for _, p := range []int{f.Husb, f.Wife} {
				if p != 0 {
					sp = append(sp, p)
				}
			}
			day := lo + int64(r.Intn(int(hi-lo))) + 9000
			if len(sp) > 0 {
				s := indis[sp[r.Intn(len(sp))]]
				if eb, ok, _ := c20Est(s, []string{"BIRT"}, []string{"BAPM", "BAPL"}); ok {
					switch {
					case style == "clean":
						day = eb.day() + int64(7300+r.Intn(9000))
					case r.Chance(1, 5):
						day = eb.day() + int64(c20Pick(r, c20MarrExactDays))
					default:
						day = c20AddYears(eb, c20Pick(r, c20MarrYears)) + int64(c20Pick(r, c20MarrDayOffsets))
					}
				}
			}
			e := c20Ev{Kind: "MARR", Tag: "MARR"}
			switch x := r.Intn(12); {
			case x == 0:
			case x == 1 && style != "clean":
				e.Dates = []c20Date{g.date(day), g.date(day + int64(c20Pick(r, []int{-3000, -5, 5, 3000})))}
			default:
				e.Dates = []c20Date{g.date(day)}
			}
			f.Events = append(f.Events, e)
		}
		if r.Chance(1, 5) {
			f.Events = append(f.Events, c20Ev{Kind: "OTHER", Tag: r.Pick(c20OtherFamTags),
				Dates: []c20Date{g.date(lo + int64(r.Intn(int(hi-lo))) + 12000)}})
		}
		if len(f.Events) > 1 && r.Bool() {
			f.Events[0], f.Events[len(f.Events)-1] = f.Events[len(f.Events)-1], f.Events[0]
		}
		f.merge = c20Merge(r, len(f.Chil), len(f.Events))
	}
	// swapped spouse sexes are produced by the random draw of HUSB/WIFE among people of either sex.
	d := &c20Doc{}
	for i := 1; i <= n; i++ {
		d.Recs = append(d.Recs, c20Rec{I: indis[i]})
	}
	for _, f := range fams {
		d.Recs = append(d.Recs, c20Rec{F: f})
	}
	// records in random order in two thirds of the documents (families before their members, …)
	if r.Chance(2, 3) {
		c20ShuffleRecs(r, d)
	}
	return d, g.labels
}

// c20InjectLongBefore puts one large inversion into an otherwise clean document: a death, a burial
// or a baptism recorded 100..290 years BEFORE the birth, or a marriage recorded long before a
// spouse's birth on either side of 16 / 100 x 365.25 days (the code takes the absolute difference).
// Returns what was injected ("" when the document offers no place for it).
func c20InjectLongBefore(r *Rand, d *c20Doc) string {
	var people []*c20Indi
	for _, rec := range d.Recs {
		if rec.I != nil {
			if _, ok, _ := c20First(rec.I, "BIRT"); ok {
				people = append(people, rec.I)
			}
		}
	}
	if len(people) == 0 {
		return ""
	}
	back := func(b c20Date) int64 {
		y := c20Pick(r, []int{100, 100, 101, 110, 130, 170, 200, 250, 290})
		return c20AddYears(b, -y) + int64(c20Pick(r, []int{-200, -3, 0, 3, 200}))
	}
	strip := func(p *c20Indi, kinds ...string) {
		var evs []c20Ev
		for _, e := range p.Events {
			keep := true
			for _, k := range kinds {
				if e.Kind == k {
					keep = false
				}
			}
			if keep {
				evs = append(evs, e)
			}
		}
		p.Events = evs
	}
	p := people[r.Intn(len(people))]
	eb, _, _ := c20Est(p, []string{"BIRT"})
	kind := r.Intn(4)
	what := ""
	switch kind {
	case 0:
		strip(p, "DEAT", "BURI")
		p.Events = append(p.Events, c20Ev{Kind: "DEAT", Tag: "DEAT", Dates: []c20Date{c20OK(r, back(eb))}})
		what = "death-long-before-birth"
	case 1:
		strip(p, "DEAT", "BURI")
		p.Events = append(p.Events, c20Ev{Kind: "BURI", Tag: "BURI", Dates: []c20Date{c20OK(r, back(eb))}})
		what = "burial-long-before-birth"
	case 2:
		strip(p, "BAPM", "BAPL")
		p.Events = append(p.Events, c20Ev{Kind: "BAPM", Tag: "BAPM", Dates: []c20Date{c20OK(r, back(eb))}})
		what = "baptism-long-before-birth"
	default:
		for _, rec := range d.Recs {
			f := rec.F
			if f == nil || (f.Husb != p.Ptr && f.Wife != p.Ptr) {
				continue
			}
			var day int64
			if r.Bool() {
				day = eb.day() - int64(c20Pick(r, []int{5000, 5843, 5844, 5845, 6200, 36000, 36524, 36525, 36526, 37000, 60000, 90000}))
			} else {
				day = c20AddYears(eb, -c20Pick(r, []int{15, 16, 17, 99, 100, 101, 150, 250})) + int64(c20Pick(r, []int{-3, 3}))
			}
			var evs []c20Ev
			for _, e := range f.Events {
				if e.Kind != "MARR" {
					evs = append(evs, e)
				}
			}
			f.Events = append(evs, c20Ev{Kind: "MARR", Tag: "MARR", Dates: []c20Date{c20OK(r, day)}})
			f.merge = c20Merge(r, len(f.Chil), len(f.Events))
			what = "marriage-long-before-birth"
			break
		}
	}
	p.merge = c20Merge(r, len(p.Sexes), len(p.Events))
	return what
}

func c20ShuffleRecs(r *Rand, d *c20Doc) {
	for a := len(d.Recs) - 1; a > 0; a-- {
		c := r.Intn(a + 1)
		d.Recs[a], d.Recs[c] = d.Recs[c], d.Recs[a]
	}
}

// c20Permuted: same facts, records and CHIL lines in another order (events keep their order).
func c20Permuted(r *Rand, d *c20Doc) *c20Doc {
	p := &c20Doc{}
	for _, rec := range d.Recs {
		if rec.F != nil {
			f := *rec.F
			f.Chil = append([]int(nil), f.Chil...)
			for a := len(f.Chil) - 1; a > 0; a-- {
				c := r.Intn(a + 1)
				f.Chil[a], f.Chil[c] = f.Chil[c], f.Chil[a]
			}
			f.merge = c20Merge(r, len(f.Chil), len(f.Events))
			p.Recs = append(p.Recs, c20Rec{F: &f})
		} else {
			p.Recs = append(p.Recs, rec)
		}
	}
	c20ShuffleRecs(r, p)
	return p
}

// c20Boundary: hand-shaped documents that sit exactly on a threshold where the arithmetic is exact.
func c20Boundary(r *Rand) (*c20Doc, map[string]int) {
	ok := func(y, m, d int) c20Date { return c20OK(r, c20DayOf(y, m, d)) }
	ev := func(kind string, ds ...c20Date) c20Ev { return c20Ev{Kind: kind, Tag: kind, Dates: ds} }
	nonLeap := []int{1801, 1802, 1803, 1805, 1806, 1807, 1809, 1810, 1811, 1813, 1850, 1851, 1853, 1854, 1855, 1857}
	y := nonLeap[r.Intn(len(nonLeap))]
	d := &c20Doc{}
	// 1: exactly 100 on the Years scale (2 Jul = day 183 of 366 slots), 2: one day more, 3: one day less
	for k, dd := range []int{2, 3, 1} {
		i := &c20Indi{Ptr: k + 1, Sexes: []string{"M"}, Events: []c20Ev{ev("BIRT", ok(y, 7, 2)), ev("DEAT", ok(y+100, 7, dd))}}
		i.merge = c20Merge(r, 1, 2)
		d.Recs = append(d.Recs, c20Rec{I: i})
	}
	// siblings exactly 2, 1, 274 and 273 days apart; parent and child born the same day / one day apart
	b := c20DayOf(y, 3, 1+r.Intn(20))
	mk := func(ptr int, day int64, sex string) {
		i := &c20Indi{Ptr: ptr, Sexes: []string{sex}, Events: []c20Ev{ev("BIRT", c20OK(r, day))}}
		i.merge = c20Merge(r, 1, 1)
		d.Recs = append(d.Recs, c20Rec{I: i})
	}
	mk(4, b, "M")
	mk(5, b+2, "F")
	mk(6, b+3, "F")
	mk(7, b+276, "M")
	mk(8, b+276+273, "M")
	mk(9, b, "F")   // same day as 4
	mk(10, b+1, "M") // one day after 4
	mk(11, b-1, "F") // one day before 4
	f1 := &c20Fam{Ptr: 1, Chil: []int{4, 5, 6, 7, 8}}
	f1.merge = c20Merge(r, 5, 0)
	f2 := &c20Fam{Ptr: 2, Husb: 4, Chil: []int{9, 10, 11}}
	// married exactly 16 x 365.25 and 100 x 365.25 days after the husband's birth
	f2.Events = []c20Ev{ev("MARR", c20OK(r, b+5844)), ev("MARR", c20OK(r, b+36525)), ev("MARR", c20OK(r, b+5843)), ev("MARR", c20OK(r, b+36526))}
	f2.merge = c20Merge(r, 3, 4)
	d.Recs = append(d.Recs, c20Rec{F: f1}, c20Rec{F: f2})
	if r.Bool() {
		c20ShuffleRecs(r, d)
	}
	return d, map[string]int{}
}

// ---------------------------------------------------------------- running one document

func c20SortedKeys(keys []string, drop map[string]bool) []string {
	var out []string
	for _, k := range keys {
		if !drop[k] {
			out = append(out, k)
		}
	}
	sort.Strings(out)
	return out
}

func c20Multiset(keys []string) map[string]int {
	m := map[string]int{}
	for _, k := range keys {
		m[k]++
	}
	return m
}

func c20Decode(text string) (doc *gedcom.Document, err error) {
	defer func() {
		if r := recover(); r != nil {
			err = fmt.Errorf("panic: %v", r)
		}
	}()
	return gedcom.NewDocumentFromString(text)
}

// c20CheckSpec: oracle (S1) on one observation of one (possibly edited) document.
func c20CheckSpec(c *Ctx, d *c20Doc, obs c20Obs, input map[string]interface{}, labels map[string]int) map[string]bool {
	hasGeneral, opaque := false, false
	for _, rec := range d.Recs {
		evs := []c20Ev{}
		if rec.I != nil {
			evs = rec.I.Events
		} else {
			evs = rec.F.Events
		}
		for _, e := range evs {
			for _, dt := range e.Dates {
				if dt.General {
					hasGeneral = true
					if dt.Gen == nil {
						opaque = true
					}
				}
			}
		}
	}
	spec := c20Expected(d)
	got := c20Multiset(obs.Keys)
	switch {
	case hasGeneral && opaque:
		// a value whose meaning the documented grammar does not settle (years 0 / above 9999, trailing
		// words, a day without a month): judged by the correspondence only
		c.Count("oracle-S1-skipped-uninterpreted-value")
		spec = c20Spec{Want: map[string]int{}, Unclear: map[string]bool{}, Multi: map[string]bool{}}
		got = map[string]int{}
	case hasGeneral:
		c.Count("oracle-S1-judged-general-dates")
		spec = c20ExpectedG(d, labels)
	default:
		c.Count("oracle-S1-judged-exact-dates")
		// the specification on general dates, read on exact days, is the specification on exact days
		// wherever both decide
		g := c20ExpectedG(d, labels)
		var two []string
		for k, w := range spec.Want {
			if !spec.Unclear[k] && !g.Unclear[k] && g.Want[k] != w {
				two = append(two, fmt.Sprintf("%s: %d by the exact-day specification, %d by the general one", k, w, g.Want[k]))
			}
		}
		for k, w := range g.Want {
			if !spec.Unclear[k] && !g.Unclear[k] && spec.Want[k] != w {
				two = append(two, fmt.Sprintf("%s: %d by the exact-day specification, %d by the general one", k, spec.Want[k], w))
			}
		}
		if len(two) > 0 {
			sort.Strings(two)
			c.Oracle("", "the two specifications (exact days / general dates) disagree on a document of exact days", input, strings.Join(two, "; "), "the same multiset")
		} else {
			c.Count("oracle-S1-two-specifications-agree")
		}
	}
	var diffs, knownDiffs []string
	seenKinds := map[string]bool{}
	for k, n := range got {
		seenKinds[strings.SplitN(k, " ", 2)[0]] = true
		if spec.Unclear[k] {
			c.Count("unclear-threshold")
			continue
		}
		w := spec.Want[k]
		switch {
		case n == w:
		case w == 1 && n > 1 && spec.Multi[k]:
			knownDiffs = append(knownDiffs, fmt.Sprintf("%s reported %d times", k, n))
		case w == 0:
			diffs = append(diffs, "unwarranted: "+k)
		default:
			diffs = append(diffs, fmt.Sprintf("%s reported %d times, warranted %d", k, n, w))
		}
	}
	for k, w := range spec.Want {
		if got[k] == 0 && w > 0 && !spec.Unclear[k] {
			diffs = append(diffs, "missing: "+k)
		}
	}
	sort.Strings(diffs)
	sort.Strings(knownDiffs)
	if len(diffs) > 0 {
		c.Oracle("", "the warnings reported differ from what the recorded facts warrant", input,
			strings.Join(diffs, "; "), "reported = warranted (see c20Expected)")
	}
	if len(knownDiffs) > 0 {
		c.Oracle(c20KnownPairKey, "a (parent, child) or sibling pair that is listed through several CHIL lines / families is reported once per line instead of once",
			input, strings.Join(knownDiffs, "; "), "each offending pair once")
	}
	if len(obs.Errs) > 0 {
		c.Oracle("", "a warning does not name the right people", input, strings.Join(obs.Errs, "; "), "context and text name the people of the condition")
	}


	return seenKinds
}

const c20KnownPairKey = "pair-reported-once-per-chil-line"

func c20Run(c *Ctx, d *c20Doc, labels map[string]int, style string, permute bool, edits ...bool) {
	edit := len(edits) > 0 && edits[0]
	text := d.text()
	input := map[string]interface{}{"gedcom": text, "style": style}
	doc, err := c20Decode(text)
	if err != nil {
		c.Oracle("", "a generated family-graph document does not decode", input, err.Error(), "decodes")
		return
	}
	now := time.Now()
	before := doc.String()
	obs, pan := c20Observe(doc, labels)
	if pan != "" {
		c.Oracle("", "Document.Warnings() panics on a well-formed family graph", input, "panic: "+pan, "a list of warnings")
		return
	}
	c.Eval()
	c.Tie(d.request(now), obs.Line)

	// (S1) the report is the specified multiset (documents of exact days and plain garbage only:
	// what a non-exact value means is the parser's business, judged by the correspondence)
	seenKinds := c20CheckSpec(c, d, obs, input, labels)

	// (T2) the views and guards of the specification on general dates (Model/WarningsSpec.lean)
	if c20HasGeneral(d) || c.R.Chance(1, 4) {
		c20TieViews(c, d, now)
	}

	// (S2) the call does not change the recorded facts, and asking again gives the same answer
	if after := doc.String(); after != before {
		c.Oracle("", "Document.Warnings() changed the document it inspected", input, after, before)
	} else {
		obs2, pan2 := c20Observe(doc, labels)
		if pan2 != "" || obs2.Line != obs.Line {
			c.Oracle("", "a second call of Document.Warnings() reports something else", input, obs2.Line+pan2, obs.Line)
		}
	}

	// (S3) order independence on the implementation
	if permute {
		p := c20Permuted(c.R, d)
		pdoc, err := c20Decode(p.text())
		if err == nil {
			pobs, ppan := c20Observe(pdoc, labels)
			a := strings.Join(c20SortedKeys(obs.Keys, nil), "; ")
			b := strings.Join(c20SortedKeys(pobs.Keys, nil), "; ")
			if ppan != "" || a != b {
				c.Oracle("", "reordering records and children changes the set of warnings",
					map[string]interface{}{"gedcom": text, "reordered": p.text()}, b+ppan, a)
			}
			c.Tie(p.request(now), pobs.Line)
			c.Eval()
		}
	}

	// (S4) edits below existing events between two calls (only on part of the cases)
	if edit {
		c20EditHistory(c, d, doc, labels, style, now, obs.Line)
	}

	// measurement
	kinds := make([]string, 0, len(seenKinds))
	for k := range seenKinds {
		kinds = append(kinds, k)
		c.Count("kind=" + k)
	}
	sort.Strings(kinds)
	nw := len(obs.Keys)
	c.Count("style=" + style)
	switch {
	case nw == 0:
		c.Count("warnings=0")
	case nw <= 3:
		c.Count("warnings=1-3")
	case nw <= 10:
		c.Count("warnings=4-10")
	default:
		c.Count("warnings>10")
	}
	np := 0
	for _, r := range d.Recs {
		if r.I != nil {
			np++
		}
	}
	switch {
	case np == 0:
		c.Count("people=0")
	case np <= 5:
		c.Count("people=1-5")
	case np <= 15:
		c.Count("people=6-15")
	default:
		c.Count("people>15")
	}
	if nw > 0 {
		c.Nontrivial(fmt.Sprintf("%s|%d", strings.Join(kinds, "+"), nw))
	}
	c.Sample(map[string]interface{}{"gedcom_lines": strings.Count(text, "\n"), "warnings": obs.Line})
}

// c20Compare: the model's answer may end in ` ~ flag;flag…`: decisions that rest on an exact tie of two
// Years() values which float64 computes along different paths (Gedcom/Model/WarningsTies.lean). Exactly
// those decisions are inconclusive: the flagged warnings are taken out of both answers, everything
// else is compared as it is, in order.
func c20Compare(c *Ctx) func(req, impl, model string) bool {
	return func(req, impl, model string) bool {
		parts := strings.SplitN(model, " ~ ", 2)
		if len(parts) == 1 {
			return impl == model
		}
		flags := map[string]bool{}
		for _, f := range strings.Split(parts[1], ";") {
			flags[f] = true
		}
		drop := func(line string) []string {
			var out []string
			if line == "-" {
				return out
			}
			for _, tok := range strings.Split(line, ";") {
				w := strings.Fields(tok)
				key := ""
				switch {
				case len(w) == 4 && w[0] == "CBBP":
					key = "CBBP " + w[2] + " " + w[3]
				case len(w) == 2 && w[0] == "OLD":
					key = tok
				case len(w) == 4 && w[0] == "MOOR":
					key = "MOOR " + w[1] + " " + w[2]
				}
				if key == "" || !flags[key] {
					out = append(out, tok)
				}
			}
			return out
		}
		a, b := drop(impl), drop(parts[0])
		c.Count("float-tie-inconclusive")
		if impl != parts[0] {
			c.Count("float-tie-inconclusive-and-different")
		}
		if len(a) != len(b) {
			return false
		}
		for i := range a {
			if a[i] != b[i] {
				return false
			}
		}
		return true
	}
}

// c20TieDoc: people whose dates tie exactly on the Years() scale across granularities: the 16th of a
// 31-day month (15 Feb of a leap year) against that month, 2 Jul of a non-leap year against that year,
// as child / parent births, as two dates of one birth, and exactly 100 years apart.
func c20TieDoc(r *Rand) *c20Doc {
	mon31 := []int{1, 3, 5, 7, 8, 10, 12}
	gen := func(text string) c20Date { return c20Date{General: true, Text: text} }
	day := func(y, m, d int) c20Date { return c20OK(r, c20DayOf(y, m, d)) }
	ev := func(kind string, ds ...c20Date) c20Ev { return c20Ev{Kind: kind, Tag: kind, Dates: ds} }
	monthOf := func(y, m int) c20Date { return gen(fmt.Sprintf("%s %d", c20MonthForms[m-1][r.Intn(4)], y)) }
	d := &c20Doc{}
	indi := func(ptr int, sex string, evs ...c20Ev) {
		i := &c20Indi{Ptr: ptr, Sexes: []string{sex}, Events: evs}
		i.merge = c20Merge(r, 1, len(evs))
		d.Recs = append(d.Recs, c20Rec{I: i})
	}
	fam := func(ptr, husb, wife int, chil []int, evs ...c20Ev) {
		f := &c20Fam{Ptr: ptr, Husb: husb, Wife: wife, Chil: chil, Events: evs}
		f.merge = c20Merge(r, len(chil), len(evs))
		d.Recs = append(d.Recs, c20Rec{F: f})
	}
	y := 1760 + r.Intn(100)
	m := mon31[r.Intn(len(mon31))]
	// 1: parent with month precision, 2: child on the 16th; 3: mother on the 16th, 4: child with month precision
	indi(1, "M", ev("BIRT", monthOf(y, m)))
	indi(2, "F", ev("BIRT", day(y, m, 16)))
	indi(3, "F", ev("BIRT", day(y, m, 16)))
	indi(4, "M", ev("BIRT", monthOf(y, m)))
	fam(1, 1, 3, []int{2, 4})
	// leap February: the 15th against the month
	ly := 1760 + 4*r.Intn(10)
	indi(5, "M", ev("BIRT", gen(fmt.Sprintf("Feb %d", ly))))
	indi(6, "F", ev("BIRT", day(ly, 2, 15)))
	fam(2, 5, 0, []int{6})
	// 2 Jul of a non-leap year against the year (both exact in float64: decided, not a tie to excuse)
	ny := []int{1801, 1802, 1803, 1805, 1853, 1854, 1855, 1857}[r.Intn(8)]
	indi(7, "M", ev("BIRT", day(ny, 7, 2)))
	indi(8, "F", ev("BIRT", gen(strconv.Itoa(ny))))
	indi(9, "M", ev("BIRT", gen(strconv.Itoa(ny))))
	fam(3, 7, 0, []int{8})
	fam(4, 9, 0, []int{7})
	// two dates of one birth that tie (Minimum() may take either): too old and married young depend on it
	indi(10, "M", ev("BIRT", day(y, m, 16), monthOf(y, m)), ev("DEAT", day(y+101, m, 20)))
	indi(11, "F", ev("BIRT", monthOf(y, m), day(y, m, 16)), ev("DEAT", day(y+100, m, 10)))
	fam(5, 10, 11, nil, ev("MARR", day(y+15, m, 20)), ev("MARR", monthOf(y+16, m), day(y+16, m, 16)))
	// exactly 100 years between a month and the 16th of the same month (years of equal length)
	cy := []int{1704, 1780, 1808, 1801, 1802}[r.Intn(5)]
	indi(12, "F", ev("BIRT", gen(fmt.Sprintf("Dec %d", cy))), ev("DEAT", day(cy+100, 12, 16)))
	indi(13, "M", ev("BIRT", day(cy, 12, 16)), ev("DEAT", gen(fmt.Sprintf("Dec %d", cy+100))))
	if r.Bool() {
		c20ShuffleRecs(r, d)
	}
	return d
}

func init() {
	runners["C20"] = func(c *Ctx) {
		c.Compare = c20Compare(c)
		c.Rule = "family-graph documents (0..40 people, 0..n families, several families per person) with exact-day or unparsable dates, all in the past (births 1745-1895, everything before 2022, span < 290 years); relationships drawn a few days either side of every threshold plus the exact thresholds; large inversions (death, burial, baptism 100..290 years before the birth, marriage long before a spouse's birth on both sides of 16 and 100 x 365.25 days) alone in an otherwise clean document and combined with other faults; every document also in a shuffled order; every third document also through an edit history (Warnings(); 1-3 in-place edits of a DATE below an existing event: AddNode / SetNodes / DeleteNode on the event node, Add{Birth,Death,Burial,Baptism}Date on the individual, with Warnings() / Age() / IsLiving() / Estimated…Date() between them; Warnings() again, compared with the model and the specification on the current tree and with a freshly decoded copy of the current text); unparsable values include an all-zero day field (0, 00, 000) before a known month and year, alone, behind a constraint word and at either end of a range; distinct = (set of warning kinds reported, number of warnings)"
		c.Notes = append(c.Notes,
			"assumption: all dates are at least four years before time.Now(); today's date is an explicit input of the model",
			"assumption: no two dates of a document are more than 290 years apart (time.Duration saturates at ~292 years; the model has the saturation, the generator does not reach it)",
			"assumption: lifespans stay below 150 years (float64 -> int64 conversion of an age above ~292 years is platform-defined in Go)")
		n := c.N(8000, 150000)
		maxPeople := 14
		c20Run(c, c20FarSiblings(c.R), map[string]int{}, "siblings-292-years-apart", false)
		for k := 0; k < n; k++ {
			style := "mixed"
			switch k % 10 {
			case 0:
				style = "clean"
			case 1, 2, 3:
				style = "faulty"
			case 4, 5, 6:
				style = "general"
			case 7:
				style = "longbefore"
			}
			mp := maxPeople
			if k%17 == 0 {
				mp = 40
			}
			gstyle := style
			if style == "longbefore" {
				gstyle = "clean" // one large inversion is the only fault of the document
			}
			d, labels := c20Generate(c.R, mp, gstyle)
			if style == "longbefore" {
				if what := c20InjectLongBefore(c.R, d); what != "" {
					c.Count("inject=" + what)
				}
			}
			c20Run(c, d, labels, style, true, k%3 == 0)
			if k%10 == 9 {
				b, bl := c20Boundary(c.R)
				c20Run(c, b, bl, "boundary", true)
			}
			if k%10 == 4 {
				c20Run(c, c20TieDoc(c.R), map[string]int{}, "years-tie", true)
			}
			if k%2 == 1 {
				c20Run(c, c20ThresholdDoc(c, c.R), map[string]int{}, "general-threshold", k%4 == 1)
			}
		}
	}
}
