package main

// C16 — query results equal what the Go API gives.  Well-typed queries over the modelled accessor
// menu × family-graph documents: (T) the Lean model as reference interpreter on the JSON-normalised
// result, (S) algebraically equivalent queries and a reference that calls the Go API directly.

import (
	"fmt"
	"math"
	"sort"
	"strconv"
	"strings"
	"time"
	"unicode/utf8"

	"github.com/elliotchance/gedcom/v39"
	"github.com/elliotchance/gedcom/v39/q"
)

// element types of the typed generator
const (
	c16Indi = iota
	c16Fam
	c16NodeI
	c16Name
	c16Sex
	c16Str
	c16Tag
	c16Bool
	c16Map
	c16Nested
	c16Date   // []*DateNode, nil entries possible
	c16Role   // []*HusbandNode / []*WifeNode, nil entries possible
	c16PlaceI // gedcom.Nodes holding PLAC nodes
	c16DateI  // gedcom.Nodes holding DATE nodes
	c16EventI // gedcom.Nodes holding event nodes
	c16Num    // []float64
)

type c16Gen struct{ r *Rand }

var c16consts = []string{`"John"`, `"Nan"`, `"nan"`, `"Inf"`, `"Male"`, `"Female"`, `"I1"`, `"I2"`, `"I3"`, `"F1"`, `"Smith"`, `"Doe"`, `"10"`, `"9"`,
	`"1e1"`, `" 10 "`, `"smith"`, `"INDI"`, `"FAM"`, `"NAME"`, `""`, `"M"`, "10", "9", "1", "0", `"+10"`, `"1_0"`, `"-0"`, `"0.50"`, `".5"`, `"infinity"`, `"-inf"`, `"x"`, `"X "`,
	`"010"`, `"007"`, `"08"`, `"0x10"`, `"0x1p4"`, `"0b11"`, `"1_000"`, `"1e3"`, `" 5 "`, `"5."`, "010", "007"}

var c16ops = []string{"=", "!=", ">", ">=", "<", "<="}

// source draws a slice-valued pipeline and the type of its elements.
func (g *c16Gen) source() (string, int) {
	switch g.r.Intn(10) {
	case 0, 1, 2, 3, 4:
		return ".Individuals", c16Indi
	case 5, 6:
		return ".Families", c16Fam
	case 7:
		return "Document1 | .Individuals", c16Indi
	case 8:
		if g.r.Chance(1, 3) {
			return ".Sources", c16NodeI
		}
	}
	return ".Nodes", c16NodeI
}

// scalar draws a statement that maps one element of type t to a string (and its text).
func (g *c16Gen) scalar(t int) string {
	switch t {
	case c16Indi:
		return g.r.Pick([]string{".Name | .String", ".Name | .GivenName", ".Name | .Surname", ".Sex | .String", ".Pointer", ".Value", ".Tag | .Tag", ".Names | Length", ".Nodes | Length",
			".IsLiving", ".String", ".Birth | .String", ".Birth | .Years", ".Death | .IsValid", ".Death | .String", ".Baptism | .String", ".Burial | .Years", ".Spouses | Length",
			".Families | Length", ".Parents | Length", ".Births | Length", ".Deaths | Length", ".Baptisms | Length", ".Burials | Length", ".Spouses | .Pointer", ".Families | .Pointer", ".Parents | .Pointer",
			".EstimatedBirthDate | .String", ".EstimatedDeathDate | .Years", ".Identifier", ".AllEvents | Length", ".LDSBaptisms | Length", ".UniqueIDs | Length", ".Name | .Prefix", ".Name | .Title",
			".Name | .Suffix", ".Name | .SurnamePrefix", ".Tag | .String", ".Tag | .IsKnown", ".Tag | .SortValue", ".RawSimpleNode | .Value", ".SimpleNode | .Pointer", ".Birth | .StartDate | .Year",
			".Birth | .EndDate | .String", ".Birth | .IsExact", ".Death | .StartDate | .IsZero", ".Birth | .EndDate | .Years", ".Birth | .StartDate | .IsEndOfRange", ".ObjectMap | .Tag"})
	case c16Fam:
		return g.r.Pick([]string{".Pointer", ".Value", ".Tag | .Tag", ".Nodes | Length", ".Husband | .Individual | .Name | .String", ".Wife | .Individual | .IsLiving",
			".Children | Length", ".Husband | .Individual | .String", ".Wife | .Individual | .Pointer", ".Husband | .Value", ".Children | .Individual | .String", ".Wife | .Individual | .Birth | .Years",
			".Identifier", ".Husband | .RawSimpleNode | .Value", ".Tag | .IsOfficial", ".Wife | .Identifier", ".Husband | .Individual | .EstimatedBirthDate | .String"})
	case c16Date, c16DateI:
		return g.r.Pick([]string{".Years", ".String", ".IsValid", ".Value", ".String", ".StartDate | .String", ".EndDate | .Year", ".IsExact", ".IsPhrase", ".StartDate | .IsExact", ".EndDate | .Years",
			".StartDate | .Day", ".EndDate | .IsZero", ".StartDate | .IsEndOfRange"})
	case c16Role:
		return g.r.Pick([]string{".Individual | .String", ".Individual | .IsLiving", ".Individual | .Pointer", ".Value", ".Individual | .Name | .Surname"})
	case c16PlaceI:
		return g.r.Pick([]string{".Name", ".Country", ".County", ".State", ".String", ".JurisdictionalName", ".Value", ".Country", ".Format | .Value", ".Map | .Latitude | .Value", ".Map | .Longitude | .Value",
			".Notes | Length", ".Map | .Nodes | Length"})
	case c16EventI:
		return g.r.Pick([]string{".Dates | Length", ".String", ".Value", ".Tag | .Tag", ".Dates | .String", ".Dates | .Years"})
	case c16NodeI:
		return g.r.Pick([]string{".Pointer", ".Value", ".Tag | .Tag", ".Nodes | Length", ".Identifier", ".RawSimpleNode | .Tag | .Tag", ".Tag | .String", ".Tag | .IsEvent"})
	case c16Name:
		return g.r.Pick([]string{".String", ".GivenName", ".Surname", ".GivenName", ".Value", ".Prefix", ".Title", ".Suffix", ".SurnamePrefix", ".RawSimpleNode | .Value", ".ShallowCopy | .Value"})
	case c16Sex:
		return g.r.Pick([]string{".String", ".String", ".Value"})
	case c16Tag:
		return g.r.Pick([]string{".Tag", ".Tag", ".String", ".IsEvent", ".IsKnown", ".IsOfficial", ".SortValue"})
	}
	return "Length"
}

func (g *c16Gen) pred(t int) string {
	if t == c16Str || t == c16Bool || t == c16Num {
		return g.r.Pick([]string{"Length", `"x"`, "1"}) + " " + g.r.Pick(c16ops) + " " + g.r.Pick(c16consts)
	}
	s := g.scalar(t)
	if strings.HasSuffix(s, "Length") {
		// `.Names | Length = 1` would map the comparison over the names; compare the count through a variable-free form
		return s + " | Length " + g.r.Pick(c16ops) + " " + g.r.Pick([]string{"0", "1", "2"})
	}
	if g.r.Chance(1, 6) {
		return g.r.Pick(c16consts) + " " + g.r.Pick(c16ops) + " " + g.scalar(t)
	}
	return s + " " + g.r.Pick(c16ops) + " " + g.r.Pick(c16consts)
}

// step extends a slice-valued pipeline by one stage; returns the new element type.
func (g *c16Gen) step(q string, t int) (string, int) {
	switch k := g.r.Intn(14); {
	case k < 3:
		return q + " | " + g.r.Pick([]string{"First", "Last"}) + "(" + strconv.Itoa(g.r.Intn(9)) + ")", t
	case k < 5:
		if t == c16Nested || t == c16Map || t == c16Num {
			return q + " | Only(1 = 1)", t
		}
		return q + " | Only(" + g.pred(t) + ")", t
	case k < 6:
		return "Combine(" + q + ", " + q + ")", t
	case k < 9:
		switch t {
		case c16Indi:
			switch g.r.Intn(12) {
			case 0, 1:
				return q + " | .Name", c16Name
			case 2:
				return q + " | .Sex", c16Sex
			case 3:
				return q + " | " + g.r.Pick([]string{".Names", ".Spouses", ".Families", ".Parents", ".Births", ".Deaths", ".Baptisms", ".Burials", ".AllEvents", ".LDSBaptisms", ".UniqueIDs"}), c16Nested
			case 4:
				return q + " | .Tag", c16Tag
			case 5, 6, 7:
				return q + " | " + g.r.Pick([]string{".Birth", ".Death", ".Baptism", ".Burial", ".Birth", ".EstimatedBirthDate", ".EstimatedDeathDate"}), c16Date
			case 8:
				return q + " | .IsLiving", c16Bool
			case 9:
				return q + " | .String", c16Str
			}
			return q + " | .Pointer", c16Str
		case c16Fam:
			switch g.r.Intn(5) {
			case 0, 1:
				return q + " | " + g.r.Pick([]string{".Husband", ".Wife"}), c16Role
			case 2:
				return q + " | .Children", c16Nested
			}
			return q + " | " + g.r.Pick([]string{".Pointer", ".Value"}), c16Str
		case c16Role:
			if g.r.Chance(2, 3) {
				return q + " | .Individual", c16Indi
			}
			return q + " | .String", c16Str
		case c16Nested:
			return q + " | Length", -1
		case c16Date:
			switch g.r.Intn(4) {
			case 3: // a struct FIELD mapped over a list ([]gedcom.Date)
				return q + " | " + g.r.Pick([]string{".StartDate", ".EndDate"}) + " | " + g.r.Pick([]string{".Year", ".Day", ".Month", ".Constraint"}), c16Num
			case 0:
				return q + " | .Years", c16Num
			case 1:
				return q + " | .IsValid", c16Bool
			}
			return q + " | .String", c16Str
		case c16Name:
			return q + " | " + g.r.Pick([]string{".GivenName", ".Surname", ".String", ".Prefix", ".Suffix", ".Title", ".SurnamePrefix", ".Identifier"}), c16Str
		case c16Sex:
			return q + " | .String", c16Str
		case c16Tag:
			return q + " | " + g.r.Pick([]string{".Tag", ".String", ".Tag"}), c16Str
		}
		return q + " | Only(1 = 1)", t
	case k < 10:
		if t == c16Indi && g.r.Chance(2, 3) {
			ev := g.r.Pick([]string{"BIRT", "DEAT", "BAPM", "BURI", "RESI", "EVEN"})
			switch g.r.Intn(3) {
			case 0:
				return q + ` | NodesWithTagPath("` + ev + `", "PLAC")`, c16PlaceI
			case 1:
				return q + ` | NodesWithTagPath("` + ev + `", "DATE")`, c16DateI
			}
			return q + ` | NodesWithTagPath("` + ev + `")`, c16EventI
		}
		if t == c16Indi || t == c16NodeI || t == c16Name || t == c16Fam {
			args := g.r.Pick([]string{`"NAME"`, `"BIRT", "DATE"`, `"BIRT"`, `"SEX"`, `"GIVN"`, `"HUSB"`, `"NAME", "GIVN"`, `"NOPE"`, `"BIRT", "PLAC"`})
			return q + " | NodesWithTagPath(" + args + ")", c16NodeI
		}
		return q + " | First(2)", t
	case k < 12:
		if t == c16Nested || t == c16Map || t == c16Str || t == c16Bool || t == c16Num {
			return q + " | Last(3)", t
		}
		n := 1 + g.r.Intn(3)
		var fs []string
		for i := 0; i < n; i++ {
			fs = append(fs, g.r.Pick([]string{"a", "b", "name", "a"})+": "+g.scalar(t))
		}
		return q + " | {" + strings.Join(fs, ", ") + "}", c16Map
	case k < 13:
		if t == c16Nested || t == c16Map || t == c16Num {
			return q + " | Length", -1
		}
		return q + " | " + g.pred(t), c16Bool
	}
	return q + " | Length", -1
}

func (g *c16Gen) pipeline(depth int) (string, int) {
	q, t := g.source()
	for i := g.r.Intn(depth + 1); i > 0 && t >= 0; i-- {
		q, t = g.step(q, t)
	}
	return q, t
}

// program wraps a pipeline: plain, through variables (incl. shadowing and a variable used as a
// condition or inside an object), or as a comparison of constants.
func (g *c16Gen) program(depth int) string {
	q, t := g.pipeline(depth)
	switch g.r.Intn(10) {
	case 0:
		return "X is " + q + "; X"
	case 1:
		if t >= 0 {
			q2, _ := g.step("X", t)
			return "X are " + q + "; " + q2
		}
	case 2:
		return "X is " + q + "; X is .Families; Y is X | Length; X"
	case 3:
		if t >= 0 && t != c16Nested && t != c16Map && t != c16Num {
			return "P is " + g.pred(t) + "; " + q + " | Only(P)"
		}
	case 4:
		return g.r.Pick(c16consts) + " " + g.r.Pick(c16ops) + " " + g.r.Pick(c16consts)
	case 5:
		if t >= 0 && t != c16Nested && t != c16Map && t != c16Num {
			return "S is " + g.scalar(t) + "; " + q + " | {v: S, n: S | Length}"
		}
	}
	return q
}

// ------------------------------------------------------------ canonical JSON reader (for the oracles)

func c16parseJ(s string) (v interface{}, ok bool) {
	toks := strings.Fields(s)
	pos := 0
	var val func() (interface{}, bool)
	val = func() (interface{}, bool) {
		if pos >= len(toks) {
			return nil, false
		}
		t := toks[pos]
		pos++
		switch {
		case t == "n":
			return nil, true
		case t == "t":
			return true, true
		case t == "f":
			return false, true
		case t[0] == 'i':
			n, err := strconv.Atoi(t[1:])
			return n, err == nil
		case t[0] == 's':
			return unhex(t[1:]), true
		case t == "[":
			arr := []interface{}{}
			for pos < len(toks) && toks[pos] != "]" {
				e, ok := val()
				if !ok {
					return nil, false
				}
				arr = append(arr, e)
			}
			pos++
			return arr, true
		case t == "{":
			m := map[string]interface{}{}
			for pos < len(toks) && toks[pos] != "}" {
				k := unhex(toks[pos][1:])
				pos++
				e, ok := val()
				if !ok {
					return nil, false
				}
				m[k] = e
			}
			pos++
			return m, true
		}
		return nil, false
	}
	v, ok = val()
	return v, ok && pos == len(toks)
}

func c16items(o c15Obs) ([]string, bool) {
	// top-level array elements of the canonical JSON, each as canonical text
	if o.Top != "value" {
		return nil, false
	}
	toks := strings.Fields(o.JSON)
	if len(toks) < 2 || toks[0] != "[" {
		return nil, false
	}
	items := []string{}
	depth, start := 0, 1
	for i := 1; i < len(toks)-1; i++ {
		switch toks[i] {
		case "[", "{":
			depth++
		case "]", "}":
			depth--
		}
		if depth == 0 { // no keys at depth 0 of an array: the element is complete
			items = append(items, strings.Join(toks[start:i+1], " "))
			start = i + 1
		}
	}
	return items, true
}

func c16int(o c15Obs) (int, bool) {
	if o.Top != "value" || !strings.HasPrefix(o.JSON, "i") {
		return 0, false
	}
	n, err := strconv.Atoi(o.JSON[1:])
	return n, err == nil
}

// ------------------------------------------------------------ reference through the Go API

// c16apiRef evaluates a few query shapes by calling the gedcom API directly (no reflection, no
// package q) and renders the canonical JSON the query must produce.
var c16apiRefs = map[string]func(doc *gedcom.Document) string{
	".Individuals | .Name | .String": func(d *gedcom.Document) string {
		return c16strs(d, func(i *gedcom.IndividualNode) string { return i.Name().String() })
	},
	".Individuals | .Name | .GivenName": func(d *gedcom.Document) string {
		return c16strs(d, func(i *gedcom.IndividualNode) string { return i.Name().GivenName() })
	},
	".Individuals | .Name | .Surname": func(d *gedcom.Document) string {
		return c16strs(d, func(i *gedcom.IndividualNode) string { return i.Name().Surname() })
	},
	".Individuals | .Sex | .String": func(d *gedcom.Document) string {
		return c16strs(d, func(i *gedcom.IndividualNode) string { return i.Sex().String() })
	},
	".Individuals | .Pointer": func(d *gedcom.Document) string {
		return c16strs(d, func(i *gedcom.IndividualNode) string { return i.Pointer() })
	},
	".Individuals | Length":         func(d *gedcom.Document) string { return "i" + strconv.Itoa(len(d.Individuals())) },
	".Families | Length":            func(d *gedcom.Document) string { return "i" + strconv.Itoa(len(d.Families())) },
	".Nodes | Length":               func(d *gedcom.Document) string { return "i" + strconv.Itoa(len(d.Nodes())) },
	".Individuals | Last(2) | .Pointer": func(d *gedcom.Document) string {
		is := d.Individuals()
		if len(is) > 2 {
			is = is[len(is)-2:]
		}
		return c16strList(is, func(i *gedcom.IndividualNode) string { return i.Pointer() })
	},
	".Individuals | First(2) | .Pointer": func(d *gedcom.Document) string {
		is := d.Individuals()
		if len(is) > 2 {
			is = is[:2]
		}
		return c16strList(is, func(i *gedcom.IndividualNode) string { return i.Pointer() })
	},
	`.Individuals | Only(.Sex | .String = "Female") | .Pointer`: func(d *gedcom.Document) string {
		var keep gedcom.IndividualNodes
		for _, i := range d.Individuals() {
			if i.Sex().IsFemale() {
				keep = append(keep, i)
			}
		}
		return c16strList(keep, func(i *gedcom.IndividualNode) string { return i.Pointer() })
	},
	`.Individuals | NodesWithTagPath("BIRT", "DATE") | Length`: func(d *gedcom.Document) string {
		n := 0
		for _, i := range d.Individuals() {
			n += len(gedcom.NodesWithTagPath(i, gedcom.TagBirth, gedcom.TagDate))
		}
		return "i" + strconv.Itoa(n)
	},
	".Individuals | .Names | Length": func(d *gedcom.Document) string { return "i" + strconv.Itoa(len(d.Individuals())) },
	".Individuals | .String": func(d *gedcom.Document) string {
		return c16strs(d, func(i *gedcom.IndividualNode) string { return i.String() })
	},
	".Individuals | .Birth | .String": func(d *gedcom.Document) string {
		return c16strs(d, func(i *gedcom.IndividualNode) string { b, _ := i.Birth(); return b.String() })
	},
	".Individuals | .IsLiving": func(d *gedcom.Document) string {
		var sb strings.Builder
		sb.WriteString("[ ")
		for _, i := range d.Individuals() {
			if i.IsLiving() {
				sb.WriteString("t ")
			} else {
				sb.WriteString("f ")
			}
		}
		sb.WriteString("]")
		return strings.ReplaceAll(sb.String(), "[ ]", "[  ]")
	},
	".Individuals | {s: .Spouses | Length, f: .Families | Length, p: .Parents | Length}": func(d *gedcom.Document) string {
		var sb strings.Builder
		sb.WriteString("[ ")
		for _, i := range d.Individuals() {
			fmt.Fprintf(&sb, "{ k%s i%d k%s i%d k%s i%d } ", hexs("f"), len(i.Families()), hexs("p"), len(i.Parents()), hexs("s"), len(i.Spouses()))
		}
		sb.WriteString("]")
		return strings.ReplaceAll(sb.String(), "[ ]", "[  ]")
	},
	".Families | .Children | Length": func(d *gedcom.Document) string { return "i" + strconv.Itoa(len(d.Families())) },
	// round 4: the widened menu, recomputed through the Go API
	".Individuals | .EstimatedBirthDate | .String": func(d *gedcom.Document) string {
		return c16strs(d, func(i *gedcom.IndividualNode) string { b, _ := i.EstimatedBirthDate(); return b.String() })
	},
	".Individuals | .EstimatedDeathDate | .Value": func(d *gedcom.Document) string {
		return c16strs(d, func(i *gedcom.IndividualNode) string { b, _ := i.EstimatedDeathDate(); return b.Value() })
	},
	".Individuals | .Identifier": func(d *gedcom.Document) string {
		return c16strs(d, func(i *gedcom.IndividualNode) string { return i.Identifier() })
	},
	".Individuals | .Name | .Prefix": func(d *gedcom.Document) string {
		return c16strs(d, func(i *gedcom.IndividualNode) string { return i.Name().Prefix() })
	},
	".Individuals | .Name | .Suffix": func(d *gedcom.Document) string {
		return c16strs(d, func(i *gedcom.IndividualNode) string { return i.Name().Suffix() })
	},
	".Individuals | .Tag | .String": func(d *gedcom.Document) string {
		return c16strs(d, func(i *gedcom.IndividualNode) string { return i.Tag().String() })
	},
	".Individuals | .Birth | .StartDate | .String": func(d *gedcom.Document) string {
		return c16strs(d, func(i *gedcom.IndividualNode) string { b, _ := i.Birth(); return b.StartDate().String() })
	},
	".Individuals | .Birth | .EndDate | .Year": func(d *gedcom.Document) string {
		var sb strings.Builder
		sb.WriteString("[ ")
		for _, i := range d.Individuals() {
			b, _ := i.Birth()
			fmt.Fprintf(&sb, "i%d ", b.EndDate().Year)
		}
		sb.WriteString("]")
		return strings.ReplaceAll(sb.String(), "[ ]", "[  ]")
	},
	".Individuals | .Death | .StartDate | .Month": func(d *gedcom.Document) string {
		var sb strings.Builder
		sb.WriteString("[ ")
		for _, i := range d.Individuals() {
			b, _ := i.Death()
			fmt.Fprintf(&sb, "i%d ", int(b.StartDate().Month))
		}
		sb.WriteString("]")
		return strings.ReplaceAll(sb.String(), "[ ]", "[  ]")
	},
	".Individuals | {e: .AllEvents | Length, u: .UniqueIDs | Length, b: .LDSBaptisms | Length}": func(d *gedcom.Document) string {
		var sb strings.Builder
		sb.WriteString("[ ")
		for _, i := range d.Individuals() {
			fmt.Fprintf(&sb, "{ k%s i%d k%s i%d k%s i%d } ", hexs("b"), len(i.LDSBaptisms()), hexs("e"), len(i.AllEvents()), hexs("u"), len(i.UniqueIDs()))
		}
		sb.WriteString("]")
		return strings.ReplaceAll(sb.String(), "[ ]", "[  ]")
	},
	".Sources | Length": func(d *gedcom.Document) string { return "i" + strconv.Itoa(len(d.Sources())) },
	".Sources | .Title": func(d *gedcom.Document) string {
		var sb strings.Builder
		sb.WriteString("[ ")
		for _, x := range d.Sources() {
			sb.WriteString("s" + hexs(x.Title()) + " ")
		}
		sb.WriteString("]")
		return strings.ReplaceAll(sb.String(), "[ ]", "[  ]")
	},
	".Individuals | .RawSimpleNode | .Pointer": func(d *gedcom.Document) string {
		return c16strs(d, func(i *gedcom.IndividualNode) string { return i.RawSimpleNode().Pointer() })
	},
	".Individuals | {p: .Pointer, n: .Names | Length}": func(d *gedcom.Document) string {
		var sb strings.Builder
		sb.WriteString("[ ")
		for _, i := range d.Individuals() {
			fmt.Fprintf(&sb, "{ k%s i%d k%s s%s } ", hexs("n"), len(i.Names()), hexs("p"), hexs(i.Pointer()))
		}
		sb.WriteString("]")
		return strings.ReplaceAll(sb.String(), "[ ]", "[  ]")
	},
}

func c16strList(is gedcom.IndividualNodes, f func(*gedcom.IndividualNode) string) string {
	var sb strings.Builder
	sb.WriteString("[ ")
	for _, i := range is {
		sb.WriteString("s" + hexs(f(i)) + " ")
	}
	sb.WriteString("]")
	return strings.ReplaceAll(sb.String(), "[ ]", "[  ]")
}

func c16strs(d *gedcom.Document, f func(*gedcom.IndividualNode) string) string {
	return c16strList(d.Individuals(), f)
}

// ------------------------------------------------------------ laws checked on the implementation (S)

// c16Law is one algebraic law instance: the queries it needs are a function of a (shrinkable)
// base expression and a parameter, the verdict is a function of their observations.
type c16Law struct {
	Kind  string
	Expr  string // base expression E
	Param string
	Doc   int
}

const c16sep = "\x00"

func (l c16Law) queries() []string {
	e := l.Expr
	ps := strings.Split(l.Param, c16sep)
	switch l.Kind {
	case "first", "last":
		fn := "First"
		if l.Kind == "last" {
			fn = "Last"
		}
		qs := []string{e}
		for k := 0; k <= 8; k++ {
			qs = append(qs, fmt.Sprintf("%s | %s(%d)", e, fn, k))
		}
		return qs
	case "length":
		return []string{e, e + " | Length"}
	case "combine":
		return []string{e + " | Length", "Combine(" + e + ", " + e + ") | Length", e, "Combine(" + e + ", " + e + ")"}
	case "inline":
		return []string{e, "V is " + e + "; V", "V is " + e + "; W is V; W"}
	case "deterministic":
		return []string{e, e}
	case "partition": // Param: lhs, constant
		return []string{e, e + " | Only(" + ps[0] + " = " + ps[1] + ")", e + " | Only(" + ps[0] + " != " + ps[1] + ")"}
	case "threeway": // Param: lhs, constant
		return []string{e, e + " | Only(" + ps[0] + " < " + ps[1] + ")", e + " | Only(" + ps[0] + " = " + ps[1] + ")", e + " | Only(" + ps[0] + " > " + ps[1] + ")"}
	case "operators": // Param: left, right
		var qs []string
		for _, op := range c16ops {
			qs = append(qs, ps[0]+" "+op+" "+ps[1])
		}
		return qs
	case "opref": // Param: left, right (raw strings) — the six operators on two literals
		var qs []string
		for _, op := range c16ops {
			qs = append(qs, c16lit(ps[0])+" "+op+" "+c16lit(ps[1]))
		}
		return qs
	case "onlyref": // Param: lhs statement, projection stage, operator, constant, expected canonical JSON
		return []string{e + " | Only(" + ps[0] + " " + ps[2] + " " + c16lit(ps[3]) + ") | " + ps[1]}
	case "apiref": // Expr: the whole query; Param: expected canonical JSON, what is compared
		return []string{e}
	case "threewayL": // Param: accessor, constant — the constant on the LEFT of the operator
		return []string{e, e + " | Only(" + ps[1] + " < " + ps[0] + ")", e + " | Only(" + ps[1] + " = " + ps[0] + ")", e + " | Only(" + ps[1] + " > " + ps[0] + ")"}
	case "shadow": // the first definition of a name wins; DocumentN cannot be redefined
		return []string{e, "X is " + e + "; X is .Families | Length; X", "X is " + e + "; X is 1; Y is X; Y",
			"Document1 | .Nodes | Length", "Document1 is .Families | First(1); Document1 | .Nodes | Length"}
	case "inlinepos": // Param: scalar, predicate — a reference after a pipe, in an object field, in Only(…)
		return []string{
			e + " | " + ps[0], "S is " + ps[0] + "; " + e + " | S",
			e + " | {who: " + ps[0] + "}", "S is " + ps[0] + "; " + e + " | {who: S}",
			e + " | Only(" + ps[1] + ")", "P is " + ps[1] + "; " + e + " | Only(P)",
			e + " | Length", "Count is Length; " + e + " | Count",
			e + " | First(2) | {n: " + ps[0] + " | Length, k: Length}", "N is " + ps[0] + " | Length; K is Length; " + e + " | First(2) | {n: N, k: K}"}
	case "concat": // Param: three First() counts — different arguments that alias the same source
		a := []string{e + " | First(" + ps[0] + ")", e + " | First(" + ps[1] + ")", e + " | Last(" + ps[2] + ")"}
		c := "Combine(" + strings.Join(a, ", ") + ")"
		return []string{a[0], a[1], a[2], c, e, "C is " + c + "; " + e, "C is " + c + "; D is " + c + "; " + e + " | Length", e + " | Length"}
	}
	return nil
}

// verdict: what failed ("" = the law holds or does not apply), observed, expected.
func (l c16Law) verdict(o []c15Obs) (what, observed, expected string) {
	min := func(a, b int) int {
		if a < b {
			return a
		}
		return b
	}
	line := func(k int) string { return o[k].line("j") }
	switch l.Kind {
	case "first", "last":
		items, ok := c16items(o[0])
		if !ok {
			return // the base is not a (non-nil) list
		}
		for k := 0; k <= 8; k++ {
			got, ok := c16items(o[1+k])
			want := items[:min(k, len(items))]
			what = "First(n) is not the prefix of length min(n, len)"
			if l.Kind == "last" {
				want = items[len(items)-min(k, len(items)):]
				what = "Last(n) is not the suffix of length min(n, len)"
			}
			if !ok || strings.Join(got, " ") != strings.Join(want, " ") {
				return fmt.Sprintf("%s (n = %d, len = %d)", what, k, len(items)), o[1+k].Top + " " + o[1+k].JSON, "[ " + strings.Join(want, " ") + " ]"
			}
		}
		return "", "", ""
	case "length":
		items, ok := c16items(o[0])
		if !ok {
			return
		}
		if n, ok := c16int(o[1]); !ok || n != len(items) {
			return "Length is not the number of elements", o[1].Top + " " + o[1].JSON, "i" + strconv.Itoa(len(items))
		}
	case "combine":
		n, ok := c16int(o[0])
		items, ok2 := c16items(o[2])
		if !ok || !ok2 {
			return
		}
		if m, ok := c16int(o[1]); !ok || m != 2*n {
			return "Combine(E, E) | Length is not twice E | Length", o[1].Top + " " + o[1].JSON, "i" + strconv.Itoa(2*n)
		}
		if both, ok := c16items(o[3]); !ok || strings.Join(both, " ") != strings.Join(append(append([]string{}, items...), items...), " ") {
			return "Combine(E, E) is not E followed by E", o[3].Top + " " + o[3].JSON, "E ++ E"
		}
	case "inline":
		for k := 1; k <= 2; k++ {
			if line(k) != line(0) {
				return "a variable is not interchangeable with its definition", line(k), line(0)
			}
		}
	case "deterministic":
		if line(1) != line(0) {
			return "the same query on the same document gave two results", line(1), line(0)
		}
	case "apiref":
		ps := strings.Split(l.Param, c16sep)
		if o[0].Top != "value" || o[0].JSON != ps[0] {
			return ps[1], o[0].Top + " " + o[0].JSON, ps[0]
		}
	case "partition", "threeway", "threewayL":
		items, ok := c16items(o[0])
		if !ok {
			return
		}
		var parts [][]string
		for k := 1; k < len(o); k++ {
			p, ok := c16items(o[k])
			if !ok {
				for j := 1; j < len(o); j++ {
					if o[j].Top != o[k].Top {
						return "the complementary Only(…) filters do not fail together", o[j].Top + " / " + o[k].Top, "same outcome"
					}
				}
				return
			}
			parts = append(parts, p)
		}
		// order-preserving split: every element of E is the next element of exactly one part
		pos := make([]int, len(parts))
		total := 0
		for _, p := range parts {
			total += len(p)
		}
		good := total == len(items)
		for _, it := range items {
			if !good {
				break
			}
			found := false
			for k, p := range parts {
				if pos[k] < len(p) && p[pos[k]] == it {
					pos[k]++
					found = true
					break
				}
			}
			good = found
		}
		if !good {
			var lens []string
			for _, p := range parts {
				lens = append(lens, strconv.Itoa(len(p)))
			}
			what = "Only(p) and Only(not p) do not partition the list in order"
			if l.Kind == "threeway" {
				what = "Only(x < c), Only(x = c), Only(x > c) do not partition the list in order"
			}
			if l.Kind == "threewayL" {
				what = "Only(c < x), Only(c = x), Only(c > x) (constant on the left) do not partition the list in order"
			}
			return what, strings.Join(lens, " + ") + " of " + strconv.Itoa(len(items)), "an order-preserving split"
		}
	case "operators":
		var b [6]bool
		for k := 0; k < 6; k++ {
			switch o[k].JSON {
			case "t":
				b[k] = true
			case "f":
			default:
				return "a comparison of two constants is not a bool", line(k), "t | f"
			}
		}
		eq, ne, gt, ge, lt, le := b[0], b[1], b[2], b[3], b[4], b[5]
		n := 0
		for _, x := range []bool{lt, eq, gt} {
			if x {
				n++
			}
		}
		obsS := fmt.Sprintf("= %v, != %v, > %v, >= %v, < %v, <= %v", eq, ne, gt, ge, lt, le)
		if ne == eq {
			return "!= is not the negation of =", obsS, "!= is not ="
		}
		if n != 1 {
			return "not exactly one of <, =, > holds", obsS, "exactly one"
		}
		if ge != (gt || eq) || le != (lt || eq) {
			return ">= / <= are not > or = / < or =", obsS, "consistent"
		}
	case "opref":
		ps := strings.Split(l.Param, c16sep)
		for k, op := range c16ops {
			want := "f"
			if c16refCompare(ps[0], ps[1], op) {
				want = "t"
			}
			if o[k].Top != "value" || o[k].JSON != want {
				return "a comparison differs from the reference (numeric iff strconv.ParseFloat accepts both sides and neither is NaN, else lower-cased trimmed text)",
					fmt.Sprintf("%q %s %q: %s %s", ps[0], op, ps[1], o[k].Top, o[k].JSON), want
			}
		}
	case "onlyref":
		ps := strings.Split(l.Param, c16sep)
		if o[0].Top != "value" || o[0].JSON != ps[4] {
			return "Only(x op c) over document values differs from filtering with the reference comparison", o[0].Top + " " + o[0].JSON, ps[4]
		}
	case "shadow":
		for k := 1; k <= 2; k++ {
			if line(k) != line(0) {
				return "a later definition of the same name is used instead of the first one", line(k), line(0)
			}
		}
		if line(4) != line(3) {
			return "a statement named DocumentN replaces the document variable", line(4), line(3)
		}
	case "inlinepos":
		names := []string{"after a pipe", "inside an object field", "inside Only(…)", "as Length after a pipe", "twice inside an object"}
		for k := 0; k+1 < len(o); k += 2 {
			if line(k+1) != line(k) {
				return "a variable referenced " + names[k/2] + " is not interchangeable with its definition", line(k + 1), line(k)
			}
		}
	case "concat":
		var all []string
		for k := 0; k < 3; k++ {
			p, ok := c16items(o[k])
			if !ok {
				return
			}
			all = append(all, p...)
		}
		if got, ok := c16items(o[3]); !ok || strings.Join(got, " ") != strings.Join(all, " ") {
			return "Combine(A, B, C) is not A followed by B followed by C", o[3].Top + " " + o[3].JSON, "[ " + strings.Join(all, " ") + " ]"
		}
		if line(5) != line(4) {
			return "evaluating a Combine changes what its source evaluates to afterwards", line(5), line(4)
		}
		if n, ok := c16int(o[7]); ok {
			if m, ok2 := c16int(o[6]); !ok2 || m != n {
				return "evaluating a Combine twice changes the length of its source", line(6), line(7)
			}
		}
	}
	return "", "", ""
}

// c16lit writes an operand as a literal: digits-only operands sometimes as a bare number token.
func c16lit(s string) string {
	if strings.HasPrefix(s, "#") { // "#123": the bare number token 123
		return s[1:]
	}
	return `"` + s + `"`
}

func c16litValue(s string) string { return strings.TrimPrefix(s, "#") }

// c16refCompare is the reference semantics of the six operators on two rendered operands, written
// against strconv / strings directly (not package q): numeric iff strconv.ParseFloat accepts both
// sides as they are and neither is NaN; otherwise lower-cased, trimmed text in byte order.
func c16refCompare(l, r, op string) bool {
	l, r = c16litValue(l), c16litValue(r)
	fl, el := strconv.ParseFloat(l, 64)
	fr, er := strconv.ParseFloat(r, 64)
	var lt, eq bool
	if el == nil && er == nil && !math.IsNaN(fl) && !math.IsNaN(fr) {
		lt, eq = fl < fr, fl == fr
	} else {
		a, b := strings.TrimSpace(strings.ToLower(l)), strings.TrimSpace(strings.ToLower(r))
		lt, eq = a < b, a == b
	}
	switch op {
	case "=":
		return eq
	case "!=":
		return !eq
	case "<":
		return lt
	case "<=":
		return lt || eq
	case ">":
		return !lt && !eq
	case ">=":
		return !lt
	}
	return false
}

// numeric-looking operands: leading zeros (octal look-alikes), base prefixes, underscores,
// exponents and decimals, signs and padding, Inf / NaN, hexadecimal floats, integers beyond 2^53
// and 2^63, next to a few plain words.  "#…" = written as a bare number token.
var c16numWords = []string{"007", "010", "012", "08", "09", "00", "0", "-010", "8", "10", "#010", "#10", "#8", "#007", "16", "3", "0x10", "0X1f", "0x1p4", "0x1p-2", "0x.8p1",
	"0x1_0p0", "0x_1p4", "0x1p", "0b11", "0o17", "017", "1_000", "1000", "1__0", "_1", "1_", "1e3", "1E3", "1e1_0", "1.0", "1", ".5", "5.", "0.5", "0.25", "+5", "5", "-5", " 5 ", "5 ",
	"Inf", "-inf", "+Infinity", "infinit", "NaN", "nan", "+nan", "1e400", "1e-400", "9007199254740993", "9007199254740992", "9223372036854775808", "9223372036854775807",
	"123456789012345678", "1.5", "1,5", "", " ", "x", "I1", "0x", ".", "e3", "1e", "-", "--5", "0e0", "-0",
	"@", "/", ",", "\xff", "\xc3(", "000", "\xc3\xa9\xc3\xa9"}

// c16numericDocs: individuals whose pointers and names are numeric-looking strings.
func c16numericDocs() [][]*TNode {
	var ptrs []string
	for _, w := range c16numWords {
		w = c16litValue(w)
		if w == "" || strings.ContainsAny(w, " @,/") || !utf8.ValidString(w) { // JSON replaces invalid UTF-8: literals only
			continue
		}
		if _, ok := c15mkDoc([]*TNode{T("INDI", "", w)}); ok {
			ptrs = append(ptrs, w)
		}
	}
	var docs [][]*TNode
	for d := 0; d*12 < len(ptrs); d++ {
		var f []*TNode
		for i := d * 12; i < len(ptrs) && i < d*12+12; i++ {
			given := ptrs[(i*7+3)%len(ptrs)]
			f = append(f, T("INDI", "", ptrs[i], T("NAME", given+" /"+ptrs[(i*5+1)%len(ptrs)]+"/", "")))
		}
		docs = append(docs, f)
	}
	return docs
}

// c16candidates: smaller variants of a query — one statement or one pipeline stage dropped
// (split only at top level: not inside brackets, braces or strings).
func c16candidates(q string) []string {
	split := func(s, sep string) []string {
		var parts []string
		depth, inStr, start := 0, false, 0
		for i := 0; i < len(s); i++ {
			switch c := s[i]; {
			case c == '"':
				inStr = !inStr
			case inStr:
			case c == '(' || c == '{':
				depth++
			case c == ')' || c == '}':
				depth--
			case depth == 0 && strings.HasPrefix(s[i:], sep):
				parts = append(parts, s[start:i])
				start = i + len(sep)
				i += len(sep) - 1
			}
		}
		return append(parts, s[start:])
	}
	var out []string
	stmts := split(q, "; ")
	if len(stmts) > 1 {
		for i := range stmts {
			out = append(out, strings.Join(append(append([]string{}, stmts[:i]...), stmts[i+1:]...), "; "))
		}
	}
	for si, st := range stmts {
		stages := split(st, " | ")
		if len(stages) < 2 {
			continue
		}
		for i := range stages {
			if i == 0 && strings.Contains(stages[0], " is ") {
				continue
			}
			ns := strings.Join(append(append([]string{}, stages[:i]...), stages[i+1:]...), " | ")
			all := append(append(append([]string{}, stmts[:si]...), ns), stmts[si+1:]...)
			out = append(out, strings.Join(all, "; "))
		}
	}
	return out
}

// c16shrink: greedy delta debugging while the law still fails on the implementation (each attempt
// is evaluated in a child process): first the base expression (drop statements / pipeline
// stages), then the document (drop root records, then second-level nodes).
func c16shrink(pool *[]*c15Doc, l c16Law) c16Law {
	fails := func(x c16Law) bool {
		var jobs []c15Job
		for _, q := range x.queries() {
			jobs = append(jobs, c15Job{q, []int{x.Doc}, "j"})
		}
		what, _, _ := x.verdict(c15runJobs(*pool, jobs, 20*time.Second))
		return what != ""
	}
	for round := 0; round < 12 && l.Expr != ""; round++ {
		progress := false
		for _, cand := range c16candidates(l.Expr) {
			x := l
			x.Expr = cand
			if cand != "" && fails(x) {
				l, progress = x, true
				break
			}
		}
		if !progress {
			break
		}
	}
	attempts := 0
	tryDoc := func(f []*TNode) bool {
		attempts++
		d, ok := c15mkDoc(f)
		if !ok {
			return false
		}
		*pool = append(*pool, d)
		x := l
		x.Doc = len(*pool) - 1
		if fails(x) {
			l = x
			return true
		}
		*pool = (*pool)[:len(*pool)-1]
		return false
	}
	for progress := true; progress && attempts < 60; {
		progress = false
		f := (*pool)[l.Doc].Forest
		for i := range f {
			if tryDoc(append(append([]*TNode{}, f[:i]...), f[i+1:]...)) {
				progress = true
				break
			}
		}
		if progress {
			continue
		}
		for i, root := range f {
			for k := range root.Kids {
				nr := &TNode{root.Tag, root.Value, root.Ptr, append(append([]*TNode{}, root.Kids[:k]...), root.Kids[k+1:]...)}
				nf := append(append(append([]*TNode{}, f[:i]...), nr), f[i+1:]...)
				if attempts < 60 && tryDoc(nf) {
					progress = true
					break
				}
			}
			if progress {
				break
			}
		}
	}
	return l
}

// operands whose upper/lower/fold forms disagree: final sigma, dotted and dotless i, long s, micro
// sign vs mu, sharp s, Kelvin sign, composed vs combining accents, titlecase digraphs, Ohm sign
var c16foldWords = []string{"\u039d\u038a\u039a\u039f\u03a3", "\u039d\u03af\u03ba\u03bf\u03c2", "\u03bd\u03af\u03ba\u03bf\u03c2", "\u03bd\u03af\u03ba\u03bf\u03c3",
	"\u0130smail", "ismail", "\u0131smail", "Ismail", "\u017f", "S", "s", "\u00b5", "\u03bc", "\u039c", "\u00df", "\u1e9e", "SS", "ss",
	"\u212a", "K", "k", "\u00e9", "e\u0301", "\u00c9", "Stra\u00dfe", "STRASSE", "\u01c5", "\u01c6", "\u01c4", "\u0390", "\u1fd3", "\u03a9", "\u03c9", "\u2126"}

func c16unicodeDocs(r *Rand) [][]*TNode {
	var docs [][]*TNode
	for d := 0; d < 3; d++ {
		var f []*TNode
		for i := 0; i < 7; i++ {
			f = append(f, T("INDI", "", fmt.Sprintf("I%d", i+1), T("NAME", r.Pick(c16foldWords)+" /"+r.Pick(c16foldWords)+"/", "")))
		}
		docs = append(docs, f)
	}
	return docs
}

// ------------------------------------------------------------ the property run

func init() {
	runners["C16"] = func(c *Ctx) {
		c.Rule = "well-typed queries from a typed grammar over the modelled menu (accessor chains on Document/Individual/Family/Husband/Wife/Child/Name/Sex/Tag/events/Date/Place, First/Last with 0..8, Length, Only, Combine, NodesWithTagPath, objects, variables incl. shadowing, six operators over numeric/text/mixed operands) × random family-graph documents (0–6 individuals, faulty references, Unicode names); observation = JSON-normalised result; distinct = (outcome, Go type, query shape)"
		r := c.R
		pool := c15docPool(c, r.Fork("docs"), c.N(40, 300), 6)
		uniStart := len(pool)
		for _, f := range c16unicodeDocs(r.Fork("unicode")) {
			if d, ok := c15mkDoc(f); ok {
				pool = append(pool, d)
			}
		}
		uniDocs := len(pool) - uniStart
		numStart := len(pool)
		for _, f := range c16numericDocs() {
			if d, ok := c15mkDoc(f); ok {
				pool = append(pool, d)
			}
		}
		numDocs := len(pool) - numStart
		g := &c16Gen{r: r.Fork("grammar")}
		var jobs []c15Job
		type lawRun struct {
			law c16Law
			idx []int
		}
		var laws []lawRun
		add := func(q string, doc int) int {
			jobs = append(jobs, c15Job{q, []int{doc}, "j"})
			return len(jobs) - 1
		}
		addLaw := func(l c16Law) {
			var idx []int
			for _, q := range l.queries() {
				idx = append(idx, add(q, l.Doc))
			}
			laws = append(laws, lawRun{l, idx})
		}
		// 1. generated programs (correspondence with the model)
		for i := c.N(34000, 300000); i > 0; i-- {
			add(g.program(4), g.r.Intn(len(pool)))
			c.Count("source=grammar")
		}
		// 2. algebraic laws on the implementation
		ra := r.Fork("algebra")
		ga := &c16Gen{r: ra}
		nAlg := c.N(1800, 20000)
		for i := 0; i < nAlg; i++ {
			depth := 3
			if i < 400 {
				depth = 1 // simple expressions first: the first recorded failing input is a small one
			}
			e, t := ga.pipeline(depth)
			if t < 0 {
				continue
			}
			d := ra.Intn(len(pool))
			for _, k := range []string{"first", "last", "length", "combine", "inline", "deterministic", "shadow"} {
				addLaw(c16Law{k, e, "", d})
			}
			addLaw(c16Law{"concat", e, strconv.Itoa(ra.Intn(4)) + c16sep + strconv.Itoa(ra.Intn(4)) + c16sep + strconv.Itoa(ra.Intn(4)), d})
			if t != c16Nested && t != c16Map && t != c16Num {
				sc := ga.scalar(t)
				for c16listValued(sc) { // the law is about a condition that is a bool per element
					sc = ga.scalar(t)
				}
				k := ra.Pick(c16consts)
				lhs := sc
				if strings.HasSuffix(sc, "| Length") {
					lhs = sc + " | Length"
				}
				addLaw(c16Law{"partition", e, lhs + c16sep + k, d})
				addLaw(c16Law{"threeway", e, lhs + c16sep + k, d})
			}
			{
				// every statement is also evaluated on the document itself, so the definitions are ones
				// that a document accepts as well (Length, .String, .Nodes) but that depend on their input
				sc := ra.Pick([]string{"Length", ".String", ".Nodes | Length", ".String | Length", "First(1) | Length"})
				pr := ra.Pick([]string{".String = " + ra.Pick(c16consts), ".String < " + ra.Pick(c16consts), "Length = 1", ".Nodes | Length | Length = 1", ".String != \"(no name)\""})
				addLaw(c16Law{"inlinepos", e, sc + c16sep + pr, d})
			}
			c.Count("source=algebra")
		}
		// Combine over sub-slices of the cached lists of the document (aliasing)
		for i := c.N(300, 3000); i > 0; i-- {
			e := ra.Pick([]string{".Families", ".Nodes", ".Individuals", ".Individuals | .Name", ".Families | .Husband"})
			addLaw(c16Law{"concat", e, strconv.Itoa(ra.Intn(3)) + c16sep + strconv.Itoa(ra.Intn(4)) + c16sep + strconv.Itoa(ra.Intn(4)), ra.Intn(len(pool))})
		}
		// 3. operator laws on constant operands: ASCII numeric / text / mixed, and case-folding oddities
		ro := r.Fork("ops")
		for i := c.N(1500, 20000); i > 0; i-- {
			l, rr := ro.Pick(c16consts), ro.Pick(c16consts)
			addLaw(c16Law{"operators", "", l + c16sep + rr, 0})
			c.Count("source=operators")
		}
		for _, a := range c16foldWords {
			for _, b := range c16foldWords {
				addLaw(c16Law{"operators", "", `"` + a + `"` + c16sep + `"` + b + `"`, 0})
				c.Count("source=operators-unicode")
			}
		}
		for d := uniStart; d < uniStart+uniDocs; d++ {
			for _, w := range c16foldWords {
				for _, lhs := range []string{".Name | .GivenName", ".Name | .Surname"} {
					addLaw(c16Law{"threeway", ".Individuals", lhs + c16sep + `"` + w + `"`, d})
					addLaw(c16Law{"partition", ".Individuals", lhs + c16sep + `"` + w + `"`, d})
				}
			}
		}
		// numeric-looking operands: every pair as literals against the reference comparison, and the
		// number grammar of the model against the operator functions themselves (qnum)
		for _, a := range c16numWords {
			for _, b := range c16numWords {
				if strings.Contains(a+b, "\"") {
					continue
				}
				addLaw(c16Law{"opref", "", a + c16sep + b, 0})
				addLaw(c16Law{"operators", "", c16lit(a) + c16sep + c16lit(b), 0})
				c.Count("source=operators-numeric")
				for _, op := range q.Operators {
					res, _ := op.Function(c16litValue(a), c16litValue(b))
					c.Tie("qnum "+op.Name+" "+hexs(c16litValue(a))+" "+hexs(c16litValue(b)), bit(res))
				}
			}
		}
		// … and as document values: Only(x op c) over pointers / given names / surnames
		rn := r.Fork("numeric-docs")
		for d := numStart; d < numStart+numDocs; d++ {
			doc, err := gedcom.NewDocumentFromString(pool[d].Text)
			if err != nil {
				continue
			}
			for i := c.N(140, 1500); i > 0; i-- {
				k := rn.Intn(3)
				lhs := []string{".Pointer", ".Name | .GivenName", ".Name | .Surname"}[k]
				op, cst := rn.Pick(c16ops), rn.Pick(c16numWords)
				var sb strings.Builder
				sb.WriteString("[ ")
				for _, ind := range doc.Individuals() {
					v := []string{ind.Pointer(), ind.Name().GivenName(), ind.Name().Surname()}[k]
					if c16refCompare(v, cst, op) {
						sb.WriteString("s" + hexs(v) + " ")
					}
				}
				sb.WriteString("]")
				want := strings.ReplaceAll(sb.String(), "[ ]", "[  ]")
				addLaw(c16Law{"onlyref", ".Individuals", strings.Join([]string{lhs, lhs, op, cst, want}, c16sep), d})
				addLaw(c16Law{"threeway", ".Individuals", lhs + c16sep + c16lit(cst), d})
				// the same with the constant on the left: c op x  (x through a variable, so that a
				// pipeline can stand on the right of the operator)
				sb.Reset()
				sb.WriteString("[ ")
				for _, ind := range doc.Individuals() {
					v := []string{ind.Pointer(), ind.Name().GivenName(), ind.Name().Surname()}[k]
					if c16refCompare(cst, v, op) {
						sb.WriteString("s" + hexs(v) + " ")
					}
				}
				sb.WriteString("]")
				wantL := strings.ReplaceAll(sb.String(), "[ ]", "[  ]")
				baseL := []string{".Individuals", ".Individuals | .Name", ".Individuals | .Name"}[k]
				accL := []string{".Pointer", ".GivenName", ".Surname"}[k]
				addLaw(c16Law{"apiref", baseL + " | Only(" + c16lit(cst) + " " + op + " " + accL + ") | " + accL,
					wantL + c16sep + "Only(c op x) with the constant on the left differs from filtering with the reference comparison", d})
				addLaw(c16Law{"threewayL", baseL, accL + c16sep + c16lit(cst), d})
			}
		}
		// interface-typed lists (.Nodes, NodesWithTagPath, .AllEvents, .Warnings) and left constants on
		// the ordinary documents: Only(…) against a filter computed through the Go API
		ri := r.Fork("iface")
		for d := 0; d < len(pool) && d < numStart; d++ {
			doc, err := gedcom.NewDocumentFromString(pool[d].Text)
			if err != nil {
				continue
			}
			func() {
				defer func() { recover() }() // an API call that panics on a faulty document: no reference for it
				op, cst := ri.Pick(c16ops), ri.Pick([]string{"I1", "I2", "F1", "i1", "", "S1", "I3"})
				var sb strings.Builder
				n := 0
				sb.WriteString("[ ")
				for _, nd := range doc.Nodes() {
					if c16refCompare(nd.Pointer(), cst, op) {
						sb.WriteString("{ k" + hexs("p") + " s" + hexs(nd.Pointer()) + " } ")
					}
					if nd.Tag().Tag() == "INDI" {
						n++
					}
				}
				sb.WriteString("]")
				addLaw(c16Law{"apiref", ".Nodes | Only(.Pointer " + op + " " + c16lit(cst) + ") | {p: .Pointer}",
					strings.ReplaceAll(sb.String(), "[ ]", "[  ]") + c16sep + "Only(…) over .Nodes (interface-typed list) differs from filtering Document.Nodes() through the Go API", d})
				addLaw(c16Law{"apiref", ".Nodes | Only(.Tag | .Tag = \"INDI\") | Length", "i" + strconv.Itoa(n) + c16sep + "Only(…) over .Nodes differs from counting through the Go API", d})
				addLaw(c16Law{"partition", ".Nodes", ".Pointer" + c16sep + c16lit(cst), d})
				// NodesWithTagPath
				op2, cst2 := ri.Pick(c16ops), ri.Pick(c15dates)
				sb.Reset()
				sb.WriteString("[ ")
				for _, ind := range doc.Individuals() {
					for _, nd := range gedcom.NodesWithTagPath(ind, gedcom.TagBirth, gedcom.TagDate) {
						if c16refCompare(nd.Value(), cst2, op2) {
							sb.WriteString("{ k" + hexs("v") + " s" + hexs(nd.Value()) + " } ")
						}
					}
				}
				sb.WriteString("]")
				addLaw(c16Law{"apiref", ".Individuals | NodesWithTagPath(\"BIRT\", \"DATE\") | Only(.Value " + op2 + " " + c16lit(cst2) + ") | {v: .Value}",
					strings.ReplaceAll(sb.String(), "[ ]", "[  ]") + c16sep + "Only(…) over NodesWithTagPath(…) differs from filtering through the Go API", d})
				addLaw(c16Law{"partition", ".Individuals | NodesWithTagPath(\"BIRT\", \"DATE\")", ".Value" + c16sep + c16lit(cst2), d})
				// AllEvents of each individual
				sb.Reset()
				sb.WriteString("[ ")
				for _, ind := range doc.Individuals() {
					k := 0
					for _, ev := range ind.AllEvents() {
						if ev.Tag().Tag() == "BIRT" {
							k++
						}
					}
					sb.WriteString("{ k" + hexs("e") + " i" + strconv.Itoa(k) + " } ")
				}
				sb.WriteString("]")
				addLaw(c16Law{"apiref", ".Individuals | {e: .AllEvents | Only(.Tag | .Tag = \"BIRT\") | Length}",
					strings.ReplaceAll(sb.String(), "[ ]", "[  ]") + c16sep + "Only(…) over .AllEvents differs from counting through the Go API", d})
				// struct FIELDS applied to a list map over its elements like methods do: []gedcom.Date
				// (.Year / .Day / .Month / .Constraint) and []gedcom.Age (.IsKnown / .IsEstimate /
				// .Constraint), expected values through the Go API
				{
					ints := func(f func(*gedcom.IndividualNode) string) string {
						var b strings.Builder
						b.WriteString("[ ")
						for _, ind := range doc.Individuals() {
							b.WriteString(f(ind) + " ")
						}
						b.WriteString("]")
						return strings.ReplaceAll(b.String(), "[ ]", "[  ]")
					}
					what := "a field accessor applied to a list does not map over its elements in order"
					for _, end := range []string{"StartDate", "EndDate"} {
						get := func(ind *gedcom.IndividualNode) gedcom.Date {
							b, _ := ind.Birth()
							if end == "StartDate" {
								return b.StartDate()
							}
							return b.EndDate()
						}
						addLaw(c16Law{"apiref", ".Individuals | .Birth | ." + end + " | .Year", ints(func(i *gedcom.IndividualNode) string { return "i" + strconv.Itoa(get(i).Year) }) + c16sep + what, d})
						addLaw(c16Law{"apiref", ".Individuals | .Birth | ." + end + " | .Day", ints(func(i *gedcom.IndividualNode) string { return "i" + strconv.Itoa(get(i).Day) }) + c16sep + what, d})
						addLaw(c16Law{"apiref", ".Individuals | .Birth | ." + end + " | .Month", ints(func(i *gedcom.IndividualNode) string { return "i" + strconv.Itoa(int(get(i).Month)) }) + c16sep + what, d})
						addLaw(c16Law{"apiref", ".Individuals | .Death | ." + end + " | .Constraint | Length", "i" + strconv.Itoa(len(doc.Individuals())) + c16sep + what, d})
						addLaw(c16Law{"apiref", ".Individuals | First(2) | .Birth | ." + end + " | .Year | Length", "i" + strconv.Itoa(func() int {
							if n := len(doc.Individuals()); n < 2 {
								return n
							}
							return 2
						}()) + c16sep + what, d})
					}
					bools := func(f func(gedcom.Age) bool) string {
						return ints(func(i *gedcom.IndividualNode) string {
							a, _ := i.Age()
							if f(a) {
								return "t"
							}
							return "f"
						})
					}
					addLaw(c16Law{"apiref", ".Individuals | .Age | .IsKnown", bools(func(a gedcom.Age) bool { return a.IsKnown }) + c16sep + what, d})
					addLaw(c16Law{"apiref", ".Individuals | .Age | .IsEstimate", bools(func(a gedcom.Age) bool { return a.IsEstimate }) + c16sep + what, d})
				}
				// operands whose Go type is a named integer with a String() method (time.Month,
				// DateConstraint, AgeConstraint, time.Duration): the rule compares their %v TEXT
				// ("January", "Abt.", "0s"), numerically only if that text parses as a number — against
				// number constants, numeric fields (.Day, .Year) and Length, all six operators, both orders
				{
					type operand struct {
						expr string
						text func(gedcom.Date) string
					}
					named := []operand{{".Month", func(d gedcom.Date) string { return fmt.Sprintf("%v", d.Month) }},
						{".Constraint", func(d gedcom.Date) string { return fmt.Sprintf("%v", d.Constraint) }}}
					others := []operand{{"1", func(gedcom.Date) string { return "1" }}, {"0", func(gedcom.Date) string { return "0" }}, {"6", func(gedcom.Date) string { return "6" }},
						{"9", func(gedcom.Date) string { return "9" }}, {`"January"`, func(gedcom.Date) string { return "January" }}, {`"september"`, func(gedcom.Date) string { return "september" }},
						{".Day", func(d gedcom.Date) string { return fmt.Sprintf("%v", d.Day) }}, {".Year", func(d gedcom.Date) string { return fmt.Sprintf("%v", d.Year) }},
						{"Length", func(gedcom.Date) string { return "1" }}, {".Month", func(d gedcom.Date) string { return fmt.Sprintf("%v", d.Month) }}}
					var dates []gedcom.Date
					for _, ind := range doc.Individuals() {
						b, _ := ind.Birth()
						dates = append(dates, b.StartDate())
					}
					for k := 0; k < 6; k++ {
						a, o2, opn := named[ri.Intn(len(named))], others[ri.Intn(len(others))], ri.Pick(c16ops)
						for _, flip := range []bool{false, true} {
							l, rr := a, o2
							if flip {
								l, rr = o2, a
							}
							sb.Reset()
							sb.WriteString("[ ")
							for _, d := range dates {
								if c16refCompare(l.text(d), rr.text(d), opn) {
									sb.WriteString("t ")
								} else {
									sb.WriteString("f ")
								}
							}
							sb.WriteString("]")
							addLaw(c16Law{"apiref", ".Individuals | .Birth | .StartDate | " + l.expr + " " + opn + " " + rr.expr,
								strings.ReplaceAll(sb.String(), "[ ]", "[  ]") + c16sep + "a comparison with a named-integer operand (Month, Constraint: compared by their text) differs from the rule computed from the Go API values", d})
						}
					}
					// Age: the constraint (named integer) and the duration of an unknown age ("0s")
					opa, ca := ri.Pick(c16ops), ri.Pick([]string{"0", "1", "2", `"Living"`, `""`})
					sb.Reset()
					sb.WriteString("[ ")
					var sbAge strings.Builder
					sbAge.WriteString("[ ")
					for _, ind := range doc.Individuals() {
						age, _ := ind.Age()
						if c16refCompare(fmt.Sprintf("%v", age.Constraint), c16litValue(strings.Trim(ca, `"`)), opa) {
							sb.WriteString("t ")
						} else {
							sb.WriteString("f ")
						}
						if c16refCompare(fmt.Sprintf("%v", age.Age), "0", "=") {
							sbAge.WriteString("t ")
						} else {
							sbAge.WriteString("f ")
						}
					}
					sb.WriteString("]")
					sbAge.WriteString("]")
					addLaw(c16Law{"apiref", ".Individuals | .Age | .Constraint " + opa + " " + ca,
						strings.ReplaceAll(sb.String(), "[ ]", "[  ]") + c16sep + "a comparison with Age.Constraint (a named integer, compared by its text) differs from the rule computed from the Go API values", d})
					addLaw(c16Law{"apiref", ".Individuals | .Age | .Age = 0",
						strings.ReplaceAll(sbAge.String(), "[ ]", "[  ]") + c16sep + "Age.Age = 0 (a time.Duration, compared by its text: \"0s\" is not the number 0) differs from the rule computed from the Go API values", d})
					addLaw(c16Law{"apiref", ".Individuals | .Age | 0 = .Age",
						strings.ReplaceAll(sbAge.String(), "[ ]", "[  ]") + c16sep + "0 = Age.Age differs from the rule computed from the Go API values", d})
				}
				// birth years with the constant on the left
				cy := ri.Pick([]string{"1900", "1926", "1943", "0", "2000"})
				opy := ri.Pick([]string{"<", "<=", ">", ">=", "<", "<="})
				sb.Reset()
				sb.WriteString("[ ")
				for _, ind := range doc.Individuals() {
					b, _ := ind.Birth()
					if c16refCompare(cy, fmt.Sprintf("%v", b.Years()), opy) {
						sb.WriteString("s" + hexs(b.String()) + " ")
					}
				}
				sb.WriteString("]")
				addLaw(c16Law{"apiref", ".Individuals | .Birth | Only(" + cy + " " + opy + " .Years) | .String",
					strings.ReplaceAll(sb.String(), "[ ]", "[  ]") + c16sep + "Only(c op .Years) with the constant on the left differs from filtering through the Go API", d})
				addLaw(c16Law{"threewayL", ".Individuals | .Birth", ".Years" + c16sep + cy, d})
			}()
			func() {
				defer func() { recover() }()
				w := len(doc.Warnings())
				addLaw(c16Law{"apiref", ".Warnings | Only(1 = 1) | Length", "i" + strconv.Itoa(w) + c16sep + "Only(true) over .Warnings (interface-typed list) does not keep every element", d})
				addLaw(c16Law{"apiref", ".Warnings | Only(1 = 2) | Length", "i0" + c16sep + "Only(false) over .Warnings keeps elements", d})
			}()
		}
		// 4. reference through the Go API
		apiStart := len(jobs)
		var apiQ []string
		for qy := range c16apiRefs {
			apiQ = append(apiQ, qy)
		}
		sort.Strings(apiQ)
		for d := range pool {
			for _, qy := range apiQ {
				add(qy, d)
				c.Count("source=api-reference")
			}
		}

		nPool := len(pool) // documents appended below (boundary audit, shrinker) have no API-reference jobs
		// ---- boundary and state audit (notes/boundary-audit.md)
		type extraCheck struct {
			idx        int
			want, what string
		}
		var extras []extraCheck
		rb := r.Fork("boundary")
		// engine state: one compiled query evaluated on a document, then (twice) on another one,
		// against a freshly compiled query — after a value, an error, a recovered panic, a cycle error
		reuseQ := []string{".Individuals | .Name | .Value", `.Individuals | First("-1")`, "X is .Individuals | Only(X); X", ".Individuals | Length", "?", ".Individuals | ?",
			"Document1 | .Individuals | .Pointer", ".Individuals | Only(.Nodes | .Tag)", "N is .Individuals | Length; .Individuals | {n: N}", ".Families | .Husband | .Individual | .Pointer",
			".Individuals | .Spouses | Length", "Combine(.Individuals, .Individuals) | Length", ".Individuals | NodesWithTagPath(\"BIRT\", \"DATE\") | Length"}
		for i := c.N(250, 3000); i > 0; i-- {
			reuseQ = append(reuseQ, g.program(3))
		}
		for _, qy := range reuseQ {
			for k := 0; k < 2; k++ {
				jobs = append(jobs, c15Job{qy, []int{rb.Intn(numStart), rb.Intn(numStart)}, "r"})
				c.Count("source=engine-reuse")
			}
			// a longer history on the one engine (the general pool has documents on which queries fail)
			jobs = append(jobs, c15Job{qy, []int{rb.Intn(numStart), rb.Intn(numStart), rb.Intn(numStart), rb.Intn(numStart)}, "r"})
			c.Count("source=engine-history")
		}
		// histories with FAILING evaluations between successful ones: the failure happens where a
		// variable is *referenced* (Engine.Evaluate first evaluates every statement on the document
		// itself, so a definition that fails there never reaches VariableExpr): a variable applied
		// to an item that is a nil role node / a faulty reference in one document and fine in
		// another, a variable referenced by a statement that precedes its definition, nested
		// variables, variables inside objects, Only conditions, function arguments and pipes.
		histGood := []*TNode{T("HEAD", "", ""), T("INDI", "", "I1", T("NAME", "John /Smith/", ""), T("SEX", "M", ""), T("FAMS", "@F1@", "")),
			T("INDI", "", "I2", T("NAME", "Jane /Doe/", ""), T("SEX", "F", ""), T("FAMS", "@F1@", "")), T("INDI", "", "I3", T("NAME", "Bob /Jones/", ""), T("FAMS", "@F2@", "")),
			T("FAM", "", "F1", T("HUSB", "@I1@", "", T("NOTE", "first marriage", "")), T("WIFE", "@I2@", "")), T("FAM", "", "F2", T("HUSB", "@I3@", ""), T("WIFE", "@I2@", "")), T("TRLR", "", "")}
		histBad := []*TNode{T("HEAD", "", ""), T("INDI", "", "I1", T("NAME", "Jane /Doe/", ""), T("FAMS", "@F1@", "")), T("FAM", "", "F1", T("WIFE", "@I1@", "")), T("FAM", "", "F2"), T("TRLR", "", "")}
		histBad2 := []*TNode{T("INDI", "", "I1", T("NAME", "A /B/", "")), T("FAM", "", "F1", T("HUSB", "@F1@", ""), T("WIFE", "@I9@", "")), T("FAM", "", "F2", T("HUSB", "@I1@", ""))}
		var histIDs []int
		for _, f := range [][]*TNode{histGood, histBad, histBad2} {
			if d, ok := c15mkDoc(f); ok {
				pool = append(pool, d)
				histIDs = append(histIDs, len(pool)-1)
			}
		}
		histQ := []string{
			"Details are .Nodes; .Families | .Husband | {details: Details}",
			"Count is Fathers | Length; Fathers are .Families | .Husband | .Value; Count",
			"V is .Value; .Families | .Husband | Only(V = \"@I1@\") | Length",
			"V is .Individual | .Pointer; .Families | .Wife | V",
			"V is .Individual | .Pointer; .Families | .Husband | V",
			"A is .Nodes; B is A | Length; .Families | .Husband | {n: B}",
			"A is .Nodes; B is A | Length; .Families | .Wife | {n: B, m: A}",
			"S is .String; .Families | {s: S}",
			"S is .String; .Families | .Husband | {s: S}",
			"S is .Individual | .String; .Families | .Husband | Only(S = \"x\")",
			"N is .Nodes | Length; .Families | .Husband | First(N)",
			"P is .Pointer; .Families | .Wife | .Individual | {p: P}",
			"R is Later | Length; Later are .Families | .Wife | .Nodes; R",
			"R is .Families | .Husband | Later; Later are .Nodes; R | Length",
			"D is .Nodes; .Families | Combine(.Husband | D, .Husband | D) | Length",
			"K is .Tag | .Tag; .Families | .Husband | {k: K} | Length",
			"Q is ?; .Families | .Husband | .Nodes | Q",
			"W is .Individual | .Spouses | Length; .Families | .Wife | {w: W}",
			"X is .Individuals | Only(X); .Families | .Husband | {d: .Nodes}",
			"Fam is .Families; H is .Husband | .Nodes; Fam | {h: H}",
		}
		if len(histIDs) == 3 {
			gd, bd, b2 := histIDs[0], histIDs[1], histIDs[2]
			shapes := [][]int{{gd, bd, gd}, {bd, gd}, {gd, b2, gd}, {bd, bd, gd}, {gd, bd, b2, gd, bd}, {b2, bd}, {bd, b2, gd}}
			for _, qy := range histQ {
				for _, sh := range shapes {
					jobs = append(jobs, c15Job{qy, sh, "r"})
					c.Count("source=engine-history (failing evaluations in between)")
				}
				for k := 0; k < 3; k++ {
					sh := []int{rb.Intn(numStart), histIDs[rb.Intn(3)], rb.Intn(numStart), histIDs[rb.Intn(3)]}
					jobs = append(jobs, c15Job{qy, sh, "r"})
					c.Count("source=engine-history (failing evaluations in between)")
				}
			}
		}
		// list lengths 1 / 65 / 1025 and argument counts 1 / 2 / 8 / 64 / 65 against the Go API
		for _, n := range []int{1, 65, 1025} {
			d, ok := c15mkDoc(c15bigDoc(n))
			if !ok {
				continue
			}
			pool = append(pool, d)
			id := len(pool) - 1
			ptrs := func(lo, hi int) string {
				var sb strings.Builder
				sb.WriteString("[ ")
				for i := lo; i < hi; i++ {
					sb.WriteString("s" + hexs(fmt.Sprintf("I%d", i+1)) + " ")
				}
				sb.WriteString("]")
				return strings.ReplaceAll(sb.String(), "[ ]", "[  ]")
			}
			min := func(a, b int) int {
				if a < b {
					return a
				}
				return b
			}
			for _, k := range []int{0, 1, n - 1, n, n + 1, 64, 65, 1024, 1026} {
				if k < 0 {
					continue
				}
				addLaw(c16Law{"apiref", fmt.Sprintf(".Individuals | First(%d) | .Pointer", k), ptrs(0, min(k, n)) + c16sep + "First(k) of a long list is not its prefix of length min(k, len)", id})
				addLaw(c16Law{"apiref", fmt.Sprintf(".Individuals | Last(%d) | .Pointer", k), ptrs(n-min(k, n), n) + c16sep + "Last(k) of a long list is not its suffix of length min(k, len)", id})
			}
			addLaw(c16Law{"apiref", fmt.Sprintf(".Individuals | Only(.Pointer = \"I%d\") | .Pointer", n), ptrs(n-1, n) + c16sep + "Only over a long list does not find its last element", id})
			addLaw(c16Law{"apiref", ".Individuals | Only(.Sex | .String = \"Male\") | Length", "i" + strconv.Itoa(n/2) + c16sep + "Only over a long list does not keep exactly the matching elements", id})
			addLaw(c16Law{"partition", ".Individuals", ".Sex | .String" + c16sep + `"Male"`, id})
			for _, k := range []int{1, 2, 8, 64, 65} {
				if n == 1025 && k > 8 {
					continue
				}
				args := make([]string, k)
				for i := range args {
					args[i] = ".Individuals"
				}
				addLaw(c16Law{"apiref", "Combine(" + strings.Join(args, ", ") + ") | Length", "i" + strconv.Itoa(k*n) + c16sep + "Combine of k lists does not have k times the length", id})
			}
			for _, k := range []int{8, 64, 65} { // variable chains
				chain := []string{"V0 is .Individuals"}
				for i := 1; i < k; i++ {
					chain = append(chain, fmt.Sprintf("V%d is V%d", i, i-1))
				}
				addLaw(c16Law{"apiref", strings.Join(chain, "; ") + fmt.Sprintf("; V%d | Length", k-1), "i" + strconv.Itoa(n) + c16sep + "a chain of variables does not evaluate to its first definition", id})
			}
		}
		// MergeDocumentsAndIndividuals on 1+65 and 65+65 individuals against the library call
		func() {
			defer func() { recover() }()
			var ids []int
			for id := numStart; id < len(pool); id++ {
				if n := len(pool[id].Forest); n == 2*1+2 || n == 2*65+2 {
					ids = append(ids, id)
				}
			}
			if len(ids) < 2 {
				return
			}
			for _, pr := range [][2]int{{ids[0], ids[1]}, {ids[1], ids[1]}, {ids[1], ids[0]}} {
				a, _ := gedcom.NewDocumentFromString(pool[pr[0]].Text)
				b, _ := gedcom.NewDocumentFromString(pool[pr[1]].Text)
				m, err := gedcom.MergeDocumentsAndIndividuals(a, b, gedcom.EqualityMergeFunction, gedcom.NewIndividualNodesCompareOptions())
				if err != nil {
					continue
				}
				jobs = append(jobs, c15Job{"MergeDocumentsAndIndividuals(Document1, Document2) | .Individuals | Length", []int{pr[0], pr[1]}, "j"})
				extras = append(extras, extraCheck{len(jobs) - 1, "i" + strconv.Itoa(len(m.Individuals())), "MergeDocumentsAndIndividuals in a query differs from the library call"})
			}
		}()
		obs := c15runJobs(pool, jobs, 20*time.Second)
		for i, j := range jobs {
			o := obs[i]
			c.Eval()
			c.Count("top=" + o.Top)
			c.Nontrivial(o.Top + "/" + o.Type + "/" + c16shape(j.Query))
			if o.Top == "value" && i%211 == 0 {
				c.Sample(map[string]string{"query": j.Query, "document": pool[j.Docs[0]].Text, "result": o.JSON})
			}
			c.Tie(c15req(pool, j), o.line("j"))
			if j.Mode == "r" {
				if i := strings.Index(o.Hist, "error"); i >= 0 && strings.Contains(o.Hist[i:], "value") {
					c.Count("engine-history: a value after a failed evaluation of the same engine")
				}
				if strings.Contains(o.Hist, "error") {
					c.Nontrivial("history/" + o.Hist + "/" + c16shape(j.Query))
				}
			}
			if j.Mode == "r" && o.Reuse != "same" && o.Reuse != "" {
				c.Oracle("", "one compiled query evaluated several times: every evaluation must give what a freshly compiled query gives on that document, and leave no variable marked as being evaluated",
					map[string]interface{}{"query": j.Query, "documents_in_order_of_evaluation": c15texts(pool, j.Docs)}, o.Reuse, "same")
			}
			if o.Top == "value" {
				for _, w := range c16menuWords {
					if strings.Contains(j.Query, w+" ") || strings.HasSuffix(j.Query, w) || strings.Contains(j.Query, w+")") || strings.Contains(j.Query, w+",") || strings.Contains(j.Query, w+"}") {
						c.Count("accessor" + w)
					}
				}
			}
		}
		for _, x := range extras {
			if o := obs[x.idx]; o.Top != "value" || o.JSON != x.want {
				c.Oracle("", x.what, map[string]interface{}{"query": jobs[x.idx].Query, "documents": c15texts(pool, jobs[x.idx].Docs)}, o.Top+" "+o.JSON, x.want)
			}
		}
		c.Compare = c15compare(c)
		shrunk := map[string]int{}
		for _, lr := range laws {
			var o []c15Obs
			for _, i := range lr.idx {
				o = append(o, obs[i])
			}
			c.Count("law=" + lr.law.Kind)
			what, observed, expected := lr.law.verdict(o)
			if what == "" {
				continue
			}
			l := lr.law
			if shrunk[what] < 2 && l.Kind != "onlyref" && l.Kind != "opref" && l.Kind != "apiref" { // delta-debug the first failures of each kind
				shrunk[what]++
				if s := c16shrink(&pool, l); s.Expr != l.Expr || s.Doc != l.Doc {
					var jb []c15Job
					for _, q := range s.queries() {
						jb = append(jb, c15Job{q, []int{s.Doc}, "j"})
					}
					if w2, o2, e2 := s.verdict(c15runJobs(pool, jb, 20*time.Second)); w2 != "" {
						c.Oracle("", w2, map[string]interface{}{"expression": s.Expr, "shrunk_from": l.Expr + " on a document of " + strconv.Itoa(len(pool[l.Doc].Forest)) + " records", "parameter": strings.Split(s.Param, c16sep),
							"document": pool[s.Doc].Text, "queries": s.queries()}, o2, e2)
						continue
					}
				}
			}
			c.Oracle("", what, map[string]interface{}{"expression": l.Expr, "parameter": strings.Split(l.Param, c16sep),
				"document": pool[l.Doc].Text, "queries": l.queries()}, observed, expected)
		}
		// the Go API reference
		k := apiStart
		for d := 0; d < nPool; d++ {
			doc, err := gedcom.NewDocumentFromString(pool[d].Text)
			for _, qy := range apiQ {
				o := obs[k]
				k++
				if err != nil {
					continue
				}
				want := func() (s string) {
					defer func() {
						if recover() != nil {
							s = "api-panic"
						}
					}()
					return c16apiRefs[qy](doc)
				}()
				if want == "api-panic" {
					continue
				}
				if o.Top != "value" || o.JSON != want {
					c.Oracle("", "the query result differs from the Go API", map[string]interface{}{"query": qy, "document": pool[d].Text},
						o.Top+" "+o.JSON, want)
				}
				c.Count("law=api-reference")
			}
		}
		c.Notes = append(c.Notes, "numbers in comparisons stay within 15 significant digits and |exponent| ≤ 25 (beyond that float64 rounding decides and the model answers `undetermined`); text comparisons of non-ASCII operands are answered `undetermined` by the model (strings.ToLower beyond ASCII) and are covered by the operator-law oracle on the implementation only")
	}
}

// the accessors of the model's menu (for the per-accessor count of evaluated queries)
var c16menuWords = []string{".Individuals", ".Families", ".Nodes", ".Tag", ".Value", ".Pointer", ".Name", ".Names", ".Sex", ".GivenName", ".Surname", ".String",
	".Births", ".Deaths", ".Baptisms", ".Burials", ".Birth", ".Death", ".Baptism", ".Burial", ".Spouses", ".Parents", ".IsLiving", ".Husband", ".Wife", ".Children",
	".Individual", ".Dates", ".Years", ".IsValid", ".Country", ".County", ".State", ".JurisdictionalName",
	// round 4
	".Sources", ".Title", ".EstimatedBirthDate", ".EstimatedDeathDate", ".AllEvents", ".LDSBaptisms", ".UniqueIDs", ".Identifier", ".RawSimpleNode", ".SimpleNode", ".ShallowCopy", ".ObjectMap",
	".Prefix", ".Suffix", ".SurnamePrefix", ".StartDate", ".EndDate", ".IsExact", ".IsPhrase", ".IsZero", ".Year", ".Month", ".Day", ".Constraint", ".IsEndOfRange", ".Format", ".Map", ".Latitude",
	".Longitude", ".Notes", ".IsEvent", ".IsKnown", ".IsOfficial", ".SortValue"}

// c16listValued: the statement yields a list per element (a comparison on it is mapped, so it is
// not a bool).
func c16listValued(sc string) bool {
	for _, w := range []string{".Spouses | .", ".Families | .", ".Parents | .", ".Children | .Individual", ".Dates | ."} {
		if strings.Contains(sc, w) {
			return true
		}
	}
	return false
}

// c16shape abstracts a query to its constructs (for the distinct-case count).
func c16shape(q string) string {
	var sb strings.Builder
	for _, w := range []string{"First", "Last", "Only", "Combine", "NodesWithTagPath", "Length", "{", " is ", " are ", "!=", ">=", "<=", "=", ">", "<", ".Names", ".Name", ".Sex", ".Tag", ".Nodes", ".Families"} {
		if strings.Contains(q, w) {
			sb.WriteString(strings.TrimSpace(w) + ",")
		}
	}
	return sb.String()
}
