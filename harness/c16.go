package main

// C16 — query results equal what the Go API gives.  Well-typed queries over the modelled accessor
// menu × family-graph documents: (T) the Lean model as reference interpreter on the JSON-normalised
// result, (S) algebraically equivalent queries and a reference that calls the Go API directly.

import (
	"fmt"
	"strconv"
	"strings"
	"time"

	"github.com/elliotchance/gedcom/v39"
)

// element types of the typed generator
const (
	c16Indi = iota
	c16Fam
	c16NodeI
	c16Name
	c16Sex
	c16Str
	c16Tag
	c16Bool
	c16Map
	c16Nested
)

type c16Gen struct{ r *Rand }

var c16consts = []string{`"John"`, `"Nan"`, `"nan"`, `"Inf"`, `"Male"`, `"Female"`, `"I1"`, `"I2"`, `"I3"`, `"F1"`, `"Smith"`, `"Doe"`, `"10"`, `"9"`,
	`"1e1"`, `" 10 "`, `"smith"`, `"INDI"`, `"FAM"`, `"NAME"`, `""`, `"M"`, "10", "9", "1", "0", `"+10"`, `"1_0"`, `"-0"`, `"0.50"`, `".5"`, `"infinity"`, `"-inf"`, `"x"`, `"X "`}

var c16ops = []string{"=", "!=", ">", ">=", "<", "<="}

// source draws a slice-valued pipeline and the type of its elements.
func (g *c16Gen) source() (string, int) {
	switch g.r.Intn(10) {
	case 0, 1, 2, 3, 4:
		return ".Individuals", c16Indi
	case 5, 6:
		return ".Families", c16Fam
	case 7:
		return "Document1 | .Individuals", c16Indi
	}
	return ".Nodes", c16NodeI
}

// scalar draws a statement that maps one element of type t to a string (and its text).
func (g *c16Gen) scalar(t int) string {
	switch t {
	case c16Indi:
		return g.r.Pick([]string{".Name | .String", ".Name | .GivenName", ".Name | .Surname", ".Sex | .String", ".Pointer", ".Value", ".Tag | .Tag", ".Names | Length", ".Nodes | Length"})
	case c16Fam:
		return g.r.Pick([]string{".Pointer", ".Value", ".Tag | .Tag", ".Nodes | Length"})
	case c16NodeI:
		return g.r.Pick([]string{".Pointer", ".Value", ".Tag | .Tag", ".Nodes | Length"})
	case c16Name:
		return g.r.Pick([]string{".String", ".GivenName", ".Surname", ".GivenName", ".Value"})
	case c16Sex:
		return g.r.Pick([]string{".String", ".String", ".Value"})
	case c16Tag:
		return ".Tag"
	}
	return "Length"
}

func (g *c16Gen) pred(t int) string {
	if t == c16Str || t == c16Bool {
		return g.r.Pick([]string{"Length", `"x"`, "1"}) + " " + g.r.Pick(c16ops) + " " + g.r.Pick(c16consts)
	}
	s := g.scalar(t)
	if strings.HasSuffix(s, "Length") {
		// `.Names | Length = 1` would map the comparison over the names; compare the count through a variable-free form
		return s + " | Length " + g.r.Pick(c16ops) + " " + g.r.Pick([]string{"0", "1", "2"})
	}
	if g.r.Chance(1, 6) {
		return g.r.Pick(c16consts) + " " + g.r.Pick(c16ops) + " " + g.scalar(t)
	}
	return s + " " + g.r.Pick(c16ops) + " " + g.r.Pick(c16consts)
}

// step extends a slice-valued pipeline by one stage; returns the new element type.
func (g *c16Gen) step(q string, t int) (string, int) {
	switch k := g.r.Intn(14); {
	case k < 3:
		return q + " | " + g.r.Pick([]string{"First", "Last"}) + "(" + strconv.Itoa(g.r.Intn(9)) + ")", t
	case k < 5:
		if t == c16Nested || t == c16Map {
			return q + " | Only(1 = 1)", t
		}
		return q + " | Only(" + g.pred(t) + ")", t
	case k < 6:
		return "Combine(" + q + ", " + q + ")", t
	case k < 9:
		switch t {
		case c16Indi:
			switch g.r.Intn(6) {
			case 0, 1:
				return q + " | .Name", c16Name
			case 2:
				return q + " | .Sex", c16Sex
			case 3:
				return q + " | .Names", c16Nested
			case 4:
				return q + " | .Tag", c16Tag
			}
			return q + " | .Pointer", c16Str
		case c16Fam:
			return q + " | " + g.r.Pick([]string{".Pointer", ".Value"}), c16Str
		case c16Name:
			return q + " | " + g.r.Pick([]string{".GivenName", ".Surname", ".String"}), c16Str
		case c16Sex:
			return q + " | .String", c16Str
		case c16Tag:
			return q + " | .Tag", c16Str
		}
		return q + " | Only(1 = 1)", t
	case k < 10:
		if t == c16Indi || t == c16NodeI || t == c16Name || t == c16Fam {
			args := g.r.Pick([]string{`"NAME"`, `"BIRT", "DATE"`, `"BIRT"`, `"SEX"`, `"GIVN"`, `"HUSB"`, `"NAME", "GIVN"`, `"NOPE"`, `"BIRT", "PLAC"`})
			return q + " | NodesWithTagPath(" + args + ")", c16NodeI
		}
		return q + " | First(2)", t
	case k < 12:
		if t == c16Nested || t == c16Map || t == c16Str || t == c16Bool {
			return q + " | Last(3)", t
		}
		n := 1 + g.r.Intn(3)
		var fs []string
		for i := 0; i < n; i++ {
			fs = append(fs, g.r.Pick([]string{"a", "b", "name", "a"})+": "+g.scalar(t))
		}
		return q + " | {" + strings.Join(fs, ", ") + "}", c16Map
	case k < 13:
		if t == c16Nested || t == c16Map {
			return q + " | Length", -1
		}
		return q + " | " + g.pred(t), c16Bool
	}
	return q + " | Length", -1
}

func (g *c16Gen) pipeline(depth int) (string, int) {
	q, t := g.source()
	for i := g.r.Intn(depth + 1); i > 0 && t >= 0; i-- {
		q, t = g.step(q, t)
	}
	return q, t
}

// program wraps a pipeline: plain, through variables (incl. shadowing and a variable used as a
// condition or inside an object), or as a comparison of constants.
func (g *c16Gen) program(depth int) string {
	q, t := g.pipeline(depth)
	switch g.r.Intn(10) {
	case 0:
		return "X is " + q + "; X"
	case 1:
		if t >= 0 {
			q2, _ := g.step("X", t)
			return "X are " + q + "; " + q2
		}
	case 2:
		return "X is " + q + "; X is .Families; Y is X | Length; X"
	case 3:
		if t >= 0 && t != c16Nested && t != c16Map {
			return "P is " + g.pred(t) + "; " + q + " | Only(P)"
		}
	case 4:
		return g.r.Pick(c16consts) + " " + g.r.Pick(c16ops) + " " + g.r.Pick(c16consts)
	case 5:
		if t >= 0 && t != c16Nested && t != c16Map {
			return "S is " + g.scalar(t) + "; " + q + " | {v: S, n: S | Length}"
		}
	}
	return q
}

// ------------------------------------------------------------ canonical JSON reader (for the oracles)

func c16parseJ(s string) (v interface{}, ok bool) {
	toks := strings.Fields(s)
	pos := 0
	var val func() (interface{}, bool)
	val = func() (interface{}, bool) {
		if pos >= len(toks) {
			return nil, false
		}
		t := toks[pos]
		pos++
		switch {
		case t == "n":
			return nil, true
		case t == "t":
			return true, true
		case t == "f":
			return false, true
		case t[0] == 'i':
			n, err := strconv.Atoi(t[1:])
			return n, err == nil
		case t[0] == 's':
			return unhex(t[1:]), true
		case t == "[":
			arr := []interface{}{}
			for pos < len(toks) && toks[pos] != "]" {
				e, ok := val()
				if !ok {
					return nil, false
				}
				arr = append(arr, e)
			}
			pos++
			return arr, true
		case t == "{":
			m := map[string]interface{}{}
			for pos < len(toks) && toks[pos] != "}" {
				k := unhex(toks[pos][1:])
				pos++
				e, ok := val()
				if !ok {
					return nil, false
				}
				m[k] = e
			}
			pos++
			return m, true
		}
		return nil, false
	}
	v, ok = val()
	return v, ok && pos == len(toks)
}

func c16items(o c15Obs) ([]string, bool) {
	// top-level array elements of the canonical JSON, each as canonical text
	if o.Top != "value" {
		return nil, false
	}
	toks := strings.Fields(o.JSON)
	if len(toks) < 2 || toks[0] != "[" {
		return nil, false
	}
	items := []string{}
	depth, start := 0, 1
	for i := 1; i < len(toks)-1; i++ {
		switch toks[i] {
		case "[", "{":
			depth++
		case "]", "}":
			depth--
		}
		if depth == 0 { // no keys at depth 0 of an array: the element is complete
			items = append(items, strings.Join(toks[start:i+1], " "))
			start = i + 1
		}
	}
	return items, true
}

func c16int(o c15Obs) (int, bool) {
	if o.Top != "value" || !strings.HasPrefix(o.JSON, "i") {
		return 0, false
	}
	n, err := strconv.Atoi(o.JSON[1:])
	return n, err == nil
}

// ------------------------------------------------------------ reference through the Go API

// c16apiRef evaluates a few query shapes by calling the gedcom API directly (no reflection, no
// package q) and renders the canonical JSON the query must produce.
var c16apiRefs = map[string]func(doc *gedcom.Document) string{
	".Individuals | .Name | .String": func(d *gedcom.Document) string {
		return c16strs(d, func(i *gedcom.IndividualNode) string { return i.Name().String() })
	},
	".Individuals | .Name | .GivenName": func(d *gedcom.Document) string {
		return c16strs(d, func(i *gedcom.IndividualNode) string { return i.Name().GivenName() })
	},
	".Individuals | .Name | .Surname": func(d *gedcom.Document) string {
		return c16strs(d, func(i *gedcom.IndividualNode) string { return i.Name().Surname() })
	},
	".Individuals | .Sex | .String": func(d *gedcom.Document) string {
		return c16strs(d, func(i *gedcom.IndividualNode) string { return i.Sex().String() })
	},
	".Individuals | .Pointer": func(d *gedcom.Document) string {
		return c16strs(d, func(i *gedcom.IndividualNode) string { return i.Pointer() })
	},
	".Individuals | Length":         func(d *gedcom.Document) string { return "i" + strconv.Itoa(len(d.Individuals())) },
	".Families | Length":            func(d *gedcom.Document) string { return "i" + strconv.Itoa(len(d.Families())) },
	".Nodes | Length":               func(d *gedcom.Document) string { return "i" + strconv.Itoa(len(d.Nodes())) },
	".Individuals | Last(2) | .Pointer": func(d *gedcom.Document) string {
		is := d.Individuals()
		if len(is) > 2 {
			is = is[len(is)-2:]
		}
		return c16strList(is, func(i *gedcom.IndividualNode) string { return i.Pointer() })
	},
	".Individuals | First(2) | .Pointer": func(d *gedcom.Document) string {
		is := d.Individuals()
		if len(is) > 2 {
			is = is[:2]
		}
		return c16strList(is, func(i *gedcom.IndividualNode) string { return i.Pointer() })
	},
	`.Individuals | Only(.Sex | .String = "Female") | .Pointer`: func(d *gedcom.Document) string {
		var keep gedcom.IndividualNodes
		for _, i := range d.Individuals() {
			if i.Sex().IsFemale() {
				keep = append(keep, i)
			}
		}
		return c16strList(keep, func(i *gedcom.IndividualNode) string { return i.Pointer() })
	},
	`.Individuals | NodesWithTagPath("BIRT", "DATE") | Length`: func(d *gedcom.Document) string {
		n := 0
		for _, i := range d.Individuals() {
			n += len(gedcom.NodesWithTagPath(i, gedcom.TagBirth, gedcom.TagDate))
		}
		return "i" + strconv.Itoa(n)
	},
	".Individuals | .Names | Length": func(d *gedcom.Document) string { return "i" + strconv.Itoa(len(d.Individuals())) },
	".Individuals | {p: .Pointer, n: .Names | Length}": func(d *gedcom.Document) string {
		var sb strings.Builder
		sb.WriteString("[ ")
		for _, i := range d.Individuals() {
			fmt.Fprintf(&sb, "{ k%s i%d k%s s%s } ", hexs("n"), len(i.Names()), hexs("p"), hexs(i.Pointer()))
		}
		sb.WriteString("]")
		return strings.ReplaceAll(sb.String(), "[ ]", "[  ]")
	},
}

func c16strList(is gedcom.IndividualNodes, f func(*gedcom.IndividualNode) string) string {
	var sb strings.Builder
	sb.WriteString("[ ")
	for _, i := range is {
		sb.WriteString("s" + hexs(f(i)) + " ")
	}
	sb.WriteString("]")
	return strings.ReplaceAll(sb.String(), "[ ]", "[  ]")
}

func c16strs(d *gedcom.Document, f func(*gedcom.IndividualNode) string) string {
	return c16strList(d.Individuals(), f)
}

// ------------------------------------------------------------ the property run

func init() {
	runners["C16"] = func(c *Ctx) {
		c.Rule = "well-typed queries from a typed grammar over the modelled menu (accessor chains on Document/Individual/Family/Name/Sex/Tag, First/Last with 0..8, Length, Only, Combine, NodesWithTagPath, objects, variables incl. shadowing, six operators over numeric/text/mixed operands) × random family-graph documents (0–6 individuals); observation = JSON-normalised result; distinct = (outcome, Go type, query shape)"
		r := c.R
		pool := c15docPool(c, r.Fork("docs"), c.N(40, 300), 6)
		g := &c16Gen{r: r.Fork("grammar")}
		var jobs []c15Job
		type check struct {
			kind string
			idx  []int
			arg  int
			base string
			doc  int
		}
		var checks []check
		add := func(q string, doc int) int {
			jobs = append(jobs, c15Job{q, []int{doc}, "j"})
			return len(jobs) - 1
		}
		// 1. generated programs (correspondence with the model)
		for i := c.N(40000, 300000); i > 0; i-- {
			add(g.program(4), g.r.Intn(len(pool)))
			c.Count("source=grammar")
		}
		// 2. algebraic laws on the implementation
		ra := r.Fork("algebra")
		ga := &c16Gen{r: ra}
		for i := c.N(2500, 20000); i > 0; i-- {
			depth := 3
			if len(checks) < 3000 {
				depth = 1 // simple expressions first: the first recorded failing input is a small one
			}
			e, t := ga.pipeline(depth)
			if t < 0 {
				continue
			}
			d := ra.Intn(len(pool))
			base := add(e, d)
			ln := add(e+" | Length", d)
			var firsts, lasts []int
			for k := 0; k <= 8; k++ {
				firsts = append(firsts, add(fmt.Sprintf("%s | First(%d)", e, k), d))
				lasts = append(lasts, add(fmt.Sprintf("%s | Last(%d)", e, k), d))
			}
			checks = append(checks, check{"first", append([]int{base}, firsts...), 0, e, d})
			checks = append(checks, check{"last", append([]int{base}, lasts...), 0, e, d})
			checks = append(checks, check{"length", []int{base, ln}, 0, e, d})
			checks = append(checks, check{"combine", []int{ln, add("Combine("+e+", "+e+") | Length", d), base, add("Combine("+e+", "+e+")", d)}, 0, e, d})
			checks = append(checks, check{"inline", []int{base, add("V is "+e+"; V", d), add("V is "+e+"; W is V; W", d)}, 0, e, d})
			checks = append(checks, check{"deterministic", []int{base, add(e, d)}, 0, e, d})
			if t != c16Nested && t != c16Map {
				sc := ga.scalar(t)
				{
					k := ra.Pick(c16consts)
					lhs := sc
					if strings.HasSuffix(sc, "| Length") {
						lhs = sc + " | Length"
					}
					yes := add(e+" | Only("+lhs+" = "+k+")", d)
					no := add(e+" | Only("+lhs+" != "+k+")", d)
					checks = append(checks, check{"partition", []int{base, yes, no}, 0, e + " / " + lhs + " = " + k, d})
				}
			}
			c.Count("source=algebra")
		}
		// 3. operator laws on constant operands
		ro := r.Fork("ops")
		for i := c.N(2000, 20000); i > 0; i-- {
			l, rr := ro.Pick(c16consts), ro.Pick(c16consts)
			var idx []int
			for _, op := range c16ops {
				idx = append(idx, add(l+" "+op+" "+rr, 0))
			}
			checks = append(checks, check{"operators", idx, 0, l + " ? " + rr, 0})
			c.Count("source=operators")
		}
		// 4. reference through the Go API
		apiStart := len(jobs)
		var apiQ []string
		for qy := range c16apiRefs {
			apiQ = append(apiQ, qy)
		}
		for d := range pool {
			for _, qy := range apiQ {
				add(qy, d)
				c.Count("source=api-reference")
			}
		}

		obs := c15runJobs(pool, jobs, 20*time.Second)
		for i, j := range jobs {
			o := obs[i]
			c.Eval()
			c.Count("top=" + o.Top)
			c.Nontrivial(o.Top + "/" + o.Type + "/" + c16shape(j.Query))
			if o.Top == "value" && i%211 == 0 {
				c.Sample(map[string]string{"query": j.Query, "document": pool[j.Docs[0]].Text, "result": o.JSON})
			}
			c.Tie(c15req(pool, j), o.line("j"))
		}
		c.Compare = c15compare(c)
		in := func(ck check) map[string]interface{} {
			m := map[string]interface{}{"expression": ck.base, "document": pool[ck.doc].Text}
			var qs []string
			for _, i := range ck.idx {
				qs = append(qs, jobs[i].Query)
			}
			m["queries"] = qs
			return m
		}
		min := func(a, b int) int {
			if a < b {
				return a
			}
			return b
		}
		for _, ck := range checks {
			o := func(k int) c15Obs { return obs[ck.idx[k]] }
			switch ck.kind {
			case "first", "last":
				items, ok := c16items(o(0))
				if !ok {
					continue // the base is not a (non-nil) list: nothing to compare
				}
				for k := 0; k <= 8; k++ {
					got, ok := c16items(o(1 + k))
					var want []string
					if ck.kind == "first" {
						want = items[:min(k, len(items))]
					} else {
						want = items[len(items)-min(k, len(items)):]
					}
					if !ok || strings.Join(got, " ") != strings.Join(want, " ") {
						what := "First(n) is not the prefix of length min(n, len)"
						if ck.kind == "last" {
							what = "Last(n) is not the suffix of length min(n, len)"
						}
						m := in(ck)
						m["n"] = k
						m["length"] = len(items)
						c.Oracle("", what, m, o(1+k).Top+" "+o(1+k).JSON, "[ "+strings.Join(want, " ")+" ]")
						break
					}
				}
				c.Count("law=" + ck.kind)
			case "length":
				items, ok := c16items(o(0))
				if !ok {
					continue
				}
				if n, ok := c16int(o(1)); !ok || n != len(items) {
					c.Oracle("", "Length is not the number of elements", in(ck), o(1).Top+" "+o(1).JSON, "i"+strconv.Itoa(len(items)))
				}
				c.Count("law=length")
			case "combine":
				n, ok := c16int(o(0))
				items, ok2 := c16items(o(2))
				if !ok || !ok2 {
					continue
				}
				if m, ok := c16int(o(1)); !ok || m != 2*n {
					c.Oracle("", "Combine(E, E) | Length is not twice E | Length", in(ck), o(1).Top+" "+o(1).JSON, "i"+strconv.Itoa(2*n))
				}
				if both, ok := c16items(o(3)); !ok || strings.Join(both, " ") != strings.Join(append(append([]string{}, items...), items...), " ") {
					c.Oracle("", "Combine(E, E) is not E followed by E", in(ck), o(3).Top+" "+o(3).JSON, "E ++ E")
				}
				c.Count("law=combine")
			case "inline":
				for k := 1; k <= 2; k++ {
					if o(k).line("j") != o(0).line("j") {
						c.Oracle("", "a variable is not interchangeable with its definition", in(ck), o(k).line("j"), o(0).line("j"))
						break
					}
				}
				c.Count("law=inline")
			case "deterministic":
				if o(1).line("j") != o(0).line("j") {
					c.Oracle("", "the same query on the same document gave two results", in(ck), o(1).line("j"), o(0).line("j"))
				}
				c.Count("law=deterministic")
			case "partition":
				items, ok := c16items(o(0))
				yes, ok1 := c16items(o(1))
				no, ok2 := c16items(o(2))
				if !ok || !ok1 || !ok2 {
					if ok && (o(1).Top != o(2).Top) {
						c.Oracle("", "Only(p) and Only(not p) do not fail together", in(ck), o(1).Top+" / "+o(2).Top, "same outcome")
					}
					continue
				}
				// order-preserving split: merging yes and no in the order of E gives E back
				a, b := 0, 0
				good := len(yes)+len(no) == len(items)
				for _, it := range items {
					if !good {
						break
					}
					switch {
					case a < len(yes) && yes[a] == it:
						a++
					case b < len(no) && no[b] == it:
						b++
					default:
						good = false
					}
				}
				if !good {
					c.Oracle("", "Only(p) and Only(not p) do not partition the list in order", in(ck),
						fmt.Sprintf("%d + %d of %d", len(yes), len(no), len(items)), "an order-preserving split")
				}
				c.Count("law=partition")
			case "operators":
				var b [6]bool
				okAll := true
				for k := 0; k < 6; k++ {
					switch o(k).JSON {
					case "t":
						b[k] = true
					case "f":
					default:
						okAll = false
					}
				}
				if !okAll {
					c.Oracle("", "a comparison of two constants is not a bool", in(ck), o(0).line("j"), "t | f")
					continue
				}
				eq, ne, gt, ge, lt, le := b[0], b[1], b[2], b[3], b[4], b[5]
				n := 0
				for _, x := range []bool{lt, eq, gt} {
					if x {
						n++
					}
				}
				obsS := fmt.Sprintf("= %v, != %v, > %v, >= %v, < %v, <= %v", eq, ne, gt, ge, lt, le)
				if ne == eq {
					c.Oracle("", "!= is not the negation of =", in(ck), obsS, "!= is not =")
				}
				if n != 1 {
					c.Oracle("", "not exactly one of <, =, > holds", in(ck), obsS, "exactly one")
				}
				if ge != (gt || eq) || le != (lt || eq) {
					c.Oracle("", ">= / <= are not > or = / < or =", in(ck), obsS, "consistent")
				}
				c.Count("law=operators")
			}
		}
		// the Go API reference
		k := apiStart
		for d := range pool {
			doc, err := gedcom.NewDocumentFromString(pool[d].Text)
			for _, qy := range apiQ {
				o := obs[k]
				k++
				if err != nil {
					continue
				}
				want := func() (s string) {
					defer func() {
						if recover() != nil {
							s = "api-panic"
						}
					}()
					return c16apiRefs[qy](doc)
				}()
				if want == "api-panic" {
					continue
				}
				if o.Top != "value" || o.JSON != want {
					c.Oracle("", "the query result differs from the Go API", map[string]interface{}{"query": qy, "document": pool[d].Text},
						o.Top+" "+o.JSON, want)
				}
				c.Count("law=api-reference")
			}
		}
		c.Notes = append(c.Notes, "numbers in comparisons stay within 15 significant digits and |exponent| ≤ 25 (beyond that float64 rounding decides and the model answers `undetermined`)")
	}
}

// c16shape abstracts a query to its constructs (for the distinct-case count).
func c16shape(q string) string {
	var sb strings.Builder
	for _, w := range []string{"First", "Last", "Only", "Combine", "NodesWithTagPath", "Length", "{", " is ", " are ", "!=", ">=", "<=", "=", ">", "<", ".Names", ".Name", ".Sex", ".Tag", ".Nodes", ".Families"} {
		if strings.Contains(q, w) {
			sb.WriteString(strings.TrimSpace(w) + ",")
		}
	}
	return sb.String()
}
