package main

// Facts about the query language (package q) regenerated from the code: token patterns, operator
// and function tables, the reflection surface (methods / fields) of every type the model's
// accessor menu can reach, and three behavioural flags (Evaluate recovers panics, NaN spellings
// are numeric, variable cycles are detected).

import (
	"bytes"
	"fmt"
	"go/ast"
	"go/parser"
	"go/token"
	"os"
	"os/exec"
	"path/filepath"
	"reflect"
	"regexp"
	"runtime"
	"runtime/debug"
	"sort"
	"strings"
	"time"
	"unsafe"

	"github.com/elliotchance/gedcom/v39"
	"github.com/elliotchance/gedcom/v39/q"
)

var c15nodeIface = reflect.TypeOf((*gedcom.Node)(nil)).Elem()

// c15leanTy renders a Go type as a term of the model's `Ty`.
func c15leanTy(t reflect.Type) string {
	switch {
	case t == reflect.TypeOf(""):
		return ".str"
	case t == reflect.TypeOf(0):
		return ".int"
	case t == reflect.TypeOf(true):
		return ".bool"
	case t == reflect.TypeOf(float64(0)):
		return ".float"
	case t == reflect.TypeOf(map[string]interface{}{}):
		return ".map"
	case t == reflect.TypeOf(&gedcom.Document{}):
		return ".doc"
	case t == c15nodeIface:
		return ".nodeI"
	case t == reflect.TypeOf(gedcom.Tag{}):
		return ".tag"
	case t == reflect.TypeOf(gedcom.Date{}):
		return ".date"
	case t.Kind() == reflect.Ptr && t.Elem().Kind() == reflect.Struct && t.Elem().PkgPath() == c15nodeIface.PkgPath() &&
		strings.HasSuffix(t.Elem().Name(), "Node") && t.Implements(c15nodeIface):
		return fmt.Sprintf("(.ptr %q)", t.Elem().Name())
	case t.Kind() == reflect.Slice:
		return fmt.Sprintf("(.slice %q %s)", t.Name(), c15leanTy(t.Elem()))
	}
	return fmt.Sprintf("(.opaque %q)", t.String())
}

// c15recvName is the key of a receiver type in the generated tables.
func c15recvName(t reflect.Type) string {
	if t.Kind() == reflect.Ptr {
		return t.Elem().Name()
	}
	return t.Name()
}

// c15nodeTypes returns the dynamic pointer type the decoder gives to each kind of node.
func c15nodeTypes() map[string]reflect.Type {
	res := map[string]reflect.Type{}
	add := func(n gedcom.Node) { res[reflect.TypeOf(n).Elem().Name()] = reflect.TypeOf(n) }
	seen := map[string]bool{}
	for _, t := range gedcom.Tags() {
		tag := t.Tag()
		if seen[tag] {
			continue
		}
		seen[tag] = true
		func() {
			defer func() { recover() }()
			src := "0 @F@ FAM\n1 " + tag + " v\n"
			if tag == "INDI" || tag == "FAM" {
				src = "0 @X@ " + tag + "\n"
			}
			doc, err := gedcom.NewDocumentFromString(src)
			if err != nil {
				return
			}
			for _, n := range doc.Nodes() {
				add(n)
				for _, k := range n.Nodes() {
					add(k)
				}
			}
		}()
	}
	func() {
		defer func() { recover() }()
		doc, _ := gedcom.NewDocumentFromString("0 ZZUNKNOWN v\n")
		add(doc.Nodes()[0])
	}()
	return res
}

// c15tagOfKind maps a registered tag to the node type the decoder gives it.
func c15tagOfKind() map[string]string {
	res := map[string]string{}
	for _, t := range gedcom.Tags() {
		if k := probeKind(t.Tag()); k != "panic" && k != "error" {
			res[t.Tag()] = k
		}
	}
	res["ZZUNKNOWN"] = probeKind("ZZUNKNOWN")
	return res
}

// c15concurrencySites parses the sources of package q (located through the file that defines
// q.NewParser) and lists go statements and calls of a function whose name contains WorkerPool.
func c15concurrencySites() (sites []string, ok bool) {
	defer func() {
		if recover() != nil {
			sites, ok = nil, false
		}
	}()
	fn := runtime.FuncForPC(reflect.ValueOf(q.NewParser).Pointer())
	if fn == nil {
		return nil, false
	}
	file, _ := fn.FileLine(fn.Entry())
	dir := filepath.Dir(file)
	fset := token.NewFileSet()
	pkgs, err := parser.ParseDir(fset, dir, func(fi os.FileInfo) bool { return !strings.HasSuffix(fi.Name(), "_test.go") }, 0)
	if err != nil || len(pkgs) == 0 {
		return nil, false
	}
	for _, pkg := range pkgs {
		for name, f := range pkg.Files {
			for _, decl := range f.Decls {
				fd, isFn := decl.(*ast.FuncDecl)
				if !isFn || fd.Body == nil {
					continue
				}
				ast.Inspect(fd.Body, func(n ast.Node) bool {
					switch x := n.(type) {
					case *ast.GoStmt:
						sites = append(sites, filepath.Base(name)+":"+fd.Name.Name+": go statement")
					case *ast.CallExpr:
						callee := ""
						switch f := x.Fun.(type) {
						case *ast.Ident:
							callee = f.Name
						case *ast.SelectorExpr:
							callee = f.Sel.Name
						}
						if strings.Contains(callee, "WorkerPool") {
							sites = append(sites, filepath.Base(name)+":"+fd.Name.Name+": "+callee)
						}
					}
					return true
				})
			}
		}
	}
	sort.Strings(sites)
	return sites, true
}

func c15probeClass(query string) (cls string) {
	defer func() {
		if r := recover(); r != nil {
			cls = "panic"
		}
	}()
	doc, _ := gedcom.NewDocumentFromString("0 @I1@ INDI\n1 NAME Nan /Doe/\n")
	eng, err := q.NewParser().ParseString(query)
	if err != nil {
		return "parse-error"
	}
	res, err := eng.Evaluate([]*gedcom.Document{doc})
	if err != nil {
		return "error"
	}
	return fmt.Sprintf("value:%v", res)
}

// c15probeCycle evaluates `X is X; X` in a child process (a stack overflow cannot be recovered).
func c15probeCycle() string {
	exe, err := os.Executable()
	if err != nil {
		return "unknown"
	}
	cmd := exec.Command(exe, "worker", "c15cycle")
	var out bytes.Buffer
	cmd.Stdout = &out
	done := make(chan error, 1)
	if err := cmd.Start(); err != nil {
		return "unknown"
	}
	go func() { done <- cmd.Wait() }()
	select {
	case <-done:
	case <-time.After(60 * time.Second):
		cmd.Process.Kill()
		return "timeout"
	}
	s := strings.TrimSpace(out.String())
	if s == "" {
		return "fatal"
	}
	return s
}

func init() {
	workers["c15cycle"] = func(args []string) int {
		debug.SetMaxStack(128 << 20)
		fmt.Println(strings.SplitN(c15probeClass("X is X; X"), ":", 2)[0])
		return 0
	}

	extractors["Query"] = func() string {
		var b strings.Builder
		b.WriteString("-- Source: package q of the current tree. Token patterns by reflection over q.TokenRegexp,\n")
		b.WriteString("-- q.Operators (names, token kinds, truth on ordered probes), q.Functions (name -> Go type),\n")
		b.WriteString("-- the method / field surface of *Document, gedcom.Tag and every node type (reflect), and\n")
		b.WriteString("-- behavioural flags probed through Parser.ParseString / Engine.Evaluate.\n")
		b.WriteString("import Gedcom.Model.QueryTypes\nnamespace Gedcom.Generated.Query\nopen Gedcom.Q\n\n")

		// --- token patterns
		b.WriteString("/-- (regular expression source, token kind) in the order the tokenizer tries them -/\n")
		b.WriteString("def tokenPatterns : List (String × String) := [\n")
		func() {
			defer func() {
				if r := recover(); r != nil {
					fmt.Fprintf(os.Stderr, "extract Query: token patterns unavailable: %v\n", r)
				}
			}()
			v := reflect.ValueOf(q.TokenRegexp)
			var rows []string
			for i := 0; i < v.Len(); i++ {
				e := v.Index(i)
				re := (*regexp.Regexp)(unsafe.Pointer(e.Field(0).Pointer()))
				rows = append(rows, fmt.Sprintf("  (%q, %q)", re.String(), e.Field(1).String()))
			}
			b.WriteString(strings.Join(rows, ",\n"))
		}()
		b.WriteString("]\n\n")

		// --- operators
		b.WriteString("/-- (name, token kinds) in the order the parser tries them -/\n")
		b.WriteString("def operators : List (String × List String) := [\n")
		for i, op := range q.Operators {
			var ks []string
			for _, k := range op.Tokens {
				ks = append(ks, fmt.Sprintf("%q", string(k)))
			}
			sep := ","
			if i == len(q.Operators)-1 {
				sep = ""
			}
			fmt.Fprintf(&b, "  (%q, [%s])%s\n", op.Name, strings.Join(ks, ", "), sep)
		}
		b.WriteString("]\n\n")
		b.WriteString("/-- operator name ↦ (result when left < right, left = right, left > right), probed with the\n")
		b.WriteString("    numeric operands 1/2 and, separately, with the text operands a/b -/\n")
		truth := func(l, e, g [2]string) string {
			var rows []string
			for _, op := range q.Operators {
				f := func(p [2]string) bool { r, _ := op.Function(p[0], p[1]); return r }
				rows = append(rows, fmt.Sprintf("  (%q, %v, %v, %v)", op.Name, f(l), f(e), f(g)))
			}
			return strings.Join(rows, ",\n")
		}
		fmt.Fprintf(&b, "def opTruthNumeric : List (String × Bool × Bool × Bool) := [\n%s]\n\n",
			truth([2]string{"1", "2"}, [2]string{"1", "1"}, [2]string{"2", "1"}))
		fmt.Fprintf(&b, "def opTruthText : List (String × Bool × Bool × Bool) := [\n%s]\n\n",
			truth([2]string{"a", "b"}, [2]string{"a", "a"}, [2]string{"b", "a"}))

		// --- functions
		var fnames []string
		for name := range q.Functions {
			fnames = append(fnames, name)
		}
		sort.Strings(fnames)
		b.WriteString("/-- q.Functions: name ↦ Go type of the expression that implements it (sorted by name) -/\n")
		b.WriteString("def functions : List (String × String) := [\n")
		for i, name := range fnames {
			sep := ","
			if i == len(fnames)-1 {
				sep = ""
			}
			fmt.Fprintf(&b, "  (%q, %q)%s\n", name, reflect.TypeOf(q.Functions[name]).Elem().Name(), sep)
		}
		b.WriteString("]\n\n")

		// --- reflection surface
		types := []reflect.Type{reflect.TypeOf(&gedcom.Document{}), reflect.PtrTo(reflect.TypeOf(gedcom.Tag{})), reflect.PtrTo(reflect.TypeOf(gedcom.Date{}))}
		nt := c15nodeTypes()
		var kinds []string
		for k := range nt {
			kinds = append(kinds, k)
		}
		sort.Strings(kinds)
		for _, k := range kinds {
			types = append(types, nt[k])
		}
		namedSlices := map[string]reflect.Type{}
		b.WriteString("/-- receiver type ↦ (method, number of arguments, number of results, type of the first result)\n")
		b.WriteString("    for every method reflection finds on the pointer type -/\n")
		b.WriteString("def methods : List (String × List (String × Nat × Nat × Ty)) := [\n")
		for i, t := range types {
			fmt.Fprintf(&b, "  (%q, [", c15recvName(t))
			for j := 0; j < t.NumMethod(); j++ {
				m := t.Method(j)
				nin := m.Type.NumIn() - 1
				nout := m.Type.NumOut()
				out := ".int"
				if nout > 0 {
					ot := m.Type.Out(0)
					out = c15leanTy(ot)
					for ot.Kind() == reflect.Slice {
						if ot.Name() != "" {
							namedSlices[ot.Name()] = ot
						}
						ot = ot.Elem()
					}
				}
				if j > 0 {
					b.WriteString(",\n    ")
				}
				fmt.Fprintf(&b, "(%q, %d, %d, %s)", m.Name, nin, nout, out)
			}
			sep := ","
			if i == len(types)-1 {
				sep = ""
			}
			fmt.Fprintf(&b, "])%s\n", sep)
		}
		b.WriteString("]\n\n")
		b.WriteString("/-- receiver type ↦ names FieldByName resolves on the struct (own and promoted fields) -/\n")
		b.WriteString("def fields : List (String × List String) := [\n")
		for i, t := range types {
			var names []string
			for _, f := range reflect.VisibleFields(t.Elem()) {
				names = append(names, fmt.Sprintf("%q", f.Name))
			}
			sep := ","
			if i == len(types)-1 {
				sep = ""
			}
			fmt.Fprintf(&b, "  (%q, [%s])%s\n", c15recvName(t), strings.Join(names, ", "), sep)
		}
		b.WriteString("]\n\n")
		b.WriteString("/-- receiver type ↦ (field name, FieldByName succeeds on the zero struct — false for a field promoted\n")
		b.WriteString("    through an embedded pointer, which is nil there —, type of the field) -/\n")
		b.WriteString("def fieldInfo : List (String × List (String × Bool × Ty)) := [\n")
		for i, t := range types {
			var ents []string
			for _, f := range reflect.VisibleFields(t.Elem()) {
				reach := func() (ok bool) {
					defer func() {
						if recover() != nil {
							ok = false
						}
					}()
					return reflect.New(t.Elem()).Elem().FieldByName(f.Name).IsValid()
				}()
				rs := "false"
				if reach {
					rs = "true"
				}
				ents = append(ents, fmt.Sprintf("(%q, %s, %s)", f.Name, rs, c15leanTy(f.Type)))
			}
			sep := ","
			if i == len(types)-1 {
				sep = ""
			}
			fmt.Fprintf(&b, "  (%q, [%s])%s\n", c15recvName(t), strings.Join(ents, ",\n    "), sep)
		}
		b.WriteString("]\n\n")
		b.WriteString("/-- Tag.String of every registered tag -/\n")
		b.WriteString("def tagNames : List (String × String) := [\n")
		{
			seenTag := map[string]bool{}
			var ents []string
			for _, t := range gedcom.Tags() {
				if seenTag[t.Tag()] {
					continue
				}
				seenTag[t.Tag()] = true
				ents = append(ents, fmt.Sprintf("  (%q, %q)", t.Tag(), gedcom.TagFromString(t.Tag()).String()))
			}
			sort.Strings(ents)
			b.WriteString(strings.Join(ents, ",\n"))
		}
		b.WriteString("]\n\n")
		fmt.Fprintf(&b, "/-- Tag.SortValue of a tag that is not registered -/\ndef unknownTagSortValue : Nat := %d\n\n", gedcom.TagFromString("ZZUNKNOWN").SortValue())
		var sn []string
		for k := range namedSlices {
			sn = append(sn, k)
		}
		sort.Strings(sn)
		b.WriteString("/-- named slice type ↦ its method names (reachable by an accessor on a slice of such slices) -/\n")
		b.WriteString("def sliceMethods : List (String × List String) := [\n")
		for i, k := range sn {
			t := reflect.PtrTo(namedSlices[k])
			var names []string
			for j := 0; j < t.NumMethod(); j++ {
				names = append(names, fmt.Sprintf("%q", t.Method(j).Name))
			}
			sep := ","
			if i == len(sn)-1 {
				sep = ""
			}
			fmt.Fprintf(&b, "  (%q, [%s])%s\n", k, strings.Join(names, ", "), sep)
		}
		b.WriteString("]\n\n")

		// --- tables the accessor menu needs
		b.WriteString("/-- gedcom.Countries, each with its lower-cased form (PlaceNode.Country matches suffixes) -/\n")
		b.WriteString("def countries : List (String × String) := [\n")
		for i, c := range gedcom.Countries {
			sep := ","
			if i == len(gedcom.Countries)-1 {
				sep = ""
			}
			fmt.Fprintf(&b, "  (%q, %q)%s\n", c, strings.ToLower(c), sep)
		}
		b.WriteString("]\n\n")
		var plain []string
		for _, k := range kinds {
			if k == "IndividualNode" || k == "FamilyNode" {
				continue
			}
			ok := true
			for _, v := range []string{"zz1", "3 Sep 1943", "@I1@", "A /B/ C"} {
				func() {
					defer func() {
						if recover() != nil {
							ok = false
						}
					}()
					for tag, kk := range c15tagOfKind() {
						if kk != k {
							continue
						}
						doc, err := gedcom.NewDocumentFromString("0 @F@ FAM\n1 " + tag + " " + v + "\n")
						if err != nil || len(doc.Nodes()) == 0 || len(doc.Nodes()[0].Nodes()) == 0 || doc.Nodes()[0].Nodes()[0].String() != v {
							ok = false
						}
						break
					}
				}()
			}
			if ok {
				plain = append(plain, fmt.Sprintf("%q", k))
			}
		}
		b.WriteString("/-- node types whose String() is the node's value (probe: three values through the decoder) -/\n")
		fmt.Fprintf(&b, "def stringIsValue : List String := [%s]\n\n", strings.Join(plain, ", "))
		func() {
			defer func() { recover() }()
			d, _ := gedcom.NewDocumentFromString("0 HEAD\n")
			fmt.Fprintf(&b, "/-- Document.MaxLivingAge of a decoded document -/\ndef maxLivingAge : Nat := %d\n\n", int(d.MaxLivingAge))
		}()

		// --- where package q starts goroutines (go/ast over its non-test sources): the single deferred
		// recover of Engine.Evaluate only protects the goroutine that called it
		func() {
			sites, ok := c15concurrencySites()
			b.WriteString("/-- `go` statements and worker-pool calls in the non-test sources of package q\n")
			b.WriteString("    (`<file>:<function>: <what>`); `none`: the sources were not found -/\n")
			if !ok {
				b.WriteString("def concurrencySites : Option (List String) := none\n\n")
				return
			}
			var qs []string
			for _, x := range sites {
				qs = append(qs, fmt.Sprintf("%q", x))
			}
			fmt.Fprintf(&b, "def concurrencySites : Option (List String) := some [%s]\n\n", strings.Join(qs, ", "))
		}()

		// --- flags
		rec := c15probeClass("Combine(1)") != "panic"
		fmt.Fprintf(&b, "/-- Engine.Evaluate converts a panic of the evaluation into an error (probe: `Combine(1)`) -/\n")
		fmt.Fprintf(&b, "def evaluateRecovers : Bool := %v\n\n", rec)
		recEmpty := func() (ok bool) {
			ok = true
			for _, docs := range [][]*gedcom.Document{nil, {}} {
				func() {
					defer func() {
						if recover() != nil {
							ok = false
						}
					}()
					eng, err := q.NewParser().ParseString(".Individuals")
					if err != nil {
						ok = false
						return
					}
					if _, err := eng.Evaluate(docs); err == nil {
						ok = false
					}
				}()
			}
			return
		}()
		fmt.Fprintf(&b, "/-- Engine.Evaluate's recover also covers `documents[0]`: with no documents (nil or empty slice) it\n    returns an error (probe: `.Individuals` on both) -/\n")
		fmt.Fprintf(&b, "def evaluateRecoversNoDocuments : Bool := %v\n\n", recEmpty)
		nan := c15probeClass(`"NaN" = "nan"`) != "value:true"
		fmt.Fprintf(&b, "/-- a NaN spelling on both sides is compared numerically (probe: `\"NaN\" = \"nan\"` is false) -/\n")
		fmt.Fprintf(&b, "def nanIsNumeric : Bool := %v\n\n", nan)
		cyc := c15probeCycle()
		fmt.Fprintf(&b, "/-- a variable that is re-entered while it is being evaluated is reported as an error\n")
		fmt.Fprintf(&b, "    (probe in a child process: `X is X; X` gave %q) -/\n", cyc)
		fmt.Fprintf(&b, "def cycleGuard : Bool := %v\n\n", cyc == "error")
		panics := func(f func()) (p bool) {
			defer func() {
				if recover() != nil {
					p = true
				}
			}()
			f()
			return false
		}
		var sink bytes.Buffer
		isNilP := panics(func() { (&q.GEDCOMFormatter{Writer: &sink}).Write("x") }) ||
			panics(func() { (&q.HTMLFormatter{Writer: &sink}).Write(1) })
		fmt.Fprintf(&b, "/-- GEDCOMFormatter / HTMLFormatter panic on a string or number (nil test on a non-nillable kind) -/\n")
		fmt.Fprintf(&b, "def fmtIsNilPanics : Bool := %v\n\n", isNilP)
		csvP := panics(func() { (&q.CSVFormatter{Writer: &sink}).Write([]*gedcom.NameNode{nil}) })
		fmt.Fprintf(&b, "/-- CSVFormatter panics on a slice that holds a nil node pointer -/\n")
		fmt.Fprintf(&b, "def fmtCsvNilPanics : Bool := %v\n\n", csvP)
		b.WriteString("end Gedcom.Generated.Query\n")
		return b.String()
	}
}
