package main

// C07 / C09: decisions that rest on an exact tie of two Years() values.
//
// Date.Equals cases B and C compare float64 Years(); the model compares exact fractions.  When two
// different dates have the same fraction (16 Dec 1880 and the midpoint of "Dec 1880") Go's answer
// depends on the last bit.  The Lean driver marks every response in which such a comparison can
// occur with " ~tie" (Gedcom/Model/EqualTies.lean); exactly those requests are compared as
// inconclusive and counted, everything else is compared as it is.

import "strings"

// c07TieDates: the tie shapes — the 16th of a 31-day month / 15 Feb of a leap year against the
// month, 2 Jul of a non-leap year against the year (that one is float-exact) — with the
// constraints that make Date.Equals compare Years().
var c07TieDates = []string{"16 Dec 1880", "Dec 1880", "Aft. Dec 1880", "Bef. 16 Dec 1880", "Bef. Dec 1880", "Aft. 16 Dec 1880",
	"15 Feb 1880", "Feb 1880", "Bef. Feb 1880", "Aft. 15 Feb 1880", "2 Jul 1881", "1881", "Bef. 2 Jul 1881", "Aft. 1881",
	"16 Jul 1943", "Bef. Jul 1943", "16 Mar 1900", "Aft. Mar 1900"}

func c07tieCompare(c *Ctx) func(req, impl, model string) bool {
	return func(req, impl, model string) bool {
		if !strings.HasSuffix(model, " ~tie") {
			return impl == model
		}
		c.Count("float-tie-inconclusive")
		if impl != strings.TrimSuffix(model, " ~tie") {
			c.Count("float-tie-inconclusive-and-different")
		}
		return true
	}
}

// c07tiePinned: the probed shapes, both operand orders, all constraint combinations.
func c07tiePinned(c *Ctx) {
	shapes := [][2]string{{"16 Dec 1880", "Dec 1880"}, {"15 Feb 1880", "Feb 1880"}, {"2 Jul 1881", "1881"}, {"16 Jul 1943", "Jul 1943"}}
	cons := []string{"", "Abt. ", "Bef. ", "Aft. "}
	for _, s := range shapes {
		for _, c1 := range cons {
			for _, c2 := range cons {
				a, b := T("DATE", c1+s[0], ""), T("DATE", c2+s[1], "")
				c07laws(c, a, b, "pair", "")
				c07laws(c, T("BIRT", "", "", a.Clone()), T("BIRT", "", "", b.Clone()), "pair", "")
				c07laws(c, T("RESI", "", "", a.Clone(), T("PLAC", "x", "")), T("RESI", "", "", T("PLAC", "x", ""), b.Clone()), "pair", "")
			}
		}
	}
}
