package main

import (
	"fmt"
	"go/ast"
	"go/parser"
	"go/token"
	"path/filepath"
	"strconv"
	"strings"
)

// Translator for the line writer: the body of SimpleNode.GEDCOMLine (simple_node.go) is a short
// straight-line sequence of guarded buffer writes.  It is translated statement by statement into a
// program of the Lean type Gedcom.Emit.Emit (Generated/EncoderFacts.lean); Props/C01 proves that
// running the translated program is the model's `renderLine`.  Plus go/ast facts about
// Encoder.renderNode / Encode / Document.GEDCOMString (terminator, child indent, BOM first).

type emitCtx struct {
	bound map[string]string // local variable -> piece (".ptr", ".value")
	buf   string            // name of the buffer / builder the function writes to
}

// bufferDecl recognises the declaration of the output buffer: `x := bytes.NewBufferString("")`,
// `var x strings.Builder`, `var x bytes.Buffer`, `x := &strings.Builder{}`, `x := new(strings.Builder)`.
func bufferDecl(st ast.Stmt) string {
	isBufType := func(e ast.Expr) bool {
		sel, ok := e.(*ast.SelectorExpr)
		if !ok {
			return false
		}
		x, _ := sel.X.(*ast.Ident)
		return x != nil && ((x.Name == "strings" && sel.Sel.Name == "Builder") || (x.Name == "bytes" && sel.Sel.Name == "Buffer"))
	}
	switch st := st.(type) {
	case *ast.AssignStmt:
		if st.Tok != token.DEFINE || len(st.Lhs) != 1 || len(st.Rhs) != 1 {
			return ""
		}
		id, ok := st.Lhs[0].(*ast.Ident)
		if !ok {
			return ""
		}
		switch r := st.Rhs[0].(type) {
		case *ast.CallExpr:
			if sel, ok := r.Fun.(*ast.SelectorExpr); ok && sel.Sel.Name == "NewBufferString" && len(r.Args) == 1 {
				if lit, ok := r.Args[0].(*ast.BasicLit); ok && lit.Value == `""` {
					return id.Name
				}
			}
			if fn, ok := r.Fun.(*ast.Ident); ok && fn.Name == "new" && len(r.Args) == 1 && isBufType(r.Args[0]) {
				return id.Name
			}
		case *ast.UnaryExpr:
			if cl, ok := r.X.(*ast.CompositeLit); ok && r.Op == token.AND && len(cl.Elts) == 0 && isBufType(cl.Type) {
				return id.Name
			}
		}
	case *ast.DeclStmt:
		if gd, ok := st.Decl.(*ast.GenDecl); ok && gd.Tok == token.VAR && len(gd.Specs) == 1 {
			if vs, ok := gd.Specs[0].(*ast.ValueSpec); ok && len(vs.Names) == 1 && len(vs.Values) == 0 && isBufType(vs.Type) {
				return vs.Names[0].Name
			}
		}
	}
	return ""
}

func leanBytes(s string) string {
	parts := []string{}
	for _, b := range []byte(s) {
		parts = append(parts, strconv.Itoa(int(b)))
	}
	return "[" + strings.Join(parts, ", ") + "]"
}

// accessorPiece recognises node.Pointer() / node.Value() / node.Tag().Tag().
func accessorPiece(e ast.Expr) string {
	call, ok := e.(*ast.CallExpr)
	if !ok || len(call.Args) != 0 {
		return ""
	}
	sel, ok := call.Fun.(*ast.SelectorExpr)
	if !ok {
		return ""
	}
	if x, ok := sel.X.(*ast.Ident); ok && x.Name == "node" {
		switch sel.Sel.Name {
		case "Pointer":
			return ".ptr"
		case "Value":
			return ".value"
		}
		return ""
	}
	// node.Tag().Tag()
	if inner, ok := sel.X.(*ast.CallExpr); ok && sel.Sel.Name == "Tag" && len(inner.Args) == 0 {
		if s2, ok := inner.Fun.(*ast.SelectorExpr); ok && s2.Sel.Name == "Tag" {
			if x, ok := s2.X.(*ast.Ident); ok && x.Name == "node" {
				return ".tag"
			}
		}
	}
	return ""
}

// pieces translates the argument of a buffer write into a list of pieces ("" = unsupported).
func (c *emitCtx) pieces(e ast.Expr) []string {
	switch e := e.(type) {
	case *ast.BasicLit:
		if e.Kind == token.STRING || e.Kind == token.CHAR {
			s, err := strconv.Unquote(e.Value)
			if err != nil {
				return nil
			}
			return []string{".lit " + leanBytes(s)}
		}
	case *ast.Ident:
		if e.Name == "indent" {
			return []string{".level"}
		}
		if p, ok := c.bound[e.Name]; ok {
			return []string{p}
		}
	case *ast.CallExpr:
		if p := accessorPiece(e); p != "" {
			return []string{p}
		}
		sel, ok := e.Fun.(*ast.SelectorExpr)
		if !ok {
			return nil
		}
		if x, ok := sel.X.(*ast.Ident); ok && x.Name == "strconv" && sel.Sel.Name == "Itoa" && len(e.Args) == 1 {
			if a, ok := e.Args[0].(*ast.Ident); ok && a.Name == "indent" {
				return []string{".level"}
			}
			return nil
		}
		if x, ok := sel.X.(*ast.Ident); ok && x.Name == "fmt" && sel.Sel.Name == "Sprintf" && len(e.Args) >= 1 {
			lit, ok := e.Args[0].(*ast.BasicLit)
			if !ok || lit.Kind != token.STRING {
				return nil
			}
			format, err := strconv.Unquote(lit.Value)
			if err != nil {
				return nil
			}
			out := []string{}
			arg := 1
			cur := ""
			for i := 0; i < len(format); i++ {
				if format[i] != '%' {
					cur += string(format[i])
					continue
				}
				if i+1 >= len(format) {
					return nil
				}
				verb := format[i+1]
				i++
				if verb == '%' {
					cur += "%"
					continue
				}
				if arg >= len(e.Args) {
					return nil
				}
				ps := c.pieces(e.Args[arg])
				arg++
				if len(ps) != 1 {
					return nil
				}
				// %d only for the level, %s only for strings
				if (verb == 'd') != (ps[0] == ".level") || (verb != 'd' && verb != 's') {
					return nil
				}
				if cur != "" {
					out = append(out, ".lit "+leanBytes(cur))
					cur = ""
				}
				out = append(out, ps[0])
			}
			if cur != "" {
				out = append(out, ".lit "+leanBytes(cur))
			}
			if arg != len(e.Args) {
				return nil
			}
			return out
		}
	}
	return nil
}

// writes translates the statements of a block that only writes to buf.
func (c *emitCtx) writes(stmts []ast.Stmt) ([]string, bool) {
	out := []string{}
	for _, st := range stmts {
		es, ok := st.(*ast.ExprStmt)
		if !ok {
			return nil, false
		}
		call, ok := es.X.(*ast.CallExpr)
		if !ok || len(call.Args) != 1 {
			return nil, false
		}
		sel, ok := call.Fun.(*ast.SelectorExpr)
		if !ok {
			return nil, false
		}
		if x, ok := sel.X.(*ast.Ident); !ok || x.Name != c.buf || (sel.Sel.Name != "WriteString" && sel.Sel.Name != "WriteByte") {
			return nil, false
		}
		ps := c.pieces(call.Args[0])
		if ps == nil {
			return nil, false
		}
		out = append(out, ps...)
	}
	return out, true
}

// mergeLits joins adjacent literal pieces (".lit [a, b]" ".lit [c]" -> ".lit [a, b, c]"), so that the
// program does not depend on how the source chunks its writes.
func mergeLits(ps []string) []string {
	out := []string{}
	for _, p := range ps {
		if strings.HasPrefix(p, ".lit [") && len(out) > 0 && strings.HasPrefix(out[len(out)-1], ".lit [") {
			a := strings.TrimSuffix(out[len(out)-1], "]")
			b := strings.TrimPrefix(p, ".lit [")
			if a == ".lit [" {
				out[len(out)-1] = a + b
			} else if b == "]" {
				out[len(out)-1] = a + "]"
			} else {
				out[len(out)-1] = a + ", " + b
			}
			continue
		}
		out = append(out, p)
	}
	return out
}

func leanPieces(ps []string) string {
	ps = mergeLits(ps)
	q := []string{}
	for _, p := range ps {
		if strings.HasPrefix(p, ".lit") {
			q = append(q, "("+p+")")
		} else {
			q = append(q, p)
		}
	}
	return "[" + strings.Join(q, ", ") + "]"
}

func translateGEDCOMLine(fn *ast.FuncDecl) []string {
	c := &emitCtx{bound: map[string]string{}}
	prog := []string{}
	unsupported := func(what string) []string { return append(prog, ".unsupported -- "+what) }
	for i, st := range fn.Body.List {
		switch st := st.(type) {
		case *ast.AssignStmt, *ast.DeclStmt:
			// the declaration of the output buffer, first statement
			if name := bufferDecl(st); name != "" && i == 0 {
				c.buf = name
				continue
			}
			return unsupported("assignment")
		case *ast.ExprStmt:
			ps, ok := c.writes([]ast.Stmt{st})
			if !ok {
				return unsupported("write")
			}
			prog = append(prog, ".always "+leanPieces(ps))
		case *ast.IfStmt:
			if st.Else != nil {
				return unsupported("else")
			}
			be, ok := st.Cond.(*ast.BinaryExpr)
			if !ok {
				return unsupported("condition")
			}
			if st.Init == nil {
				// if indent >= 0 { … }
				x, okx := be.X.(*ast.Ident)
				y, oky := intLit(be.Y)
				if !okx || x.Name != "indent" || be.Op != token.GEQ || !oky || y != 0 {
					return unsupported("condition")
				}
				ps, ok := c.writes(st.Body.List)
				if !ok {
					return unsupported("guarded write")
				}
				prog = append(prog, ".ifLevelNonNeg "+leanPieces(ps))
				continue
			}
			// if p := node.Pointer(); p != "" { … }
			as, ok := st.Init.(*ast.AssignStmt)
			if !ok || len(as.Lhs) != 1 || len(as.Rhs) != 1 {
				return unsupported("init")
			}
			id, ok := as.Lhs[0].(*ast.Ident)
			src := accessorPiece(as.Rhs[0])
			if !ok || src == "" {
				return unsupported("init")
			}
			x, okx := be.X.(*ast.Ident)
			y, oky := be.Y.(*ast.BasicLit)
			if !okx || x.Name != id.Name || be.Op != token.NEQ || !oky || y.Value != `""` {
				return unsupported("condition")
			}
			c.bound[id.Name] = src
			ps, ok := c.writes(st.Body.List)
			delete(c.bound, id.Name)
			if !ok {
				return unsupported("guarded write")
			}
			prog = append(prog, ".ifNonEmpty "+src+" "+leanPieces(ps))
		case *ast.ReturnStmt:
			// return buf.String()
			if len(st.Results) == 1 {
				if call, ok := st.Results[0].(*ast.CallExpr); ok {
					if sel, ok := call.Fun.(*ast.SelectorExpr); ok && sel.Sel.Name == "String" {
						if x, ok := sel.X.(*ast.Ident); ok && x.Name == c.buf && c.buf != "" && i == len(fn.Body.List)-1 {
							return prog
						}
					}
				}
			}
			return unsupported("return")
		default:
			return unsupported("statement")
		}
	}
	return unsupported("no return")
}

func init() {
	extractors["EncoderFacts"] = func() string {
		var b strings.Builder
		b.WriteString("-- Source: simple_node.go SimpleNode.GEDCOMLine translated statement by statement (go/ast);\n")
		b.WriteString("-- go/ast facts about encoder.go (renderNode, Encode) and the set of GEDCOMLine methods.\n")
		b.WriteString("import Gedcom.Model.Emit\nnamespace Gedcom.Generated\nopen Gedcom.Emit\n\n")
		prog := []string{".unsupported -- GEDCOMLine not found"}
		lineMethods := 0
		terminator := ""
		childDelta := -99
		bomFirst := false
		fset := token.NewFileSet()
		files, _ := filepath.Glob(filepath.Join(repoRoot(), "*.go"))
		for _, path := range files {
			if strings.HasSuffix(path, "_test.go") {
				continue
			}
			file, err := parser.ParseFile(fset, path, nil, 0)
			if err != nil {
				continue
			}
			for _, d := range file.Decls {
				fn, ok := d.(*ast.FuncDecl)
				if !ok || fn.Body == nil {
					continue
				}
				if fn.Name.Name == "GEDCOMLine" && fn.Recv != nil {
					lineMethods++
					if star, ok := fn.Recv.List[0].Type.(*ast.StarExpr); ok {
						if id, ok := star.X.(*ast.Ident); ok && id.Name == "SimpleNode" {
							prog = translateGEDCOMLine(fn)
						}
					}
				}
				if fn.Name.Name == "renderNode" && fn.Recv != nil {
					ast.Inspect(fn.Body, func(n ast.Node) bool {
						switch n := n.(type) {
						case *ast.AssignStmt:
							if len(n.Lhs) == 1 && len(n.Rhs) == 1 {
								id, _ := n.Lhs[0].(*ast.Ident)
								be, _ := n.Rhs[0].(*ast.BinaryExpr)
								if id != nil && be != nil && be.Op == token.ADD {
									if id.Name == "gedcomLine" {
										if call, ok := be.X.(*ast.CallExpr); ok {
											if sel, ok := call.Fun.(*ast.SelectorExpr); ok && sel.Sel.Name == "GEDCOMLine" {
												if lit, ok := be.Y.(*ast.BasicLit); ok && lit.Kind == token.STRING {
													terminator, _ = strconv.Unquote(lit.Value)
												}
											}
										}
									}
									if id.Name == "nextIndent" {
										if x, ok := be.X.(*ast.Ident); ok && x.Name == "indent" {
											if v, ok := intLit(be.Y); ok {
												childDelta = v
											}
										}
									}
								}
							}
						}
						return true
					})
				}
				if fn.Name.Name == "Encode" && fn.Recv != nil && len(fn.Body.List) >= 2 {
					// first statement: err = enc.restoreOptionalBOM(); then a range over the document's nodes
					if as, ok := fn.Body.List[0].(*ast.AssignStmt); ok && len(as.Rhs) == 1 {
						if call, ok := as.Rhs[0].(*ast.CallExpr); ok {
							if sel, ok := call.Fun.(*ast.SelectorExpr); ok && sel.Sel.Name == "restoreOptionalBOM" {
								if _, ok := fn.Body.List[1].(*ast.RangeStmt); ok {
									bomFirst = true
								}
							}
						}
					}
				}
			}
		}
		b.WriteString("/-- `SimpleNode.GEDCOMLine`, statement by statement -/\ndef gedcomLineProgram : List Emit := [\n")
		for i, p := range prog {
			comment := ""
			if k := strings.Index(p, " -- "); k >= 0 {
				comment = "  " + p[k+1:]
				p = p[:k]
			}
			sep := ","
			if i == len(prog)-1 {
				sep = ""
			}
			fmt.Fprintf(&b, "  %s%s%s\n", p, sep, comment)
		}
		b.WriteString("]\n\n")
		fmt.Fprintf(&b, "/-- number of types with a GEDCOMLine method of their own (every node type embeds SimpleNode) -/\ndef gedcomLineMethods : Nat := %d\n", lineMethods)
		fmt.Fprintf(&b, "/-- `renderNode`: what is appended to a line -/\ndef lineTerminator : List UInt8 := %s\n", leanBytes(terminator))
		fmt.Fprintf(&b, "/-- `renderNode`: `nextIndent := indent + …` -/\ndef childIndentDelta : Int := %d\n", childDelta)
		fmt.Fprintf(&b, "/-- `Encode`: the byte order mark is restored first, then the root nodes in order -/\ndef encodeBOMFirst : Bool := %v\n", bomFirst)
		b.WriteString("\nend Gedcom.Generated\n")
		return b.String()
	}
}
