package main

// C13 — Reads never modify a document and views reflect every edit.
//
// One case is a *history*: a decoded document and a sequence of public-API calls (edits and reads)
// addressed by position in the current document.  The real library executes it in-process; the
// Lean cache state machine (Gedcom.Cache.step under the regenerated flags) executes the same
// request line; the observations — every view after every step, plus a digest of the tree — are
// compared (correspondence).  Independently the oracle (S) re-decodes doc.String() after every
// step and compares every view with the fresh document, and checks that reads leave text and
// views unchanged.

import (
	"bytes"
	"fmt"
	"os"
	"os/exec"
	"sort"
	"strconv"
	"strings"
	"time"

	"github.com/elliotchance/gedcom/v39"
	"github.com/elliotchance/gedcom/v39/html"
	"github.com/elliotchance/gedcom/v39/html/core"
	"github.com/elliotchance/gedcom/v39/q"
)

// ---------------------------------------------------------------------------------------------
// operations

type c13Op struct {
	Kind string // model command: an dn sn da ai af afhw dd ds sh sw shp swp ac | nwt inds fams bp if sp pa ch hu wi fc | dump warn foreign inert
	Sub  string // which real read a warn/foreign/inert stands for
	Path []int  // node position for an/dn/sn/nwt
	A, B int    // root indices / child index (-1 = nil)
	Idx  []int  // sn: indices into the current children
	Tag  string
	Val  string
	Ptr  string
	Rep  int // > 1: the op this many times in a row without any observation in between
	Tree *TNode // ant/dat: the subtree handed to AddNode; aic: Ptr + Tree.Kids = AddIndividual(ptr, children...)
}

func c13Path(p []int) string {
	s := strconv.Itoa(len(p))
	for _, i := range p {
		s += " " + strconv.Itoa(i)
	}
	return s
}

// req is the op as the Lean driver reads it.
func (o c13Op) req() string {
	if o.Rep > 1 {
		one := o
		one.Rep = 0
		return fmt.Sprintf("rep %d %s", o.Rep, one.req())
	}
	switch o.Kind {
	case "an":
		return fmt.Sprintf("an %s %s %s %s", c13Path(o.Path), hexs(o.Tag), hexs(o.Val), hexs(o.Ptr))
	case "dn":
		return fmt.Sprintf("dn %s %d", c13Path(o.Path), o.A)
	case "sn":
		s := fmt.Sprintf("sn %s %d", c13Path(o.Path), len(o.Idx))
		for _, i := range o.Idx {
			s += " " + strconv.Itoa(i)
		}
		return s
	case "nwt":
		return fmt.Sprintf("nwt %s %s", c13Path(o.Path), hexs(o.Tag))
	case "dnt":
		return fmt.Sprintf("dnt %s %s", c13Path(o.Path), hexs(o.Tag))
	case "ant":
		return fmt.Sprintf("ant %s %s", c13Path(o.Path), encTree(o.Tree))
	case "dat":
		return "dat " + encTree(o.Tree)
	case "dac":
		return "dac " + encTree(o.Tree)
	case "aic":
		return fmt.Sprintf("aic %s %s", hexs(o.Ptr), encForest(o.Tree.Kids))
	case "nms", "aev":
		return fmt.Sprintf("%s %d", o.Kind, o.A)
	case "evo":
		return fmt.Sprintf("evo %d %s", o.A, hexs(o.Tag))
	case "gs":
		return "gs " + c13Path(o.Path)
	case "ds":
		s := fmt.Sprintf("ds %d", len(o.Idx))
		for _, i := range o.Idx {
			s += " " + strconv.Itoa(i)
		}
		return s
	case "da":
		return fmt.Sprintf("da %s %s %s", hexs(o.Tag), hexs(o.Val), hexs(o.Ptr))
	case "ai", "af", "bp":
		return o.Kind + " " + hexs(o.Ptr)
	case "afhw":
		return fmt.Sprintf("afhw %s %d %d", hexs(o.Ptr), o.A, o.B)
	case "dd", "if", "sp", "pa", "ch", "hu", "wi", "fc":
		return fmt.Sprintf("%s %d", o.Kind, o.A)
	case "sh", "sw", "ac":
		return fmt.Sprintf("%s %d %d", o.Kind, o.A, o.B)
	case "shp", "swp":
		return fmt.Sprintf("%s %d %s", o.Kind, o.A, hexs(o.Ptr))
	case "mla":
		return "inert"
	case "nm": // IndividualNode.AddName is AddNode of a NAME node
		return fmt.Sprintf("an 1 %d %s %s -", o.A, hexs("NAME"), hexs(o.Val))
	case "aed":
		return fmt.Sprintf("aed %d %s %s", o.A, hexs(o.Tag), hexs(o.Val))
	case "ssx":
		return fmt.Sprintf("ssx %d %s", o.A, hexs(o.Val))
	}
	return o.Kind // dump warn foreign inert inds fams
}

// String is the human-readable form used in failure reports.
func (o c13Op) String() string {
	if o.Rep > 1 {
		one := o
		one.Rep = 0
		return fmt.Sprintf("%d x %s", o.Rep, one.String())
	}
	switch o.Kind {
	case "an":
		return fmt.Sprintf("node%v.AddNode(NewNode(%s,%q,%q))", o.Path, o.Tag, o.Val, o.Ptr)
	case "dn":
		return fmt.Sprintf("node%v.DeleteNode(child #%d)", o.Path, o.A)
	case "sn":
		return fmt.Sprintf("node%v.SetNodes(children %v)", o.Path, o.Idx)
	case "nwt":
		return fmt.Sprintf("NodesWithTag(node%v,%s)", o.Path, o.Tag)
	case "dnt":
		return fmt.Sprintf("DeleteNodesWithTag(node%v,%s)", o.Path, o.Tag)
	case "ant":
		return fmt.Sprintf("node%v.AddNode(NewNode(subtree %s))", o.Path, dumpT(o.Tree))
	case "dat":
		return fmt.Sprintf("doc.AddNode(NewNode(subtree %s))", dumpT(o.Tree))
	case "dac":
		return fmt.Sprintf("doc.AddNode(gedcom.DeepCopy(record %s @%s@ of another document, doc))", dumpT(o.Tree), o.Tree.Ptr)
	case "aic":
		return fmt.Sprintf("doc.AddIndividual(%q, children %s)", o.Ptr, dumpT(o.Tree))
	case "nms":
		return fmt.Sprintf("root#%d.Names()", o.A)
	case "aev":
		return fmt.Sprintf("root#%d.AllEvents()", o.A)
	case "evo":
		return fmt.Sprintf("root#%d.%s()", o.A, c13EventAPI[o.Tag])
	case "da":
		return fmt.Sprintf("doc.AddNode(NewNode(%s,%q,%q))", o.Tag, o.Val, o.Ptr)
	case "ai":
		return fmt.Sprintf("doc.AddIndividual(%q)", o.Ptr)
	case "af":
		return fmt.Sprintf("doc.AddFamily(%q)", o.Ptr)
	case "afhw":
		return fmt.Sprintf("doc.AddFamilyWithHusbandAndWife(%q, root#%d, root#%d)", o.Ptr, o.A, o.B)
	case "dd":
		return fmt.Sprintf("doc.DeleteNode(root#%d)", o.A)
	case "ds":
		return fmt.Sprintf("doc.SetNodes(roots %v)", o.Idx)
	case "sh":
		return fmt.Sprintf("root#%d.SetHusband(root#%d)", o.A, o.B)
	case "sw":
		return fmt.Sprintf("root#%d.SetWife(root#%d)", o.A, o.B)
	case "shp":
		return fmt.Sprintf("root#%d.SetHusbandPointer(%q)", o.A, o.Ptr)
	case "swp":
		return fmt.Sprintf("root#%d.SetWifePointer(%q)", o.A, o.Ptr)
	case "ac":
		return fmt.Sprintf("root#%d.AddChild(root#%d)", o.A, o.B)
	case "mla":
		return fmt.Sprintf("doc.MaxLivingAge = %d", o.A)
	case "nm":
		return fmt.Sprintf("root#%d.AddName(%q)", o.A, o.Val)
	case "aed":
		return fmt.Sprintf("root#%d.%s(%q)", o.A, c13DateAPI[o.Tag], o.Val)
	case "ssx":
		return fmt.Sprintf("root#%d.SetSex(%q)", o.A, o.Val)
	case "bp":
		return fmt.Sprintf("doc.NodeByPointer(%q)", o.Ptr)
	case "warn", "foreign", "inert":
		return "read:" + o.Sub
	case "str":
		return "doc.String()"
	case "gs":
		return fmt.Sprintf("node%v.GEDCOMString(0)", o.Path)
	}
	return o.req()
}

// apiName is the library method an op calls (used to class failures).
func (o c13Op) apiName() string {
	switch o.Kind {
	case "an":
		return "Node.AddNode"
	case "dn":
		return "Node.DeleteNode"
	case "sn":
		return "Node.SetNodes"
	case "da":
		return "Document.AddNode"
	case "dnt":
		return "DeleteNodesWithTag"
	case "ant":
		return "Node.AddNode(subtree)"
	case "dat":
		return "Document.AddNode(subtree)"
	case "dac":
		return "Document.AddNode(DeepCopy " + o.Tree.Tag + ")"
	case "aic":
		return "Document.AddIndividual(children)"
	case "nms":
		return "IndividualNode.Names"
	case "aev":
		return "IndividualNode.AllEvents"
	case "evo":
		return "IndividualNode." + c13EventAPI[o.Tag]
	case "ai":
		return "Document.AddIndividual"
	case "af":
		return "Document.AddFamily"
	case "afhw":
		return "Document.AddFamilyWithHusbandAndWife"
	case "dd":
		return "Document.DeleteNode"
	case "ds":
		return "Document.SetNodes"
	case "sh":
		if o.B < 0 {
			return "FamilyNode.SetHusband(nil)"
		}
		return "FamilyNode.SetHusband"
	case "sw":
		if o.B < 0 {
			return "FamilyNode.SetWife(nil)"
		}
		return "FamilyNode.SetWife"
	case "shp":
		return "FamilyNode.SetHusbandPointer"
	case "swp":
		return "FamilyNode.SetWifePointer"
	case "ac":
		return "FamilyNode.AddChild"
	case "mla":
		return "Document.MaxLivingAge="
	case "nm":
		return "IndividualNode.AddName"
	case "aed":
		return "IndividualNode." + c13DateAPI[o.Tag]
	case "ssx":
		return "IndividualNode.SetSex"
	case "warn", "foreign", "inert":
		return o.Sub
	case "str":
		return "Document.String"
	case "gs":
		return "Node.GEDCOMString"
	}
	return o.Kind
}

var c13EventAPI = map[string]string{"BIRT": "Births", "BAPM": "Baptisms", "DEAT": "Deaths", "BURI": "Burials"}

// dumpT renders a subtree for failure reports.
func dumpT(t *TNode) string {
	if t == nil {
		return "nil"
	}
	s := t.Tag
	if t.Value != "" {
		s += fmt.Sprintf(" %q", t.Value)
	}
	if len(t.Kids) > 0 {
		s += "{"
		for i, k := range t.Kids {
			if i > 0 {
				s += ", "
			}
			s += dumpT(k)
		}
		s += "}"
	}
	return s
}

// c13Build makes the subtree with the variadic constructor (children handed to NewNode, no AddNode
// call): a tag NewNode panics for anywhere in the tree makes the whole construction fail.
func c13Build(t *TNode) (n gedcom.Node, ok bool) {
	defer func() {
		if r := recover(); r != nil {
			n, ok = nil, false
		}
	}()
	var kids []gedcom.Node
	for _, k := range t.Kids {
		kn, kok := c13Build(k)
		if !kok {
			return nil, false
		}
		kids = append(kids, kn)
	}
	if !c13Plain(t.Tag) {
		return nil, false
	}
	return gedcom.NewNode(gedcom.TagFromString(t.Tag), t.Value, t.Ptr, kids...), true
}

// c13NoRoles: no HUSB/WIFE/CHIL line anywhere, and INDI/FAM only at the root.
func c13NoRoles(t *TNode) bool {
	switch t.Tag {
	case "HUSB", "WIFE", "CHIL":
		return false
	}
	for _, k := range t.Kids {
		if k.Tag == "INDI" || k.Tag == "FAM" || !c13NoRoles(k) {
			return false
		}
	}
	return true
}

// c13Text writes a subtree as GEDCOM lines.
func c13Text(t *TNode, level int) string {
	s := strconv.Itoa(level)
	if t.Ptr != "" {
		s += " @" + t.Ptr + "@"
	}
	s += " " + t.Tag
	if t.Value != "" {
		s += " " + t.Value
	}
	s += "\n"
	for _, k := range t.Kids {
		s += c13Text(k, level+1)
	}
	return s
}

var c13DateAPI = map[string]string{"BIRT": "AddBirthDate", "BAPM": "AddBaptismDate", "DEAT": "AddDeathDate", "BURI": "AddBurialDate"}

func c13Culprit() string {
	if c13QueryCulprit == "" {
		return ""
	}
	return " [" + c13QueryCulprit + "]"
}

func c13IsRead(kind string) bool {
	switch kind {
	case "nwt", "inds", "fams", "bp", "if", "sp", "pa", "ch", "hu", "wi", "fc", "nms", "evo", "aev", "dump", "warn", "foreign", "inert", "str", "gs":
		return true
	}
	return false
}

func c13Plain(tag string) bool {
	switch tag {
	case "INDI", "FAM", "HUSB", "WIFE", "CHIL":
		return false
	}
	return true
}

// ---------------------------------------------------------------------------------------------
// the document under test

type c13Doc struct {
	doc    *gedcom.Document
	other  *gedcom.Document // target of DeepCopy / Filter
	second *gedcom.Document // a second live document edited in the same process
}

func (d *c13Doc) root(i int) gedcom.Node {
	ns := d.doc.Nodes()
	if i < 0 || i >= len(ns) {
		return nil
	}
	return ns[i]
}

func (d *c13Doc) resolve(p []int) gedcom.Node {
	if len(p) == 0 {
		return nil
	}
	n := d.root(p[0])
	for _, i := range p[1:] {
		if n == nil {
			return nil
		}
		ks := n.Nodes()
		if i < 0 || i >= len(ks) {
			return nil
		}
		n = ks[i]
	}
	return n
}

func (d *c13Doc) indi(i int) *gedcom.IndividualNode {
	if n, ok := d.root(i).(*gedcom.IndividualNode); ok && n != nil {
		return n
	}
	return nil
}

func (d *c13Doc) fam(i int) *gedcom.FamilyNode {
	if n, ok := d.root(i).(*gedcom.FamilyNode); ok && n != nil {
		return n
	}
	return nil
}

// ptrFreeOfIndi mirrors the model's precondition: no root individual carries the pointer.
func (d *c13Doc) ptrFreeOfIndi(p string) bool {
	for _, n := range d.doc.Nodes() {
		if _, ok := n.(*gedcom.IndividualNode); ok && n.Pointer() == p {
			return false
		}
	}
	return true
}

func c13Paths(doc *gedcom.Document) map[gedcom.Node]string {
	m := map[gedcom.Node]string{}
	var walk func(n gedcom.Node, p string, depth int)
	walk = func(n gedcom.Node, p string, depth int) {
		if depth > 599 {
			return
		}
		if _, ok := m[n]; !ok {
			m[n] = p
		}
		for i, k := range n.Nodes() {
			walk(k, p+"."+strconv.Itoa(i), depth+1)
		}
	}
	for i, r := range doc.Nodes() {
		walk(r, strconv.Itoa(i), 0)
	}
	return m
}

// c13PathCache lets one dump compute the positions once (reads do not move nodes).
var c13PathCache map[gedcom.Node]string

func c13Show(doc *gedcom.Document, ns []gedcom.Node) string {
	paths := c13PathCache
	if paths == nil {
		paths = c13Paths(doc)
	}
	parts := make([]string, len(ns))
	for i, n := range ns {
		switch {
		case gedcom.IsNil(n):
			parts[i] = "n"
		default:
			if p, ok := paths[n]; ok {
				parts[i] = p
			} else {
				parts[i] = "x"
			}
		}
	}
	return "[" + strings.Join(parts, ",") + "]"
}

func c13Nodes(xs interface{}) []gedcom.Node {
	var out []gedcom.Node
	switch v := xs.(type) {
	case gedcom.Nodes:
		for _, n := range v {
			out = append(out, n)
		}
	case gedcom.IndividualNodes:
		for _, n := range v {
			out = append(out, n)
		}
	case gedcom.FamilyNodes:
		for _, n := range v {
			out = append(out, n)
		}
	case gedcom.ChildNodes:
		for _, n := range v {
			out = append(out, n)
		}
	}
	return out
}

const c13FNVOffset = 14695981039346656037
const c13FNVPrime = 1099511628211

func c13FNV(s string) string {
	h := uint64(c13FNVOffset)
	for i := 0; i < len(s); i++ {
		h = (h ^ uint64(s[i])) * c13FNVPrime
	}
	return fmt.Sprintf("%016x", h)
}

func c13Digest(doc *gedcom.Document) string {
	h := uint64(c13FNVOffset)
	add := func(s string) {
		for i := 0; i < len(s); i++ {
			h = (h ^ uint64(s[i])) * c13FNVPrime
		}
	}
	var walk func(n gedcom.Node, d int)
	walk = func(n gedcom.Node, d int) {
		if d > 599 {
			return
		}
		add(strconv.Itoa(d))
		add(" ")
		add(n.Tag().Tag())
		add(" ")
		add(n.Value())
		add(" ")
		add(n.Pointer())
		add("\n")
		for _, k := range n.Nodes() {
			walk(k, d+1)
		}
	}
	for _, r := range doc.Nodes() {
		walk(r, 0)
	}
	return fmt.Sprintf("%016x", h)
}

// view evaluates one read of the property on the real document.
func c13View(doc *gedcom.Document, kind string, n gedcom.Node, arg string) string {
	switch kind {
	case "nwt":
		return c13Show(doc, c13Nodes(gedcom.NodesWithTag(n, gedcom.TagFromString(arg))))
	case "inds":
		return c13Show(doc, c13Nodes(doc.Individuals()))
	case "fams":
		return c13Show(doc, c13Nodes(doc.Families()))
	case "bp":
		return c13Show(doc, []gedcom.Node{doc.NodeByPointer(arg)})
	case "if":
		return c13Show(doc, c13Nodes(n.(*gedcom.IndividualNode).Families()))
	case "sp":
		return c13Show(doc, c13Nodes(n.(*gedcom.IndividualNode).Spouses()))
	case "pa":
		return c13Show(doc, c13Nodes(n.(*gedcom.IndividualNode).Parents()))
	case "ch":
		return c13Show(doc, c13Nodes(n.(*gedcom.IndividualNode).Children()))
	case "hu":
		return c13Show(doc, []gedcom.Node{n.(*gedcom.FamilyNode).Husband()})
	case "wi":
		return c13Show(doc, []gedcom.Node{n.(*gedcom.FamilyNode).Wife()})
	case "fc":
		return c13Show(doc, c13Nodes(n.(*gedcom.FamilyNode).Children()))
	case "nms":
		var out []gedcom.Node
		for _, x := range n.(*gedcom.IndividualNode).Names() {
			out = append(out, x)
		}
		return c13Show(doc, out)
	case "aev":
		return c13Show(doc, c13Nodes(n.(*gedcom.IndividualNode).AllEvents()))
	case "evo":
		var out []gedcom.Node
		i := n.(*gedcom.IndividualNode)
		switch arg {
		case "BIRT":
			for _, x := range i.Births() {
				out = append(out, x)
			}
		case "BAPM":
			for _, x := range i.Baptisms() {
				out = append(out, x)
			}
		case "DEAT":
			for _, x := range i.Deaths() {
				out = append(out, x)
			}
		case "BURI":
			for _, x := range i.Burials() {
				out = append(out, x)
			}
		default:
			return "bad"
		}
		return c13Show(doc, out)
	}
	return "?"
}

// c13Dump reads every view named in the property, in the order of Driver.dumpViews.
func c13Dump(doc *gedcom.Document) string {
	s, _ := c13DumpL(doc, false)
	return s
}

// c13DumpL also returns a label per view ("I@I1@.Families()", …) when asked to.
func c13DumpL(doc *gedcom.Document, withLabels bool) (s string, labels []string) {
	defer func() {
		c13PathCache = nil
		if r := recover(); r != nil {
			s = fmt.Sprintf("panic:%v", r)
		}
	}()
	c13PathCache = c13Paths(doc)
	out := []string{"t="}
	labels = []string{"tree digest"}
	add := func(label, v string) {
		out = append(out, v)
		if withLabels {
			labels = append(labels, label)
		}
	}
	add("doc.Individuals()", c13View(doc, "inds", nil, ""))
	add("doc.Families()", c13View(doc, "fams", nil, ""))
	viewName := map[string]string{"if": "Families()", "sp": "Spouses()", "pa": "Parents()", "ch": "Children()",
		"hu": "Husband()", "wi": "Wife()", "fc": "Children()"}
	for ri, r := range doc.Nodes() {
		name := fmt.Sprintf("root#%d(%s @%s@)", ri, r.Tag().Tag(), r.Pointer())
		if p := r.Pointer(); p != "" {
			add(fmt.Sprintf("doc.NodeByPointer(%q)", p), c13View(doc, "bp", nil, p))
		}
		_, isI := r.(*gedcom.IndividualNode)
		_, isF := r.(*gedcom.FamilyNode)
		var probe []string
		if isI {
			probe = []string{"NAME", "BIRT", "DEAT", "FAMS", "FAMC"}
		} else if isF {
			probe = []string{"HUSB", "WIFE", "CHIL"}
		}
		for _, t := range probe {
			add("NodesWithTag("+name+","+t+")", c13View(doc, "nwt", r, t))
		}
		for ki, k := range r.Nodes() {
			switch k.Tag().Tag() {
			case "BIRT", "DEAT", "NAME":
				add(fmt.Sprintf("NodesWithTag(%s.child#%d %s,DATE)", name, ki, k.Tag().Tag()), c13View(doc, "nwt", k, "DATE"))
			}
		}
		if isI {
			for _, v := range []string{"if", "sp", "pa", "ch"} {
				add("individual "+name+"."+viewName[v], c13View(doc, v, r, ""))
			}
			add("individual "+name+".Names()", c13View(doc, "nms", r, ""))
			for _, t := range []string{"BIRT", "BAPM", "DEAT", "BURI"} {
				add("individual "+name+"."+c13EventAPI[t]+"()", c13View(doc, "evo", r, t))
			}
			add("individual "+name+".AllEvents()", c13View(doc, "aev", r, ""))
		}
		if isF {
			for _, v := range []string{"hu", "wi", "fc"} {
				add("family "+name+"."+viewName[v], c13View(doc, v, r, ""))
			}
		}
	}
	out[0] = "t=" + c13Digest(doc)
	return strings.Join(out, "/"), labels
}

type c13MemWriter struct{ n int }

func (w *c13MemWriter) WriteFile(f *core.File) error {
	var b bytes.Buffer
	_, err := f.Component.WriteHTMLTo(&b)
	w.n += b.Len()
	return err
}

var c13Queries = func() []string {
	qs := []string{
		".Individuals | .Name | .String",
		".Families | Length",
		".Individuals | { name: .Name | .String, born: .Birth | .String }",
		".Individuals | .Spouses | Length",
		".Nodes | Length",
	}
	// Slice-aliasing shapes: First(k) re-slices and keeps the capacity, and several accessors hand
	// out slices the document or a node owns (.Nodes = Document.nodes / the children of a node,
	// .Families = the remembered family list, an individual's .Families / .Spouses).  A function that
	// appends onto such a prefix writes into the owner's array.  X ranges over every list accessor
	// of the document and, nested, of its records.
	lists := []string{".Nodes", ".Individuals", ".Families", ".Sources"}
	for _, outer := range []string{".Nodes", ".Individuals", ".Families"} {
		for _, inner := range []string{".Nodes", ".Names", ".Families", ".Spouses", ".Parents", ".Children", ".Births", ".AllEvents"} {
			lists = append(lists, outer+" | "+inner)
			if inner == ".Nodes" || inner == ".Families" || inner == ".Spouses" {
				lists = append(lists, outer+" | First(1) | "+inner, outer+" | Last(1) | "+inner)
			}
		}
	}
	for _, x := range lists {
		for _, k := range []string{"0", "1", "2"} {
			qs = append(qs,
				"Combine("+x+" | First("+k+"), "+x+" | Last(1))",
				"Combine("+x+" | First("+k+"), "+x+")",
				"Combine("+x+" | First(3) | First("+k+"), "+x+" | Last(2), "+x+" | First(1))",
				"Combine("+x+" | First("+k+"), Combine("+x+" | Last(1), "+x+" | First(1)))",
				"Combine("+x+" | Last(2) | First(1), "+x+" | First(2))")
		}
		qs = append(qs,
			"Combine("+x+" | Only(.Pointer = \"I1\") | First(1), "+x+" | Last(1))",
			"Combine("+x+" | First(1), "+x+" | Only(.Pointer != \"\"))",
			x+" | First(1) | Length", x+" | Last(1) | Length")
	}
	qs = append(qs,
		"Combine(.Nodes | First(1), .Individuals)", // mixed element types: an error, must still be pure
		"Combine(.Families | First(1), .Families | Last(1)) | .Husband",
		"Xs are .Nodes | First(1); Combine(Xs, .Nodes | Last(1))")
	return qs
}()

type c13StockFilter struct {
	name string
	fn   func() gedcom.FilterFunction
}

func c13StockFilters() []c13StockFilter {
	return []c13StockFilter{
		{name: "RemoveDuplicateNamesFilter()", fn: gedcom.RemoveDuplicateNamesFilter},
		{name: "OfficialTagFilter()", fn: gedcom.OfficialTagFilter},
		{name: "SimpleNameFilter(NameFormatWritten)", fn: func() gedcom.FilterFunction { return gedcom.SimpleNameFilter(gedcom.NameFormatWritten) }},
		{name: "SimpleNameFilter(NameFormatIndex)", fn: func() gedcom.FilterFunction { return gedcom.SimpleNameFilter(gedcom.NameFormatIndex) }},
		{name: "OnlyVitalsTagFilter()", fn: gedcom.OnlyVitalsTagFilter},
		{name: "RemoveEmptyDeathTagFilter()", fn: gedcom.RemoveEmptyDeathTagFilter},
		{name: "WhitelistTagFilter(INDI, NAME, BIRT, DATE)", fn: func() gedcom.FilterFunction {
			return gedcom.WhitelistTagFilter(gedcom.TagIndividual, gedcom.TagName, gedcom.TagBirth, gedcom.TagDate)
		}},
		{name: "BlacklistTagFilter(NAME, SEX, NOTE)", fn: func() gedcom.FilterFunction {
			return gedcom.BlacklistTagFilter(gedcom.TagName, gedcom.TagSex, gedcom.TagNote)
		}},
	}
}

// c13FilterStart is the tree digest of the live document when the Filter read began.
var c13FilterStart string

// c13SideEffect is set by a read that changed a document *other* than the one under test (the second
// operand of a diff); the caller reports it.
var c13SideEffect string

// c13QueryCulprit names the first query of a Query read after which the records or the family list
// of the live document were no longer what they were (for the failure report).
var c13QueryCulprit string

// c13Variants derives two documents with the same records from a GEDCOM text: "bare" (every level-1
// node stripped of its children) and "detailed" (every childless level-1 node given children), so
// that diffing pairs bare nodes with detailed ones that count as Equal.
func c13Variants(text string) (bare, detailed string) {
	lines := strings.Split(strings.TrimRight(text, "\n"), "\n")
	var b, d strings.Builder
	for i, l := range lines {
		if l == "" {
			continue
		}
		lvl := l[0]
		if lvl == '0' || lvl == '1' {
			b.WriteString(l + "\n")
		}
		d.WriteString(l + "\n")
		if lvl == '1' {
			leaf := i+1 >= len(lines) || lines[i+1] == "" || lines[i+1][0] <= '1'
			if leaf {
				switch {
				case strings.HasPrefix(l, "1 BIRT"), strings.HasPrefix(l, "1 DEAT"), strings.HasPrefix(l, "1 BURI"),
					strings.HasPrefix(l, "1 BAPM"), strings.HasPrefix(l, "1 MARR"):
					d.WriteString("2 DATE 1 Feb 1901\n2 PLAC Sydney\n")
				default:
					d.WriteString("2 SOUR @S9@\n")
				}
			}
		}
	}
	return b.String(), d.String()
}

// c13WalkDiff exercises every read of a NodeDiff on every entry.
func c13WalkDiff(nd *gedcom.NodeDiff, depth int) {
	if nd == nil || depth > 16 {
		return
	}
	_ = nd.String()
	_ = nd.IsDeepEqual()
	_ = nd.LeftNode()
	_ = nd.RightNode()
	_ = nd.Tag()
	for _, ch := range nd.Children {
		c13WalkDiff(ch, depth+1)
	}
	nd.Sort()
	_ = nd.String()
}

// c13DiffRead is the diff read of the property: CompareNodes(a, b) followed by Sort(), LeftNode(),
// RightNode(), String() and IsDeepEqual() on every entry — the document against itself, and in both
// operand orders against a bare and a detailed variant of itself.  Returns a description of a change
// to one of the variant documents ("" = none); the document under test is judged by the caller.
func c13DiffRead(doc *gedcom.Document) (effect string) {
	defer func() {
		if r := recover(); r != nil {
			effect = fmt.Sprintf("diff panicked: %v", r)
		}
	}()
	bareText, detailedText := c13Variants(doc.String())
	pairRoots := func(a, b *gedcom.Document, swap bool) {
		an, bn := a.Nodes(), b.Nodes()
		for i := 0; i < len(an) && i < len(bn); i++ {
			if swap {
				c13WalkDiff(gedcom.CompareNodes(bn[i], an[i]), 0)
			} else {
				c13WalkDiff(gedcom.CompareNodes(an[i], bn[i]), 0)
			}
		}
	}
	pairRoots(doc, doc, false)
	for _, vt := range []struct{ name, text string }{{"bare", bareText}, {"detailed", detailedText}} {
		for _, swap := range []bool{false, true} {
			v, err := gedcom.NewDocumentFromString(vt.text)
			if err != nil {
				continue
			}
			before, labels := c13FullDump(v)
			textBefore := v.String()
			pairRoots(doc, v, swap)
			order := "CompareNodes(document, " + vt.name + " variant)"
			if swap {
				order = "CompareNodes(" + vt.name + " variant, document)"
			}
			if v.String() != textBefore {
				return order + " + Sort/LeftNode/RightNode changed the text of the " + vt.name + " variant: " + v.String() + " (was " + textBefore + ")"
			}
			after, _ := c13FullDump(v)
			if df := c13DumpDiff(after, before, labels); df != "" {
				return order + " + Sort/LeftNode/RightNode changed a view of the " + vt.name + " variant: " + df
			}
		}
	}
	return ""
}

// blackBox performs one of the read-only operations the property names.
func (d *c13Doc) blackBox(sub string) {
	doc := d.doc
	if sub == "Filter" {
		c13FilterStart = c13Digest(doc)
	}
	switch sub {
	case "Warnings":
		_ = doc.Warnings()
	case "String":
		_ = doc.String()
	case "GEDCOMString":
		for _, n := range doc.Nodes() {
			_ = n.GEDCOMString(0)
		}
	case "Compare":
		a := doc.Individuals()
		_ = a.Compare(a, gedcom.NewIndividualNodesCompareOptions())
	case "SurroundingSimilarity":
		is := doc.Individuals()
		for i := range is {
			for j := range is {
				_ = is[i].SurroundingSimilarity(is[j], gedcom.NewSimilarityOptions(), true)
			}
		}
	case "CompareNodes":
		c13SideEffect = c13DiffRead(doc)
	case "DeepCopy":
		for _, n := range doc.Nodes() {
			d.other.AddNode(gedcom.DeepCopy(n, d.other))
		}
	case "Filter":
		// every stock filter applied DIRECTLY to the live records (copying out into another document),
		// and FilterFlags.Filter with every flag on
		for _, f := range c13StockFilters() {
			for _, n := range doc.Nodes() {
				func() {
					defer func() { recover() }() // a filter that fails on a record is not judged here; purity is
					if c := gedcom.Filter(n, d.other, f.fn()); c != nil {
						d.other.AddNode(c)
					}
				}()
				if c13QueryCulprit == "" && c13Digest(doc) != c13FilterStart {
					c13QueryCulprit = "gedcom.Filter(record, otherDocument, " + f.name + ")"
				}
			}
		}
		ff := &gedcom.FilterFlags{NoEvents: true, NoResidences: true, NoPlaces: true, NoSources: true, NoMaps: true,
			NoChanges: true, NoObjects: true, NoLabels: true, NoCensuses: true, NoEmptyDeaths: true,
			NoDuplicateNames: true, OnlyVitals: true, OnlyOfficial: true, NameFormat: "written"}
		for _, n := range doc.Nodes() {
			func() {
				defer func() { recover() }()
				_ = ff.Filter(n, d.other)
			}()
		}
	case "Query":
		state := func() string { return c13Digest(doc) + c13View(doc, "fams", nil, "") }
		before := state()
		for _, src := range c13Queries {
			func() {
				defer func() { recover() }() // a query that fails is C15's subject; purity is judged by the caller
				if e, err := q.NewParser().ParseString(src); err == nil {
					_, _ = e.Evaluate([]*gedcom.Document{doc})
				}
			}()
			if c13QueryCulprit == "" {
				if now := state(); now != before {
					c13QueryCulprit = "query: " + src // the caller's before/after comparison reports the change itself
				}
			}
		}
	case "OtherDocEdit": // a second live document in the same process: its edits reset the global node cache
		if d.second == nil {
			d.second, _ = gedcom.NewDocumentFromString(c13SmallDoc)
		}
		if d.second != nil {
			if is := d.second.Individuals(); len(is) > 0 {
				_ = is[0].Names()
				_ = is[0].Names()
				is[0].AddName("Second /Doc/")
				_ = is[0].Families()
				if ks := is[0].Nodes(); len(ks) > 2 {
					is[0].DeleteNode(ks[len(ks)-1])
				}
				_ = d.second.String()
			}
		}
	case "DecodeError": // a decode that fails half way (error return) after it already added nodes
		_, _ = gedcom.NewDocumentFromString("0 @X1@ INDI\n1 NAME a /b/\n2 GIVN a\nthis is not a line\n")
		func() { // … and one that panics (the decoder's documented "indent is too large"), recovered
			defer func() { recover() }()
			_, _ = gedcom.NewDocumentFromString("0 @X1@ INDI\n1 NAME a /b/\n3 NAME too deep\n")
		}()
	case "Decode": // decoding any other document resets the process-global node cache
		_, _ = gedcom.NewDocumentFromString("0 @X1@ INDI\n1 NAME a /b/\n")
	}
}

var c13ForeignSubs = []string{"Compare", "SurroundingSimilarity", "CompareNodes", "DeepCopy", "Filter", "OtherDocEdit", "DecodeError"}
var c13InertSubs = []string{"Query"}

// apply executes one op on the real document and returns the observation in the model's format.
func (d *c13Doc) apply(o c13Op) (obs string) {
	if o.Rep > 1 {
		one := o
		one.Rep = 0
		for i := 0; i < o.Rep; i++ {
			obs = d.apply(one)
		}
		return obs
	}
	defer func() {
		if r := recover(); r != nil {
			obs = fmt.Sprintf("panic:%v", r)
		}
	}()
	doc := d.doc
	absent := gedcom.NewNode(gedcom.TagNote, "not a child", "")
	switch o.Kind {
	case "dump":
		return c13Dump(doc)
	case "warn", "foreign", "inert":
		d.blackBox(o.Sub)
		return "."
	case "str":
		return "s=" + c13FNV(doc.String())
	case "gs":
		n := d.resolve(o.Path)
		if n == nil {
			return "bad"
		}
		return "s=" + c13FNV(n.GEDCOMString(0))
	case "inds", "fams":
		return c13View(doc, o.Kind, nil, "")
	case "bp":
		return c13View(doc, "bp", nil, o.Ptr)
	case "if", "sp", "pa", "ch":
		n := d.indi(o.A)
		if n == nil {
			return "bad"
		}
		return c13View(doc, o.Kind, n, "")
	case "hu", "wi", "fc":
		n := d.fam(o.A)
		if n == nil {
			return "bad"
		}
		return c13View(doc, o.Kind, n, "")
	case "nms", "aev", "evo":
		n := d.indi(o.A)
		if n == nil {
			return "bad"
		}
		return c13View(doc, o.Kind, n, o.Tag)
	case "dnt":
		n := d.resolve(o.Path)
		if n == nil {
			return "bad"
		}
		gedcom.DeleteNodesWithTag(n, gedcom.TagFromString(o.Tag))
	case "ant":
		n := d.resolve(o.Path)
		if n == nil {
			return "bad"
		}
		t, ok := c13Build(o.Tree)
		if !ok {
			return "bad"
		}
		n.AddNode(t)
	case "dat":
		t, ok := c13Build(o.Tree)
		if !ok {
			return "bad"
		}
		doc.AddNode(t)
	case "dac":
		// a record of ANOTHER document (decoded from text), copied for this document with DeepCopy and
		// added with the generic Document.AddNode: the way an INDI / FAM record gets into a document
		// without AddIndividual / AddFamily.  Role lines (HUSB/WIFE/CHIL) anywhere below make DeepCopy
		// add a family to the target as a side effect: outside the model, rejected on both sides.
		if !c13NoRoles(o.Tree) {
			return "bad"
		}
		src, err := gedcom.NewDocumentFromString(c13Text(o.Tree, 0))
		if err != nil || len(src.Nodes()) != 1 {
			return "bad"
		}
		doc.AddNode(gedcom.DeepCopy(src.Nodes()[0], doc))
	case "aic":
		var kids []gedcom.Node
		for _, k := range o.Tree.Kids {
			kn, ok := c13Build(k)
			if !ok {
				return "bad"
			}
			kids = append(kids, kn)
		}
		doc.AddIndividual(o.Ptr, kids...)
	case "nwt":
		n := d.resolve(o.Path)
		if n == nil {
			return "bad"
		}
		return c13View(doc, "nwt", n, o.Tag)
	case "mla": // a field of the document changes; no view the model knows depends on it
		doc.MaxLivingAge = float64(o.A)
		c13MaxLivingAge = doc.MaxLivingAge
	case "an":
		n := d.resolve(o.Path)
		if n == nil {
			return "bad"
		}
		if !c13Plain(o.Tag) {
			// NewNode panics for INDI/FAM/HUSB/WIFE/CHIL (no document / family): a failed operation that
			// must leave no trace.  The model answers `bad`.
			func() {
				defer func() { recover() }()
				n.AddNode(gedcom.NewNode(gedcom.TagFromString(o.Tag), o.Val, o.Ptr))
			}()
			return "bad"
		}
		n.AddNode(gedcom.NewNode(gedcom.TagFromString(o.Tag), o.Val, o.Ptr))
	case "dn":
		n := d.resolve(o.Path)
		if n == nil {
			return "bad"
		}
		ks := n.Nodes()
		if o.A >= 0 && o.A < len(ks) {
			n.DeleteNode(ks[o.A])
		} else {
			n.DeleteNode(absent)
		}
	case "sn":
		n := d.resolve(o.Path)
		if n == nil {
			return "bad"
		}
		ks := n.Nodes()
		var nk gedcom.Nodes
		for _, i := range o.Idx {
			if i < 0 || i >= len(ks) {
				return "bad"
			}
			nk = append(nk, ks[i])
		}
		// an identity prefix is handed over as the node's OWN slice (re-sliced), not as a copy: the
		// result of Nodes() fed back as the argument
		alias := len(o.Idx) > 0
		for j, i := range o.Idx {
			if i != j {
				alias = false
			}
		}
		if alias {
			nk = ks[:len(o.Idx)]
		}
		n.SetNodes(nk)
	case "da":
		if !c13Plain(o.Tag) { // NewNode panics for these; INDI / FAM records come in through "dac"
			return "bad"
		}
		doc.AddNode(gedcom.NewNode(gedcom.TagFromString(o.Tag), o.Val, o.Ptr))
	case "ai":
		doc.AddIndividual(o.Ptr)
	case "af":
		if !d.ptrFreeOfIndi(o.Ptr) {
			return "bad"
		}
		doc.AddFamily(o.Ptr)
	case "afhw":
		var h, w *gedcom.IndividualNode
		if o.A >= 0 {
			if h = d.indi(o.A); h == nil {
				return "bad"
			}
		}
		if o.B >= 0 {
			if w = d.indi(o.B); w == nil {
				return "bad"
			}
		}
		if !d.ptrFreeOfIndi(o.Ptr) {
			return "bad"
		}
		doc.AddFamilyWithHusbandAndWife(o.Ptr, h, w)
	case "ds":
		var nk gedcom.Nodes
		for _, i := range o.Idx {
			r := d.root(i)
			if r == nil {
				return "bad"
			}
			nk = append(nk, r)
		}
		doc.SetNodes(nk)
	case "dd":
		if r := d.root(o.A); r != nil {
			doc.DeleteNode(r)
		} else {
			doc.DeleteNode(absent)
		}
	case "sh", "sw":
		f := d.fam(o.A)
		var i *gedcom.IndividualNode
		if o.B >= 0 {
			if i = d.indi(o.B); i == nil {
				return "bad"
			}
		}
		if f == nil {
			return "bad"
		}
		if o.Kind == "sh" {
			f.SetHusband(i)
		} else {
			f.SetWife(i)
		}
	case "shp", "swp":
		f := d.fam(o.A)
		if f == nil {
			return "bad"
		}
		if o.Kind == "shp" {
			f.SetHusbandPointer(o.Ptr)
		} else {
			f.SetWifePointer(o.Ptr)
		}
	case "ac":
		f, i := d.fam(o.A), d.indi(o.B)
		if f == nil || i == nil {
			return "bad"
		}
		f.AddChild(i)
	case "nm":
		if i := d.indi(o.A); i != nil {
			i.AddName(o.Val)
		} else if r := d.root(o.A); r != nil { // the model sees AddNode(NAME) on whatever record it is
			r.AddNode(gedcom.NewNode(gedcom.TagName, o.Val, ""))
		} else {
			return "bad"
		}
	case "aed":
		i := d.indi(o.A)
		if i == nil {
			return "bad"
		}
		switch o.Tag {
		case "BIRT":
			i.AddBirthDate(o.Val)
		case "BAPM":
			i.AddBaptismDate(o.Val)
		case "DEAT":
			i.AddDeathDate(o.Val)
		case "BURI":
			i.AddBurialDate(o.Val)
		default:
			return "bad"
		}
	case "ssx":
		i := d.indi(o.A)
		if i == nil {
			return "bad"
		}
		i.SetSex(o.Val)
	default:
		return "bad-op"
	}
	return "."
}

// ---------------------------------------------------------------------------------------------
// running one history: correspondence request + oracle

type c13Step struct {
	Op  string `json:"op"`
	Obs string `json:"observed,omitempty"`
}

type c13Failure struct {
	Document string    `json:"document"`
	History  []c13Step `json:"history"`
}

// c13Fresh decodes the text again and dumps every view of the fresh document (plus the unique
// identifiers of its individuals, which are recorded but not judged).
func c13Fresh(text string) (string, string, error) {
	fresh, err := gedcom.NewDocumentFromString(text)
	if err != nil {
		return "", "", err
	}
	fresh.MaxLivingAge = c13MaxLivingAge // a field of the document, not part of the text
	c13FreshFull, c13FreshFullLabels = nil, nil
	if c13WantFull {
		c13FreshFull, c13FreshFullLabels = c13FullDump(fresh)
	}
	return c13Dump(fresh), c13UIDs(fresh), nil
}

// c13MaxLivingAge mirrors Document.MaxLivingAge of the live document (set by the "mla" op).
var c13MaxLivingAge = gedcom.DefaultMaxLivingAge

// the every-view-of-every-record dump of the last fresh decode (Go-only oracle; c13WantFull turns it on)
var c13WantFull bool
var c13FreshFull, c13FreshFullLabels []string

// c13UIDs: IndividualNode.UniqueIdentifiers() of every individual record (a cached view derived from
// the individual's _UID / FamilySearch id children; compared by the oracle, not part of the model).
func c13UIDs(doc *gedcom.Document) (s string) {
	defer func() {
		if r := recover(); r != nil {
			s = fmt.Sprintf("panic:%v", r)
		}
	}()
	var parts []string
	for i, n := range doc.Individuals() {
		ids := n.UniqueIdentifiers().Strings()
		sort.Strings(ids)
		// views that depend on a field of the document (MaxLivingAge) and on parsed dates (DateNode
		// remembers its parse): IsLiving, first birth/death date
		b, _ := n.Birth()
		dth, _ := n.Death()
		parts = append(parts, fmt.Sprintf("%d:%s;living=%v;b=%s;d=%s", i, strings.Join(ids, "+"), n.IsLiving(), b.String(), dth.String()))
	}
	// every DATE node's remembered parse, by position
	var walk func(n gedcom.Node, pos string, depth int)
	walk = func(n gedcom.Node, pos string, depth int) {
		if depth > 64 {
			return
		}
		if dn, ok := n.(*gedcom.DateNode); ok {
			parts = append(parts, pos+"="+dn.String())
		}
		for i, k := range n.Nodes() {
			walk(k, pos+"."+strconv.Itoa(i), depth+1)
		}
	}
	for i, r := range doc.Nodes() {
		walk(r, strconv.Itoa(i), 0)
	}
	return strings.Join(parts, " ")
}

var c13UUIDs = []string{"11111111-2222-3333-4444-555555555555", "aaaaaaaa-bbbb-cccc-dddd-eeeeeeeeeeee"}

type c13Runner struct {
	c       *Ctx
	d       *c13Doc
	text0   string
	req     strings.Builder
	obs     []string
	steps   []c13Step
	last    string // last dump of the live document (warm caches)
	dumps   int
	failed  bool
	checkS  bool
	nOps    int
	changed int
}

func c13NewRunner(c *Ctx, text string) (*c13Runner, error) {
	doc, err := gedcom.NewDocumentFromString(text)
	if err != nil {
		return nil, err
	}
	c13MaxLivingAge = gedcom.DefaultMaxLivingAge
	r := &c13Runner{c: c, d: &c13Doc{doc: doc, other: gedcom.NewDocument()}, text0: text, checkS: true}
	r.req.WriteString("c13 " + encForest(abstractNodes(doc.Nodes())) + " ops")
	// two dumps: the first call of NodesWithTag on a node only registers it
	r.emit(c13Op{Kind: "dump"})
	r.emit(c13Op{Kind: "dump"})
	c13UIDs(doc) // UniqueIdentifiers() is remembered from its first call on
	return r, nil
}

func (r *c13Runner) emit(o c13Op) string {
	if r.nOps > 0 {
		r.req.WriteString(" ;")
	}
	r.nOps++
	r.req.WriteString(" " + o.req())
	obs := r.d.apply(o)
	r.obs = append(r.obs, obs)
	if o.Kind == "dump" {
		r.last = obs
		r.dumps++
	}
	return obs
}

func (r *c13Runner) fail(key, what, observed, expected string) {
	if r.failed {
		return
	}
	r.failed = true
	r.c.Oracle(key, what, c13Failure{Document: r.text0, History: append([]c13Step(nil), r.steps...)}, observed, expected)
}

// firstDiff names the first view on which two dumps differ: (index, left, right).
func c13FirstDiff(a, b string) (int, string, string) {
	as, bs := strings.Split(a, "/"), strings.Split(b, "/")
	for i := 0; i < len(as) || i < len(bs); i++ {
		x, y := "(missing)", "(missing)"
		if i < len(as) {
			x = as[i]
		}
		if i < len(bs) {
			y = bs[i]
		}
		if x != y {
			return i, x, y
		}
	}
	return -1, "", ""
}

// label of view #i of the live document's dump
func (r *c13Runner) label(i int) string {
	_, labels := c13DumpL(r.d.doc, true)
	if i >= 0 && i < len(labels) {
		return labels[i]
	}
	return fmt.Sprintf("view #%d", i)
}

// staleKey is the matcher for one narrow class of failure: a view derived from a family's HUSB/WIFE/CHIL
// children (an individual's families, spouses, parents, children; a family's husband or wife) is out of
// date although the children-by-tag view of that family is right — i.e. the per-individual / per-family
// cache was not invalidated by an edit of a family's children or by Document.DeleteNode.
func c13StaleKey(label string) string {
	if strings.HasPrefix(label, "individual ") {
		return "stale-individual-family-links"
	}
	if strings.HasPrefix(label, "family ") && (strings.HasSuffix(label, "Husband()") || strings.HasSuffix(label, "Wife()")) {
		return "stale-family-spouse"
	}
	return ""
}

// do performs one op of the history with the full protocol around it:
//
//	op ; dump ; (S: re-decode the text — which resets the global node cache, `foreign` in the
//	model —, compare every view; for reads compare text and views with before) ; dump ; dump
func (r *c13Runner) do(o c13Op) {
	c := r.c
	before := r.last
	textBefore := ""
	isRead := c13IsRead(o.Kind)
	uidsBefore := ""
	if isRead && r.checkS {
		uidsBefore = c13UIDs(r.d.doc)
		textBefore = r.d.doc.String()
		// String() itself is a read; its effect on caches is none
	}
	c13SideEffect = ""
	c13QueryCulprit = ""
	obs := r.emit(o)
	r.steps = append(r.steps, c13Step{Op: o.String(), Obs: obs})
	if c13SideEffect != "" {
		r.fail("", "a read changed another document: "+o.apiName(), c13SideEffect, "both operands unchanged")
	}
	c.Count("op=" + o.Kind)
	if strings.HasPrefix(obs, "panic:") {
		r.fail("", "operation panicked: "+o.apiName(), obs, "no panic")
	}
	after := r.emit(c13Op{Kind: "dump"})
	if strings.HasPrefix(after, "panic:") {
		r.fail("", "a view panicked after "+o.apiName(), after, "no panic")
		return
	}
	if after != before {
		r.changed++
	}
	c.Nontrivial(fmt.Sprintf("%s/%v/%v", o.Kind+o.Sub, after != before, obs == "bad"))
	if r.checkS {
		text := r.d.doc.String()
		if isRead {
			if text != textBefore {
				r.fail("", "a read changed the document text: "+o.apiName()+c13Culprit(), text, textBefore)
			} else if after != before {
				i, x, y := c13FirstDiff(after, before)
				r.fail("", "a read changed a view: "+o.apiName()+c13Culprit(), r.label(i)+" = "+x, "before the read: "+y)
			} else if u := c13UIDs(r.d.doc); u != uidsBefore {
				r.fail("", "a read changed a view: "+o.apiName(), "UniqueIdentifiers() = "+u, "before the read: "+uidsBefore)
			}
		}
		fresh, freshUIDs, err := c13Fresh(text)
		r.emit(c13Op{Kind: "foreign", Sub: "Decode"}) // the decode above reset the node cache
		if err == nil {
			if live := c13UIDs(r.d.doc); live != freshUIDs {
				r.fail("", "a view differs from a fresh decode of the current text after "+o.apiName(),
					"UniqueIdentifiers()/IsLiving()/dates = "+live, "fresh decode: "+freshUIDs)
			}
			if c13WantFull && c13FreshFull != nil {
				liveFull, labels := c13FullDump(r.d.doc)
				if df := c13DumpDiff(liveFull, c13FreshFull, labels); df != "" {
					r.fail("", "a view (every view of every record) differs from a fresh decode of the current text after "+o.apiName(), df, "equal")
				}
			}
		}
		if err != nil {
			c.Count("fresh-decode-error")
		} else if fresh != after {
			i, x, y := c13FirstDiff(after, fresh)
			label := r.label(i)
			r.fail(c13StaleKey(label), "a view differs from a fresh decode of the current text after "+o.apiName(),
				label+" = "+x, "fresh decode: "+y)
		}
		// warm the caches again (two rounds, see above)
		r.emit(c13Op{Kind: "dump"})
		r.emit(c13Op{Kind: "dump"})
	}
}

// silent performs exactly n family-link changes between two observations, nothing read in between:
// first the CHIL (variant 0) or HUSB (variant 1) line of F1 is deleted, then F1.SetNodes(its own
// children) and doc.SetNodes(its own records) — each is one `familyLinksVersion++` — n-1 times.
func (r *c13Runner) silent(variant, n int) {
	before := r.last
	first := c13Op{Kind: "dn", Path: []int{3}, A: 1 - variant} // children of F1: 0 HUSB @I1@, 1 CHIL @I2@
	ops := []c13Op{first}
	half := (n - 1) / 2
	ops = append(ops, c13Op{Kind: "sn", Path: []int{3}, Idx: []int{0}, Rep: half},
		c13Op{Kind: "ds", Idx: []int{0, 1, 2, 3}, Rep: n - 1 - half})
	for _, o := range ops {
		if o.Rep == 1 {
			o.Rep = 0
		}
		if o.Rep == 0 && o.Kind != "dn" && n-1 == 0 {
			continue
		}
		obs := r.emit(o)
		r.steps = append(r.steps, c13Step{Op: o.String(), Obs: obs})
	}
	after := r.emit(c13Op{Kind: "dump"})
	text := r.d.doc.String()
	fresh, freshExtras, err := c13Fresh(text)
	r.emit(c13Op{Kind: "foreign", Sub: "Decode"})
	if err != nil {
		return
	}
	if fresh != after {
		i, x, y := c13FirstDiff(after, fresh)
		label := r.label(i)
		r.fail(c13StaleKey(label), fmt.Sprintf("a view differs from a fresh decode after %d unobserved changes", n), label+" = "+x, "fresh decode: "+y)
	} else if live := c13UIDs(r.d.doc); live != freshExtras {
		r.fail("", fmt.Sprintf("a view differs from a fresh decode after %d unobserved changes", n), live, freshExtras)
	}
	if after == before {
		r.c.Count("silent-history-without-visible-change") // would make the stream vacuous
	}
}

// c13SilentGoOnly: the same with n too large for a request line; implementation against a fresh decode.
func c13SilentGoOnly(c *Ctx, n int) {
	doc, err := gedcom.NewDocumentFromString(c13SmallDoc)
	if err != nil {
		return
	}
	c13Dump(doc)
	c13Dump(doc)
	f := doc.Families()[0]
	f.DeleteNode(f.Nodes()[1])
	for i := 1; i < n; i++ {
		f.SetNodes(f.Nodes())
	}
	after := c13Dump(doc)
	c13MaxLivingAge = gedcom.DefaultMaxLivingAge
	fresh, _, err := c13Fresh(doc.String())
	c.Eval()
	c.Count("stream=long-silent-history(go-only)")
	if err == nil && fresh != after {
		_, x, y := c13FirstDiff(after, fresh)
		c.Oracle("", fmt.Sprintf("a view differs from a fresh decode after %d unobserved changes", n),
			c13Failure{Document: c13SmallDoc, History: []c13Step{{Op: "F1.DeleteNode(CHIL)"}, {Op: fmt.Sprintf("%d x F1.SetNodes(F1.Nodes())", n-1)}}}, x, y)
	}
}

func (r *c13Runner) finish() {
	// views_fresh_decode, evaluated on both sides for the final state: every view of the live
	// document against the document rebuilt from its text
	if !r.failed && r.checkS {
		obs := "r=0"
		if fresh, _, err := c13Fresh(r.d.doc.String()); err == nil && fresh == c13Dump(r.d.doc) {
			obs = "r=1"
		}
		r.req.WriteString(" ; rebuild")
		r.obs = append(r.obs, obs)
	}
	r.c.Tie(r.req.String(), strings.Join(r.obs, " "))
	r.c.Eval()
}

// ---------------------------------------------------------------------------------------------
// generators

var c13Names = []string{"John /Smith/", "Jane /Doe/", "Ann /Smith/", "Bob /Jones/", "Al /Doe/"}

// values that are a single delimiter, all non-ASCII, invalid UTF-8 before a special character, all zeros
var c13Awkward = []string{"/", "@", ",", "//", "/ /", "Ünï /Cödé/", "王小明 /王/", "\xff/\xfe/", "\xc3/Sm\xe9/", "0", "000", "@I1@", "a@b", "x,y", "é"}

var c13Years = []string{"1850", "3 Sep 1880", "Abt. 1900", "1 Jan 1920", "Bef. 1950"}

// c13Graph builds the text of a random family graph: nI individuals, nF families.
func c13Graph(r *Rand, nI, nF int) string {
	var b strings.Builder
	b.WriteString("0 HEAD\n1 CHAR UTF-8\n")
	for i := 1; i <= nI; i++ {
		fmt.Fprintf(&b, "0 @I%d@ INDI\n", i)
		first := ""
		for k := r.Intn(3); k > 0; k-- {
			nm := r.Pick(c13Names)
			if first == "" {
				first = nm
			}
			fmt.Fprintf(&b, "1 NAME %s\n", nm)
		}
		repeat := first != "" && r.Chance(1, 3) // the same name again, after other children
		if r.Chance(1, 2) {
			fmt.Fprintf(&b, "1 SEX %s\n", r.Pick([]string{"M", "F"}))
		}
		if r.Chance(1, 3) {
			fmt.Fprintf(&b, "1 _UID %s\n", r.Pick(c13UUIDs))
		}
		if r.Chance(2, 3) {
			b.WriteString("1 BIRT\n")
			for k := r.Intn(3); k > 0; k-- {
				fmt.Fprintf(&b, "2 DATE %s\n", r.Pick(c13Years))
			}
			if r.Chance(1, 3) { // depth 4 below the record
				b.WriteString("2 PLAC Sydney, Australia\n3 MAP\n4 LATI S33.8\n4 LONG E151.2\n3 NOTE n\n")
			}
		}
		if repeat {
			fmt.Fprintf(&b, "1 NAME %s\n", first)
		}
		if r.Chance(1, 3) {
			fmt.Fprintf(&b, "1 DEAT\n2 DATE %s\n", r.Pick(c13Years))
		}
	}
	ref := func() string {
		if nI == 0 || r.Chance(1, 12) {
			return "@I99@" // dangling
		}
		return fmt.Sprintf("@I%d@", 1+r.Intn(nI))
	}
	for f := 1; f <= nF; f++ {
		fmt.Fprintf(&b, "0 @F%d@ FAM\n", f)
		if r.Chance(3, 4) {
			fmt.Fprintf(&b, "1 HUSB %s\n", ref())
		}
		if r.Chance(3, 4) {
			fmt.Fprintf(&b, "1 WIFE %s\n", ref())
		}
		if r.Chance(1, 3) {
			fmt.Fprintf(&b, "1 MARR\n2 DATE %s\n", r.Pick(c13Years))
		}
		for k := r.Intn(4); k > 0; k-- {
			fmt.Fprintf(&b, "1 CHIL %s\n", ref())
		}
	}
	if r.Chance(1, 2) {
		b.WriteString("0 @S1@ SOUR\n1 TITL a source\n")
	}
	b.WriteString("0 TRLR\n")
	return b.String()
}

// randomOp draws an op whose arguments are valid for the current document (so most ops act).
func (d *c13Doc) randomOp(r *Rand, fresh *int) c13Op {
	roots := d.doc.Nodes()
	var inds, fams []int
	for i, n := range roots {
		switch n.(type) {
		case *gedcom.IndividualNode:
			inds = append(inds, i)
		case *gedcom.FamilyNode:
			fams = append(fams, i)
		}
	}
	pick := func(xs []int) int {
		if len(xs) == 0 {
			return 0
		}
		return xs[r.Intn(len(xs))]
	}
	randPath := func() []int {
		if len(roots) == 0 {
			return []int{0}
		}
		p := []int{r.Intn(len(roots))}
		n := roots[p[0]]
		for r.Chance(1, 3) && len(n.Nodes()) > 0 {
			i := r.Intn(len(n.Nodes()))
			p = append(p, i)
			n = n.Nodes()[i]
		}
		return p
	}
	newPtr := func(prefix string) string {
		*fresh++
		if r.Chance(1, 10) && len(roots) > 0 { // reuse an existing pointer now and then
			if p := roots[r.Intn(len(roots))].Pointer(); p != "" {
				return p
			}
		}
		return fmt.Sprintf("%s%d", prefix, 100+*fresh)
	}
	for {
		switch r.Intn(36) {
		case 28, 29: // DeleteNodesWithTag on a record or a node below one
			p := randPath()
			if r.Chance(2, 3) && len(inds)+len(fams) > 0 {
				p = []int{pick(append(append([]int{}, inds...), fams...))}
			}
			tag := r.Pick([]string{"NAME", "BIRT", "DEAT", "FAMS", "FAMC", "HUSB", "WIFE", "CHIL", "NOTE", "DATE", "SEX", "RESI"})
			if n := d.resolve(p); n != nil && len(n.Nodes()) > 0 && r.Chance(1, 2) {
				tag = n.Nodes()[r.Intn(len(n.Nodes()))].Tag().Tag()
			}
			return c13Op{Kind: "dnt", Path: p, Tag: tag}
		case 30: // AddNode of a whole subtree built by the variadic constructor
			p := randPath()
			if r.Chance(2, 3) && len(inds)+len(fams) > 0 {
				p = []int{pick(append(append([]int{}, inds...), fams...))}
			}
			return c13Op{Kind: "ant", Path: p, Tree: c13RandTree(r, 0)}
		case 34, 35: // a record of another document, copied and added with the generic Document.AddNode
			kids := []*TNode{}
			for i := r.Intn(3); i > 0; i-- {
				kids = append(kids, c13RandPlainTree(r))
			}
			switch r.Intn(4) {
			case 0, 1:
				ptr := newPtr("I")
				if r.Chance(1, 3) {
					ptr = "I99" // the pointer the dangling references use
				}
				if len(fams) > 0 && r.Chance(1, 2) {
					kids = append(kids, T(r.Pick([]string{"FAMS", "FAMC"}), "@"+roots[pick(fams)].Pointer()+"@", ""))
				}
				return c13Op{Kind: "dac", Tree: T("INDI", "", ptr, kids...)}
			case 2:
				return c13Op{Kind: "dac", Tree: T("FAM", "", newPtr("F"), kids...)}
			}
			return c13Op{Kind: "dac", Tree: T(r.Pick([]string{"NOTE", "SOUR", "SUBM"}), "", newPtr("N"), kids...)}
		case 31:
			if r.Bool() {
				t := c13RandTree(r, 0)
				t.Ptr = newPtr("N")
				return c13Op{Kind: "dat", Tree: t}
			}
			kids := []*TNode{}
			for i := r.Intn(4); i > 0; i-- {
				kids = append(kids, c13RandTree(r, 1))
			}
			if len(fams) > 0 && r.Chance(1, 2) {
				kids = append(kids, T(r.Pick([]string{"FAMS", "FAMC"}), "@"+roots[pick(fams)].Pointer()+"@", ""))
			}
			ptr := newPtr("I")
			if r.Chance(1, 4) {
				ptr = "I99"
			}
			return c13Op{Kind: "aic", Ptr: ptr, Tree: T("INDI", "", ptr, kids...)}
		case 32, 33:
			if len(inds) == 0 {
				continue
			}
			switch r.Intn(3) {
			case 0:
				return c13Op{Kind: "nms", A: pick(inds)}
			case 1:
				return c13Op{Kind: "aev", A: pick(inds)}
			}
			return c13Op{Kind: "evo", A: pick(inds), Tag: r.Pick([]string{"BIRT", "BAPM", "DEAT", "BURI", "BURI", "MARR"})}
		case 0, 1:
			tag := r.Pick([]string{"NAME", "NAME", "BIRT", "DEAT", "NOTE", "FAMS", "FAMC", "MARR", "SEX", "_UID"})
			val := ""
			switch tag {
			case "NAME":
				val = r.Pick(c13Names)
			case "NOTE":
				val = "n"
			case "SEX":
				val = "M"
			case "_UID":
				val = r.Pick(c13UUIDs)
			case "FAMS", "FAMC":
				val = "@F1@"
			}
			p := randPath()
			if r.Chance(2, 3) && len(inds)+len(fams) > 0 {
				p = []int{pick(append(append([]int{}, inds...), fams...))}
			}
			return c13Op{Kind: "an", Path: p, Tag: tag, Val: val}
		case 2, 3, 4:
			p := randPath()
			if r.Chance(2, 3) && len(inds)+len(fams) > 0 {
				p = []int{pick(append(append([]int{}, inds...), fams...))}
			}
			n := d.resolve(p)
			k := 0
			if n != nil && len(n.Nodes()) > 0 {
				k = r.Intn(len(n.Nodes()))
			}
			if r.Chance(1, 15) {
				k = 99
			}
			return c13Op{Kind: "dn", Path: p, A: k}
		case 5, 6:
			p := randPath()
			if r.Chance(2, 3) && len(inds)+len(fams) > 0 {
				p = []int{pick(append(append([]int{}, inds...), fams...))}
			}
			n := d.resolve(p)
			var idx []int
			if n != nil && !r.Chance(1, 3) {
				perm := r.Perm(len(n.Nodes()))
				for _, i := range perm {
					if r.Chance(2, 3) {
						idx = append(idx, i)
					}
				}
			}
			return c13Op{Kind: "sn", Path: p, Idx: idx}
		case 7:
			return c13Op{Kind: "da", Tag: r.Pick([]string{"NOTE", "SOUR", "SUBM"}), Val: "", Ptr: newPtr("N")}
		case 8:
			if r.Chance(1, 4) {
				return c13Op{Kind: "ai", Ptr: "I99"} // the pointer the dangling references use
			}
			return c13Op{Kind: "ai", Ptr: newPtr("I")}
		case 9:
			return c13Op{Kind: "af", Ptr: newPtr("F")}
		case 10:
			o := c13Op{Kind: "afhw", Ptr: newPtr("F"), A: -1, B: -1}
			if len(inds) > 0 && r.Chance(3, 4) {
				o.A = pick(inds)
			}
			if len(inds) > 0 && r.Chance(3, 4) {
				o.B = pick(inds)
			}
			return o
		case 11, 12:
			if len(roots) == 0 {
				continue
			}
			if r.Chance(1, 6) { // replace the root list by a sub-permutation of itself
				var idx []int
				for _, i := range r.Perm(len(roots)) {
					if r.Chance(4, 5) {
						idx = append(idx, i)
					}
				}
				return c13Op{Kind: "ds", Idx: idx}
			}
			k := r.Intn(len(roots))
			if r.Chance(2, 3) && len(inds)+len(fams) > 0 {
				k = pick(append(append([]int{}, inds...), fams...))
			}
			if r.Chance(1, 15) {
				k = 99
			}
			return c13Op{Kind: "dd", A: k}
		case 13, 14, 15:
			if len(fams) == 0 {
				continue
			}
			o := c13Op{Kind: r.Pick([]string{"sh", "sw"}), A: pick(fams), B: -1}
			if len(inds) > 0 && r.Chance(2, 3) {
				o.B = pick(inds)
			}
			return o
		case 16:
			if len(fams) == 0 {
				continue
			}
			p := "I99"
			if len(inds) > 0 && r.Chance(3, 4) {
				p = roots[pick(inds)].Pointer()
			}
			return c13Op{Kind: r.Pick([]string{"shp", "swp"}), A: pick(fams), Ptr: p}
		case 17, 18:
			if len(fams) == 0 || len(inds) == 0 {
				continue
			}
			return c13Op{Kind: "ac", A: pick(fams), B: pick(inds)}
		case 19:
			return d.randomRead(r)
		case 20:
			if len(inds) == 0 {
				continue
			}
			return c13Op{Kind: "nm", A: pick(inds), Val: r.Pick(c13Names)}
		case 21, 22:
			if len(inds) == 0 {
				continue
			}
			return c13Op{Kind: "aed", A: pick(inds), Tag: r.Pick([]string{"BIRT", "BIRT", "BAPM", "DEAT", "BURI"}), Val: r.Pick(c13Years)}
		case 23:
			if len(inds) == 0 {
				continue
			}
			return c13Op{Kind: "ssx", A: pick(inds), Val: r.Pick([]string{"M", "F", "U"})}
		case 24: // a field of the document
			return c13Op{Kind: "mla", A: []int{0, 1, 50, 100, 150}[r.Intn(5)]}
		case 25: // an operation that fails (NewNode panics) and must leave no trace
			return c13Op{Kind: "an", Path: randPath(), Tag: r.Pick([]string{"HUSB", "CHIL", "INDI", "FAM"}), Val: "@I1@"}
		case 26: // awkward bytes in values
			p := randPath()
			if len(inds) > 0 && r.Bool() {
				return c13Op{Kind: "nm", A: pick(inds), Val: r.Pick(c13Awkward)}
			}
			return c13Op{Kind: "an", Path: p, Tag: r.Pick([]string{"NAME", "NOTE", "PLAC", "_UID"}), Val: r.Pick(c13Awkward)}
		case 27: // SetNodes with the node's own slice, re-sliced (identity prefix)
			p := randPath()
			if n := d.resolve(p); n != nil && len(n.Nodes()) > 0 {
				k := 1 + r.Intn(len(n.Nodes()))
				idx := make([]int, k)
				for i := range idx {
					idx[i] = i
				}
				return c13Op{Kind: "sn", Path: p, Idx: idx}
			}
			continue
		}
	}
}

// c13RandTree draws a subtree of plain tags (now and then one NewNode panics for, which makes the
// whole call fail): events with DATE/PLAC/MAP below, names with parts, notes.
func c13RandTree(r *Rand, depth int) *TNode {
	if r.Chance(1, 25) {
		return T("NOTE", "n", "", T(r.Pick([]string{"HUSB", "CHIL", "INDI", "FAM", "WIFE"}), "@I1@", ""))
	}
	switch r.Intn(5) {
	case 0:
		t := T(r.Pick([]string{"BIRT", "DEAT", "BAPM", "BURI", "RESI", "EVEN", "MARR"}), "", "")
		if r.Chance(3, 4) {
			t.Kids = append(t.Kids, T("DATE", r.Pick(c13Years), ""))
		}
		if r.Chance(1, 2) {
			pl := T("PLAC", "Sydney, Australia", "")
			if r.Chance(1, 2) {
				pl.Kids = append(pl.Kids, T("MAP", "", "", T("LATI", "S33.8", ""), T("LONG", "E151.2", "")))
			}
			t.Kids = append(t.Kids, pl)
		}
		if r.Chance(1, 3) {
			t.Kids = append(t.Kids, T("DATE", r.Pick(c13Years), ""))
		}
		return t
	case 1:
		return T("NAME", r.Pick(c13Names), "", T("GIVN", "G", ""), T("SURN", "S", ""))
	case 2:
		return T("NOTE", r.Pick(c13Awkward), "", T("SOUR", "@S1@", "", T("PAGE", "1", "")))
	case 3:
		if depth < 3 {
			return T("_X", "x", "", c13RandTree(r, depth+1), c13RandTree(r, depth+1))
		}
	}
	return T(r.Pick([]string{"NAME", "NOTE", "_UID", "FAMS"}), r.Pick([]string{"A /B/", "n", "@F1@"}), "")
}

// c13RandPlainTree: a subtree that survives a decode unchanged (no role lines, no empty-valued
// oddities): an event with a date, a name, a note.
func c13RandPlainTree(r *Rand) *TNode {
	switch r.Intn(3) {
	case 0:
		return T(r.Pick([]string{"BIRT", "DEAT", "RESI", "MARR"}), "", "", T("DATE", r.Pick(c13Years), ""))
	case 1:
		return T("NAME", r.Pick(c13Names), "")
	}
	return T("NOTE", "n", "")
}

func (d *c13Doc) randomRead(r *Rand) c13Op {
	switch r.Intn(6) {
	case 4:
		return c13Op{Kind: "str", Sub: "String"}
	case 5:
		p := []int{0}
		if n := len(d.doc.Nodes()); n > 0 {
			p = []int{r.Intn(n)}
			if ks := d.doc.Nodes()[p[0]].Nodes(); len(ks) > 0 && r.Bool() {
				p = append(p, r.Intn(len(ks)))
			}
		}
		return c13Op{Kind: "gs", Sub: "GEDCOMString", Path: p}
	case 0:
		return c13Op{Kind: "warn", Sub: "Warnings"}
	case 1:
		return c13Op{Kind: "foreign", Sub: r.Pick(c13ForeignSubs)}
	case 2:
		return c13Op{Kind: "inert", Sub: r.Pick(c13InertSubs)}
	}
	return c13Op{Kind: "inds"}
}

// the small alphabet of the exhaustive stream, on c13SmallDoc (roots: 0 HEAD, 1 I1, 2 I2, 3 F1)
const c13SmallDoc = "0 HEAD\n0 @I1@ INDI\n1 NAME John /Smith/\n1 BIRT\n2 DATE 1850\n0 @I2@ INDI\n1 NAME Jane /Doe/\n0 @F1@ FAM\n1 HUSB @I1@\n1 CHIL @I2@\n"

var c13Alphabet = []c13Op{
	{Kind: "dn", Path: []int{1}, A: 0},                      // I1.DeleteNode(first child)
	{Kind: "an", Path: []int{1}, Tag: "NAME", Val: "X /Y/"}, // I1.AddNode(NAME)
	{Kind: "sn", Path: []int{3}},                            // F1.SetNodes(nil)
	{Kind: "dd", A: 3},                                      // doc.DeleteNode(F1)
	{Kind: "ac", A: 3, B: 1},                                // F1.AddChild(I1)
	{Kind: "sw", A: 3, B: 2},                                // F1.SetWife(I2)
	{Kind: "sh", A: 3, B: -1},                               // F1.SetHusband(nil)
	{Kind: "ai", Ptr: "I3"},                                 // doc.AddIndividual
	{Kind: "afhw", Ptr: "F2", A: 2, B: 1},                   // doc.AddFamilyWithHusbandAndWife(F2, I2, I1)
}

var c13ThoroughExtra = []c13Op{
	{Kind: "dac", Tree: T("INDI", "", "I4", T("NAME", "C /D/", ""))}, // doc.AddNode(DeepCopy(INDI record of another document))
	{Kind: "dnt", Path: []int{3}, Tag: "HUSB"}, // DeleteNodesWithTag(F1, HUSB)
	{Kind: "aic", Ptr: "I3", Tree: T("INDI", "", "I3", T("NAME", "K /S/", ""), T("FAMC", "@F1@", ""))},
	{Kind: "ds", Idx: []int{0, 2, 3}},  // doc.SetNodes(all but I1)
	{Kind: "dn", Path: []int{3}, A: 0}, // F1.DeleteNode(first child)
	{Kind: "shp", A: 3, Ptr: "I2"},     // F1.SetHusbandPointer(I2)
	{Kind: "dd", A: 1},                 // doc.DeleteNode(I1)
}

// c13Boundary builds a document with `n` on one size dimension and a history that observes, edits at
// the boundary (append one more, delete the first / the last, keep a prefix of n-1) and observes.
func c13Boundary(shape string, n int) (string, []c13Op) {
	var b strings.Builder
	idx := func(k int) []int {
		out := make([]int, k)
		for i := range out {
			out[i] = i
		}
		return out
	}
	switch shape {
	case "names": // one individual with n NAME children (+ one BIRT in the middle)
		b.WriteString("0 @I1@ INDI\n")
		for i := 0; i < n; i++ {
			fmt.Fprintf(&b, "1 NAME N%d /S/\n", i)
			if i == n/2 {
				b.WriteString("1 BIRT\n2 DATE 1850\n")
			}
		}
		return b.String(), []c13Op{{Kind: "nm", A: 0, Val: "One /More/"}, {Kind: "dn", Path: []int{0}, A: 0},
			{Kind: "dn", Path: []int{0}, A: n}, {Kind: "sn", Path: []int{0}, Idx: idx(n - 1)}, {Kind: "nm", A: 0, Val: "After /Prefix/"},
			{Kind: "foreign", Sub: "Filter"}}
	case "records": // n individuals, one family
		for i := 1; i <= n; i++ {
			fmt.Fprintf(&b, "0 @I%d@ INDI\n1 NAME N%d /S/\n", i, i)
		}
		b.WriteString("0 @F1@ FAM\n1 HUSB @I1@\n1 WIFE @I2@\n")
		return b.String(), []c13Op{{Kind: "ai", Ptr: "I9999"}, {Kind: "dd", A: 0}, {Kind: "dd", A: n - 1},
			{Kind: "ds", Idx: idx(n - 1)}, {Kind: "ai", Ptr: "I9998"}, {Kind: "inert", Sub: "Query"}}
	case "children": // one family with n CHIL
		for i := 1; i <= n; i++ {
			fmt.Fprintf(&b, "0 @I%d@ INDI\n", i)
		}
		b.WriteString("0 @F1@ FAM\n1 HUSB @I1@\n")
		for i := 1; i <= n; i++ {
			fmt.Fprintf(&b, "1 CHIL @I%d@\n", i)
		}
		return b.String(), []c13Op{{Kind: "ac", A: n, B: 0}, {Kind: "dn", Path: []int{n}, A: 1}, {Kind: "dn", Path: []int{n}, A: n},
			{Kind: "sn", Path: []int{n}, Idx: idx(n - 1)}, {Kind: "ac", A: n, B: 1}}
	case "marriages": // one person in n families (n spouses)
		b.WriteString("0 @P@ INDI\n1 NAME P /S/\n")
		for i := 1; i <= n; i++ {
			fmt.Fprintf(&b, "0 @I%d@ INDI\n", i)
		}
		for i := 1; i <= n; i++ {
			fmt.Fprintf(&b, "0 @F%d@ FAM\n1 HUSB @P@\n1 WIFE @I%d@\n", i, i)
		}
		return b.String(), []c13Op{{Kind: "afhw", Ptr: "F9999", A: 0, B: 1}, {Kind: "dd", A: n + 1}, {Kind: "dd", A: 2 * n},
			{Kind: "sw", A: n + 1, B: -1}}
	case "depth": // a chain n levels deep below one record
		b.WriteString("0 @I1@ INDI\n")
		for lvl := 1; lvl <= n && lvl <= 98; lvl++ {
			fmt.Fprintf(&b, "%d NOTE level %d\n", lvl, lvl)
		}
		path := []int{0}
		for lvl := 1; lvl < n && lvl < 98; lvl++ {
			path = append(path, 0)
		}
		return b.String(), []c13Op{{Kind: "an", Path: path, Tag: "NOTE", Val: "deeper"}, {Kind: "an", Path: path, Tag: "NOTE", Val: "sibling"},
			{Kind: "dn", Path: path, A: 0}, {Kind: "sn", Path: path[:len(path)-1]}, {Kind: "str", Sub: "String"}}
	default: // "samepointer": n records share one pointer, the last one wins; deleting it gives the previous one back
		for i := 0; i < n; i++ {
			fmt.Fprintf(&b, "0 @X@ NOTE record %d\n", i)
		}
		return b.String(), []c13Op{{Kind: "da", Tag: "NOTE", Val: "one more", Ptr: "X"}, {Kind: "dd", A: n}, {Kind: "dd", A: n - 1},
			{Kind: "dd", A: 0}, {Kind: "ds", Idx: idx(n - 3)}}
	}
}

// c13Directed: the witnesses of the defects this check has found, always run first
// (on c13SmallDoc: roots 0 HEAD, 1 I1, 2 I2, 3 F1 = [HUSB @I1@, CHIL @I2@]).
var c13Directed = [][]c13Op{
	// NodesWithTag after DeleteNode / SetNodes
	{{Kind: "dn", Path: []int{1}, A: 0}},
	{{Kind: "sn", Path: []int{1}}},
	// Families() / NodeByPointer after Document.DeleteNode
	{{Kind: "dd", A: 3}},
	{{Kind: "dd", A: 1}},
	// Families() / NodeByPointer / an individual's spouses after Document.SetNodes
	{{Kind: "ds"}},
	{{Kind: "ds", Idx: []int{3, 1}}},
	{{Kind: "ds", Idx: []int{0, 1, 2}}},
	// an individual's families after AddChild / SetWife / SetHusbandPointer
	{{Kind: "ac", A: 3, B: 1}},
	{{Kind: "sw", A: 3, B: 2}},
	{{Kind: "shp", A: 3, Ptr: "I2"}},
	// a family's husband after a plain DeleteNode / SetNodes / AddNode on the family
	{{Kind: "dn", Path: []int{3}, A: 0}},
	{{Kind: "sn", Path: []int{3}, Idx: []int{1}}},
	// SetHusband(nil) when the family has two adjacent HUSB nodes followed by another child:
	// DeleteNodesWithTag skips the second one, and "no husband" is cached although the text keeps a HUSB
	{{Kind: "af", Ptr: "F9"}, {Kind: "sh", A: 4, B: 1}, {Kind: "sh", A: 4, B: 2}, {Kind: "ac", A: 4, B: 1}, {Kind: "sh", A: 4, B: -1}},
	{{Kind: "af", Ptr: "F9"}, {Kind: "sw", A: 4, B: 1}, {Kind: "sw", A: 4, B: 2}, {Kind: "sw", A: 4, B: 2}, {Kind: "sw", A: 4, B: -1}},
	// the same individual twice as husband: two FAMS links, SetHusband(nil) unlinks in place
	{{Kind: "sh", A: 3, B: 2}, {Kind: "sh", A: 3, B: 2}, {Kind: "an", Path: []int{2}, Tag: "NOTE", Val: "n"}, {Kind: "sh", A: 3, B: -1}},
	// the convenience mutators of IndividualNode: AddName, Add…Date (reads the first event through the
	// cache, then appends), SetSex (overwrites the value of the cached first SEX node)
	{{Kind: "nm", A: 1, Val: "X /Y/"}, {Kind: "aed", A: 1, Tag: "BIRT", Val: "1851"}, {Kind: "aed", A: 2, Tag: "BIRT", Val: "1900"}},
	{{Kind: "dn", Path: []int{1}, A: 1}, {Kind: "aed", A: 1, Tag: "BIRT", Val: "1851"}, {Kind: "aed", A: 1, Tag: "DEAT", Val: "1900"}},
	{{Kind: "ssx", A: 1, Val: "M"}, {Kind: "ssx", A: 1, Val: "F"}, {Kind: "sn", Path: []int{1}}, {Kind: "ssx", A: 1, Val: "U"}},
	// a field of the document changes between two observations; an operation that fails (NewNode panics);
	// a second live document edited in the same process; a decode that fails half way
	{{Kind: "mla", A: 0}, {Kind: "aed", A: 1, Tag: "DEAT", Val: "1900"}, {Kind: "mla", A: 150}},
	{{Kind: "an", Path: []int{3}, Tag: "HUSB", Val: "@I2@"}, {Kind: "an", Path: []int{1}, Tag: "INDI"}, {Kind: "dn", Path: []int{3}, A: 0}},
	{{Kind: "foreign", Sub: "OtherDocEdit"}, {Kind: "dn", Path: []int{1}, A: 0}, {Kind: "foreign", Sub: "OtherDocEdit"}, {Kind: "foreign", Sub: "DecodeError"}, {Kind: "nm", A: 1, Val: "/"}},
	// awkward bytes: a value that is one delimiter, non-ASCII, invalid UTF-8 before '/', zeros
	{{Kind: "nm", A: 1, Val: "/"}, {Kind: "nm", A: 1, Val: "\xff/\xfe/"}, {Kind: "an", Path: []int{1}, Tag: "NOTE", Val: "@"}, {Kind: "an", Path: []int{1, 1}, Tag: "PLAC", Val: "王, 000"}, {Kind: "dn", Path: []int{1}, A: 0}},
	// edits two and three levels below the record that holds the memo, between observations
	{{Kind: "an", Path: []int{1, 1}, Tag: "PLAC", Val: "Sydney"}, {Kind: "an", Path: []int{1, 1, 1}, Tag: "MAP"}, {Kind: "an", Path: []int{1, 1, 1, 0}, Tag: "LATI", Val: "S1"},
		{Kind: "dn", Path: []int{1, 1, 1, 0}, A: 0}, {Kind: "sn", Path: []int{1, 1}, Idx: []int{1}}, {Kind: "dn", Path: []int{1, 1}, A: 0}},
	// duplicate pointers: the later record wins, deleting it gives the earlier one back
	{{Kind: "ai", Ptr: "I1"}, {Kind: "dd", A: 4}},
	{{Kind: "af", Ptr: "F1"}, {Kind: "dd", A: 4}},
	// DeleteNodesWithTag with warm caches: names / births of an individual, husband and children of a
	// family (the individuals' families change), a tag nobody has, one level down
	{{Kind: "dnt", Path: []int{1}, Tag: "NAME"}, {Kind: "nm", A: 1, Val: "X /Y/"}},
	{{Kind: "dnt", Path: []int{1}, Tag: "BIRT"}, {Kind: "aed", A: 1, Tag: "BIRT", Val: "1851"}},
	{{Kind: "dnt", Path: []int{3}, Tag: "HUSB"}, {Kind: "sh", A: 3, B: 2}},
	{{Kind: "dnt", Path: []int{3}, Tag: "CHIL"}, {Kind: "ac", A: 3, B: 1}},
	{{Kind: "dnt", Path: []int{1}, Tag: "RESI"}, {Kind: "dnt", Path: []int{1, 1}, Tag: "DATE"}, {Kind: "dnt", Path: []int{9}, Tag: "NAME"}},
	// the named views of an individual as single reads (also part of every dump)
	{{Kind: "nms", A: 1}, {Kind: "evo", A: 1, Tag: "BIRT"}, {Kind: "aev", A: 1}, {Kind: "evo", A: 1, Tag: "MARR"}, {Kind: "nms", A: 3}, {Kind: "aev", A: 0}},
	// AddNode of a subtree built by the variadic constructor, on an individual, on a family, two levels
	// down; a subtree NewNode refuses; then edits inside the new subtree
	{{Kind: "ant", Path: []int{1}, Tree: T("BIRT", "", "", T("DATE", "1851", ""), T("PLAC", "Sydney", "", T("MAP", "", "", T("LATI", "S1", ""))))},
		{Kind: "aed", A: 1, Tag: "BIRT", Val: "1900"}, {Kind: "dnt", Path: []int{1, 2}, Tag: "DATE"}, {Kind: "dnt", Path: []int{1}, Tag: "BIRT"}},
	{{Kind: "ant", Path: []int{3}, Tree: T("MARR", "", "", T("DATE", "1870", ""))}, {Kind: "ant", Path: []int{3, 2}, Tree: T("PLAC", "Here", "", T("MAP", "", ""))}},
	{{Kind: "ant", Path: []int{1}, Tree: T("NOTE", "n", "", T("HUSB", "@I2@", ""))}, {Kind: "ant", Path: []int{7}, Tree: T("NOTE", "n", "")}, {Kind: "dn", Path: []int{1}, A: 0}},
	// Document.AddNode of a subtree; AddIndividual with children (a name, a birth, a link to the family)
	{{Kind: "dat", Tree: T("SOUR", "", "S1", T("TITL", "t", ""), T("NOTE", "n", "", T("CONT", "m", "")))}, {Kind: "dat", Tree: T("NOTE", "", "I1", T("CONT", "m", ""))}, {Kind: "dd", A: 4}},
	{{Kind: "aic", Ptr: "I3", Tree: T("INDI", "", "I3", T("NAME", "Kid /Smith/", "", T("GIVN", "Kid", "")), T("BIRT", "", "", T("DATE", "1880", "")), T("FAMC", "@F1@", ""))},
		{Kind: "ac", A: 3, B: 4}, {Kind: "aed", A: 4, Tag: "BIRT", Val: "1881"}, {Kind: "dnt", Path: []int{4}, Tag: "NAME"}},
	{{Kind: "aic", Ptr: "I1", Tree: T("INDI", "", "I1", T("NAME", "Twin /Smith/", ""))}, {Kind: "aic", Ptr: "I4", Tree: T("INDI", "", "I4", T("NOTE", "n", "", T("CHIL", "@I1@", "")))}, {Kind: "dd", A: 4}},
}

// a document whose family refers to a person that does not exist yet (roots: 0 I1, 1 F1)
const c13DanglingDoc = "0 @I1@ INDI\n1 NAME John /Smith/\n0 @F1@ FAM\n1 HUSB @I1@\n1 WIFE @I9@\n1 CHIL @I8@\n"

var c13DirectedDangling = [][]c13Op{
	// AddIndividual makes a dangling WIFE/CHIL reference resolve: the spouses cached for I1 change
	{{Kind: "ai", Ptr: "I9"}},
	{{Kind: "ai", Ptr: "I8"}},
	{{Kind: "ai", Ptr: "I9"}, {Kind: "dd", A: 2}},
	// the same through AddIndividual with children
	{{Kind: "aic", Ptr: "I9", Tree: T("INDI", "", "I9", T("NAME", "W /X/", ""), T("FAMS", "@F1@", ""))}, {Kind: "dnt", Path: []int{1}, Tag: "WIFE"}},
	{{Kind: "aic", Ptr: "I8", Tree: T("INDI", "", "I8", T("BIRT", "", "", T("DATE", "1900", "")), T("FAMC", "@F1@", ""))}, {Kind: "dnt", Path: []int{1}, Tag: "CHIL"}},
}

// generic Document.AddNode of a record copied from another document, every view warm (each step of a
// history is preceded by dumps of all views): an INDI record, a FAM record, a non-record node
var c13DirectedAddRecord = [][]c13Op{
	{{Kind: "dac", Tree: T("INDI", "", "I3", T("NAME", "New /Person/", ""), T("BIRT", "", "", T("DATE", "1900", "")))}, {Kind: "inds"}, {Kind: "bp", Ptr: "I3"}},
	{{Kind: "dac", Tree: T("FAM", "", "F2", T("MARR", "", "", T("DATE", "1870", "")))}, {Kind: "fams"}, {Kind: "shp", A: 4, Ptr: "I2"}},
	{{Kind: "dac", Tree: T("NOTE", "", "N1", T("CONT", "x", ""))}, {Kind: "dac", Tree: T("SUBM", "", "U1")}},
	{{Kind: "dac", Tree: T("INDI", "", "I1", T("NAME", "Same /Pointer/", ""))}, {Kind: "sp", A: 2}, {Kind: "dd", A: 4}},
	{{Kind: "dac", Tree: T("FAM", "", "F1", T("CHIL", "@I1@", ""))}, {Kind: "dac", Tree: T("INDI", "", "I5", T("NOTE", "n", "", T("HUSB", "@I1@", "")))}},
}

// on c13DanglingDoc (roots: 0 I1, 1 F1 with WIFE @I9@ and CHIL @I8@): the record makes a reference resolve
var c13DirectedAddRecordDangling = [][]c13Op{
	{{Kind: "dac", Tree: T("INDI", "", "I9", T("NAME", "Jane /Doe/", ""), T("BIRT", "", "", T("DATE", "1900", "")))}},
	{{Kind: "dac", Tree: T("INDI", "", "I8", T("NAME", "Kid /Smith/", ""), T("FAMC", "@F1@", ""))}, {Kind: "dac", Tree: T("INDI", "", "I9", T("FAMS", "@F1@", ""))}},
}

// on c13RepeatedNamesDoc (roots: 0 I1, 1 F1): matching children interleaved with others
var c13DirectedRepeated = [][]c13Op{
	{{Kind: "nms", A: 0}, {Kind: "dnt", Path: []int{0}, Tag: "NAME"}, {Kind: "nms", A: 0}},
	{{Kind: "aev", A: 0}, {Kind: "dnt", Path: []int{0}, Tag: "BIRT"}, {Kind: "aev", A: 0}, {Kind: "dnt", Path: []int{0}, Tag: "DEAT"}},
	{{Kind: "nm", A: 0, Val: "John /Smith/"}, {Kind: "nm", A: 0, Val: "John /Smith/"}, {Kind: "dnt", Path: []int{0}, Tag: "NAME"}},
}

// an individual whose first name is repeated between other children, and an empty death
const c13RepeatedNamesDoc = "0 @I1@ INDI\n1 NAME John /Smith/\n1 SEX M\n1 NAME John /Smith/\n1 BIRT\n2 DATE 1850\n1 NAME Jon /Smith/\n1 DEAT\n1 NOTE n\n0 @F1@ FAM\n1 HUSB @I1@\n"

// an individual with a unique id (roots: 0 I1)
const c13UIDDoc = "0 @I1@ INDI\n1 NAME John /Smith/\n1 _UID 11111111-2222-3333-4444-555555555555\n"

var c13DirectedUID = [][]c13Op{
	// UniqueIdentifiers() after the children of the individual change
	{{Kind: "sn", Path: []int{0}}},
	{{Kind: "dn", Path: []int{0}, A: 1}},
	{{Kind: "an", Path: []int{0}, Tag: "_UID", Val: "aaaaaaaa-bbbb-cccc-dddd-eeeeeeeeeeee"}},
}

func c13AllReads() []c13Op {
	var out []c13Op
	out = append(out, c13Op{Kind: "warn", Sub: "Warnings"})
	for _, s := range c13ForeignSubs {
		out = append(out, c13Op{Kind: "foreign", Sub: s})
	}
	for _, s := range c13InertSubs {
		out = append(out, c13Op{Kind: "inert", Sub: s})
	}
	// String() and GEDCOMString() are reads of the model (the text itself is compared)
	out = append(out, c13Op{Kind: "str", Sub: "String"}, c13Op{Kind: "gs", Sub: "GEDCOMString", Path: []int{1}})
	return out
}

// ---------------------------------------------------------------------------------------------
// publish runs in a child process: a panic in one of its goroutines would kill the harness

// c13FullDump is the Go-only dump used to judge read-only operations: EVERY view of EVERY record —
// for every node at every depth NodesWithTag for each tag that occurs among its children (and for
// the fixed probe tags of its kind), every individual's names/families/spouses/parents/children,
// every family's husband/wife/children, the record lists and every pointer — elements by identity
// (position in the tree) and in order.
func c13FullDump(doc *gedcom.Document) (out []string, labels []string) {
	defer func() {
		c13PathCache = nil
		if r := recover(); r != nil {
			out = append(out, fmt.Sprintf("panic:%v", r))
			labels = append(labels, "panic")
		}
	}()
	c13PathCache = c13Paths(doc)
	add := func(label, v string) {
		out = append(out, v)
		labels = append(labels, label)
	}
	add("tree digest", c13Digest(doc))
	add("doc.Individuals()", c13View(doc, "inds", nil, ""))
	add("doc.Families()", c13View(doc, "fams", nil, ""))
	var walk func(n gedcom.Node, name string, depth int)
	walk = func(n gedcom.Node, name string, depth int) {
		if depth > 32 {
			return
		}
		tags := []string{}
		seen := map[string]bool{}
		push := func(t string) {
			if !seen[t] {
				seen[t] = true
				tags = append(tags, t)
			}
		}
		switch n.(type) {
		case *gedcom.IndividualNode:
			for _, t := range []string{"NAME", "SEX", "BIRT", "BAPM", "DEAT", "BURI", "FAMS", "FAMC", "_UID"} {
				push(t)
			}
		case *gedcom.FamilyNode:
			for _, t := range []string{"HUSB", "WIFE", "CHIL", "MARR", "DIV"} {
				push(t)
			}
		}
		for _, k := range n.Nodes() {
			push(k.Tag().Tag())
		}
		for _, t := range tags {
			add("NodesWithTag("+name+","+t+")", c13View(doc, "nwt", n, t))
		}
		for i, k := range n.Nodes() {
			walk(k, fmt.Sprintf("%s.%d(%s)", name, i, k.Tag().Tag()), depth+1)
		}
	}
	viewName := map[string]string{"if": "Families()", "sp": "Spouses()", "pa": "Parents()", "ch": "Children()",
		"hu": "Husband()", "wi": "Wife()", "fc": "Children()"}
	for ri, r := range doc.Nodes() {
		name := fmt.Sprintf("root#%d(%s @%s@)", ri, r.Tag().Tag(), r.Pointer())
		if p := r.Pointer(); p != "" {
			add(fmt.Sprintf("doc.NodeByPointer(%q)", p), c13View(doc, "bp", nil, p))
		}
		walk(r, name, 0)
		if i, ok := r.(*gedcom.IndividualNode); ok {
			var names []gedcom.Node
			for _, n := range i.Names() {
				names = append(names, n)
			}
			add("individual "+name+".Names()", c13Show(doc, names))
			add("individual "+name+".AllEvents()", c13Show(doc, c13Nodes(i.AllEvents())))
			ids := i.UniqueIdentifiers().Strings()
			sort.Strings(ids)
			add("individual "+name+".UniqueIdentifiers()", strings.Join(ids, "+"))
			for _, v := range []string{"if", "sp", "pa", "ch"} {
				add("individual "+name+"."+viewName[v], c13View(doc, v, r, ""))
			}
		}
		if _, ok := r.(*gedcom.FamilyNode); ok {
			for _, v := range []string{"hu", "wi", "fc"} {
				add("family "+name+"."+viewName[v], c13View(doc, v, r, ""))
			}
		}
	}
	return out, labels
}

// c13DumpDiff returns the first view on which two full dumps differ ("" = equal).
func c13DumpDiff(a, b, labels []string) string {
	for i := 0; i < len(a) || i < len(b); i++ {
		x, y := "(missing)", "(missing)"
		if i < len(a) {
			x = a[i]
		}
		if i < len(b) {
			y = b[i]
		}
		if x != y {
			l := fmt.Sprintf("view #%d", i)
			if i < len(labels) {
				l = labels[i]
			}
			return fmt.Sprintf("%s = %s, expected %s", l, x, y)
		}
	}
	return ""
}

// people of a marriage graph: "L" living (born 1990, no death), "D" deceased (1900-1970), "U" undated (= living)
func c13Person(b *strings.Builder, ptr, name, status string) {
	fmt.Fprintf(b, "0 @%s@ INDI\n1 NAME %s\n", ptr, name)
	switch status {
	case "L":
		b.WriteString("1 BIRT\n2 DATE 1 Jan 1990\n")
	case "D":
		b.WriteString("1 BIRT\n2 DATE 1 Jan 1900\n1 DEAT\n2 DATE 1 Jan 1970\n")
	}
}

// c13MarriageDoc: every central person (deceased / living / undated) with 2 and with 3 spouses in
// every living/deceased ordering of the spouses, alternately as husband and as wife, each family
// with 0-2 children of mixed status.  One document holds them all, so one publish covers every case.
func c13MarriageDoc(statuses []string, maxSpouses int) string {
	var people, fams strings.Builder
	np, nf := 0, 0
	person := func(status string) string {
		np++
		ptr := fmt.Sprintf("P%d", np)
		c13Person(&people, ptr, fmt.Sprintf("N%d /S%d/", np, np%7), status)
		return ptr
	}
	for _, cs := range statuses {
		for k := 2; k <= maxSpouses; k++ {
			for pat := 0; pat < 1<<uint(k); pat++ {
				centre := person(cs)
				for sidx := 0; sidx < k; sidx++ {
					st := "D"
					if pat>>uint(sidx)&1 == 1 {
						st = "L"
					}
					spouse := person(st)
					nf++
					fmt.Fprintf(&fams, "0 @F%d@ FAM\n", nf)
					if (np+pat)%2 == 0 {
						fmt.Fprintf(&fams, "1 HUSB @%s@\n1 WIFE @%s@\n", centre, spouse)
					} else {
						fmt.Fprintf(&fams, "1 HUSB @%s@\n1 WIFE @%s@\n", spouse, centre)
					}
					if nf%3 == 0 {
						fams.WriteString("1 MARR\n2 DATE 1 Jan 1925\n")
					}
					for c := 0; c < nf%3; c++ {
						cst := []string{"L", "D", "U"}[(nf+c)%3]
						fmt.Fprintf(&fams, "1 CHIL @%s@\n", person(cst))
					}
				}
			}
		}
	}
	return "0 HEAD\n" + people.String() + fams.String() + "0 TRLR\n"
}

// c13RandomMarriages: random people with 1-3 spouses each, random statuses and orders.
func c13RandomMarriages(r *Rand, n int) string {
	var people, fams strings.Builder
	st := func() string { return r.Pick([]string{"L", "D", "D", "U"}) }
	np, nf := 0, 0
	var all []string
	person := func() string {
		np++
		ptr := fmt.Sprintf("P%d", np)
		c13Person(&people, ptr, fmt.Sprintf("N%d /S%d/", np, np%5), st())
		all = append(all, ptr)
		return ptr
	}
	for i := 0; i < n; i++ {
		centre := person()
		for k := r.Range(1, 3); k > 0; k-- {
			spouse := ""
			if len(all) > 3 && r.Chance(1, 4) {
				spouse = all[r.Intn(len(all))] // remarriage inside the graph
			} else {
				spouse = person()
			}
			nf++
			fmt.Fprintf(&fams, "0 @F%d@ FAM\n", nf)
			if r.Bool() {
				fmt.Fprintf(&fams, "1 HUSB @%s@\n1 WIFE @%s@\n", centre, spouse)
			} else {
				fmt.Fprintf(&fams, "1 HUSB @%s@\n1 WIFE @%s@\n", spouse, centre)
			}
			for c := r.Intn(3); c > 0; c-- {
				if len(all) > 3 && r.Chance(1, 5) {
					fmt.Fprintf(&fams, "1 CHIL @%s@\n", all[r.Intn(len(all))])
				} else {
					fmt.Fprintf(&fams, "1 CHIL @%s@\n", person())
				}
			}
		}
	}
	return "0 HEAD\n" + people.String() + fams.String() + "0 TRLR\n"
}

// the read-only operations that must run in a child process (goroutines that may panic)
func c13ChildStages(doc *gedcom.Document, text string) []struct {
	name string
	run  func()
} {
	publish := func(vis html.LivingVisibility) func() {
		return func() {
			opts := &html.PublishShowOptions{ShowIndividuals: true, ShowPlaces: true, ShowFamilies: true,
				ShowSurnames: true, ShowSources: true, ShowStatistics: true, LivingVisibility: vis}
			if err := html.NewPublisher(doc, opts).Publish(&c13MemWriter{}, 2); err != nil {
				fmt.Println("publish-error " + err.Error())
			}
		}
	}
	diffPage := func(vis html.LivingVisibility) func() {
		return func() {
			other, err := gedcom.NewDocumentFromString(text)
			if err != nil {
				return
			}
			opts := gedcom.NewIndividualNodesCompareOptions()
			cmp := doc.Individuals().Compare(other.Individuals(), opts)
			page := html.NewDiffPage(cmp, &gedcom.FilterFlags{}, "", html.DiffPageShowAll,
				html.DiffPageSortWrittenName, nil, opts, vis)
			var b bytes.Buffer
			page.WriteHTMLTo(&b)
		}
	}
	return []struct {
		name string
		run  func()
	}{
		{"publish(show)", publish(html.LivingVisibilityShow)},
		{"publish(hide)", publish(html.LivingVisibilityHide)},
		{"publish(placeholder)", publish(html.LivingVisibilityPlaceholder)},
		{"diff page(show)", diffPage(html.LivingVisibilityShow)},
		{"diff page(hide)", diffPage(html.LivingVisibilityHide)},
	}
}

func init() {
	workers["c13publish"] = func(args []string) int {
		raw, err := os.ReadFile(args[0])
		if err != nil {
			return 2
		}
		text := string(raw)
		doc, err := gedcom.NewDocumentFromString(text)
		if err != nil {
			fmt.Println("decode-error")
			return 0
		}
		c13FullDump(doc) // warm: the first NodesWithTag on a node only registers it
		for _, st := range c13ChildStages(doc, text) {
			before, labels := c13FullDump(doc)
			textBefore := doc.String()
			st.run()
			after, _ := c13FullDump(doc)
			if doc.String() != textBefore {
				fmt.Println("IMPURE " + st.name + " changed the document text")
				return 0
			}
			if d := c13DumpDiff(after, before, labels); d != "" {
				fmt.Println("IMPURE after " + st.name + ": " + d + " (= before the read)")
				return 0
			}
			if fresh, err := gedcom.NewDocumentFromString(textBefore); err == nil {
				fd, _ := c13FullDump(fresh)
				again, _ := c13FullDump(doc)
				if d := c13DumpDiff(again, fd, labels); d != "" {
					fmt.Println("IMPURE after " + st.name + ": " + d + " (= fresh decode)")
					return 0
				}
			}
		}
		fmt.Println("pure")
		return 0
	}
}

// c13ReadPurity runs every in-process read-only operation on a document and compares every view of
// every record (c13FullDump) and the text before and after, and finally with a fresh decode.
func c13ReadPurity(c *Ctx, text string) {
	doc, err := gedcom.NewDocumentFromString(text)
	if err != nil {
		c.Count("generator-decode-error")
		return
	}
	d := &c13Doc{doc: doc, other: gedcom.NewDocument()}
	c13FullDump(doc)
	for _, rd := range c13AllReads() {
		before, labels := c13FullDump(doc)
		textBefore := doc.String()
		func() {
			defer func() {
				if r := recover(); r != nil {
					c.Oracle("", "operation panicked: "+rd.Sub, c13Failure{Document: text}, fmt.Sprint(r), "no panic")
				}
			}()
			c13SideEffect = ""
			c13QueryCulprit = ""
			d.blackBox(rd.Sub)
		}()
		if c13SideEffect != "" {
			c.Oracle("", "a read changed another document: "+rd.Sub, c13Failure{Document: text, History: []c13Step{{Op: "read:" + rd.Sub}}}, c13SideEffect, "both operands unchanged")
		}
		after, _ := c13FullDump(doc)
		c.Eval()
		c.Count("read-purity=" + rd.Sub)
		in := c13Failure{Document: text, History: []c13Step{{Op: "read:" + rd.Sub}}}
		if doc.String() != textBefore {
			c.Oracle("", "a read changed the document text: "+rd.Sub+c13Culprit(), in, doc.String(), textBefore)
		} else if df := c13DumpDiff(after, before, labels); df != "" {
			c.Oracle("", "a read changed a view: "+rd.Sub+c13Culprit(), in, df, "unchanged")
		}
	}
	if fresh, err := gedcom.NewDocumentFromString(doc.String()); err == nil {
		fd, _ := c13FullDump(fresh)
		live, labels := c13FullDump(doc)
		if df := c13DumpDiff(live, fd, labels); df != "" {
			c.Oracle("", "after the read-only operations a view differs from a fresh decode", c13Failure{Document: text}, df, "equal")
		}
	}
}

// c13Publish checks the purity of publish on the current text of a document (child process).
func c13Publish(c *Ctx, text string, history []c13Step) {
	bin := os.Getenv("GVH_BIN")
	if bin == "" {
		bin, _ = os.Executable()
	}
	f, err := os.CreateTemp("", "c13pub*.ged")
	if err != nil {
		return
	}
	defer os.Remove(f.Name())
	f.WriteString(text)
	f.Close()
	cmd := exec.Command(bin, "worker", "c13publish", f.Name())
	var out bytes.Buffer
	cmd.Stdout = &out
	cmd.Stderr = &out
	done := make(chan error, 1)
	if err := cmd.Start(); err != nil {
		return
	}
	go func() { done <- cmd.Wait() }()
	select {
	case err = <-done:
	case <-time.After(60 * time.Second):
		cmd.Process.Kill()
		err = fmt.Errorf("timeout")
	}
	res := strings.TrimSpace(out.String())
	c.Eval()
	switch {
	case err != nil:
		// a crash of publish is C14's subject, not a purity failure; recorded, not judged here
		c.Count("publish=crashed")
		lines := strings.Split(res, "\n")
		c.Notes = append(c.Notes, "publish crashed in the child process ("+lines[0]+"); purity not decided for that document")
	case strings.HasSuffix(res, "pure"):
		c.Count("publish+diffpage=pure")
	case strings.Contains(res, "decode-error"):
		c.Count("publish=decode-error")
	default:
		c.Count("publish+diffpage=impure")
		c.Oracle("", "publishing / rendering the diff page changed the document", c13Failure{Document: text, History: history}, res, "pure")
	}
}

// ---------------------------------------------------------------------------------------------

func init() {
	runners["C13"] = func(c *Ctx) {
		c.Rule = "histories of public-API edits and reads on one document; after every op every view named in the property is dumped (twice more after the global node cache was reset by the oracle's re-decode, so caches are warm at the next edit). Streams: exhaustive sequences over a 9-op alphabet on a 2-person/1-family document (quick: all sequences of <= 4 ops; thorough: <= 5 ops, plus <= 3 ops over a 16-op alphabet incl. DeleteNodesWithTag and AddIndividual with children), random histories of 10-200 ops on random family graphs, every read-only operation inserted at every position of base histories; read-only operations (in-process ones, and publish x 3 living modes + diff page rendering in a child process) on marriage graphs where people have 2-3 spouses in every living/deceased order, comparing every view of every record before/after and with a fresh decode; distinct = (op kind, did a view change, rejected?)"
		// facts that could not be located are tied by correspondence only
		if _, facts, err := c13Facts(); err == nil {
			var un []string
			for k, v := range facts {
				if v == "none" {
					un = append(un, k)
				}
			}
			sort.Strings(un)
			for _, k := range un {
				c.Untied = append(c.Untied, "go/ast fact unavailable, tie by correspondence only: "+k)
			}
		}

		c13WantFull = true // Go-only: every view of every record against the fresh decode after every step

		// 00. size boundaries: 8, 16, 32, 64, 65, 100, 128, 256 on every size dimension — children of one
		// node (NAME repeats), records, CHIL of one family, families of one person, nesting depth,
		// records sharing one pointer — each with observe / edit at the boundary / observe
		for _, n := range []int{7, 8, 9, 16, 17, 32, 33, 64, 65, 100, 128, 129, 256, 257} {
			for _, shape := range []string{"names", "records", "children", "marriages", "depth", "samepointer"} {
				if (shape == "records" || shape == "marriages") && n > 129 && c.Quick() {
					continue // 256 records x every view x 5 dumps: thorough only
				}
				text, hist := c13Boundary(shape, n)
				r, err := c13NewRunner(c, text)
				if err != nil {
					c.Count("generator-decode-error")
					continue
				}
				for _, o := range hist {
					r.do(o)
				}
				r.finish()
				c.Count("boundary=" + shape)
			}
		}

		// 000. long silent histories: warm every view, then N link changes with NO observation in between
		// (a counter or stamp that wraps at 2^8 / 2^16 accepts a stale view again after exactly that many
		// changes), the first of which takes I2 out of the family; then observe
		silent := []int{255, 256, 257, 65535, 65536, 65537, 131072}
		for _, n := range silent {
			for variant := 0; variant < 2; variant++ {
				r, err := c13NewRunner(c, c13SmallDoc)
				if err != nil {
					panic(err)
				}
				r.silent(variant, n)
				r.finish()
				c.Count("stream=long-silent-history")
			}
		}
		if !c.Quick() { // 2^24 changes, implementation against a fresh decode only (no model line)
			c13SilentGoOnly(c, 1<<24)
		}

		// 0. directed histories
		for _, hist := range c13Directed {
			r, err := c13NewRunner(c, c13SmallDoc)
			if err != nil {
				panic(err)
			}
			for _, o := range hist {
				r.do(o)
			}
			r.finish()
		}
		// every read-only operation once on the small document and on one whose individual repeats a
		// name between other children (smallest witnesses for impure reads)
		for _, text := range []string{c13SmallDoc, c13RepeatedNamesDoc} {
			for _, rd := range c13AllReads() {
				r, err := c13NewRunner(c, text)
				if err != nil {
					panic(err)
				}
				r.do(rd)
				r.finish()
			}
		}
		for _, hist := range c13DirectedUID {
			r, err := c13NewRunner(c, c13UIDDoc)
			if err != nil {
				panic(err)
			}
			for _, o := range hist {
				r.do(o)
			}
			r.finish()
		}
		for _, hist := range c13DirectedAddRecord {
			r, err := c13NewRunner(c, c13SmallDoc)
			if err != nil {
				panic(err)
			}
			for _, o := range hist {
				r.do(o)
			}
			r.finish()
		}
		for _, hist := range c13DirectedAddRecordDangling {
			r, err := c13NewRunner(c, c13DanglingDoc)
			if err != nil {
				panic(err)
			}
			for _, o := range hist {
				r.do(o)
			}
			r.finish()
		}
		for _, hist := range c13DirectedRepeated {
			r, err := c13NewRunner(c, c13RepeatedNamesDoc)
			if err != nil {
				panic(err)
			}
			for _, o := range hist {
				r.do(o)
			}
			r.finish()
		}
		for _, hist := range c13DirectedDangling {
			r, err := c13NewRunner(c, c13DanglingDoc)
			if err != nil {
				panic(err)
			}
			for _, o := range hist {
				r.do(o)
			}
			r.finish()
		}
		c.Count("stream=directed")

		// 1. exhaustive short histories
		alphabet := c13Alphabet
		maxLen := 4
		if !c.Quick() {
			maxLen = 5
		}
		var rec func(prefix []c13Op)
		nEx := 0
		rec = func(prefix []c13Op) {
			if len(prefix) > 0 {
				r, err := c13NewRunner(c, c13SmallDoc)
				if err != nil {
					panic(err)
				}
				for _, o := range prefix {
					r.do(o)
				}
				r.finish()
				nEx++
			}
			if len(prefix) == maxLen {
				return
			}
			for _, o := range alphabet {
				rec(append(append([]c13Op{}, prefix...), o))
			}
		}
		rec(nil)
		c.Count(fmt.Sprintf("stream=exhaustive<=%d", maxLen))
		if !c.Quick() { // the seven extra ops, up to length 3 over the 16-op alphabet
			alphabet = append(append([]c13Op{}, c13Alphabet...), c13ThoroughExtra...)
			maxLen = 3
			rec(nil)
		}
		c.Exhaustive = true
		c.Notes = append(c.Notes, fmt.Sprintf("exhaustive stream: %d histories", nEx))

		// 2. random long histories on random family graphs
		nRand := c.N(40, 1500)
		for h := 0; h < nRand; h++ {
			rr := c.R.Fork("hist")
			nI, nF := rr.Range(0, 8), rr.Range(0, 4)
			if !c.Quick() && rr.Chance(1, 10) {
				nI, nF = rr.Range(10, 40), rr.Range(4, 15)
			}
			text := c13Graph(rr, nI, nF)
			r, err := c13NewRunner(c, text)
			if err != nil {
				c.Count("generator-decode-error")
				continue
			}
			n := rr.Range(10, c.N(60, 200))
			fresh := 0
			for i := 0; i < n && !r.failed; i++ {
				r.do(r.d.randomOp(rr, &fresh))
			}
			if h < 2 {
				c.Sample(map[string]interface{}{"document": text, "ops": len(r.steps), "first_ops": r.steps[:c13Min(5, len(r.steps))]})
			}
			c.Count(fmt.Sprintf("history-length=%d..%d", n/50*50, n/50*50+49))
			c.Count(fmt.Sprintf("individuals=%d..%d", nI/5*5, nI/5*5+4))
			r.finish()
			if h%8 == 0 {
				c13Publish(c, r.d.doc.String(), r.steps)
			}
		}

		// 3. every read-only operation at every position of base histories
		reads := c13AllReads()
		nBase := c.N(6, 150)
		for b := 0; b < nBase; b++ {
			rr := c.R.Fork("base")
			text := c13Graph(rr, rr.Range(1, 5), rr.Range(1, 3))
			// draw the base history once (against a scratch copy), then replay it with a read inserted
			scratch, err := c13NewRunner(c, text)
			if err != nil {
				continue
			}
			scratch.checkS = false
			var base []c13Op
			fresh := 0
			for i := 0; i < rr.Range(3, 7); i++ {
				o := scratch.d.randomOp(rr, &fresh)
				if c13IsRead(o.Kind) {
					continue
				}
				base = append(base, o)
				scratch.d.apply(o)
			}
			for pos := 0; pos <= len(base); pos++ {
				for _, rd := range reads {
					r, err := c13NewRunner(c, text)
					if err != nil {
						continue
					}
					for i, o := range base {
						if i == pos {
							r.do(rd)
						}
						r.do(o)
					}
					if pos == len(base) {
						r.do(rd)
					}
					r.finish()
				}
			}
			c.Count("stream=read-at-every-position")
		}
		c13Publish(c, c13SmallDoc, nil)

		// 4. read-only operations on marriage graphs: people with 2-3 spouses in every living/deceased
		// order, children of mixed status; every view of every record before/after
		// smallest case first: a deceased person married to a living and then to a deceased spouse
		c13Publish(c, "0 @I1@ INDI\n1 NAME A /X/\n1 DEAT\n2 DATE 1920\n0 @I2@ INDI\n1 NAME B /Y/\n0 @I3@ INDI\n1 NAME C /Z/\n1 DEAT\n2 DATE 1900\n"+
			"0 @F1@ FAM\n1 HUSB @I1@\n1 WIFE @I2@\n1 CHIL @I4@\n0 @F2@ FAM\n1 HUSB @I1@\n1 WIFE @I3@\n0 @I4@ INDI\n1 NAME D /X/\n", nil)
		marriage := c13MarriageDoc([]string{"D", "L", "U"}, 3)
		c13Publish(c, marriage, nil)
		c13ReadPurity(c, c13MarriageDoc([]string{"D", "L"}, 2))
		if !c.Quick() {
			c13ReadPurity(c, marriage)
		}
		for i := 0; i < c.N(3, 60); i++ {
			rr := c.R.Fork("marriages")
			text := c13RandomMarriages(rr, rr.Range(2, c.N(6, 25)))
			c13Publish(c, text, nil)
			c13ReadPurity(c, text)
			// and through the model: a read, with the full step protocol around it
			if r, err := c13NewRunner(c, text); err == nil {
				for _, rd := range c13AllReads() {
					r.do(rd)
				}
				r.finish()
			}
		}
		c.Count("stream=marriage-graphs")
	}
}

func c13Min(a, b int) int {
	if a < b {
		return a
	}
	return b
}
