package main

import (
	"fmt"
	"strings"
)

// ---------------------------------------------------------------------------------------------
// Independent reference for C02 (oracle S): the tree dictated by the line grammar, written
// declaratively (parent = nearest preceding node one level up) with a hand-written line scanner.
// Shares no code with decoder.go or with the Lean model.
// ---------------------------------------------------------------------------------------------

type refNode struct {
	level         int
	tag, val, ptr string
}

func refIsDigit(b byte) bool { return b >= '0' && b <= '9' }
func refIsWord(b byte) bool {
	return refIsDigit(b) || (b >= 'A' && b <= 'Z') || (b >= 'a' && b <= 'z') || b == '_'
}

// refParseLine scans 'level [@xref@ ]tag[ value]'.
func refParseLine(s string) (n refNode, ok bool) {
	i := 0
	for i < len(s) && refIsDigit(s[i]) {
		i++
	}
	if i == 0 {
		return n, false
	}
	lv := 0
	for _, ch := range s[:i] {
		lv = lv*10 + int(ch-'0')
		if lv > 1<<40 {
			lv = 1 << 40
		}
	}
	n.level = lv
	j := i
	for j < len(s) && s[j] == ' ' {
		j++
	}
	if j == i {
		return n, false
	}
	if j < len(s) && s[j] == '@' {
		k := strings.IndexByte(s[j+1:], '@')
		if k <= 0 {
			return n, false
		}
		end := j + 1 + k
		if end+1 >= len(s) || s[end+1] != ' ' {
			return n, false
		}
		n.ptr = s[j+1 : end]
		j = end + 2
	}
	k := j
	for k < len(s) && refIsWord(s[k]) {
		k++
	}
	if k == j {
		return n, false
	}
	n.tag = s[j:k]
	if k < len(s) && s[k] == ' ' {
		k++
	}
	n.val = s[k:]
	return n, true
}

// refDecode returns the forest the line grammar dictates, assuming the input is accepted.
// ok=false means the reference itself considers the input unacceptable (nothing to compare).
func refDecode(text string, multi, inv bool) (forest []*TNode, bom bool, ok bool) {
	if strings.HasPrefix(text, "\xef\xbb\xbf") {
		bom = true
		text = text[3:]
	}
	lines := strings.FieldsFunc(text, func(r rune) bool { return false }) // placeholder, replaced below
	lines = lines[:0]
	cur := 0
	for i := 0; i < len(text); i++ {
		if text[i] == '\n' || text[i] == '\r' {
			lines = append(lines, text[cur:i])
			cur = i + 1
		}
	}
	lines = append(lines, text[cur:])
	var nodes []*refNode
	famSeen := false
	for _, ln := range lines {
		if ln == "" {
			if multi && len(nodes) > 0 {
				nodes[len(nodes)-1].val += "\n"
			}
			continue
		}
		n, good := refParseLine(ln)
		if good && (n.tag == "HUSB" || n.tag == "WIFE" || n.tag == "CHIL") && !famSeen {
			good = false
		}
		if !good {
			if multi && len(nodes) > 0 {
				nodes[len(nodes)-1].val += "\n" + ln
				continue
			}
			return nil, bom, false
		}
		if n.tag == "FAM" {
			famSeen = true
		}
		nn := n
		nodes = append(nodes, &nn)
	}
	// effective levels
	for i, n := range nodes {
		max := 0
		if i > 0 {
			max = nodes[i-1].level + 1
		}
		if n.level > max {
			if !inv || i == 0 {
				return nil, bom, false
			}
			n.level = max
		}
	}
	built := make([]*TNode, len(nodes))
	for i, n := range nodes {
		v := strings.TrimSpace(n.val)
		if n.tag == "INDI" || n.tag == "FAM" {
			// record lines carry no value; a continuation can still give them one (known finding)
			v = strings.TrimSpace(strings.TrimPrefix(n.val, firstLineValue(n.val)))
		}
		built[i] = &TNode{Tag: n.tag, Value: v, Ptr: n.ptr}
		if n.level == 0 {
			forest = append(forest, built[i])
			continue
		}
		parent := -1
		for j := i - 1; j >= 0; j-- {
			if nodes[j].level == n.level-1 {
				parent = j
				break
			}
		}
		if parent < 0 {
			return nil, bom, false
		}
		built[parent].Kids = append(built[parent].Kids, built[i])
	}
	return forest, bom, true
}

// firstLineValue is the part of a record line's raw value that came from the record line itself
// (dropped by the decoder), i.e. everything before the first continuation.
func firstLineValue(v string) string {
	if i := strings.IndexByte(v, '\n'); i >= 0 {
		return v[:i]
	}
	return v
}

func refDump(f []*TNode) string {
	var sb strings.Builder
	var walk func(t *TNode, d int)
	walk = func(t *TNode, d int) {
		fmt.Fprintf(&sb, " %d %s %s %s", d, hexs(t.Tag), hexs(t.Value), hexs(t.Ptr))
		for _, k := range t.Kids {
			walk(k, d+1)
		}
	}
	for _, t := range f {
		walk(t, 0)
	}
	return sb.String()
}

// ---------------------------------------------------------------------------------------------
// text generators (shared with C03)
// ---------------------------------------------------------------------------------------------

var decEOL = []string{"\n", "\n", "\n", "\r", "\r\n", "\n\n", "\r\n\r\n", "\n\r"}

// decGenText writes GEDCOM-looking text: random level walk, endings, blanks, spaces, xrefs.
func decGenText(r *Rand, maxLines int, faulty bool) string {
	var sb strings.Builder
	if r.Chance(1, 8) {
		sb.WriteString("\xef\xbb\xbf")
	}
	n := r.Intn(maxLines + 1)
	level := 0
	eol := r.Pick(decEOL)
	mixed := r.Chance(1, 4)
	famSeen := false
	for i := 0; i < n; i++ {
		switch k := r.Intn(10); {
		case i == 0:
			level = 0
		case k < 4:
			level++ // descend by one
		case k < 6: // stay
		case k < 8:
			level = r.Intn(level + 1) // dedent by any amount
		case k < 9:
			level = 0 // new root
		default:
			if faulty {
				level += 2 + r.Intn(3) // over-deep
			}
		}
		if faulty && i == 0 && r.Chance(1, 10) {
			level = 1 + r.Intn(3)
		}
		if r.Chance(1, 15) {
			sb.WriteString(eol) // blank line
		}
		if faulty && r.Chance(1, 12) {
			// a line that is not in the grammar
			sb.WriteString(r.Pick([]string{"foo bar", " 1 NAME x", "x 1 NAME", "1", "1 ", "@I1@ INDI", "1 @@ NAME", "1 @I1@NAME", "1 @I1 NAME", "-1 NAME x", "1\tNAME x", "١ NAME", "2 é", "\x00", "1 @a@", "CONT more text"}))
		} else {
			fmt.Fprintf(&sb, "%d", level)
			sb.WriteString(strings.Repeat(" ", 1+r.Intn(3)/2))
			tag := decTag(r)
			if (tag == "HUSB" || tag == "WIFE" || tag == "CHIL") && !famSeen && !faulty {
				tag = "NOTE"
			}
			ptr := r.Pick(decPointers)
			if tag == "INDI" || tag == "FAM" {
				ptr = r.Pick([]string{"I1", "I2", "F1", "F2", ""})
			}
			if ptr != "" {
				sb.WriteString("@" + ptr + "@ ")
			}
			sb.WriteString(tag)
			if tag == "FAM" {
				famSeen = true
			}
			v := r.Pick(decValues)
			if r.Chance(1, 6) {
				v = strings.Repeat(" ", r.Intn(3)) + v + r.Pick([]string{" ", "  ", "\t", " ", " ", "\xc2", "　 "})
			}
			if v != "" || r.Chance(1, 10) {
				sb.WriteString(" " + v)
			}
		}
		if mixed {
			eol = r.Pick(decEOL)
		}
		if i < n-1 || r.Chance(3, 4) {
			sb.WriteString(eol)
		}
	}
	return sb.String()
}

var decRealistic = "0 HEAD\n1 GEDC\n2 VERS 5.5\n1 CHAR UTF-8\n0 @I1@ INDI\n1 NAME John /Smith/\n2 GIVN John\n2 SURN Smith\n1 SEX M\n1 BIRT\n2 DATE 3 Sep 1943\n2 PLAC Oldtown, , , Someland\n1 FAMS @F1@\n0 @I2@ INDI\n1 NAME Jane /Doe/\n1 SEX F\n1 DEAT\n2 DATE Abt. 1990\n1 NOTE first line\n2 CONT second line\n1 FAMS @F1@\n0 @I3@ INDI\n1 NAME Kid /Smith/\n1 FAMC @F1@\n0 @F1@ FAM\n1 HUSB @I1@\n1 WIFE @I2@\n1 CHIL @I3@\n1 MARR\n2 DATE 1965\n0 @S1@ SOUR\n1 TITL A source\n0 TRLR\n"

// decMutate applies byte-level mutations to a text.
func decMutate(r *Rand, s string) string {
	b := []byte(s)
	for k := 1 + r.Intn(4); k > 0 && len(b) > 0; k-- {
		i := r.Intn(len(b))
		switch r.Intn(7) {
		case 0:
			b[i] = byte(r.Intn(256))
		case 1:
			b = append(b[:i], b[i+1:]...)
		case 2:
			b = append(b[:i], append([]byte{byte(r.Intn(256))}, b[i:]...)...)
		case 3:
			b = b[:i] // truncate
		case 4:
			b[i] = "0123456789 @\n\r"[r.Intn(14)]
		case 5: // duplicate a chunk
			j := i + r.Intn(len(b)-i)
			b = append(b[:j], append(append([]byte{}, b[i:j]...), b[j:]...)...)
		case 6: // swap two lines' first bytes (level digits)
			j := r.Intn(len(b))
			b[i], b[j] = b[j], b[i]
		}
	}
	return string(b)
}

// c02case: (T) correspondence under one option combination, (S) reference tree + normal form.
func c02case(c *Ctx, text string, multi, inv bool) {
	obs, doc := decObserve(text, multi, inv)
	c.Tie(decReq(text, multi, inv), obs)
	c.Eval()
	cls := strings.Fields(obs)[0]
	c.Count("outcome=" + cls)
	c.Count(fmt.Sprintf("opts=%s%s", bit(multi), bit(inv)))
	if obs == "hang" {
		c.Oracle("", fmt.Sprintf("decoding does not terminate (no result within %v)", decTimeout),
			map[string]interface{}{"text_hex": hexs(text), "allowMultiLine": multi, "allowInvalidIndents": inv}, obs, "a document or an error")
	}
	if doc == nil {
		return
	}
	c.Nontrivial(text)
	in := map[string]interface{}{"text_hex": hexs(text), "allowMultiLine": multi, "allowInvalidIndents": inv}
	forest, bom, ok := refDecode(text, multi, inv)
	got := abstractNodes(doc.Nodes())
	key := ""
	if c02IsContinuationAfterRecord(got) {
		key = "C02-continuation-after-record-line"
	}
	if !ok {
		c.Oracle(key, "the decoder accepts a stream the line grammar rejects", in, obs, "error")
		return
	}
	if refDump(forest) != refDump(got) || bom != doc.HasBOM {
		c.Oracle(key, "the decoded tree is not the tree dictated by the line grammar", in,
			fmt.Sprintf("bom=%v%s", doc.HasBOM, refDump(got)), fmt.Sprintf("bom=%v%s", bom, refDump(forest)))
		return
	}
	// normal form: re-encode, decode again (same options), same tree, same bytes
	nf := doc.String()
	obs2, doc2 := decObserve(nf, multi, inv)
	if doc2 == nil || obs2 != obs {
		c.Oracle(key, "re-encoding does not decode to the same tree", in, obs2, obs)
		return
	}
	if nf2 := doc2.String(); nf2 != nf {
		c.Oracle(key, "the normal form does not re-encode to the same bytes", in, hexs(nf2), hexs(nf))
	}
	if multi {
		// the hypothesis of C02.normal_form_multiline (model: legalMLDocB) must hold for every
		// document the real decoder returns under AllowMultiLine, except the known-finding shape
		// (a record line that got a value), where it must be false
		want := "1"
		if key != "" {
			want = "0"
			c.Count("legalml:finding-shape")
		} else {
			c.Count("legalml:covered")
		}
		if c02HasMultiLineValue(got) {
			c.Count("legalml:has-multi-line-value")
		}
		c.Tie("legalml "+encForest(got), want)
	}
}

func c02HasMultiLineValue(f []*TNode) bool {
	for _, t := range f {
		if strings.Contains(t.Value, "\n") || c02HasMultiLineValue(t.Kids) {
			return true
		}
	}
	return false
}

// c02IsContinuationAfterRecord is the matcher of the known finding: an INDI/FAM node carries a
// value, which only a continuation line directly after the record line can produce.
func c02IsContinuationAfterRecord(f []*TNode) bool {
	for _, t := range f {
		if (t.Tag == "INDI" || t.Tag == "FAM") && t.Value != "" {
			return true
		}
		if c02IsContinuationAfterRecord(t.Kids) {
			return true
		}
	}
	return false
}

func c02all(c *Ctx, text string) {
	for _, o := range [][2]bool{{false, false}, {true, false}, {false, true}, {true, true}} {
		c02case(c, text, o[0], o[1])
	}
}

func init() {
	runners["C02"] = func(c *Ctx) {
		c.Rule = "generated GEDCOM text (random level walks: descend, stay, dedent by any amount, new root, over-deep; mixed CR/LF/CRLF; blank lines; BOM; runs of spaces; xrefs; values with '@', digits, non-UTF-8) and byte-mutated realistic files, each under the 4 option combinations; distinct = distinct accepted texts"
		corpus := []string{
			"", "\n", "0 HEAD", "0 HEAD\n", "\xef\xbb\xbf0 HEAD\r\n1 CHAR UTF-8\r\n0 TRLR\r\n",
			"0 A\n1 B\n2 C\n3 D\n1 E\n2 F\n0 G\n", // dedent by two
			"0 A\n1 B\n2 C\n3 D\n4 E\n2 F\n3 G\n", // dedent by two then descend
			"0 A\n2 B\n",                          // over-deep
			"0 A\n1 B\n5 C\n2 D\n1 E\n",           // over-deep then siblings
			"0 @I1@ INDI\nfoo bar\n1 NAME x\n",    // continuation after a record line (known finding)
			"0 NOTE a\nb\n\nc\n1 CONT d\n",
			"0 NOTE   spaced   \n1 X   y \n",
			"0 @F1@ FAM\n1 HUSB @I1@\n0 NOTE\n1 HUSB @I2@\n",
			"0 @a b@ X v\n0 @@ X\n",
			decRealistic,
			strings.ReplaceAll(decRealistic, "\n", "\r\n"),
			strings.ReplaceAll(decRealistic, "\n", "\r"),
		}
		// more than 99 open levels, then a dedent by many and a re-descent
		for _, d := range []int{99, 100, 130} {
			var sb strings.Builder
			for l := 0; l <= d; l++ {
				fmt.Fprintf(&sb, "%d NOTE l%d\n", l, l)
			}
			corpus = append(corpus, sb.String()+"3 X\n4 Y\n0 Z\n")
		}
		// wide levels: many siblings below one node, many roots, and a dedent back to each
		for _, w := range []int{8, 9, 16, 17, 64, 65, 129, 257, c.N(1025, 5000)} {
			var sb strings.Builder
			sb.WriteString("0 @I1@ INDI\n")
			for i := 0; i < w; i++ {
				fmt.Fprintf(&sb, "1 NOTE n%d\n", i%7)
				if i%5 == 0 {
					sb.WriteString("2 CONT c\n3 X\n")
				}
			}
			for i := 0; i < w; i++ {
				fmt.Fprintf(&sb, "0 @N%d@ NOTE r\n", i)
			}
			corpus = append(corpus, sb.String())
		}
		for _, t := range corpus {
			c02all(c, t)
		}
		c.Sample(map[string]string{"text": corpus[6], "meaning": "dedent by two levels, then descend again"})
		c.Sample(map[string]string{"text": corpus[8], "meaning": "over-deep line, then siblings of the clamped node"})
		n := c.N(10000, 250000)
		for i := 0; i < n; i++ {
			var t string
			switch c.R.Intn(4) {
			case 0:
				t = decGenText(c.R, 12, false)
			case 1:
				t = decGenText(c.R, 40, true)
			case 2:
				t = decMutate(c.R, decRealistic)
			default:
				t = decMutate(c.R, decGenText(c.R, 25, false))
			}
			c02all(c, t)
		}
		// one very long line (the model and the decoder must agree on it too)
		long := "0 NOTE " + strings.Repeat("x", c.N(100000, 1000000)) + "\n1 CONT y\n"
		c02all(c, long)
		// the source's line pattern: Go's regexp engine vs the Lean semantics of the translated
		// pattern vs the model's deterministic line parser
		c02regexStream(c)
		// state left by an earlier decode that failed
		c02history(c)
	}
}
