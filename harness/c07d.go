package main

// C07, round 5: warm, edit in place, compare with a fresh copy.
//
// ResidenceNode.Equals / EventNode.Equals read their DATE (undated RESI: PLAC) children through
// NodesWithTag, which remembers the children-by-tag of a node after it has been asked twice.  Deep
// equality must reflect the tree that is there, also after the tree was compared (so that the
// children are remembered) and then edited in place with AddNode / DeleteNode / SetNodes.

import (
	"fmt"

	"github.com/elliotchance/gedcom/v39"
)

func c07sameTree(x, y *TNode) bool {
	if x.Tag != y.Tag || x.Value != y.Value || x.Ptr != y.Ptr || len(x.Kids) != len(y.Kids) {
		return false
	}
	for i := range x.Kids {
		if !c07sameTree(x.Kids[i], y.Kids[i]) {
			return false
		}
	}
	return true
}

// c07wrapper: a RESI / EVEN node with 0..2 dates and some places / plain children.
func c07wrapper(g *c07gen) *TNode {
	r := g.r
	t := T(r.Pick([]string{"RESI", "RESI", "EVEN"}), r.Pick([]string{"", "a"}), "")
	for d := r.Intn(3); d > 0; d-- {
		t.Kids = append(t.Kids, T("DATE", r.Pick([]string{"3 Sep 1943", "5 Sep 1943", "1943", "1 Jan 1900", "(unknown)", "foo", "0"}), ""))
	}
	for p := r.Intn(3); p > 0; p-- {
		t.Kids = append(t.Kids, T("PLAC", r.Pick([]string{"England", "Wales", "a"}), ""))
	}
	if r.Chance(1, 3) {
		t.Kids = append(t.Kids, g.plainLeaf())
	}
	return t
}

func c07warmEdit(c *Ctx) {
	r := c.R
	g := &c07gen{r: r, small: true}
	n := c.N(500, 12000)
	newDates := []string{"3 Sep 1943", "5 Sep 1943", "1943", "1 Jan 1900", "Sep 1943", "(unknown)", "bar"}
	for i := 0; i < n; i++ {
		// a tree with a RESI / EVEN wrapper at depth 0..3 (other wrappers — BIRT, NAME, PLAC, DATE —
		// come from the general generator)
		var ta *TNode
		if i%4 == 0 {
			ta = c07wrapper(g)
		} else {
			ta = g.tree()
			var cands []*TNode
			var walk func(t *TNode, d int)
			walk = func(t *TNode, d int) {
				if d <= 2 && t.Tag != "DATE" {
					cands = append(cands, t)
				}
				for _, k := range t.Kids {
					walk(k, d+1)
				}
			}
			walk(ta, 0)
			if len(cands) == 0 {
				ta = T("INDI0", "", "P1", ta)
				cands = []*TNode{ta}
			}
			for k := 1 + r.Intn(2); k > 0; k-- {
				p := cands[r.Intn(len(cands))]
				p.Kids = append(p.Kids, c07wrapper(g))
			}
		}
		a, e1 := newPlain(ta)
		b, e2 := newPlain(ta.Clone())
		if e1 != nil || e2 != nil {
			continue
		}
		before := a.GEDCOMString(0)
		// (1) warm: the children-by-tag of every RESI / EVEN are remembered after two questions
		warm := true
		for k := 0; k < 2; k++ {
			warm = gedcom.DeepEqual(a, b) && warm
			warm = gedcom.DeepEqual(b, a) && warm
		}
		// (2) 1..3 edits in place, preferably on a RESI / EVEN node or on a parent of one
		all := c07preorderNodes(gedcom.Nodes{a})
		var wrappers []gedcom.Node
		for _, x := range all {
			switch x.Tag().Tag() {
			case "RESI", "EVEN":
				wrappers = append(wrappers, x)
			}
			for _, k := range x.Nodes() {
				if t := k.Tag().Tag(); t == "RESI" || t == "EVEN" {
					wrappers = append(wrappers, x) // the parent
				}
			}
		}
		what := ""
		for k := 1 + r.Intn(3); k > 0; k-- {
			target := all[r.Intn(len(all))]
			if len(wrappers) > 0 && r.Chance(3, 4) {
				target = wrappers[r.Intn(len(wrappers))]
			}
			kids := target.Nodes()
			var dates gedcom.Nodes
			for _, x := range kids {
				if x.Tag().Tag() == "DATE" {
					dates = append(dates, x)
				}
			}
			mk := func(tag, v string) gedcom.Node { return gedcom.NewNode(gedcom.TagFromString(tag), v, "") }
			func() {
				defer func() {
					if x := recover(); x != nil {
						what += "panic;"
					}
				}()
				switch op := r.Intn(7); {
				case op == 0 && len(dates) > 0: // replace a date: DeleteNode + AddNode
					target.DeleteNode(dates[r.Intn(len(dates))])
					target.AddNode(mk("DATE", r.Pick(newDates)))
					what += "swap-date;"
				case op == 1:
					target.AddNode(mk("DATE", r.Pick(newDates)))
					what += "add-date;"
				case op == 2 && len(kids) > 0:
					target.DeleteNode(kids[r.Intn(len(kids))])
					what += "delete;"
				case op == 3: // SetNodes: the children without one of them, plus a new date or place
					var ks gedcom.Nodes
					drop := -1
					if len(kids) > 0 {
						drop = r.Intn(len(kids))
					}
					for j, x := range kids {
						if j != drop {
							ks = append(ks, x)
						}
					}
					if r.Bool() {
						ks = append(ks, mk(r.Pick([]string{"DATE", "PLAC"}), r.Pick(newDates)))
					}
					target.SetNodes(ks)
					what += "set;"
				case op == 4:
					target.SetNodes(nil)
					what += "clear;"
				case op == 5:
					target.AddNode(mk("PLAC", r.Pick([]string{"England", "Wales", "b"})))
					what += "add-place;"
				default:
					target.AddNode(mk("NOTE", "edited"))
					what += "add-note;"
				}
			}()
		}
		after := a.GEDCOMString(0)
		tEdited := abstractNode(a)
		c.Eval()
		c.Count(fmt.Sprintf("warm-edit:changed=%v", after != before))
		c.Nontrivial("warm-edit/" + what + "/" + c07kindsig(tEdited))
		in := map[string]string{"case": "compare both ways (warm), edit in place: " + what + " then compare with a fresh copy",
			"before": before, "after": after, "tree_after": encTree(tEdited)}
		// (3) the edited tree against trees built afterwards
		fresh := gedcom.DeepCopy(a, gedcom.NewDocument())
		if !gedcom.DeepEqual(a, fresh) || !gedcom.DeepEqual(fresh, a) {
			c.Oracle("", "an edited tree is not deep-equal to a deep copy of itself", in,
				fmt.Sprintf("DeepEqual(tree,copy)=%v DeepEqual(copy,tree)=%v", gedcom.DeepEqual(a, fresh), gedcom.DeepEqual(fresh, a)), "true both ways")
		}
		if doc, err := gedcom.NewDocumentFromString(after); err == nil && len(doc.Nodes()) == 1 {
			re := doc.Nodes()[0]
			if c07sameTree(abstractNode(re), tEdited) { // the decoder did not normalise anything
				c.Count("warm-edit:redecoded")
				if !gedcom.DeepEqual(a, re) || !gedcom.DeepEqual(re, a) {
					c.Oracle("", "an edited tree is not deep-equal to a decoding of its own GEDCOM", in,
						fmt.Sprintf("DeepEqual(tree,decoded)=%v DeepEqual(decoded,tree)=%v", gedcom.DeepEqual(a, re), gedcom.DeepEqual(re, a)), "true both ways")
				}
			}
		}
		// against the pre-edit copy: the answer must be the one two freshly built trees with the
		// same content get (deep equality reflects the tree that is there), and the model's
		ab, ba := gedcom.DeepEqual(a, b), gedcom.DeepEqual(b, a)
		a2, e3 := newPlain(tEdited)
		b2, e4 := newPlain(ta)
		if e3 == nil && e4 == nil {
			ab2, ba2 := gedcom.DeepEqual(a2, b2), gedcom.DeepEqual(b2, a2)
			if ab != ab2 || ba != ba2 {
				c.Oracle("", "deep equality of an edited tree and its pre-edit copy differs from that of freshly built trees with the same content", in,
					fmt.Sprintf("edited in place: %v/%v, rebuilt: %v/%v", ab, ba, ab2, ba2), "the same answers")
			}
		}
		c.Tie("deq "+encForest([]*TNode{tEdited, ta}), c07deq(a, b))
		c.Count(fmt.Sprintf("warm-edit:still-equal=%v", ab))
	}
}
