package main

// C17, the pages computed from the whole document (Gedcom/Model/PagesStats.lean): statistics.html
// (individual, family, source, place and event statistics), sources.html and the source pages, with
// the header counts.  The request `c17stats` carries the document abstraction of `c17site` extended
// by what these pages read (the event tag names of every INDI record, MARR/DIV per FAM record, the
// SOUR records); the observation is the skeleton of the real files of the published site plus the
// numbers that count people, read from the real header / Individuals card / Events card.
//
// Direct oracles (independent of the model) on every published site:
//   * hide mode: the Individuals card says Total = Dead = number of people who are not living and
//     Living = 0;
//   * every mode: Living + Dead = Total, and in show/placeholder mode Total = number of INDI records;
//   * the Places card shows the number the Places badge of the header shows;
//   * the source list and the body of every source page are byte-identical in show, placeholder and
//     hide mode (they read no individual);
//   * hide mode, document A vs variant B (living people's data differ): statistics.html, sources.html
//     and the source pages are byte-identical (also part of the whole-site comparison of c17.go).

import (
	"fmt"
	"strconv"
	"strings"

	"github.com/elliotchance/gedcom/v39"
	"github.com/elliotchance/gedcom/v39/html"
)

// further records of a generated document: sources with nested nodes, a divorce
type c17Source struct {
	ptr   string
	lines []string // below the record, levels 1..
}

var c17SourceTags = []string{"AUTH", "PUBL", "ABBR", "TEXT", "NOTE", "_CUSTOM", "REFN", "DATA"}

// c17GenSources draws 0-3 further SOUR records without consuming from r (the rest of the document
// stays what it was before this generator was added).
func c17GenSources(r *Rand) []c17Source {
	rs := &Rand{s: r.s ^ 0xC17C17C17C17}
	var out []c17Source
	n := rs.Intn(4)
	for i := 0; i < n; i++ {
		s := c17Source{ptr: fmt.Sprintf("S%d", i+2)}
		switch rs.Intn(6) {
		case 0:
			s.ptr = fmt.Sprintf("Src-%d.x", i) // needs escaping in the file name
		case 1:
			s.ptr = fmt.Sprintf("R_%d", i)
		}
		if rs.Chance(4, 5) {
			s.lines = append(s.lines, fmt.Sprintf("1 TITL Register %c%d", 'A'+byte(rs.Intn(26)), rs.Intn(1000)))
		}
		for k := rs.Intn(4); k > 0; k-- {
			tag := rs.Pick(c17SourceTags)
			if rs.Chance(1, 4) {
				s.lines = append(s.lines, "1 "+tag)
			} else {
				s.lines = append(s.lines, fmt.Sprintf("1 %s val%d", tag, rs.Intn(10000)))
			}
			if rs.Chance(1, 2) {
				s.lines = append(s.lines, fmt.Sprintf("2 %s sub%d", rs.Pick(c17SourceTags), rs.Intn(10000)))
				if rs.Chance(1, 3) {
					s.lines = append(s.lines, fmt.Sprintf("3 NOTE deep%d", rs.Intn(10000)))
				}
				if rs.Chance(1, 3) {
					s.lines = append(s.lines, fmt.Sprintf("2 DATE %d", 1800+rs.Intn(200)))
				}
			}
		}
		out = append(out, s)
	}
	return out
}

// c17GenDivorces: which families have a DIV (and which a MARR without a date), again without
// consuming from r.
func c17GenFamilyEvents(r *Rand, fams []*c17Family) {
	rs := &Rand{s: r.s ^ 0xD17D17D17D17}
	for _, f := range fams {
		f.div = rs.Chance(1, 4)
		f.marrBare = f.marr == "" && rs.Chance(1, 5)
	}
}

func c17Num(s string) int {
	n, err := strconv.Atoi(strings.ReplaceAll(s, ",", ""))
	if err != nil {
		return -1
	}
	return n
}

// c17After returns the n atoms after the first occurrence of "T"+label at or after position from.
func c17After(atoms []string, label string, from, n int) []string {
	for i := from; i < len(atoms); i++ {
		if atoms[i] == "T"+label && i+n < len(atoms)+0 && i+1+n <= len(atoms) {
			return atoms[i+1 : i+1+n]
		}
	}
	return nil
}

type c17CountsObs struct {
	badge                       int // -1: no Individuals tab
	total, living, dead, events int
}

// c17RealCounts reads the numbers from the real components, rendered in-process for the document.
func c17RealCounts(doc *gedcom.Document, vis string, groups [6]bool) (o c17CountsObs, err error) {
	defer func() {
		if r := recover(); r != nil {
			err = fmt.Errorf("counts: %v", r)
		}
	}()
	v := html.LivingVisibility(vis)
	opts := &html.PublishShowOptions{ShowIndividuals: groups[0], ShowPlaces: groups[1], ShowFamilies: groups[2],
		ShowSurnames: groups[3], ShowSources: groups[4], ShowStatistics: groups[5], LivingVisibility: v}
	pm := html.NewPublisher(doc, opts).Places()
	if !groups[1] {
		pm = nil
	}
	letters := html.GetIndexLetters(doc, v)
	header := c17Atoms(c17render(html.NewPublishHeader(doc, "", "", opts, letters, pm)))
	o.badge = -1
	if b := c17After(header, "Individuals", 0, 1); b != nil && strings.HasPrefix(b[0], "T") {
		o.badge = c17Num(b[0][1:])
	}
	ind := c17Atoms(c17render(html.NewIndividualStatistics(doc, v)))
	if len(ind) != 7 || ind[1] != "TTotal" || ind[3] != "TLiving" || ind[5] != "TDead" {
		return o, fmt.Errorf("unexpected Individuals card: %v", ind)
	}
	o.total, o.living, o.dead = c17Num(ind[2][1:]), c17Num(ind[4][1:]), c17Num(ind[6][1:])
	ev := c17Atoms(c17render(html.NewEventStatistics(doc)))
	if len(ev) < 3 || ev[1] != "TTotal" {
		return o, fmt.Errorf("unexpected Events card: %v", ev)
	}
	o.events = c17Num(ev[2][1:])
	return o, nil
}

// c17StatsExtra encodes what the statistics and source pages read beyond the `c17site` abstraction.
func c17StatsExtra(doc *gedcom.Document) (enc string, dupSources bool) {
	var b []string
	people := doc.Individuals()
	b = append(b, strconv.Itoa(len(people)))
	for _, p := range people {
		var tags []string
		for _, e := range p.AllEvents() {
			tags = append(tags, e.Tag().String())
		}
		b = append(b, c17HexList(tags))
	}
	fams := doc.Families()
	b = append(b, strconv.Itoa(len(fams)))
	for _, f := range fams {
		b = append(b, bit(gedcom.First(gedcom.NodesWithTagPath(f, gedcom.TagMarriage)) != nil),
			bit(gedcom.First(gedcom.NodesWithTagPath(f, gedcom.TagDivorce)) != nil))
	}
	sources := doc.Sources()
	b = append(b, strconv.Itoa(len(sources)))
	seen := map[string]bool{}
	for _, s := range sources {
		if seen[html.PageSource(s)] {
			dupSources = true
		}
		seen[html.PageSource(s)] = true
		var nodes []string
		var walk func(ns gedcom.Nodes)
		walk = func(ns gedcom.Nodes) {
			for _, n := range ns {
				nodes = append(nodes, hexs(c17Trim(n.Tag().String())), hexs(c17Trim(n.Value())))
				walk(n.Nodes())
			}
		}
		walk(s.Nodes())
		b = append(b, hexs(s.Pointer()), hexs(c17Trim(s.Title())), strconv.Itoa(len(nodes)/2), strings.Join(nodes, " "))
	}
	return strings.Join(strings.Fields(strings.Join(b, " ")), " "), dupSources
}

// the text of a text node as the skeleton extraction sees it
func c17Trim(s string) string {
	return strings.TrimSpace(strings.ReplaceAll(s, " ", " "))
}

// c17StatsObserved: sources.html, the source pages in document order, statistics.html of the real
// site, in the wire format of `c17stats`.
func c17StatsObserved(site *c17Site, doc *gedcom.Document, co c17CountsObs) string {
	var names []string
	if _, ok := site.Files["sources.html"]; ok {
		names = append(names, "sources.html")
		for _, s := range doc.Sources() {
			if _, ok := site.Files[html.PageSource(s)]; ok {
				names = append(names, html.PageSource(s))
			}
		}
	}
	if _, ok := site.Files["statistics.html"]; ok {
		names = append(names, "statistics.html")
	}
	var parts []string
	for _, name := range names {
		var as []string
		for _, a := range c17Atoms(site.Files[name]) {
			as = append(as, string(a[0])+hexs(a[1:]))
		}
		parts = append(parts, hexs(name)+"="+strings.Join(as, ","))
	}
	badge := "-"
	if co.badge >= 0 {
		badge = strconv.Itoa(co.badge)
	}
	return strings.Join(parts, " ") + fmt.Sprintf(" counts=%s,%d,%d,%d,%d", badge, co.total, co.living, co.dead, co.events)
}

// c17Body: a page without its header (the nav tabs end at the last </ul> before the content).
func c17Body(page string) string {
	if i := strings.Index(page, `</ul>`); i >= 0 {
		return page[i:]
	}
	return page
}

// c17StatsCheck ties the three sites of one document to the model and runs the direct oracles.
// nLiving / nPeople come from the generator (not from the code under test); -1 = unknown.
func c17StatsCheck(c *Ctx, gdoc *gedcom.Document, abs, ob string, groups [6]bool, sites map[string]*c17Site,
	nPeople, nLiving int, input func(map[string]interface{}) map[string]interface{}) {
	extra, dup := c17StatsExtra(gdoc)
	if dup {
		c.Count("stats-pages/skipped: two sources share a page name")
		return
	}
	nsrc := len(gdoc.Sources())
	for _, vis := range []string{"show", "placeholder", "hide"} {
		site := sites[vis]
		if site == nil {
			continue
		}
		co, err := c17RealCounts(gdoc, vis, groups)
		c.Eval()
		if err != nil {
			c.Oracle("", "the statistics cards could not be read", input(map[string]interface{}{"living": vis}), err.Error(), "Total / Living / Dead rows")
			continue
		}
		c.Tie(fmt.Sprintf("c17stats %s %s %s %s", vis, ob, abs, extra), c17StatsObserved(site, gdoc, co))
		c.Count("stats-pages/" + vis)
		c.Count(fmt.Sprintf("stats-pages/sources=%d", nsrc))
		if groups[5] {
			c.Count("stats-pages/statistics.html")
		}
		if groups[4] {
			c.Count("stats-pages/sources.html")
		}
		c.Nontrivial(fmt.Sprintf("stats/%s/%s/src%d/ev%d", vis, ob, nsrc, co.events/4))
		// (S) the Places card shows what the Places badge of the same page shows (the places that get a page)
		if page, ok := site.Files["statistics.html"]; ok && groups[1] {
			atoms := c17Atoms(page)
			badge, card := -1, -1
			for i, a := range atoms {
				if a != "TPlaces" || i+2 >= len(atoms) {
					continue
				}
				if badge < 0 && atoms[i+1] != "TTotal" {
					badge = c17Num(atoms[i+1][1:])
				}
				if atoms[i+1] == "TTotal" {
					card = c17Num(atoms[i+2][1:])
				}
			}
			c.Eval()
			if badge >= 0 && card >= 0 && badge != card {
				c.Oracle("C17-stats-"+vis+"-places-total", vis+" mode: the Places card of the statistics does not count the places that are published",
					input(map[string]interface{}{"living": vis}), fmt.Sprintf("Places card: Total %d", card), fmt.Sprintf("%d (the Places badge of the header)", badge))
			}
		}
		// (S) the Individuals card
		if co.living+co.dead != co.total {
			c.Oracle("C17-stats-sum", vis+" mode: Living + Dead is not Total on the Individuals card",
				input(map[string]interface{}{"living": vis}), fmt.Sprintf("Total %d Living %d Dead %d", co.total, co.living, co.dead), "Living + Dead = Total")
		}
		if nPeople >= 0 {
			wantTotal, wantLiving := nPeople, nLiving
			if vis == "hide" {
				wantTotal, wantLiving = nPeople-nLiving, 0
			}
			if co.total != wantTotal || co.living != wantLiving || co.dead != nPeople-nLiving {
				c.Oracle("C17-stats-"+vis+"-individuals", vis+" mode: the Individuals card of the statistics counts living people wrongly",
					input(map[string]interface{}{"living": vis}),
					fmt.Sprintf("Total %d Living %d Dead %d", co.total, co.living, co.dead),
					fmt.Sprintf("Total %d Living %d Dead %d", wantTotal, wantLiving, nPeople-nLiving))
			}
		}
	}
	// (S) the source list and the body of every source page do not depend on the visibility
	if show, hide := sites["show"], sites["hide"]; show != nil && hide != nil && groups[4] {
		names := []string{"sources.html"}
		for _, s := range gdoc.Sources() {
			names = append(names, html.PageSource(s))
		}
		for _, name := range names {
			for _, vis := range []string{"placeholder", "hide"} {
				if sites[vis] == nil {
					continue
				}
				c.Eval()
				if a, b := c17Body(show.Files[name]), c17Body(sites[vis].Files[name]); a != b {
					c.Oracle("C17-source-page-depends-on-visibility", "a source page differs between show and "+vis+" mode below the header",
						input(map[string]interface{}{"living": vis, "file": name}), c17FirstDiff(a, b), "the same bytes")
				}
			}
		}
	}
}

func c17FirstDiff(a, b string) string {
	i := 0
	for i < len(a) && i < len(b) && a[i] == b[i] {
		i++
	}
	lo := i - 40
	if lo < 0 {
		lo = 0
	}
	cut := func(s string) string {
		hi := i + 60
		if hi > len(s) {
			hi = len(s)
		}
		if lo > len(s) {
			return ""
		}
		return s[lo:hi]
	}
	return fmt.Sprintf("at byte %d: %q vs %q", i, cut(a), cut(b))
}
