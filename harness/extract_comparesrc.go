package main

import (
	"bytes"
	"fmt"
	"go/ast"
	"go/parser"
	"go/printer"
	"go/token"
	"path/filepath"
	"strconv"
	"strings"
)

// Source translation of the decision logic of DateRange.Compare (date_range.go): the map literal
// dateRangeCompareMatrix, the ordered cases of the switch in compareDatesForLetter, and the
// statements of Compare.  Props/C06 proves that interpreting these regenerated pieces gives the
// model's `compare` (which all C06 theorems are about) for all day numbers.

func printNode(fset *token.FileSet, n ast.Node) string {
	var buf bytes.Buffer
	printer.Fprint(&buf, fset, n)
	return strings.Join(strings.Fields(buf.String()), " ")
}

func init() {
	extractors["CompareSrc"] = func() string {
		var b strings.Builder
		b.WriteString("-- Source: date_range.go — dateRangeCompareMatrix (map literal), compareDatesForLetter (switch\n")
		b.WriteString("-- cases in order), DateRange.Compare (statements), read with go/ast.\n")
		b.WriteString("namespace Gedcom.Generated\n\n")
		fset := token.NewFileSet()
		file, err := parser.ParseFile(fset, filepath.Join(repoRoot(), "date_range.go"), nil, 0)
		matrix := []string{}
		cases := []string{}
		dflt := ""
		trunc := 0
		compareStmts := []string{}
		if err == nil {
			for _, d := range file.Decls {
				switch d := d.(type) {
				case *ast.GenDecl:
					for _, s := range d.Specs {
						vs, ok := s.(*ast.ValueSpec)
						if !ok || len(vs.Names) != 1 || vs.Names[0].Name != "dateRangeCompareMatrix" || len(vs.Values) != 1 {
							continue
						}
						if cl, ok := vs.Values[0].(*ast.CompositeLit); ok {
							for _, e := range cl.Elts {
								kv, ok := e.(*ast.KeyValueExpr)
								if !ok {
									matrix = append(matrix, `("?", "?")`)
									continue
								}
								k, _ := kv.Key.(*ast.BasicLit)
								v, _ := kv.Value.(*ast.Ident)
								if k == nil || v == nil {
									matrix = append(matrix, `("?", "?")`)
									continue
								}
								ks, _ := strconv.Unquote(k.Value)
								matrix = append(matrix, fmt.Sprintf("(%s, %s)", strconv.Quote(ks), strconv.Quote(strings.TrimPrefix(v.Name, "DateRangeComparison"))))
							}
						}
					}
				case *ast.FuncDecl:
					if d.Body == nil {
						continue
					}
					if d.Name.Name == "compareDatesForLetter" && d.Recv == nil {
						// locals: which variable holds the truncated time of which parameter; local constants
						// equal to 24 * time.Hour; then the cases as a tagless switch or as a chain of
						// `if c { return "x" }`, and the final return
						role := map[string]string{} // local -> "valueTime" | "startTime" | "endTime"
						dayConst := map[string]bool{}
						isDay := func(e ast.Expr) bool {
							if id, ok := e.(*ast.Ident); ok {
								return dayConst[id.Name]
							}
							return printNode(fset, e) == "24 * time.Hour"
						}
						oneCase := func(cond ast.Expr, body []ast.Stmt) {
							ok := false
							if call, isCall := cond.(*ast.CallExpr); isCall && len(call.Args) == 1 && len(body) == 1 {
								sel, _ := call.Fun.(*ast.SelectorExpr)
								arg, _ := call.Args[0].(*ast.Ident)
								ret, _ := body[0].(*ast.ReturnStmt)
								if sel != nil && arg != nil && ret != nil && len(ret.Results) == 1 {
									x, _ := sel.X.(*ast.Ident)
									lit, _ := ret.Results[0].(*ast.BasicLit)
									if x != nil && role[x.Name] == "valueTime" && lit != nil && (role[arg.Name] == "startTime" || role[arg.Name] == "endTime") {
										l, _ := strconv.Unquote(lit.Value)
										cases = append(cases, fmt.Sprintf("(%s, %s, %s)", strconv.Quote(sel.Sel.Name), strconv.Quote(role[arg.Name]), strconv.Quote(l)))
										ok = true
									}
								}
							}
							if !ok {
								cases = append(cases, `("?", "?", "?")`)
							}
						}
						for _, st := range d.Body.List {
							switch st := st.(type) {
							case *ast.DeclStmt:
								// const oneDay = 24 * time.Hour
								if gd, ok := st.Decl.(*ast.GenDecl); ok && gd.Tok == token.CONST {
									for _, sp := range gd.Specs {
										if vs, ok := sp.(*ast.ValueSpec); ok && len(vs.Names) == 1 && len(vs.Values) == 1 && printNode(fset, vs.Values[0]) == "24 * time.Hour" {
											dayConst[vs.Names[0].Name] = true
										}
									}
								}
							case *ast.AssignStmt:
								// x := <param>.Time().Truncate(<day>)
								if len(st.Lhs) == 1 && len(st.Rhs) == 1 && st.Tok == token.DEFINE {
									id, _ := st.Lhs[0].(*ast.Ident)
									call, _ := st.Rhs[0].(*ast.CallExpr)
									if id != nil && call != nil && len(call.Args) == 1 && isDay(call.Args[0]) {
										if sel, ok := call.Fun.(*ast.SelectorExpr); ok && sel.Sel.Name == "Truncate" {
											if c2, ok := sel.X.(*ast.CallExpr); ok && len(c2.Args) == 0 {
												if s2, ok := c2.Fun.(*ast.SelectorExpr); ok && s2.Sel.Name == "Time" {
													if pid, ok := s2.X.(*ast.Ident); ok {
														switch pid.Name {
														case "value", "start", "end":
															role[id.Name] = pid.Name + "Time"
															trunc++
														}
													}
												}
											}
										}
									}
								}
							case *ast.SwitchStmt:
								if st.Tag != nil || st.Init != nil {
									cases = append(cases, `("?", "?", "?")`)
									continue
								}
								for _, cc := range st.Body.List {
									c := cc.(*ast.CaseClause)
									if len(c.List) == 1 {
										oneCase(c.List[0], c.Body)
									} else {
										cases = append(cases, `("?", "?", "?")`)
									}
								}
							case *ast.IfStmt:
								if st.Init != nil || st.Else != nil {
									cases = append(cases, `("?", "?", "?")`)
									continue
								}
								oneCase(st.Cond, st.Body.List)
							case *ast.ReturnStmt:
								if len(st.Results) == 1 {
									if lit, ok := st.Results[0].(*ast.BasicLit); ok {
										dflt, _ = strconv.Unquote(lit.Value)
									}
								}
							default:
								cases = append(cases, `("?", "?", "?")`)
							}
						}
					}
					if d.Name.Name == "Compare" && d.Recv != nil {
						if id, ok := d.Recv.List[0].Type.(*ast.Ident); ok && id.Name == "DateRange" {
							for _, st := range d.Body.List {
								compareStmts = append(compareStmts, strconv.Quote(printNode(fset, st)))
							}
						}
					}
				}
			}
		}
		fmt.Fprintf(&b, "/-- `dateRangeCompareMatrix`: key ↦ constant (without the `DateRangeComparison` prefix) -/\ndef matrixSrc : List (String × String) := [\n  %s]\n\n", strings.Join(matrix, ",\n  "))
		fmt.Fprintf(&b, "/-- `compareDatesForLetter`: the cases of its switch in order: (method of valueTime, argument, letter) -/\ndef letterCases : List (String × String × String) := [%s]\n", strings.Join(cases, ", "))
		fmt.Fprintf(&b, "/-- … and the letter returned when no case applies -/\ndef letterDefault : String := %s\n", strconv.Quote(dflt))
		fmt.Fprintf(&b, "/-- how many of value/start/end are compared as `x.Time().Truncate(24 * time.Hour)` -/\ndef letterTruncations : Nat := %d\n\n", trunc)
		fmt.Fprintf(&b, "/-- the statements of `DateRange.Compare`, printed by go/printer with white space normalised -/\ndef compareStatements : List String := [\n  %s]\n", strings.Join(compareStmts, ",\n  "))
		b.WriteString("\nend Gedcom.Generated\n")
		return b.String()
	}
}
