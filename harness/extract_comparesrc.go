package main

import (
	"bytes"
	"fmt"
	"go/ast"
	"go/parser"
	"go/printer"
	"go/token"
	"path/filepath"
	"strconv"
	"strings"
)

// Source translation of the decision logic of DateRange.Compare (date_range.go): the map literal
// dateRangeCompareMatrix, the ordered cases of the switch in compareDatesForLetter, and the
// statements of Compare.  Props/C06 proves that interpreting these regenerated pieces gives the
// model's `compare` (which all C06 theorems are about) for all day numbers.

func printNode(fset *token.FileSet, n ast.Node) string {
	var buf bytes.Buffer
	printer.Fprint(&buf, fset, n)
	return strings.Join(strings.Fields(buf.String()), " ")
}

func init() {
	extractors["CompareSrc"] = func() string {
		var b strings.Builder
		b.WriteString("-- Source: date_range.go — dateRangeCompareMatrix (map literal), compareDatesForLetter (switch\n")
		b.WriteString("-- cases in order), DateRange.Compare (statements), read with go/ast.\n")
		b.WriteString("namespace Gedcom.Generated\n\n")
		fset := token.NewFileSet()
		file, err := parser.ParseFile(fset, filepath.Join(repoRoot(), "date_range.go"), nil, 0)
		matrix := []string{}
		cases := []string{}
		dflt := ""
		trunc := 0
		compareStmts := []string{}
		if err == nil {
			for _, d := range file.Decls {
				switch d := d.(type) {
				case *ast.GenDecl:
					for _, s := range d.Specs {
						vs, ok := s.(*ast.ValueSpec)
						if !ok || len(vs.Names) != 1 || vs.Names[0].Name != "dateRangeCompareMatrix" || len(vs.Values) != 1 {
							continue
						}
						if cl, ok := vs.Values[0].(*ast.CompositeLit); ok {
							for _, e := range cl.Elts {
								kv, ok := e.(*ast.KeyValueExpr)
								if !ok {
									matrix = append(matrix, `("?", "?")`)
									continue
								}
								k, _ := kv.Key.(*ast.BasicLit)
								v, _ := kv.Value.(*ast.Ident)
								if k == nil || v == nil {
									matrix = append(matrix, `("?", "?")`)
									continue
								}
								ks, _ := strconv.Unquote(k.Value)
								matrix = append(matrix, fmt.Sprintf("(%s, %s)", strconv.Quote(ks), strconv.Quote(strings.TrimPrefix(v.Name, "DateRangeComparison"))))
							}
						}
					}
				case *ast.FuncDecl:
					if d.Body == nil {
						continue
					}
					if d.Name.Name == "compareDatesForLetter" && d.Recv == nil {
						for _, st := range d.Body.List {
							switch st := st.(type) {
							case *ast.AssignStmt:
								// xTime := x.Time().Truncate(24 * time.Hour)
								txt := printNode(fset, st)
								for _, v := range []string{"value", "start", "end"} {
									if txt == v+"Time := "+v+".Time().Truncate(24 * time.Hour)" {
										trunc++
									}
								}
							case *ast.SwitchStmt:
								if st.Tag != nil || st.Init != nil {
									cases = append(cases, `("?", "?", "?")`)
									continue
								}
								for _, cc := range st.Body.List {
									c := cc.(*ast.CaseClause)
									ok := false
									if len(c.List) == 1 && len(c.Body) == 1 {
										if call, isCall := c.List[0].(*ast.CallExpr); isCall && len(call.Args) == 1 {
											sel, _ := call.Fun.(*ast.SelectorExpr)
											arg, _ := call.Args[0].(*ast.Ident)
											ret, _ := c.Body[0].(*ast.ReturnStmt)
											if sel != nil && arg != nil && ret != nil && len(ret.Results) == 1 {
												x, _ := sel.X.(*ast.Ident)
												lit, _ := ret.Results[0].(*ast.BasicLit)
												if x != nil && x.Name == "valueTime" && lit != nil {
													l, _ := strconv.Unquote(lit.Value)
													cases = append(cases, fmt.Sprintf("(%s, %s, %s)", strconv.Quote(sel.Sel.Name), strconv.Quote(arg.Name), strconv.Quote(l)))
													ok = true
												}
											}
										}
									}
									if !ok {
										cases = append(cases, `("?", "?", "?")`)
									}
								}
							case *ast.ReturnStmt:
								if len(st.Results) == 1 {
									if lit, ok := st.Results[0].(*ast.BasicLit); ok {
										dflt, _ = strconv.Unquote(lit.Value)
									}
								}
							}
						}
					}
					if d.Name.Name == "Compare" && d.Recv != nil {
						if id, ok := d.Recv.List[0].Type.(*ast.Ident); ok && id.Name == "DateRange" {
							for _, st := range d.Body.List {
								compareStmts = append(compareStmts, strconv.Quote(printNode(fset, st)))
							}
						}
					}
				}
			}
		}
		fmt.Fprintf(&b, "/-- `dateRangeCompareMatrix`: key ↦ constant (without the `DateRangeComparison` prefix) -/\ndef matrixSrc : List (String × String) := [\n  %s]\n\n", strings.Join(matrix, ",\n  "))
		fmt.Fprintf(&b, "/-- `compareDatesForLetter`: the cases of its switch in order: (method of valueTime, argument, letter) -/\ndef letterCases : List (String × String × String) := [%s]\n", strings.Join(cases, ", "))
		fmt.Fprintf(&b, "/-- … and the letter returned when no case applies -/\ndef letterDefault : String := %s\n", strconv.Quote(dflt))
		fmt.Fprintf(&b, "/-- how many of value/start/end are compared as `x.Time().Truncate(24 * time.Hour)` -/\ndef letterTruncations : Nat := %d\n\n", trunc)
		fmt.Fprintf(&b, "/-- the statements of `DateRange.Compare`, printed by go/printer with white space normalised -/\ndef compareStatements : List String := [\n  %s]\n", strings.Join(compareStmts, ",\n  "))
		b.WriteString("\nend Gedcom.Generated\n")
		return b.String()
	}
}
