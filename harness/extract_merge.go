package main

import (
	"fmt"
	"strings"

	"github.com/elliotchance/gedcom/v39"
)

// Behavioural probes: do the three places of merge.go that are documented to copy really return
// new objects?  (MergeNodes: unmatched right child; MergeNodeSlices: left nodes, unmatched right
// nodes.)  The Lean model of C09 shares the node instead of copying it when a flag is false.
func init() {
	extractors["Merge"] = func() string {
		never := func(l, r gedcom.Node, d *gedcom.Document) gedcom.Node { return nil }
		doc := gedcom.NewDocument()
		note := func(v string) gedcom.Node { return gedcom.NewNode(gedcom.TagFromString("NOTE"), v, "") }
		// MergeNodes
		l := gedcom.NewNode(gedcom.TagFromString("ZZX"), "", "")
		r := gedcom.NewNode(gedcom.TagFromString("ZZX"), "", "")
		child := note("a")
		r.AddNode(child)
		m, err := gedcom.MergeNodes(l, r, doc)
		nodesCopyRight := err == nil && len(m.Nodes()) == 1 && m.Nodes()[0] != child
		// MergeNodeSlices
		a, b := note("a"), note("b")
		res := gedcom.MergeNodeSlices(gedcom.Nodes{a}, nil, doc, never)
		sliceCopyLeft := len(res) == 1 && res[0] != a
		res = gedcom.MergeNodeSlices(nil, gedcom.Nodes{b}, doc, never)
		sliceCopyRight := len(res) == 1 && res[0] != b
		// DeepCopy of a HUSB node on its own
		seeds := false
		func() {
			defer func() { recover() }()
			d, err := gedcom.NewDocumentFromString("0 @F1@ FAM\n1 HUSB @I1@\n")
			if err == nil && len(d.Nodes()) == 1 && len(d.Nodes()[0].Nodes()) == 1 {
				cp := gedcom.DeepCopy(d.Nodes()[0].Nodes()[0], gedcom.NewDocument())
				seeds = !gedcom.IsNil(cp)
			}
		}()
		var sb strings.Builder
		sb.WriteString("-- Source: behavioural probes of MergeNodes / MergeNodeSlices (object identity of the result\n")
		sb.WriteString("-- against the inputs): does the code pass the node through DeepCopy?\n")
		sb.WriteString("namespace Gedcom.Generated\n\n")
		fmt.Fprintf(&sb, "/-- MergeNodes adds an unmatched right child as a deep copy -/\ndef mergeNodesCopiesRight : Bool := %v\n\n", nodesCopyRight)
		fmt.Fprintf(&sb, "/-- MergeNodeSlices puts deep copies of the left nodes into the new slice -/\ndef mergeSlicesCopyLeft : Bool := %v\n\n", sliceCopyLeft)
		fmt.Fprintf(&sb, "/-- MergeNodeSlices appends an unmatched right node as a deep copy -/\ndef mergeSlicesCopyRight : Bool := %v\n\n", sliceCopyRight)
		fmt.Fprintf(&sb, "/-- DeepCopy of a HUSB / WIFE / CHIL node on its own does not panic (the family is taken from the node) -/\ndef deepCopySeedsFamily : Bool := %v\n\n", seeds)
		sb.WriteString("end Gedcom.Generated\n")
		return sb.String()
	}
}
