package main

import (
	"fmt"
	"regexp"
	"strconv"
	"strings"
	"sync/atomic"
	"time"

	"github.com/elliotchance/gedcom/v39"
)

// ---------------------------------------------------------------------------------------------
// shared by C01, C02, C03: observation of the real decoder, generators of forests and texts
// ---------------------------------------------------------------------------------------------

var decLineNo = regexp.MustCompile(`^line (\d+):`)

// decObserve runs the real decoder and returns the canonical observation
// "ok bom=<b> <dump>" | "err <line>" | "panic <class>" | "hang" (no result within decTimeout; the
// decoding goroutine is abandoned — after decMaxHangs hangs every further call answers "hang-skipped"
// so that a non-terminating decoder cannot stall the whole run).
func decObserve(text string, multi, inv bool) (obs string, doc *gedcom.Document) {
	if atomic.LoadInt32(&decHangs) >= decMaxHangs {
		return "hang-skipped", nil
	}
	type res struct {
		obs string
		doc *gedcom.Document
	}
	ch := make(chan res, 1)
	go func() {
		o, d := decObserveRaw(text, multi, inv)
		ch <- res{o, d}
	}()
	select {
	case r := <-ch:
		return r.obs, r.doc
	case <-time.After(decTimeout):
		atomic.AddInt32(&decHangs, 1)
		return "hang", nil
	}
}

var decHangs int32

const decMaxHangs = 3
const decTimeout = 20 * time.Second

func decObserveRaw(text string, multi, inv bool) (obs string, doc *gedcom.Document) {
	defer func() {
		if r := recover(); r != nil {
			msg := fmt.Sprint(r)
			if strings.HasPrefix(msg, "indent is too large") {
				obs = "panic indentTooLarge"
			} else {
				obs = "panic other: " + msg
			}
			doc = nil
		}
	}()
	dec := gedcom.NewDecoder(strings.NewReader(text))
	dec.AllowMultiLine = multi
	dec.AllowInvalidIndents = inv
	d, err := dec.Decode()
	if err != nil {
		if m := decLineNo.FindStringSubmatch(err.Error()); m != nil {
			return "err " + m[1], nil
		}
		return "err ? " + err.Error(), nil
	}
	return "ok bom=" + bit(d.HasBOM) + " " + dumpNodes(d.Nodes()), d
}

func decReq(text string, multi, inv bool) string {
	return "decode " + bit(multi) + bit(inv) + " " + hexs(text)
}

var decAllTags []string

func decTags() []string {
	if decAllTags == nil {
		seen := map[string]bool{}
		for _, t := range gedcom.Tags() {
			if !seen[t.Tag()] {
				seen[t.Tag()] = true
				decAllTags = append(decAllTags, t.Tag())
			}
		}
	}
	return decAllTags
}

var decSpecialTags = []string{"BAPM", "BIRT", "BURI", "DATE", "DEAT", "EVEN", "FONE", "FORM", "LATI", "LONG", "MAP",
	"NAME", "NICK", "NOTE", "PLAC", "RESI", "ROMN", "SEX", "SOUR", "TYPE", "_FID", "_FSFTID", "_UID"}
var decCustomTags = []string{"_CUSTOM", "X", "X1", "123", "0", "a_b", "_", "lower", "Z9_", "1NAME", "TAG2",
	// case variants of registered tags are *different*, unregistered tags (plain nodes)
	"name", "Name", "Date", "date", "_uid", "Birt", "sex", "Plac", "note", "Resi", "even", "sour", "Type", "nAME",
	"husb", "Wife", "chil", "Husb", "fam", "Indi", "indi", "Fam", "cHIL", "wife"}
var decValues = []string{"", "", "", "x", "Joe /Bloggs/", "@I1@", "@F1@", "0", "1", "12 NOTE x", "1 NAME Bob", "0 @I9@ INDI",
	"abc@", "@", "@@", "a  b", "3 Sep 1943", "Bet. 1900 and 1910", "(phrase)", "M", "F", "é ü 日本", "\xff\xfe", "a\tb",
	"x y", "-", "HUSB", "Oldtown, , , Someland", "EE13561DDB204985BFFDEEBF82A5226C5B2E", "v w x y z", "=", "'\"<>&"}
var decPointers = []string{"", "", "", "", "I1", "F1", "S1", "N 1", "x y", "p", "0", "a/b", "../x", "é", "I1 "}

func decTag(r *Rand) string {
	switch r.Intn(10) {
	case 0, 1:
		return r.Pick(decCustomTags)
	case 2, 3, 4, 5:
		return r.Pick(decSpecialTags)
	}
	return r.Pick(decTags())
}

// decGenForest draws a forest of public-API-buildable nodes over the legal alphabet.
// Shape: skewed — mostly small, some deep chains (up to depth 99), some wide nodes.
func decGenForest(r *Rand, maxNodes int) []*TNode {
	budget := 1 + r.Intn(maxNodes)
	if r.Chance(1, 20) {
		budget = 0
	}
	deep := r.Chance(1, 8)
	wide := r.Chance(1, 8)
	famSeen := false
	var gen func(depth int, top bool) *TNode
	gen = func(depth int, top bool) *TNode {
		budget--
		t := &TNode{}
		k := r.Intn(20)
		switch {
		case k < 3:
			t.Tag, t.Ptr = "INDI", r.Pick([]string{"I1", "I2", "I3", ""})
		case k < 5:
			t.Tag, t.Ptr = "FAM", r.Pick([]string{"F1", "F2", ""})
		case k < 8 && famSeen:
			t.Tag, t.Value = r.Pick([]string{"HUSB", "WIFE", "CHIL"}), "@"+r.Pick([]string{"I1", "I2", "I9", "x y"})+"@"
		default:
			t.Tag = decTag(r)
			for t.Tag == "INDI" || t.Tag == "FAM" || t.Tag == "HUSB" || t.Tag == "WIFE" || t.Tag == "CHIL" {
				t.Tag = decTag(r)
			}
			t.Value = r.Pick(decValues)
			t.Ptr = r.Pick(decPointers)
		}
		if t.Tag == "FAM" {
			famSeen = true
		}
		maxDepth := 6
		if deep {
			maxDepth = 99
		}
		for budget > 0 && depth < maxDepth {
			p := 2
			if deep {
				p = 9
			}
			if wide && depth < 2 {
				p = 9
			}
			if !r.Chance(p, 10) {
				break
			}
			t.Kids = append(t.Kids, gen(depth+1, false))
			if deep && !wide {
				break
			}
		}
		return t
	}
	var f []*TNode
	for budget > 0 {
		f = append(f, gen(0, true))
	}
	return f
}

// decBuild builds the forest through the public API (NewNode, AddNode, AddIndividual, AddFamily,
// SetHusbandPointer / SetWifePointer / AddChild for role nodes) and returns the document.
func decBuild(f []*TNode, bom bool) (doc *gedcom.Document, err error) {
	doc, _, err = decBuildMap(f, bom)
	return
}

// decBuildMap also returns the node that was built for every forest node.
func decBuildMap(f []*TNode, bom bool) (doc *gedcom.Document, built map[*TNode]gedcom.Node, err error) {
	built = map[*TNode]gedcom.Node{}
	defer func() {
		if r := recover(); r != nil {
			err = fmt.Errorf("panic while building: %v", r)
		}
	}()
	doc = gedcom.NewDocument()
	doc.HasBOM = bom
	scratch := gedcom.NewDocument()
	var build func(t *TNode) gedcom.Node
	build = func(t *TNode) gedcom.Node {
		var n gedcom.Node
		switch t.Tag {
		case "INDI":
			n = scratch.AddIndividual(t.Ptr)
		case "FAM":
			n = scratch.AddFamily(t.Ptr)
		case "HUSB", "WIFE", "CHIL":
			fam := scratch.AddFamily("tmp")
			p := strings.TrimSuffix(strings.TrimPrefix(t.Value, "@"), "@")
			switch t.Tag {
			case "HUSB":
				fam.SetHusbandPointer(p)
			case "WIFE":
				fam.SetWifePointer(p)
			default:
				tmp := scratch.AddIndividual(p)
				fam.AddChild(tmp)
			}
			n = fam.Nodes()[0]
		default:
			n = gedcom.NewNode(gedcom.TagFromString(t.Tag), t.Value, t.Ptr)
		}
		for _, k := range t.Kids {
			n.AddNode(build(k))
		}
		built[t] = n
		return n
	}
	for _, t := range f {
		doc.AddNode(build(t))
	}
	return doc, built, nil
}

// dumpParts / dumpForestParts: level, tag, value and pointer of every node in document order,
// from a built document and from the forest it was built from.
func dumpParts(ns gedcom.Nodes) string {
	var sb strings.Builder
	var walk func(n gedcom.Node, d int)
	walk = func(n gedcom.Node, d int) {
		fmt.Fprintf(&sb, " %d %s %s %s", d, hexs(n.Tag().Tag()), hexs(n.Value()), hexs(n.Pointer()))
		for _, k := range n.Nodes() {
			walk(k, d+1)
		}
	}
	for _, n := range ns {
		walk(n, 0)
	}
	return sb.String()
}

func dumpForestParts(f []*TNode) string {
	var sb strings.Builder
	var walk func(t *TNode, d int)
	walk = func(t *TNode, d int) {
		fmt.Fprintf(&sb, " %d %s %s %s", d, hexs(t.Tag), hexs(t.Value), hexs(t.Ptr))
		for _, k := range t.Kids {
			walk(k, d+1)
		}
	}
	for _, t := range f {
		walk(t, 0)
	}
	return sb.String()
}

// decShare puts one already built node instance at a second position of the document (the API
// allows it: AddNode takes any node) and the same forest node at the same second position of the
// forest. The shared subtree holds no record or family-role node, so it is legal wherever it
// goes; the new parent is not inside it, so the forest stays finite.
func decShare(r *Rand, f []*TNode, doc *gedcom.Document, built map[*TNode]gedcom.Node) ([]*TNode, bool) {
	var all []*TNode
	var walk func(t *TNode)
	walk = func(t *TNode) {
		all = append(all, t)
		for _, k := range t.Kids {
			walk(k)
		}
	}
	for _, t := range f {
		walk(t)
	}
	if len(all) == 0 {
		return f, false
	}
	var plain func(t *TNode) bool
	plain = func(t *TNode) bool {
		switch t.Tag {
		case "INDI", "FAM", "HUSB", "WIFE", "CHIL":
			return false
		}
		for _, k := range t.Kids {
			if !plain(k) {
				return false
			}
		}
		return true
	}
	var inside func(t, root *TNode) bool
	inside = func(t, root *TNode) bool {
		if t == root {
			return true
		}
		for _, k := range root.Kids {
			if inside(t, k) {
				return true
			}
		}
		return false
	}
	for try := 0; try < 20; try++ {
		src := all[r.Intn(len(all))]
		if !plain(src) || built[src] == nil {
			continue
		}
		if r.Intn(4) == 0 {
			doc.AddNode(built[src])
			return append(f, src), true
		}
		dst := all[r.Intn(len(all))]
		if inside(dst, src) || built[dst] == nil {
			continue
		}
		built[dst].AddNode(built[src])
		dst.Kids = append(dst.Kids, src)
		return f, true
	}
	return f, false
}

// decDumpAbstract is the dump the built forest must have after a round trip (kinds from the
// build itself, so no table is shared with the model).
func decRoundTrip(c *Ctx, f []*TNode, bom bool) { decRoundTripOpt(c, f, bom, false) }

func decRoundTripOpt(c *Ctx, f []*TNode, bom bool, share bool) {
	doc, builtNodes, err := decBuildMap(f, bom)
	in := map[string]interface{}{"forest": encForest(f), "bom": bom}
	if err != nil {
		c.Oracle("", "a legal forest cannot be built through the public API", in, err.Error(), "a document")
		return
	}
	if share {
		var shared bool
		if f, shared = decShare(c.R, f, doc, builtNodes); shared {
			c.Count("shared-instance")
			in["forest"] = encForest(f)
			in["shared"] = "one node instance sits at two positions"
		}
	}
	// the document holds the parts it was built from (a constructor that changes a tag, value or
	// pointer would otherwise make both sides of the round trip agree on the wrong node)
	if got, want := dumpParts(doc.Nodes()), dumpForestParts(f); got != want {
		c.Oracle("", "the document built through the public API does not hold the tag, value and pointer it was given at every position", in, got, want)
		return
	}
	text := doc.String()
	built := "ok bom=" + bit(bom) + " " + dumpNodes(doc.Nodes())
	// (T) encoder and decoder against the model
	c.Tie("encode "+bit(bom)+" "+encForest(f), hexs(text))
	c.Tie("legal "+encForest(f), "1") // the generated forest lies in the domain of the Lean theorem
	obs, _ := decObserve(text, false, false)
	c.Tie(decReq(text, false, false), obs)
	c.Eval()
	sz, dp := 0, 0
	for _, t := range f {
		sz += t.Size()
		if d := t.Depth(); d > dp {
			dp = d
		}
	}
	c.Count("nodes=" + bucket(sz))
	c.Count("depth=" + bucket(dp))
	if sz > 1 {
		c.Nontrivial(text)
	}
	in["text"] = text
	// (S) the property on the implementation: same nodes, kinds, BOM; under every option combination
	if obs != built {
		c.Oracle(decClassify(obs, dp), "decode(encode(document)) differs from the document", in, obs, built)
		return
	}
	for _, o := range [][2]bool{{true, false}, {false, true}, {true, true}} {
		obs2, _ := decObserve(text, o[0], o[1])
		if obs2 != built {
			c.Oracle(decClassify(obs2, dp), fmt.Sprintf("decode(encode(document)) differs from the document with AllowMultiLine=%v AllowInvalidIndents=%v", o[0], o[1]), in, obs2, built)
			return
		}
	}
}

func decClassify(obs string, depth int) string { return "" }

func bucket(n int) string {
	switch {
	case n == 0:
		return "0"
	case n == 1:
		return "1"
	case n <= 3:
		return "2-3"
	case n <= 9:
		return "4-9"
	case n <= 30:
		return "10-30"
	case n <= 99:
		return "31-99"
	}
	return "100+"
}

// decExhaustive enumerates every forest with at most maxNodes nodes over a reduced alphabet.
func decExhaustive(c *Ctx, minNodes, maxNodes int, tags, vals []string) {
	type lab struct{ tag, val, ptr string }
	var labels []lab
	for _, tg := range tags {
		for _, v := range vals {
			for _, p := range []string{"", "P"} {
				switch tg {
				case "FAM", "INDI":
					if v != "" {
						continue
					}
				case "HUSB":
					if v != "@I1@" || p != "" {
						continue
					}
				}
				labels = append(labels, lab{tg, v, p})
			}
		}
	}
	// shapes: all forests with n nodes as parenthesis structures, generated recursively
	var forests func(n int) [][]*TNode
	memo := map[int][][]*TNode{}
	forests = func(n int) [][]*TNode {
		if v, ok := memo[n]; ok {
			return v
		}
		var res [][]*TNode
		if n == 0 {
			res = [][]*TNode{nil}
		} else {
			for k := 1; k <= n; k++ { // first tree has k nodes
				for _, kids := range forests(k - 1) {
					for _, rest := range forests(n - k) {
						t := &TNode{Kids: kids}
						res = append(res, append([]*TNode{t}, rest...))
					}
				}
			}
		}
		memo[n] = res
		return res
	}
	var collect func(f []*TNode, out *[]*TNode)
	collect = func(f []*TNode, out *[]*TNode) {
		for _, t := range f {
			*out = append(*out, t)
			collect(t.Kids, out)
		}
	}
	for n := minNodes; n <= maxNodes; n++ {
		for _, shape := range forests(n) {
			// deep copy the shape so labelling does not alias across shapes
			var cp []*TNode
			for _, t := range shape {
				cp = append(cp, t.Clone())
			}
			var nodes []*TNode
			collect(cp, &nodes)
			idx := make([]int, len(nodes))
			for {
				famSeen, legal := false, true
				for i, nd := range nodes {
					l := labels[idx[i]]
					nd.Tag, nd.Value, nd.Ptr = l.tag, l.val, l.ptr
					if l.tag == "FAM" {
						famSeen = true
					}
					if l.tag == "HUSB" && !famSeen {
						legal = false
					}
				}
				if legal {
					decRoundTrip(c, cp, false)
				}
				i := 0
				for ; i < len(idx); i++ {
					idx[i]++
					if idx[i] < len(labels) {
						break
					}
					idx[i] = 0
				}
				if i == len(idx) {
					break
				}
			}
		}
	}
}

func init() {
	runners["C01"] = func(c *Ctx) {
		c.Rule = "forests built through the public API over the legal alphabet (all registered tags incl. every specialised kind, custom and numeric tags, awkward values, pointers on nested nodes, role nodes inside/after families, depth 0..99, BOM on/off): build -> Document.String() -> decode under all 4 option combinations -> compare nodes, kinds, BOM; exhaustive over all forests of <= N nodes on a reduced alphabet; distinct = distinct encoded texts with more than one node"
		// corpus: shapes named in the property
		chain := T("NOTE", "d0", "")
		cur := chain
		for i := 1; i <= 99; i++ {
			k := T("CONT", "d"+strconv.Itoa(i), "")
			cur.Kids = []*TNode{k}
			cur = k
		}
		corpus := [][]*TNode{
			nil,
			{T("HEAD", "", "")},
			{chain},
			{T("FAM", "", "F1", T("HUSB", "@I1@", ""), T("CHIL", "@I2@", "")), T("NOTE", "x", "N1", T("HUSB", "@I1@", ""))},
			{T("INDI", "", "I1", T("NAME", "@I1@", ""), T("123", "0", "p q"), T("BIRT", "", "", T("DATE", "12 NOTE x", "")))},
			{T("NOTE", "", "", T("INDI", "", "I5", T("SEX", "M", "", T("NOTE", "child of sex", ""))))},
		}
		// the statement says "any nesting depth": chains beyond the two-digit levels as well
		for _, d := range []int{100, 105, 1001} {
			deep := T("NOTE", "d0", "")
			cur := deep
			for i := 1; i <= d; i++ {
				k := T("CONT", "d"+strconv.Itoa(i), "")
				cur.Kids = []*TNode{k}
				cur = k
			}
			corpus = append(corpus, []*TNode{deep, T("NOTE", "after", "")})
		}
		// wide nodes and wide documents: more children than any fixed-size bit set or small buffer
		for _, w := range []int{8, 9, 16, 17, 32, 33, 64, 65, 128, 129, 257, c.N(1025, 5000)} {
			wide := T("INDI", "", "I1")
			var roots []*TNode
			for i := 0; i < w; i++ {
				k := T("NOTE", "n"+strconv.Itoa(i%7), "")
				if i%5 == 0 {
					k.Kids = []*TNode{T("CONT", "c", "")}
				}
				wide.Kids = append(wide.Kids, k)
				roots = append(roots, T("NOTE", "r"+strconv.Itoa(i%3), "N"+strconv.Itoa(i)))
			}
			corpus = append(corpus, []*TNode{wide}, append(roots, wide))
		}
		// long tags and pointers (no limit in the statement either)
		for _, n := range []int{8, 31, 32, 33, 64, 65, 255, 256, 4097} {
			tg := "_" + strings.Repeat("T", n-1)
			corpus = append(corpus, []*TNode{T(tg, "v", strings.Repeat("p", n), T(strings.Repeat("9", n), "", strings.Repeat("q", n-1)+"é")), T("INDI", "", strings.Repeat("I", n), T(tg, "", ""))})
		}
		// very long values: the property puts no limit on string length
		for _, n := range []int{4095, 4096, 65535, 65536, 70000, c.N(200000, 2000000)} {
			corpus = append(corpus, []*TNode{T("HEAD", "", ""), T("NOTE", strings.Repeat("x", n-1)+"y", "N1", T("CONT", strings.Repeat("z ", n/2)+"w", ""))})
		}
		for _, f := range corpus {
			decRoundTrip(c, f, false)
			decRoundTrip(c, f, true)
		}
		c.Sample(map[string]string{"forest": encForest(corpus[4]), "meaning": "INDI with NAME value @I1@, numeric tag with pointer 'p q', nested DATE whose value looks like a line"})
		decExhaustive(c, 0, 3, []string{"FAM", "HUSB", "DATE", "NOTE", "_X", "INDI"}, []string{"", "@I1@", "1 x"})
		if !c.Quick() {
			decExhaustive(c, 4, 4, []string{"FAM", "HUSB", "DATE", "_X"}, []string{"", "@I1@"})
		}
		n := c.N(20000, 300000)
		maxNodes := c.N(60, 400)
		for i := 0; i < n; i++ {
			decRoundTripOpt(c, decGenForest(c.R, maxNodes), c.R.Bool(), i%8 == 7)
		}
	}
}
