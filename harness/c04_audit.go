package main

import (
	"fmt"
	"strconv"
	"strings"

	"github.com/elliotchance/gedcom/v39"
)

// C04 boundary and history audit (notes/boundary-audit.md).  A fixed corpus that runs first:
// size boundaries of every numeric/length dimension of a DATE value, and observe -> change ->
// observe-again histories in one process (many distinct values between two sightings of the same
// value; String() after other calls on the same object; DATE nodes replaced inside a document;
// one node object under two parents; a second document).  Oracle: the documented meaning, the
// same observation as the first time, the same observation on a fresh parse; tie: the Lean model.

var c04AuditLens = []int{0, 1, 2, 7, 8, 9, 15, 16, 17, 31, 32, 33, 63, 64, 65, 100, 127, 128, 129, 255, 256, 257, 1024, 4096}

type c04Probe struct {
	s          string
	start, end c04Meaning
	isRange    bool
	valid      bool
}

// c04Route observes one string through one of three routes that end in the same parser:
// 0 = NewDateRangeWithString, 1 = a fresh DATE node, 2 = a DATE node inside a decoded document's
// tree (added through the API so the value keeps its spaces).
func c04Route(route int, s string) string {
	switch route {
	case 1:
		n := gedcom.NewDateNode(s)
		dr := n.DateRange()
		return fmt.Sprintf("%s | %s | %s%s | %s | %s", c04ShowDate(dr.StartDate()), c04ShowDate(dr.EndDate()),
			bit(n.IsValid()), bit(n.IsPhrase()), c04Hex(dr.String()), c04Hex(n.String()))
	case 2:
		doc, err := gedcom.NewDocumentFromString("0 @I1@ INDI\n1 BIRT\n")
		if err != nil || len(doc.Individuals()) != 1 {
			return "doc-error"
		}
		birt := doc.Individuals()[0].Nodes()[0]
		birt.AddNode(gedcom.NewDateNode(s))
		ds := gedcom.Dates(birt)
		if len(ds) != 1 {
			return "doc-error"
		}
		n := ds[0]
		dr := n.DateRange()
		return fmt.Sprintf("%s | %s | %s%s | %s | %s", c04ShowDate(dr.StartDate()), c04ShowDate(dr.EndDate()),
			bit(n.IsValid()), bit(n.IsPhrase()), c04Hex(dr.String()), c04Hex(n.String()))
	}
	return c04Observe(s).line
}

// c04Filler is the i-th of a long sequence of pairwise distinct, valid DATE strings with a known
// meaning (day month year, day 1..28).
func c04Filler(i int) (string, c04Meaning) {
	d := 1 + i%28
	m := 1 + (i/28)%12
	y := 1 + (i/(28*12))%9999
	kw := c04DocKeywords[(i/7)%len(c04DocKeywords)]
	s := fmt.Sprintf("%d %s %d", d, c04CanonMonth[m], y)
	if kw.word != "" {
		s = kw.word + " " + s
	}
	return s, c04Meaning{d, m, y, kw.c}
}

func c04AuditManyValues(c *Ctx) {
	// probes: each value in several spellings (plain, leading / trailing / inner extra spaces),
	// phrases and invalid values whose raw string matters (IsPhrase looks at the raw first byte)
	mk := func(s string, a, b c04Meaning, rng, valid bool) c04Probe { return c04Probe{s, a, b, rng, valid} }
	m1 := c04Meaning{5, 3, 1900, gedcom.DateConstraintExact}
	m2 := c04Meaning{0, 0, 1850, gedcom.DateConstraintAbout}
	m3a, m3b := c04Meaning{0, 9, 1850, gedcom.DateConstraintExact}, c04Meaning{1, 1, 1851, gedcom.DateConstraintBefore}
	z := c04Meaning{}
	probes := []c04Probe{
		mk("5 Mar 1900", m1, m1, false, true), mk(" 5 Mar 1900", m1, m1, false, true), mk("5 Mar 1900 ", m1, m1, false, true),
		mk("  5  Mar   1900  ", m1, m1, false, true), mk("05 MARCH 1900", m1, m1, false, true), mk("5 mar 01900", m1, m1, false, true),
		mk("abt 1850", m2, m2, false, true), mk("  abt 1850", m2, m2, false, true), mk("Abt.  1850 ", m2, m2, false, true), mk("CIRCA 1850", m2, m2, false, true),
		mk("bet Sep 1850 and bef 1 Jan 1851", m3a, m3b, true, true), mk(" from  sep 1850  to  Bef. 01 january 1851 ", m3a, m3b, true, true),
		mk("(foo)", z, z, false, false), mk(" (foo)", z, z, false, false), mk("(foo) ", z, z, false, false), mk("( foo )", z, z, false, false),
		mk("Foo 1850", z, z, false, false), mk(" Foo 1850", z, z, false, false), mk("31 Apr 1900", z, z, false, false), mk("", z, z, false, false), mk(" ", z, z, false, false),
	}
	first := map[string]string{}
	observe := func(stage string) {
		for pi, p := range probes {
			for route := 0; route < 3; route++ {
				got := c04Route(route, p.s)
				key := fmt.Sprintf("%d/%d", pi, route)
				if prev, ok := first[key]; !ok {
					first[key] = got
				} else if prev != got {
					c.Oracle("", "the same DATE value is read differently after other values were parsed in the same process",
						map[string]string{"value": p.s, "stage": stage, "route": strconv.Itoa(route)}, got, prev)
				}
				if route0 := c04Observe(p.s).line; route != 0 && got != route0 {
					c.Oracle("", "a DATE node and NewDateRangeWithString read the same value differently",
						map[string]string{"value": p.s, "stage": stage, "route": strconv.Itoa(route)}, got, route0)
				}
			}
			if p.valid {
				c04CheckMeaning(c, p.s, p.start, p.end, p.isRange, "audit/many-values/"+stage)
			} else {
				c04CheckInvalid(c, p.s, "audit-many-values")
			}
			c.Count("audit/many-values/probe")
		}
	}
	observe("first")
	done := 0
	for _, total := range []int{1025, 4097, 65537} {
		for ; done < total; done++ {
			s, want := c04Filler(done)
			var start, end gedcom.Date
			switch done % 3 {
			case 0:
				dr := gedcom.NewDateRangeWithString(s)
				start, end = dr.StartDate(), dr.EndDate()
			case 1:
				start, end = gedcom.NewDateNode(s).StartAndEndDates()
			default:
				// the same string a second time, then a spaced spelling of it
				gedcom.NewDateRangeWithString(s)
				dr := gedcom.NewDateRangeWithString("  " + s + " ")
				start, end = dr.StartDate(), dr.EndDate()
			}
			if c04MeaningOf(start) != want || c04MeaningOf(end) != want || start.ParseError != nil {
				c.Oracle("", "a sentence of the documented grammar does not parse to what was written (value number "+strconv.Itoa(done)+" of the process)",
					map[string]string{"sentence": s}, c04MeaningOf(start).String()+" "+c04MeaningOf(end).String(), want.String())
			}
			if done%997 == 0 {
				c04Tie(c, s)
			}
		}
		c.Count(fmt.Sprintf("audit/many-values/distinct>=%d", total))
		observe(fmt.Sprintf("after-%d", total))
	}
}

func c04AuditSizes(c *Ctx) {
	ex := gedcom.DateConstraintExact
	// year digits 1..5, leading zeros up to five digits in all
	for _, y := range []int{1, 9, 10, 99, 100, 999, 1000, 9999} {
		ys := strconv.Itoa(y)
		for w := len(ys); w <= 5; w++ {
			p := strings.Repeat("0", w-len(ys)) + ys
			for _, fr := range []struct {
				s string
				m c04Meaning
			}{{p, c04Meaning{0, 0, y, ex}}, {"Mar " + p, c04Meaning{0, 3, y, ex}}, {"28 feb " + p, c04Meaning{28, 2, y, ex}},
				{"bef. " + p, c04Meaning{0, 0, y, gedcom.DateConstraintBefore}}} {
				if w <= 4 {
					c04CheckMeaning(c, fr.s, fr.m, fr.m, false, fmt.Sprintf("audit/year-digits/%d", w))
				} else {
					c04Tie(c, fr.s) // five digits: outside the documented 1-4, as coded
				}
				c.Count("audit/year-digits")
			}
		}
	}
	for _, y := range []string{"10000", "99999", "00000", "0", "00", "000", "0000", "100000"} {
		for _, pre := range []string{"", "Mar ", "5 Mar ", "abt "} {
			c04Tie(c, pre+y)
			c.Count("audit/year-digits")
		}
	}
	// day fields
	for _, d := range []string{"0", "00", "000", "32", "99", "032", "099", "100", "310", "0000000000000000000000031"} {
		for _, fr := range []string{"%s Mar 1900", "abt %s March 1900", "%s Feb 2000", "bet %s Mar 1900 and 1901", "bet 1899 and %s Mar 1900"} {
			s := fmt.Sprintf(fr, d)
			if strings.HasSuffix(d, "31") && !strings.Contains(fr, "Feb") {
				c04Tie(c, s)
			} else {
				c04CheckInvalid(c, s, "audit-day-field")
			}
			c.Count("audit/day-field")
		}
	}
	for _, d := range []struct {
		s string
		v int
	}{{"1", 1}, {"01", 1}, {"9", 9}, {"09", 9}, {"10", 10}, {"28", 28}, {"29", 29}, {"30", 30}, {"31", 31}} {
		m := c04Meaning{d.v, 1, 1900, ex}
		c04CheckMeaning(c, d.s+" Jan 1900", m, m, false, "audit/day-field/"+d.s)
		c04Tie(c, "00"+d.s+" Jan 1900")
	}
	// month spellings at every prefix length, and one letter past the full name
	documented := map[string]int{}
	for _, mw := range c04DocMonths {
		documented[mw.word] = mw.m
	}
	for m := 1; m <= 12; m++ {
		name := strings.ToLower(c04FullMonth[m])
		for n := 1; n <= len(name)+1; n++ {
			w := name + "x"
			if n <= len(name) {
				w = name[:n]
			}
			for ci, cs := range []int{c04Lower, c04Upper, c04Title} {
				ww := c04Case(c.R, cs, w)
				for fi, fr := range []string{"%s 1900", "5 %s 1900", "abt %s 1900", "from 1850 to %s 1900"} {
					s := fmt.Sprintf(fr, ww)
					if mm, ok := documented[w]; ok {
						var a, b c04Meaning
						switch fi {
						case 0:
							a = c04Meaning{0, mm, 1900, ex}
							b = a
						case 1:
							a = c04Meaning{5, mm, 1900, ex}
							b = a
						case 2:
							a = c04Meaning{0, mm, 1900, gedcom.DateConstraintAbout}
							b = a
						default:
							a, b = c04Meaning{0, 0, 1850, ex}, c04Meaning{0, mm, 1900, ex}
						}
						c04CheckMeaning(c, s, a, b, fi == 3, fmt.Sprintf("audit/month-prefix/%s/%d/%d", w, ci, fi))
					} else {
						c04CheckInvalid(c, s, "audit-month-prefix")
					}
					c.Count("audit/month-prefix")
				}
			}
		}
	}
	// runs of spaces (1..65 and the larger boundaries) at every gap; tabs at the ends and inside
	mb := c04Meaning{3, 9, 1850, gedcom.DateConstraintBefore}
	ra, rb := c04Meaning{0, 3, 1850, ex}, c04Meaning{0, 0, 1900, gedcom.DateConstraintAbout}
	runs := []int{}
	for n := 1; n <= 65; n++ {
		runs = append(runs, n)
	}
	runs = append(runs, 100, 127, 128, 129, 255, 256, 257, 1024, 4096)
	for _, n := range runs {
		sp := strings.Repeat(" ", n)
		c04CheckMeaning(c, "Bef."+sp+"3"+sp+"Sep"+sp+"1850", mb, mb, false, fmt.Sprintf("audit/space-run/single/%d", n))
		c04CheckMeaning(c, sp+"from"+sp+"Mar"+sp+"1850"+sp+"to"+sp+"abt"+sp+"1900"+sp, ra, rb, true, fmt.Sprintf("audit/space-run/range/%d", n))
		tb := strings.Repeat("\t", n)
		c04Tie(c, tb+"3 Sep 1850"+tb)
		c04Tie(c, "3"+tb+"Sep 1850")
		c04Tie(c, "3 "+tb+" Sep 1850")
		c04Tie(c, sp+tb+"(x)"+tb+sp)
		c.Count("audit/space-run")
	}
	// phrases and junk of boundary lengths; Equals of a phrase with itself and with a spaced copy
	for _, n := range c04AuditLens {
		body := strings.Repeat("x", n)
		for _, s := range []string{"(" + body + ")", "(" + body, body + ")", body, "(" + strings.Repeat("é", n) + ")",
			"(" + strings.Repeat("1", n) + ")", strings.Repeat("9", n), strings.Repeat("0", n) + "1900", "abt " + body + " 1900", "bet " + body + " and 1900"} {
			c04Tie(c, s)
			x, y := gedcom.NewDateRangeWithString(s), gedcom.NewDateRangeWithString(s+" ")
			c.Tie("date-equals "+c04Hex(s)+" "+c04Hex(s), bit(x.Equals(x))+bit(x.Equals(x)))
			c.Tie("date-equals "+c04Hex(s)+" "+c04Hex(s+" "), bit(x.Equals(y))+bit(y.Equals(x)))
			c.Eval()
			c.Count("audit/phrase-length")
		}
	}
	// nesting of range words
	for _, k := range []int{1, 2, 3, 7, 8, 9, 16, 32, 64, 65, 128, 256} {
		cases := []string{
			strings.Repeat("bet ", k) + "1900" + strings.Repeat(" and 1901", k),
			"from 1" + strings.Repeat(" to 2", k),
			"bet 1900 and " + strings.Repeat("bet ", k) + "1901 and 1902",
			"bet 1900" + strings.Repeat(" and", k) + " 1901",
			"bet 1900 " + strings.Repeat("- ", k) + "1901",
			strings.Repeat("abt ", k) + "1900",
			"bet " + strings.Repeat("abt ", k) + "1900 and 1901",
		}
		for i, s := range cases {
			documented := k == 1 && (i == 0 || i == 1 || i == 3 || i == 4 || i == 5 || i == 6)
			if documented {
				c04Tie(c, s)
			} else {
				c04CheckInvalid(c, s, "audit-range-nesting")
			}
			c.Count("audit/range-nesting")
		}
	}
	// bytes: invalid UTF-8 lead bytes before special characters, all-non-ASCII values, single
	// delimiters, all-zero numeric fields
	for _, s := range []string{"\xc2(foo)", "\xe2(foo)", "(foo\xc2)", "\xc2 1900", "\xe2\x80 1900", "\xf0\x9f 5 Mar 1900", "bet\xc3 1900 and 1901",
		"bet 1900 \xc2and 1901", "5\xc2 Mar 1900", "5 Mar\xe2 1900", "5 Mar 1900\xc2", "\xc2\xa0", "\xe2\x80\x83\xe2\x80\x83", "１９００", "５ Mar 1900",
		"мар 1900", "5 мар 1900", "三月 1900", "ééé", "@", "/", ",", "-", ".", "(", ")", "()", "@@", "//", "0 0 0", "00 00 0000", "0 Mar 0", "00 Mar 0000",
		"bet 0 and 0", "from 0000 to 0000", "- 0", "0-0"} {
		c04Tie(c, s)
		if gedcom.NewDateRangeWithString(s).IsValid() {
			c.Oracle("", "an undocumented form (bytes corpus) is accepted as a date", map[string]string{"sentence": s}, "valid", "IsValid() = false")
		}
		c.Count("audit/bytes")
	}
}

var c04FullMonth = []string{"", "January", "February", "March", "April", "May", "June", "July", "August", "September",
	"October", "November", "December"}

// c04AuditHistories: observe -> other calls / changes -> observe again, on the same objects.
func c04AuditHistories(c *Ctx) {
	values := []string{"5 Mar 1900", "abt 1850", "Mar 0089", "bet Sep 1850 and bef 1 Jan 1851", "from 1900 to 1900", "bet Aft. 1850 and 1900",
		"Bef. 29 Feb 2000", "(foo)", "Foo 1850", "", "aft 9999", "1", "bet 31 Dec 1999 and 1 Jan 2000"}
	others := []gedcom.DateRange{}
	for _, v := range values {
		others = append(others, gedcom.NewDateRangeWithString(v))
	}
	for vi, v := range values {
		in := map[string]string{"value": v}
		// the same DateRange value: String before and after every other method
		dr := gedcom.NewDateRangeWithString(v)
		s1 := dr.String()
		start, end := dr.StartDate(), dr.EndDate()
		d1, e1 := start.String(), end.String()
		for _, o := range others {
			dr.Years()
			dr.Compare(o)
			dr.Equals(o)
			o.Equals(dr)
			dr.Similarity(o, 3)
			dr.Duration()
			dr.Sub(o)
			dr.IsExact()
			dr.IsValid()
			dr.IsPhrase()
			start.Years()
			start.Time()
			end.Time()
			start.Equals(o.StartDate())
			start.IsBefore(end)
			start.Sub(end)
			end.Years()
		}
		if s2 := dr.String(); s2 != s1 {
			c.Oracle("", "DateRange.String changes after other methods were called on the same value", in, s2, s1)
		}
		if start.String() != d1 || end.String() != e1 {
			c.Oracle("", "Date.String changes after Years/Time/Equals were called on the same value", in, start.String()+" / "+end.String(), d1+" / "+e1)
		}
		if a, b := dr.StartDate(), dr.EndDate(); c04ShowDate(a) != c04ShowDate(start) || c04ShowDate(b) != c04ShowDate(end) {
			c.Oracle("", "the dates of a DateRange change after other methods were called", in, c04ShowDate(a)+" | "+c04ShowDate(b), c04ShowDate(start)+" | "+c04ShowDate(end))
		}
		// print -> parse -> print is a fixpoint for valid values
		if dr.IsValid() && start.Year > 0 && end.Year > 0 {
			p2 := gedcom.NewDateRangeWithString(s1).String()
			p3 := gedcom.NewDateRangeWithString(p2).String()
			if p2 != s1 || p3 != s1 {
				c.Oracle("", "print, parse, print is not a fixpoint", in, p2+" / "+p3, s1)
			}
			c04Tie(c, s1)
		}
		// the same DATE node: String / DateRange / IsValid in every order, before and after
		// Years, Equals, Similarity, Sub, IsBefore with other nodes
		n := gedcom.NewDateNode(v)
		fresh := func() string { return c04Route(1, v) }
		want := fresh()
		obs := func() string {
			r := n.DateRange()
			return fmt.Sprintf("%s | %s | %s%s | %s | %s", c04ShowDate(r.StartDate()), c04ShowDate(r.EndDate()),
				bit(n.IsValid()), bit(n.IsPhrase()), c04Hex(r.String()), c04Hex(n.String()))
		}
		if vi%2 == 0 {
			_ = n.String() // String before the first DateRange call
		}
		for round := 0; round < 3; round++ {
			if got := obs(); got != want {
				c.Oracle("", "a DATE node reads differently on a later call", map[string]string{"value": v, "round": strconv.Itoa(round)}, got, want)
			}
			for _, ov := range values {
				o := gedcom.NewDateNode(ov)
				n.Years()
				n.Equals(o)
				o.Equals(n)
				n.Similarity(o, 3)
				n.Sub(o)
				n.IsBefore(o)
				n.IsAfter(o)
				n.IsExact()
				n.Warnings()
			}
		}
		c.Tie("date-parse "+c04Hex(v), want)
		c.Eval()
		c.Count("audit/history/same-object")
	}

	// DATE nodes replaced inside a document (the value of a node cannot be edited; a DATE two levels
	// below the individual is replaced through the API), one node under two parents, a second document
	docText := "0 HEAD\n0 @I1@ INDI\n1 NAME A /B/\n1 BIRT\n2 DATE 5 Mar 1900\n1 DEAT\n2 DATE abt 1950\n0 @I2@ INDI\n1 BIRT\n2 DATE Foo 1850\n0 TRLR\n"
	for _, repl := range [][2]string{{"5 Mar 1900", "6 Mar 1900"}, {"5 Mar 1900", "  bef   1901 "}, {"5 Mar 1900", "(unknown)"}, {"5 Mar 1900", "Foo 1850"},
		{"5 Mar 1900", "bet 1900 and 1901"}, {"5 Mar 1900", "5 Mar 1900"}, {"5 Mar 1900", ""}} {
		doc, err := gedcom.NewDocumentFromString(docText)
		if err != nil || len(doc.Individuals()) != 2 {
			c.Notes = append(c.Notes, "audit: document route unavailable")
			break
		}
		ind := doc.Individuals()[0]
		in := map[string]string{"before": repl[0], "after": repl[1]}
		birth := func(i *gedcom.IndividualNode) gedcom.Node {
			bs := i.Births()
			if len(bs) == 0 {
				return nil
			}
			return bs[0]
		}
		read := func() string {
			b := birth(ind)
			if b == nil {
				return "no-birth"
			}
			ds := gedcom.Dates(b)
			if len(ds) != 1 {
				return fmt.Sprintf("dates=%d", len(ds))
			}
			r := ds[0].DateRange()
			return fmt.Sprintf("%s | %s | %s%s | %s | %s", c04ShowDate(r.StartDate()), c04ShowDate(r.EndDate()),
				bit(ds[0].IsValid()), bit(ds[0].IsPhrase()), c04Hex(r.String()), c04Hex(ds[0].String()))
		}
		if got, want := read(), c04Route(1, repl[0]); got != want {
			c.Oracle("", "a decoded DATE node reads differently from a fresh node with the same value", in, got, want)
		}
		// whatever the individual remembers about its dates
		ind.Birth()
		ind.EstimatedBirthDate()
		ind.Births()
		b := birth(ind)
		old := gedcom.Dates(b)[0]
		if vi := len(repl[1]) % 2; vi == 0 {
			b.DeleteNode(old)
			b.AddNode(gedcom.NewDateNode(repl[1]))
		} else {
			b.SetNodes(gedcom.Nodes{gedcom.NewDateNode(repl[1])})
		}
		if got, want := read(), c04Route(1, repl[1]); got != want {
			c.Oracle("", "after a DATE node was replaced in place the date read is not the date of the new value", in, got, want)
		}
		if d, _ := ind.Birth(); d == nil || d.String() != gedcom.NewDateNode(repl[1]).String() {
			got := "nil"
			if d != nil {
				got = d.String()
			}
			c.Oracle("", "IndividualNode.Birth does not give the DATE that replaced the old one", in, got, gedcom.NewDateNode(repl[1]).String())
		}
		// the removed node still reads its own value
		if got, want := c04ShowDate(old.StartDate()), c04ShowDate(gedcom.NewDateNode(repl[0]).StartDate()); got != want {
			c.Oracle("", "a DATE node that was removed from the document reads differently", in, got, want)
		}
		// one node object under two parents
		shared := gedcom.NewDateNode(repl[1])
		ind2 := doc.Individuals()[1]
		b2 := birth(ind2)
		b2.SetNodes(gedcom.Nodes{shared})
		b.SetNodes(gedcom.Nodes{shared})
		g1 := gedcom.Dates(b)[0].String()
		g2 := gedcom.Dates(b2)[0].String()
		if want := gedcom.NewDateNode(repl[1]).String(); g1 != want || g2 != want {
			c.Oracle("", "one DATE node under two parents reads differently from a fresh node", in, g1+" / "+g2, want)
		}
		// a second document in the same process, and the text of the edited one decoded again
		doc2, err := gedcom.NewDocumentFromString(doc.String())
		if err == nil && len(doc2.Individuals()) == 2 {
			bb := birth(doc2.Individuals()[0])
			if ds := gedcom.Dates(bb); bb != nil && len(ds) == 1 {
				// the decoder may normalise spaces of the line; compare the parsed dates
				want := gedcom.NewDateRangeWithString(ds[0].Value())
				if c04ShowDate(ds[0].StartDate()) != c04ShowDate(want.StartDate()) || c04ShowDate(ds[0].EndDate()) != c04ShowDate(want.EndDate()) {
					c.Oracle("", "a re-decoded DATE node reads differently from its own value parsed afresh", in,
						c04ShowDate(ds[0].StartDate()), c04ShowDate(want.StartDate()))
				}
			}
		}
		c04Tie(c, repl[1])
		c.Count("audit/history/replace-in-document")
	}
}

func c04Audit(c *Ctx) {
	c04AuditSizes(c)
	c04AuditHistories(c)
	c04AuditManyValues(c)
}
