package main

import (
	"fmt"
	"go/ast"
	"go/parser"
	"go/token"
	"math/big"
	"path/filepath"
	"strings"
)

// Translator for the arithmetic of the similarity scores (C12): the go/ast statements of
//   surrounding_similarity.go  SurroundingSimilarity.WeightedSimilarity  (the weighted sum)
//   individual_node.go         (*IndividualNode).Similarity             (nil guard, name/date mix)
//   date_range.go              DateRange.Similarity                     (parabola and its cut-off)
//   date_node.go               (*DateNode).Similarity                   (nil guard)
//   jaro.go                    JaroWinkler                              (threshold test, boost formula)
// are printed as terms of Gedcom.SimSrc.Fn (lean/Gedcom/Model/SimilaritySrc.lean): the sequence of
// statement kinds (`shape`), the value of the nil guard, the `if <a> <cmp> <b> { return <v> }` guards in
// source order and the returned expression, with the local `x := <arithmetic>` definitions inlined.
// Nothing is guessed: an expression outside the fragment (+ - * /, math.Pow(_, 2), literals, the listed
// operands) becomes `.bad`, a statement outside it the shape entry "bad"; both are rejected by
// obligations in Props/C12Src.lean.

type ssrcFn struct {
	vars   map[string]string // Go operand (identifier or selector chain) -> Lean Var
	locals map[string]string // inlined local definitions
	shape  []string
	nilVal string
	guards []string
	final  string
}

func ssrcSel(e ast.Expr) string {
	switch e := e.(type) {
	case *ast.Ident:
		return e.Name
	case *ast.SelectorExpr:
		if x := ssrcSel(e.X); x != "" {
			return x + "." + e.Sel.Name
		}
	}
	return ""
}

func ssrcLit(v string) string {
	r, ok := new(big.Rat).SetString(v)
	if !ok || r.Sign() < 0 || !r.Num().IsInt64() || !r.Denom().IsInt64() {
		return ".bad"
	}
	return fmt.Sprintf("(.lit %s %s)", r.Num(), r.Denom())
}

func (f *ssrcFn) exp(e ast.Expr) string {
	switch e := e.(type) {
	case *ast.ParenExpr:
		return f.exp(e.X)
	case *ast.BasicLit:
		if e.Kind == token.INT || e.Kind == token.FLOAT {
			return ssrcLit(e.Value)
		}
	case *ast.Ident, *ast.SelectorExpr:
		name := ssrcSel(e)
		if t, ok := f.locals[name]; ok {
			return t
		}
		if v, ok := f.vars[name]; ok {
			return "(.var ." + v + ")"
		}
	case *ast.BinaryExpr:
		op := map[token.Token]string{token.ADD: ".add", token.SUB: ".sub", token.MUL: ".mul", token.QUO: ".div"}[e.Op]
		if op != "" {
			return "(" + op + " " + f.exp(e.X) + " " + f.exp(e.Y) + ")"
		}
	case *ast.CallExpr:
		// the delegation `<x>.Similarity(…)` of a wrapper, where the table names it as an operand
		if sel, ok := e.Fun.(*ast.SelectorExpr); ok {
			if v, ok := f.vars["@"+sel.Sel.Name]; ok {
				return "(.var ." + v + ")"
			}
		}
		// math.Pow(x, 2)
		if ssrcSel(e.Fun) == "math.Pow" && len(e.Args) == 2 {
			if l, ok := e.Args[1].(*ast.BasicLit); ok && l.Kind == token.INT && l.Value == "2" {
				return "(.pow2 " + f.exp(e.Args[0]) + ")"
			}
		}
	}
	return ".bad"
}

func ssrcHasCall(e ast.Expr) bool {
	found := false
	ast.Inspect(e, func(n ast.Node) bool {
		if c, ok := n.(*ast.CallExpr); ok && ssrcSel(c.Fun) != "math.Pow" {
			found = true
		}
		return true
	})
	return found
}

// `if <c> { return <v> }` with nothing else
func ssrcIfReturn(st *ast.IfStmt) (ast.Expr, ast.Expr, bool) {
	if st.Init != nil || st.Else != nil || len(st.Body.List) != 1 {
		return nil, nil, false
	}
	ret, ok := st.Body.List[0].(*ast.ReturnStmt)
	if !ok || len(ret.Results) != 1 {
		return nil, nil, false
	}
	return st.Cond, ret.Results[0], true
}

// `<a> == nil || <b> == nil`
func ssrcEitherNil(c ast.Expr) bool {
	b, ok := c.(*ast.BinaryExpr)
	if !ok || b.Op != token.LOR {
		return false
	}
	isNil := func(e ast.Expr) bool {
		x, ok := e.(*ast.BinaryExpr)
		if !ok || x.Op != token.EQL {
			return false
		}
		id, ok := x.Y.(*ast.Ident)
		_, isId := x.X.(*ast.Ident)
		return ok && id.Name == "nil" && isId
	}
	return isNil(b.X) && isNil(b.Y)
}

func (f *ssrcFn) stmt(st ast.Stmt) {
	switch st := st.(type) {
	case *ast.AssignStmt:
		var names []string
		for _, l := range st.Lhs {
			id, ok := l.(*ast.Ident)
			if !ok {
				f.shape = append(f.shape, "bad")
				return
			}
			names = append(names, id.Name)
		}
		if len(st.Rhs) != 1 || (st.Tok != token.DEFINE && st.Tok != token.ASSIGN) {
			f.shape = append(f.shape, "bad")
			return
		}
		if ssrcHasCall(st.Rhs[0]) {
			// the operands of the formula come out of calls: inputs, whatever was bound before
			for _, n := range names {
				delete(f.locals, n)
			}
			f.shape = append(f.shape, "input:"+strings.Join(names, ","))
			return
		}
		if st.Tok == token.DEFINE && len(names) == 1 {
			f.locals[names[0]] = f.exp(st.Rhs[0])
			f.shape = append(f.shape, "let:"+names[0])
			return
		}
		f.shape = append(f.shape, "bad")
	case *ast.DeclStmt:
		gd, ok := st.Decl.(*ast.GenDecl)
		if ok && gd.Tok == token.VAR && len(gd.Specs) == 1 {
			if vs, ok := gd.Specs[0].(*ast.ValueSpec); ok && len(vs.Names) == 1 && len(vs.Values) == 0 {
				f.shape = append(f.shape, "decl:"+vs.Names[0].Name)
				return
			}
		}
		f.shape = append(f.shape, "bad")
	case *ast.ForStmt, *ast.RangeStmt:
		// a loop computes operands: every variable it assigns is an input from here on
		var assigned []string
		seen := map[string]bool{}
		ast.Inspect(st, func(n ast.Node) bool {
			add := func(e ast.Expr) {
				if id, ok := e.(*ast.Ident); ok && !seen[id.Name] {
					if _, isVar := f.vars[id.Name]; isVar {
						seen[id.Name] = true
						assigned = append(assigned, id.Name)
					}
				}
			}
			switch n := n.(type) {
			case *ast.AssignStmt:
				if n.Tok != token.DEFINE {
					for _, l := range n.Lhs {
						add(l)
					}
				}
			case *ast.IncDecStmt:
				add(n.X)
			}
			return true
		})
		for _, n := range assigned {
			delete(f.locals, n)
		}
		f.shape = append(f.shape, "loop:"+strings.Join(assigned, ","))
	case *ast.IfStmt:
		cond, val, ok := ssrcIfReturn(st)
		if !ok {
			f.shape = append(f.shape, "bad")
			return
		}
		if ssrcEitherNil(cond) && f.nilVal == "none" && len(f.shape) == 0 {
			f.nilVal = "(some " + f.exp(val) + ")"
			f.shape = append(f.shape, "nil-guard")
			return
		}
		if b, ok := cond.(*ast.BinaryExpr); ok {
			cmp := map[token.Token]string{token.LSS: ".lt", token.LEQ: ".le", token.GTR: ".gt", token.GEQ: ".ge"}[b.Op]
			if cmp != "" {
				f.guards = append(f.guards, fmt.Sprintf("⟨%s, %s, %s, %s⟩", cmp, f.exp(b.X), f.exp(b.Y), f.exp(val)))
				f.shape = append(f.shape, "guard")
				return
			}
		}
		f.guards = append(f.guards, "⟨.lt, .bad, .bad, .bad⟩")
		f.shape = append(f.shape, "guard")
	case *ast.ReturnStmt:
		if len(st.Results) == 1 && f.final == ".bad" {
			f.final = f.exp(st.Results[0])
			f.shape = append(f.shape, "ret")
			return
		}
		f.shape = append(f.shape, "bad")
	default:
		f.shape = append(f.shape, "bad")
	}
}

func ssrcTranslate(file, recv, name string, vars map[string]string) string {
	f := &ssrcFn{vars: vars, locals: map[string]string{}, nilVal: "none", final: ".bad"}
	fset := token.NewFileSet()
	af, err := parser.ParseFile(fset, filepath.Join(repoRoot(), file), nil, 0)
	found := false
	if err == nil {
		for _, d := range af.Decls {
			fd, ok := d.(*ast.FuncDecl)
			if !ok || fd.Name.Name != name || fd.Body == nil {
				continue
			}
			r := ""
			if fd.Recv != nil && len(fd.Recv.List) == 1 {
				switch t := fd.Recv.List[0].Type.(type) {
				case *ast.Ident:
					r = t.Name
				case *ast.StarExpr:
					if id, ok := t.X.(*ast.Ident); ok {
						r = "*" + id.Name
					}
				}
			}
			if r != recv {
				continue
			}
			found = true
			for _, st := range fd.Body.List {
				f.stmt(st)
			}
		}
	}
	if !found {
		f.shape = []string{"not-found"}
	}
	var sh []string
	for _, s := range f.shape {
		sh = append(sh, fmt.Sprintf("%q", s))
	}
	return fmt.Sprintf("{ shape := [%s],\n    nilValue := %s,\n    guards := [%s],\n    final := %s }", strings.Join(sh, ", "), f.nilVal,
		strings.Join(f.guards, ", "), f.final)
}

func init() {
	extractors["SimilaritySrc"] = func() string {
		var b strings.Builder
		b.WriteString("-- Source: surrounding_similarity.go (WeightedSimilarity), individual_node.go (Similarity), date_range.go\n")
		b.WriteString("-- (Similarity), date_node.go (Similarity), jaro.go (JaroWinkler): the arithmetic of the scores translated\n")
		b.WriteString("-- from go/ast (see harness/extract_similaritysrc.go).\n")
		b.WriteString("import Gedcom.Model.SimilaritySrc\nnamespace Gedcom.Generated\nopen Gedcom.SimSrc\n\n")
		fn := func(lean, doc, file, recv, name string, vars map[string]string) {
			fmt.Fprintf(&b, "/-- %s -/\ndef %s : Fn :=\n  %s\n\n", doc, lean, ssrcTranslate(file, recv, name, vars))
		}
		fn("srcWeighted", "`SurroundingSimilarity.WeightedSimilarity`", "surrounding_similarity.go", "SurroundingSimilarity", "WeightedSimilarity",
			map[string]string{"s.IndividualSimilarity": "ind", "s.ParentsSimilarity": "par", "s.SpousesSimilarity": "spo", "s.ChildrenSimilarity": "chi",
				"s.Options.IndividualWeight": "wInd", "s.Options.ParentsWeight": "wPar", "s.Options.SpousesWeight": "wSpo", "s.Options.ChildrenWeight": "wChi"})
		fn("srcIndividual", "`(*IndividualNode).Similarity`: the nil guard and the name/date mix (the loop over the names and the\n    calls that produce the date scores are inputs)",
			"individual_node.go", "*IndividualNode", "Similarity",
			map[string]string{"nameSimilarity": "name", "birthSimilarity": "birth", "deathSimilarity": "death", "options.NameToDateRatio": "ratio"})
		fn("srcDateRange", "`DateRange.Similarity`: the parabola on the distance in years and its cut-off", "date_range.go", "DateRange", "Similarity",
			map[string]string{"leftYears": "left", "rightYears": "right", "maxYears": "maxYears"})
		fn("srcDateNode", "`(*DateNode).Similarity`: the nil guard in front of `DateRange.Similarity`", "date_node.go", "*DateNode", "Similarity",
			map[string]string{"@Similarity": "inner"})
		fn("srcJaroWinkler", "`JaroWinkler`: the threshold test and the boost formula (jaro, the prefix length and the loop that\n    counts the agreeing prefix positions are inputs)",
			"jaro.go", "", "JaroWinkler", map[string]string{"j": "j", "boostThreshold": "boost", "prefixMatch": "pm"})
		b.WriteString("end Gedcom.Generated\n")
		return b.String()
	}
}
