package main

// C10 — Merging documents accounts for every person and keeps links valid.
//
// Generator: pairs of referentially closed family-graph documents drawn from one abstract "world"
// of people and families: a base document and an independently edited copy (same pointers /
// renumbered pointers / pointers reused for other people, dropped and added people, changed
// facts, shuffled records), two disjoint worlds with disjoint or clashing pointers, empty
// documents. Every individual carries a unique marker line (`1 _MARK L17`), which similarity
// ignores, so the matching the implementation made can be read off its output.
//
// (S) oracle on the implementation (library call with default / strict / lenient thresholds and
//     the query function MergeDocumentsAndIndividuals):
//     accounting (every marker in exactly one output individual, at most one per side),
//     facts of both (every fact path of either original is in the merged individual),
//     the output text decodes again and re-encodes to itself,
//     every HUSB/WIFE/CHIL/FAMS/FAMC value of the re-decoded output names exactly one record, of
//     the right kind, which carries the marker of the person the line meant in its source document.
// (T) correspondence: the pointer-resolution table of the output == Gedcom.MergeG.mergeG (Lean) on
//     the abstract graphs and the observed matching.

import (
	"fmt"
	"sort"
	"strconv"
	"strings"

	"github.com/elliotchance/gedcom/v39"
	"github.com/elliotchance/gedcom/v39/q"
)

type c10Person struct {
	Key                  int
	Given, Surn, Sex     string
	BY, BM, BD           int
	DY                   int
	Place, Occu          string
	UID                  string // value of a _UID line ("" = none)
	IDs                  []string // further unique-identifier lines, "TAG value" (_UID, _FSFTID, _FID)
	// Blank: a placeholder record ("unknown father"): no NAME and no vital date.
	// 1 = SEX and a NOTE, 2 = nothing but the marker, 3 = a NOTE and a source citation only.
	Blank int
}

type c10Family struct {
	Husb, Wife int // world person index, -1 = none
	Chil       []int
	MarrYear   int
}

type c10World struct {
	P []c10Person
	F []c10Family
}

var (
	c10Given = []string{"John", "Mary", "William", "Anna", "George", "Elisabeth", "Henry", "Sarah", "Thomas", "Jane",
		"Charles", "Emma", "Robert", "Alice", "Edward", "Martha", "Joseph", "Ellen", "Samuel", "Lucy", "Peter", "Ruth",
		"Oscar", "Ida", "Walter", "Clara", "Hugo", "Nora", "Felix", "Vera"}
	c10Surn  = []string{"Smith", "Chance", "Miller", "Baker", "Taylor", "Walker", "Wright", "Hughes", "Green", "Hall", "Wood", "Clarke", "Jackson", "Turner", "Hill"}
	c10Place = []string{"Oldtown", "Newport", "Riverside", "Hillcrest", "Lakeview", "Marston", "Eastham", "Westbury"}
	c10Occu  = []string{"farmer", "smith", "teacher", "weaver", "clerk", "miner"}
	c10Mon   = []string{"Jan", "Feb", "Mar", "Apr", "May", "Jun", "Jul", "Aug", "Sep", "Oct", "Nov", "Dec"}
)

func c10NewPerson(r *Rand, key int) c10Person {
	p := c10Person{Key: key, Given: r.Pick(c10Given), Surn: r.Pick(c10Surn), Sex: r.Pick([]string{"M", "F"}),
		BY: 1780 + r.Intn(150), BM: 1 + r.Intn(12), BD: 1 + r.Intn(28), Place: r.Pick(c10Place)}
	if r.Chance(1, 2) {
		p.DY = p.BY + 20 + r.Intn(60)
	}
	if r.Chance(1, 3) {
		p.Occu = r.Pick(c10Occu)
	}
	return p
}

func c10NewWorld(r *Rand, maxPeople int, firstKey int) *c10World {
	w := &c10World{}
	n := r.Intn(maxPeople + 1)
	for i := 0; i < n; i++ {
		w.P = append(w.P, c10NewPerson(r, firstKey+i))
	}
	if n == 0 {
		return w
	}
	nf := r.Intn(n/2 + 2)
	isChild := map[int]bool{}
	for k := 0; k < nf; k++ {
		f := c10Family{Husb: -1, Wife: -1, MarrYear: 1800 + r.Intn(130)}
		if r.Chance(4, 5) {
			f.Husb = r.Intn(n)
		}
		if r.Chance(4, 5) {
			f.Wife = r.Intn(n)
			if f.Wife == f.Husb {
				f.Wife = -1
			}
		}
		nc := r.Intn(5)
		for try := 0; len(f.Chil) < nc && try < 3*n; try++ {
			c := r.Intn(n)
			if c == f.Husb || c == f.Wife || isChild[c] {
				continue
			}
			isChild[c] = true
			f.Chil = append(f.Chil, c)
		}
		if f.Husb < 0 && f.Wife < 0 && len(f.Chil) == 0 {
			continue
		}
		// an unknown parent is kept as a placeholder record now and then
		if f.Husb >= 0 && r.Chance(1, 9) {
			w.P[f.Husb].Blank = 1 + r.Intn(3)
		}
		if f.Wife >= 0 && r.Chance(1, 9) {
			w.P[f.Wife].Blank = 1 + r.Intn(3)
		}
		if len(f.Chil) > 0 && r.Chance(1, 14) {
			w.P[f.Chil[r.Intn(len(f.Chil))]].Blank = 1 + r.Intn(3)
		}
		// a family shares its surname: makes relatives similar, as in real files
		if f.Husb >= 0 {
			for _, c := range f.Chil {
				w.P[c].Surn = w.P[f.Husb].Surn
			}
		}
		w.F = append(w.F, f)
	}
	return w
}

// c10View is one document over a world: who is in it, under which pointers, with which edits.
type c10View struct {
	Side    string // "L" or "R": prefix of the marker
	People  []int  // world person indexes, in record order
	IPtr    map[int]string
	FPtr    map[int]string // world family index -> pointer (only families that keep a member)
	Edit    map[int]c10Person
	Shuffle []int // record order (indexes into the concatenation people ++ families)
	Detail  map[int]uint32 // per person: which sub-nodes of NAME / BIRT / DEAT / SOUR this document shows
}

// c10Fact is one fact subtree of an individual.
type c10Fact struct {
	Tag, Value string
	Kids       []*c10Fact
}

func c10F(tag, value string, kids ...*c10Fact) *c10Fact { return &c10Fact{tag, value, kids} }

// lines / paths of a fact subtree: every node contributes its full tag path and value
func (f *c10Fact) emit(level int, prefix string, lines *[]string, paths *[]string) {
	l := fmt.Sprintf("%d %s", level, f.Tag)
	if f.Value != "" {
		l += " " + f.Value
	}
	*lines = append(*lines, l)
	path := prefix + f.Tag
	*paths = append(*paths, path+" "+f.Value)
	for _, k := range f.Kids {
		k.emit(level+1, path+"/", lines, paths)
	}
}

// c10PersonFacts: the facts of a person as this document shows them. Bits of `detail` (three per
// detailed fact: 0 = everything, 1 = bare leaf, 2..7 = a strict subset picked by the bits) decide
// how much of NAME (GIVN, SURN, NICK), BIRT (DATE, PLAC, NOTE, SOUR > PAGE > NOTE) and DEAT
// (DATE, PLAC, CAUS) is written, so matched pairs meet as leaf against detailed node, subset
// against superset and detail against detail, in both directions.
func c10PersonFacts(p c10Person, marker string, detail uint32) []*c10Fact {
	pick := func(shift uint, kids []*c10Fact) []*c10Fact {
		m := (detail >> shift) & 7
		switch {
		case m == 0 || m == 4 || m == 5: // everything (the common case)
			return kids
		case m == 1:
			return nil
		}
		var out []*c10Fact
		for i, k := range kids {
			if (detail>>(shift+3+uint(i)))&1 == 1 {
				out = append(out, k)
			}
		}
		if len(out) == len(kids) && len(kids) > 0 {
			out = out[1:]
		}
		return out
	}
	var fs []*c10Fact
	if p.Blank != 0 {
		// the marker is a custom tag: it gives the record neither a name nor a date
		switch p.Blank {
		case 1:
			var sk []*c10Fact
			if detail&1 == 1 {
				sk = []*c10Fact{c10F("NOTE", "assumed", c10F("SOUR", "Family tradition"))}
			}
			fs = append(fs, c10F("SEX", p.Sex, sk...), c10F("NOTE", "unknown parent, placeholder "+strconv.Itoa(p.Key)))
		case 3:
			fs = append(fs, c10F("NOTE", "not identified "+strconv.Itoa(p.Key)), c10F("SOUR", "Family bible", c10F("PAGE", strconv.Itoa(p.Key%9+1))))
		}
		return append(fs, c10F("_MARK", marker))
	}
	name := fmt.Sprintf("%s /%s/", p.Given, p.Surn)
	fs = append(fs, c10F("NAME", name, pick(0, []*c10Fact{c10F("GIVN", p.Given), c10F("SURN", p.Surn), c10F("NICK", p.Given[:2])})...))
	// sub-records below lines of the specialised kinds (SEX, DATE, PLAC, MAP, _UID ...), two and
	// three levels down; which of them are present is decided by a second mask
	d2 := (detail ^ detail>>13) * 2654435761
	pick2 := func(shift uint, kids []*c10Fact) []*c10Fact {
		switch (d2 >> shift) & 3 {
		case 0:
			return nil
		case 1:
			return kids
		case 2:
			return kids[:1]
		}
		return kids[len(kids)-1:]
	}
	ks := strconv.Itoa(p.Key%9 + 1)
	fs = append(fs, c10F("SEX", p.Sex, pick2(0, []*c10Fact{
		c10F("SOUR", "Census 1881", c10F("PAGE", "12"), c10F("DATA", "", c10F("TEXT", "sex as enumerated "+ks))),
		c10F("NOTE", "sex from register "+ks)})...))
	bd := fmt.Sprintf("%d %s %d", p.BD, c10Mon[p.BM-1], p.BY)
	page := c10F("PAGE", strconv.Itoa(10+p.Key%80), c10F("NOTE", "entry "+strconv.Itoa(p.Key%7)))
	sour := c10F("SOUR", "Parish register of "+p.Place, pick(14, []*c10Fact{page, c10F("QUAY", "2")})...)
	fs = append(fs, c10F("BIRT", "", pick(7, []*c10Fact{
		c10F("DATE", bd, pick2(2, []*c10Fact{c10F("TIME", "0"+ks+":30"), c10F("NOTE", "date from register", c10F("SOUR", "Register "+ks))})...),
		c10F("PLAC", p.Place, pick2(4, []*c10Fact{
			c10F("FORM", "City, County"),
			c10F("MAP", "", c10F("LATI", "N5"+ks+".1"), c10F("LONG", "W1."+ks))})...),
		c10F("NOTE", "born in "+p.Place, pick2(6, []*c10Fact{c10F("SOUR", "Family letter", c10F("PAGE", ks))})...),
		sour})...))
	if p.DY != 0 {
		dv := ""
		if detail>>28&1 == 1 && strings.HasPrefix(marker, "L") {
			// `1 DEAT Y` on the left only: DEAT nodes are Equal whatever their value and the merge
			// keeps the left node, so a right-only `Y` would be dropped by design
			dv = "Y"
		}
		fs = append(fs, c10F("DEAT", dv, pick(21, []*c10Fact{c10F("DATE", strconv.Itoa(p.DY)), c10F("PLAC", p.Place), c10F("CAUS", "old age")})...))
	}
	if p.Occu != "" {
		fs = append(fs, c10F("OCCU", p.Occu, pick(25, []*c10Fact{c10F("DATE", strconv.Itoa(p.BY+25))})...))
	}
	if p.UID != "" {
		fs = append(fs, c10F("_UID", p.UID, pick2(8, []*c10Fact{c10F("NOTE", "assigned by program", c10F("DATE", "1 JAN 2001"))})...))
	}
	for _, id := range p.IDs { // further unique identifiers: "TAG value"
		tv := strings.SplitN(id, " ", 2)
		fs = append(fs, c10F(tv[0], tv[1]))
	}
	fs = append(fs, c10F("_MARK", marker))
	return fs
}

// abstract description of a rendered document (what the oracle and the model work with)
type c10AIndi struct {
	Ptr, Marker string
	Facts       []string // fact paths, e.g. "NAME John /Smith/", "BIRT/DATE 3 Sep 1843"
	Refs        [][2]string // (FAMS|FAMC, family pointer)
}
type c10AFam struct {
	Ptr  string
	Refs [][2]string // (HUSB|WIFE|CHIL, individual pointer)
}
type c10ADoc struct {
	Text  string
	Indis []c10AIndi
	Fams  []c10AFam
}

func (v *c10View) person(w *c10World, i int) c10Person {
	if e, ok := v.Edit[i]; ok {
		return e
	}
	return w.P[i]
}

func c10Render(w *c10World, v *c10View) *c10ADoc {
	d := &c10ADoc{}
	in := map[int]bool{}
	for _, i := range v.People {
		in[i] = true
	}
	type rec struct {
		lines []string
	}
	var recs []rec
	// families restricted to the people present
	type famView struct {
		ptr  string
		refs [][2]string
		marr int
	}
	var fams []famView
	fams_of := map[int][][2]string{}
	for k, f := range w.F {
		ptr, ok := v.FPtr[k]
		if !ok {
			continue
		}
		fv := famView{ptr: ptr, marr: f.MarrYear}
		if f.Husb >= 0 && in[f.Husb] {
			fv.refs = append(fv.refs, [2]string{"HUSB", v.IPtr[f.Husb]})
			fams_of[f.Husb] = append(fams_of[f.Husb], [2]string{"FAMS", ptr})
		}
		if f.Wife >= 0 && in[f.Wife] {
			fv.refs = append(fv.refs, [2]string{"WIFE", v.IPtr[f.Wife]})
			fams_of[f.Wife] = append(fams_of[f.Wife], [2]string{"FAMS", ptr})
		}
		for _, c := range f.Chil {
			if in[c] {
				fv.refs = append(fv.refs, [2]string{"CHIL", v.IPtr[c]})
				fams_of[c] = append(fams_of[c], [2]string{"FAMC", ptr})
			}
		}
		if len(fv.refs) == 0 {
			continue
		}
		fams = append(fams, fv)
	}
	for _, i := range v.People {
		p := v.person(w, i)
		a := c10AIndi{Ptr: v.IPtr[i], Marker: v.Side + strconv.Itoa(p.Key)}
		var ls []string
		ls = append(ls, fmt.Sprintf("0 @%s@ INDI", a.Ptr))
		for _, f := range c10PersonFacts(p, a.Marker, v.Detail[i]) {
			f.emit(1, "", &ls, &a.Facts)
		}
		for _, rf := range fams_of[i] {
			a.Refs = append(a.Refs, rf)
			ls = append(ls, fmt.Sprintf("1 %s @%s@", rf[0], rf[1]))
		}
		d.Indis = append(d.Indis, a)
		recs = append(recs, rec{ls})
	}
	for _, fv := range fams {
		ls := []string{fmt.Sprintf("0 @%s@ FAM", fv.ptr)}
		for _, rf := range fv.refs {
			ls = append(ls, fmt.Sprintf("1 %s @%s@", rf[0], rf[1]))
		}
		ls = append(ls, "1 MARR", "2 DATE "+strconv.Itoa(fv.marr))
		d.Fams = append(d.Fams, c10AFam{Ptr: fv.ptr, Refs: fv.refs})
		recs = append(recs, rec{ls})
	}
	var sb strings.Builder
	sb.WriteString("0 HEAD\n1 CHAR UTF-8\n")
	order := v.Shuffle
	if len(order) != len(recs) {
		order = nil
		for i := range recs {
			order = append(order, i)
		}
	}
	for _, i := range order {
		for _, l := range recs[i].lines {
			sb.WriteString(l)
			sb.WriteByte('\n')
		}
	}
	sb.WriteString("0 TRLR\n")
	d.Text = sb.String()
	return d
}

func c10AllFams(w *c10World, prefix string, perm []int) map[int]string {
	m := map[int]string{}
	for k := range w.F {
		n := k + 1
		if perm != nil {
			n = perm[k] + 1
		}
		m[k] = prefix + strconv.Itoa(n)
	}
	return m
}

// c10Pair draws one pair of documents of the given shape.
func c10Pair(r *Rand, shape string, maxPeople int) (l, rt *c10ADoc, note string) {
	seq := func(n int) []int {
		s := make([]int, n)
		for i := range s {
			s[i] = i
		}
		return s
	}
	fullView := func(w *c10World, side, ip, fp string, permI, permF []int) *c10View {
		v := &c10View{Side: side, IPtr: map[int]string{}, Edit: map[int]c10Person{}}
		v.People = seq(len(w.P))
		for i := range w.P {
			n := i + 1
			if permI != nil {
				n = permI[i] + 1
			}
			v.IPtr[i] = ip + strconv.Itoa(n)
		}
		v.FPtr = c10AllFams(w, fp, permF)
		return v
	}
	switch shape {
	case "witness":
		// DESIGN defect 10 / Gedcom.C10.dangling_counterexample: the same husband and child as
		// @I1@, @I2@ on the left and @P1@, @P2@ on the right, in family @F1@ on both sides
		w := &c10World{P: []c10Person{
			{Key: 1, Given: "John", Surn: "Smith", Sex: "M", BY: 1843, BM: 9, BD: 3, DY: 1901, Place: "Oldtown"},
			{Key: 2, Given: "Henry", Surn: "Smith", Sex: "M", BY: 1870, BM: 1, BD: 1, Place: "Oldtown"}},
			F: []c10Family{{Husb: 0, Wife: -1, Chil: []int{1}, MarrYear: 1868}}}
		return c10Render(w, fullView(w, "L", "I", "F", nil, nil)), c10Render(w, fullView(w, "R", "P", "F", nil, nil)), shape
	case "empty-both":
		w := &c10World{}
		return c10Render(w, fullView(w, "L", "I", "F", nil, nil)), c10Render(w, fullView(w, "R", "I", "F", nil, nil)), shape
	case "empty-left", "empty-right":
		w := c10NewWorld(r, maxPeople, 1)
		e := &c10World{}
		full := fullView(w, "L", "I", "F", nil, nil)
		if shape == "empty-left" {
			full.Side = "R"
			return c10Render(e, fullView(e, "L", "I", "F", nil, nil)), c10Render(w, full), shape
		}
		return c10Render(w, full), c10Render(e, fullView(e, "R", "I", "F", nil, nil)), shape
	case "disjoint", "clashing":
		w1 := c10NewWorld(r, maxPeople, 1)
		w2 := c10NewWorld(r, maxPeople, 1001)
		ip, fp := "P", "G"
		if shape == "clashing" {
			ip, fp = "I", "F"
		}
		return c10Render(w1, fullView(w1, "L", "I", "F", nil, nil)), c10Render(w2, fullView(w2, "R", ip, fp, nil, nil)), shape
	}
	// edited copy
	w := c10NewWorld(r, maxPeople, 1)
	n0 := len(w.P)
	lv := fullView(w, "L", "I", "F", nil, nil)
	lv.Detail = map[int]uint32{}
	for i := 0; i < n0; i++ {
		lv.Detail[i] = uint32(r.U64())
	}
	left := c10Render(w, lv)
	// the right side: drop, add, edit
	rv := &c10View{Side: "R", IPtr: map[int]string{}, Edit: map[int]c10Person{}, Detail: map[int]uint32{}}
	for i := 0; i < n0; i++ {
		if !r.Chance(3, 20) {
			rv.People = append(rv.People, i)
		}
	}
	nAdd := r.Intn(4)
	for k := 0; k < nAdd; k++ {
		w.P = append(w.P, c10NewPerson(r, 500+k))
		i := len(w.P) - 1
		if r.Chance(1, 4) { // a placeholder that only the copy has
			w.P[i].Blank = 1 + r.Intn(3)
		}
		rv.People = append(rv.People, i)
		// attach the new person to a family now and then
		if len(w.F) > 0 && r.Chance(1, 2) {
			f := &w.F[r.Intn(len(w.F))]
			switch {
			case f.Husb < 0 && r.Bool(): // the copy knows of a (possibly unknown) father / mother
				f.Husb = i
			case f.Wife < 0 && r.Bool():
				f.Wife = i
			default:
				f.Chil = append(f.Chil, i)
			}
		}
	}
	for _, i := range rv.People {
		rv.Detail[i] = uint32(r.U64())
		p := w.P[i]
		changed := false
		if r.Chance(1, 5) {
			p.Occu = r.Pick(c10Occu)
			changed = true
		}
		if r.Chance(1, 10) {
			p.Place = r.Pick(c10Place)
			changed = true
		}
		if r.Chance(1, 12) {
			p.DY = p.BY + 30 + r.Intn(50)
			changed = true
		}
		if r.Chance(1, 20) {
			p.Given = p.Given + "e"
			changed = true
		}
		if r.Chance(1, 25) {
			p.BD = 1 + p.BD%28
			changed = true
		}
		if p.Blank != 0 && r.Chance(1, 4) { // the copy has identified the unknown person
			p.Blank = 0
			changed = true
		}
		if changed {
			rv.Edit[i] = p
		}
	}
	np := len(w.P)
	switch shape {
	case "copy-samepointers":
		for i := 0; i < np; i++ {
			rv.IPtr[i] = "I" + strconv.Itoa(i+1)
		}
		rv.FPtr = c10AllFams(w, "F", nil)
	case "copy-renumbered":
		perm := r.Perm(np)
		for i := 0; i < np; i++ {
			rv.IPtr[i] = "P" + strconv.Itoa(perm[i]+1)
		}
		rv.FPtr = c10AllFams(w, "G", r.Perm(len(w.F)))
	default: // copy-shifted: the same pointer names, handed out to other people
		perm := r.Perm(np)
		for i := 0; i < np; i++ {
			rv.IPtr[i] = "I" + strconv.Itoa(perm[i]+1)
		}
		rv.FPtr = c10AllFams(w, "F", r.Perm(len(w.F)))
	}
	right := c10Render(w, rv)
	// shuffled record order on the right
	nrec := len(right.Indis) + len(right.Fams)
	if r.Chance(2, 3) {
		rv.Shuffle = r.Perm(nrec)
		right = c10Render(w, rv)
	}
	return left, right, shape
}

// ---------------------------------------------------------------- observing the output

type c10Out struct {
	Indis []c10AIndi // Marker = space-joined sorted markers
	Fams  []c10AFam
}

func c10FactPaths(n gedcom.Node) (paths []string, markers []string, refs [][2]string) {
	var walk func(k gedcom.Node, prefix string)
	walk = func(k gedcom.Node, prefix string) {
		path := prefix + k.Tag().Tag()
		paths = append(paths, path+" "+k.Value())
		for _, kk := range k.Nodes() {
			walk(kk, path+"/")
		}
	}
	for _, k := range n.Nodes() {
		t := k.Tag().Tag()
		switch t {
		case "FAMS", "FAMC":
			refs = append(refs, [2]string{t, strings.Trim(k.Value(), "@")})
			continue
		case "_MARK":
			markers = append(markers, k.Value())
		}
		walk(k, "")
	}
	return
}

func c10Abstract(doc *gedcom.Document) c10Out {
	var o c10Out
	for _, n := range doc.Nodes() {
		switch n.Tag().Tag() {
		case "INDI":
			paths, markers, refs := c10FactPaths(n)
			sort.Strings(markers)
			o.Indis = append(o.Indis, c10AIndi{Ptr: n.Pointer(), Marker: strings.Join(markers, " "), Facts: paths, Refs: refs})
		case "FAM":
			f := c10AFam{Ptr: n.Pointer()}
			for _, k := range n.Nodes() {
				switch t := k.Tag().Tag(); t {
				case "HUSB", "WIFE", "CHIL":
					f.Refs = append(f.Refs, [2]string{t, strings.Trim(k.Value(), "@")})
				}
			}
			o.Fams = append(o.Fams, f)
		}
	}
	return o
}

func c10Merge(l, r *gedcom.Document, via string, minSim float64) (out *gedcom.Document, err error) {
	defer func() {
		if p := recover(); p != nil {
			err = fmt.Errorf("panic: %v", p)
		}
	}()
	if via == "query" {
		engine, perr := q.NewParser().ParseString("MergeDocumentsAndIndividuals(Document1, Document2)")
		if perr != nil {
			return nil, perr
		}
		res, eerr := engine.Evaluate([]*gedcom.Document{l, r})
		if eerr != nil {
			return nil, eerr
		}
		doc, ok := res.(*gedcom.Document)
		if !ok {
			return nil, fmt.Errorf("query returned %T", res)
		}
		return doc, nil
	}
	options := c10Options(via, minSim)
	return gedcom.MergeDocumentsAndIndividuals(l, r, gedcom.EqualityMergeFunction, options)
}

const c10KnownPointers = "merge-does-not-rewrite-pointers"

func c10Run(c *Ctx, l, r *c10ADoc, shape, via string, minSim float64) {
	ld, err1 := gedcom.NewDocumentFromString(l.Text)
	rd, err2 := gedcom.NewDocumentFromString(r.Text)
	if err1 != nil || err2 != nil {
		c.Oracle("", "a generated document does not decode", map[string]interface{}{"left": l.Text, "right": r.Text, "shape": shape},
			fmt.Sprint(err1, err2), "decodes")
		return
	}
	c10RunDocs(c, ld, rd, l, r, shape, via, minSim, "")
}

// c10RunDocs merges two documents that may have been prepared through the API (history = how) and
// runs every oracle and both correspondences on that one merge. l and r describe the inputs as
// they are at the time of the call. Returns the merged document (nil when the merge failed).
func c10RunDocs(c *Ctx, ld, rd *gedcom.Document, l, r *c10ADoc, shape, via string, minSim float64, history string) *gedcom.Document {
	input := map[string]interface{}{"left": l.Text, "right": r.Text, "shape": shape, "via": via, "min_similarity": minSim}
	if history != "" {
		input["history"] = history
	}
	// the inputs as forests, before the merge (unmatched individuals are passed through by
	// reference and a later step of a chain may edit them)
	lForest, rForest := encForest(abstractNodes(ld.Nodes())), encForest(abstractNodes(rd.Nodes()))
	out, err := c10Merge(ld, rd, via, minSim)
	if err != nil {
		c.Oracle("", "MergeDocumentsAndIndividuals fails on two well-formed documents", input, err.Error(), "a merged document")
		return nil
	}
	c.Eval()
	c.Count("shape=" + shape)
	c.Count("via=" + via)
	// (S3) the output decodes again and is a fixpoint of encode/decode
	text := out.String()
	re, err := gedcom.NewDocumentFromString(text)
	if err != nil {
		c.Oracle("", "the merged document does not decode again", input, err.Error(), "decodes")
		return out
	}
	if re.String() != text {
		c.Oracle("", "the merged document changes when it is decoded and encoded again", input, re.String(), text)
	}
	o := c10Abstract(re)

	// the matching, read off the markers
	lIdx, rIdx := map[string]int{}, map[string]int{}
	// an input individual may carry several markers (it is itself the product of an earlier merge)
	for i, a := range l.Indis {
		for _, mk := range strings.Fields(a.Marker) {
			lIdx[mk] = i
		}
	}
	for i, a := range r.Indis {
		for _, mk := range strings.Fields(a.Marker) {
			rIdx[mk] = i
		}
	}
	seen := map[string]int{}
	inL, inR := map[int]map[int]bool{}, map[int]map[int]bool{} // input individual -> output individuals holding it
	type match struct{ L, R int }
	var ms []match
	var acct []string
	for k, oi := range o.Indis {
		m := match{-1, -1}
		for _, mk := range strings.Fields(oi.Marker) {
			seen[mk]++
			if i, ok := lIdx[mk]; ok {
				if m.L >= 0 && m.L != i {
					acct = append(acct, "output individual "+oi.Ptr+" holds two left individuals")
				}
				m.L = i
				if inL[i] == nil {
					inL[i] = map[int]bool{}
				}
				inL[i][k] = true
			} else if i, ok := rIdx[mk]; ok {
				if m.R >= 0 && m.R != i {
					acct = append(acct, "output individual "+oi.Ptr+" holds two right individuals")
				}
				m.R = i
				if inR[i] == nil {
					inR[i] = map[int]bool{}
				}
				inR[i][k] = true
			} else {
				acct = append(acct, "unknown marker "+mk)
			}
		}
		if m.L < 0 && m.R < 0 {
			acct = append(acct, "output individual "+oi.Ptr+" comes from nowhere")
		}
		ms = append(ms, m)
	}
	// (S1) accounting
	for mk, i := range lIdx {
		if seen[mk] != 1 || len(inL[i]) != 1 {
			acct = append(acct, fmt.Sprintf("left individual %s (@%s@) is represented by %d output individuals", mk, l.Indis[i].Ptr, len(inL[i])))
		}
	}
	for mk, i := range rIdx {
		if seen[mk] != 1 || len(inR[i]) != 1 {
			acct = append(acct, fmt.Sprintf("right individual %s (@%s@) is represented by %d output individuals", mk, r.Indis[i].Ptr, len(inR[i])))
		}
	}
	// a merged pair must be the same real person or at least plausible: the property does not
	// constrain who is matched (C11), only that everyone is accounted for.
	if len(acct) > 0 {
		sort.Strings(acct)
		c.Oracle("", "an individual is dropped, duplicated or merged twice", input, strings.Join(acct, "; "), "every individual of either input in exactly one output individual")
		return out
	}
	// (S2) facts of both
	var lost []string
	nMerged := 0
	for k, oi := range o.Indis {
		have := map[string]bool{}
		for _, p := range oi.Facts {
			have[p] = true
			// a node without a value is represented by any node on the same tag path
			have[p[:strings.Index(p, " ")+1]] = true
		}
		// BIRT / DEAT / BURI / BAPM nodes are Equal whatever their value (`1 DEAT Y` = `1 DEAT`) and the
		// merge keeps the left node: the value of the right node is dropped by design, the event itself
		// (and everything below it) must still be there
		for _, vital := range []string{"BIRT ", "DEAT ", "BURI ", "BAPM "} {
			if have[vital] {
				for _, side := range [][]c10AIndi{l.Indis, r.Indis} {
					for _, a := range side {
						for _, p := range a.Facts {
							if strings.HasPrefix(p, vital) {
								have[p] = true
							}
						}
					}
				}
			}
		}
		m := ms[k]
		if m.L >= 0 && m.R >= 0 {
			nMerged++
		}
		if m.L >= 0 {
			for _, p := range l.Indis[m.L].Facts {
				if !have[p] {
					lost = append(lost, oi.Ptr+" lacks left fact "+p)
				}
			}
			for _, rf := range l.Indis[m.L].Refs {
				if !c10HasRef(oi.Refs, rf) {
					lost = append(lost, oi.Ptr+" lacks left link "+rf[0]+" "+rf[1])
				}
			}
		}
		if m.R >= 0 {
			for _, p := range r.Indis[m.R].Facts {
				if !have[p] {
					lost = append(lost, oi.Ptr+" lacks right fact "+p)
				}
			}
			for _, rf := range r.Indis[m.R].Refs {
				if !c10HasRef(oi.Refs, rf) {
					lost = append(lost, oi.Ptr+" lacks right link "+rf[0]+" "+rf[1])
				}
			}
		}
	}
	if len(lost) > 0 {
		c.Oracle("", "a merged individual does not hold the facts of both originals", input, strings.Join(lost, "; "), "every fact of both originals")
	}
	// (S4) references resolve to the record that now represents the same person
	outByPtr := map[string][]int{}   // pointer -> output individuals
	famByPtr := map[string]int{}
	for k, oi := range o.Indis {
		outByPtr[oi.Ptr] = append(outByPtr[oi.Ptr], k)
	}
	for _, of := range o.Fams {
		famByPtr[of.Ptr]++
	}
	// pointers the merge is known to break: the right pointer of a pair merged under the left
	// pointer, and pointers carried by two output records
	bad := map[string]bool{}
	for _, m := range ms {
		if m.L >= 0 && m.R >= 0 && l.Indis[m.L].Ptr != r.Indis[m.R].Ptr {
			bad[r.Indis[m.R].Ptr] = true
		}
	}
	for p, ks := range outByPtr {
		if len(ks) > 1 || famByPtr[p] > 0 {
			bad[p] = true
		}
	}
	for p, n := range famByPtr {
		if n > 1 {
			bad[p] = true
		}
	}
	// away(p): what references_resolve_iff (Props/C10Refs.lean) proves to be the only way a HUSB / WIFE /
	// CHIL line can come to name nobody: p is carried by no left individual, by some right individual,
	// and every right individual carrying it is the right half of a merged pair. Computed here from the
	// inputs and the matching, by the driver from the model (`mergedAway`): the rows below carry both.
	away := func(p string) bool {
		for _, a := range l.Indis {
			if a.Ptr == p {
				return false
			}
		}
		some := false
		for j, b := range r.Indis {
			if b.Ptr != p {
				continue
			}
			some = true
			paired := false
			for _, m := range ms {
				if m.L >= 0 && m.R == j {
					paired = true
				}
			}
			if !paired {
				return false
			}
		}
		return some
	}
	// the markers of the individual a pointer names in an input; ok = it names exactly one record
	markerOf := func(side *c10ADoc, ptr string) (markers []string, ok bool) {
		n := 0
		for _, a := range side.Indis {
			if a.Ptr == ptr {
				markers = strings.Fields(a.Marker)
				n++
			}
		}
		for _, f := range side.Fams {
			if f.Ptr == ptr {
				n++
			}
		}
		return markers, n == 1 && len(markers) > 0
	}
	famResolvesIn := func(side *c10ADoc, ptr string) bool {
		n := 0
		for _, f := range side.Fams {
			if f.Ptr == ptr {
				n++
			}
		}
		for _, a := range side.Indis {
			if a.Ptr == ptr {
				n++
			}
		}
		return n == 1
	}
	sideHasFamRef := func(side *c10ADoc, fam string, rf [2]string) bool {
		for _, f := range side.Fams {
			if f.Ptr == fam && c10HasRef(f.Refs, rf) {
				return true
			}
		}
		return false
	}
	var broken, brokenKnown []string
	check := func(where string, rf [2]string, wantMarkers []string) {
		ks := outByPtr[rf[1]]
		ok := len(ks) == 1 && famByPtr[rf[1]] == 0
		if ok {
			for _, wm := range wantMarkers {
				if !strings.Contains(" "+o.Indis[ks[0]].Marker+" ", " "+wm+" ") {
					ok = false
				}
			}
		}
		if !ok {
			msg := fmt.Sprintf("%s: %s @%s@ names %d individual record(s)", where, rf[0], rf[1], len(ks))
			known := bad[rf[1]]
			if len(ks) == 0 {
				// a line that names nobody is the known finding only in the shape the theorem allows
				known = away(rf[1])
				if known {
					c.Count("dangling:target-merged-away")
				} else {
					c.Count("dangling:other (outside the finding by references_resolve_iff)")
				}
			}
			if known {
				brokenKnown = append(brokenKnown, msg)
			} else {
				broken = append(broken, msg)
			}
		}
	}
	for _, of := range o.Fams {
		for _, rf := range of.Refs {
			// only references that resolved in the input they come from have to resolve in the output
			// (an input that is itself a merge result may already carry dangling references)
			var want []string
			required := false
			if sideHasFamRef(l, of.Ptr, rf) {
				if mk, ok := markerOf(l, rf[1]); ok {
					want = append(want, mk...)
					required = true
				}
			}
			if sideHasFamRef(r, of.Ptr, rf) {
				if mk, ok := markerOf(r, rf[1]); ok {
					want = append(want, mk...)
					required = true
				}
			}
			if required {
				check("family "+of.Ptr, rf, want)
			}
		}
	}
	for _, oi := range o.Indis {
		for _, rf := range oi.Refs {
			if !famResolvesIn(l, rf[1]) && !famResolvesIn(r, rf[1]) {
				continue
			}
			if famByPtr[rf[1]] != 1 || len(outByPtr[rf[1]]) > 0 {
				msg := fmt.Sprintf("individual %s: %s @%s@ names %d family record(s)", oi.Ptr, rf[0], rf[1], famByPtr[rf[1]])
				if bad[rf[1]] {
					brokenKnown = append(brokenKnown, msg)
				} else {
					broken = append(broken, msg)
				}
			}
		}
	}
	if len(broken) > 0 {
		c.Oracle("", "a reference of the merged document does not resolve to the record of the same person", input, strings.Join(broken, "; "), "every reference resolves")
	}
	if len(brokenKnown) > 0 {
		c.Oracle(c10KnownPointers, "references to an individual merged under another pointer (or whose pointer is carried by two records) no longer resolve to that person: the merge never rewrites pointers", input, strings.Join(brokenKnown, "; "), "every reference resolves")
		c.Count("dangling-or-ambiguous")
	} else {
		c.Count("all-references-resolve")
	}

	// (T) the pointer-resolution table against the Lean model
	ids := map[string]int{}
	id := func(p string) int {
		if v, ok := ids[p]; ok {
			return v
		}
		ids[p] = len(ids) + 1
		return ids[p]
	}
	var req strings.Builder
	fmt.Fprintf(&req, "mergeg %d", len(ms))
	for _, m := range ms {
		switch {
		case m.L >= 0 && m.R >= 0:
			fmt.Fprintf(&req, " B %d %d", m.L, m.R)
		case m.L >= 0:
			fmt.Fprintf(&req, " L %d", m.L)
		default:
			fmt.Fprintf(&req, " R %d", m.R)
		}
	}
	role := map[string]int{"HUSB": 0, "WIFE": 1, "CHIL": 2, "FAMS": 3, "FAMC": 4}
	enc := func(d *c10ADoc) {
		fmt.Fprintf(&req, " %d", len(d.Indis))
		for _, a := range d.Indis {
			fmt.Fprintf(&req, " %d %d", id(a.Ptr), len(a.Refs))
			for _, rf := range a.Refs {
				fmt.Fprintf(&req, " %d %d", role[rf[0]], id(rf[1]))
			}
		}
		fmt.Fprintf(&req, " %d", len(d.Fams))
		for _, f := range d.Fams {
			fmt.Fprintf(&req, " %d %d", id(f.Ptr), len(f.Refs))
			for _, rf := range f.Refs {
				fmt.Fprintf(&req, " %d %d", role[rf[0]], id(rf[1]))
			}
		}
	}
	enc(l)
	enc(r)
	// observation: sorted "I ptr | F ptr" records and "(owner role target nIndi nFam away)" rows
	var rows []string
	nAway := 0
	for _, oi := range o.Indis {
		rows = append(rows, fmt.Sprintf("I%d", id(oi.Ptr)))
		for _, rf := range oi.Refs {
			rows = append(rows, fmt.Sprintf("r%d.%d.%d.%d.%d.0", id(oi.Ptr), role[rf[0]], id(rf[1]), len(outByPtr[rf[1]]), famByPtr[rf[1]]))
		}
	}
	for _, of := range o.Fams {
		rows = append(rows, fmt.Sprintf("F%d", id(of.Ptr)))
		for _, rf := range of.Refs {
			aw := away(rf[1])
			if aw {
				nAway++
			}
			rows = append(rows, fmt.Sprintf("r%d.%d.%d.%d.%d.%s", id(of.Ptr), role[rf[0]], id(rf[1]), len(outByPtr[rf[1]]), famByPtr[rf[1]], bit(aw)))
		}
	}
	sort.Strings(rows)
	obs := "-"
	if len(rows) > 0 {
		obs = strings.Join(rows, " ")
	}
	c.Tie(req.String(), obs+fmt.Sprintf(" dangling=%d", nAway))
	if nAway > 0 {
		c.Count("mergeg:some-target-merged-away")
	} else {
		c.Count("mergeg:no-target-merged-away")
	}

	// (T2) the whole merged document against the composed model (C11 results -> C09 MergeNodes on
	// the fact subtrees -> MergeNodeSlices on the other records), records in order
	posOf := func(doc *gedcom.Document) map[string]int {
		m := map[string]int{}
		n := 0
		for _, rec := range doc.Nodes() {
			if rec.Tag().Tag() != "INDI" {
				continue
			}
			for _, k := range rec.Nodes() {
				if k.Tag().Tag() == "_MARK" {
					m[k.Value()] = n
				}
			}
			n++
		}
		return m
	}
	// fresh decodes: the merge passes unmatched individuals through by reference, the inputs must
	// be described as they were
	lp, rp := posOf(ld), posOf(rd)
	first := func(marker string) string { return strings.Fields(marker + " -")[0] }
	var req2 strings.Builder
	fmt.Fprintf(&req2, "mergedocs %d", len(ms))
	for _, m := range ms {
		switch {
		case m.L >= 0 && m.R >= 0:
			fmt.Fprintf(&req2, " B %d %d", lp[first(l.Indis[m.L].Marker)], rp[first(r.Indis[m.R].Marker)])
		case m.L >= 0:
			fmt.Fprintf(&req2, " L %d", lp[first(l.Indis[m.L].Marker)])
		default:
			fmt.Fprintf(&req2, " R %d", rp[first(r.Indis[m.R].Marker)])
		}
	}
	req2.WriteString(" " + lForest + " " + rForest)
	// (T3) end to end: the matching of the real Compare against C11's model computing it from the
	// persons and the similarity scores, fed into the merge model (accounting_end_to_end)
	if composed := c10Compose(c, ld, rd, via, minSim); composed != nil {
		var up []string
		for _, m := range ms {
			a, b := "_", "_"
			if m.L >= 0 {
				a = fmt.Sprint(lp[first(l.Indis[m.L].Marker)])
			}
			if m.R >= 0 {
				b = fmt.Sprint(rp[first(r.Indis[m.R].Marker)])
			}
			up = append(up, a+"-"+b)
		}
		sort.Strings(up)
		c.Tie(composed.head+" "+lForest+" "+rForest, c10ComposedObs(composed, strings.Join(up, " "), out))
		c.Count("composed:tied")
	}
	c.Tie(req2.String(), "ok legal="+bit(re.String() == text)+" inputs=1 "+encForest(abstractNodes(out.Nodes())))

	switch {
	case len(l.Indis)+len(r.Indis) == 0:
		c.Count("people=0")
	case len(l.Indis)+len(r.Indis) <= 10:
		c.Count("people=1-10")
	case len(l.Indis)+len(r.Indis) <= 30:
		c.Count("people=11-30")
	default:
		c.Count("people>30")
	}
	switch {
	case nMerged == 0:
		c.Count("merged=0")
	case nMerged <= 5:
		c.Count("merged=1-5")
	default:
		c.Count("merged>5")
	}
	c.Nontrivial(fmt.Sprintf("%s|%d|%d|%v", shape, nMerged, len(o.Indis)-nMerged, len(brokenKnown) > 0))
	c.Sample(map[string]interface{}{"shape": shape, "via": via, "left_people": len(l.Indis), "right_people": len(r.Indis),
		"merged": nMerged, "output_people": len(o.Indis), "output_families": len(o.Fams), "broken_references": len(brokenKnown)})
	return out
}

func c10HasRef(refs [][2]string, rf [2]string) bool {
	for _, x := range refs {
		if x == rf {
			return true
		}
	}
	return false
}

func init() {
	runners["C10"] = func(c *Ctx) {
		c.Compare = c10cmp
		c10note = func(s string) { c.Dist[s]++ }
		c.Rule = "pairs of referentially closed family-graph documents (0..25 people each): base + edited copy with the same / renumbered / reshuffled pointers, dropped and added people, changed facts, shuffled records; disjoint worlds with disjoint or clashing pointers; empty documents; inputs prepared through the API after earlier reads (Individuals / Families / Warnings) and earlier merges of the same document (DeleteNode / SetNodes / AddIndividual / AddFamily / AddChild, people and couples attached through the generic AddNode with DeepCopy) and chains of 2-3 merges whose results are edited and merged again; documents the decoder accepts with role lines outside FAM records (outside the property's domain: the model's prediction whether the merged text decodes again is compared with the real decoder); renumbered copies with shared _UIDs, swapped pointers and namesakes; unchanged copies of fully documented families with only non-vital facts edited (weighted similarity 1.0); default, strict (0.95), lenient (0.4) and always-trust-the-pointer (PreferPointerAbove 0) thresholds; library call and query function; individuals with two or three unique identifiers (_UID several times, _UID with _FSFTID / _FID) that lead to different individuals of the other document, to the same one or to nobody, carrier on either side; a document of n individuals (pointer, identifier, marker) merged with its re-marked copy for n in 999, 1000, 1001, 2000, 2001, 2002, 2100 (thorough: also 4100, every variant), all matched for certain by _UID or by pointer, through the library (Jobs 0, 2, 4, 16) and q, under a 25 s watchdog with the accounting oracle on the result; distinct = (shape, merged, unmerged, any broken reference)"
		c.Notes = append(c.Notes,
			"the matching is read off unique marker lines in the output; who is matched with whom is C11's property, C10 checks that everyone is accounted for whatever the matching",
			"after every merge the real Compare is run on the same individuals and options: its matching must be the one the merge used and the one C11's model computes from the persons and the exact scores (mergecomposed request; score ties / ambiguous identifiers are counted inconclusive)",
			"ConcurrentJobs is left at its default (the data races of the parallel comparison are C11's finding)")
		shapes := []string{"copy-samepointers", "copy-renumbered", "copy-shifted", "disjoint", "clashing", "copy-samepointers", "copy-renumbered",
			"empty-both", "empty-left", "empty-right"}
		n := c.N(2500, 40000)
		// the large merges run first: they are timed by a watchdog, and the requests of tens of
		// thousands of cases kept for the driver (a few GB in the thorough tier) slow the process down
		c10Large(c)
		c10Roles(c)
		{
			l, r, _ := c10Pair(c.R, "witness", 2)
			c10Run(c, l, r, "witness", "library", 0)
			c10Run(c, l, r, "witness", "query", 0)
		}
		for k := 0; k < n; k++ {
			shape := shapes[k%len(shapes)]
			mp := 12
			if k%13 == 0 {
				mp = 25
			}
			l, r, _ := c10Pair(c.R, shape, mp)
			via, minSim := "library", 0.0
			switch k % 7 {
			case 1, 4:
				via = "query"
			case 2:
				minSim = 0.95
			case 5:
				minSim = 0.4
			}
			c10Run(c, l, r, shape, c10Jobs(via, k/7), minSim)
			if k%5 == 0 {
				c10Wave2(c, k/5)
			}
			if k%6 == 0 {
				l, rt, how := c10MultiUIDPair(c.R)
				via, minSim := c10Opts(k / 6)
				c.Count("multi-uid:" + how)
				c10Run(c, l, rt, "multi-uid", via, minSim)
			}
		}
	}
}
