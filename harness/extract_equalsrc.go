package main

import (
	"fmt"
	"go/ast"
	"go/parser"
	"go/token"
	"os"
	"path/filepath"
	"sort"
	"strconv"
	"strings"
)

// Source translation of the decision logic behind node equality (C07):
//   * which node types define their own `Equals(node2 Node) bool` (the dispatch table),
//   * SimpleNode.Equals as an ordered list of steps (nil checks, field comparisons),
//   * Date.Equals: the guards before the table, the 4×4 composite literal of method values, the
//     index expression, the bodies of equalsA..equalsD as small codes, and the iota order of the
//     DateConstraint constants,
//   * the statements of the remaining Equals methods, DateRange.Equals, DeepEqual and
//     DeepEqualNodes, printed by go/printer with white space normalised.
// Anything that is not of the expected shape is emitted as "?" (or an empty list) and rejected by
// the obligation `equal_source_shape` in Props/C07.lean: the translator never guesses.

func eqsrcQuoteList(xs []string) string {
	qs := make([]string, len(xs))
	for i, x := range xs {
		qs[i] = strconv.Quote(x)
	}
	return "[" + strings.Join(qs, ", ") + "]"
}

// eqsrcPairs prints "kind:arg" codes as Lean pairs.
func eqsrcPairs(xs []string) string {
	ps := make([]string, len(xs))
	for i, x := range xs {
		kind, arg := x, ""
		if j := strings.Index(x, ":"); j >= 0 {
			kind, arg = x[:j], x[j+1:]
		}
		ps[i] = fmt.Sprintf("(%s, %s)", strconv.Quote(kind), strconv.Quote(arg))
	}
	return "[" + strings.Join(ps, ", ") + "]"
}

func eqsrcStmtList(xs []string) string {
	if len(xs) == 0 {
		return "[]"
	}
	qs := make([]string, len(xs))
	for i, x := range xs {
		qs[i] = strconv.Quote(x)
	}
	return "[\n  " + strings.Join(qs, ",\n  ") + "]"
}

// recvName returns the receiver type name of a method ("" for functions) and whether it is a pointer.
func eqsrcRecv(d *ast.FuncDecl) string {
	if d.Recv == nil || len(d.Recv.List) != 1 {
		return ""
	}
	switch t := d.Recv.List[0].Type.(type) {
	case *ast.StarExpr:
		if id, ok := t.X.(*ast.Ident); ok {
			return id.Name
		}
	case *ast.Ident:
		return t.Name
	}
	return ""
}

// isReturnBool recognises `{ return false }` / `{ return true }`.
func eqsrcReturnsLit(b *ast.BlockStmt, lit string) bool {
	if b == nil || len(b.List) != 1 {
		return false
	}
	r, ok := b.List[0].(*ast.ReturnStmt)
	if !ok || len(r.Results) != 1 {
		return false
	}
	id, ok := r.Results[0].(*ast.Ident)
	return ok && id.Name == lit
}

func init() {
	extractors["EqualSrc"] = func() string {
		fset := token.NewFileSet()
		root := repoRoot()
		files, _ := filepath.Glob(filepath.Join(root, "*.go"))
		sort.Strings(files)
		overrides := []string{}
		stmts := map[string][]string{} // "Recv.Method" or "Func" -> statements
		var simpleSteps []string
		var guards []string
		var matchers [][]string
		indexRow, indexCol, callArgs := "?", "?", []string{}
		bodies := map[string]string{}
		var constraintOrder []string
		wanted := map[string]bool{"ResidenceNode.Equals": true, "EventNode.Equals": true, "BirthNode.Equals": true,
			"DeathNode.Equals": true, "BurialNode.Equals": true, "BaptismNode.Equals": true, "DateNode.Equals": true,
			"UniqueIDNode.Equals": true, "DateRange.Equals": true, "DeepEqual": true, "DeepEqualNodes": true}
		for _, path := range files {
			if strings.HasSuffix(path, "_test.go") {
				continue
			}
			src, err := os.ReadFile(path)
			if err != nil {
				continue
			}
			file, err := parser.ParseFile(fset, path, src, 0)
			if err != nil {
				continue
			}
			for _, decl := range file.Decls {
				switch d := decl.(type) {
				case *ast.GenDecl:
					// const ( DateConstraintExact = DateConstraint(iota); DateConstraintAbout; … )
					if d.Tok != token.CONST || len(d.Specs) == 0 {
						continue
					}
					first, ok := d.Specs[0].(*ast.ValueSpec)
					if !ok || len(first.Names) != 1 || len(first.Values) != 1 || printNode(fset, first.Values[0]) != "DateConstraint(iota)" {
						continue
					}
					for _, s := range d.Specs {
						vs := s.(*ast.ValueSpec)
						if len(vs.Names) != 1 || (s != d.Specs[0] && len(vs.Values) != 0) {
							constraintOrder = append(constraintOrder, "?")
							continue
						}
						constraintOrder = append(constraintOrder, vs.Names[0].Name)
					}
				case *ast.FuncDecl:
					if d.Body == nil {
						continue
					}
					recv := eqsrcRecv(d)
					name := d.Name.Name
					key := name
					if recv != "" {
						key = recv + "." + name
					}
					// dispatch table: methods `Equals(node2 Node) bool` on node types
					if name == "Equals" && recv != "" && d.Type.Params != nil && len(d.Type.Params.List) == 1 {
						if id, ok := d.Type.Params.List[0].Type.(*ast.Ident); ok && id.Name == "Node" && recv != "SimpleNode" {
							overrides = append(overrides, recv)
						}
					}
					if wanted[key] {
						for _, st := range d.Body.List {
							stmts[key] = append(stmts[key], printNode(fset, st))
						}
					}
					if key == "SimpleNode.Equals" {
						for _, st := range d.Body.List {
							simpleSteps = append(simpleSteps, eqsrcSimpleStep(fset, st))
						}
					}
					if recv == "Date" && name == "Equals" {
						seenTable := false
						for _, st := range d.Body.List {
							switch st := st.(type) {
							case *ast.IfStmt:
								if !seenTable {
									guards = append(guards, printNode(fset, st))
								} else {
									guards = append(guards, "?")
								}
							case *ast.AssignStmt:
								seenTable = true
								matchers = eqsrcMatchers(st)
							case *ast.ReturnStmt:
								indexRow, indexCol, callArgs = eqsrcIndex(fset, st)
							default:
								guards = append(guards, "?")
							}
						}
					}
					if recv == "Date" && (name == "equalsA" || name == "equalsB" || name == "equalsC" || name == "equalsD") {
						bodies[name] = eqsrcMatcherBody(fset, d)
					}
				}
			}
		}
		sort.Strings(overrides)
		var b strings.Builder
		b.WriteString("-- Source: go/ast over the package — methods `Equals(node2 Node) bool`, SimpleNode.Equals,\n")
		b.WriteString("-- Date.Equals with its table of method values and equalsA..D, the DateConstraint constants, and the\n")
		b.WriteString("-- statements of the other Equals methods, DateRange.Equals, DeepEqual, DeepEqualNodes.\n")
		b.WriteString("namespace Gedcom.Generated\n\n")
		fmt.Fprintf(&b, "/-- node types (other than SimpleNode) that define `Equals(node2 Node) bool` -/\ndef equalsOverrides : List String := %s\n\n", eqsrcQuoteList(overrides))
		fmt.Fprintf(&b, "/-- SimpleNode.Equals, statement by statement: (nil, x) = \"if x is nil return false\", (get, f) =\n    \"f := node2.F()\", (ne, f) = \"if node.f != f return false\", (ret-eq, f) = \"return node.f == node2.F()\" -/\ndef simpleEqualsSteps : List (String × String) := %s\n\n", eqsrcPairs(simpleSteps))
		fmt.Fprintf(&b, "/-- Date.Equals: the `if` statements before the table -/\ndef dateEqualsGuards : List String := %s\n\n", eqsrcStmtList(guards))
		rows := make([]string, len(matchers))
		for i, r := range matchers {
			rows[i] = eqsrcQuoteList(r)
		}
		fmt.Fprintf(&b, "/-- Date.Equals: the composite literal `matchers` (method values `Date.equalsX`), row by row -/\ndef dateEqualsMatchers : List (List String) := [\n  %s]\n\n", strings.Join(rows, ",\n  "))
		fmt.Fprintf(&b, "/-- Date.Equals: `return matchers[ROW][COL](ARGS…)` -/\ndef dateEqualsRow : String := %s\ndef dateEqualsCol : String := %s\ndef dateEqualsArgs : List String := %s\n\n",
			strconv.Quote(indexRow), strconv.Quote(indexCol), eqsrcQuoteList(callArgs))
		names := []string{"equalsA", "equalsB", "equalsC", "equalsD"}
		var bs []string
		for _, n := range names {
			v, ok := bodies[n]
			if !ok {
				v = "?"
			}
			kind, arg := v, ""
			if i := strings.Index(v, ":"); i >= 0 {
				kind, arg = v[:i], v[i+1:]
			}
			bs = append(bs, fmt.Sprintf("(%s, %s, %s)", strconv.Quote(n), strconv.Quote(kind), eqsrcQuoteList(strings.Split(arg, ","))))
		}
		fmt.Fprintf(&b, "/-- the matchers: (fields, [Day, Month, Year]) = all these fields are equal; (years, [OP]) =\n    `date.Years() OP date2.Years()`; (const, [false]) -/\ndef dateMatcherBodies : List (String × String × List String) := [%s]\n\n", strings.Join(bs, ", "))
		fmt.Fprintf(&b, "/-- the DateConstraint constants in `iota` order -/\ndef dateConstraintOrder : List String := %s\n\n", eqsrcQuoteList(constraintOrder))
		keys := []string{}
		for k := range wanted {
			keys = append(keys, k)
		}
		sort.Strings(keys)
		for _, k := range keys {
			fmt.Fprintf(&b, "def statementsOf%s : List String := %s\n\n", strings.ReplaceAll(k, ".", ""), eqsrcStmtList(stmts[k]))
		}
		b.WriteString("end Gedcom.Generated\n")
		return b.String()
	}
}

// eqsrcSimpleStep translates one statement of SimpleNode.Equals.
func eqsrcSimpleStep(fset *token.FileSet, st ast.Stmt) string {
	switch st := st.(type) {
	case *ast.IfStmt:
		if st.Init != nil || st.Else != nil || !eqsrcReturnsLit(st.Body, "false") {
			return "?"
		}
		cond := printNode(fset, st.Cond)
		switch cond {
		case "node == nil":
			return "nil:node"
		case "IsNil(node2)":
			return "nil:node2"
		}
		// node.F != v   where v was assigned from node2.F'() by the statement before
		if be, ok := st.Cond.(*ast.BinaryExpr); ok && be.Op == token.NEQ {
			l := printNode(fset, be.X)
			r := printNode(fset, be.Y)
			if strings.HasPrefix(l, "node.") && l == "node."+r {
				return "ne:" + r
			}
		}
		return "?"
	case *ast.AssignStmt:
		// F := node2.F()  (title-cased accessor of the same field)
		txt := printNode(fset, st)
		for _, f := range []string{"tag", "value", "pointer"} {
			if txt == f+" := node2."+strings.Title(f)+"()" {
				return "get:" + f
			}
		}
		return "?"
	case *ast.ReturnStmt:
		txt := printNode(fset, st)
		for _, f := range []string{"tag", "value", "pointer"} {
			if txt == "return node."+f+" == node2."+strings.Title(f)+"()" {
				return "ret-eq:" + f
			}
		}
		return "?"
	}
	return "?"
}

// eqsrcMatchers reads `matchers := [][]func(d1, d2 Date) bool{ {Date.equalsA, …}, … }`.
func eqsrcMatchers(st *ast.AssignStmt) [][]string {
	if len(st.Lhs) != 1 || len(st.Rhs) != 1 {
		return nil
	}
	if id, ok := st.Lhs[0].(*ast.Ident); !ok || id.Name != "matchers" {
		return nil
	}
	cl, ok := st.Rhs[0].(*ast.CompositeLit)
	if !ok {
		return nil
	}
	var rows [][]string
	for _, e := range cl.Elts {
		row, ok := e.(*ast.CompositeLit)
		if !ok {
			rows = append(rows, []string{"?"})
			continue
		}
		var r []string
		for _, x := range row.Elts {
			sel, ok := x.(*ast.SelectorExpr)
			if !ok {
				r = append(r, "?")
				continue
			}
			if id, ok := sel.X.(*ast.Ident); !ok || id.Name != "Date" {
				r = append(r, "?")
				continue
			}
			r = append(r, sel.Sel.Name)
		}
		rows = append(rows, r)
	}
	return rows
}

// eqsrcIndex reads `return matchers[ROW][COL](ARGS…)`.
func eqsrcIndex(fset *token.FileSet, st *ast.ReturnStmt) (string, string, []string) {
	if len(st.Results) != 1 {
		return "?", "?", nil
	}
	call, ok := st.Results[0].(*ast.CallExpr)
	if !ok {
		return "?", "?", nil
	}
	outer, ok := call.Fun.(*ast.IndexExpr)
	if !ok {
		return "?", "?", nil
	}
	inner, ok := outer.X.(*ast.IndexExpr)
	if !ok {
		return "?", "?", nil
	}
	if id, ok := inner.X.(*ast.Ident); !ok || id.Name != "matchers" {
		return "?", "?", nil
	}
	var args []string
	for _, a := range call.Args {
		args = append(args, printNode(fset, a))
	}
	return printNode(fset, inner.Index), printNode(fset, outer.Index), args
}

// eqsrcMatcherBody translates the body of equalsA..D into a small code.
func eqsrcMatcherBody(fset *token.FileSet, d *ast.FuncDecl) string {
	list := d.Body.List
	if len(list) == 0 {
		return "?"
	}
	last, ok := list[len(list)-1].(*ast.ReturnStmt)
	if !ok || len(last.Results) != 1 {
		return "?"
	}
	ret := printNode(fset, last.Results[0])
	if len(list) == 1 && (ret == "false" || ret == "true") {
		return "const:" + ret
	}
	// leftYears := date.Years(); rightYears := date2.Years(); return leftYears OP rightYears
	if len(list) == 3 && printNode(fset, list[0]) == "leftYears := date.Years()" && printNode(fset, list[1]) == "rightYears := date2.Years()" {
		for _, op := range []string{">", "<", ">=", "<=", "==", "!="} {
			if ret == "leftYears "+op+" rightYears" {
				return "years:" + op
			}
		}
		return "?"
	}
	// if date.F != date2.F { return false } … return date.G == date2.G
	var fields []string
	for _, st := range list[:len(list)-1] {
		is, ok := st.(*ast.IfStmt)
		if !ok || is.Init != nil || is.Else != nil || !eqsrcReturnsLit(is.Body, "false") {
			return "?"
		}
		be, ok := is.Cond.(*ast.BinaryExpr)
		if !ok || be.Op != token.NEQ {
			return "?"
		}
		l, r := printNode(fset, be.X), printNode(fset, be.Y)
		if !strings.HasPrefix(l, "date.") || r != "date2."+strings.TrimPrefix(l, "date.") {
			return "?"
		}
		fields = append(fields, strings.TrimPrefix(l, "date."))
	}
	be, ok := last.Results[0].(*ast.BinaryExpr)
	if !ok || be.Op != token.EQL {
		return "?"
	}
	l, r := printNode(fset, be.X), printNode(fset, be.Y)
	if !strings.HasPrefix(l, "date.") || r != "date2."+strings.TrimPrefix(l, "date.") {
		return "?"
	}
	fields = append(fields, strings.TrimPrefix(l, "date."))
	return "fields:" + strings.Join(fields, ",")
}
