package main

// C08 — A node diff accounts for every node and leaves its inputs alone.
//
// Generators (all randomness from c.R): independent random trees; a tree and a permuted copy; a
// tree and a copy with k uniquely tagged leaves inserted / removed under plain parents; a tree and
// an edited copy; chains of RESI nodes whose Equals is not transitive (the guard of
// deepEqual_all_two_sided); every order of {CompareNodes, String, IsDeepEqual, Sort, Tag} up to
// length 4 on a few pairs, random orders on the rest.
// Correspondence: request `diff <ops> <left> <right>`; observation = after CompareNodes and after
// each operation its result, the diff dumped by node identity (preorder number of the node in its
// input, found by pointer) and whether either input's encoding changed; finally both encodings.
// Oracle (S): the clauses of the property checked directly on the NodeDiff returned by the real
// code, by pointer identity, independent of the Lean model.

import (
	"bytes"
	"fmt"
	"strings"

	"github.com/elliotchance/gedcom/v39"
	"github.com/elliotchance/gedcom/v39/html"
)

// ---------- pools ----------

var c08plainTags = []string{"NOTE", "OCCU", "TITL", "_CUST", "ZZA", "ZZB", "CAST", "RELI"}
var c08vitalTags = []string{"BIRT", "DEAT", "BURI", "BAPM"}
var c08level1Tags = []string{"NAME", "BIRT", "DEAT", "BURI", "BAPM", "RESI", "EVEN", "NOTE", "OCCU", "SEX",
	"_UID", "ZZA", "TITL", "CHR", "ADOP", "RESI", "EVEN", "BIRT"}
var c08eventKidTags = []string{"DATE", "PLAC", "NOTE", "DATE", "PLAC", "SOUR", "TYPE", "ZZB"}
var c08anyTags = []string{"NAME", "BIRT", "DEAT", "BURI", "BAPM", "RESI", "EVEN", "NOTE", "OCCU", "SEX", "_UID",
	"ZZA", "ZZB", "TITL", "DATE", "PLAC", "SOUR", "TYPE", "CHR", "ADOP", "FORM", "NICK", "MAP", "LATI", "_FID", "1", "A_B"}

// DATE values: plain dates, constrained dates, ranges, phrases and unparsable text (parsing and
// DateNode.Equals are the C04/C07 models). c08checkDates drops a value when its Years() comes
// closer than 1e-9 to that of a value denoting a different date: Years() is an exact fraction in
// the model and a float64 in Go, so only exact ties between equal dates are compared.
var c08dateCandidates = []string{"1900", "1901", "1850", "3 Sep 1943", "4 Sep 1943", "Sep 1943", "Oct 1943",
	"1943", "29 Feb 2000", "Feb 2000", "31 Dec 1999", "1 Jan 2000", "Jan 1800", "(about the war)", "(unknown)",
	"sometime", "", "1 Mar 1937", "12 Dec 1", "Abt. 1900", "ABT 1900", "Bef. Oct 1943", "Aft. 1850",
	"Bet. 1900 and 1910", "Aft. Sep 1920", "abt 3 Sep 1943", "3 SEP 1943", "2 Jul 1901"}

var c08values = map[string][]string{
	"NAME": {"John /Smith/", "Jane /Doe/", "J. /Smith/", "John /Smith/"},
	"PLAC": {"England", "Surry, England", "Paris", "England"},
	"SEX":  {"M", "F", "U"},
	"_UID": {"EE13561DDB204985BFFDEEBF82A5226C", "ee13561d-db20-4985-bffd-eebf82a5226c", "6B29FC40CA471067B31D00DD010662DA5A4E",
		"6b29fc40ca471067b31d00dd010662da"},
	"EVEN": {"", "Graduation", "Moved", ""},
	"RESI": {"", "", "here"},
	"":     {"a", "b", "", "x y", "Zeta", "10", "9", "ab", "a ", "caf\xc3\xa9 au lait", "a"},
}

func c08checkDates() (ok []string, dropped []string) {
	mk := func(v string) *gedcom.DateNode { return gedcom.NewDateNode(v) }
	same := func(a, b gedcom.Date) bool { return a.Day == b.Day && a.Month == b.Month && a.Year == b.Year }
	for _, v := range c08dateCandidates {
		good := true
		for _, w := range c08dateCandidates {
			if v == w {
				continue
			}
			a, b := mk(v), mk(w)
			d := a.Years() - b.Years()
			if d < 0 {
				d = -d
			}
			ds := a.StartDate().Years() - b.StartDate().Years()
			if ds < 0 {
				ds = -ds
			}
			sameStart := same(a.StartDate(), b.StartDate())
			sameEnd := same(a.EndDate(), b.EndDate())
			nearYears := d < 1e-9 && !(sameStart && sameEnd) && !(a.Years() == 0 && b.Years() == 0)
			nearStart := ds < 1e-9 && !sameStart && !(a.StartDate().Years() == 0 && b.StartDate().Years() == 0)
			if nearYears || nearStart {
				// the later of the two in the list is dropped
				if c08indexOf(c08dateCandidates, w) < c08indexOf(c08dateCandidates, v) && c08containsS(ok, w) {
					good = false
				}
			}
		}
		if good {
			ok = append(ok, v)
		} else {
			dropped = append(dropped, v)
		}
	}
	return
}

func c08indexOf(xs []string, s string) int {
	for i, x := range xs {
		if x == s {
			return i
		}
	}
	return -1
}

func c08containsS(xs []string, s string) bool { return c08indexOf(xs, s) >= 0 }

type c08gen struct {
	r      *Rand
	dates  []string
	unique int
}

func (g *c08gen) value(tag string) string {
	if tag == "DATE" {
		return g.r.Pick(g.dates)
	}
	if p, ok := c08values[tag]; ok {
		return g.r.Pick(p)
	}
	if c08contains(c08vitalTags, tag) {
		if g.r.Chance(1, 6) {
			return "Y"
		}
		return ""
	}
	return g.r.Pick(c08values[""])
}

func c08contains(xs []string, s string) bool {
	for _, x := range xs {
		if x == s {
			return true
		}
	}
	return false
}

func (g *c08gen) ptr() string {
	if g.r.Chance(1, 12) {
		return g.r.Pick([]string{"P1", "P2", "S1"})
	}
	return ""
}

func (g *c08gen) width(depth int) int {
	x := g.r.Intn(100)
	switch {
	case x < 3 && depth <= 1:
		return g.r.Range(8, 34)
	case x < 30:
		return 0
	case x < 55:
		return 1
	case x < 75:
		return 2
	case x < 88:
		return 3
	case x < 96:
		return 4
	}
	return g.r.Range(5, 7)
}

func (g *c08gen) tree(tag string, depth, maxDepth int, budget *int) *TNode {
	t := T(tag, g.value(tag), g.ptr())
	if depth == 0 {
		t.Value = g.r.Pick([]string{"", "", "root"})
	}
	if depth >= maxDepth || *budget <= 0 {
		return t
	}
	w := g.width(depth)
	if depth == 0 && w < 2 {
		w = g.r.Range(2, 6)
	}
	for i := 0; i < w && *budget > 0; i++ {
		*budget--
		var kt string
		switch {
		case g.r.Chance(1, 6):
			kt = g.r.Pick(c08anyTags)
		case depth == 0:
			kt = g.r.Pick(c08level1Tags)
		case c08contains(c08vitalTags, tag) || tag == "RESI" || tag == "EVEN" || tag == "CHR" || tag == "ADOP":
			kt = g.r.Pick(c08eventKidTags)
		default:
			kt = g.r.Pick(c08plainTags)
		}
		t.Kids = append(t.Kids, g.tree(kt, depth+1, maxDepth, budget))
	}
	return t
}

func (g *c08gen) root() *TNode {
	budget := g.r.Range(3, 40)
	md := g.r.Range(1, 4)
	if g.r.Chance(1, 20) {
		md = g.r.Range(5, 9)
	}
	return g.tree(g.r.Pick([]string{"ZROOT", "ZROOT", "ZROOT", "NOTE", "BIRT", "EVEN"}), 0, md, &budget)
}

func c08permute(r *Rand, t *TNode) *TNode {
	c := &TNode{t.Tag, t.Value, t.Ptr, nil}
	p := r.Perm(len(t.Kids))
	for _, i := range p {
		c.Kids = append(c.Kids, c08permute(r, t.Kids[i]))
	}
	return c
}

// c08isPlain: a parent whose Equals is SimpleNode.Equals (tag, value, pointer) and does not look at
// children
func c08isPlain(tag string) bool {
	switch tag {
	case "BIRT", "DEAT", "BURI", "BAPM", "RESI", "EVEN", "DATE", "_UID":
		return false
	}
	return true
}

func c08allNodes(t *TNode, acc *[]*TNode) {
	*acc = append(*acc, t)
	for _, k := range t.Kids {
		c08allNodes(k, acc)
	}
}

// c08insertLeaves adds k leaves with tags that occur nowhere else under random plain parents;
// returns the inserted leaves.
func (g *c08gen) insertLeaves(t *TNode, k int) []*TNode {
	var all, plain []*TNode
	c08allNodes(t, &all)
	for _, n := range all {
		if c08isPlain(n.Tag) {
			plain = append(plain, n)
		}
	}
	var ins []*TNode
	if len(plain) == 0 {
		return nil
	}
	for i := 0; i < k; i++ {
		p := plain[g.r.Intn(len(plain))]
		g.unique++
		leaf := T(fmt.Sprintf("_Q%d", g.unique), g.r.Pick([]string{"", "u", "v"}), "")
		pos := g.r.Intn(len(p.Kids) + 1)
		p.Kids = append(p.Kids, nil)
		copy(p.Kids[pos+1:], p.Kids[pos:])
		p.Kids[pos] = leaf
		ins = append(ins, leaf)
	}
	return ins
}

func (g *c08gen) edit(t *TNode) {
	var all []*TNode
	c08allNodes(t, &all)
	for i := g.r.Range(1, 3); i > 0; i-- {
		n := all[g.r.Intn(len(all))]
		switch g.r.Intn(3) {
		case 0:
			n.Value = g.value(n.Tag)
		case 1:
			if len(n.Kids) > 0 {
				j := g.r.Intn(len(n.Kids))
				n.Kids = append(n.Kids[:j:j], n.Kids[j+1:]...)
			}
		default:
			b := 3
			n.Kids = append(n.Kids, g.tree(g.r.Pick(c08anyTags), 2, 3, &b))
		}
	}
}

// c08wide: a root with 21..45 children, beyond the 20 up to which sort.SliceStable is a plain
// insertion sort. safe=true keeps every sortValue level either all-Yearer or all-non-Yearer, where
// isLessThan is a strict weak order; otherwise DATE / EVEN / RESI mix with plain tags of their level.
func (g *c08gen) wide(safe bool) *TNode {
	t := T("ZROOT", "", "")
	tags := []string{"NAME", "NOTE", "OCCU", "TITL", "BIRT", "EVEN", "RESI", "DEAT", "BURI", "ZZA", "SEX", "_UID"}
	if !safe {
		tags = append(tags, "DATE", "DATE", "CHR", "ADOP", "PLAC")
	}
	for n := g.r.Range(21, 45); n > 0; n-- {
		tag := g.r.Pick(tags)
		k := T(tag, g.value(tag), "")
		if tag == "EVEN" || tag == "RESI" || tag == "BIRT" {
			for q := g.r.Range(0, 2); q > 0; q-- {
				k.Kids = append(k.Kids, T("DATE", g.r.Pick(g.dates), ""))
			}
		}
		if g.r.Chance(1, 8) {
			b := 3
			k.Kids = append(k.Kids, g.tree(g.r.Pick(c08plainTags), 2, 3, &b))
		}
		t.Kids = append(t.Kids, k)
	}
	return t
}

// c08veryWide: 60..140 siblings (straddling 64 and 128, where a word-sized "used" set would run
// out), mostly distinct leaves, with a repeated node near the end; the right side is the same list
// with one of the repeats replaced (so exactly one node on each side has no counterpart although
// every left node Equals some right node), or a reordered copy (deep-equal). The siblings sit
// directly under the root or under a dateless EVEN / RESI, whose Equals is DeepEqualNodes of the
// children (EVEN) or of the PLAC children (RESI).
func (g *c08gen) veryWide() (l, r *TNode, kind string) {
	n := g.r.Range(60, 140)
	if g.r.Chance(1, 2) {
		n = []int{62, 63, 64, 65, 66, 70, 126, 127, 128, 129, 130}[g.r.Intn(11)]
	}
	holder := g.r.Pick([]string{"", "", "EVEN", "EVEN", "RESI"})
	leafTag := "NOTE"
	repTag := "OCCU"
	if holder == "RESI" {
		leafTag, repTag = "PLAC", "PLAC" // ResidenceNode.Equals compares the PLAC children only
	}
	var kids []*TNode
	for i := 0; i < n; i++ {
		kids = append(kids, T(leafTag, fmt.Sprintf("n%d", i), ""))
	}
	reps := g.r.Range(2, 3)
	pos := n // repeats near the end; sometimes a few distinct siblings follow them
	if g.r.Chance(1, 3) {
		pos = n - g.r.Range(1, 5)
	}
	var rep []*TNode
	for i := 0; i < reps; i++ {
		rep = append(rep, T(repTag, "farmer", ""))
	}
	kids = append(kids[:pos:pos], append(rep, kids[pos:]...)...)
	wrap := func(ks []*TNode) *TNode {
		root := T("ZROOT", "", "")
		if holder == "" {
			root.Kids = ks
			return root
		}
		root.Kids = []*TNode{T("NAME", "John /Smith/", ""), T(holder, "", "", ks...)}
		return root
	}
	clone := func(ks []*TNode) []*TNode {
		var out []*TNode
		for _, k := range ks {
			out = append(out, k.Clone())
		}
		return out
	}
	l = wrap(clone(kids))
	rk := clone(kids)
	switch g.r.Intn(4) {
	case 0: // deep-equal reordered copy
		kind = "reordered copy"
		p := g.r.Perm(len(rk))
		sh := make([]*TNode, len(rk))
		for i, j := range p {
			sh[i] = rk[j]
		}
		rk = sh
	case 1: // deep-equal copy with only the tail rotated (repeats stay beyond index 64)
		kind = "tail-rotated copy"
		k := g.r.Range(2, 6)
		if k < len(rk) {
			cut := len(rk) - k
			tail := append([]*TNode{}, rk[cut:]...)
			rk = append(rk[:cut:cut], append(tail[1:], tail[0])...)
		}
	default: // one repeat replaced
		kind = "one repeat replaced"
		rk[pos+g.r.Intn(reps)] = T(repTag, "miller", "")
		if g.r.Chance(1, 3) { // and the whole right list reordered
			kind = "one repeat replaced, reordered"
			p := g.r.Perm(len(rk))
			sh := make([]*TNode, len(rk))
			for i, j := range p {
				sh[i] = rk[j]
			}
			rk = sh
		}
	}
	r = wrap(rk)
	if g.r.Chance(1, 5) {
		l, r = r, l
		kind += ", sides swapped"
	}
	if holder != "" {
		kind += ", under dateless " + holder
	} else {
		kind += ", under the root"
	}
	return
}

// c08family: a FAM record with HUSB / WIFE / CHIL lines and, anywhere below, more of them and
// nested INDI / FAM nodes — the kinds that exist only inside a document (and for which
// flattenedNodeHeader has its own branch).
func (g *c08gen) family() *TNode {
	t := T("FAM", "", "F1")
	role := func() *TNode {
		tag := g.r.Pick([]string{"HUSB", "WIFE", "CHIL", "CHIL"})
		k := T(tag, g.r.Pick([]string{"@I1@", "@I2@", "@I3@", "@I9@", "x", ""}), "")
		if g.r.Chance(1, 3) {
			k.Kids = append(k.Kids, T(g.r.Pick([]string{"NOTE", "_FREL", "HUSB", "INDI", "PEDI"}), g.value(""), ""))
		}
		return k
	}
	for n := g.r.Range(1, 7); n > 0; n-- {
		switch g.r.Intn(6) {
		case 0, 1, 2:
			t.Kids = append(t.Kids, role())
		case 3:
			e := T(g.r.Pick([]string{"MARR", "DIV", "EVEN", "RESI"}), "", "")
			for q := g.r.Range(0, 2); q > 0; q-- {
				e.Kids = append(e.Kids, T(g.r.Pick([]string{"DATE", "PLAC", "CHIL"}), g.value("DATE"), ""))
			}
			t.Kids = append(t.Kids, e)
		case 4:
			in := T(g.r.Pick([]string{"INDI", "FAM"}), "", g.r.Pick([]string{"", "X1", "X2"}))
			if g.r.Bool() {
				in.Kids = append(in.Kids, role())
			}
			t.Kids = append(t.Kids, in)
		default:
			b := 4
			t.Kids = append(t.Kids, g.tree(g.r.Pick(c08level1Tags), 1, 3, &b))
		}
	}
	return t
}

// c08families decodes one document per side (three individuals and the generated FAM record) and
// compares the two FamilyNodes.
func c08families(c *Ctx, lt, rt *TNode, ops string) {
	mk := func(t *TNode) (gedcom.Node, map[string]int) {
		var sb strings.Builder
		sb.WriteString("0 @I1@ INDI\n1 NAME A /B/\n0 @I2@ INDI\n1 NAME C /D/\n0 @I3@ INDI\n")
		c08gedcomText(t, 0, &sb)
		doc, err := gedcom.NewDocumentFromString(sb.String())
		if err != nil {
			return nil, nil
		}
		for _, n := range doc.Nodes() {
			if n.Tag().Tag() == "FAM" {
				kinds := map[string]int{}
				var walk func(n gedcom.Node)
				walk = func(n gedcom.Node) {
					kinds[kindOf(n)]++
					for _, k := range n.Nodes() {
						walk(k)
					}
				}
				walk(n)
				return n, kinds
			}
		}
		return nil, nil
	}
	ln, lk := mk(lt)
	rn, _ := mk(rt)
	if ln == nil || rn == nil {
		c.Count("skipped: document stream did not decode")
		return
	}
	for _, k := range []string{"FamilyNode", "HusbandNode", "WifeNode", "ChildNode", "IndividualNode"} {
		if lk[k] > 0 {
			c.Count("family stream: left input holds a " + k)
		}
	}
	c08run(c, "family records of two documents", ln, rn, ops)
}

// ---------- reflexivity, decided from the input's syntax ----------

// c08constrainedDate: the DATE value starts with an about / before / after / between keyword (the
// values on which Date.Equals is deliberately not an equivalence: C07's known finding)
func c08constrainedDate(v string) bool {
	f := strings.Fields(strings.ToLower(v))
	if len(f) == 0 {
		return false
	}
	switch strings.TrimSuffix(f[0], ".") {
	case "abt", "about", "c", "ca", "cca", "circa", "bef", "before", "aft", "after", "bet", "between", "from":
		return true
	}
	return false
}

// c08dateKey: spelling-insensitive key of an unconstrained DATE value (case, runs of spaces, leading
// zeros); two values of the pool with different keys are different dates or different texts
func c08dateKey(v string) string {
	f := strings.Fields(strings.ToLower(v))
	for i, w := range f {
		t := strings.TrimLeft(w, "0")
		if t != "" && strings.Trim(t, "0123456789") == "" {
			f[i] = t
		}
	}
	return strings.Join(f, " ")
}

// c08syntaxPlain decides from the text of the tree alone that the known limitation (Equals not an
// equivalence) cannot be involved: no DATE value carries a constraint or a range, and on every
// level any two RESI nodes (any two EVEN nodes) that have DATE children have either the same set
// of dates or sets without a common date. Then Equals is an equivalence on every level, and the
// tree and any reordered copy of it must give an all-two-sided diff.
func c08syntaxPlain(t *TNode) bool {
	ok := true
	level := []*TNode{t}
	for len(level) > 0 && ok {
		var next []*TNode
		sets := map[string][]map[string]bool{}
		for _, n := range level {
			next = append(next, n.Kids...)
			if n.Tag == "DATE" && c08constrainedDate(n.Value) {
				ok = false
			}
			if n.Tag == "RESI" || n.Tag == "EVEN" {
				set := map[string]bool{}
				for _, k := range n.Kids {
					if k.Tag == "DATE" {
						set[c08dateKey(k.Value)] = true
					}
				}
				if len(set) > 0 {
					sets[n.Tag] = append(sets[n.Tag], set)
				}
			}
		}
		for _, ss := range sets {
			for i := range ss {
				for j := i + 1; j < len(ss); j++ {
					common, same := 0, len(ss[i]) == len(ss[j])
					for k := range ss[i] {
						if ss[j][k] {
							common++
						} else {
							same = false
						}
					}
					if common > 0 && !same {
						ok = false
					}
				}
			}
		}
		level = next
	}
	return ok
}

var c08selfSeen = map[string]bool{}

// c08reflexive is the oracle for "a node equals itself" and "a tree and its copy give an
// all-two-sided diff", independent of the model and of what Equals says about the known finding:
// every node must Equal itself; the tree compared with an identical copy and with a reordered copy
// must be all-two-sided whenever c08syntaxPlain holds (otherwise a failure is the known finding).
func c08reflexive(c *Ctx, stream string, root gedcom.Node, r *Rand) {
	t := abstractNode(root)
	enc := encTree(t)
	if c08selfSeen[enc] {
		return
	}
	c08selfSeen[enc] = true
	text := gedcom.GEDCOMString(root, 0)
	in := map[string]string{"stream": stream, "tree": text}
	var walk func(n gedcom.Node, d int)
	walk = func(n gedcom.Node, d int) {
		if !c08equals(n, n) {
			c.Oracle("", "a node does not Equal itself", in, "Equals(self) = false for: "+gedcom.GEDCOMLine(n, d), "true")
		}
		for _, k := range n.Nodes() {
			walk(k, d+1)
		}
	}
	walk(root, 0)
	plain := c08syntaxPlain(t)
	if plain {
		c.Count("self-copy: syntax excludes the known finding")
	} else {
		c.Count("self-copy: constrained dates or overlapping RESI/EVEN date sets present")
	}
	for _, variant := range []string{"an identical copy", "a reordered copy"} {
		ct := t.Clone()
		if variant == "a reordered copy" {
			ct = c08permute(r, t)
		}
		a, e1 := newPlain(t) // fresh objects on both sides: the generated tree itself is left alone
		b, e2 := newPlain(ct)
		if e1 != nil || e2 != nil {
			c.Count("self-copy skipped: tree needs a document")
			return
		}
		all, out := func() (ok bool, s string) {
			defer func() {
				if rec := recover(); rec != nil {
					ok, s = false, fmt.Sprintf("panic: %v", rec)
				}
			}()
			d := gedcom.CompareNodes(a, b)
			return d.IsDeepEqual(), d.String()
		}()
		if !all {
			key := ""
			if !plain {
				key = "nontransitive-siblings"
			}
			c.Oracle(key, "a tree and "+variant+" of it do not give an all-two-sided diff", in, out, "IsDeepEqual() = true")
		}
	}
}

// c08oddDates: RESI / EVEN nodes whose DATE children are unparsable, phrases, empty or mixed with
// parsable ones; the date sets of different nodes are taken from groups without common members
// (occasionally from overlapping ones)
func (g *c08gen) oddDates() *TNode {
	groups := [][]string{{"unknown"}, {"(the winter after the flood)"}, {""}, {"31 FEB 1900", "sometime"},
		{"1900"}, {"(about the war)", "3 Sep 1943"}, {"Sep 1943", "sometime in spring"}}
	if g.r.Chance(1, 6) {
		groups = append(groups, []string{"unknown", "1850"}, []string{"1900", "(unknown)"})
	}
	t := T("ZROOT", "", "")
	for n := g.r.Range(1, 5); n > 0; n-- {
		e := T(g.r.Pick([]string{"RESI", "EVEN", "RESI", "EVEN", "BIRT"}), "", "")
		if e.Tag == "EVEN" && g.r.Chance(1, 3) {
			e.Value = "Graduation"
		}
		grp := groups[g.r.Intn(len(groups))]
		for _, v := range grp {
			if len(grp) == 1 || g.r.Chance(4, 5) {
				e.Kids = append(e.Kids, T("DATE", v, ""))
			}
		}
		if g.r.Chance(1, 2) {
			e.Kids = append(e.Kids, T("PLAC", g.r.Pick(c08values["PLAC"]), ""))
		}
		if g.r.Chance(1, 4) {
			e.Kids = append(e.Kids, T("NOTE", g.r.Pick(c08values[""]), ""))
		}
		pos := g.r.Intn(len(t.Kids) + 1)
		t.Kids = append(t.Kids[:pos:pos], append([]*TNode{e}, t.Kids[pos:]...)...)
	}
	if g.r.Chance(1, 3) { // one level further down
		t = T("ZROOT", "", "", T("NAME", "John /Smith/", ""), T("NOTE", "x y", "", t.Kids...))
	}
	return t
}

// ---------- fixed corpus of boundary shapes (runs first in every tier) ----------

var c08sizes = []int{8, 9, 16, 17, 32, 33, 64, 65, 66, 67, 100, 128, 129, 130, 131, 256, 257, 258}

func c08reverse(ks []*TNode) []*TNode {
	out := make([]*TNode, len(ks))
	for i, k := range ks {
		out[len(ks)-1-i] = k.Clone()
	}
	return out
}

// c08corpus: sizes at and just past 8/16/32/64/100/128/256 in every size dimension of a diff —
// children per node (with a repeated node at the last two indices, i.e. at index >= 64 / 128 / 256
// for the sizes just past them), nesting depth, number of Equal siblings merged into one entry, and
// the length of the flattened child list that Sort reads Years() from — each compared with a
// reordered copy and with a copy in which one node differs, with String / Sort / IsDeepEqual;
// awkward bytes in values and tags; one object at two positions; a flattened result fed back.
func c08corpus(c *Ctx) {
	under := func(holder string, ks []*TNode) *TNode {
		if holder == "" {
			return T("ZROOT", "", "", ks...)
		}
		return T("ZROOT", "", "", T("NAME", "John /Smith/", ""), T(holder, "", "", ks...))
	}
	// (a) children per node
	for _, n := range c08sizes {
		var ks []*TNode
		for i := 0; i < n-2; i++ {
			ks = append(ks, T("NOTE", fmt.Sprintf("n%d", i), ""))
		}
		ks = append(ks, T("OCCU", "farmer", ""), T("OCCU", "farmer", ""))
		replaced := c08reverse(c08reverse(ks))
		replaced[n-1] = T("OCCU", "miller", "")
		for _, holder := range []string{"", "EVEN"} {
			if holder != "" && n > 131 {
				continue
			}
			ops := []string{"", "O"}
			if n > 131 {
				ops = []string{"SO"}
			}
			for _, o := range ops {
				c08case(c, "corpus: children per node", under(holder, c08reverse(c08reverse(ks))), under(holder, c08reverse(ks)), o, 0)
			}
			c08case(c, "corpus: children per node", under(holder, c08reverse(c08reverse(ks))), under(holder, replaced), "E", 0)
			c08case(c, "corpus: children per node", under(holder, replaced), under(holder, c08reverse(ks)), "S", 0)
		}
		c.Count(fmt.Sprintf("corpus: %d children, repeats at index %d and %d", n, n-2, n-1))
	}
	// (b) nesting depth
	for _, depth := range []int{8, 9, 16, 17, 32, 33, 64, 65, 100, 128, 129, 256, 257} {
		chain := func(last string) *TNode {
			leaf := T("NOTE", last, "", T("OCCU", "a", ""), T("OCCU", "b", ""))
			for i := depth - 2; i >= 0; i-- {
				leaf = T([]string{"NOTE", "BIRT", "TITL", "OCCU"}[i%4], fmt.Sprintf("d%d", i%7), "", leaf)
			}
			return leaf
		}
		c08case(c, "corpus: nesting depth", chain("x"), chain("x"), "SO", 0)
		c08case(c, "corpus: nesting depth", chain("x"), chain("y"), "OE", 0)
		c.Count(fmt.Sprintf("corpus: depth %d", depth))
	}
	// (c) Equal siblings merged into one entry; (d) length of the flattened list Sort reads dates from
	for _, k := range []int{8, 9, 16, 17, 32, 33, 64, 65, 100, 128, 129} {
		var births, events []*TNode
		for i := 0; i < k; i++ {
			births = append(births, T("BIRT", "", "", T("NOTE", fmt.Sprintf("b%d", i), "")))
			events = append(events, T("EVEN", "", "", T("DATE", "1900", ""), T("DATE", fmt.Sprint(1000+i), "")))
		}
		extra := []*TNode{T("RESI", "", "", T("DATE", "1850", "")), T("EVEN", "", "", T("DATE", "3 Sep 1943", "")), T("NAME", "John /Smith/", "")}
		for fi, fam := range [][]*TNode{births, events} {
			if fi == 1 && k > 65 { // DATE equality is the expensive part of the model: dated events up to 65
				continue
			}
			l := T("ZROOT", "", "", append(c08reverse(c08reverse(fam)), c08reverse(extra)...)...)
			r := T("ZROOT", "", "", append(c08reverse(extra), c08reverse(fam)...)...)
			c08case(c, "corpus: Equal siblings", l, r, "O", 0)
			r2 := r.Clone()
			last := r2.Kids[len(r2.Kids)-1]
			last.Kids[len(last.Kids)-1].Value = "1"
			c08case(c, "corpus: Equal siblings", l.Clone(), r2, "SOE", 0)
		}
		c.Count(fmt.Sprintf("corpus: %d Equal siblings in one entry / flattened list of %d dates", k, k+1))
	}
	// (e) awkward bytes in values and tags
	vals := []string{"@", "/", ",", "@@", "//", " ", "0", "00", "0000", "\xc3@", "\xe2/", "\xf0,", "\xff", "\xc3\xa9\xc3\xa8", "\xe6\x97\xa5\xe6\x9c\xac\xe8\xaa\x9e",
		"x\xc2\xa0", "x\xe2\x80\x83", "x\xc2", "\xe2\x80", "a\tb", "@I1@", "/Smith/", "1 NOTE x", "-", "\x80\x80"}
	tags := []string{"NOTE", "DATE", "PLAC", "NAME", "_\xc3\x89", "\xff", "0", "00", "A_B", "EVEN", "RESI", "_UID", "SEX"}
	for i, v := range vals {
		mk := func(order []int) *TNode {
			t := T("ZROOT", v, "")
			for _, j := range order {
				tag := tags[(i+j)%len(tags)]
				k := T(tag, vals[(i+j)%len(vals)], "")
				if j%2 == 0 {
					k.Kids = append(k.Kids, T(tags[(i+j+1)%len(tags)], v, ""), T("DATE", vals[(i+2*j)%len(vals)], ""))
				}
				t.Kids = append(t.Kids, k)
			}
			return t
		}
		c08case(c, "corpus: awkward bytes", mk([]int{0, 1, 2, 3, 4, 5}), mk([]int{5, 3, 4, 1, 0, 2}), "SOS", 0)
		c08case(c, "corpus: awkward bytes", mk([]int{0, 1, 2, 3}), mk([]int{2, 7, 0, 9}), "OSE", 0)
	}
	// (f) one object at two positions among siblings (left), the right input a fresh or a sharing tree;
	// (g) the flattened result of a diff fed back as an input
	for _, k := range []int{2, 3, 9, 65} {
		x := gedcom.NewNode(gedcom.TagBirth, "", "", gedcom.NewNode(gedcom.TagDate, "3 Sep 1943", ""), gedcom.NewNode(gedcom.TagPlace, "England", ""))
		y := gedcom.NewNode(gedcom.TagNote, "a", "")
		ln := gedcom.NewNode(gedcom.TagFromString("ZROOT"), "", "")
		rn := gedcom.NewNode(gedcom.TagFromString("ZROOT"), "", "")
		for i := 0; i < k; i++ {
			ln.AddNode(x)
			if i%2 == 0 {
				ln.AddNode(y)
			}
			ln.AddNode(gedcom.NewNode(gedcom.TagFromString("OCCU"), fmt.Sprint(i), ""))
		}
		rn.AddNode(y)
		rn.AddNode(gedcom.NewNode(gedcom.TagBirth, "", "", gedcom.NewNode(gedcom.TagPlace, "England", "")))
		rn.AddNode(x)
		c08run(c, "corpus: one object at several positions", ln, rn, "SOE")
		c08run(c, "corpus: one object at several positions", rn, ln, "OS")
		flat := func() (n gedcom.Node) {
			defer func() {
				if recover() != nil {
					n = nil
				}
			}()
			return gedcom.CompareNodes(ln, rn).LeftNode()
		}()
		if flat != nil {
			c08run(c, "corpus: flattened result fed back", flat, rn, "SO")
			c08run(c, "corpus: flattened result fed back", ln, flat, "E")
		}
	}
}

// ---------- inputs that share node objects; inputs edited between two diffs ----------

// c08build builds real nodes and remembers which object was built for which abstract node
func c08build(t *TNode, m map[*TNode]gedcom.Node) (n gedcom.Node, err error) {
	defer func() {
		if r := recover(); r != nil {
			err = fmt.Errorf("panic: %v", r)
		}
	}()
	n = gedcom.NewNode(gedcom.TagFromString(t.Tag), t.Value, t.Ptr)
	for _, k := range t.Kids {
		kn, e := c08build(k, m)
		if e != nil {
			return nil, e
		}
		n.AddNode(kn)
	}
	m[t] = n
	return n, nil
}

// c08shared: the right input is assembled from node objects of the left input (shared by
// reference), fresh copies and new nodes. The left input has Equal siblings with different
// children (two BIRT, two SOUR @S1@ citations, two RESI with the same date, two equal NOTEs), which
// the left pass merges into one entry — so "the entries below a shared node are that node's
// children" is false.
func c08shared(c *Ctx, g *c08gen, ops string) {
	pairs := [][2]*TNode{
		{T("BIRT", "", "", T("DATE", "3 Sep 1943", "")), T("BIRT", "", "", T("PLAC", "England", ""))},
		{T("SOUR", "@S1@", "", T("PAGE", "12", "")), T("SOUR", "@S1@", "", T("PAGE", "14", ""), T("NOTE", "a", ""))},
		{T("RESI", "", "", T("DATE", "1900", ""), T("PLAC", "Paris", "")), T("RESI", "", "", T("DATE", "1900", ""), T("NOTE", "b", ""))},
		{T("NOTE", "a", "", T("ZZA", "1", "")), T("NOTE", "a", "", T("ZZB", "2", ""), T("ZZA", "1", "", T("TITL", "x y", "")))},
		{T("DEAT", "", ""), T("DEAT", "Y", "", T("DATE", "1901", ""), T("PLAC", "England", ""))},
	}
	lt := T("ZROOT", "", "", T("NAME", "John /Smith/", ""))
	for _, p := range pairs {
		if g.r.Chance(3, 5) {
			a, b := p[0].Clone(), p[1].Clone()
			if g.r.Bool() {
				a, b = b, a
			}
			lt.Kids = append(lt.Kids, a)
			if g.r.Chance(1, 3) {
				bd := 4
				lt.Kids = append(lt.Kids, g.tree(g.r.Pick(c08level1Tags), 1, 3, &bd))
			}
			lt.Kids = append(lt.Kids, b)
		}
	}
	if len(lt.Kids) < 3 {
		lt.Kids = append(lt.Kids, pairs[0][0].Clone(), pairs[0][1].Clone())
	}
	m := map[*TNode]gedcom.Node{}
	ln, err := c08build(lt, m)
	if err != nil {
		c.Count("skipped: tree cannot be built standalone")
		return
	}
	rn := gedcom.NewNode(gedcom.TagFromString(lt.Tag), lt.Value, lt.Ptr)
	shared := 0
	for _, i := range g.r.Perm(len(lt.Kids)) {
		k := lt.Kids[i]
		switch x := g.r.Intn(10); {
		case x < 5: // the very same object
			rn.AddNode(m[k])
			shared++
		case x < 7: // a fresh copy
			if cp, e := c08build(k.Clone(), map[*TNode]gedcom.Node{}); e == nil {
				rn.AddNode(cp)
			}
		case x < 8: // a new header over the same child objects
			h := gedcom.NewNode(gedcom.TagFromString(k.Tag), k.Value, k.Ptr)
			for _, kk := range k.Kids {
				h.AddNode(m[kk])
				shared++
			}
			rn.AddNode(h)
		}
	}
	if shared == 0 {
		rn.AddNode(m[lt.Kids[len(lt.Kids)-1]])
	}
	c08run(c, "inputs sharing node objects", ln, rn, ops)
}

// c08history: CompareNodes, then children of RESI / EVEN / BIRT nodes are edited through the API
// (DeleteNode, AddNode, SetNodes), then CompareNodes again. The second comparison is tied to the
// model on the trees as they are now, and must be the comparison of freshly built trees with the
// same content: what Equals / Dates() remembered about a node before the edit must not show.
func c08history(c *Ctx, g *c08gen) {
	dates := []string{"1 Jan 1900", "5 Mar 1910", "1900", "Sep 1943", "3 Sep 1943", "unknown", "(about the war)"}
	lt := T("ZROOT", "", "", T("NAME", "John /Smith/", ""))
	for n := g.r.Range(1, 4); n > 0; n-- {
		e := T(g.r.Pick([]string{"RESI", "RESI", "EVEN", "BIRT", "EVEN"}), "", "")
		for q := g.r.Range(1, 2); q > 0; q-- {
			e.Kids = append(e.Kids, T("DATE", g.r.Pick(dates), ""))
		}
		if g.r.Chance(2, 3) {
			e.Kids = append(e.Kids, T("PLAC", g.r.Pick([]string{"Leeds", "Paris", "England"}), ""))
		}
		if g.r.Chance(1, 3) {
			e.Kids = append(e.Kids, T("NOTE", g.r.Pick(c08values[""]), ""))
		}
		lt.Kids = append(lt.Kids, e)
	}
	rt := c08permute(g.r, lt)
	// the right copy starts with some dates / places changed; the edit puts the left's values back
	type fix struct {
		parent *TNode
		child  *TNode
		value  string
	}
	var fixes []fix
	for _, e := range rt.Kids {
		for _, k := range e.Kids {
			if (k.Tag == "DATE" || k.Tag == "PLAC") && g.r.Chance(1, 2) {
				orig := k.Value
				if k.Tag == "DATE" {
					k.Value = g.r.Pick(dates)
				} else {
					k.Value = g.r.Pick([]string{"Leeds", "Paris", "York"})
				}
				if k.Value != orig {
					fixes = append(fixes, fix{e, k, orig})
				}
			}
		}
	}
	lm, rm := map[*TNode]gedcom.Node{}, map[*TNode]gedcom.Node{}
	ln, e1 := c08build(lt, lm)
	rn, e2 := c08build(rt, rm)
	if e1 != nil || e2 != nil {
		return
	}
	c08run(c, "edit between two diffs (before the edit)", ln, rn, g.r.Pick([]string{"", "C", "O", "SE"}))
	// what a caller does between two diffs: read the dates, correct them
	var script []string
	for _, s := range []*c08side{c08number(ln), c08number(rn)} {
		for _, n := range s.nodes {
			gedcom.Dates(n)
			gedcom.Dates(n)
		}
	}
	for _, f := range fixes {
		p, k := rm[f.parent], rm[f.child]
		switch g.r.Intn(3) {
		case 0, 1: // DeleteNode + AddNode
			p.DeleteNode(k)
			p.AddNode(gedcom.NewNode(gedcom.TagFromString(f.child.Tag), f.value, ""))
			script = append(script, fmt.Sprintf("right %s: DeleteNode(%s %s); AddNode(%s %s)", f.parent.Tag, f.child.Tag, f.child.Value, f.child.Tag, f.value))
		default: // SetNodes with the child replaced
			var ns gedcom.Nodes
			for _, x := range p.Nodes() {
				if x == k {
					ns = append(ns, gedcom.NewNode(gedcom.TagFromString(f.child.Tag), f.value, ""))
				} else {
					ns = append(ns, x)
				}
			}
			p.SetNodes(ns)
			script = append(script, fmt.Sprintf("right %s: SetNodes(… %s %s -> %s …)", f.parent.Tag, f.child.Tag, f.child.Value, f.value))
		}
	}
	// an earlier operation that failed: Tag() of an empty diff dereferences nil; recovered
	if g.r.Chance(1, 4) {
		func() {
			defer func() { recover() }()
			gedcom.CompareNodes(nil, nil).Tag()
		}()
		script = append(script, "CompareNodes(nil, nil).Tag() panicked and was recovered")
	}
	// an edit two levels below a node whose Equals reads its descendants: a grandchild of an undated
	// EVEN (Equals = DeepEqualNodes of the children) or of a dateless RESI (places)
	if g.r.Chance(1, 2) {
		for _, side := range []struct {
			root gedcom.Node
			name string
		}{{ln, "left"}, {rn, "right"}} {
			if side.name == "right" && g.r.Bool() {
				continue
			}
			u := gedcom.NewNode(gedcom.TagFromString(g.r.Pick([]string{"EVEN", "RESI"})), "", "",
				gedcom.NewNode(gedcom.TagPlace, "Leeds", "", gedcom.NewNode(gedcom.TagNote, "old", "")))
			side.root.AddNode(u)
			gedcom.Dates(u)
			gedcom.Dates(u)
			c08equals(u, u)
			c08equals(u, u)
			plac := u.Nodes()[0]
			plac.DeleteNode(plac.Nodes()[0])
			v := g.r.Pick([]string{"new", "old"})
			plac.AddNode(gedcom.NewNode(gedcom.TagNote, v, ""))
			script = append(script, fmt.Sprintf("%s: AddNode(%s{PLAC Leeds{NOTE old}}), looked up twice, then grandchild NOTE old -> %s", side.name, u.Tag().Tag(), v))
		}
	}
	// the caller reorders the slice returned by Nodes() in place (no API call tells the node)
	if g.r.Chance(1, 3) && len(lt.Kids) > 1 {
		p := lm[lt.Kids[1]]
		ns := p.Nodes()
		for i, j := 0, len(ns)-1; i < j; i, j = i+1, j-1 {
			ns[i], ns[j] = ns[j], ns[i]
		}
		script = append(script, fmt.Sprintf("left %s: the slice returned by Nodes() reversed in place", lt.Kids[1].Tag))
	}
	// and some edits that make the sides differ: a date of a left event changed or removed
	if g.r.Chance(1, 2) && len(lt.Kids) > 1 {
		e := lt.Kids[1+g.r.Intn(len(lt.Kids)-1)]
		for _, k := range e.Kids {
			if k.Tag == "DATE" {
				p := lm[e]
				p.DeleteNode(lm[k])
				script = append(script, fmt.Sprintf("left %s: DeleteNode(DATE %s)", e.Tag, k.Value))
				if g.r.Bool() {
					v := g.r.Pick(dates)
					p.AddNode(gedcom.NewNode(gedcom.TagDate, v, ""))
					script = append(script, fmt.Sprintf("left %s: AddNode(DATE %s)", e.Tag, v))
				}
				break
			}
		}
	}
	c.Count(fmt.Sprintf("history: %d API edits between the diffs", len(script)))
	// the diff of the edited objects against the diff of freshly built trees with the same content
	cur := func() (s string, deep bool) {
		defer func() {
			if r := recover(); r != nil {
				s = fmt.Sprintf("panic: %v", r)
			}
		}()
		d := gedcom.CompareNodes(ln, rn)
		return d.String(), d.IsDeepEqual()
	}
	got, gotDeep := cur()
	fl, e3 := newPlain(abstractNode(ln))
	fr, e4 := newPlain(abstractNode(rn))
	if e3 == nil && e4 == nil {
		fd := gedcom.CompareNodes(fl, fr)
		if want := fd.String(); want != got || fd.IsDeepEqual() != gotDeep {
			c.Oracle("", "after editing a compared tree through the API, CompareNodes is not the comparison of the trees as they are now",
				map[string]interface{}{"stream": "edit between two diffs", "left now": gedcom.GEDCOMString(ln, 0), "right now": gedcom.GEDCOMString(rn, 0),
					"left before": c08gedcom(lt), "right before": c08gedcom(rt), "edits": script},
				got, "the diff of freshly built trees with the same content:\n"+want)
		}
	}
	c08run(c, "edit between two diffs (after the edit)", ln, rn, g.randOps())
}

// ---------- running the implementation ----------

type c08side struct {
	root  gedcom.Node
	ids   map[gedcom.Node]int // pointer identity → preorder number
	depth map[gedcom.Node]int
	nodes []gedcom.Node // preorder
	enc0  string
}

func c08number(root gedcom.Node) *c08side {
	s := &c08side{root: root, ids: map[gedcom.Node]int{}, depth: map[gedcom.Node]int{}}
	var walk func(n gedcom.Node, d int)
	walk = func(n gedcom.Node, d int) {
		if _, seen := s.ids[n]; !seen { // an object that occurs twice is named after its first occurrence
			s.ids[n] = len(s.nodes)
		}
		s.depth[n] = d
		s.nodes = append(s.nodes, n)
		for _, k := range n.Nodes() {
			walk(k, d+1)
		}
	}
	walk(root, 0)
	s.enc0 = encTree(abstractNode(root))
	return s
}

// c08bounded is a preorder walk that gives up after limit nodes: in the unrepaired code a flattened
// node is appended to its own parent again, the tree becomes a DAG and an unbounded walk explodes.
// It returns the wire encoding and a readable listing; ok=false when the limit was hit.
func c08bounded(root gedcom.Node, limit int) (enc string, text string, ok bool) {
	var eb, tb strings.Builder
	count := 0
	ok = true
	var walk func(n gedcom.Node, d int)
	walk = func(n gedcom.Node, d int) {
		if !ok {
			return
		}
		count++
		if count > limit {
			ok = false
			tb.WriteString("... (more than " + fmt.Sprint(limit) + " nodes)\n")
			return
		}
		kids := n.Nodes()
		fmt.Fprintf(&eb, " %s %s %s %d", hexs(n.Tag().Tag()), hexs(n.Value()), hexs(n.Pointer()), len(kids))
		tb.WriteString(gedcom.GEDCOMLine(n, d) + "\n")
		for _, k := range kids {
			walk(k, d+1)
		}
	}
	walk(root, 0)
	return strings.TrimPrefix(eb.String(), " "), tb.String(), ok
}

func (s *c08side) changed() bool {
	enc, _, ok := c08bounded(s.root, 2*len(s.nodes)+8)
	return !ok || enc != s.enc0
}

// c08slot names the node an entry holds by identity. The two inputs may share node objects (nothing
// in the API copies a node that is added to a second parent), so the node of the Left slot is looked
// up in the left input first and the node of the Right slot in the right input first: a shared
// node is "l<i>" on the left and "r<j>" on the right, a node of the wrong input keeps its true name.
func c08slot(n gedcom.Node, own, other *c08side, ownName, otherName string) string {
	if gedcom.IsNil(n) {
		return "-"
	}
	if i, ok := own.ids[n]; ok {
		return fmt.Sprintf("%s%d", ownName, i)
	}
	if i, ok := other.ids[n]; ok {
		return fmt.Sprintf("%s%d", otherName, i)
	}
	return "?"
}

func c08dump(d *gedcom.NodeDiff, l, r *c08side) string {
	var parts []string
	var walk func(e *gedcom.NodeDiff, depth int)
	walk = func(e *gedcom.NodeDiff, depth int) {
		parts = append(parts, fmt.Sprintf("%d:%s:%s", depth, c08slot(e.Left, l, r, "l", "r"), c08slot(e.Right, r, l, "r", "l")))
		for _, c := range e.Children {
			walk(c, depth+1)
		}
	}
	walk(d, 0)
	return strings.Join(parts, " ")
}

type c08input struct {
	Stream string `json:"stream"`
	Ops    string `json:"ops"`
	Left   string `json:"left"`
	Right  string `json:"right"`
	Req    string `json:"request"`
}

func c08gedcom(t *TNode) string {
	n, err := newPlain(t)
	if err != nil {
		return err.Error()
	}
	return gedcom.GEDCOMString(n, 0)
}

// c08equals is Equals under recover (a panic counts as "not equal" for the oracle's search)
func c08equals(a, b gedcom.Node) (eq bool) {
	defer func() {
		if recover() != nil {
			eq = false
		}
	}()
	return a.Equals(b)
}

// c08transitive reports whether Equals is symmetric and transitive on the nodes of each depth of
// both inputs (the guard of deepEqual_all_two_sided; false = matcher of the known finding)
func c08transitive(l, r *c08side) bool {
	byDepth := map[int][]gedcom.Node{}
	for _, s := range []*c08side{l, r} {
		for _, n := range s.nodes {
			byDepth[s.depth[n]] = append(byDepth[s.depth[n]], n)
		}
	}
	for _, ns := range byDepth {
		m := len(ns)
		eq := make([][]bool, m)
		for i := range ns {
			eq[i] = make([]bool, m)
			for j := range ns {
				eq[i][j] = c08equals(ns[i], ns[j])
			}
		}
		for i := 0; i < m; i++ {
			if !eq[i][i] {
				return false
			}
			for j := 0; j < m; j++ {
				if eq[i][j] != eq[j][i] {
					return false
				}
				if !eq[i][j] {
					continue
				}
				for k := 0; k < m; k++ {
					if eq[j][k] && !eq[i][k] {
						return false
					}
				}
			}
		}
	}
	return true
}

// c08oracle checks the accounting clauses of the property on a diff of the real implementation.
func c08oracle(c *Ctx, in c08input, when string, d *gedcom.NodeDiff, l, r *c08side, stats map[string]int) {
	type ent struct {
		e     *gedcom.NodeDiff
		depth int
	}
	var ents []ent
	var walk func(e *gedcom.NodeDiff, depth int)
	walk = func(e *gedcom.NodeDiff, depth int) {
		ents = append(ents, ent{e, depth})
		for _, ch := range e.Children {
			walk(ch, depth+1)
		}
	}
	walk(d, 0)
	fail := func(what, obs, exp string) {
		c.Oracle("", what+" ("+when+")", in, obs, exp)
	}
	// provenance + never both absent + two-sided only when both inputs hold such a node
	for _, x := range ents {
		ln, rn := gedcom.IsNil(x.e.Left), gedcom.IsNil(x.e.Right)
		if ln && rn {
			fail("a diff entry has neither a left nor a right node", fmt.Sprintf("entry at depth %d", x.depth), "at least one side")
		}
		if !ln {
			if dd, ok := l.depth[x.e.Left]; !ok || dd != x.depth {
				fail("the left node of an entry is not a node of the left input at that depth",
					fmt.Sprintf("depth %d: %s", x.depth, gedcom.GEDCOMLine(x.e.Left, x.depth)), "a left input node of depth "+fmt.Sprint(x.depth))
			}
		}
		if !rn {
			if dd, ok := r.depth[x.e.Right]; !ok || dd != x.depth {
				fail("the right node of an entry is not a node of the right input at that depth",
					fmt.Sprintf("depth %d: %s", x.depth, gedcom.GEDCOMLine(x.e.Right, x.depth)), "a right input node of depth "+fmt.Sprint(x.depth))
			}
		}
		switch {
		case !ln && !rn:
			stats["two-sided"]++
			if x.depth > 0 && !c08equals(x.e.Left, x.e.Right) {
				fail("an entry is two-sided although its left node does not equal its right node",
					gedcom.GEDCOMLine(x.e.Left, x.depth)+" | "+gedcom.GEDCOMLine(x.e.Right, x.depth), "Left.Equals(Right)")
			}
		case !ln:
			stats["left-only"]++
		case !rn:
			stats["right-only"]++
		}
	}
	// coverage: every input node is represented at its depth by an entry holding it or a node equal to it
	holds := func(n gedcom.Node, depth int) bool {
		for _, x := range ents {
			if x.depth != depth {
				continue
			}
			for _, h := range []gedcom.Node{x.e.Left, x.e.Right} {
				if !gedcom.IsNil(h) && (h == n || c08equals(h, n)) {
					return true
				}
			}
		}
		return false
	}
	for si, s := range []*c08side{l, r} {
		for _, n := range s.nodes {
			if !holds(n, s.depth[n]) {
				fail("an input node is not represented by any entry at its depth",
					fmt.Sprintf("%s node %d: %s", []string{"left", "right"}[si], s.ids[n], gedcom.GEDCOMLine(n, s.depth[n])),
					"an entry holding the node or a node that Equals it")
			}
		}
	}
	// one-sided: a node with no counterpart on the other side (and no equal on its own side) has its
	// own one-sided entry
	related := func(a, b gedcom.Node) bool { return c08equals(a, b) || c08equals(b, a) }
	for si, s := range []*c08side{l, r} {
		o := r
		if si == 1 {
			o = l
		}
		for _, n := range s.nodes {
			dep := s.depth[n]
			if dep == 0 {
				continue
			}
			alone := true
			for _, m := range o.nodes {
				if o.depth[m] == dep && related(n, m) {
					alone = false
					break
				}
			}
			if alone {
				for _, m := range s.nodes {
					if m != n && s.depth[m] == dep && related(n, m) {
						alone = false
						break
					}
				}
			}
			if !alone {
				continue
			}
			stats["alone"]++
			found := false
			for _, x := range ents {
				if x.depth != dep {
					continue
				}
				if si == 0 && x.e.Left == n && gedcom.IsNil(x.e.Right) {
					found = true
				}
				if si == 1 && x.e.Right == n && gedcom.IsNil(x.e.Left) {
					found = true
				}
			}
			if !found {
				fail("a node present on one side only does not have a one-sided entry",
					fmt.Sprintf("%s node %d: %s", []string{"left", "right"}[si], s.ids[n], gedcom.GEDCOMLine(n, dep)),
					"an entry with this node on its side and nothing on the other")
			}
		}
	}
}

// c08owed: a pair whose inputs are DeepEqual while the diff is not all-two-sided, waiting for the
// model's verdict on the guard
type c08owed struct {
	in         c08input
	diff       string
	transitive bool // the Go-side matcher of the known finding: Equals is an equivalence on every level
}

var c08pending = map[string]c08owed{}

// c08compare is the correspondence comparison. The model's first token is its verdict on the guard
// of deepEqual_all_two_sided (g), DeepEqual (d) and IsDeepEqual (a); the implementation prints its
// own three bits in the same place, so they are tied like everything else. All-two-sidedness is owed
// exactly when the *model* says g=1 (the theorem's hypothesis); with g=0 the failure is the known
// finding if the Go-side matcher agrees. A Sort the model marks "~" (more than 20 entries compared
// by a relation that is not a strict weak order: Go's block merge and the model's insertion sort may
// differ) makes the case inconclusive.
func c08compare(c *Ctx) func(req, impl, model string) bool {
	return func(req, impl, model string) bool {
		if strings.Contains(model, " ; ~ [") {
			c.Count("inconclusive: Sort of more than 20 entries by a non-strict-weak order")
			delete(c08pending, req)
			return true
		}
		if strings.HasPrefix(model, "g=1 d=1") {
			c.Count("model: DeepEqual and guard hold, all-two-sided diff owed (deepEqual_all_two_sided_checked applies)")
		}
		if p, ok := c08pending[req]; ok {
			delete(c08pending, req)
			if strings.HasPrefix(model, "g=1") {
				c.Fail("oracle", "", "the inputs are DeepEqual and Equals is an equivalence on every level (model's guard), but the diff is not all-two-sided",
					p.in, p.diff, "IsDeepEqual() = true")
			} else {
				key := ""
				if !p.transitive {
					key = "nontransitive-siblings"
				}
				c.Fail("oracle", key, "the inputs are DeepEqual but the diff is not all-two-sided", p.in, p.diff, "IsDeepEqual() = true")
			}
		}
		return impl == model
	}
}

var c08opNames = map[byte]string{'C': "CompareNodes", 'S': "String", 'E': "IsDeepEqual", 'O': "Sort", 'T': "Tag"}

// c08case runs one pair through the real code: correspondence observation + oracle.
func c08case(c *Ctx, stream string, lt, rt *TNode, ops string, inserted int) {
	ln, err1 := newPlain(lt)
	rn, err2 := newPlain(rt)
	if err1 != nil || err2 != nil {
		c.Count("skipped: tree cannot be built standalone")
		return
	}
	c08run(c, stream, ln, rn, ops)
}

// c08gedcomText writes a tree as GEDCOM lines (for the stream that goes through the decoder)
func c08gedcomText(t *TNode, level int, sb *strings.Builder) {
	sb.WriteString(fmt.Sprint(level))
	if t.Ptr != "" {
		sb.WriteString(" @" + t.Ptr + "@")
	}
	sb.WriteString(" " + t.Tag)
	if t.Value != "" {
		sb.WriteString(" " + t.Value)
	}
	sb.WriteString("\n")
	for _, k := range t.Kids {
		c08gedcomText(k, level+1, sb)
	}
}

// c08individuals decodes the two trees as individuals of one document each and compares the
// IndividualNodes; afterwards the consumer (html.IndividualCompare, which calls CompareNodes and
// Sort on filtered copies) renders the pair and both documents must still encode as before.
func c08individuals(c *Ctx, lt, rt *TNode, ops string) {
	mk := func(t *TNode, ptr string) (*gedcom.Document, *gedcom.IndividualNode) {
		t.Tag, t.Value, t.Ptr = "INDI", "", ptr
		var sb strings.Builder
		c08gedcomText(t, 0, &sb)
		doc, err := gedcom.NewDocumentFromString(sb.String())
		if err != nil || len(doc.Individuals()) != 1 {
			return nil, nil
		}
		return doc, doc.Individuals()[0]
	}
	ld, li := mk(lt, "I1")
	rd, ri := mk(rt, "I2")
	if li == nil || ri == nil {
		c.Count("skipped: document stream did not decode")
		return
	}
	before := ld.String() + "|" + rd.String()
	if !c08run(c, "individuals of two documents", li, ri, ops) {
		// already reported; the modified trees are DAGs in the unrepaired code, nothing below is bounded
		return
	}
	func() {
		defer func() {
			if r := recover(); r != nil {
				c.Count("consumer panicked (crashes are C14's concern)")
			}
		}()
		cmp := html.NewIndividualCompare(gedcom.NewIndividualComparison(li, ri, nil), &gedcom.FilterFlags{}, nil,
			gedcom.NewIndividualNodesCompareOptions(), html.LivingVisibilityShow)
		var buf bytes.Buffer
		cmp.WriteHTMLTo(&buf)
		c.Count("consumer html.IndividualCompare rendered")
	}()
	if after := ld.String() + "|" + rd.String(); after != before {
		c.Oracle("", "rendering html.IndividualCompare modified a compared document",
			map[string]string{"left": strings.Split(before, "|")[0], "right": strings.Split(before, "|")[1]}, after, before)
	}
}

// c08run runs one pair of real nodes through the real code: correspondence observation + oracle.
func c08run(c *Ctx, stream string, ln, rn gedcom.Node, ops string) (intact bool) {
	// what the real nodes hold is what the model is told (constructors and the decoder may normalise)
	lt, rt := abstractNode(ln), abstractNode(rn)
	opsTok := ops
	if ops == "" {
		opsTok = "-"
	}
	req := "diff " + opsTok + " " + encTree(lt) + " " + encTree(rt)
	in := c08input{stream, ops, gedcom.GEDCOMString(ln, 0), gedcom.GEDCOMString(rn, 0), req}
	c08reflexive(c, stream, ln, c.R)
	c08reflexive(c, stream, rn, c.R)
	l, r := c08number(ln), c08number(rn)
	transitive := c08transitive(l, r)
	deepEq := func() (b bool) {
		defer func() {
			if recover() != nil {
				b = false
			}
		}()
		return gedcom.DeepEqual(ln, rn)
	}()
	stats := map[string]int{}
	var lines []string
	var d *gedcom.NodeDiff
	mutbits := func() string { return bit(l.changed()) + bit(r.changed()) }
	structureIntact := func(s *c08side) bool {
		i := 0
		ok := true
		var walk func(n gedcom.Node)
		walk = func(n gedcom.Node) {
			if !ok {
				return
			}
			if i >= len(s.nodes) || s.nodes[i] != n {
				ok = false
				return
			}
			i++
			for _, k := range n.Nodes() {
				walk(k)
			}
		}
		walk(s.root)
		return ok && i == len(s.nodes)
	}
	mutated := false
	pure := func(when string) (changed bool) {
		if m := mutbits(); m != "00" || !structureIntact(l) || !structureIntact(r) {
			changed = true
			mutated = true
			side := "left"
			_, cur, _ := c08bounded(ln, 2*len(l.nodes)+8)
			was := in.Left
			if m[0] == '0' && structureIntact(l) {
				_, cur, _ = c08bounded(rn, 2*len(r.nodes)+8)
				side, was = "right", in.Right
			}
			c.Oracle("", "a diff operation modified a compared tree ("+when+")", in,
				"after "+when+" the "+side+" input is:\n"+cur, "unchanged:\n"+was)
		}
		return
	}
	do := func(label string, f func() string) (stop bool) {
		res, panicked := func() (s string, p bool) {
			defer func() {
				if rec := recover(); rec != nil {
					s, p = fmt.Sprintf("panic:%v", rec), true
				}
			}()
			return f(), false
		}()
		if panicked {
			lines = append(lines, "panic")
			c.Oracle("", "a diff operation panicked ("+label+")", in, res, "no panic")
			return true
		}
		lines = append(lines, fmt.Sprintf("%s [%s] %s", res, c08dump(d, l, r), mutbits()))
		if pure(label) {
			// the compared trees are no longer what was compared: later operations would work on
			// (and, in the unrepaired code, keep doubling) the modified trees
			return true
		}
		if len(lines) == 1 {
			c08oracle(c, in, label, d, l, r, stats)
		} else {
			c08oracle(c, in, label, d, l, r, map[string]int{})
		}
		return false
	}
	stopped := do("CompareNodes", func() string { d = gedcom.CompareNodes(ln, rn); return "init" })
	isDeep := false
	if !stopped {
		isDeep = d.IsDeepEqual()
		// two deep-equal inputs give an all-two-sided diff: whether it is owed is decided by the model's
		// guard (equivLevelsB, proved sound) once the driver has answered — see c08compare
		if deepEq && !isDeep {
			c08pending[req] = c08owed{in, d.String(), transitive}
		}
	}
	for i := 0; i < len(ops) && !stopped; i++ {
		op := ops[i]
		label := c08opNames[op]
		stopped = do(label, func() string {
			switch op {
			case 'C':
				d = gedcom.CompareNodes(ln, rn)
				return "-"
			case 'S':
				return hexs(d.String())
			case 'E':
				return bit(d.IsDeepEqual())
			case 'O':
				d.Sort()
				return "-"
			case 'T':
				return hexs(d.Tag().Tag())
			}
			return "?"
		})
		c.Count("op=" + c08opNames[op])
	}
	obs := fmt.Sprintf("g=%s d=%s a=%s ; ", bit(transitive), bit(deepEq), bit(isDeep)) + strings.Join(lines, " ; ")
	if !stopped {
		obs += " ; " + encTree(abstractNode(ln)) + " / " + encTree(abstractNode(rn))
	}
	c.Tie(req, obs)
	c.Eval()
	// distribution
	c.Count("stream=" + stream)
	sz := lt.Size() + rt.Size()
	switch {
	case sz <= 6:
		c.Count("size<=6")
	case sz <= 20:
		c.Count("size 7-20")
	case sz <= 50:
		c.Count("size 21-50")
	default:
		c.Count("size>50")
	}
	c.Count(fmt.Sprintf("depth=%d", c08max(lt.Depth(), rt.Depth())))
	c.Count("ops-length=" + fmt.Sprint(len(ops)))
	if deepEq {
		c.Count("inputs DeepEqual")
	}
	if isDeep {
		c.Count("diff all-two-sided")
	}
	if !transitive {
		c.Count("Equals not an equivalence on some level")
	}
	if d != nil {
		if lt.Size()+rt.Size() > 2*stats["two-sided"]+stats["left-only"]+stats["right-only"] {
			c.Count("several nodes merged into one entry")
		}
		if stats["alone"] > 0 {
			c.Count("has a node without counterpart")
		}
		shape := strings.Map(func(r rune) rune {
			if r >= '0' && r <= '9' {
				return -1
			}
			return r
		}, c08shape(d))
		c.Nontrivial(shape + "/" + ops)
		c.Sample(map[string]string{"stream": stream, "ops": ops, "left": in.Left, "right": in.Right, "diff": d.String()})
	}
	return !mutated
}

func c08max(a, b int) int {
	if a > b {
		return a
	}
	return b
}

// c08shape: the diff as a string of depth/side marks (which sides each entry has)
func c08shape(d *gedcom.NodeDiff) string {
	var sb strings.Builder
	var walk func(e *gedcom.NodeDiff, depth int)
	walk = func(e *gedcom.NodeDiff, depth int) {
		s := "B"
		if gedcom.IsNil(e.Left) {
			s = "R"
		} else if gedcom.IsNil(e.Right) {
			s = "L"
		}
		fmt.Fprintf(&sb, "%c%s", 'a'+byte(depth%26), s)
		for _, c := range e.Children {
			walk(c, depth+1)
		}
	}
	walk(d, 0)
	return sb.String()
}

func c08allOps(maxLen int) []string {
	res := []string{""}
	frontier := []string{""}
	for i := 0; i < maxLen; i++ {
		var next []string
		for _, p := range frontier {
			for _, o := range "CSEOT" {
				next = append(next, p+string(o))
			}
		}
		res = append(res, next...)
		frontier = next
	}
	return res
}

func (g *c08gen) randOps() string {
	n := g.r.Intn(5)
	var sb strings.Builder
	for i := 0; i < n; i++ {
		sb.WriteByte("CSEOTOOS"[g.r.Intn(8)])
	}
	return sb.String()
}

func init() {
	runners["C08"] = func(c *Ctx) {
		c.Rule = "pairs of node trees x operation orders: independent random trees, tree vs permuted copy, tree vs copy with k uniquely tagged leaves inserted/removed under plain parents, tree vs edited copy, RESI chains with non-transitive Equals; every order of {CompareNodes,String,IsDeepEqual,Sort,Tag} up to length 4 on fixed and random pairs, random orders elsewhere; distinct = (which sides each diff entry has, in preorder with depth; operation order)"
		c.Compare = c08compare(c)
		dates, dropped := c08checkDates()
		if len(dropped) > 0 {
			c.Notes = append(c.Notes, "DATE values dropped from the pool because their Years() ties within 1e-9 with a different date kept in the pool (exact fraction in the model, float64 in Go): "+strings.Join(dropped, ", "))
		}
		c.Notes = append(c.Notes,
			"DATE values come from a pool of plain, constrained and range dates, phrases and unparsable text without float64 near-ties of Years(); _UID values are valid UUIDs (the repair of malformed-_UID equality is C07's); nodes have up to 45 children (beyond 20 sort.SliceStable merges blocks: the model is exact when isLessThan is a strict weak order on the entries, other cases are set aside as inconclusive); INDI / FAM / HUSB / WIFE / CHIL nodes come from decoded documents")
		g := &c08gen{r: c.R.Fork("trees"), dates: dates}

		// 0. the witness of defect 8 and of the non-transitivity finding, always first
		wl := T("ZROOT", "", "", T("BIRT", "", "", T("DATE", "1900", "")), T("DEAT", "", ""))
		wr := T("ZROOT", "", "", T("BIRT", "", "", T("DATE", "1901", "")), T("DEAT", "", ""))
		resi := func(ds ...string) *TNode {
			t := T("RESI", "", "")
			for _, d := range ds {
				t.Kids = append(t.Kids, T("DATE", d, ""))
			}
			return t
		}
		cl := T("ZROOT", "", "", resi("1900"), resi("1901"), resi("1900", "1901"))
		cr := T("ZROOT", "", "", resi("1900", "1901"), resi("1900"), resi("1901"))
		fixed := [][2]*TNode{{wl, wr}, {cl, cr}}
		for _, ops := range c08allOps(4) {
			c08case(c, "fixed witness", wl.Clone(), wr.Clone(), ops, 0)
		}
		for _, ops := range []string{"", "O", "SOES"} {
			c08case(c, "RESI chain", cl.Clone(), cr.Clone(), ops, 0)
		}
		_ = fixed
		c08corpus(c)

		// 1. every operation order up to length 4 on a few random pairs
		nx := c.N(9, 60)
		for i := 0; i < nx; i++ {
			a := g.root()
			var b *TNode
			switch i % 3 {
			case 0:
				b = c08permute(g.r, a)
				g.edit(b)
			case 1:
				b = g.root()
				b.Tag, b.Value = a.Tag, a.Value
			default:
				b = c08permute(g.r, a)
			}
			for _, ops := range c08allOps(4) {
				c08case(c, "all orders", a.Clone(), b.Clone(), ops, 0)
			}
		}

		// 1c. inputs that share node objects; inputs edited through the API between two diffs
		for i := c.N(1200, 15000); i > 0; i-- {
			c08shared(c, g, g.randOps())
		}
		for i := c.N(900, 12000); i > 0; i-- {
			c08history(c, g)
		}

		// 1a. RESI / EVEN with unparsable, phrase, empty and mixed dates
		for i := c.N(1500, 20000); i > 0; i-- {
			a := g.oddDates()
			b := c08permute(g.r, a)
			switch g.r.Intn(4) {
			case 0:
				g.edit(b)
			case 1:
				b = g.oddDates()
			}
			c08case(c, "RESI/EVEN with unparsable dates", a, b, g.randOps(), 0)
		}

		// 1b. very wide sibling lists (60..140)
		for i := c.N(260, 4000); i > 0; i-- {
			a, b, kind := g.veryWide()
			ops := g.r.Pick([]string{"", "", "E", "S", "ES", "C", "O", "T"})
			c.Count("very wide: " + kind)
			c08case(c, "60..140 siblings", a, b, ops, 0)
		}

		// 2. random pairs, random orders
		n := c.N(19000, 400000)
		for i := 0; i < n; i++ {
			a := g.root()
			ops := g.randOps()
			switch g.r.Intn(12) {
			case 10: // more than 20 children
				safe := !g.r.Chance(1, 4)
				a = g.wide(safe)
				var b *TNode
				if g.r.Bool() {
					b = c08permute(g.r, a)
					g.edit(b)
				} else {
					b = g.wide(safe)
				}
				if !strings.Contains(ops, "O") {
					ops += "O"
				}
				c08case(c, "more than 20 children", a, b, ops, 0)
			case 11: // FAM / HUSB / WIFE / CHIL / INDI inside decoded documents
				a = g.family()
				b := c08permute(g.r, a)
				switch g.r.Intn(3) {
				case 0:
					g.edit(b)
				case 1:
					b = g.family()
				}
				c08families(c, a, b, ops)
			case 0, 1, 2: // independent
				b := g.root()
				if g.r.Chance(2, 3) {
					b.Tag, b.Value, b.Ptr = a.Tag, a.Value, a.Ptr
				}
				c08case(c, "independent", a, b, ops, 0)
			case 3, 4: // permuted copy
				c08case(c, "permuted copy", a, c08permute(g.r, a), ops, 0)
			case 5, 6: // inserted leaves
				b := c08permute(g.r, a)
				k := g.r.Range(1, 4)
				ins := g.insertLeaves(b, k)
				if g.r.Bool() {
					c08case(c, "leaves inserted on the right", a, b, ops, len(ins))
				} else {
					c08case(c, "leaves removed (inserted on the left)", b, a, ops, len(ins))
				}
			case 7: // both sides get their own unique leaves
				b := c08permute(g.r, a)
				g.insertLeaves(b, g.r.Range(1, 3))
				a2 := a.Clone()
				g.insertLeaves(a2, g.r.Range(1, 3))
				c08case(c, "leaves inserted on both sides", a2, b, ops, 0)
			case 8: // edited copy; one in three through the decoder as individuals
				b := c08permute(g.r, a)
				g.edit(b)
				if g.r.Chance(1, 3) {
					c08individuals(c, a, b, ops)
				} else {
					c08case(c, "edited copy", a, b, ops, 0)
				}
			default: // RESI / EVEN chains: overlapping date sets
				mk := func() *TNode {
					t := T("ZROOT", "", "")
					for j := g.r.Range(2, 5); j > 0; j-- {
						e := T(g.r.Pick([]string{"RESI", "RESI", "EVEN"}), "", "")
						for q := g.r.Range(0, 3); q > 0; q-- {
							e.Kids = append(e.Kids, T("DATE", g.r.Pick([]string{"1900", "1901", "1850", "Abt. 1900", "Bef. Oct 1943"}), ""))
						}
						if g.r.Chance(1, 3) {
							e.Kids = append(e.Kids, T("PLAC", g.r.Pick(c08values["PLAC"]), ""))
						}
						t.Kids = append(t.Kids, e)
					}
					return t
				}
				a = mk()
				b := c08permute(g.r, a)
				if g.r.Chance(1, 3) {
					b = mk()
				}
				c08case(c, "RESI/EVEN chains", a, b, ops, 0)
			}
		}
	}
}

