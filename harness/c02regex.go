package main

import (
	"fmt"
	"math/big"
	"regexp"
	"strings"
)

// The `regex` stream of C02: the line pattern is compiled by Go's own engine from the literal
// found in decoder.go (the same literal the translator turns into Generated.lineRegex) and run on
// lines; the Lean driver runs its backtracking semantics on the translated pattern (`regex`) and
// the model's deterministic parser (`parseline`) on the same lines.  This validates the part of
// the trusted base that Props/C02 `parseLine_is_the_source_regexp` rests on: the byte-level
// semantics of the regular-expression fragment.

var c02reAlphabet = []string{"0", "1", " ", "@", "A", "_", "-", "é", "\xff", "\n", "\t"}

func c02reObs(re *regexp.Regexp, line string) string {
	m := re.FindStringSubmatch(line)
	if len(m) == 0 {
		return "no"
	}
	for len(m) < 5 {
		m = append(m, "")
	}
	return hexs(m[1]) + " " + hexs(m[2]) + " " + hexs(m[3]) + " " + hexs(m[4])
}

// c02reFields is the field extraction of parseLine on the submatches (exact level, as the model).
func c02reFields(re *regexp.Regexp, line string) string {
	m := re.FindStringSubmatch(line)
	if len(m) < 5 {
		return "no"
	}
	lv := new(big.Int)
	lv.SetString(m[1], 10)
	ptr := ""
	if m[2] != "" && len(m[2]) >= 3 {
		ptr = m[2][1 : len(m[2])-2]
	}
	return lv.String() + " " + hexs(ptr) + " " + hexs(m[3]) + " " + hexs(m[4])
}

func c02regexStream(c *Ctx) {
	f := extractLineRegexFacts()
	if f.Literal == "" {
		c.Count("regex:no-literal-in-source")
		return
	}
	re, err := regexp.Compile(f.Literal)
	if err != nil {
		c.Count("regex:literal-does-not-compile")
		return
	}
	one := func(line string) {
		c.Tie("regex "+hexs(line), c02reObs(re, line))
		if !strings.Contains(line, "\n") {
			c.Tie("parseline "+hexs(line), c02reFields(re, line))
		}
		if re.MatchString(line) {
			c.Count("regex:match")
		} else {
			c.Count("regex:no-match")
		}
	}
	// exhaustive short lines over an alphabet with one byte of every class the pattern separates
	maxLen := c.N(4, 5)
	var rec func(prefix string, left int)
	rec = func(prefix string, left int) {
		one(prefix)
		if left == 0 {
			return
		}
		for _, a := range c02reAlphabet {
			rec(prefix+a, left-1)
		}
	}
	rec("", maxLen)
	// lines of generated and mutated texts, split the way readLine splits them (and sometimes not)
	n := c.N(3000, 60000)
	for i := 0; i < n; i++ {
		var t string
		switch c.R.Intn(3) {
		case 0:
			t = decGenText(c.R, 12, true)
		case 1:
			t = decMutate(c.R, decRealistic)
		default:
			t = decMutate(c.R, decGenText(c.R, 10, false))
		}
		if c.R.Chance(1, 20) {
			one(t) // unsplit: the pattern on text with line breaks inside
			continue
		}
		for _, l := range strings.FieldsFunc(t, func(r rune) bool { return r == '\n' || r == '\r' }) {
			one(l)
		}
	}
	// random strings over the alphabet, longer
	for i := 0; i < n; i++ {
		var sb strings.Builder
		for k := c.R.Intn(24); k > 0; k-- {
			sb.WriteString(c.R.Pick(c02reAlphabet))
		}
		one(sb.String())
	}
	// shapes around every decision of the pattern
	for _, l := range []string{
		"0 A", "0  A", "0 A ", "0 A  ", "0 A  v", "00012 A v", "0 @I1@ A", "0 @I1@ A v", "0 @I1@  A", "0 @I1@A",
		"0 @@ A", "0 @ @ A", "0 @I1@ @I2@ A", "0 @I1@ @I2@", "0 @a@b@ A", "0 @a\nb@ A v", "0 @I1@", "0 @I1@ ",
		"0 A@", "0 A @x@", "0 é", "0 Aé v", "0 A\xffv", "0 @\xff@ A \xc3", "12345678901234567890123 A", "0\tA", "0 _ _",
		"0 A v\n", "0 A\nv", "\n0 A", "0 A v\r", " 0 A", "0", "0 ", "", "A", "@I1@ A", "0 1", "0 1 2", "9 @9@ 9 9",
	} {
		one(l)
	}
	c.Sample(map[string]string{"line": "0 @I1@ NAME  a b", "regex": c02reObs(re, "0 @I1@ NAME  a b"),
		"meaning": "submatches of the source pattern by Go's engine; the Lean semantics must give the same"})
	_ = fmt.Sprint
}
